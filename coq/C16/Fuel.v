(** C16 — the model's fuel: with fuel above (roots + total size of the heap) and passes above the number of
    objects, [gc] never runs out (so the premise [gc ... = Some _] of the theorems is satisfiable for every heap,
    and the bound is the one the drivers use). *)
From Coq Require Import ZArith List Bool PArith FMapPositive Lia.
From ChibiV Require Import C16.Model C16.Spec C16.Proofs C16.GcProofs.
Import ListNotations.

Definition osize (h : objmap) (a : addr) : nat :=
  match PM.find a h with Some o => S (length (strong o)) | None => 0 end.

(** total size of the unmarked objects met by the walk *)
Fixpoint weight (h : objmap) (m : mset) (ord : list addr) : nat :=
  match ord with
  | [] => 0
  | a :: r => (if mem a m then 0 else osize h a) + weight h m r
  end.

Lemma weight_mono : forall h m m' ord, sub m m' -> (weight h m' ord <= weight h m ord)%nat.
Proof.
  intros h m m' ord S. induction ord as [|a r IH]; simpl; auto.
  destruct (mem a m) eqn:Ma.
  - rewrite (S a Ma). simpl. exact IH.
  - destruct (mem a m'); simpl; lia.
Qed.

Lemma weight_madd_notin : forall h m a ord, ~ In a ord -> weight h (madd a m) ord = weight h m ord.
Proof.
  intros h m a. induction ord as [|b r IH]; intros NI; simpl; auto.
  assert (a <> b) by (intros ->; apply NI; simpl; auto).
  rewrite mem_madd_other; auto. rewrite IH; auto. intros X; apply NI; simpl; auto.
Qed.

Lemma weight_mark : forall h m a o ord, NoDup ord -> In a ord -> mem a m = false -> PM.find a h = Some o ->
  (weight h (madd a m) ord + S (length (strong o)) = weight h m ord)%nat.
Proof.
  intros h m a o. induction ord as [|b r IH]; intros ND I Ma Fa; [destruct I|].
  inversion ND as [|? ? NI ND']; subst. simpl. destruct I as [->|I].
  - rewrite mem_madd_same, Ma. rewrite weight_madd_notin; auto. unfold osize. rewrite Fa. lia.
  - assert (a <> b) by (intros ->; auto). rewrite mem_madd_other; auto.
    specialize (IH ND' I Ma Fa). lia.
Qed.

Section Total.
  Variable h : objmap.
  Variable ord : list addr.
  Hypothesis OC : forall a, isobj h a -> In a ord.
  Hypothesis ND : NoDup ord.

  Lemma mark_loop_total : forall fuel w m, (length w + weight h m ord < fuel)%nat ->
    exists m', mark_loop h fuel w m = Some m'.
  Proof.
    induction fuel as [|f IH]; intros w m L; [lia|].
    destruct w as [|r w]; simpl; [eauto|]. simpl in L.
    destruct r as [|a].
    - apply IH. lia.
    - destruct (mem a m) eqn:Ma; [apply IH; lia|].
      destruct (PM.find a h) as [o|] eqn:Fa; [|apply IH; lia].
      apply IH. rewrite app_length.
      assert (Ia : In a ord). { apply OC. unfold isobj. rewrite Fa. discriminate. }
      pose proof (weight_mark h m a o ord ND Ia Ma Fa). lia.
  Qed.

  Lemma mark_extras_total : forall fuel xs st, (1 + weight h (fst st) ord < fuel)%nat ->
    exists st', mark_extras h fuel xs st = Some st'.
  Proof.
    intros fuel. induction xs as [|x xs IH]; intros st L; simpl; [eauto|].
    destruct (ref_live (fst st) x); [apply IH; auto|].
    destruct (mark_loop_total fuel [x] (fst st)) as [m' ML]. { simpl. lia. }
    rewrite ML. apply IH. simpl.
    pose proof (weight_mono h _ _ ord (mark_loop_mono _ _ _ _ _ ML)). lia.
  Qed.

  Lemma eph_visit_total : forall fuel a st, (1 + weight h (fst st) ord < fuel)%nat ->
    exists st', eph_visit h fuel a st = Some st'.
  Proof.
    intros fuel a st L. unfold eph_visit. destruct (mem a (fst st)); [|eauto].
    destruct (PM.find a h) as [o|]; [|eauto].
    destruct (weakp o && existsb (ref_live (fst st)) (weak o)); [|eauto].
    apply mark_extras_total; auto.
  Qed.

  Lemma eph_pass_total : forall fuel l st, (1 + weight h (fst st) ord < fuel)%nat ->
    exists st', eph_pass h fuel l st = Some st'.
  Proof.
    intros fuel. induction l as [|a r IH]; intros st L; simpl; [eauto|].
    destruct (eph_visit_total fuel a st L) as [st1 V]. rewrite V. apply IH.
    pose proof (weight_mono h _ _ ord (eph_visit_mono _ _ _ _ _ V)). lia.
  Qed.

  (** a pass that reports a change has marked an object that was not marked *)
  Definition grew (m m' : mset) : Prop := exists a, isobj h a /\ mem a m = false /\ mem a m' = true.

  Lemma mark_loop_marks_objects : forall fuel a m m', mark_loop h fuel [Ptr a] m = Some m' ->
    mem a m = false -> mem a m' = true -> isobj h a.
  Proof.
    intros fuel a m m' ML Ma Ma'. destruct fuel as [|f]; simpl in ML; [discriminate|].
    rewrite Ma in ML. unfold isobj. destruct (PM.find a h) as [o|] eqn:Fa; [discriminate|].
    destruct f; simpl in ML; inversion ML; subst; congruence.
  Qed.

  Lemma mark_extras_changed : forall fuel xs st st', mark_extras h fuel xs st = Some st' ->
    snd st = false -> snd st' = true -> grew (fst st) (fst st').
  Proof.
    intros fuel. induction xs as [|x xs IH]; intros st st' H F T; simpl in H.
    - inversion H; subst. congruence.
    - destruct (ref_live (fst st) x) eqn:RL; [eauto|].
      destruct (mark_loop h fuel [x] (fst st)) as [m'|] eqn:ML; [|discriminate].
      pose proof (mark_extras_mono _ _ _ _ _ H) as S2. simpl in S2.
      pose proof (mark_loop_mono _ _ _ _ _ ML) as S1.
      destruct (ref_live m' x) eqn:RL'.
      + destruct x as [|a]; [discriminate|]. simpl in RL, RL'.
        exists a. repeat split; auto. eapply mark_loop_marks_objects; eauto.
      + rewrite F in H. simpl in H.
        destruct (IH _ _ H eq_refl T) as [a [Oa [Ma Ma']]]. simpl in Ma.
        exists a. repeat split; auto. destruct (mem a (fst st)) eqn:M0; auto. rewrite (S1 a M0) in Ma. discriminate.
  Qed.

  Lemma eph_visit_changed : forall fuel a st st', eph_visit h fuel a st = Some st' ->
    snd st = false -> snd st' = true -> grew (fst st) (fst st').
  Proof.
    intros fuel a st st' H F T. unfold eph_visit in H.
    destruct (mem a (fst st)); [|inversion H; subst; congruence].
    destruct (PM.find a h) as [o|]; [|inversion H; subst; congruence].
    destruct (weakp o && existsb (ref_live (fst st)) (weak o)); [|inversion H; subst; congruence].
    eapply mark_extras_changed; eauto.
  Qed.

  Lemma eph_pass_changed : forall fuel l st st', eph_pass h fuel l st = Some st' ->
    snd st = false -> snd st' = true -> grew (fst st) (fst st').
  Proof.
    intros fuel. induction l as [|a r IH]; intros st st' H F T; simpl in H.
    - inversion H; subst. congruence.
    - destruct (eph_visit h fuel a st) as [st1|] eqn:V; [|discriminate].
      pose proof (eph_visit_mono _ _ _ _ _ V) as S1. pose proof (eph_pass_mono _ _ _ _ _ H) as S2.
      destruct (snd st1) eqn:F1.
      + destruct (eph_visit_changed _ _ _ _ V F F1) as [b [Ob [Mb Mb']]].
        exists b. repeat split; auto.
      + destruct (IH _ _ H F1 T) as [b [Ob [Mb Mb']]].
        exists b. repeat split; auto. destruct (mem b (fst st)) eqn:M0; auto. rewrite (S1 b M0) in Mb. discriminate.
  Qed.

  (** number of unmarked addresses of the walk *)
  Definition unmarked (m : mset) : nat := length (filter (fun a => negb (mem a m)) ord).

  Lemma filter_len_lt : forall (P Q : addr -> bool) l a, (forall x, Q x = true -> P x = true) ->
    In a l -> P a = true -> Q a = false -> (length (filter Q l) < length (filter P l))%nat.
  Proof.
    intros P Q. induction l as [|b l IH]; intros a Imp I Pa Qa; [destruct I|]. simpl.
    assert (LE : (length (filter Q l) <= length (filter P l))%nat).
    { clear IH I. induction l as [|c l IHl]; simpl; auto. destruct (Q c) eqn:Qc.
      - rewrite (Imp c Qc). simpl. lia.
      - destruct (P c); simpl; lia. }
    destruct I as [->|I].
    - rewrite Pa, Qa. simpl. lia.
    - specialize (IH a Imp I Pa Qa). destruct (Q b) eqn:Qb.
      + rewrite (Imp b Qb). simpl. lia.
      + destruct (P b); simpl; lia.
  Qed.

  Lemma unmarked_grew : forall m m', sub m m' -> grew m m' -> (unmarked m' < unmarked m)%nat.
  Proof.
    intros m m' S [a [Oa [Ma Ma']]]. unfold unmarked.
    apply (filter_len_lt (fun a => negb (mem a m)) (fun a => negb (mem a m')) ord a).
    - intros x Q. destruct (mem x m) eqn:Mx; auto. rewrite (S x Mx) in Q. discriminate.
    - apply OC; auto.
    - rewrite Ma; auto.
    - rewrite Ma'; auto.
  Qed.

  Lemma eph_loop_total : forall fuel passes m, (1 + weight h m ord < fuel)%nat -> (unmarked m < passes)%nat ->
    exists m', eph_loop h fuel ord passes m = Some m'.
  Proof.
    intros fuel. induction passes as [|p IH]; intros m L U; [lia|]. simpl.
    destruct (eph_pass_total fuel ord (m, false) L) as [[m1 c] P]. rewrite P.
    destruct c; [|eauto].
    pose proof (eph_pass_mono _ _ _ _ _ P) as S. simpl in S.
    pose proof (eph_pass_changed _ _ _ _ P eq_refl eq_refl) as G. simpl in G.
    apply IH.
    - pose proof (weight_mono h _ _ ord S). lia.
    - pose proof (unmarked_grew _ _ S G). lia.
  Qed.
End Total.

(** the bound: one unit per root, one per object, one per strong slot *)
Definition total_size (h : heap) : nat := weight (objs h) (PM.empty unit) (order h).

Lemma unmarked_le : forall ord m, (unmarked ord m <= length ord)%nat.
Proof.
  intros ord m. unfold unmarked. induction ord as [|a r IH]; simpl; auto. destruct (negb (mem a m)); simpl; lia.
Qed.

Lemma gc_fuel_suffices_l : forall fuel passes h roots log,
  order_complete h -> NoDup (order h) ->
  (length roots + total_size h + 1 < fuel)%nat -> (length (order h) < passes)%nat ->
  exists r, gc fuel passes h roots log = Some r.
Proof.
  intros fuel passes h roots log OC ND LF LP. unfold gc.
  destruct (mark_loop_total (objs h) (order h) OC ND fuel roots (PM.empty unit)) as [m0 ML].
  { unfold total_size in LF. lia. }
  rewrite ML.
  assert (W0 : (weight (objs h) m0 (order h) <= total_size h)%nat).
  { apply weight_mono. intros a Ma. rewrite mem_empty in Ma. discriminate. }
  destruct (eph_loop_total (objs h) (order h) OC ND fuel passes m0) as [m1 EL].
  - lia.
  - pose proof (unmarked_le (order h) m0). lia.
  - rewrite EL. destruct (finalize m1 (weak_reset m1 (objs h)) log (order h)) as [h2 l2]. eauto.
Qed.
