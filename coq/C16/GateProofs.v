(** C16 — proofs about the gate of the weak pass (definitions in Gate.v). *)
From Coq Require Import ZArith List Bool PArith FMapPositive Lia.
From ChibiV Require Import C16.Model C16.Spec C16.Proofs C16.GcProofs C16.History C16.Gate.
Import ListNotations.

(* ------------------------------------------------------------------ a heap without weak objects *)
Lemma xmapi_id : forall (f : positive -> obj -> obj) (m : PM.t obj) i,
  (forall j o, PM.find j m = Some o -> f (FMapPositive.append i j) o = o) -> PM.xmapi f m i = m.
Proof.
  intros f m. induction m as [|l IHl o r IHr]; intros i H; simpl; auto.
  f_equal.
  - apply IHl. intros j x Fj. rewrite <- FMapPositive.append_assoc_0. apply H. simpl. exact Fj.
  - destruct o as [x|]; simpl; auto. f_equal.
    specialize (H xH x eq_refl). rewrite FMapPositive.append_neutral_r in H. exact H.
  - apply IHr. intros j x Fj. rewrite <- FMapPositive.append_assoc_1. apply H. simpl. exact Fj.
Qed.

Lemma weak_reset_no_weak : forall m h, no_weak h -> weak_reset m h = h.
Proof.
  intros m h NW. unfold weak_reset, PM.mapi. apply xmapi_id. intros j o Fj.
  rewrite FMapPositive.append_neutral_l. destruct (mem j m); auto. apply reset_obj_nonweak. eapply NW; eauto.
Qed.

Lemma eph_pass_no_weak : forall h fuel ord st, no_weak h -> eph_pass h fuel ord st = Some st.
Proof.
  intros h fuel ord. induction ord as [|a r IH]; intros st NW; simpl; auto.
  assert (V : eph_visit h fuel a st = Some st).
  { unfold eph_visit. destruct (mem a (fst st)); auto. destruct (PM.find a h) as [o|] eqn:Fa; auto.
    rewrite (NW _ _ Fa). reflexivity. }
  rewrite V. apply IH; auto.
Qed.

(** skipping the weak pass cannot be observed on a heap without weak objects *)
Lemma gate_off_sound_l : forall fuel passes h roots log, no_weak (objs h) ->
  gc_gated false fuel (S passes) h roots log = gc fuel (S passes) h roots log.
Proof.
  intros fuel passes h roots log NW. unfold gc_gated, gc.
  destruct (mark_loop (objs h) fuel roots (PM.empty unit)) as [m0|]; auto.
  simpl. rewrite (eph_pass_no_weak (objs h) fuel (order h) (m0, false) NW).
  rewrite (weak_reset_no_weak m0 (objs h) NW). reflexivity.
Qed.

(* ------------------------------------------------------------------ histories: no weak object before the first make-ephemeron *)
Lemma no_weak_add : forall h a o, no_weak h -> weakp o = false -> no_weak (PM.add a o h).
Proof.
  intros h a o NW W b x F. destruct (Pos.eq_dec b a) as [->|N].
  - rewrite PM.gss in F. inversion F; subst; auto.
  - rewrite PM.gso in F; auto. eapply NW; eauto.
Qed.

Lemma no_weak_same_shape : forall h h', same_shape h h' -> no_weak h -> no_weak h'.
Proof.
  intros h h' S NW a o' F. specialize (S a). rewrite F in S. destruct (PM.find a h) as [o|] eqn:Fa; [|discriminate].
  simpl in S. unfold shape in S. assert (W : weakp o = false) by (eapply NW; eauto). inversion S. congruence.
Qed.

Lemma no_weak_finalize_port : forall h log p, no_weak h -> no_weak (fst (finalize_port h log p)).
Proof. intros h log p. apply no_weak_same_shape, finalize_port_shape. Qed.
Lemma no_weak_finalize_fileno : forall h log p, no_weak h -> no_weak (fst (finalize_fileno h log p)).
Proof. intros h log p. apply no_weak_same_shape, finalize_fileno_shape. Qed.

Lemma weakp_reset_obj : forall m o, weakp (reset_obj m o) = weakp o.
Proof. intros m o. unfold reset_obj. destruct (weakp o) eqn:W; simpl; auto. Qed.

Lemma no_weak_gc : forall fuel passes h roots log h' log' m,
  gc fuel passes h roots log = Some (h', log', m) -> no_weak (objs h) -> no_weak (objs h').
Proof.
  intros fuel passes h roots log h' log' m G NW.
  destruct (gc_unfold _ _ _ _ _ _ _ _ G) as [_ [O _]]. rewrite O.
  assert (N1 : no_weak (weak_reset m (objs h))).
  { intros a o F. rewrite find_weak_reset in F. destruct (PM.find a (objs h)) as [x|] eqn:Fa; [|discriminate].
    simpl in F. inversion F; subst. destruct (mem a m); [rewrite weakp_reset_obj|]; eapply NW; eauto. }
  pose proof (no_weak_same_shape _ _ (finalize_shape m (order h) (weak_reset m (objs h)) log) N1) as N2.
  intros a o F. rewrite find_sweep in F.
  destruct (PM.find a (fst (finalize m (weak_reset m (objs h)) log (order h)))) as [x|] eqn:Fa; [|discriminate].
  destruct (PM.find a m); [|discriminate]. simpl in F. inversion F; subst. eapply N2; eauto.
Qed.

Lemma set_kind_weakp : forall o k, weakp (set_kind o k) = weakp o.
Proof. reflexivity. Qed.

Lemma no_weak_open_fileno : forall i st, no_weak (objs (hp st)) -> no_weak (objs (hp (open_fileno i st))).
Proof. intros i st NW. unfold open_fileno, alloc, with_slot. simpl. apply no_weak_add; auto. Qed.

Lemma fuel_open_fileno : forall i st, fuel (open_fileno i st) = fuel st.
Proof. reflexivity. Qed.

(** every operation except make-ephemeron keeps the heap free of weak objects; no operation changes the fuel *)
Lemma step_no_weak : forall o st st', is_eph o = false -> step o st = Some st' ->
  no_weak (objs (hp st)) -> no_weak (objs (hp st')).
Proof.
  intros o st st' E H NW. destruct o; simpl in E; try discriminate; simpl in H.
  - (* OKey *) inversion H; subst; simpl. apply no_weak_add; auto.
  - (* OCons *) inversion H; subst; simpl. apply no_weak_add; auto.
  - (* ODrop *) inversion H; subst; simpl. auto.
  - (* OGc *)
    destruct (gc (fuel st) (fuel st) (hp st) (roots_of st) (oslog st)) as [[[h' log'] m]|] eqn:G; [|discriminate].
    inversion H; subst; simpl. eapply no_weak_gc; eauto.
  - (* OOpenFile *) inversion H; subst; simpl. apply no_weak_add; auto.
  - (* OFileno *) inversion H; subst. apply no_weak_open_fileno; auto.
  - (* OPortOn *)
    destruct (slot st f) as [|fa]; [inversion H; subst; auto|].
    destruct (PM.find fa (objs (hp st))) as [fo|] eqn:Ff; [|inversion H; subst; auto].
    destruct (kind fo); try (inversion H; subst; auto; fail).
    inversion H; subst; simpl. apply no_weak_add; auto. apply no_weak_add; auto.
    rewrite set_kind_weakp. eapply NW; eauto.
  - (* OClose *)
    destruct (slot st i) as [|p]; [inversion H; subst; auto|].
    destruct (PM.find p (objs (hp st))) as [po|]; [|inversion H; subst; auto].
    destruct (kind po); try (inversion H; subst; auto; fail).
    destruct (finalize_port (objs (hp st)) (oslog st) p) as [h1 log1] eqn:F.
    inversion H; subst; simpl. pose proof (no_weak_finalize_port (objs (hp st)) (oslog st) p NW) as N. rewrite F in N. exact N.
  - (* OCloseFd *)
    destruct (fileno_state st i) as [[|]|]; [| discriminate | inversion H; subst; auto].
    destruct (slot st i) as [|f]; [inversion H; subst; auto|].
    destruct (finalize_fileno (objs (hp st)) (oslog st) f) as [h1 log1] eqn:F.
    inversion H; subst; simpl. pose proof (no_weak_finalize_fileno (objs (hp st)) (oslog st) f NW) as N. rewrite F in N. exact N.
  - (* ODup *)
    destruct (fileno_state st f) as [[|]|]; [| discriminate | inversion H; subst; auto].
    inversion H; subst. apply no_weak_open_fileno; auto.
  - (* ODupTo *)
    destruct (fileno_state st a) as [[|]|]; destruct (fileno_state st b) as [[|]|]; try discriminate; inversion H; subst; auto.
Qed.

Lemma step_fuel : forall o st st', step o st = Some st' -> fuel st' = fuel st.
Proof.
  intros o st st' H. destruct o; simpl in H.
  - inversion H; subst; reflexivity.
  - inversion H; subst; reflexivity.
  - inversion H; subst; reflexivity.
  - inversion H; subst; reflexivity.
  - destruct (gc (fuel st) (fuel st) (hp st) (roots_of st) (oslog st)) as [[[h' log'] m]|]; [|discriminate].
    inversion H; subst; reflexivity.
  - inversion H; subst; reflexivity.
  - inversion H; subst; reflexivity.
  - destruct (slot st f) as [|fa]; [inversion H; subst; auto|].
    destruct (PM.find fa (objs (hp st))) as [fo|]; [|inversion H; subst; auto].
    destruct (kind fo); inversion H; subst; auto.
  - destruct (slot st i) as [|p]; [inversion H; subst; auto|].
    destruct (PM.find p (objs (hp st))) as [po|]; [|inversion H; subst; auto].
    destruct (kind po); try (inversion H; subst; auto; fail).
    destruct (finalize_port (objs (hp st)) (oslog st) p). inversion H; subst; auto.
  - destruct (fileno_state st i) as [[|]|]; [| discriminate | inversion H; subst; auto].
    destruct (slot st i) as [|f]; [inversion H; subst; auto|].
    destruct (finalize_fileno (objs (hp st)) (oslog st) f). inversion H; subst; auto.
  - destruct (fileno_state st f) as [[|]|]; [| discriminate | inversion H; subst; auto].
    inversion H; subst; auto.
  - destruct (fileno_state st a) as [[|]|]; destruct (fileno_state st b) as [[|]|]; try discriminate; inversion H; subst; auto.
Qed.

(** the gated machine and the machine whose weak pass is always on run in lock step *)
Lemma step_gated_eq : forall o flag st, (0 < fuel st)%nat -> (flag = false -> no_weak (objs (hp st))) ->
  step_gated o (flag, st) = option_map (fun st' => (flag || is_eph o, st')) (step o st).
Proof.
  intros o flag st FU NW. destruct o; try reflexivity.
  unfold step_gated. simpl step. simpl is_eph. rewrite orb_false_r.
  destruct flag.
  - unfold gc_gated. destruct (gc (fuel st) (fuel st) (hp st) (roots_of st) (oslog st)) as [[[h' log'] m]|]; reflexivity.
  - destruct (fuel st) as [|f] eqn:Ef; [lia|].
    rewrite gate_off_sound_l; [|apply NW; reflexivity].
    destruct (gc (S f) (S f) (hp st) (roots_of st) (oslog st)) as [[[h' log'] m]|]; reflexivity.
Qed.

Lemma run_gated_eq : forall ops flag st, (0 < fuel st)%nat -> (flag = false -> no_weak (objs (hp st))) ->
  run_gated ops (flag, st) = option_map (fun st' => (flag || existsb is_eph ops, st')) (run ops st).
Proof.
  induction ops as [|o r IH]; intros flag st FU NW; cbn [run_gated run existsb].
  - rewrite orb_false_r. reflexivity.
  - rewrite step_gated_eq; auto. destruct (step o st) as [st1|] eqn:S1; simpl; auto.
    rewrite IH.
    + rewrite orb_assoc. reflexivity.
    + rewrite (step_fuel _ _ _ S1). exact FU.
    + intros F. apply orb_false_iff in F. destruct F as [F1 F2]. eapply step_no_weak; eauto.
Qed.

Lemma init_no_weak : forall n f, no_weak (objs (hp (init n f))).
Proof. intros n f a o F. unfold init in F. simpl in F. rewrite PM.gempty in F. discriminate. Qed.

(** for EVERY history from a fresh context (flag off): the collector with the early return behaves exactly as the
    collector whose weak pass is always on, and the flag is on exactly when make-ephemeron has been called *)
Lemma history_gate_transparent_l : forall ops n f,
  run_gated ops (false, init n (S f)) = option_map (fun st => (existsb is_eph ops, st)) (run ops (init n (S f))).
Proof.
  intros ops n f. rewrite run_gated_eq.
  - reflexivity.
  - simpl. lia.
  - intros _. apply init_no_weak.
Qed.

(** ... so, before the first make-ephemeron, no weak object exists (nothing for the weak pass to do) *)
Lemma history_no_weak_object_before_first_ephemeron_l : forall ops n f st,
  run ops (init n f) = Some st -> existsb is_eph ops = false -> no_weak (objs (hp st)).
Proof.
  intros ops n f. generalize (init_no_weak n f). generalize (init n f).
  induction ops as [|o r IH]; intros st0 NW st R E; simpl in R.
  - inversion R; subst; auto.
  - simpl in E. apply orb_false_iff in E. destruct E as [E1 E2].
    destruct (step o st0) as [st1|] eqn:S1; [|discriminate].
    apply (IH st1); auto. eapply step_no_weak; eauto.
Qed.

(* ------------------------------------------------------------------ immediate keys *)
(** an ephemeron whose key is an immediate is untouched by the weak reset: never broken, value kept *)
Lemma reset_obj_imm_key : forall m o, weak o = [Imm] -> shape (reset_obj m o) = (strong o, weakp o, [Imm], extra o, brokenp o).
Proof.
  intros m o W. unfold reset_obj, shape. destruct (weakp o) eqn:Wp; simpl; rewrite ?W, ?Wp; simpl; auto.
  rewrite orb_false_r. reflexivity.
Qed.

Lemma immediate_key_never_broken_l : forall fuel passes h roots log h' log' m e o,
  order_complete h -> gc fuel passes h roots log = Some (h', log', m) ->
  live (objs h) roots e -> PM.find e (objs h) = Some o -> weak o = [Imm] ->
  exists o', PM.find e (objs h') = Some o' /\ weak o' = [Imm] /\ extra o' = extra o /\ brokenp o' = brokenp o.
Proof.
  intros fuel passes h roots log h' log' m e o OC G L F W.
  destruct (gc_object _ _ _ _ _ _ _ _ OC G e) as [A _].
  destruct (A L o F) as [o' [F' S]]. exists o'. split; auto.
  rewrite reset_obj_imm_key in S; auto. unfold shape in S. inversion S; auto.
Qed.

(* ------------------------------------------------------------------ conditional gates are wrong *)
(** "no need to scan when the value is an immediate": K0; (R1 holds an immediate); E2 := ephemeron(R0, R1); drop R0; gc —
    the weak pass is skipped, the key is swept, and the live ephemeron keeps pointing at it, unbroken *)
Definition dangling_key (st : state) : Prop :=
  exists e o k, In e (obs st) /\ PM.find e (objs (hp st)) = Some o /\ weak o = [Ptr k] /\ brokenp o = false /\
                PM.find k (objs (hp st)) = None.

Definition ops_imm_value : list op := [OKey 0; ODrop 1; OEph 2 0 1; ODrop 0; OGc].

Lemma gate_on_pointer_value_refuted_l :
  (exists st, run_gated_if (fun _ v => is_ptr v) ops_imm_value (false, init 3 100) = Some (false, st) /\ dangling_key st) /\
  (exists st e o, run ops_imm_value (init 3 100) = Some st /\ obs st = [e] /\ PM.find e (objs (hp st)) = Some o /\
                  weak o = [Imm] /\ extra o = [Imm] /\ brokenp o = true).
Proof.
  split.
  - eexists. split; [vm_compute; reflexivity|].
    exists 2%positive. eexists. exists 1%positive. repeat split; try (vm_compute; reflexivity). left; reflexivity.
  - eexists. exists 2%positive. eexists. repeat split; vm_compute; reflexivity.
Qed.

(** "only ephemerons with a heap key need the weak pass": (R0 immediate); K1; E2 := ephemeron(R0, R1); drop R1; gc —
    the value, which the ephemeron must retain (its key is an immediate: always live), is swept *)
Definition dangling_value (st : state) : Prop :=
  exists e o v, In e (obs st) /\ PM.find e (objs (hp st)) = Some o /\ extra o = [Ptr v] /\ PM.find v (objs (hp st)) = None.

Definition ops_imm_key : list op := [ODrop 0; OKey 1; OEph 2 0 1; ODrop 1; OGc].

Lemma gate_on_pointer_key_refuted_l :
  (exists st, run_gated_if (fun k _ => is_ptr k) ops_imm_key (false, init 3 100) = Some (false, st) /\ dangling_value st) /\
  (exists st e o v, run ops_imm_key (init 3 100) = Some st /\ obs st = [e] /\ PM.find e (objs (hp st)) = Some o /\
                    extra o = [Ptr v] /\ isobj (objs (hp st)) v).
Proof.
  split.
  - eexists. split; [vm_compute; reflexivity|].
    exists 2%positive. eexists. exists 1%positive. repeat split; try (vm_compute; reflexivity). left; reflexivity.
  - eexists. exists 2%positive. eexists. exists 1%positive. repeat split; try (vm_compute; reflexivity).
    unfold isobj. vm_compute. discriminate.
Qed.
