(** C16 — finalisers: descriptors owned by unreachable ports / filenos are released by the collection that
    finds them unreachable; closed things stay closed; nothing but [kind] changes. *)
From Coq Require Import ZArith List Bool PArith FMapPositive Lia.
From ChibiV Require Import C16.Model C16.Spec C16.Proofs C16.GcProofs.
Import ListNotations.

Definition port_of (h : objmap) (p : addr) : option (bool * bool * option Z) :=
  match PM.find p h with
  | Some o => match kind o with KPort op nc st => Some (op, nc, st) | _ => None end
  | None => None
  end.

(** how finalisers may change the descriptor state: the log only grows; a fileno keeps fd / no_close, never
    reopens, and when it goes from open to closed its fd is closed (logged) and it was closable; a port keeps
    no_close / stream and never reopens *)
Definition evol (s s' : objmap * list Z) : Prop :=
  (forall x, In x (snd s) -> In x (snd s')) /\
  (forall f op nc fd c, fileno_of (fst s) f = Some (op, nc, fd, c) ->
     exists op' c', fileno_of (fst s') f = Some (op', nc, fd, c') /\ (op = false -> op' = false) /\
                    (op = true -> op' = false -> nc = false /\ In fd (snd s'))) /\
  (forall p op nc st, port_of (fst s) p = Some (op, nc, st) ->
     exists op', port_of (fst s') p = Some (op', nc, st) /\ (op = false -> op' = false)).

Lemma evol_refl : forall s, evol s s.
Proof.
  intros s. repeat split; auto.
  - intros f op nc fd c F. exists op, c. (split; [|split]; auto; intros Ht Hf; rewrite Ht in Hf; discriminate).
  - intros p op nc st F. exists op. auto.
Qed.

Lemma evol_trans : forall a b c, evol a b -> evol b c -> evol a c.
Proof.
  intros a b c [L1 [F1 P1]] [L2 [F2 P2]]. repeat split; auto.
  - intros f op nc fd cnt F. destruct (F1 _ _ _ _ _ F) as [op1 [c1 [G1 [K1 C1]]]].
    destruct (F2 _ _ _ _ _ G1) as [op2 [c2 [G2 [K2 C2]]]].
    exists op2, c2. split; [exact G2|]. split.
    + intros Hf. apply K2, K1, Hf.
    + intros Ht Hf. destruct op1.
      * destruct (C2 eq_refl Hf) as [A B]. split; auto.
      * destruct (C1 Ht eq_refl) as [A B]. split; auto.
  - intros p op nc st F. destruct (P1 _ _ _ _ F) as [op1 [G1 K1]].
    destruct (P2 _ _ _ _ G1) as [op2 [G2 K2]]. exists op2. split; auto.
Qed.

Lemma fileno_of_add_other : forall h f g o, f <> g -> fileno_of (PM.add g o h) f = fileno_of h f.
Proof. intros; unfold fileno_of; rewrite PM.gso; auto. Qed.
Lemma port_of_add_other : forall h f g o, f <> g -> port_of (PM.add g o h) f = port_of h f.
Proof. intros; unfold port_of; rewrite PM.gso; auto. Qed.
Lemma fileno_of_add_same : forall h f o k, fileno_of (PM.add f (set_kind o k) h) f =
  match k with KFileno op nc fd c => Some (op, nc, fd, c) | _ => None end.
Proof. intros; unfold fileno_of; rewrite PM.gss; simpl; reflexivity. Qed.
Lemma port_of_add_same : forall h f o k, port_of (PM.add f (set_kind o k) h) f =
  match k with KPort op nc st => Some (op, nc, st) | _ => None end.
Proof. intros; unfold port_of; rewrite PM.gss; simpl; reflexivity. Qed.

(** primitive steps *)
Lemma evol_log : forall h log x, evol (h, log) (h, log ++ [x]).
Proof.
  intros h log x. repeat split; simpl.
  - intros y I; apply in_or_app; auto.
  - intros f op nc fd c F. exists op, c. (split; [|split]; auto; intros Ht Hf; rewrite Ht in Hf; discriminate).
  - intros p op nc st F. exists op; auto.
Qed.

Lemma evol_fileno_count : forall h log f fo op nc fd c c',
  PM.find f h = Some fo -> kind fo = KFileno op nc fd c ->
  evol (h, log) (PM.add f (set_kind fo (KFileno op nc fd c')) h, log).
Proof.
  intros h log f fo op nc fd c c' F K. repeat split; simpl; auto.
  - intros g op0 nc0 fd0 c0 G. destruct (Pos.eq_dec g f) as [->|N].
    + unfold fileno_of in G. rewrite F, K in G. inversion G; subst.
      exists op0, c'. rewrite fileno_of_add_same. (split; [|split]; auto; intros Ht Hf; rewrite Ht in Hf; discriminate).
    + exists op0, c0. rewrite fileno_of_add_other; auto. (split; [|split]; auto; intros Ht Hf; rewrite Ht in Hf; discriminate).
  - intros p op0 nc0 st G. exists op0. split; auto. destruct (Pos.eq_dec p f) as [->|N].
    + unfold port_of in G. rewrite F, K in G. discriminate.
    + rewrite port_of_add_other; auto.
Qed.

Lemma evol_fileno_close : forall h log f fo fd c,
  PM.find f h = Some fo -> kind fo = KFileno true false fd c ->
  evol (h, log) (PM.add f (set_kind fo (KFileno false false fd c)) h, log ++ [fd]).
Proof.
  intros h log f fo fd c F K. repeat split; simpl.
  - intros y I; apply in_or_app; auto.
  - intros g op0 nc0 fd0 c0 G. destruct (Pos.eq_dec g f) as [->|N].
    + unfold fileno_of in G. rewrite F, K in G. inversion G; subst.
      exists false, c0. rewrite fileno_of_add_same. repeat split; auto. apply in_or_app; right; simpl; auto.
    + exists op0, c0. rewrite fileno_of_add_other; auto. (split; [|split]; auto; intros Ht Hf; rewrite Ht in Hf; discriminate).
  - intros p op0 nc0 st G. exists op0. split; auto. destruct (Pos.eq_dec p f) as [->|N].
    + unfold port_of in G. rewrite F, K in G. discriminate.
    + rewrite port_of_add_other; auto.
Qed.

Lemma evol_port_close : forall h log p o nc st,
  PM.find p h = Some o -> kind o = KPort true nc st ->
  evol (h, log) (PM.add p (set_kind o (KPort false nc st)) h, log).
Proof.
  intros h log p o nc st F K. repeat split; simpl; auto.
  - intros g op0 nc0 fd0 c0 G. exists op0, c0. destruct (Pos.eq_dec g p) as [->|N].
    + unfold fileno_of in G. rewrite F, K in G. discriminate.
    + rewrite fileno_of_add_other; auto. (split; [|split]; auto; intros Ht Hf; rewrite Ht in Hf; discriminate).
  - intros q op0 nc0 st0 G. destruct (Pos.eq_dec q p) as [->|N].
    + unfold port_of in G. rewrite F, K in G. inversion G; subst.
      exists false. rewrite port_of_add_same. auto.
    + exists op0. rewrite port_of_add_other; auto.
Qed.

Lemma finalize_fileno_evol : forall h log f, evol (h, log) (finalize_fileno h log f).
Proof.
  intros h log f. unfold finalize_fileno.
  destruct (PM.find f h) as [o|] eqn:F; [|apply evol_refl].
  destruct (kind o) as [| |op nc fd c] eqn:K; try apply evol_refl.
  destruct op; [|apply evol_refl]. destruct nc; [apply evol_refl|].
  eapply evol_fileno_close; eauto.
Qed.

Lemma finalize_port_evol : forall h log p, evol (h, log) (finalize_port h log p).
Proof.
  intros h log p. unfold finalize_port.
  destruct (PM.find p h) as [o|] eqn:F; [|apply evol_refl].
  destruct (kind o) as [|op nc st|] eqn:K; try apply evol_refl.
  destruct op; [|apply evol_refl].
  pose proof (evol_port_close h log p o nc st F K) as S1.
  set (h1 := PM.add p (set_kind o (KPort false nc st)) h) in *.
  assert (S2 : evol (h, log)
             (match port_fd o with
              | Ptr f => match PM.find f h1 with
                         | Some fo => match kind fo with
                                      | KFileno true fnc fd cnt =>
                                        if nc then (h1, log)
                                        else let h1' := PM.add f (set_kind fo (KFileno true fnc fd (cnt - 1))) h1 in
                                             if (cnt - 1 =? 0)%Z then finalize_fileno h1' log f else (h1', log)
                                      | _ => (h1, log)
                                      end
                         | None => (h1, log)
                         end
              | Imm => (h1, log)
              end)).
  { destruct (port_fd o) as [|f]; auto.
    destruct (PM.find f h1) as [fo|] eqn:Ff; auto.
    destruct (kind fo) as [| |fop fnc fd cnt] eqn:Kf; auto.
    destruct fop; auto. destruct nc; auto.
    pose proof (evol_fileno_count h1 log f fo true fnc fd cnt (cnt - 1) Ff Kf) as S3.
    cbv zeta. destruct (cnt - 1 =? 0)%Z.
    - eapply evol_trans; [exact S1|]. eapply evol_trans; [exact S3|]. apply finalize_fileno_evol.
    - eapply evol_trans; eauto. }
  match goal with |- context [let '(a, b) := ?X in _] => destruct X as [h2 l2] eqn:E end.
  assert (S2' : evol (h, log) (h2, l2)). { rewrite <- E. exact S2. }
  clear S2 E.
  destruct st as [s|]; [destruct nc|]; auto.
  eapply evol_trans; [exact S2'|]. apply evol_log.
Qed.

Lemma finalize_one_evol : forall m st a, evol st (finalize_one m st a).
Proof.
  intros m [h log] a. unfold finalize_one. simpl. destruct (mem a m); [apply evol_refl|].
  destruct (PM.find a h) as [o|]; [|apply evol_refl].
  destruct (kind o).
  - apply evol_refl.
  - apply finalize_port_evol.
  - apply finalize_fileno_evol.
Qed.

Lemma finalize_evol : forall m ord h log, evol (h, log) (finalize m h log ord).
Proof.
  intros m. unfold finalize. induction ord as [|a r IH]; intros h log; simpl.
  - apply evol_refl.
  - destruct (finalize_one m (h, log) a) as [h1 l1] eqn:E.
    eapply evol_trans; [|apply IH]. rewrite <- E. apply finalize_one_evol.
Qed.

(** the finaliser of an unmarked fileno / port leaves it closed *)
Lemma finalize_one_fileno_self : forall m h log f op fd c, mem f m = false ->
  fileno_of h f = Some (op, false, fd, c) ->
  exists c', fileno_of (fst (finalize_one m (h, log) f)) f = Some (false, false, fd, c').
Proof.
  intros m h log f op fd c M F. unfold finalize_one. simpl. rewrite M.
  unfold fileno_of in F. destruct (PM.find f h) as [o|] eqn:Ff; [|discriminate].
  destruct (kind o) as [| |op0 nc0 fd0 c0] eqn:K; try discriminate. inversion F; subst.
  unfold finalize_fileno. rewrite Ff, K. destruct op.
  - simpl. exists c. apply fileno_of_add_same.
  - simpl. exists c. unfold fileno_of. rewrite Ff, K. reflexivity.
Qed.

Lemma finalize_one_port_self : forall m h log p op nc st, mem p m = false ->
  port_of h p = Some (op, nc, st) ->
  port_of (fst (finalize_one m (h, log) p)) p = Some (false, nc, st).
Proof.
  intros m h log p op nc st M F.
  pose proof (finalize_one_evol m (h, log) p) as [_ [_ EP]].
  destruct op.
  2:{ destruct (EP _ _ _ _ F) as [op' [G K]]. rewrite (K eq_refl) in G. exact G. }
  (* open: finalize_port closes it first, the rest of the finaliser never reopens *)
  unfold finalize_one. simpl. rewrite M.
  unfold port_of in F. destruct (PM.find p h) as [o|] eqn:Fp; [|discriminate].
  destruct (kind o) as [|op0 nc0 st0|] eqn:K; try discriminate. inversion F; subst.
  unfold finalize_port. rewrite Fp, K.
  set (h1 := PM.add p (set_kind o (KPort false nc st)) h).
  assert (P1 : port_of h1 p = Some (false, nc, st)) by (unfold h1; apply port_of_add_same).
  assert (S2 : forall h2 l2,
             (match port_fd o with
              | Ptr f => match PM.find f h1 with
                         | Some fo => match kind fo with
                                      | KFileno true fnc fd cnt =>
                                        if nc then (h1, log)
                                        else let h1' := PM.add f (set_kind fo (KFileno true fnc fd (cnt - 1))) h1 in
                                             if (cnt - 1 =? 0)%Z then finalize_fileno h1' log f else (h1', log)
                                      | _ => (h1, log)
                                      end
                         | None => (h1, log)
                         end
              | Imm => (h1, log)
              end) = (h2, l2) -> port_of h2 p = Some (false, nc, st)).
  { intros h2 l2 E. destruct (port_fd o) as [|f]; [inversion E; subst; auto|].
    destruct (PM.find f h1) as [fo|] eqn:Ff; [|inversion E; subst; auto].
    destruct (kind fo) as [| |fop fnc fd cnt] eqn:Kf; try (inversion E; subst; auto; fail).
    destruct fop; [|inversion E; subst; auto].
    destruct nc; [inversion E; subst; auto|].
    pose proof (evol_fileno_count h1 log f fo true fnc fd cnt (cnt - 1) Ff Kf) as [_ [_ S3]].
    destruct (S3 _ _ _ _ P1) as [op3 [G3 K3]]. simpl in G3. rewrite (K3 eq_refl) in G3.
    cbv zeta in E. destruct (cnt - 1 =? 0)%Z.
    - pose proof (finalize_fileno_evol (PM.add f (set_kind fo (KFileno true fnc fd (cnt - 1))) h1) log f) as [_ [_ S4]].
      rewrite E in S4. destruct (S4 _ _ _ _ G3) as [op4 [G4 K4]]. simpl in G4. rewrite (K4 eq_refl) in G4. exact G4.
    - inversion E; subst. exact G3. }
  match goal with |- context [let '(a, b) := ?X in _] => destruct X as [h2 l2] eqn:E end.
  specialize (S2 _ _ eq_refl).
  destruct st as [s|]; [destruct nc|]; simpl; auto.
Qed.

(** the finaliser pass: every unmarked closable fileno met by the walk ends closed, and if it was open its
    descriptor was closed by this pass or before *)
Lemma finalize_closes_unmarked_filenos : forall m ord h log f op fd c,
  In f ord -> mem f m = false -> fileno_of h f = Some (op, false, fd, c) ->
  exists c', fileno_of (fst (finalize m h log ord)) f = Some (false, false, fd, c') /\
             (op = true -> In fd (snd (finalize m h log ord))).
Proof.
  intros m. unfold finalize. induction ord as [|a r IH]; intros h log f op fd c I M F; [destruct I|].
  simpl. destruct (finalize_one m (h, log) a) as [h1 l1] eqn:E.
  pose proof (finalize_one_evol m (h, log) a) as EV. rewrite E in EV.
  destruct (Pos.eq_dec a f) as [->|N].
  - destruct (finalize_one_fileno_self m h log f op fd c M F) as [c1 F1]. rewrite E in F1. simpl in F1.
    pose proof (finalize_evol m r h1 l1) as [L2 [EF2 _]]. unfold finalize in *.
    destruct (EF2 _ _ _ _ _ F1) as [op2 [c2 [G2 [K2 _]]]]. simpl in G2. rewrite (K2 eq_refl) in G2.
    exists c2. split; auto. intros ->. apply L2. simpl.
    destruct EV as [_ [EF1 _]]. destruct (EF1 _ _ _ _ _ F) as [op1 [c1' [G1 [_ C1]]]]. simpl in G1.
    rewrite F1 in G1. inversion G1; subst. destruct (C1 eq_refl eq_refl); auto.
  - destruct I as [->|I]; [congruence|].
    destruct EV as [L1 [EF1 _]]. destruct (EF1 _ _ _ _ _ F) as [op1 [c1 [G1 [K1 C1]]]]. simpl in G1.
    destruct (IH h1 l1 f op1 fd c1 I M G1) as [c' [G' L']]. exists c'. split; auto.
    intros ->. destruct op1; auto.
    pose proof (finalize_evol m r h1 l1) as [L2 _]. unfold finalize in L2. apply L2. simpl.
    destruct (C1 eq_refl eq_refl); auto.
Qed.

Lemma finalize_closes_unmarked_ports : forall m ord h log p op nc st,
  In p ord -> mem p m = false -> port_of h p = Some (op, nc, st) ->
  port_of (fst (finalize m h log ord)) p = Some (false, nc, st).
Proof.
  intros m. unfold finalize. induction ord as [|a r IH]; intros h log p op nc st I M F; [destruct I|].
  simpl. destruct (finalize_one m (h, log) a) as [h1 l1] eqn:E.
  destruct (Pos.eq_dec a p) as [->|N].
  - pose proof (finalize_one_port_self m h log p op nc st M F) as F1. rewrite E in F1. simpl in F1.
    pose proof (finalize_evol m r h1 l1) as [_ [_ EP2]]. unfold finalize in EP2.
    destruct (EP2 _ _ _ _ F1) as [op2 [G2 K2]]. simpl in G2. rewrite (K2 eq_refl) in G2. exact G2.
  - destruct I as [->|I]; [congruence|].
    pose proof (finalize_one_evol m (h, log) a) as EV. rewrite E in EV. destruct EV as [_ [_ EP1]].
    destruct (EP1 _ _ _ _ F) as [op1 [G1 _]]. simpl in G1. eapply IH; eauto.
Qed.

(* ------------------------------------------------------------------ at the level of a collection *)
Lemma fileno_of_weak_reset : forall m h f, fileno_of (weak_reset m h) f = fileno_of h f.
Proof.
  intros m h f. unfold fileno_of. rewrite find_weak_reset. destruct (PM.find f h) as [o|]; simpl; auto.
  destruct (mem f m); auto. unfold reset_obj. destruct (weakp o); reflexivity.
Qed.

Lemma port_of_weak_reset : forall m h f, port_of (weak_reset m h) f = port_of h f.
Proof.
  intros m h f. unfold port_of. rewrite find_weak_reset. destruct (PM.find f h) as [o|]; simpl; auto.
  destruct (mem f m); auto. unfold reset_obj. destruct (weakp o); reflexivity.
Qed.

(** no leak: a closable open fileno that is not live has its descriptor closed by this very collection
    (or it was closed before); the close log never loses entries *)
Lemma gc_closes_unreachable_filenos : forall fuel passes h roots log h' log' m f fd c,
  order_complete h -> gc fuel passes h roots log = Some (h', log', m) ->
  fileno_of (objs h) f = Some (true, false, fd, c) -> ~ live (objs h) roots f ->
  In fd log' /\ (forall x, In x log -> In x log').
Proof.
  intros fuel passes h roots log h' log' m f fd c OC H F NL.
  destruct (gc_unfold _ _ _ _ _ _ _ _ H) as [M [_ [_ L]]].
  pose proof (marks_exact _ _ _ _ _ OC M f) as EX.
  assert (Mf : mem f m = false). { destruct (mem f m) eqn:Mf; auto. exfalso; apply NL, EX; auto. }
  assert (If : In f (order h)).
  { apply OC. unfold isobj. unfold fileno_of in F. destruct (PM.find f (objs h)); [discriminate|discriminate]. }
  rewrite <- (fileno_of_weak_reset m) in F.
  destruct (finalize_closes_unmarked_filenos m (order h) _ log f true fd c If Mf F) as [c' [_ I]].
  subst log'. split; auto.
  pose proof (finalize_evol m (order h) (weak_reset m (objs h)) log) as [L1 _]. exact L1.
Qed.

(** a fileno or port that is live is never touched by a finaliser of ITS OWN (only unmarked objects are
    finalised): a live port is exactly as open after the collection as before *)
Lemma finalize_one_port_other : forall m h log a p, a <> p ->
  port_of (fst (finalize_one m (h, log) a)) p = port_of h p.
Proof.
  intros m h log a p N. unfold finalize_one. simpl. destruct (mem a m) eqn:Ma; auto.
  destruct (PM.find a h) as [o|] eqn:Fa; auto.
  destruct (kind o) as [|op nc st|op nc fd c] eqn:K; auto.
  - unfold finalize_port. rewrite Fa, K. destruct op; auto.
    set (h1 := PM.add a (set_kind o (KPort false nc st)) h).
    assert (P1 : port_of h1 p = port_of h p) by (unfold h1; apply port_of_add_other; auto).
    assert (S2 : forall h2 l2,
               (match port_fd o with
                | Ptr f => match PM.find f h1 with
                           | Some fo => match kind fo with
                                        | KFileno true fnc fd cnt =>
                                          if nc then (h1, log)
                                          else let h1' := PM.add f (set_kind fo (KFileno true fnc fd (cnt - 1))) h1 in
                                               if (cnt - 1 =? 0)%Z then finalize_fileno h1' log f else (h1', log)
                                        | _ => (h1, log)
                                        end
                           | None => (h1, log)
                           end
                | Imm => (h1, log)
                end) = (h2, l2) -> port_of h2 p = port_of h p).
    { intros h2 l2 E. destruct (port_fd o) as [|f]; [inversion E; subst; auto|].
      destruct (PM.find f h1) as [fo|] eqn:Ff; [|inversion E; subst; auto].
      destruct (kind fo) as [| |fop fnc fd cnt] eqn:Kf; try (inversion E; subst; auto; fail).
      destruct fop; [|inversion E; subst; auto].
      destruct nc; [inversion E; subst; auto|].
      assert (P3 : port_of (PM.add f (set_kind fo (KFileno true fnc fd (cnt - 1))) h1) p = port_of h p).
      { rewrite <- P1. destruct (Pos.eq_dec p f) as [->|Nf].
        - unfold port_of at 2. rewrite Ff, Kf. rewrite port_of_add_same. reflexivity.
        - apply port_of_add_other; auto. }
      cbv zeta in E. destruct (cnt - 1 =? 0)%Z.
      - rewrite <- P3. unfold finalize_fileno in E. rewrite PM.gss in E. simpl in E.
        destruct fnc; inversion E; subst; auto.
        destruct (Pos.eq_dec p f) as [->|Nf].
        + rewrite !port_of_add_same. reflexivity.
        + rewrite !port_of_add_other; auto.
      - inversion E; subst. exact P3. }
    match goal with |- context [let '(a, b) := ?X in _] => destruct X as [h2 l2] eqn:E end.
    specialize (S2 _ _ eq_refl).
    destruct st as [s|]; [destruct nc|]; simpl; auto.
  - unfold finalize_fileno. rewrite Fa, K. destruct op; auto. destruct nc; auto. simpl.
    apply port_of_add_other; auto.
Qed.

Lemma finalize_one_port_marked : forall m h log a p, mem p m = true ->
  port_of (fst (finalize_one m (h, log) a)) p = port_of h p.
Proof.
  intros m h log a p Mp. destruct (Pos.eq_dec a p) as [->|N].
  - unfold finalize_one. simpl. rewrite Mp. reflexivity.
  - apply finalize_one_port_other; auto.
Qed.

(** an unmarked open stream port met by the walk has its stream closed (fclose) by this pass *)
Lemma finalize_one_stream_self : forall m h log p s, mem p m = false ->
  port_of h p = Some (true, false, Some s) -> In s (snd (finalize_one m (h, log) p)).
Proof.
  intros m h log p s M F. unfold finalize_one. simpl. rewrite M.
  unfold port_of in F. destruct (PM.find p h) as [o|] eqn:Fp; [|discriminate].
  destruct (kind o) as [|op0 nc0 st0|] eqn:K; try discriminate. inversion F; subst.
  unfold finalize_port. rewrite Fp, K.
  match goal with |- context [let '(a, b) := ?X in _] => destruct X as [h2 l2] end.
  simpl. apply in_or_app; right; simpl; auto.
Qed.

Lemma finalize_closes_unmarked_streams : forall m ord h log p s,
  In p ord -> mem p m = false -> port_of h p = Some (true, false, Some s) ->
  In s (snd (finalize m h log ord)).
Proof.
  intros m. unfold finalize. induction ord as [|a r IH]; intros h log p s I M F; [destruct I|].
  simpl. destruct (finalize_one m (h, log) a) as [h1 l1] eqn:E.
  destruct (Pos.eq_dec a p) as [->|N].
  - pose proof (finalize_one_stream_self m h log p s M F) as I1. rewrite E in I1. simpl in I1.
    pose proof (finalize_evol m r h1 l1) as [L2 _]. unfold finalize in L2. apply L2. exact I1.
  - destruct I as [->|I]; [congruence|].
    pose proof (finalize_one_port_other m h log a p N) as P. rewrite E in P. simpl in P.
    eapply IH; eauto. rewrite P. exact F.
Qed.

Lemma finalize_port_marked : forall m ord h log p, mem p m = true ->
  port_of (fst (finalize m h log ord)) p = port_of h p.
Proof.
  intros m. unfold finalize. induction ord as [|a r IH]; intros h log p Mp; simpl; auto.
  destruct (finalize_one m (h, log) a) as [h1 l1] eqn:E.
  rewrite IH; auto. pose proof (finalize_one_port_marked m h log a p Mp) as P. rewrite E in P. exact P.
Qed.

Lemma gc_live_port_untouched : forall fuel passes h roots log h' log' m p,
  order_complete h -> gc fuel passes h roots log = Some (h', log', m) ->
  live (objs h) roots p -> port_of (objs h') p = port_of (objs h) p.
Proof.
  intros fuel passes h roots log h' log' m p OC H L.
  destruct (gc_unfold _ _ _ _ _ _ _ _ H) as [M [O _]].
  pose proof (marks_exact _ _ _ _ _ OC M p) as EX. apply EX in L.
  unfold port_of at 1. rewrite O, find_sweep_marked; auto.
  fold (port_of (fst (finalize m (weak_reset m (objs h)) log (order h))) p).
  rewrite finalize_port_marked; auto. apply port_of_weak_reset.
Qed.

Lemma gc_closes_unreachable_streams : forall fuel passes h roots log h' log' m p s,
  order_complete h -> gc fuel passes h roots log = Some (h', log', m) ->
  port_of (objs h) p = Some (true, false, Some s) -> ~ live (objs h) roots p -> In s log'.
Proof.
  intros fuel passes h roots log h' log' m p s OC H F NL.
  destruct (gc_unfold _ _ _ _ _ _ _ _ H) as [M [_ [_ L]]].
  pose proof (marks_exact _ _ _ _ _ OC M p) as EX.
  assert (Mp : mem p m = false). { destruct (mem p m) eqn:Mp; auto. exfalso; apply NL, EX; auto. }
  assert (Ip : In p (order h)).
  { apply OC. unfold isobj. unfold port_of in F. destruct (PM.find p (objs h)); discriminate. }
  rewrite <- (port_of_weak_reset m) in F. subst log'.
  eapply finalize_closes_unmarked_streams; eauto.
Qed.
