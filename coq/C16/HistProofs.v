(** C16 — the premises of the collection theorems (order_complete, NoDup order, count_ok) are invariants of every
    history: whatever the interleaving of allocations, drops, explicit closes and collections. *)
From Coq Require Import ZArith List Bool PArith FMapPositive Lia.
From ChibiV Require Import C16.Model C16.Spec C16.Proofs C16.GcProofs C16.FdProofs C16.FdSafety C16.History.
Import ListNotations.

(* ------------------------------------------------------------------ finalisers preserve count_ok *)
Lemma finalize_fileno_count_ok : forall h log g ord, count_ok h ord -> count_ok (fst (finalize_fileno h log g)) ord.
Proof.
  intros h log g ord CO. unfold finalize_fileno. destruct (PM.find g h) as [o|] eqn:Fg; auto.
  destruct (kind o) as [| |op nc0 fd0 c0] eqn:K; auto. destruct op; auto. destruct nc0; auto. simpl.
  intros f' nc' fd' c' F'. destruct (Pos.eq_dec f' g) as [->|N].
  - rewrite fileno_of_add_same in F'. discriminate.
  - rewrite fileno_of_add_other in F'; auto. rewrite (nopen_ext h).
    + eapply CO; eauto.
    + intros. apply open_port_on_add_fileno; auto. rewrite K; auto.
Qed.

Lemma finalize_port_count_ok : forall h log a ord, NoDup ord -> In a ord -> count_ok h ord ->
  count_ok (fst (finalize_port h log a)) ord.
Proof.
  intros h log a ord ND Ia CO. unfold finalize_port.
  destruct (PM.find a h) as [o|] eqn:Fa; auto.
  destruct (kind o) as [|op nc st|] eqn:K; auto. destruct op; auto.
  set (h1 := PM.add a (set_kind o (KPort false nc st)) h).
  assert (E1 : forall f' p, p <> a -> open_port_on h1 f' p = open_port_on h f' p).
  { intros. unfold h1. apply open_port_on_add_other; auto. }
  assert (A1 : forall f', open_port_on h1 f' a = false).
  { intros. unfold open_port_on, h1. rewrite PM.gss. simpl. reflexivity. }
  assert (F1 : forall g, fileno_of h1 g = fileno_of h g).
  { intros g. destruct (Pos.eq_dec g a) as [->|N].
    - unfold h1. rewrite fileno_of_add_same. unfold fileno_of. rewrite Fa, K. reflexivity.
    - unfold h1. apply fileno_of_add_other; auto. }
  assert (LE1 : forall f', (nopen h1 f' ord <= nopen h f' ord)%nat).
  { intros f'. unfold nopen. apply filter_len_le. intros x Ix Px.
    destruct (Pos.eq_dec x a) as [->|N]; [rewrite A1 in Px; discriminate|]. rewrite <- E1; auto. }
  assert (C1 : count_ok h1 ord).
  { intros f' nc' fd' c' F'. rewrite F1 in F'. specialize (CO _ _ _ _ F'). specialize (LE1 f'). lia. }
  assert (S2 : forall h2 l2,
             (match port_fd o with
              | Ptr g => match PM.find g h1 with
                         | Some fo => match kind fo with
                                      | KFileno true fnc fd cnt =>
                                        if nc then (h1, log)
                                        else let h1' := PM.add g (set_kind fo (KFileno true fnc fd (cnt - 1))) h1 in
                                             if (cnt - 1 =? 0)%Z then finalize_fileno h1' log g else (h1', log)
                                      | _ => (h1, log)
                                      end
                         | None => (h1, log)
                         end
              | Imm => (h1, log)
              end) = (h2, l2) -> count_ok h2 ord).
  { intros h2 l2 E. destruct (port_fd o) as [|g] eqn:PF; [inversion E; subst; auto|].
    destruct (PM.find g h1) as [fo|] eqn:Fg; [|inversion E; subst; auto].
    destruct (kind fo) as [| |fop fnc fd cnt] eqn:Kf; try (inversion E; subst; auto; fail).
    destruct fop; [|inversion E; subst; auto].
    destruct nc; [inversion E; subst; auto|].
    assert (Ga : g <> a).
    { intros ->. unfold h1 in Fg. rewrite PM.gss in Fg. inversion Fg; subst fo. simpl in Kf. discriminate. }
    assert (OA : open_port_on h g a = true).
    { unfold open_port_on. rewrite Fa, K, PF. apply Pos.eqb_refl. }
    assert (DR : S (nopen h1 g ord) = nopen h g ord).
    { unfold nopen. apply (filter_len_drop (open_port_on h g) (open_port_on h1 g) ord a); auto. }
    assert (FG : fileno_of h g = Some (true, fnc, fd, cnt)).
    { rewrite <- F1. unfold fileno_of. rewrite Fg, Kf. reflexivity. }
    pose proof (CO _ _ _ _ FG) as CG.
    set (h1' := PM.add g (set_kind fo (KFileno true fnc fd (cnt - 1))) h1) in *.
    assert (E2 : forall f' p, open_port_on h1' f' p = open_port_on h1 f' p).
    { intros. unfold h1'. apply open_port_on_add_fileno; auto. rewrite Kf; auto. }
    assert (C2 : count_ok h1' ord).
    { intros f' nc' fd' c' F'. rewrite (nopen_ext h1); auto. destruct (Pos.eq_dec f' g) as [->|N].
      - unfold h1' in F'. rewrite fileno_of_add_same in F'. inversion F'; subst. lia.
      - unfold h1' in F'. rewrite fileno_of_add_other in F'; auto. eapply C1; eauto. }
    cbv zeta in E. destruct (cnt - 1 =? 0)%Z.
    - pose proof (finalize_fileno_count_ok h1' log g ord C2) as FC. fold h1' in E. rewrite E in FC. exact FC.
    - fold h1' in E. inversion E; subst. exact C2. }
  match goal with |- context [let '(a, b) := ?X in _] => destruct X as [h2 l2] eqn:E end.
  specialize (S2 _ _ eq_refl).
  destruct st as [s|]; [destruct nc|]; simpl; auto.
Qed.

Lemma finalize_one_count_ok : forall m h log a ord, NoDup ord -> In a ord -> count_ok h ord ->
  count_ok (fst (finalize_one m (h, log) a)) ord.
Proof.
  intros m h log a ord ND Ia CO. unfold finalize_one. simpl. destruct (mem a m); auto.
  destruct (PM.find a h) as [o|]; auto. destruct (kind o); auto.
  - apply finalize_port_count_ok; auto.
  - apply finalize_fileno_count_ok; auto.
Qed.

Lemma finalize_count_ok : forall m ord l h log, NoDup ord -> (forall a, In a l -> In a ord) -> count_ok h ord ->
  count_ok (fst (fold_left (finalize_one m) l (h, log))) ord.
Proof.
  intros m ord. induction l as [|a l IH]; intros h log ND Sub CO; simpl; auto.
  destruct (finalize_one m (h, log) a) as [h1 l1] eqn:E. apply IH; auto.
  - intros; apply Sub; simpl; auto.
  - pose proof (finalize_one_count_ok m h log a ord ND (Sub a (or_introl eq_refl)) CO) as C. rewrite E in C. exact C.
Qed.

Lemma filter_filter_len_le : forall (P Q M : addr -> bool) l, (forall x, P x = true -> Q x = true) ->
  (length (filter P (filter M l)) <= length (filter Q l))%nat.
Proof.
  intros P Q M. induction l as [|a l IH]; intros H; simpl; auto.
  specialize (IH H). destruct (M a); simpl.
  - destruct (P a) eqn:Pa.
    + rewrite (H a Pa). simpl. lia.
    + destruct (Q a); simpl; lia.
  - destruct (Q a); simpl; lia.
Qed.

Lemma gc_count_ok : forall fuel passes h roots log h' log' m,
  NoDup (order h) -> count_ok (objs h) (order h) -> gc fuel passes h roots log = Some (h', log', m) ->
  count_ok (objs h') (order h').
Proof.
  intros fuel passes h roots log h' log' m ND CO H.
  destruct (gc_unfold _ _ _ _ _ _ _ _ H) as [_ [O [OR _]]].
  assert (CO' : count_ok (weak_reset m (objs h)) (order h)).
  { intros g gnc gfd gc0 G. rewrite fileno_of_weak_reset in G. rewrite (nopen_ext (objs h)).
    - eapply CO; eauto.
    - intros; apply open_port_on_weak_reset. }
  pose proof (finalize_count_ok m (order h) (order h) (weak_reset m (objs h)) log ND (fun a H => H) CO') as C2.
  fold (finalize m (weak_reset m (objs h)) log (order h)) in C2.
  set (h2 := fst (finalize m (weak_reset m (objs h)) log (order h))) in *.
  intros f nc fd c F. rewrite O in F. rewrite OR.
  assert (F2 : fileno_of h2 f = Some (true, nc, fd, c)).
  { unfold fileno_of in *. rewrite find_sweep in F. destruct (PM.find f h2); simpl in F; [|discriminate].
    destruct (PM.find f m); simpl in F; [exact F|discriminate]. }
  specialize (C2 _ _ _ _ F2). unfold nopen in *.
  assert (LE : (length (filter (open_port_on (objs h') f) (filter (fun a => mem a m) (order h))) <=
                length (filter (open_port_on h2 f) (order h)))%nat).
  { apply filter_filter_len_le. intros x Px. unfold open_port_on in *. rewrite O, find_sweep in Px.
    destruct (PM.find x h2); simpl in Px; [|discriminate]. destruct (PM.find x m); simpl in Px; [exact Px|discriminate]. }
  lia.
Qed.

(* ------------------------------------------------------------------ invariants of a history *)
Definition hist_inv (st : state) : Prop :=
  order_complete (hp st) /\ NoDup (order (hp st)) /\
  (forall a, In a (order (hp st)) -> (a < next st)%positive) /\
  count_ok (objs (hp st)) (order (hp st)) /\
  (forall a o b, PM.find a (objs (hp st)) = Some o -> In (Ptr b) (strong o) -> (b < next st)%positive) /\
  (forall b, In (Ptr b) (slots st) -> (b < next st)%positive).

Lemma set_nth_in : forall l i r x, In x (set_nth l i r) -> In x l \/ x = r.
Proof.
  induction l as [|y l IH]; intros i r x H; simpl in H; [destruct H|].
  destruct i; simpl in H.
  - destruct H as [<-|H]; auto. left; simpl; auto.
  - destruct H as [<-|H]; [left; simpl; auto|]. destruct (IH _ _ _ H); auto. left; simpl; auto.
Qed.

Lemma nth_in_or_default : forall (l : list ref) i, In (nth i l Imm) l \/ nth i l Imm = Imm.
Proof.
  induction l as [|y l IH]; intros i; destruct i; simpl; auto. destruct (IH i); auto.
Qed.

Lemma slot_lt : forall st i b, hist_inv st -> slot st i = Ptr b -> (b < next st)%positive.
Proof.
  intros st i b [_ [_ [_ [_ [_ SL]]]]] E. unfold slot in E.
  destruct (nth_in_or_default (slots st) i) as [I|I]; [|congruence]. apply SL. rewrite <- E. exact I.
Qed.

Lemma fresh_not_obj : forall st, hist_inv st -> PM.find (next st) (objs (hp st)) = None.
Proof.
  intros st [OC [_ [LT _]]]. destruct (PM.find (next st) (objs (hp st))) eqn:F; auto.
  assert (I : In (next st) (order (hp st))). { apply OC. unfold isobj. rewrite F. discriminate. }
  apply LT in I. lia.
Qed.

Lemma nopen_app : forall h f l1 l2, nopen h f (l1 ++ l2) = (nopen h f l1 + nopen h f l2)%nat.
Proof. intros; unfold nopen. rewrite filter_app, app_length. reflexivity. Qed.

Lemma NoDup_snoc : forall (l : list addr) x, NoDup l -> ~ In x l -> NoDup (l ++ [x]).
Proof.
  induction l as [|y l IH]; intros x ND NI; simpl.
  - constructor; [intros []|constructor].
  - inversion ND; subst. constructor.
    + intros I. apply in_app_or in I. destruct I as [I|[->|[]]]; auto. apply NI; simpl; auto.
    + apply IH; auto. intros I; apply NI; simpl; auto.
Qed.

(** allocation of an object o whose strong slots are below next: all invariants but count_ok, and how counting changes *)
Lemma alloc_inv_base : forall st o, hist_inv st ->
  (forall b, In (Ptr b) (strong o) -> (b < next st)%positive) ->
  let st1 := fst (alloc st o) in
  order_complete (hp st1) /\ NoDup (order (hp st1)) /\
  (forall a, In a (order (hp st1)) -> (a < next st1)%positive) /\
  (forall a o' b, PM.find a (objs (hp st1)) = Some o' -> In (Ptr b) (strong o') -> (b < next st1)%positive) /\
  (forall b, In (Ptr b) (slots st1) -> (b < next st1)%positive).
Proof.
  intros st o I SO. pose proof (fresh_not_obj st I) as FR. destruct I as [OC [ND [LT [CO [CL SL]]]]]. simpl.
  repeat split.
  - intros a Ia. unfold isobj in Ia. simpl in *. apply in_or_app. destruct (Pos.eq_dec a (next st)) as [->|N].
    + right; simpl; auto.
    + rewrite PM.gso in Ia; auto.
  - simpl. apply NoDup_snoc; auto. intros X. apply LT in X. lia.
  - simpl. intros a Ia. apply in_app_or in Ia. destruct Ia as [Ia|[<-|[]]]; [apply LT in Ia|]; lia.
  - simpl. intros a o' b F Ib. destruct (Pos.eq_dec a (next st)) as [->|N].
    + rewrite PM.gss in F. inversion F; subst. apply SO in Ib. lia.
    + rewrite PM.gso in F; auto. specialize (CL _ _ _ F Ib). lia.
  - simpl. intros b Ib. apply SL in Ib. lia.
Qed.

Lemma nopen_ext_in : forall h h' f ord, (forall p, In p ord -> open_port_on h' f p = open_port_on h f p) ->
  nopen h' f ord = nopen h f ord.
Proof.
  intros h h' f ord E. unfold nopen. f_equal. induction ord as [|a l IH]; simpl; auto.
  rewrite E by (simpl; auto). rewrite IH; auto. intros; apply E; simpl; auto.
Qed.

Lemma same_shape_isobj : forall h h' a, same_shape h h' -> (isobj h' a <-> isobj h a).
Proof.
  intros h h' a S. specialize (S a). unfold isobj.
  destruct (PM.find a h), (PM.find a h'); simpl in S; try discriminate; split; intros; try congruence; discriminate.
Qed.

Lemma same_shape_strong : forall h h' a o', same_shape h h' -> PM.find a h' = Some o' ->
  exists o, PM.find a h = Some o /\ strong o = strong o'.
Proof.
  intros h h' a o' S F. specialize (S a). rewrite F in S.
  destruct (PM.find a h) as [o|]; simpl in S; [|discriminate]. exists o. split; auto.
  unfold shape in S. inversion S; auto.
Qed.

(** counting after an allocation at the fresh address n *)
Lemma alloc_count_ok_gen : forall hb ord n o,
  (forall p, In p ord -> p <> n) ->
  (forall f nc fd c, fileno_of (PM.add n o hb) f = Some (true, nc, fd, c) ->
     (Z.of_nat (nopen hb f ord) + (if open_port_on (PM.add n o hb) f n then 1 else 0) <= c)%Z) ->
  count_ok (PM.add n o hb) (ord ++ [n]).
Proof.
  intros hb ord n o NE H f nc fd c F. specialize (H _ _ _ _ F).
  rewrite nopen_app. rewrite (nopen_ext_in hb).
  - unfold nopen at 2. simpl. destruct (open_port_on (PM.add n o hb) f n); simpl; lia.
  - intros p Ip. apply open_port_on_add_other. apply NE; auto.
Qed.

Lemma open_port_on_fresh_target : forall st f p, hist_inv st -> (next st <= f)%positive ->
  open_port_on (objs (hp st)) f p = false.
Proof.
  intros st f p [_ [_ [_ [_ [CL _]]]]] LE. unfold open_port_on.
  destruct (PM.find p (objs (hp st))) as [o|] eqn:F; auto. destruct (kind o) as [|op nc s|]; auto.
  destruct op; auto. destruct nc; auto. destruct (port_fd o) as [|g] eqn:PF; auto.
  destruct (Pos.eqb g f) eqn:E; auto. apply Pos.eqb_eq in E. subst g.
  unfold port_fd in PF. apply nth_In_ref in PF. specialize (CL _ _ _ F PF). lia.
Qed.

Lemma nopen_zero : forall h f ord, (forall p, open_port_on h f p = false) -> nopen h f ord = 0%nat.
Proof.
  intros h f ord Z. unfold nopen. induction ord as [|a l IH]; simpl; auto. rewrite Z. exact IH.
Qed.

Lemma with_slot_inv : forall st i r, hist_inv st -> (forall b, r = Ptr b -> (b < next st)%positive) ->
  hist_inv (with_slot st i r).
Proof.
  intros st i r [OC [ND [LT [CO [CL SL]]]]] R. unfold hist_inv, with_slot; simpl. repeat split; auto.
  intros b Ib. apply set_nth_in in Ib. destruct Ib as [Ib|Ib]; auto.
Qed.

(** allocating an object that is neither an open port on a fileno nor a fileno with ports already on it *)
Lemma alloc_inv_simple : forall st o, hist_inv st ->
  (forall b, In (Ptr b) (strong o) -> (b < next st)%positive) ->
  (forall hb f, open_port_on (PM.add (next st) o hb) f (next st) = false) ->
  (forall hb nc fd c, fileno_of (PM.add (next st) o hb) (next st) = Some (true, nc, fd, c) -> (0 <= c)%Z) ->
  hist_inv (fst (alloc st o)).
Proof.
  intros st o I SO NP FC. destruct (alloc_inv_base st o I SO) as [OC1 [ND1 [LT1 [CL1 SL1]]]].
  pose proof I as [OC [ND [LT [CO [CL SL]]]]].
  unfold hist_inv. repeat split; auto. simpl.
  apply alloc_count_ok_gen.
  - intros p Ip E. subst p. apply LT in Ip. lia.
  - intros f nc fd c F. rewrite NP. destruct (Pos.eq_dec f (next st)) as [->|N].
    + assert (Z : nopen (objs (hp st)) (next st) (order (hp st)) = 0%nat).
      { apply nopen_zero. intros x. apply open_port_on_fresh_target; auto. lia. }
      rewrite Z. specialize (FC _ _ _ _ F). lia.
    + rewrite fileno_of_add_other in F; auto. specialize (CO _ _ _ _ F). lia.
Qed.

Lemma slot_strong_lt : forall st l, hist_inv st -> (forall r, In r l -> exists i, r = slot st i) ->
  forall b, In (Ptr b) l -> (b < next st)%positive.
Proof.
  intros st l I H b Ib. destruct (H _ Ib) as [i E]. eapply slot_lt; eauto.
Qed.

Lemma gc_inv : forall st h' log' m,
  hist_inv st -> gc (fuel st) (fuel st) (hp st) (roots_of st) (oslog st) = Some (h', log', m) ->
  hist_inv (mkState h' (slots st) (obs st) log' (next st) (nextfd st) (fuel st)).
Proof.
  intros st h' log' m I H. pose proof I as [OC [ND [LT [CO [CL SL]]]]].
  destruct (gc_unfold _ _ _ _ _ _ _ _ H) as [M [O [OR _]]].
  pose proof (marks_exact _ _ _ _ _ OC M) as EX.
  pose proof (gc_retains_exactly_live_l _ _ _ _ _ _ _ _ OC H) as RL.
  unfold hist_inv; simpl. repeat split; auto.
  - intros a Ia. apply RL in Ia. rewrite OR. apply filter_In. split.
    + apply OC. eapply live_isobj; eauto.
    + apply EX; auto.
  - rewrite OR. apply NoDup_filter; auto.
  - intros a Ia. rewrite OR in Ia. apply filter_In in Ia. apply LT; tauto.
  - eapply gc_count_ok; eauto.
  - intros a o' b F Ib.
    assert (La : live (objs (hp st)) (roots_of st) a). { apply RL. unfold isobj. rewrite F. discriminate. }
    pose proof (live_isobj _ _ _ La) as Oa. unfold isobj in Oa.
    destruct (PM.find a (objs (hp st))) as [o|] eqn:Fa; [|congruence].
    destruct (gc_live_strong_kept _ _ _ _ _ _ _ _ OC H a o La Fa) as [o'' [F'' S]].
    rewrite F in F''. inversion F''; subst o''. rewrite S in Ib. eapply CL; eauto.
Qed.

Lemma open_fileno_inv : forall i st, hist_inv st -> hist_inv (open_fileno i st).
Proof.
  intros i st I. pose proof I as [OC [ND [LT [CO [CL SL]]]]]. unfold open_fileno.
    destruct (alloc st (mkObj [] false [] [] false (KFileno true false (nextfd st) 0))) as [st1 p] eqn:A.
    assert (I1 : hist_inv st1).
    { replace st1 with (fst (alloc st (mkObj [] false [] [] false (KFileno true false (nextfd st) 0)))) by (rewrite A; auto).
      apply alloc_inv_simple; auto.
      - intros x [].
      - intros. unfold open_port_on. rewrite PM.gss. reflexivity.
      - intros hb nc fd c F. unfold fileno_of in F. rewrite PM.gss in F. simpl in F. inversion F; lia. }
    assert (I2 : hist_inv (with_slot st1 i (Ptr p))).
    { apply with_slot_inv; [exact I1|]. intros x E. inversion E; subst. unfold alloc in A. inversion A; subst. simpl. lia. }
    exact I2.
Qed.

Lemma fileno_state_true : forall st i, fileno_state st i = Some true ->
  exists f fo fd c, slot st i = Ptr f /\ PM.find f (objs (hp st)) = Some fo /\ kind fo = KFileno true false fd c.
Proof.
  intros st i H. unfold fileno_state in H. destruct (slot st i) as [|f]; [discriminate|].
  destruct (PM.find f (objs (hp st))) as [fo|] eqn:F; [|discriminate].
  destruct (kind fo) as [| |op nc fd c] eqn:K; try discriminate. destruct op; [|discriminate]. destruct nc; [discriminate|].
  exists f, fo, fd, c. auto.
Qed.

Theorem step_inv : forall o st st', hist_inv st -> step o st = Some st' -> hist_inv st'.
Proof.
  intros o st st' I H. pose proof I as [OC [ND [LT [CO [CL SL]]]]].
  destruct o as [i|i a b|i k v|i| |i|i|i f|i|i|i f|a b]; unfold step in H; cbv beta iota in H.
  - (* OKey *)
    destruct (alloc st (mkObj [] false [] [] false KPlain)) as [st1 a] eqn:A. inversion H; subst st'.
    assert (I1 : hist_inv st1).
    { replace st1 with (fst (alloc st (mkObj [] false [] [] false KPlain))) by (rewrite A; auto).
      apply alloc_inv_simple; auto.
      - intros b [].
      - intros. unfold open_port_on. rewrite PM.gss. reflexivity.
      - intros hb nc fd c F. unfold fileno_of in F. rewrite PM.gss in F. discriminate F. }
    apply with_slot_inv; [exact I1|]. intros b E. inversion E; subst. unfold alloc in A. inversion A; subst. simpl. lia.
  - (* OCons *)
    destruct (alloc st (mkObj [slot st a; slot st b] false [] [] false KPlain)) as [st1 p] eqn:A. inversion H; subst st'.
    assert (I1 : hist_inv st1).
    { replace st1 with (fst (alloc st (mkObj [slot st a; slot st b] false [] [] false KPlain))) by (rewrite A; auto).
      apply alloc_inv_simple; auto.
      - intros x [E|[E|[]]]; eapply slot_lt; eauto.
      - intros. unfold open_port_on. rewrite PM.gss. reflexivity.
      - intros hb nc fd c F. unfold fileno_of in F. rewrite PM.gss in F. discriminate F. }
    apply with_slot_inv; [exact I1|]. intros x E. inversion E; subst. unfold alloc in A. inversion A; subst. simpl. lia.
  - (* OEph *)
    destruct (alloc st (mkObj [] true [slot st k] [slot st v] false KPlain)) as [st1 e] eqn:A. inversion H; subst st'.
    assert (I1 : hist_inv st1).
    { replace st1 with (fst (alloc st (mkObj [] true [slot st k] [slot st v] false KPlain))) by (rewrite A; auto).
      apply alloc_inv_simple; auto.
      - intros x [].
      - intros. unfold open_port_on. rewrite PM.gss. reflexivity.
      - intros hb nc fd c F. unfold fileno_of in F. rewrite PM.gss in F. discriminate F. }
    assert (I2 : hist_inv (with_slot st1 i (Ptr e))).
    { apply with_slot_inv; [exact I1|]. intros x E. inversion E; subst. unfold alloc in A. inversion A; subst. simpl. lia. }
    exact I2.
  - (* ODrop *)
    inversion H; subst. apply with_slot_inv; auto. intros b E; discriminate.
  - (* OGc *)
    destruct (gc (fuel st) (fuel st) (hp st) (roots_of st) (oslog st)) as [[[h' log'] m]|] eqn:G; [|discriminate].
    inversion H; subst. eapply gc_inv; eauto.
  - (* OOpenFile *)
    destruct (alloc st (mkObj [Imm; Imm; Imm] false [] [] false (KPort true false (Some (nextfd st))))) as [st1 p] eqn:A.
    inversion H; subst st'.
    assert (I1 : hist_inv st1).
    { replace st1 with (fst (alloc st (mkObj [Imm; Imm; Imm] false [] [] false (KPort true false (Some (nextfd st)))))) by (rewrite A; auto).
      apply alloc_inv_simple; auto.
      - intros x [E|[E|[E|[]]]]; discriminate.
      - intros. unfold open_port_on. rewrite PM.gss. reflexivity.
      - intros hb nc fd c F. unfold fileno_of in F. rewrite PM.gss in F. discriminate F. }
    assert (I2 : hist_inv (with_slot st1 i (Ptr p))).
    { apply with_slot_inv; [exact I1|]. intros x E. inversion E; subst. unfold alloc in A. inversion A; subst. simpl. lia. }
    exact I2.
  - (* OFileno *)
    inversion H; subst st'. apply open_fileno_inv; exact I.
  - (* OPortOn *)
    destruct (slot st f) as [|fa] eqn:SF; [inversion H; subst; auto|].
    destruct (PM.find fa (objs (hp st))) as [fo|] eqn:Ffa; [|inversion H; subst; auto].
    destruct (kind fo) as [| |op nc fd c] eqn:Kf; try (inversion H; subst; auto; fail).
    set (h1 := PM.add fa (set_kind fo (KFileno op nc fd (c + 1))) (objs (hp st))) in *.
    set (st0 := mkState (mkHeap h1 (order (hp st))) (slots st) (obs st) (oslog st) (next st) (nextfd st) (fuel st)) in *.
    destruct (alloc st0 (mkObj [Imm; Imm; Ptr fa] false [] [] false (KPort true false None))) as [st1 p] eqn:A.
    inversion H; subst st'. clear H.
    assert (Lfa : (fa < next st)%positive) by (eapply slot_lt; eauto).
    assert (E0 : forall g q, open_port_on h1 g q = open_port_on (objs (hp st)) g q).
    { intros. unfold h1. apply open_port_on_add_fileno; auto. rewrite Kf; auto. }
    assert (SS : same_shape (objs (hp st)) h1) by (unfold h1; apply same_shape_add; auto).
    (* everything but count_ok for st0, through the generic allocation lemma on a weaker st0-invariant *)
    assert (I0 : hist_inv st0).
    { unfold hist_inv, st0; simpl. repeat split; auto.
      - intros a Ia. apply OC. apply (same_shape_isobj _ _ a SS); auto.
      - intros g gnc gfd gc0 G. rewrite (nopen_ext (objs (hp st))); auto.
        destruct (Pos.eq_dec g fa) as [->|N].
        + unfold h1 in G. rewrite fileno_of_add_same in G. inversion G; subst.
          assert (F0 : fileno_of (objs (hp st)) fa = Some (true, gnc, gfd, c)).
          { unfold fileno_of. rewrite Ffa, Kf. reflexivity. }
          specialize (CO _ _ _ _ F0). lia.
        + unfold h1 in G. rewrite fileno_of_add_other in G; auto. eapply CO; eauto.
      - intros a o' b F Ib. destruct (same_shape_strong _ _ _ _ SS F) as [o0 [F0 S0]]. rewrite <- S0 in Ib. eapply CL; eauto. }
    assert (SO : forall b, In (Ptr b) (strong (mkObj [Imm; Imm; Ptr fa] false [] [] false (KPort true false None))) -> (b < next st0)%positive).
    { simpl. intros b [E|[E|[E|[]]]]; try discriminate. inversion E; subst. exact Lfa. }
    destruct (alloc_inv_base st0 _ I0 SO) as [OC1 [ND1 [LT1 [CL1 SL1]]]]. rewrite A in *. simpl in OC1, ND1, LT1, CL1, SL1.
    assert (I1 : hist_inv st1).
    { unfold hist_inv. repeat split; auto.
      unfold alloc in A. inversion A; subst st1 p. simpl.
      apply alloc_count_ok_gen.
      - intros q Iq E. subst q. apply LT in Iq. lia.
      - intros g gnc gfd gc0 G.
        assert (Ng : g <> next st). { intros ->. unfold fileno_of in G. rewrite PM.gss in G. discriminate G. }
        rewrite fileno_of_add_other in G; auto.
        assert (OP : open_port_on (PM.add (next st) (mkObj [Imm; Imm; Ptr fa] false [] [] false (KPort true false None)) h1) g (next st) = Pos.eqb fa g).
        { unfold open_port_on. rewrite PM.gss. reflexivity. }
        rewrite OP. rewrite (nopen_ext (objs (hp st))); auto.
        destruct (Pos.eq_dec g fa) as [->|N].
        + rewrite Pos.eqb_refl. unfold h1 in G. rewrite fileno_of_add_same in G. inversion G; subst.
          assert (F0 : fileno_of (objs (hp st)) fa = Some (true, gnc, gfd, c)).
          { unfold fileno_of. rewrite Ffa, Kf. reflexivity. }
          specialize (CO _ _ _ _ F0). lia.
        + assert (Pos.eqb fa g = false) by (apply Pos.eqb_neq; auto). rewrite H.
          unfold h1 in G. rewrite fileno_of_add_other in G; auto. specialize (CO _ _ _ _ G). lia. }
    apply with_slot_inv; [exact I1|]. intros x E. inversion E; subst. unfold alloc in A. inversion A; subst. simpl. lia.
  - (* OClose *)
    destruct (slot st i) as [|p] eqn:SP; [inversion H; subst; auto|].
    destruct (PM.find p (objs (hp st))) as [po|] eqn:Fp; [|inversion H; subst; auto].
    destruct (kind po) as [|op nc s| ] eqn:Kp; try (inversion H; subst; auto; fail).
    destruct (finalize_port (objs (hp st)) (oslog st) p) as [h1 log1] eqn:FP. inversion H; subst st'. clear H.
    pose proof (finalize_port_shape (objs (hp st)) (oslog st) p) as SS. rewrite FP in SS. simpl in SS.
    assert (Ip : In p (order (hp st))). { apply OC. unfold isobj. rewrite Fp. discriminate. }
    pose proof (finalize_port_count_ok (objs (hp st)) (oslog st) p (order (hp st)) ND Ip CO) as C1. rewrite FP in C1. simpl in C1.
    unfold hist_inv; simpl. repeat split; auto.
    + intros a Ia. apply OC. apply (same_shape_isobj _ _ a SS); auto.
    + intros a o' b F Ib. destruct (same_shape_strong _ _ _ _ SS F) as [o0 [F0 S0]]. rewrite <- S0 in Ib. eapply CL; eauto.
  - (* OCloseFd *)
    destruct (fileno_state st i) as [[|]|] eqn:FS; [|discriminate|inversion H; subst; auto].
    destruct (fileno_state_true _ _ FS) as [f [fo [fd [c [SF [Ff Kf]]]]]]. rewrite SF in H.
    destruct (finalize_fileno (objs (hp st)) (oslog st) f) as [h1 log1] eqn:FF. inversion H; subst st'. clear H.
    pose proof (finalize_fileno_shape (objs (hp st)) (oslog st) f) as SS. rewrite FF in SS. simpl in SS.
    pose proof (finalize_fileno_count_ok (objs (hp st)) (oslog st) f (order (hp st)) CO) as C1. rewrite FF in C1. simpl in C1.
    unfold hist_inv; simpl. repeat split; auto.
    + intros a Ia. apply OC. apply (same_shape_isobj _ _ a SS); auto.
    + intros a o' b F Ib. destruct (same_shape_strong _ _ _ _ SS F) as [o0 [F0 S0]]. rewrite <- S0 in Ib. eapply CL; eauto.
  - (* ODup *)
    destruct (fileno_state st f) as [[|]|]; [|discriminate|inversion H; subst; auto].
    inversion H; subst st'. apply open_fileno_inv; exact I.
  - (* ODupTo *)
    destruct (fileno_state st a) as [[|]|]; destruct (fileno_state st b) as [[|]|]; try discriminate; inversion H; subst; auto.
Qed.

Lemma init_inv : forall n fuel, hist_inv (init n fuel).
Proof.
  intros n fuel. unfold hist_inv, init; simpl. repeat split.
  - intros a Ia. unfold isobj in Ia. rewrite PM.gempty in Ia. congruence.
  - constructor.
  - intros a [].
  - intros f nc fd c F. unfold fileno_of in F. rewrite PM.gempty in F. discriminate.
  - intros a o b F. rewrite PM.gempty in F. discriminate.
  - intros b Ib. apply repeat_spec in Ib. discriminate.
Qed.

Theorem run_inv : forall ops st st', hist_inv st -> run ops st = Some st' -> hist_inv st'.
Proof.
  induction ops as [|o r IH]; intros st st' I H; simpl in H.
  - inversion H; subst; auto.
  - destruct (step o st) as [st1|] eqn:S; [|discriminate]. eapply IH; [|eauto]. eapply step_inv; eauto.
Qed.

(** for every history from the empty state: the premises of the collection theorems hold at every point *)
Lemma history_invariants_l : forall ops n fuel st,
  run ops (init n fuel) = Some st ->
  order_complete (hp st) /\ NoDup (order (hp st)) /\ count_ok (objs (hp st)) (order (hp st)).
Proof.
  intros ops n fuel st H. destruct (run_inv ops _ _ (init_inv n fuel) H) as [OC [ND [_ [CO _]]]]. auto.
Qed.

(** the collection theorems at any point of any history, with no premise left but the model's fuel *)
Lemma history_key_broken_iff_unreachable_l : forall ops n fl st h' log' m e o k,
  run ops (init n fl) = Some st ->
  gc (fuel st) (fuel st) (hp st) (roots_of st) (oslog st) = Some (h', log', m) ->
  live (objs (hp st)) (roots_of st) e -> PM.find e (objs (hp st)) = Some o -> weakp o = true -> weak o = [Ptr k] ->
  exists o', PM.find e (objs h') = Some o' /\
    (live (objs (hp st)) (roots_of st) k -> weak o' = [Ptr k] /\ extra o' = extra o /\ brokenp o' = brokenp o) /\
    (~ live (objs (hp st)) (roots_of st) k -> weak o' = [Imm] /\ extra o' = map (fun _ => Imm) (extra o) /\ brokenp o' = true).
Proof.
  intros ops n fl st h' log' m e o k R G. destruct (history_invariants_l _ _ _ _ R) as [OC _].
  eapply key_broken_iff_unreachable_l; eauto.
Qed.

Lemma history_fd_not_closed_while_live_port_refers_l : forall ops n fl st h' log' m p f nc fd c,
  run ops (init n fl) = Some st ->
  gc (fuel st) (fuel st) (hp st) (roots_of st) (oslog st) = Some (h', log', m) ->
  live (objs (hp st)) (roots_of st) p -> open_port_on (objs (hp st)) f p = true ->
  fileno_of (objs (hp st)) f = Some (true, nc, fd, c) ->
  exists c', fileno_of (objs h') f = Some (true, nc, fd, c').
Proof.
  intros ops n fl st h' log' m p f nc fd c R G. destruct (history_invariants_l _ _ _ _ R) as [OC [ND CO]].
  eapply gc_keeps_fileno_of_live_port; eauto.
Qed.

Lemma history_fd_closed_by_first_collection_l : forall ops n fl st h' log' m f fd c,
  run ops (init n fl) = Some st ->
  gc (fuel st) (fuel st) (hp st) (roots_of st) (oslog st) = Some (h', log', m) ->
  fileno_of (objs (hp st)) f = Some (true, false, fd, c) -> ~ live (objs (hp st)) (roots_of st) f ->
  In fd log' /\ (forall x, In x (oslog st) -> In x log').
Proof.
  intros ops n fl st h' log' m f fd c R G. destruct (history_invariants_l _ _ _ _ R) as [OC _].
  eapply gc_closes_unreachable_filenos; eauto.
Qed.
