(** C16 — every descriptor is closed at most once, over all histories: the close log never contains a
    descriptor twice.  Invariant: the log has no duplicates, descriptors have a single owner (a fileno object or a
    stream port), and the descriptor of an owner that is still open and closable is not in the log. *)
From Coq Require Import ZArith List Bool PArith FMapPositive Lia.
From ChibiV Require Import C16.Model C16.Spec C16.Proofs C16.GcProofs C16.FdProofs C16.FdSafety C16.History C16.HistProofs.
Import ListNotations.

Definition owns (h : objmap) (a : addr) (x : Z) : Prop :=
  (exists op nc c, fileno_of h a = Some (op, nc, x, c)) \/ (exists op nc, port_of h a = Some (op, nc, Some x)).
Definition open_owner (h : objmap) (a : addr) (x : Z) : Prop :=
  (exists c, fileno_of h a = Some (true, false, x, c)) \/ port_of h a = Some (true, false, Some x).

Definition inj (h : objmap) : Prop := forall a b x, owns h a x -> owns h b x -> a = b.

(** [pend = Some (q, s)]: the port q has been marked closed and its stream s is about to be closed *)
Definition bounded (B : Z) (h : objmap) (log : list Z) : Prop :=
  (forall a x, owns h a x -> (x < B)%Z) /\ (forall x, In x log -> (x < B)%Z).

Definition once_inv (B : Z) (h : objmap) (log : list Z) (pend : option (addr * Z)) : Prop :=
  NoDup log /\ inj h /\ (forall a x, open_owner h a x -> ~ In x log) /\ bounded B h log /\
  match pend with
  | Some (q, s) => owns h q s /\ ~ In s log /\ ~ open_owner h q s
  | None => True
  end.

Lemma open_owner_owns : forall h a x, open_owner h a x -> owns h a x.
Proof. intros h a x [[c F]|F]; [left; eauto | right; eauto]. Qed.

Lemma fileno_port_excl : forall h a v w, fileno_of h a = Some v -> port_of h a = Some w -> False.
Proof.
  intros h a v w F P. unfold fileno_of, port_of in *. destruct (PM.find a h) as [o|]; [|discriminate].
  destruct (kind o); discriminate.
Qed.

Lemma owns_fun : forall h a x y, owns h a x -> owns h a y -> x = y.
Proof.
  intros h a x y [[op [nc [c F]]]|[op [nc P]]] [[op' [nc' [c' F']]]|[op' [nc' P']]].
  - rewrite F in F'. inversion F'; auto.
  - exfalso; eapply fileno_port_excl; eauto.
  - exfalso; eapply fileno_port_excl; eauto.
  - rewrite P in P'. inversion P'; auto.
Qed.

(** two heaps with the same owners, where open owners can only have become fewer *)
Definition owners_le (h h' : objmap) : Prop :=
  (forall a x, owns h' a x -> owns h a x) /\ (forall a x, open_owner h' a x -> open_owner h a x).

Lemma once_inv_le : forall B h h' log, owners_le h h' -> once_inv B h log None -> once_inv B h' log None.
Proof.
  intros B h h' log [O1 O2] [ND [IJ [OP [[B1 B2] _]]]]. repeat split; auto.
  - intros a b x A A'. eapply IJ; eauto.
  - intros a x A. apply (OP a). auto.
  - intros a x A. eapply B1; eauto.
Qed.

Lemma NoDup_snoc_Z : forall (l : list Z) x, NoDup l -> ~ In x l -> NoDup (l ++ [x]).
Proof.
  induction l as [|y l IH]; intros x ND NI; simpl.
  - constructor; [intros []|constructor].
  - inversion ND; subst. constructor.
    + intros I. apply in_app_or in I. destruct I as [I|[->|[]]]; auto. apply NI; simpl; auto.
    + apply IH; auto. intros I; apply NI; simpl; auto.
Qed.

(* ---- primitive steps *)
Lemma once_count : forall B h log pend g fo op nc fd c c',
  PM.find g h = Some fo -> kind fo = KFileno op nc fd c ->
  once_inv B h log pend -> once_inv B (PM.add g (set_kind fo (KFileno op nc fd c')) h) log pend.
Proof.
  intros B h log pend g fo op nc fd c c' Fg K I.
  set (h' := PM.add g (set_kind fo (KFileno op nc fd c')) h).
  assert (FO : forall a, fileno_of h' a = if Pos.eq_dec a g then Some (op, nc, fd, c') else fileno_of h a).
  { intros a. destruct (Pos.eq_dec a g) as [->|N]; [apply fileno_of_add_same | apply fileno_of_add_other; auto]. }
  assert (PO : forall a, port_of h' a = port_of h a).
  { intros a. destruct (Pos.eq_dec a g) as [->|N].
    - unfold h'. rewrite port_of_add_same. unfold port_of. rewrite Fg, K. reflexivity.
    - apply port_of_add_other; auto. }
  assert (Fg0 : fileno_of h g = Some (op, nc, fd, c)) by (unfold fileno_of; rewrite Fg, K; reflexivity).
  assert (OW : forall a x, owns h' a x <-> owns h a x).
  { intros a x. unfold owns. rewrite PO, FO. destruct (Pos.eq_dec a g) as [->|N]; [|tauto].
    rewrite Fg0. split; intros [[o1 [n1 [c1 E]]]|R]; auto; inversion E; subst; left; eauto. }
  assert (OO : forall a x, open_owner h' a x <-> open_owner h a x).
  { intros a x. unfold open_owner. rewrite PO, FO. destruct (Pos.eq_dec a g) as [->|N]; [|tauto].
    rewrite Fg0. split; intros [[c1 E]|R]; auto; inversion E; subst; left; eauto. }
  destruct I as [ND [IJ [OP [[B1 B2] PE]]]]. repeat split; auto.
  - intros a b x A A'. apply OW in A. apply OW in A'. eapply IJ; eauto.
  - intros a x A. apply OO in A. apply (OP a); auto.
  - intros a x A. apply OW in A. eapply B1; eauto.
  - destruct pend as [[q s]|]; auto. destruct PE as [P1 [P2 P3]]. repeat split; auto.
    + apply OW; auto.
    + intros A. apply OO in A. auto.
Qed.

Lemma once_fileno : forall B h log pend g, once_inv B h log pend ->
  once_inv B (fst (finalize_fileno h log g)) (snd (finalize_fileno h log g)) pend.
Proof.
  intros B h log pend g I. unfold finalize_fileno.
  destruct (PM.find g h) as [fo|] eqn:Fg; auto.
  destruct (kind fo) as [| |op nc fd c] eqn:K; auto. destruct op; auto. destruct nc; auto. simpl.
  set (h' := PM.add g (set_kind fo (KFileno false false fd c)) h).
  assert (Fg0 : fileno_of h g = Some (true, false, fd, c)) by (unfold fileno_of; rewrite Fg, K; reflexivity).
  assert (FO : forall a, fileno_of h' a = if Pos.eq_dec a g then Some (false, false, fd, c) else fileno_of h a).
  { intros a. destruct (Pos.eq_dec a g) as [->|N]; [apply fileno_of_add_same | apply fileno_of_add_other; auto]. }
  assert (PO : forall a, port_of h' a = port_of h a).
  { intros a. destruct (Pos.eq_dec a g) as [->|N].
    - unfold h'. rewrite port_of_add_same. unfold port_of. rewrite Fg, K. reflexivity.
    - apply port_of_add_other; auto. }
  assert (OW : forall a x, owns h' a x <-> owns h a x).
  { intros a x. unfold owns. rewrite PO, FO. destruct (Pos.eq_dec a g) as [->|N]; [|tauto].
    rewrite Fg0. split; intros [[o1 [n1 [c1 E]]]|R]; auto; inversion E; subst; left; eauto. }
  assert (OO : forall a x, open_owner h' a x -> open_owner h a x /\ a <> g).
  { intros a x. unfold open_owner. rewrite PO, FO. destruct (Pos.eq_dec a g) as [->|N].
    - intros [[c1 E]|R]; [discriminate|]. exfalso. eapply fileno_port_excl; eauto.
    - tauto. }
  assert (OG : open_owner h g fd) by (left; eauto).
  destruct I as [ND [IJ [OP [[B1 B2] PE]]]]. repeat split.
  - apply NoDup_snoc_Z; auto. apply (OP g); auto.
  - intros a b x A A'. apply OW in A. apply OW in A'. eapply IJ; eauto.
  - intros a x A I. destruct (OO _ _ A) as [A0 N]. apply in_app_or in I. destruct I as [I|[E|[]]].
    + eapply OP; eauto.
    + subst x. apply N. eapply IJ; eauto using open_owner_owns.
  - intros a x A. apply OW in A. eapply B1; eauto.
  - intros x I. apply in_app_or in I. destruct I as [I|[E|[]]]; auto. subst x. eapply B1; eauto using open_owner_owns.
  - destruct pend as [[q s]|]; auto. destruct PE as [P1 [P2 P3]]. repeat split.
    + apply OW; auto.
    + intros I. apply in_app_or in I. destruct I as [I|[E|[]]]; auto. subst s.
      assert (q = g) by (eapply IJ; eauto using open_owner_owns). subst q. auto.
    + intros A. destruct (OO _ _ A). auto.
Qed.

Lemma once_drop_pend : forall B h log pend, once_inv B h log pend -> once_inv B h log None.
Proof. intros B h log pend [ND [IJ [OP [BD _]]]]. repeat split; auto; apply BD. Qed.

Lemma once_port_close : forall B h log p o nc st,
  PM.find p h = Some o -> kind o = KPort true nc st -> once_inv B h log None ->
  once_inv B (PM.add p (set_kind o (KPort false nc st)) h) log
           (match st with Some s => if nc then None else Some (p, s) | None => None end).
Proof.
  intros B h log p o nc st Fp K I.
  set (h' := PM.add p (set_kind o (KPort false nc st)) h).
  assert (Pp0 : port_of h p = Some (true, nc, st)) by (unfold port_of; rewrite Fp, K; reflexivity).
  assert (PO : forall a, port_of h' a = if Pos.eq_dec a p then Some (false, nc, st) else port_of h a).
  { intros a. destruct (Pos.eq_dec a p) as [->|N]; [apply port_of_add_same | apply port_of_add_other; auto]. }
  assert (FO : forall a, fileno_of h' a = fileno_of h a).
  { intros a. destruct (Pos.eq_dec a p) as [->|N].
    - unfold h'. rewrite fileno_of_add_same. unfold fileno_of. rewrite Fp, K. reflexivity.
    - apply fileno_of_add_other; auto. }
  assert (OW : forall a x, owns h' a x <-> owns h a x).
  { intros a x. unfold owns. rewrite PO, FO. destruct (Pos.eq_dec a p) as [->|N]; [|tauto].
    rewrite Pp0. split; intros [L|[o1 [n1 E]]]; auto; inversion E; subst; right; eauto. }
  assert (OO : forall a x, open_owner h' a x -> open_owner h a x /\ a <> p).
  { intros a x. unfold open_owner. rewrite PO, FO. destruct (Pos.eq_dec a p) as [->|N].
    - intros [[c1 E]|R]; [|discriminate]. exfalso. eapply fileno_port_excl; eauto.
    - tauto. }
  destruct I as [ND [IJ [OP [[B1 B2] _]]]]. repeat split; auto.
  - intros a b x A A'. apply OW in A. apply OW in A'. eapply IJ; eauto.
  - intros a x A. destruct (OO _ _ A). apply (OP a); auto.
  - intros a x A. apply OW in A. eapply B1; eauto.
  - destruct st as [s|]; auto. destruct nc; auto. repeat split.
    + apply OW. right; eauto.
    + apply (OP p). right; auto.
    + intros A. destruct (OO _ _ A); auto.
Qed.

Lemma once_stream_close : forall B h log q s, once_inv B h log (Some (q, s)) -> once_inv B h (log ++ [s]) None.
Proof.
  intros B h log q s [ND [IJ [OP [[B1 B2] [P1 [P2 P3]]]]]]. repeat split; auto.
  - apply NoDup_snoc_Z; auto.
  - intros a x A I. apply in_app_or in I. destruct I as [I|[E|[]]].
    + eapply OP; eauto.
    + subst x. assert (a = q) by (eapply IJ; eauto using open_owner_owns). subst a. auto.
  - intros x I. apply in_app_or in I. destruct I as [I|[E|[]]]; auto. subst x. eapply B1; eauto.
Qed.

Lemma once_finalize_port : forall B h log p, once_inv B h log None ->
  once_inv B (fst (finalize_port h log p)) (snd (finalize_port h log p)) None.
Proof.
  intros B h log p I. unfold finalize_port.
  destruct (PM.find p h) as [o|] eqn:Fp; auto.
  destruct (kind o) as [|op nc st|] eqn:K; auto. destruct op; auto.
  pose proof (once_port_close B h log p o nc st Fp K I) as I1.
  set (h1 := PM.add p (set_kind o (KPort false nc st)) h) in *.
  set (pend := match st with Some s => if nc then None else Some (p, s) | None => None end) in *.
  assert (S2 : forall h2 l2,
             (match port_fd o with
              | Ptr g => match PM.find g h1 with
                         | Some fo => match kind fo with
                                      | KFileno true fnc fd cnt =>
                                        if nc then (h1, log)
                                        else let h1' := PM.add g (set_kind fo (KFileno true fnc fd (cnt - 1))) h1 in
                                             if (cnt - 1 =? 0)%Z then finalize_fileno h1' log g else (h1', log)
                                      | _ => (h1, log)
                                      end
                         | None => (h1, log)
                         end
              | Imm => (h1, log)
              end) = (h2, l2) -> once_inv B h2 l2 pend).
  { intros h2 l2 E. destruct (port_fd o) as [|g]; [inversion E; subst; auto|].
    destruct (PM.find g h1) as [fo|] eqn:Fg; [|inversion E; subst; auto].
    destruct (kind fo) as [| |fop fnc fd cnt] eqn:Kf; try (inversion E; subst; auto; fail).
    destruct fop; [|inversion E; subst; auto].
    destruct nc eqn:NC; [inversion E; subst; auto|].
    pose proof (once_count B h1 log pend g fo true fnc fd cnt (cnt - 1) Fg Kf I1) as I2.
    cbv zeta in E. destruct (cnt - 1 =? 0)%Z.
    - pose proof (once_fileno B _ log pend g I2) as I3. rewrite E in I3. exact I3.
    - inversion E; subst. exact I2. }
  match goal with |- context [let '(a, b) := ?X in _] => destruct X as [h2 l2] eqn:E end.
  specialize (S2 _ _ eq_refl). unfold pend in S2.
  destruct st as [s|]; [destruct nc|]; simpl; auto.
  eapply once_stream_close; eauto.
Qed.

Lemma once_finalize_one : forall B m h log a, once_inv B h log None ->
  once_inv B (fst (finalize_one m (h, log) a)) (snd (finalize_one m (h, log) a)) None.
Proof.
  intros B m h log a I. unfold finalize_one. simpl. destruct (mem a m); auto.
  destruct (PM.find a h) as [o|]; auto. destruct (kind o); auto.
  - apply once_finalize_port; auto.
  - apply once_fileno; auto.
Qed.

Lemma once_finalize : forall B m ord h log, once_inv B h log None ->
  once_inv B (fst (finalize m h log ord)) (snd (finalize m h log ord)) None.
Proof.
  intros B m. unfold finalize. induction ord as [|a r IH]; intros h log I; simpl; auto.
  pose proof (once_finalize_one B m h log a I) as I1.
  destruct (finalize_one m (h, log) a) as [h1 l1]. simpl in I1. apply IH; auto.
Qed.

Lemma once_gc : forall B fuel passes h roots log h' log' m,
  once_inv B (objs h) log None -> gc fuel passes h roots log = Some (h', log', m) ->
  once_inv B (objs h') log' None.
Proof.
  intros B fuel passes h roots log h' log' m I H.
  destruct (gc_unfold _ _ _ _ _ _ _ _ H) as [_ [O [_ L]]].
  assert (I1 : once_inv B (weak_reset m (objs h)) log None).
  { eapply once_inv_le; eauto. split.
    - intros a x. unfold owns. rewrite fileno_of_weak_reset, port_of_weak_reset. auto.
    - intros a x. unfold open_owner. rewrite fileno_of_weak_reset, port_of_weak_reset. auto. }
  pose proof (once_finalize B m (order h) _ log I1) as I2. rewrite <- L in I2.
  rewrite O. eapply once_inv_le; eauto.
  set (h2 := fst (finalize m (weak_reset m (objs h)) log (order h))).
  assert (FS : forall a v, fileno_of (sweep m h2) a = Some v -> fileno_of h2 a = Some v).
  { intros a v. unfold fileno_of. rewrite find_sweep. destruct (PM.find a h2); simpl; [|discriminate].
    destruct (PM.find a m); simpl; auto; discriminate. }
  assert (PS : forall a v, port_of (sweep m h2) a = Some v -> port_of h2 a = Some v).
  { intros a v. unfold port_of. rewrite find_sweep. destruct (PM.find a h2); simpl; [|discriminate].
    destruct (PM.find a m); simpl; auto; discriminate. }
  split.
  - intros a x [[op [nc [c F]]]|[op [nc P]]]; [left | right]; eauto.
  - intros a x [[c F]|P]; [left | right]; eauto.
Qed.

(* ------------------------------------------------------------------ allocation *)
Lemma owns_add_other : forall h n o a x, a <> n -> (owns (PM.add n o h) a x <-> owns h a x).
Proof. intros h n o a x N. unfold owns. rewrite fileno_of_add_other, port_of_add_other; auto. tauto. Qed.
Lemma open_owner_add_other : forall h n o a x, a <> n -> (open_owner (PM.add n o h) a x <-> open_owner h a x).
Proof. intros h n o a x N. unfold open_owner. rewrite fileno_of_add_other, port_of_add_other; auto. tauto. Qed.

Lemma not_owns_absent : forall h n x, PM.find n h = None -> ~ owns h n x.
Proof.
  intros h n x F [[op [nc [c E]]]|[op [nc E]]]; unfold fileno_of, port_of in E; rewrite F in E; discriminate.
Qed.

(** a new object that owns no descriptor *)
Lemma once_alloc_plain : forall B h log n o, PM.find n h = None -> (forall x, ~ owns (PM.add n o h) n x) ->
  once_inv B h log None -> once_inv B (PM.add n o h) log None.
Proof.
  intros B h log n o F NO I. eapply once_inv_le; eauto. split.
  - intros a x A. destruct (Pos.eq_dec a n) as [->|N]; [exfalso; eapply NO; eauto|]. apply owns_add_other in A; auto.
  - intros a x A. destruct (Pos.eq_dec a n) as [->|N].
    + exfalso. eapply NO. apply open_owner_owns; eauto.
    + apply open_owner_add_other in A; auto.
Qed.

(** a new object that owns exactly the fresh descriptor B *)
Lemma once_alloc_owner : forall B h log n o, PM.find n h = None ->
  (forall x, owns (PM.add n o h) n x -> x = B) ->
  once_inv B h log None -> once_inv (B + 1) (PM.add n o h) log None.
Proof.
  intros B h log n o F OW [ND [IJ [OP [[B1 B2] _]]]]. repeat split; auto.
  - intros a b x A A'. destruct (Pos.eq_dec a n) as [->|Na]; destruct (Pos.eq_dec b n) as [->|Nb]; auto.
    + apply OW in A. subst x. apply owns_add_other in A'; auto. apply B1 in A'. lia.
    + apply OW in A'. subst x. apply owns_add_other in A; auto. apply B1 in A. lia.
    + apply owns_add_other in A; auto. apply owns_add_other in A'; auto. eapply IJ; eauto.
  - intros a x A I. destruct (Pos.eq_dec a n) as [->|N].
    + apply open_owner_owns in A. apply OW in A. subst x. apply B2 in I. lia.
    + apply open_owner_add_other in A; auto. eapply OP; eauto.
  - intros a x A. destruct (Pos.eq_dec a n) as [->|N].
    + apply OW in A. lia.
    + apply owns_add_other in A; auto. apply B1 in A. lia.
  - intros x I. apply B2 in I. lia.
Qed.

Definition full_inv (st : state) : Prop :=
  hist_inv st /\ once_inv (nextfd st) (objs (hp st)) (oslog st) None.

Lemma owns_plain_new : forall h n s w ws ex b x, ~ owns (PM.add n (mkObj s w ws ex b KPlain) h) n x.
Proof.
  intros h n s w ws ex b x [[op [nc [c E]]]|[op [nc E]]]; unfold fileno_of, port_of in E; rewrite PM.gss in E; discriminate.
Qed.

Lemma open_fileno_once : forall i st, hist_inv st -> once_inv (nextfd st) (objs (hp st)) (oslog st) None ->
  once_inv (nextfd (open_fileno i st)) (objs (hp (open_fileno i st))) (oslog (open_fileno i st)) None.
Proof.
  intros i st HI OI. pose proof (fresh_not_obj st HI) as FR. unfold open_fileno, alloc; simpl.
  apply once_alloc_owner; auto.
  intros x [[op [nc [c E]]]|[op [nc E]]]; unfold fileno_of, port_of in E; rewrite PM.gss in E; simpl in E;
    [inversion E; auto | discriminate].
Qed.

Theorem step_full_inv : forall o st st', full_inv st -> step o st = Some st' -> full_inv st'.
Proof.
  intros o st st' [HI OI] H. split; [eapply step_inv; eauto|].
  pose proof (fresh_not_obj st HI) as FR.
  destruct o as [i|i a b|i k v|i| |i|i|i f|i|i|i f|a b]; unfold step in H; cbv beta iota in H.
  - unfold alloc in H. inversion H; subst; simpl. apply once_alloc_plain; auto. intros x. apply owns_plain_new.
  - unfold alloc in H. inversion H; subst; simpl. apply once_alloc_plain; auto. intros x. apply owns_plain_new.
  - unfold alloc in H. inversion H; subst; simpl. apply once_alloc_plain; auto. intros x. apply owns_plain_new.
  - inversion H; subst; simpl. exact OI.
  - destruct (gc (fuel st) (fuel st) (hp st) (roots_of st) (oslog st)) as [[[h' log'] m]|] eqn:G; [|discriminate].
    inversion H; subst; simpl. eapply once_gc; eauto.
  - unfold alloc in H. inversion H; subst; simpl. apply once_alloc_owner; auto.
    intros x [[op [nc [c E]]]|[op [nc E]]]; unfold fileno_of, port_of in E; rewrite PM.gss in E; simpl in E;
      [discriminate | inversion E; auto].
  - inversion H; subst st'. apply open_fileno_once; auto.
  - destruct (slot st f) as [|fa] eqn:SF; [inversion H; subst; auto|].
    destruct (PM.find fa (objs (hp st))) as [fo|] eqn:Ffa; [|inversion H; subst; auto].
    destruct (kind fo) as [| |op nc fd c] eqn:Kf; try (inversion H; subst; auto; fail).
    unfold alloc in H. inversion H; subst; simpl.
    assert (Nfa : next st <> fa) by (intros E; rewrite E in FR; congruence).
    apply once_alloc_plain.
    + rewrite PM.gso; auto.
    + intros x [[op' [nc' [c' E]]]|[op' [nc' E]]]; unfold fileno_of, port_of in E; rewrite PM.gss in E; simpl in E; discriminate.
    + eapply once_count; eauto.
  - destruct (slot st i) as [|p] eqn:SP; [inversion H; subst; auto|].
    destruct (PM.find p (objs (hp st))) as [po|] eqn:Fp; [|inversion H; subst; auto].
    destruct (kind po) as [|op nc s| ] eqn:Kp; try (inversion H; subst; auto; fail).
    pose proof (once_finalize_port (nextfd st) (objs (hp st)) (oslog st) p OI) as I1.
    destruct (finalize_port (objs (hp st)) (oslog st) p) as [h1 log1]. inversion H; subst; simpl. exact I1.
  - (* OCloseFd: the hand-made close is the finaliser's own transition *)
    destruct (fileno_state st i) as [[|]|] eqn:FS; [|discriminate|inversion H; subst; auto].
    destruct (fileno_state_true _ _ FS) as [f [fo [fd [c [SF [Ff Kf]]]]]]. rewrite SF in H.
    pose proof (once_fileno (nextfd st) (objs (hp st)) (oslog st) None f OI) as I1.
    destruct (finalize_fileno (objs (hp st)) (oslog st) f) as [h1 log1]. inversion H; subst; simpl. exact I1.
  - (* ODup *)
    destruct (fileno_state st f) as [[|]|]; [|discriminate|inversion H; subst; auto].
    inversion H; subst st'. apply open_fileno_once; auto.
  - (* ODupTo *)
    destruct (fileno_state st a) as [[|]|]; destruct (fileno_state st b) as [[|]|]; try discriminate; inversion H; subst; auto.
Qed.

Lemma init_full_inv : forall n fuel, full_inv (init n fuel).
Proof.
  intros n fuel. split; [apply init_inv|]. unfold init; simpl. repeat split.
  - constructor.
  - intros a b x [[op [nc [c E]]]|[op [nc E]]]; unfold fileno_of, port_of in E; rewrite PM.gempty in E; discriminate.
  - intros a x A I. destruct I.
  - intros a x [[op [nc [c E]]]|[op [nc E]]]; unfold fileno_of, port_of in E; rewrite PM.gempty in E; discriminate.
  - intros x [].
Qed.

Theorem run_full_inv : forall ops st st', full_inv st -> run ops st = Some st' -> full_inv st'.
Proof.
  induction ops as [|o r IH]; intros st st' I H; simpl in H.
  - inversion H; subst; auto.
  - destruct (step o st) as [st1|] eqn:S; [|discriminate]. eapply IH; [|eauto]. eapply step_full_inv; eauto.
Qed.

(** over every history: no descriptor is closed twice; a descriptor whose owner is still open and closable has
    not been closed; each descriptor has one owner *)
Lemma history_fd_closed_at_most_once_l : forall ops n fl st,
  run ops (init n fl) = Some st ->
  NoDup (oslog st) /\
  (forall a x, open_owner (objs (hp st)) a x -> ~ In x (oslog st)) /\
  (forall a b x, owns (objs (hp st)) a x -> owns (objs (hp st)) b x -> a = b).
Proof.
  intros ops n fl st H. destruct (run_full_inv ops _ _ (init_full_inv n fl) H) as [_ [ND [IJ [OP _]]]]. auto.
Qed.

(** F-C16-2 (repaired in /repo: "fix: close-file-descriptor marks the fileno object closed ..."): close-file-descriptor as
    pinned before the fix was close(2) applied to the number — the fileno object stayed open.  Then the finaliser of the
    dropped object closes the descriptor a second time (by then the number may belong to somebody else). *)
Definition close_fd_pinned (i : nat) (st : state) : state :=
  match slot st i with
  | Ptr f => match PM.find f (objs (hp st)) with
             | Some fo => match kind fo with
                          | KFileno _ _ fd _ =>
                              mkState (hp st) (slots st) (obs st) (oslog st ++ [fd]) (next st) (nextfd st) (fuel st)
                          | _ => st
                          end
             | None => st
             end
  | Imm => st
  end.

Lemma closed_once_refuted_for_pinned_close_file_descriptor_l :
  exists st, run [ODrop 0; OGc] (close_fd_pinned 0 (open_fileno 0 (init 1 100))) = Some st /\ oslog st = [0; 0]%Z.
Proof. eexists; split; vm_compute; reflexivity. Qed.

(** the repaired operation on the same history: closed once *)
Example closed_once_with_repaired_close_file_descriptor :
  exists st, run [OFileno 0; OCloseFd 0; ODrop 0; OGc] (init 1 100) = Some st /\ oslog st = [0]%Z.
Proof. eexists; split; vm_compute; reflexivity. Qed.
