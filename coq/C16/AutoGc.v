(** C16 — automatic collections and the gate of the weak pass (round 4).
    A collection is not only the explicit (gc): sexp_alloc (gc.c) runs sexp_gc whenever its first-fit search fails, i.e.
    INSIDE any allocating operation, with the operands of that operation held by the caller (here: the variable slots).
    For the reachability part of the model that is just one more [OGc] in front of the operation ([expand]).  For the gate
    (SEXP_G_WEAK_OBJECTS_PRESENT, Gate.v) the place of the collection relative to the assignment of the flag inside
    sexp_make_ephemeron_op matters:  the pinned code allocates first and sets the flag afterwards, and nothing ever clears the
    flag.  [policy] spans the two independent edits of that protocol:
      clears      : sexp_reset_weak_references switches the flag off when its walk met no marked weak object
                    (= the heap after the collection holds no weak object: the sweep keeps exactly the marked objects and no
                    phase changes the type of an object);
      sets_before : sexp_make_ephemeron_op sets the flag before sexp_alloc_type instead of after it.
    Pinned = (false, false) — fixed by the (G) facts weak_gate_sites (no site assigns SEXP_FALSE after initialisation) and
    make_ephemeron_sets_gate (whole body: alloc; if not exception { flag = true; ... }).
    Each edit alone is transparent for every schedule, both together are not (AutoGcProofs.v).  Definitions only. *)
From Coq Require Import ZArith List Bool PArith FMapPositive.
From ChibiV Require Import C16.Model C16.History C16.Gate.
Import ListNotations.

Record policy := mkPolicy { clears : bool; sets_before : bool }.
Definition pinned_policy : policy := mkPolicy false false.

(** the walk of sexp_reset_weak_references over the marked objects met a weak one *)
Definition has_weak (h : objmap) : bool := existsb (fun p => weakp (snd p)) (PM.elements h).

(** one sexp_gc with the gate; under [clears] the reset walk (reached only when the flag is on) switches the flag off
    when it met no marked weak object *)
Definition gc_flag (pol : policy) (fs : bool * state) : option (bool * state) :=
  match step_gated OGc fs with
  | None => None
  | Some (fl, st') => Some (if clears pol && fl && negb (has_weak (objs (hp st'))) then false else fl, st')
  end.

(** one scheduled operation: [auto] = the allocation inside the operation triggers a collection (sexp_alloc: first fit
    failed).  make-ephemeron: flag assignment before the allocation under [sets_before], after it otherwise. *)
Definition step_sched (pol : policy) (ao : bool * op) (fs : bool * state) : option (bool * state) :=
  let '(auto, o) := ao in
  match o with
  | OGc => gc_flag pol fs
  | _ =>
    let '(flag, st) := fs in
    let flag1 := flag || (sets_before pol && is_eph o) in
    match (if auto then gc_flag pol (flag1, st) else Some (flag1, st)) with
    | None => None
    | Some (flag2, st2) =>
      match step o st2 with
      | None => None
      | Some st3 => Some (flag2 || (negb (sets_before pol) && is_eph o), st3)
      end
    end
  end.

Fixpoint run_sched (pol : policy) (sched : list (bool * op)) (fs : bool * state) : option (bool * state) :=
  match sched with
  | [] => Some fs
  | ao :: r => match step_sched pol ao fs with None => None | Some fs' => run_sched pol r fs' end
  end.

(** the same history for the machine without gate and without schedule: an automatic collection is a collection in front
    of the operation *)
Definition expand1 (ao : bool * op) : list op :=
  let '(auto, o) := ao in
  match o with
  | OGc => [OGc]
  | _ => if auto then [OGc; o] else [o]
  end.
Definition expand (sched : list (bool * op)) : list op := flat_map expand1 sched.
