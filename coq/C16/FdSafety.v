(** C16 — a descriptor is never closed while a reachable open port refers to it.
    The fileno's count is at least the number of open closable ports on it (count_ok); a marked port is never
    finalised, so the count cannot reach 0 through other ports' finalisers; and the fileno's own finaliser
    cannot run because a marked port keeps its fileno marked. *)
From Coq Require Import ZArith List Bool PArith FMapPositive Lia.
From ChibiV Require Import C16.Model C16.Spec C16.Proofs C16.GcProofs C16.FdProofs.
Import ListNotations.

Definition open_port_on (h : objmap) (f p : addr) : bool :=
  match PM.find p h with
  | Some o => match kind o with
              | KPort true false _ => match port_fd o with Ptr g => Pos.eqb g f | Imm => false end
              | _ => false
              end
  | None => false
  end.

Definition nopen (h : objmap) (f : addr) (ord : list addr) : nat := length (filter (open_port_on h f) ord).

(** sexp_fileno_count(f) >= number of open, closable ports whose fd slot is f *)
Definition count_ok (h : objmap) (ord : list addr) : Prop :=
  forall f nc fd c, fileno_of h f = Some (true, nc, fd, c) -> (Z.of_nat (nopen h f ord) <= c)%Z.

(* ---- counting with filter *)
Lemma filter_len_le : forall (P Q : addr -> bool) l, (forall x, In x l -> P x = true -> Q x = true) ->
  (length (filter P l) <= length (filter Q l))%nat.
Proof.
  intros P Q. induction l as [|a l IH]; intros H; simpl; auto.
  assert (IH' : (length (filter P l) <= length (filter Q l))%nat) by (apply IH; intros; apply H; simpl; auto).
  destruct (P a) eqn:Pa.
  - rewrite (H a (or_introl eq_refl) Pa). simpl. lia.
  - destruct (Q a); simpl; lia.
Qed.

Lemma filter_ext_notin : forall (P Q : addr -> bool) l a, ~ In a l -> (forall x, x <> a -> Q x = P x) ->
  filter Q l = filter P l.
Proof.
  intros P Q. induction l as [|c l IH]; intros a NI E; simpl; auto.
  assert (c <> a) by (intros ->; apply NI; simpl; auto).
  rewrite (E c H). rewrite (IH a); auto. intros X; apply NI; simpl; auto.
Qed.

Lemma filter_len_drop : forall (P Q : addr -> bool) l a, NoDup l -> In a l ->
  P a = true -> Q a = false -> (forall x, x <> a -> Q x = P x) ->
  S (length (filter Q l)) = length (filter P l).
Proof.
  intros P Q. induction l as [|b l IH]; intros a ND I Pa Qa E; [destruct I|].
  inversion ND as [|? ? NI ND']; subst. simpl. destruct I as [->|I].
  - rewrite Pa, Qa. simpl. f_equal. f_equal. apply (filter_ext_notin P Q l a); auto.
  - assert (b <> a) by (intros ->; auto).
    rewrite (E b H). destruct (P b); simpl; [f_equal|]; apply (IH a); auto.
Qed.

(* ---- how open_port_on changes under the primitive updates *)
Lemma open_port_on_add_other : forall h g o f p, p <> g -> open_port_on (PM.add g o h) f p = open_port_on h f p.
Proof. intros; unfold open_port_on; rewrite PM.gso; auto. Qed.

Lemma open_port_on_add_fileno : forall h g fo k f p, PM.find g h = Some fo ->
  (match kind fo with KFileno _ _ _ _ => True | _ => False end) ->
  (match k with KFileno _ _ _ _ => True | _ => False end) ->
  open_port_on (PM.add g (set_kind fo k) h) f p = open_port_on h f p.
Proof.
  intros h g fo k f p F K1 K2. destruct (Pos.eq_dec p g) as [->|N].
  - unfold open_port_on. rewrite PM.gss, F. simpl.
    destruct (kind fo); try contradiction. destruct k; try contradiction. reflexivity.
  - apply open_port_on_add_other; auto.
Qed.

Lemma nopen_ext : forall h h' f ord, (forall p, open_port_on h' f p = open_port_on h f p) -> nopen h' f ord = nopen h f ord.
Proof.
  intros h h' f ord E. unfold nopen. f_equal. induction ord as [|a l IH]; simpl; auto. rewrite E, IH; auto.
Qed.

(** the state the invariant talks about: counts dominate, a given marked open port p0 on f, f open *)
Section Safety.
  Variable m : mset.
  Variable ord : list addr.
  Hypothesis ND : NoDup ord.

  Definition inv (h : objmap) (f p0 : addr) : Prop :=
    count_ok h ord /\ open_port_on h f p0 = true /\ (exists nc fd c, fileno_of h f = Some (true, nc, fd, c)).

  Lemma fileno_close_inv : forall h log g f p0, mem p0 m = true -> mem f m = true -> In p0 ord ->
    inv h f p0 -> (g <> f \/ (Z.of_nat (nopen h f ord) <= 0)%Z) ->
    inv (fst (finalize_fileno h log g)) f p0.
  Proof.
    intros h log g f p0 Mp Mf Ip [CO [OP [nc [fd [c FO]]]]] G.
    assert (Gf : g <> f).
    { destruct G as [G|G]; auto. exfalso.
      assert (1 <= nopen h f ord)%nat; [|lia].
      unfold nopen. assert (In p0 (filter (open_port_on h f) ord)) by (apply filter_In; auto).
      destruct (filter (open_port_on h f) ord); [destruct H|simpl; lia]. }
    unfold finalize_fileno. destruct (PM.find g h) as [o|] eqn:Fg; [|repeat split; eauto].
    destruct (kind o) as [| |op nc0 fd0 c0] eqn:K; try (repeat split; eauto; fail).
    destruct op; [|repeat split; eauto]. destruct nc0; [repeat split; eauto|]. simpl.
    assert (E : forall f' p, open_port_on (PM.add g (set_kind o (KFileno false false fd0 c0)) h) f' p = open_port_on h f' p).
    { intros. apply open_port_on_add_fileno; auto. rewrite K; auto. }
    repeat split.
    - intros f' nc' fd' c' F'. destruct (Pos.eq_dec f' g) as [->|N].
      + rewrite fileno_of_add_same in F'. discriminate.
      + rewrite fileno_of_add_other in F'; auto. rewrite (nopen_ext h); auto. eapply CO; eauto.
    - rewrite E; auto.
    - exists nc, fd, c. rewrite fileno_of_add_other; auto.
  Qed.

  Lemma finalize_one_inv : forall h log a f p0, In a ord -> In p0 ord -> mem p0 m = true -> mem f m = true ->
    inv h f p0 -> inv (fst (finalize_one m (h, log) a)) f p0.
  Proof.
    intros h log a f p0 Ia Ip Mp Mf I. unfold finalize_one. simpl.
    destruct (mem a m) eqn:Ma; auto.
    assert (Np : a <> p0) by (intros ->; congruence).
    assert (Nf : a <> f) by (intros ->; congruence).
    destruct (PM.find a h) as [o|] eqn:Fa; auto.
    destruct (kind o) as [|op nc st|op nc fd c] eqn:K; auto.
    2:{ apply fileno_close_inv; auto. }
    (* a is an unmarked port *)
    unfold finalize_port. rewrite Fa, K. destruct op; auto.
    destruct I as [CO [OP [fnc0 [fd0 [c0 FO]]]]].
    set (h1 := PM.add a (set_kind o (KPort false nc st)) h).
    (* closing the port a: it no longer counts anywhere; everything else is unchanged *)
    assert (E1 : forall f' p, p <> a -> open_port_on h1 f' p = open_port_on h f' p).
    { intros. unfold h1. apply open_port_on_add_other; auto. }
    assert (A1 : forall f', open_port_on h1 f' a = false).
    { intros. unfold open_port_on, h1. rewrite PM.gss. simpl. reflexivity. }
    assert (F1 : forall g, fileno_of h1 g = fileno_of h g).
    { intros g. destruct (Pos.eq_dec g a) as [->|N].
      - unfold h1. rewrite fileno_of_add_same. unfold fileno_of. rewrite Fa, K. reflexivity.
      - unfold h1. apply fileno_of_add_other; auto. }
    assert (LE1 : forall f', (nopen h1 f' ord <= nopen h f' ord)%nat).
    { intros f'. unfold nopen. apply filter_len_le. intros x Ix Px.
      destruct (Pos.eq_dec x a) as [->|N]; [rewrite A1 in Px; discriminate|]. rewrite <- E1; auto. }
    assert (I1 : inv h1 f p0).
    { repeat split.
      - intros f' nc' fd' c' F'. rewrite F1 in F'. specialize (CO _ _ _ _ F'). specialize (LE1 f'). lia.
      - rewrite E1; auto.
      - exists fnc0, fd0, c0. rewrite F1; auto. }
    assert (S2 : forall h2 l2,
               (match port_fd o with
                | Ptr g => match PM.find g h1 with
                           | Some fo => match kind fo with
                                        | KFileno true fnc fd cnt =>
                                          if nc then (h1, log)
                                          else let h1' := PM.add g (set_kind fo (KFileno true fnc fd (cnt - 1))) h1 in
                                               if (cnt - 1 =? 0)%Z then finalize_fileno h1' log g else (h1', log)
                                        | _ => (h1, log)
                                        end
                           | None => (h1, log)
                           end
                | Imm => (h1, log)
                end) = (h2, l2) -> inv h2 f p0).
    { intros h2 l2 E. destruct (port_fd o) as [|g] eqn:PF; [inversion E; subst; auto|].
      destruct (PM.find g h1) as [fo|] eqn:Fg; [|inversion E; subst; auto].
      destruct (kind fo) as [| |fop fnc fd cnt] eqn:Kf; try (inversion E; subst; auto; fail).
      destruct fop; [|inversion E; subst; auto].
      destruct nc; [inversion E; subst; auto|].
      (* a was an open closable port on the open fileno g: it counted in nopen h g *)
      assert (Ga : g <> a).
      { intros ->. unfold h1 in Fg. rewrite PM.gss in Fg. inversion Fg; subst fo. simpl in Kf. discriminate. }
      assert (OA : open_port_on h g a = true).
      { unfold open_port_on. rewrite Fa, K, PF. apply Pos.eqb_refl. }
      assert (DR : S (nopen h1 g ord) = nopen h g ord).
      { unfold nopen. apply (filter_len_drop (open_port_on h g) (open_port_on h1 g) ord a); auto. }
      assert (FG : fileno_of h g = Some (true, fnc, fd, cnt)).
      { rewrite <- F1. unfold fileno_of. rewrite Fg, Kf. reflexivity. }
      pose proof (CO _ _ _ _ FG) as CG.
      set (h1' := PM.add g (set_kind fo (KFileno true fnc fd (cnt - 1))) h1) in *.
      assert (E2 : forall f' p, open_port_on h1' f' p = open_port_on h1 f' p).
      { intros. unfold h1'. apply open_port_on_add_fileno; auto. rewrite Kf; auto. }
      assert (I2 : inv h1' f p0).
      { destruct I1 as [CO1 [OP1 [nc1 [fd1 [c1 FO1]]]]]. repeat split.
        - intros f' nc' fd' c' F'. rewrite (nopen_ext h1); auto. destruct (Pos.eq_dec f' g) as [->|N].
          + unfold h1' in F'. rewrite fileno_of_add_same in F'. inversion F'; subst. lia.
          + unfold h1' in F'. rewrite fileno_of_add_other in F'; auto. eapply CO1; eauto.
        - rewrite E2; auto.
        - destruct (Pos.eq_dec f g) as [->|N].
          + exists fnc, fd, (cnt - 1)%Z. unfold h1'. apply fileno_of_add_same.
          + exists nc1, fd1, c1. unfold h1'. rewrite fileno_of_add_other; auto. }
      cbv zeta in E. destruct (cnt - 1 =? 0)%Z eqn:Z0.
      - apply Z.eqb_eq in Z0.
        pose proof (fileno_close_inv h1' log g f p0 Mp Mf Ip I2) as FC. fold h1' in E. rewrite E in FC. simpl in FC.
        apply FC. destruct (Pos.eq_dec g f) as [->|N]; auto. right.
        rewrite (nopen_ext h1); auto. lia.
      - fold h1' in E. inversion E; subst. exact I2. }
    match goal with |- context [let '(a, b) := ?X in _] => destruct X as [h2 l2] eqn:E end.
    specialize (S2 _ _ eq_refl).
    destruct st as [s|]; [destruct nc|]; simpl; auto.
  Qed.

  Lemma finalize_inv : forall l h log f p0, (forall a, In a l -> In a ord) -> In p0 ord ->
    mem p0 m = true -> mem f m = true -> inv h f p0 -> inv (fst (fold_left (finalize_one m) l (h, log))) f p0.
  Proof.
    induction l as [|a l IH]; intros h log f p0 Sub Ip Mp Mf I; simpl; auto.
    destruct (finalize_one m (h, log) a) as [h1 l1] eqn:E.
    apply IH; auto. { intros; apply Sub; simpl; auto. }
    pose proof (finalize_one_inv h log a f p0 (Sub a (or_introl eq_refl)) Ip Mp Mf I) as I1.
    rewrite E in I1. exact I1.
  Qed.
End Safety.

(** a marked open closable port keeps its (marked) fileno open through the whole finaliser pass *)
Lemma finalize_keeps_fileno_of_marked_port : forall m ord h log f p0 nc fd c,
  NoDup ord -> count_ok h ord -> In p0 ord -> mem p0 m = true -> mem f m = true ->
  open_port_on h f p0 = true -> fileno_of h f = Some (true, nc, fd, c) ->
  exists c', fileno_of (fst (finalize m h log ord)) f = Some (true, nc, fd, c').
Proof.
  intros m ord h log f p0 nc fd c ND CO Ip Mp Mf OP FO.
  assert (I : inv ord h f p0) by (repeat split; eauto).
  pose proof (finalize_inv m ord ND ord h log f p0 (fun a H => H) Ip Mp Mf I) as [_ [_ [nc' [fd' [c' F']]]]].
  pose proof (finalize_evol m ord h log) as [_ [EF _]]. destruct (EF _ _ _ _ _ FO) as [op1 [c1 [G1 _]]].
  unfold finalize in *. simpl in G1. rewrite F' in G1. inversion G1; subst. exists c1; auto.
Qed.

(* ------------------------------------------------------------------ at the level of a collection *)
Lemma open_port_on_weak_reset : forall m h f p, open_port_on (weak_reset m h) f p = open_port_on h f p.
Proof.
  intros m h f p. unfold open_port_on. rewrite find_weak_reset. destruct (PM.find p h) as [o|]; simpl; auto.
  destruct (mem p m); auto. unfold reset_obj, port_fd. destruct (weakp o); reflexivity.
Qed.

Lemma nth_In_ref : forall (l : list ref) n a, nth n l Imm = Ptr a -> In (Ptr a) l.
Proof.
  induction l as [|x l IH]; intros n a H; destruct n; simpl in *; try discriminate; auto.
  right; eapply IH; eauto.
Qed.

Lemma gc_keeps_fileno_of_live_port : forall fuel passes h roots log h' log' m p f nc fd c,
  order_complete h -> NoDup (order h) -> count_ok (objs h) (order h) ->
  gc fuel passes h roots log = Some (h', log', m) ->
  live (objs h) roots p -> open_port_on (objs h) f p = true -> fileno_of (objs h) f = Some (true, nc, fd, c) ->
  exists c', fileno_of (objs h') f = Some (true, nc, fd, c').
Proof.
  intros fuel passes h roots log h' log' m p f nc fd c OC ND CO H Lp OP FO.
  destruct (gc_unfold _ _ _ _ _ _ _ _ H) as [M [O _]].
  pose proof (marks_exact _ _ _ _ _ OC M) as EX.
  assert (Lf : live (objs h) roots f).
  { unfold open_port_on in OP. destruct (PM.find p (objs h)) as [o|] eqn:Fp; [|discriminate].
    destruct (kind o) as [|op pnc st|]; try discriminate. destruct op; [|discriminate]. destruct pnc; [discriminate|].
    destruct (port_fd o) as [|g] eqn:PF; [discriminate|]. apply Pos.eqb_eq in OP. subst g.
    apply (live_strong _ _ p o f); auto.
    - unfold port_fd in PF. eapply nth_In_ref; eauto.
    - unfold isobj. unfold fileno_of in FO. destruct (PM.find f (objs h)); discriminate. }
  assert (Mp : mem p m = true) by (apply EX; auto).
  assert (Mf : mem f m = true) by (apply EX; auto).
  assert (Ip : In p (order h)) by (apply OC; eapply live_isobj; eauto).
  assert (CO' : count_ok (weak_reset m (objs h)) (order h)).
  { intros g gnc gfd gc0 G. rewrite fileno_of_weak_reset in G. rewrite (nopen_ext (objs h)).
    - eapply CO; eauto.
    - intros; apply open_port_on_weak_reset. }
  destruct (finalize_keeps_fileno_of_marked_port m (order h) (weak_reset m (objs h)) log f p nc fd c ND CO' Ip Mp Mf)
    as [c' F'].
  - rewrite open_port_on_weak_reset; auto.
  - rewrite fileno_of_weak_reset; auto.
  - exists c'. unfold fileno_of. rewrite O, find_sweep_marked; auto.
Qed.
