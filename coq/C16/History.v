(** C16 — histories: a mutator that creates keys, pairs, ephemerons, file ports and filenos in numbered
    variable slots (the strong roots), drops them, closes ports explicitly, and collects.  Executable; NO proofs.
    Mirrors, for each operation, the C function the Scheme procedure ends in. *)
From Coq Require Import ZArith List Bool PArith FMapPositive.
From ChibiV Require Import C16.Model.
Import ListNotations.

Inductive op :=
| OKey (i : nat)            (* R[i] := a fresh object without pointer slots (a string / tagged vector) *)
| OCons (i a b : nat)       (* R[i] := (cons R[a] R[b]) *)
| OEph (i k v : nat)        (* R[i] := (make-ephemeron R[k] R[v]): sexp_make_ephemeron_op, sexp.c:1886; also observed *)
| ODrop (i : nat)           (* R[i] := #f *)
| OGc                       (* (gc): sexp_gc *)
| OOpenFile (i : nat)       (* R[i] := (open-input-file path): sexp_open_input_file_op + sexp_make_input_port, stream port *)
| OFileno (i : nat)         (* R[i] := (open path flags): sexp_make_fileno_op on a fresh descriptor *)
| OPortOn (i f : nat)       (* R[i] := (open-input-file-descriptor R[f]): sexp.c:1857-1873, count++ *)
| OClose (i : nat)          (* (close-port R[i]) / close-input-port / close-output-port: sexp_close_port_op = sexp_finalize_port *)
| OCloseFd (i : nat)        (* (close-file-descriptor R[i]) on a fileno OBJECT: lib/chibi/filesystem.stub
                               sexp_close_file_descriptor: sexp_fileno_openp(x) = 0; close(sexp_fileno_fd(x)) *)
| ODup (i f : nat)          (* R[i] := (duplicate-file-descriptor R[f]): dup(2) + sexp_make_fileno on the new number *)
| ODupTo (a b : nat).       (* (duplicate-file-descriptor-to R[a] R[b]) and, as pinned, (renumber-file-descriptor R[a] R[b])
                               [dup2 answers the new number, which the stub's errno result reads as failure, so renumber
                               never reaches its close]: both filenos open: R[b]'s number now names a duplicate of R[a]'s
                               file; the file it named before is released by the OS, not by an owner: with descriptors
                               named by owner instance nothing changes *)

Record state := mkState {
  hp : heap;
  slots : list ref;         (* the variable slots: strong roots *)
  obs : list addr;          (* every ephemeron ever made, held strongly by the observer *)
  oslog : list Z;           (* close() calls so far; descriptors are named by instance, never reused *)
  next : positive;          (* next fresh address (creation order = walk order in this model) *)
  nextfd : Z;               (* next fresh descriptor instance *)
  fuel : nat }.

Definition slot (st : state) (i : nat) : ref := nth i (slots st) Imm.

Fixpoint set_nth (l : list ref) (i : nat) (r : ref) : list ref :=
  match l, i with
  | [], _ => []
  | _ :: t, O => r :: t
  | x :: t, S j => x :: set_nth t j r
  end.

Definition alloc (st : state) (o : obj) : state * addr :=
  let a := next st in
  (mkState (mkHeap (PM.add a o (objs (hp st))) (order (hp st) ++ [a])) (slots st) (obs st) (oslog st)
           (Pos.succ a) (nextfd st) (fuel st), a).

Definition with_slot (st : state) (i : nat) (r : ref) : state :=
  mkState (hp st) (set_nth (slots st) i r) (obs st) (oslog st) (next st) (nextfd st) (fuel st).

Definition roots_of (st : state) : list ref := slots st ++ map Ptr (obs st).

(** sexp_make_fileno_op on a fresh descriptor (open, open-pipe [twice], dup): a new fileno object, open, count 0.
    (With SEXP_USE_UNIFY_FILENOS_BY_NUMBER an existing OPEN fileno object with the same number would be returned
    instead; a number handed out by the OS is never the number of an open fileno object while every close of a
    descriptor goes through its owner — the invariant of FdOnce.v — so the lookup misses.) *)
Definition open_fileno (i : nat) (st : state) : state :=
  let '(st1, f) := alloc st (mkObj [] false [] [] false (KFileno true false (nextfd st) 0)) in
  let st2 := with_slot st1 i (Ptr f) in
  mkState (hp st2) (slots st2) (obs st2) (oslog st2) (next st2) (nextfd st2 + 1)%Z (fuel st2).

(** is R[i] a fileno object, and is it open and closable?  (None: not a fileno) *)
Definition fileno_state (st : state) (i : nat) : option bool :=
  match slot st i with
  | Ptr f => match PM.find f (objs (hp st)) with
             | Some fo => match kind fo with
                          | KFileno true false _ _ => Some true
                          | KFileno _ _ _ _ => Some false
                          | _ => None
                          end
             | None => None
             end
  | Imm => None
  end.

(** [None] is also returned for a history outside the modelled domain: an operation on the NUMBER of a fileno object
    that no longer owns it (closing by hand a fileno that is already closed; dup / dup2 of a closed fileno): the number
    may by then belong to somebody else, which a model that names descriptors by owner instance cannot express. *)
Definition step (o : op) (st : state) : option state :=
  match o with
  | OKey i => let '(st1, a) := alloc st (mkObj [] false [] [] false KPlain) in Some (with_slot st1 i (Ptr a))
  | OCons i a b =>
      let '(st1, p) := alloc st (mkObj [slot st a; slot st b] false [] [] false KPlain) in Some (with_slot st1 i (Ptr p))
  | OEph i k v =>
      let '(st1, e) := alloc st (mkObj [] true [slot st k] [slot st v] false KPlain) in
      let st2 := with_slot st1 i (Ptr e) in
      Some (mkState (hp st2) (slots st2) (e :: obs st2) (oslog st2) (next st2) (nextfd st2) (fuel st2))
  | ODrop i => Some (with_slot st i Imm)
  | OGc =>
      match gc (fuel st) (fuel st) (hp st) (roots_of st) (oslog st) with
      | None => None
      | Some (h', log', _) => Some (mkState h' (slots st) (obs st) log' (next st) (nextfd st) (fuel st))
      end
  | OOpenFile i =>
      let '(st1, p) := alloc st (mkObj [Imm; Imm; Imm] false [] [] false (KPort true false (Some (nextfd st)))) in
      let st2 := with_slot st1 i (Ptr p) in
      Some (mkState (hp st2) (slots st2) (obs st2) (oslog st2) (next st2) (nextfd st2 + 1)%Z (fuel st2))
  | OFileno i => Some (open_fileno i st)
  | OPortOn i f =>
      match slot st f with
      | Ptr fa =>
        match PM.find fa (objs (hp st)) with
        | Some fo =>
          match kind fo with
          | KFileno op nc fd c =>
            let h1 := PM.add fa (set_kind fo (KFileno op nc fd (c + 1))) (objs (hp st)) in
            let st0 := mkState (mkHeap h1 (order (hp st))) (slots st) (obs st) (oslog st) (next st) (nextfd st) (fuel st) in
            let '(st1, p) := alloc st0 (mkObj [Imm; Imm; Ptr fa] false [] [] false (KPort true false None)) in
            Some (with_slot st1 i (Ptr p))
          | _ => Some st                       (* type error in Scheme: nothing happens *)
          end
        | None => Some st
        end
      | Imm => Some st
      end
  | OClose i =>
      match slot st i with
      | Ptr p =>
        match PM.find p (objs (hp st)) with
        | Some po =>
          match kind po with
          | KPort _ _ _ =>
            let '(h1, log1) := finalize_port (objs (hp st)) (oslog st) p in
            Some (mkState (mkHeap h1 (order (hp st))) (slots st) (obs st) log1 (next st) (nextfd st) (fuel st))
          | _ => Some st
          end
        | None => Some st
        end
      | Imm => Some st
      end
  | OCloseFd i =>
      match fileno_state st i with
      | Some true =>
          match slot st i with
          | Ptr f =>
            let '(h1, log1) := finalize_fileno (objs (hp st)) (oslog st) f in
            Some (mkState (mkHeap h1 (order (hp st))) (slots st) (obs st) log1 (next st) (nextfd st) (fuel st))
          | Imm => Some st
          end
      | Some false => None
      | None => Some st                          (* type error in Scheme: nothing happens *)
      end
  | ODup i f =>
      match fileno_state st f with
      | Some true => Some (open_fileno i st)
      | Some false => None
      | None => Some st
      end
  | ODupTo a b =>
      match fileno_state st a, fileno_state st b with
      | Some true, Some true => Some st
      | Some false, _ => None
      | _, Some false => None
      | _, _ => Some st
      end
  end.

Fixpoint run (ops : list op) (st : state) : option state :=
  match ops with
  | [] => Some st
  | o :: r => match step o st with None => None | Some st' => run r st' end
  end.

Definition init (nslots fuel : nat) : state :=
  mkState (mkHeap (PM.empty obj) []) (repeat Imm nslots) [] [] 1%positive 0%Z fuel.
