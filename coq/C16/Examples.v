(** C16 — concrete, non-trivial instances of the theorems' hypotheses (non-vacuity), and the witness that the
    collector as pinned (without the ephemeron fixpoint) violates value_retained_while_key_live. *)
From Coq Require Import ZArith List Bool PArith FMapPositive Lia.
From ChibiV Require Import C16.Model C16.Spec C16.Proofs C16.GcProofs C16.FdProofs C16.History.
Import ListNotations.

Definition plain (s : list ref) := mkObj s false [] [] false KPlain.
Definition eph (k v : ref) := mkObj [] true [k] [v] false KPlain.

(** 1: a root vector holding key 2 and object 3;  4 = ephemeron(key 5 dead, value 6);  7 = ephemeron(key 2 live, value 6);
    8 = ephemeron(key 9, value 10) where 9 is only reachable from the value 6 -> chain: 7 keeps 6, 6 holds 9, so 8 keeps 10;
    11 = ephemeron(key 12, value (13 -> 12)): the key is only reachable from its own value: broken;
    14 = unreachable open fileno fd 5;  15 = unreachable open stream port on descriptor 6;  16 = live stream port *)
Definition ex_objs : objmap :=
  fold_left (fun m kv => PM.add (fst kv) (snd kv) m)
    [ (1, plain [Ptr 2; Ptr 3; Ptr 16]); (2, plain []); (3, plain []); (4, eph (Ptr 5) (Ptr 6)); (5, plain []);
      (6, plain [Ptr 9; Imm]); (7, eph (Ptr 2) (Ptr 6)); (8, eph (Ptr 9) (Ptr 10)); (9, plain []); (10, plain []);
      (11, eph (Ptr 12) (Ptr 13)); (12, plain []); (13, plain [Ptr 12]);
      (14, mkObj [] false [] [] false (KFileno true false 5 0));
      (15, mkObj [Imm; Imm; Imm] false [] [] false (KPort true false (Some 6%Z)));
      (16, mkObj [Imm; Imm; Imm] false [] [] false (KPort true false (Some 7%Z))) ]%positive
    (PM.empty obj).
Definition ex_heap := mkHeap ex_objs [16; 15; 14; 13; 12; 11; 8; 10; 9; 7; 6; 5; 4; 3; 2; 1]%positive.
(* walk order chosen adverse: 8 is visited before 7, so one pass of the fixpoint is not enough *)
Definition ex_roots := [Ptr 1; Ptr 4; Ptr 7; Ptr 8; Ptr 11]%positive.

Lemma order_complete_check : forall h,
  forallb (fun kv => existsb (Pos.eqb (fst kv)) (order h)) (PM.elements (objs h)) = true -> order_complete h.
Proof.
  intros h H a Ia. unfold isobj in Ia. destruct (PM.find a (objs h)) as [o|] eqn:F; [|congruence].
  apply PM.elements_correct in F. rewrite forallb_forall in H. specialize (H _ F). simpl in H.
  apply existsb_exists in H. destruct H as [x [I E]]. apply Pos.eqb_eq in E. subst; auto.
Qed.

Example ex_order_complete : order_complete ex_heap.
Proof. apply order_complete_check. vm_compute. reflexivity. Qed.

Definition ex_result := gc 100 100 ex_heap ex_roots [].

Example ex_gc_runs : exists h' log' m, ex_result = Some (h', log', m) /\
  order h' = [16; 11; 8; 10; 9; 7; 6; 4; 3; 2; 1]%positive /\ log' = [6; 5]%Z.
Proof. vm_compute. eexists _, _, _. split; [reflexivity|]. split; reflexivity. Qed.

(** hypotheses of value_retained_while_key_live: ephemeron 7 is live, its key 2 is live, value 6, and 9 is reachable from 6 *)
Example ex_live_7 : live ex_objs ex_roots 7%positive.
Proof. apply live_root; [simpl; auto | unfold isobj; vm_compute; discriminate]. Qed.
Example ex_live_2 : live ex_objs ex_roots 2%positive.
Proof.
  apply (live_strong _ _ 1%positive (plain [Ptr 2; Ptr 3; Ptr 16]%positive) 2%positive).
  - apply live_root; [simpl; auto | unfold isobj; vm_compute; discriminate].
  - vm_compute; reflexivity.
  - simpl; auto.
  - unfold isobj; vm_compute; discriminate.
Qed.
Example ex_reach_6_9 : reach_from ex_objs 6%positive 9%positive.
Proof.
  apply (rf_step _ _ 6%positive (plain [Ptr 9; Imm]%positive) 9%positive).
  - apply rf_refl. unfold isobj; vm_compute; discriminate.
  - vm_compute; reflexivity.
  - simpl; auto.
  - unfold isobj; vm_compute; discriminate.
Qed.

(** hypotheses of key_broken_iff_unreachable / value_not_retained_by_dead_key: key 5 of ephemeron 4 and key 12 of
    ephemeron 11 (reachable only from 11's own value) are not live — decided through gc_marks_exactly_live *)
Example ex_dead_keys : ~ live ex_objs ex_roots 5%positive /\ ~ live ex_objs ex_roots 12%positive /\
                       live ex_objs ex_roots 10%positive.
Proof.
  assert (M : exists m, marks 100 100 ex_heap ex_roots = Some m /\ mem 5%positive m = false /\
                        mem 12%positive m = false /\ mem 10%positive m = true).
  { vm_compute. eexists. split; [reflexivity|]. repeat split; reflexivity. }
  destruct M as [m [M [M5 [M12 M10]]]].
  pose proof (marks_exact 100 100 ex_heap ex_roots m ex_order_complete M) as EX.
  repeat split.
  - intros L. apply EX in L. simpl in L. congruence.
  - intros L. apply EX in L. simpl in L. congruence.
  - apply EX. exact M10.
Qed.

(** hypotheses of the descriptor theorems: 14 is an open closable fileno, 15 an open stream port, both not live *)
Example ex_fd_hyps : fileno_of ex_objs 14%positive = Some (true, false, 5%Z, 0%Z) /\
                     port_of ex_objs 15%positive = Some (true, false, Some 6%Z) /\
                     port_of ex_objs 16%positive = Some (true, false, Some 7%Z).
Proof. vm_compute. repeat split; reflexivity. Qed.

(** F-C16-1 as a statement about the pinned collector (no ephemeron fixpoint): the live ephemeron 7 with live key 2
    still points at 6 after the collection, and 6 has been swept *)
Lemma value_retained_refuted_for_pinned_collector_l :
  exists h roots e v h' log' m o',
    gc_pinned 100 h roots [] = Some (h', log', m) /\
    live (objs h) roots e /\ PM.find e (objs h') = Some o' /\ weak o' = [Ptr 2%positive] /\
    live (objs h) roots 2%positive /\ extra o' = [Ptr v] /\ PM.find v (objs h') = None.
Proof.
  exists ex_heap, ex_roots, 7%positive, 6%positive.
  assert (R : exists h' log' m o', gc_pinned 100 ex_heap ex_roots [] = Some (h', log', m) /\
             PM.find 7%positive (objs h') = Some o' /\ weak o' = [Ptr 2%positive] /\ extra o' = [Ptr 6%positive] /\
             PM.find 6%positive (objs h') = None).
  { vm_compute. eexists _, _, _, _. split; [reflexivity|]. repeat split; reflexivity. }
  destruct R as [h' [log' [m [o' [G [F [W [X N]]]]]]]].
  exists h', log', m, o'. repeat split; auto. apply ex_live_7. apply ex_live_2.
Qed.

(** a history: chain through values, then everything dropped; a port on a fileno closed explicitly *)
Example ex_history :
  match run [OKey 0; OKey 1; OEph 2 0 1; ODrop 1; OGc; OFileno 3; OPortOn 1 3; OGc; OClose 1; ODrop 0; OGc]
            (init 4 1000) with
  | Some st => oslog st = [0%Z] /\ length (order (hp st)) = 3%nat
  | None => False
  end.
Proof. vm_compute. split; reflexivity. Qed.
