(** C16 — no descriptor is leaked: at every point of every history each descriptor the process has opened is either
    released (in the close log) or owned by an OPEN owner object that is still in the heap; so right after a collection
    every open descriptor belongs to a LIVE owner.  This is the clause "a program that keeps dropping unclosed ports does
    not run out of descriptors": the collection forced by open-input-file / open-output-file on EMFILE (collect-and-retry,
    pinned by (G) open_retry_as_modelled) brings the number of open descriptors down to the number of live owners. *)
From Coq Require Import ZArith List Bool PArith FMapPositive Lia.
From ChibiV Require Import C16.Model C16.Spec C16.Proofs C16.GcProofs C16.FdProofs C16.FdSafety C16.History C16.HistProofs C16.FdOnce.
Import ListNotations.
Local Open Scope Z_scope.

Definition no_orphans (st : state) : Prop :=
  forall x, 0 <= x < nextfd st -> In x (oslog st) \/ exists a, open_owner (objs (hp st)) a x.

Definition covered (h : objmap) (log : list Z) (x : Z) : Prop := In x log \/ exists a, open_owner h a x.

(* ------------------------------------------------------------------ heap changes that keep owners *)
Lemma open_owner_isobj : forall h a x, open_owner h a x -> PM.find a h <> None.
Proof.
  intros h a x [[c F]|F]; unfold fileno_of, port_of in F; destruct (PM.find a h); discriminate.
Qed.

Lemma open_owner_add_other : forall h n o a x, a <> n -> open_owner h a x -> open_owner (PM.add n o h) a x.
Proof.
  intros h n o a x N [[c F]|F]; [left; exists c; rewrite fileno_of_add_other; auto | right; rewrite port_of_add_other; auto].
Qed.

Lemma covered_add_fresh : forall h n o log x, PM.find n h = None -> covered h log x -> covered (PM.add n o h) log x.
Proof.
  intros h n o log x FR [I|[a O]]; [left; auto|]. right. exists a. apply open_owner_add_other; auto.
  intros ->. apply (open_owner_isobj _ _ _ O). exact FR.
Qed.

(** a change of one fileno's count only *)
Lemma covered_recount : forall h log f fo op nc fd c c' x, PM.find f h = Some fo -> kind fo = KFileno op nc fd c ->
  covered h log x -> covered (PM.add f (set_kind fo (KFileno op nc fd c')) h) log x.
Proof.
  intros h log f fo op nc fd c c' x Ff K [I|[a O]]; [left; auto|]. right. exists a.
  destruct (Pos.eq_dec a f) as [->|N]; [|apply open_owner_add_other; auto].
  destruct O as [[c0 F]|F].
  - left. exists c'. rewrite fileno_of_add_same. unfold fileno_of in F. rewrite Ff, K in F. inversion F; subst. reflexivity.
  - unfold port_of in F. rewrite Ff, K in F. discriminate.
Qed.

(** through anything that evolves like a finaliser and keeps (or logs) the open stream ports *)
Lemma covered_evol : forall h log h' log' x, evol (h, log) (h', log') ->
  (forall q s, port_of h q = Some (true, false, Some s) -> port_of h' q = Some (true, false, Some s) \/ In s log') ->
  covered h log x -> covered h' log' x.
Proof.
  intros h log h' log' x [L [EF _]] PS [I|[a [[c F]|F]]].
  - left. apply L. exact I.
  - destruct (EF _ _ _ _ _ F) as [op' [c' [F' [_ CL]]]]. simpl in *. destruct op'.
    + right. exists a. left. exists c'. exact F'.
    + left. destruct (CL eq_refl eq_refl) as [_ I]. exact I.
  - destruct (PS _ _ F) as [F'|I]; [right; exists a; right; exact F' | left; exact I].
Qed.

(* ------------------------------------------------------------------ explicit closes *)
Lemma finalize_one_is_finalize_port : forall h log p o op nc st, PM.find p h = Some o -> kind o = KPort op nc st ->
  finalize_one (PM.empty unit) (h, log) p = finalize_port h log p.
Proof. intros h log p o op nc st F K. unfold finalize_one. simpl. rewrite mem_empty, F, K. reflexivity. Qed.

Lemma finalize_port_streams : forall h log p o op nc st, PM.find p h = Some o -> kind o = KPort op nc st ->
  forall q s, port_of h q = Some (true, false, Some s) ->
    port_of (fst (finalize_port h log p)) q = Some (true, false, Some s) \/ In s (snd (finalize_port h log p)).
Proof.
  intros h log p o op nc st F K q s Q. rewrite <- (finalize_one_is_finalize_port h log p o op nc st F K).
  destruct (Pos.eq_dec p q) as [->|N].
  - right. apply finalize_one_stream_self; auto. apply mem_empty.
  - left. rewrite finalize_one_port_other; auto.
Qed.

Lemma finalize_fileno_ports : forall h log f q, port_of (fst (finalize_fileno h log f)) q = port_of h q.
Proof.
  intros h log f q. unfold finalize_fileno. destruct (PM.find f h) as [o|] eqn:F; auto.
  destruct (kind o) as [| |op nc fd c] eqn:K; auto. destruct op; auto. destruct nc; auto. simpl.
  destruct (Pos.eq_dec q f) as [->|N]; [|apply port_of_add_other; auto].
  rewrite port_of_add_same. unfold port_of. rewrite F, K. reflexivity.
Qed.

(* ------------------------------------------------------------------ a collection *)
Lemma covered_gc : forall fuel passes h roots log h' log' m x,
  order_complete h -> gc fuel passes h roots log = Some (h', log', m) ->
  covered (objs h) log x -> covered (objs h') log' x.
Proof.
  intros fuel passes h roots log h' log' m x OC G [I|[a O]].
  - left. destruct (gc_unfold _ _ _ _ _ _ _ _ G) as [_ [_ [_ L]]]. subst log'.
    pose proof (finalize_evol m (order h) (weak_reset m (objs h)) log) as [L1 _]. apply L1. exact I.
  - destruct (gc_unfold _ _ _ _ _ _ _ _ G) as [M [OB [_ L]]].
    pose proof (marks_exact _ _ _ _ _ OC M a) as EX.
    destruct (mem a m) eqn:Ma.
    + (* the owner is live *)
      destruct O as [[c F]|F].
      * pose proof (finalize_evol m (order h) (weak_reset m (objs h)) log) as [_ [EF _]].
        rewrite <- (fileno_of_weak_reset m) in F.
        destruct (EF _ _ _ _ _ F) as [op' [c' [F' [_ CL]]]]. simpl in F', CL.
        destruct op'.
        -- right. exists a. left. exists c'.
           assert (E : fileno_of (objs h') a = fileno_of (fst (finalize m (weak_reset m (objs h)) log (order h))) a)
             by (unfold fileno_of; rewrite OB, find_sweep_marked; auto).
           rewrite E. exact F'.
        -- left. subst log'. destruct (CL eq_refl eq_refl) as [_ I]. exact I.
      * right. exists a. right.
        assert (E : port_of (objs h') a = port_of (fst (finalize m (weak_reset m (objs h)) log (order h))) a)
          by (unfold port_of; rewrite OB, find_sweep_marked; auto).
        rewrite E. rewrite finalize_port_marked; auto. rewrite port_of_weak_reset. exact F.
    + (* the owner is not live: its finaliser released the descriptor *)
      assert (NL : ~ live (objs h) roots a). { intros LV. apply EX in LV. congruence. }
      left. destruct O as [[c F]|F].
      * destruct (gc_closes_unreachable_filenos _ _ _ _ _ _ _ _ _ _ _ OC G F NL) as [I _]. exact I.
      * eapply gc_closes_unreachable_streams; eauto.
Qed.

(* ------------------------------------------------------------------ every operation *)
Lemma open_fileno_no_orphans : forall i st, hist_inv st -> no_orphans st -> no_orphans (open_fileno i st).
Proof.
  intros i st HI NO x R. pose proof (fresh_not_obj st HI) as FR.
  unfold open_fileno, alloc, with_slot in *. simpl in *.
  destruct (Z.eq_dec x (nextfd st)) as [->|N].
  - right. exists (next st). left. exists 0. unfold fileno_of. rewrite PM.gss. reflexivity.
  - assert (R' : 0 <= x < nextfd st) by lia. apply (covered_add_fresh _ _ _ _ _ FR). apply NO. exact R'.
Qed.

Lemma step_no_orphans : forall o st st', hist_inv st -> no_orphans st -> step o st = Some st' -> no_orphans st'.
Proof.
  intros o st st' HI NO H. pose proof (fresh_not_obj st HI) as FR.
  destruct o as [i|i a b|i k v|i| |i|i|i f|i|i|i f|a b]; unfold step in H; cbv beta iota in H.
  - unfold alloc in H. inversion H; subst; simpl. intros x R. simpl in R. apply (covered_add_fresh _ _ _ _ _ FR). apply NO; auto.
  - unfold alloc in H. inversion H; subst; simpl. intros x R. simpl in R. apply (covered_add_fresh _ _ _ _ _ FR). apply NO; auto.
  - unfold alloc in H. inversion H; subst; simpl. intros x R. simpl in R. apply (covered_add_fresh _ _ _ _ _ FR). apply NO; auto.
  - inversion H; subst. intros x R. simpl in *. apply NO; auto.
  - (* OGc *)
    destruct (gc (fuel st) (fuel st) (hp st) (roots_of st) (oslog st)) as [[[h' log'] m]|] eqn:G; [|discriminate].
    inversion H; subst. intros x R. simpl in *. destruct HI as [OC _].
    eapply covered_gc; eauto. apply NO; auto.
  - (* OOpenFile *)
    unfold alloc in H. inversion H; subst; simpl. intros x R. simpl in R.
    destruct (Z.eq_dec x (nextfd st)) as [->|N].
    + right. exists (next st). right. unfold port_of. simpl. rewrite PM.gss. reflexivity.
    + simpl. apply (covered_add_fresh _ _ _ _ _ FR). apply NO. lia.
  - (* OFileno *) inversion H; subst. apply open_fileno_no_orphans; auto.
  - (* OPortOn *)
    destruct (slot st f) as [|fa]; [inversion H; subst; auto|].
    destruct (PM.find fa (objs (hp st))) as [fo|] eqn:Ff; [|inversion H; subst; auto].
    destruct (kind fo) as [| |op nc fd c] eqn:K; try (inversion H; subst; auto; fail).
    unfold alloc in H. inversion H; subst; simpl. intros x R. simpl in R.
    apply covered_add_fresh.
    + rewrite PM.gso; auto. intros E. rewrite E in FR. congruence.
    + eapply covered_recount; eauto. apply NO; auto.
  - (* OClose *)
    destruct (slot st i) as [|p]; [inversion H; subst; auto|].
    destruct (PM.find p (objs (hp st))) as [po|] eqn:Fp; [|inversion H; subst; auto].
    destruct (kind po) as [|op nc stp|] eqn:K; try (inversion H; subst; auto; fail).
    destruct (finalize_port (objs (hp st)) (oslog st) p) as [h1 log1] eqn:F.
    inversion H; subst. intros x R. simpl in *.
    apply (covered_evol (objs (hp st)) (oslog st)).
    + rewrite <- F. apply finalize_port_evol.
    + intros q s Q. pose proof (finalize_port_streams _ (oslog st) p po op nc stp Fp K q s Q) as P. rewrite F in P. exact P.
    + apply NO; auto.
  - (* OCloseFd *)
    destruct (fileno_state st i) as [[|]|]; [| discriminate | inversion H; subst; auto].
    destruct (slot st i) as [|f]; [inversion H; subst; auto|].
    destruct (finalize_fileno (objs (hp st)) (oslog st) f) as [h1 log1] eqn:F.
    inversion H; subst. intros x R. simpl in *.
    apply (covered_evol (objs (hp st)) (oslog st)).
    + rewrite <- F. apply finalize_fileno_evol.
    + intros q s Q. left. pose proof (finalize_fileno_ports (objs (hp st)) (oslog st) f q) as P. rewrite F in P. simpl in P. rewrite P. exact Q.
    + apply NO; auto.
  - (* ODup *)
    destruct (fileno_state st f) as [[|]|]; [| discriminate | inversion H; subst; auto].
    inversion H; subst. apply open_fileno_no_orphans; auto.
  - (* ODupTo *)
    destruct (fileno_state st a) as [[|]|]; destruct (fileno_state st b) as [[|]|]; try discriminate; inversion H; subst; auto.
Qed.

Lemma run_no_orphans : forall ops st st', hist_inv st -> no_orphans st -> run ops st = Some st' -> no_orphans st'.
Proof.
  induction ops as [|o r IH]; intros st st' HI NO H; simpl in H.
  - inversion H; subst; auto.
  - destruct (step o st) as [st1|] eqn:S; [|discriminate].
    eapply IH; [| |eauto]; [eapply step_inv; eauto | eapply step_no_orphans; eauto].
Qed.

(** over every history: every descriptor ever opened is released or has an open owner object in the heap *)
Lemma history_no_orphan_descriptors_l : forall ops n fl st,
  run ops (init n fl) = Some st -> no_orphans st.
Proof.
  intros ops n fl st H. eapply run_no_orphans; eauto; [apply init_inv|].
  intros x R. unfold init in R. simpl in R. lia.
Qed.

(** right after a collection, at any point of any history: a descriptor that is still open belongs to an owner that was LIVE
    (reachable by the SPEC) when the collection started — nothing the program dropped still holds a descriptor *)
Lemma history_open_descriptors_have_live_owners_after_gc_l : forall ops n fl st0 st,
  run ops (init n fl) = Some st0 -> step OGc st0 = Some st ->
  forall x, 0 <= x < nextfd st -> ~ In x (oslog st) ->
  exists a, open_owner (objs (hp st)) a x /\ live (objs (hp st0)) (roots_of st0) a.
Proof.
  intros ops n fl st0 st R S x RX NI.
  pose proof (run_inv _ _ _ (init_inv n fl) R) as HI.
  pose proof (history_no_orphan_descriptors_l _ _ _ _ R) as NO.
  pose proof (step_no_orphans _ _ _ HI NO S) as NO'.
  destruct (NO' x RX) as [I|[a O]]; [contradiction|]. exists a. split; auto.
  simpl in S. destruct (gc (fuel st0) (fuel st0) (hp st0) (roots_of st0) (oslog st0)) as [[[h' log'] m]|] eqn:G; [|discriminate].
  inversion S; subst. simpl in *. destruct HI as [OC _].
  apply (gc_retains_exactly_live_l _ _ _ _ _ _ _ _ OC G a). apply open_owner_isobj in O. exact O.
Qed.

(** the hypotheses are satisfiable on a non-trivial history: two stream ports opened, the first dropped, collection: descriptor 0
    is released, descriptor 1 is still open and its owner (R1's port) is live *)
Example ex_no_leak : exists st0 st a,
  run [OOpenFile 0; OOpenFile 1; ODrop 0] (init 2 100) = Some st0 /\ step OGc st0 = Some st /\
  oslog st = [0] /\ nextfd st = 2 /\ slot st 1 = Ptr a /\ port_of (objs (hp st)) a = Some (true, false, Some 1).
Proof. eexists. eexists. exists 2%positive. repeat split; vm_compute; reflexivity. Qed.
