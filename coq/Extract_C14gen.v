From Coq Require Import ExtrOcamlBasic.
From ChibiV Require Import Common.ExtractBase C14.Sx C14.World Gen.C14_ImportCode Gen.C14_CondExpand.
Extraction "model.ml" ext_base resolve_import symbol_drop symbol_append list_sx ce_check ce_expand.
