(** C10 — further theorems: freshness of allocated memory, meaning of max_freed, the growth bound. *)
From Coq Require Import ZArith List Bool Lia Permutation.
From ChibiV Require Import Gen.C10_Consts C10.Model C10.Spec C10.Proofs C10.Sweep C10.Theorems.
Import ListNotations.
Local Open Scope Z_scope.

(** ================================================================== the allocated block was free *)
Lemma try_nodes_objs : forall rest ls1 size o l a (c : Prop) e,
  0 < size -> (unit_sz | size) ->
  (sentinel ls1 \/ chunk ls1) -> a = nend ls1 ->
  tchain (a + run_bytes (nrun ls1)) c rest e ->
  try_nodes ls1 rest size = Some (o, l) ->
  Permutation (nodes_objs l) ((o, size, false) :: nodes_objs (ls1 :: rest)).
Proof.
  induction rest as [|ls2 rest' IH]; intros ls1 size o l a c e Hs Hal Hk Ha Hch Htry; [discriminate|].
  cbn [try_nodes] in Htry. cbn [tchain] in Hch. destruct Hch as (Ho2 & Hc2 & Hc & Hr2 & Hrest).
  pose proof (nend_chunk ls2 Hc2) as He2. destruct Hc2 as (Hlo & Hsz & Hdiv).
  assert (Hne1 : forall r, nend (Node (noff ls1) (nsize ls1) r) = nend ls1) by (intros; reflexivity).
  destruct (size <=? nsize ls2) eqn:Efit.
  - apply Z.leb_le in Efit.
    destruct (size + min_obj <=? nsize ls2) eqn:Esplit.
    + apply Z.leb_le in Esplit. rewrite min_obj_unit in Esplit. pose proof unit_pos. pose proof hdr_pos.
      injection Htry as <- <-.
      rewrite !nodes_objs_cons. cbn [nrun rev]. rewrite Hne1, pos_objs_app, run_bytes_rev. cbn [pos_objs].
      assert (En : nend (Node (noff ls2 + size) (nsize ls2 - size) (nrun ls2)) = nend ls2).
      { rewrite He2. unfold nend. cbn [noff nsize].
        destruct (noff ls2 + size =? 0) eqn:E0; [apply Z.eqb_eq in E0; lia|lia]. }
      rewrite En. rewrite <- app_assoc. cbn [app].
      replace (nend ls1 + run_bytes (nrun ls1)) with (noff ls2) by lia.
      symmetry. apply Permutation_middle.
    + apply Z.leb_gt in Esplit. rewrite min_obj_unit in Esplit.
      assert (nsize ls2 = size) by (apply aligned_between; assumption || lia).
      injection Htry as <- <-.
      rewrite !nodes_objs_cons. cbn [nrun]. rewrite Hne1.
      rewrite rev_app_distr. cbn [rev]. rewrite <- !app_assoc. cbn [app].
      rewrite pos_objs_app, run_bytes_rev. cbn [pos_objs].
      replace (nend ls1 + run_bytes (nrun ls1)) with (noff ls2) by lia.
      replace (noff ls2 + size) with (nend ls2) by lia.
      rewrite <- app_assoc. cbn [app]. symmetry. apply Permutation_middle.
  - destruct (try_nodes ls2 rest' size) as [[o2 l2]|] eqn:Erec; [|discriminate].
    injection Htry as <- <-.
    assert (Hk2 : sentinel ls2 \/ chunk ls2) by (right; unfold chunk; auto).
    pose proof (IH ls2 size o2 l2 (nend ls2) (nrun ls2 <> []) e Hs Hal Hk2 eq_refl
                   ltac:(rewrite He2; exact Hrest) Erec) as HP.
    rewrite (nodes_objs_cons ls1 l2), (nodes_objs_cons ls1 (ls2 :: rest')).
    rewrite HP. symmetry. apply Permutation_middle.
Qed.

(** sexp_try_alloc returns memory that held no object: the objects of the chosen heap afterwards are the
    old ones (same offsets, sizes, marks) plus the new one — and by [try_alloc_inv] they still tile the
    heap, so the new block overlaps none of them *)
Theorem try_heap_fresh_lemma h size o h' :
  0 < size -> (unit_sz | size) -> heap_inv h -> try_heap h size = Some (o, h') ->
  Permutation (heap_objs h') ((o, size, false) :: heap_objs h).
Proof.
  intros Hs Hal (s & rest & Hn & Hsent & Hrs & Hch & Hdiv) Htry.
  unfold try_heap in Htry. rewrite Hn in Htry.
  destruct (try_nodes s rest size) as [[o' l]|] eqn:E; [|discriminate].
  injection Htry as <- <-. unfold heap_objs. cbn [hnodes]. rewrite Hn.
  eapply try_nodes_objs with (a := nend s) (c := True); try eassumption; auto.
  rewrite (nend_sentinel s Hsent). exact Hch.
Qed.

(** ================================================================== what max_freed is *)
Definition maxsz (l : list node) : Z := fold_right (fun n a => Z.max (nsize n) a) 0 l.

Definition sizes_nonneg (todo : list obj) (rest : list node) : Prop :=
  Forall (fun o => 0 <= fst o) todo /\
  Forall (fun n => 0 <= nsize n /\ Forall (fun o => 0 <= fst o) (nrun n)) rest.

Lemma nonneg_rev r : Forall (fun o : obj => 0 <= fst o) r -> Forall (fun o : obj => 0 <= fst o) (rev r).
Proof. apply Forall_rev. Qed.

(** max_freed never exceeds the size of some chunk that is on the free list when the sweep ends *)
Lemma sweep_loop_maxfreed : forall fuel q todo rest p mf sf l mf' sf',
  sizes_nonneg todo rest ->
  sweep_loop fuel q todo rest p mf sf = Some (l, mf', sf') ->
  exists q' l', l = q' :: l' /\ nsize q <= nsize q' /\ mf' <= Z.max mf (maxsz l).
Proof.
  induction fuel as [|fuel IH]; intros q todo rest p mf sf l mf' sf' [Ht Hr] H; [discriminate|].
  cbn [sweep_loop] in H.
  destruct todo as [|[size marked] todo'].
  - destruct rest as [|r rest'].
    + injection H as <- <- <-. exists q, []. split; [reflexivity|]. split; [lia|]. lia.
    + destruct (noff r =? p); [|discriminate].
      inversion Hr as [|? ? [Hr0 Hrr] Hr']; subst.
      destruct (sweep_loop fuel (Node (noff r) (nsize r) []) (rev (nrun r)) rest' (p + nsize r) mf sf)
        as [[[l2 a] b]|] eqn:E; [|discriminate].
      cbn [consq] in H. injection H as <- <- <-.
      destruct (IH _ _ _ _ _ _ _ _ _ (conj (nonneg_rev _ Hrr) Hr') E) as (q2 & l2' & -> & _ & Hm).
      exists q, (q2 :: l2'). split; [reflexivity|]. split; [lia|].
      unfold maxsz in *. cbn [fold_right] in *. lia.
  - inversion Ht as [|? ? Hsz Ht']; subst. cbn [fst] in Hsz.
    destruct marked.
    + destruct (IH _ _ _ _ _ _ _ _ _ (conj Ht' Hr) H) as (q2 & l2' & -> & Hq & Hm).
      exists q2, l2'. split; [reflexivity|]. cbn [nsize] in Hq. split; assumption.
    + destruct ((noff q + nsize q =? p) && negb (noff q =? 0)).
      * destruct (next_adjacent rest (p + size)) as [[r rest']|] eqn:Eadj.
        -- destruct todo'; [|discriminate].
           destruct rest as [|r0 rest0]; [discriminate|]. cbn [next_adjacent] in Eadj.
           destruct (negb (nsize r0 =? 0) && (p + size =? noff r0)); [|discriminate]. injection Eadj as -> ->.
           inversion Hr as [|? ? [Hr0 Hrr] Hr']; subst.
           destruct (IH _ _ _ _ _ _ _ _ _ (conj (nonneg_rev _ Hrr) Hr') H) as (q2 & l2' & -> & Hq & Hm).
           exists q2, l2'. split; [reflexivity|]. cbn [nsize] in Hq. split; [lia|].
           unfold maxsz in *. cbn [fold_right] in *. lia.
        -- destruct (IH _ _ _ _ _ _ _ _ _ (conj Ht' Hr) H) as (q2 & l2' & -> & Hq & Hm).
           exists q2, l2'. split; [reflexivity|]. cbn [nsize] in Hq. split; [lia|].
           unfold maxsz in *. cbn [fold_right] in *. lia.
      * destruct (next_adjacent rest (p + size)) as [[r rest']|] eqn:Eadj.
        -- destruct todo'; [|discriminate].
           destruct rest as [|r0 rest0]; [discriminate|]. cbn [next_adjacent] in Eadj.
           destruct (negb (nsize r0 =? 0) && (p + size =? noff r0)); [|discriminate]. injection Eadj as -> ->.
           inversion Hr as [|? ? [Hr0 Hrr] Hr']; subst.
           destruct (sweep_loop fuel (Node p (size + nsize r) []) (rev (nrun r)) rest' (p + (size + nsize r))
                                (Z.max mf (size + nsize r)) (sf + size)) as [[[l2 a] b]|] eqn:E; [|discriminate].
           cbn [consq] in H. injection H as <- <- <-.
           destruct (IH _ _ _ _ _ _ _ _ _ (conj (nonneg_rev _ Hrr) Hr') E) as (q2 & l2' & -> & Hq & Hm).
           exists q, (q2 :: l2'). split; [reflexivity|]. split; [lia|]. cbn [nsize] in Hq.
           unfold maxsz in *. cbn [fold_right] in *. lia.
        -- destruct (sweep_loop fuel (Node p size []) todo' rest (p + size) (Z.max mf size) (sf + size))
             as [[[l2 a] b]|] eqn:E; [|discriminate].
           cbn [consq] in H. injection H as <- <- <-.
           destruct (IH _ _ _ _ _ _ _ _ _ (conj Ht' Hr) E) as (q2 & l2' & -> & Hq & Hm).
           exists q, (q2 :: l2'). split; [reflexivity|]. split; [lia|]. cbn [nsize] in Hq.
           unfold maxsz in *. cbn [fold_right] in *. lia.
Qed.

Lemma run_ok_nonneg_all r : run_ok r -> Forall (fun o : obj => 0 <= fst o) r.
Proof. intros H. eapply Forall_impl; [|exact H]. intros o [Ho _]. lia. Qed.

Lemma tchain_nonneg : forall l a c e, tchain a c l e ->
  Forall (fun n => 0 <= nsize n /\ Forall (fun o : obj => 0 <= fst o) (nrun n)) l.
Proof.
  induction l as [|m l IH]; intros a c e H; [constructor|]. cbn [tchain] in H.
  destruct H as (_ & (_ & Hs & _) & _ & Hr & Hrest). constructor; [|eapply IH; exact Hrest].
  split; [lia|apply run_ok_nonneg_all; assumption].
Qed.

Lemma maxsz_in : forall l, 0 < maxsz l -> exists n, In n l /\ nsize n = maxsz l.
Proof.
  induction l as [|m l IH]; intros H; [unfold maxsz in H; cbn in H; lia|].
  unfold maxsz in *. cbn [fold_right] in *.
  destruct (Z.max_spec (nsize m) (fold_right (fun n a => Z.max (nsize n) a) 0 l)) as [[Hlt ->]|[Hge ->]].
  - destruct (IH ltac:(lia)) as (n & Hin & Hn). exists n. split; [right; assumption|assumption].
  - exists m. split; [left; reflexivity|reflexivity].
Qed.

(** the sweep's max_freed, per heap: if it grew beyond the incoming value, a chunk at least that large is
    on the heap's free list afterwards *)
Lemma sweep_heap_maxfreed h mf sf h' mf' sf' : heap_inv h -> 0 <= mf -> sweep_heap h mf sf = Some (h', mf', sf') ->
  mf' <= mf \/ exists n, In n (tl (hnodes h')) /\ mf' <= nsize n.
Proof.
  intros (s & rest & Hn & Hsent & Hrs & Hch & Hdiv) Hmf0 H. unfold sweep_heap in H. rewrite Hn in H.
  destruct (sweep_loop (S (nodes_fuel (s :: rest))) (Node (noff s) (nsize s) []) (rev (nrun s)) rest hdr_sz mf sf)
    as [[[l a] b]|] eqn:E; [|discriminate]. injection H as <- -> ->.
  pose proof E as E'.
  apply sweep_loop_maxfreed in E; [|split; [apply nonneg_rev, run_ok_nonneg_all; assumption|eapply tchain_nonneg; exact Hch]].
  destruct E as (q' & l' & -> & _ & Hm). cbn [hnodes tl].
  (* the head of the result is the sentinel, of size 0 *)
  assert (Hq : sentinel (Node (noff s) (nsize s) [])) by (destruct Hsent; split; assumption).
  destruct (sweep_loop_spec (S (nodes_fuel (s :: rest))) (Node (noff s) (nsize s) []) (rev (nrun s)) rest hdr_sz mf sf (hsize h))
    as (q2 & l2 & mf2 & sf2 & Hres & _ & Hs' & _).
  - cbn [nodes_fuel]. rewrite rev_length. lia.
  - left. exact Hq.
  - rewrite (nend_sentinel _ Hq). unfold run_bytes. cbn. lia.
  - constructor.
  - constructor.
  - apply run_ok_rev. assumption.
  - rewrite run_bytes_rev. eapply tchain_weaken; [|exact Hch]. intros _. right. right. destruct Hsent. assumption.
  - rewrite E' in Hres. injection Hres as -> -> _ _. destruct (Hs' Hq) as [_ Hz].
    unfold maxsz in Hm. cbn [fold_right] in Hm. rewrite Hz in Hm. fold (maxsz l2) in Hm.
    destruct (Z_le_gt_dec mf' mf) as [Hle|Hgt]; [left; assumption|right].
    assert (Hpos : 0 < maxsz l2).
    { assert (0 <= maxsz l2) by (clear; induction l2; unfold maxsz in *; cbn [fold_right]; lia).
      destruct (Z.eq_dec (maxsz l2) 0); [|lia]. lia. }
    destruct (maxsz_in l2 Hpos) as (n & Hin & Hnmax). exists n. split; [assumption|lia].
Qed.

(** ================================================================== the growth bound *)
Lemma total_size_hsizes st st' : map hsize (heaps st') = map hsize (heaps st) -> total_size st' = total_size st.
Proof. intros H. rewrite !total_size_sum, H. reflexivity. Qed.

Lemma last_le_total : forall hs d, hs <> [] -> Forall (fun h => 0 <= hsize h) hs ->
  hsize (last hs d) <= fold_right (fun h a => hsize h + a) 0 hs.
Proof.
  induction hs as [|h hs IH]; intros d Hne Hall; [congruence|].
  inversion Hall as [|? ? Hh Hall']; subst. destruct hs as [|h2 hs]; [cbn; lia|].
  specialize (IH d ltac:(discriminate) Hall'). cbn [last fold_right] in *. lia.
Qed.

Lemma tchain_le : forall l a c e, tchain a c l e -> a <= e.
Proof.
  induction l as [|m l IH]; intros a c e H; cbn [tchain] in H; [lia|].
  destruct H as (Ho & (_ & Hs & _) & _ & Hr & Hrest). apply IH in Hrest.
  pose proof (run_ok_nonneg _ Hr). lia.
Qed.

Lemma heap_inv_size_pos h : heap_inv h -> 0 < hsize h.
Proof.
  intros (s & rest & Hn & Hsent & Hrs & Hch & Hdiv). apply tchain_le in Hch.
  pose proof (run_ok_nonneg _ Hrs). pose proof hdr_pos. lia.
Qed.

(** what a history must satisfy for the bound: whenever the slow path collects, either the collection frees
    a chunk that fits the request or it frees nothing at all ("no fragmentation failure": with one size class
    any freed object makes a chunk that fits), the bytes it did NOT free are at most [L], and the request is
    not larger than the last segment *)
Definition step_ok (L : Z) (st : state) (o : op) : Prop :=
  match o with
  | OGc _ => True
  | OAlloc size mss =>
    try_alloc st size = None -> forall st1 mf sf, gc st mss = Some (st1, mf, sf) ->
      (size <= mf \/ sf = 0) /\ total_size st1 - sf <= L /\ size <= hsize (last (heaps st1) (make_heap 0))
  end.

Fixpoint hist_ok (L : Z) (st : state) (ops : list op) : Prop :=
  match ops with
  | [] => True
  | o :: t => step_ok L st o /\ hist_ok L (step st o) t
  end.

Definition within (T0 L : Z) (st : state) : Prop :=
  ratio_num * total_size st <= Z.max (ratio_num * T0) ((1 + factor_num) * ratio_den * L).

Lemma step_within T0 L st o : Inv st -> req_ok o -> step_ok L st o -> within T0 L st -> within T0 L (step st o).
Proof.
  intros HI Hreq Hok HB. destruct o as [size mss|mss]; cbn [step req_ok step_ok] in *.
  - destruct Hreq as [Hs Hd]. unfold alloc.
    destruct (try_alloc st size) as [[[i o] st1]|] eqn:E1.
    + cbn [fst]. destruct (try_alloc_inv_lemma _ _ _ _ _ Hs Hd HI E1) as (_ & Hsz & _).
      unfold within in *. rewrite (total_size_hsizes _ _ Hsz). assumption.
    + destruct (gc st mss) as [[[st1 mf] sf]|] eqn:E2; [|exact HB].
      destruct (gc_inv_lemma _ _ _ _ _ HI E2) as (HI1 & Hsz1 & _).
      destruct (Hok eq_refl _ _ _ eq_refl) as (Hfit & HL & Hlast).
      assert (HB2 : within T0 L (if must_grow st1 size mf sf then grow st1 size else st1)).
      { destruct (must_grow st1 size mf sf) eqn:Eg.
        - unfold must_grow in Eg. apply andb_prop in Eg. destruct Eg as [Eg _].
          assert (Hlive : ratio_num * total_size st1 < ratio_den * L).
          { assert (Hpos : 0 < total_size st1).
            { destruct HI1 as (Hne1 & Hall1 & _). unfold total_size.
              destruct (heaps st1) as [|h0 hs0]; [congruence|]. inversion Hall1 as [|? ? Hh0 Hall0]; subst.
              pose proof (heap_inv_size_pos h0 Hh0). cbn [fold_right].
              assert (0 <= fold_right (fun h a => hsize h + a) 0 hs0).
              { clear -Hall0. induction Hall0 as [|h l Hh _ IH]; cbn [fold_right]; [lia|].
                pose proof (heap_inv_size_pos h Hh). lia. }
              lia. }
            apply orb_prop in Eg. destruct Eg as [Eg|Eg].
            - apply Z.ltb_lt in Eg. destruct Hfit as [Hfit|Hsf0]; [lia|]. subst sf.
              unfold ratio_num, ratio_den. lia.
            - apply andb_prop in Eg. destruct Eg as [_ Eg]. apply Z.ltb_lt in Eg. unfold ratio_den in *. lia. }
          destruct (grow_inv_lemma st1 size HI1 Hs Hd) as [_ Ht]. unfold within. rewrite Ht.
          rewrite (grow_size_val st1 size HI1 Hd). rewrite factor_integral.
          replace (factor_num * Z.max (hsize (last (heaps st1) (make_heap 0))) size + 1 - 1)
            with (factor_num * Z.max (hsize (last (heaps st1) (make_heap 0))) size) by lia.
          rewrite Z.div_1_r, Z.max_l by lia.
          destruct HI1 as (Hne1 & Hall1 & _).
          assert (Hcur : hsize (last (heaps st1) (make_heap 0)) <= total_size st1).
          { apply last_le_total; [assumption|]. eapply Forall_impl; [|exact Hall1].
            intros h Hh. pose proof (heap_inv_size_pos h Hh). lia. }
          unfold ratio_num, ratio_den, factor_num in *. lia.
        - unfold within in *. rewrite (total_size_hsizes _ _ Hsz1). assumption. }
      assert (HI2 : Inv (if must_grow st1 size mf sf then grow st1 size else st1)).
      { destruct (must_grow st1 size mf sf); [apply grow_inv_lemma; assumption|assumption]. }
      destruct (try_alloc (if must_grow st1 size mf sf then grow st1 size else st1) size) as [[[i o] st3]|] eqn:E3.
      * cbn [fst]. destruct (try_alloc_inv_lemma _ _ _ _ _ Hs Hd HI2 E3) as (_ & Hsz & _).
        unfold within in *. rewrite (total_size_hsizes _ _ Hsz). assumption.
      * exact HB2.
  - destruct (gc st mss) as [[[st1 mf] sf]|] eqn:E; [|exact HB].
    destruct (gc_inv_lemma _ _ _ _ _ HI E) as (_ & Hsz & _).
    unfold within in *. rewrite (total_size_hsizes _ _ Hsz). assumption.
Qed.

(** PARTIAL.  Full statement wanted by C10: "for every history whose live data stays <= L the total heap
    stays <= c * L".  Proved here: for every history in which each slow-path collection frees a fitting
    chunk and leaves at most L bytes not freed ([hist_ok]), total <= max(initial, (1+FACTOR)/RATIO * L)
    (= 4 L with the pinned constants).  Missing: deriving [hist_ok] from "live <= L" — that is a
    fragmentation argument (it holds for single-size-class histories, and fails for adversarial mixed
    sizes); the check monitors it on real runs instead. *)
Theorem heap_bounded_partial_lemma L st0 ops :
  Inv st0 -> Forall req_ok ops -> hist_ok L st0 ops ->
  ratio_num * total_size (fold_left step ops st0)
  <= Z.max (ratio_num * total_size st0) ((1 + factor_num) * ratio_den * L).
Proof.
  intros HI Hreq Hh.
  assert (HB : within (total_size st0) L st0) by (unfold within; lia).
  revert HB. generalize (total_size st0) as T0. revert st0 HI Hh.
  induction Hreq as [|o ops Ho _ IH]; intros st HI Hh T0 HB; [exact HB|].
  cbn [fold_left hist_ok] in *. destruct Hh as [Hok Hh].
  apply IH; [apply step_inv; assumption|assumption|apply step_within; assumption].
Qed.

(** a collection that reports max_freed >= size has left a chunk that fits: the retry of sexp_alloc succeeds
    (one heap; the state-level corollary follows with [alloc_reuses]) *)
Theorem max_freed_fits_lemma h sf h' mf' sf' size : heap_inv h -> sweep_heap h 0 sf = Some (h', mf', sf') ->
  0 < size -> size <= mf' -> exists n, In n (tl (hnodes h')) /\ size <= nsize n.
Proof.
  intros Hh Hsw Hs Hle. destruct (sweep_heap_maxfreed _ _ _ _ _ _ Hh (Z.le_refl 0) Hsw) as [H|(n & Hin & Hn)]; [lia|].
  exists n. split; [assumption|lia].
Qed.
