(** C10 — when every object has at least [n] bytes, a collection that frees anything reports
    max_freed >= n: for one size class the first premise of [hist_ok] (More.v) holds by itself. *)
From Coq Require Import ZArith List Bool Lia.
From ChibiV Require Import Gen.C10_Consts C10.Model C10.Spec C10.Proofs C10.Sweep C10.Theorems C10.More.
Import ListNotations.
Local Open Scope Z_scope.

Definition run_ge (n : Z) (r : list obj) : Prop := Forall (fun o : obj => n <= fst o) r.
Definition nodes_ge (n : Z) (l : list node) : Prop := Forall (fun m => 0 <= nsize m /\ run_ge n (nrun m)) l.

Lemma run_ge_rev n r : run_ge n r -> run_ge n (rev r).
Proof. apply Forall_rev. Qed.

Lemma sweep_loop_freed_ge : forall fuel q todo rest p mf sf l mf' sf' n,
  0 <= n -> 0 <= nsize q -> run_ge n todo -> nodes_ge n rest ->
  sweep_loop fuel q todo rest p mf sf = Some (l, mf', sf') ->
  mf <= mf' /\ (sf' = sf \/ n <= mf').
Proof.
  induction fuel as [|fuel IH]; intros q todo rest p mf sf l mf' sf' n Hn Hq Ht Hr H; [discriminate|].
  cbn [sweep_loop] in H.
  destruct todo as [|[size marked] todo'].
  - destruct rest as [|r rest'].
    + injection H as _ <- <-. split; [lia|left; reflexivity].
    + destruct (noff r =? p); [|discriminate].
      inversion Hr as [|? ? [Hr0 Hrr] Hr']; subst.
      destruct (sweep_loop fuel (Node (noff r) (nsize r) []) (rev (nrun r)) rest' (p + nsize r) mf sf)
        as [[[l2 a] b]|] eqn:E; [|discriminate].
      cbn [consq] in H. injection H as _ <- <-.
      eapply IH; [exact Hn| |apply run_ge_rev; exact Hrr|exact Hr'|exact E]. cbn [nsize]. assumption.
  - inversion Ht as [|? ? Hsz Ht']; subst. cbn [fst] in Hsz.
    destruct marked.
    + eapply IH; [exact Hn| |exact Ht'|exact Hr|exact H]. cbn [nsize]. assumption.
    + (* an object of at least n bytes is freed: max_freed >= n from here on *)
      assert (Hgoal : forall q1 todo1 rest1 p1 freed l1,
                 n <= freed -> 0 <= nsize q1 -> run_ge n todo1 -> nodes_ge n rest1 ->
                 sweep_loop fuel q1 todo1 rest1 p1 (Z.max mf freed) (sf + size) = Some (l1, mf', sf') ->
                 mf <= mf' /\ (sf' = sf \/ n <= mf')).
      { intros q1 todo1 rest1 p1 freed l1 Hf Hq1 Ht1 Hr1 E.
        destruct (IH _ _ _ _ _ _ _ _ _ n Hn Hq1 Ht1 Hr1 E) as [Hm _]. split; [lia|right; lia]. }
      destruct ((noff q + nsize q =? p) && negb (noff q =? 0)).
      * destruct (next_adjacent rest (p + size)) as [[r rest']|] eqn:Eadj.
        -- destruct todo'; [|discriminate].
           destruct rest as [|r0 rest0]; [discriminate|]. cbn [next_adjacent] in Eadj.
           destruct (negb (nsize r0 =? 0) && (p + size =? noff r0)); [|discriminate]. injection Eadj as -> ->.
           inversion Hr as [|? ? [Hr0 Hrr] Hr']; subst.
           eapply Hgoal; [| |apply run_ge_rev; exact Hrr|exact Hr'|exact H]; cbn [nsize]; lia.
        -- eapply Hgoal; [| |exact Ht'|exact Hr|exact H]; cbn [nsize]; lia.
      * destruct (next_adjacent rest (p + size)) as [[r rest']|] eqn:Eadj.
        -- destruct todo'; [|discriminate].
           destruct rest as [|r0 rest0]; [discriminate|]. cbn [next_adjacent] in Eadj.
           destruct (negb (nsize r0 =? 0) && (p + size =? noff r0)); [|discriminate]. injection Eadj as -> ->.
           inversion Hr as [|? ? [Hr0 Hrr] Hr']; subst.
           destruct (sweep_loop fuel (Node p (size + nsize r) []) (rev (nrun r)) rest' (p + (size + nsize r))
                                (Z.max mf (size + nsize r)) (sf + size)) as [[[l2 a] b]|] eqn:E; [|discriminate].
           cbn [consq] in H. injection H as _ <- <-.
           eapply Hgoal; [| |apply run_ge_rev; exact Hrr|exact Hr'|exact E]; cbn [nsize]; lia.
        -- destruct (sweep_loop fuel (Node p size []) todo' rest (p + size) (Z.max mf size) (sf + size))
             as [[[l2 a] b]|] eqn:E; [|discriminate].
           cbn [consq] in H. injection H as _ <- <-.
           eapply Hgoal; [| |exact Ht'|exact Hr|exact E]; cbn [nsize]; lia.
Qed.

Definition heap_ge (n : Z) (h : heap) : Prop := nodes_ge n (hnodes h).

Lemma sweep_heap_freed_ge h mf sf h' mf' sf' n : 0 <= n -> heap_ge n h ->
  sweep_heap h mf sf = Some (h', mf', sf') -> mf <= mf' /\ (sf' = sf \/ n <= mf').
Proof.
  intros Hn Hge H. unfold sweep_heap in H. unfold heap_ge in Hge.
  destruct (hnodes h) as [|s rest]; [discriminate|].
  destruct (sweep_loop (S (nodes_fuel (s :: rest))) (Node (noff s) (nsize s) []) (rev (nrun s)) rest hdr_sz mf sf)
    as [[[l a] b]|] eqn:E; [|discriminate]. injection H as _ <- <-.
  inversion Hge as [|? ? [Hs0 Hsr] Hrest]; subst.
  eapply sweep_loop_freed_ge; [exact Hn| |apply run_ge_rev; exact Hsr|exact Hrest|exact E]. cbn [nsize]. assumption.
Qed.

Lemma sweep_heaps_freed_ge : forall hs mf sf hs' mf' sf' n, 0 <= n -> Forall (heap_ge n) hs ->
  sweep_heaps hs mf sf = Some (hs', mf', sf') -> mf <= mf' /\ (sf' = sf \/ n <= mf').
Proof.
  induction hs as [|h hs IH]; intros mf sf hs' mf' sf' n Hn Hall H; cbn [sweep_heaps] in H.
  - injection H as _ <- <-. split; [lia|left; reflexivity].
  - inversion Hall as [|? ? Hh Hall']; subst.
    destruct (sweep_heap h mf sf) as [[[h1 mf1] sf1]|] eqn:E1; [|discriminate].
    destruct (sweep_heaps hs mf1 sf1) as [[[l mf2] sf2]|] eqn:E2; [|discriminate].
    injection H as _ <- <-.
    destruct (sweep_heap_freed_ge _ _ _ _ _ _ n Hn Hh E1) as [Hm1 H1].
    destruct (IH _ _ _ _ _ n Hn Hall' E2) as [Hm2 H2].
    split; [lia|]. destruct H2 as [->|H2]; [|right; assumption].
    destruct H1 as [->|H1]; [left; reflexivity|right; lia].
Qed.

(** marking changes no size *)
Lemma run_ge_shape n r r' : map fst r' = map fst r -> run_ge n r -> run_ge n r'.
Proof.
  revert r'. induction r as [|x r IH]; intros [|x' r'] Hm Hok; try discriminate; [constructor|].
  cbn [map] in Hm. injection Hm as Hx Hm. inversion Hok; subst.
  constructor; [rewrite Hx; assumption|apply IH; assumption].
Qed.

Lemma mark_heaps_ge : forall hs mss l n, Forall (heap_ge n) hs -> mark_heaps hs mss = Some l -> Forall (heap_ge n) l.
Proof.
  induction hs as [|h hs IH]; intros mss l n Hall H; cbn [mark_heaps] in H.
  - destruct mss; [|discriminate]. injection H as <-. constructor.
  - destruct mss as [|ms mss]; [discriminate|].
    destruct (mark_heap h ms) as [h'|] eqn:E1; [|discriminate].
    destruct (mark_heaps hs mss) as [l'|] eqn:E2; [|discriminate]. injection H as <-.
    inversion Hall as [|? ? Hh Hall']; subst. constructor; [|eapply IH; eassumption].
    unfold mark_heap in E1. destruct (mark_nodes (hnodes h) ms) as [l0 ms'] eqn:E. destruct ms'; [|discriminate].
    injection E1 as <-. apply mark_nodes_shape in E. unfold heap_ge in *. cbn [hnodes].
    revert Hh. clear -E. induction E as [|m m' l1 l2 (Ho & Hs & Hr) _ IH]; intros Hh; [constructor|].
    inversion Hh as [|? ? [H0 Hrun] Hh']; subst. constructor; [|apply IH; assumption].
    split; [lia|eapply run_ge_shape; eassumption].
Qed.

(** one size class (every object has at least [n] bytes, e.g. all requests are [n]): a collection either
    frees nothing or reports max_freed >= n *)
Theorem single_class_fit_lemma st mss st1 mf sf n : 0 <= n -> Forall (heap_ge n) (heaps st) ->
  gc st mss = Some (st1, mf, sf) -> n <= mf \/ sf = 0.
Proof.
  intros Hn Hall H. unfold gc in H.
  destruct (mark_heaps (heaps st) mss) as [l|] eqn:E; [|discriminate].
  pose proof (mark_heaps_ge _ _ _ _ Hall E) as Hl.
  unfold sweep in H. cbn [heaps max_size] in H.
  destruct (sweep_heaps l 0 0) as [[[l' mf'] sf']|] eqn:E2; [|discriminate]. injection H as _ <- <-.
  destruct (sweep_heaps_freed_ge _ _ _ _ _ _ n Hn Hl E2) as [_ [->|H]]; [right; reflexivity|left; assumption].
Qed.
