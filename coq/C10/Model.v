(** C10 — executable model of chibi-scheme's heap allocator (gc.c), one function per C function.

    Representation.  The C heap segment is a flat byte array threaded by a singly linked free list
    whose first node is a zero-size sentinel at offset 0 (h->data) occupying [hdr_sz] bytes.  The
    model keeps exactly that list, in LINK order, each node with the offset and size the C stores in
    it, and attaches to every node the run of objects that lie between it and the next node of the
    list (what the sweep finds when it walks memory from the end of the node).  A run is kept in
    REVERSE address order (the object nearest to the next node first) so that an allocation, which
    places the new object at the start of the chunk it splits, is a cons.  Every address test of the C
    code ([q + q->size == p], [p + size == r], [ls2->size >= size + MINIMUM], [q != h->free_list])
    is performed by the model on the stored offsets and sizes, not read off the structure, so the model
    can produce the same ill-formed heaps as the code (adjacent uncoalesced chunks, wrong sizes, a
    sentinel that absorbs memory); where the stored offsets contradict the structure the model stops
    with [None] ("the walk left the heap"), which [Proofs.v] shows impossible from a well-formed heap.
    An object is [(size, marked)]: the size is the one sexp_sweep computes
    (sexp_heap_align(sexp_allocated_bytes)), the mark bit is the object header's.

    Not modelled: malloc failure in sexp_make_heap, SEXP_USE_FIXED_CHUNK_SIZE_HEAPS, the mmap variant,
    size_t wrap-around of [size + SEXP_MINIMUM_OBJECT_SIZE] (requests are < 2^63; stated in the notes). *)
From Coq Require Import ZArith List Bool.
From ChibiV Require Import Gen.C10_Consts.
Import ListNotations.
Local Open Scope Z_scope.

Definition obj := (Z * bool)%type.
Record node := Node { noff : Z; nsize : Z; nrun : list obj }.
Record heap := Heap { hsize : Z; hnodes : list node }.
(** [max_size]: h->max_size of the first heap (0 = unbounded), the only one sexp_alloc reads. *)
Record state := State { heaps : list heap; max_size : Z }.

(** sexp_make_heap, gc.c:825-856: sentinel (size 0) at data, one chunk [size - hdr] after it. *)
Definition make_heap (size : Z) : heap :=
  Heap size [Node 0 0 []; Node hdr_sz (size - hdr_sz) []].

(** sexp_bootstrap_context, sexp.c:622-654 (heap part) *)
Definition init (size max : Z) : state := State [make_heap size] max.

(** sexp_try_alloc, gc.c:903-926, the loop over one heap's free list: [ls1] is the node before
    [ls2 = hd rest].  First fit; split when the remainder is at least one aligned unit, else take the
    whole chunk.  Returns the offset of the object and the list starting with (the updated) [ls1]. *)
Fixpoint try_nodes (ls1 : node) (rest : list node) (size : Z) : option (Z * list node) :=
  match rest with
  | [] => None
  | ls2 :: rest' =>
    if size <=? nsize ls2 then
      if size + min_obj <=? nsize ls2 then
        (* ls3 = ls2 + size; ls3->size = ls2->size - size; ls3->next = ls2->next; ls1->next = ls3 *)
        Some (noff ls2,
              Node (noff ls1) (nsize ls1) ((size, false) :: nrun ls1)
              :: Node (noff ls2 + size) (nsize ls2 - size) (nrun ls2) :: rest')
      else
        (* ls1->next = ls2->next *)
        Some (noff ls2,
              Node (noff ls1) (nsize ls1) (nrun ls2 ++ (size, false) :: nrun ls1) :: rest')
    else
      match try_nodes ls2 rest' size with
      | None => None
      | Some (o, l) => Some (o, ls1 :: l)
      end
  end.

Definition try_heap (h : heap) (size : Z) : option (Z * heap) :=
  match hnodes h with
  | [] => None
  | s :: rest =>
    match try_nodes s rest size with
    | None => None
    | Some (o, l) => Some (o, Heap (hsize h) l)
    end
  end.

(** sexp_try_alloc, gc.c:893: heaps in chain order; [hi] counts them. *)
Fixpoint try_heaps (hs : list heap) (size : Z) (hi : Z) : option (Z * Z * list heap) :=
  match hs with
  | [] => None
  | h :: hs' =>
    match try_heap h size with
    | Some (o, h') => Some (hi, o, h' :: hs')
    | None =>
      match try_heaps hs' size (hi + 1) with
      | None => None
      | Some (i, o, l) => Some (i, o, h :: l)
      end
    end
  end.

Definition try_alloc (st : state) (size : Z) : option (Z * Z * state) :=
  match try_heaps (heaps st) size 0 with
  | None => None
  | Some (i, o, l) => Some (i, o, State l (max_size st))
  end.

(** ------------------------------------------------------------------ mark bits (input of a sweep) *)

(** end of the bytes a node occupies: the sentinel's stored size is 0 but it occupies the header *)
Definition nend (n : node) : Z := if noff n =? 0 then hdr_sz else noff n + nsize n.

(** set the mark bit of the objects whose offsets are listed (ascending) in [ms]; objects ascending
    from [p]; result in reverse order, with the offsets not consumed *)
Fixpoint mark_objs (p : Z) (objs : list obj) (ms : list Z) (acc : list obj) : list obj * list Z :=
  match objs with
  | [] => (acc, ms)
  | (sz, m) :: t =>
    match ms with
    | o :: ms' => if o =? p then mark_objs (p + sz) t ms' ((sz, true) :: acc)
                  else mark_objs (p + sz) t ms ((sz, m) :: acc)
    | [] => mark_objs (p + sz) t [] ((sz, m) :: acc)
    end
  end.

Fixpoint mark_nodes (ns : list node) (ms : list Z) : list node * list Z :=
  match ns with
  | [] => ([], ms)
  | n :: ns' =>
    let '(run, ms1) := mark_objs (nend n) (rev (nrun n)) ms [] in
    let '(l, ms2) := mark_nodes ns' ms1 in
    (Node (noff n) (nsize n) run :: l, ms2)
  end.

(** [None]: a listed offset is not the start of an object of this heap *)
Definition mark_heap (h : heap) (ms : list Z) : option heap :=
  match mark_nodes (hnodes h) ms with
  | (l, []) => Some (Heap (hsize h) l)
  | _ => None
  end.

Fixpoint mark_heaps (hs : list heap) (mss : list (list Z)) : option (list heap) :=
  match hs with
  | [] => match mss with [] => Some [] | _ => None end
  | h :: hs' =>
    match mss with
    | [] => None
    | ms :: mss' =>
      match mark_heap h ms, mark_heaps hs' mss' with
      | Some h', Some l => Some (h' :: l)
      | _, _ => None
      end
    end
  end.

(** ------------------------------------------------------------------ sexp_sweep, gc.c:694-764 *)

(** [r && r->size && (p + size == r)] *)
Definition next_adjacent (rest : list node) (a : Z) : option (node * list node) :=
  match rest with
  | r :: rest' => if negb (nsize r =? 0) && (a =? noff r) then Some (r, rest') else None
  | [] => None
  end.

Definition consq (q : node) (res : option (list node * Z * Z)) : option (list node * Z * Z) :=
  match res with
  | Some (l, a, b) => Some (q :: l, a, b)
  | None => None
  end.

(** The [while (p < end)] loop of one heap.  [q]: the free-list node preceding [p], with in [nrun q]
    the objects after it that were already visited and survive; [todo]: the objects from [p] up to the
    next free-list node, ascending; [rest]: the free list from [r = q->next] on; [mf], [sf]: max_freed
    and sum_freed.  The result starts with the final [q].  [None]: out of fuel, or the stored offsets
    contradict the structure. *)
Fixpoint sweep_loop (fuel : nat) (q : node) (todo : list obj) (rest : list node) (p mf sf : Z)
  : option (list node * Z * Z) :=
  match fuel with
  | O => None
  | S fuel =>
    match todo with
    | [] =>
      match rest with
      | [] => Some ([q], mf, sf)
      | r :: rest' =>
        if noff r =? p then (* gc.c:708 "this is a free block, skip it"; the for loop then makes it q *)
          consq q (sweep_loop fuel (Node (noff r) (nsize r) []) (rev (nrun r)) rest' (p + nsize r) mf sf)
        else None
      end
    | (size, marked) :: todo' =>
      if marked then (* gc.c:756-758: clear the mark, keep *)
        sweep_loop fuel (Node (noff q) (nsize q) ((size, false) :: nrun q)) todo' rest (p + size) mf sf
      else
        let sf := sf + size in
        if (noff q + nsize q =? p) && negb (noff q =? 0) then (* gc.c:726, q != h->free_list *)
          match next_adjacent rest (p + size) with
          | Some (r, rest') => (* gc.c:728-732 merge q with p and with r: q->next = r->next *)
            match todo' with
            | [] =>
              let freed := nsize q + size + nsize r in
              sweep_loop fuel (Node (noff q) freed (nrun q)) (rev (nrun r)) rest'
                         (p + size + nsize r) (Z.max mf freed) sf
            | _ => None
            end
          | None => (* gc.c:733-736 merge q with p *)
            let freed := nsize q + size in
            sweep_loop fuel (Node (noff q) freed (nrun q)) todo' rest (p + size) (Z.max mf freed) sf
          end
        else
          match next_adjacent rest (p + size) with
          | Some (r, rest') => (* gc.c:740-745 merge p with r: s->next = r->next; q->next = s *)
            match todo' with
            | [] =>
              let freed := size + nsize r in
              consq q (sweep_loop fuel (Node p freed []) (rev (nrun r)) rest' (p + freed) (Z.max mf freed) sf)
            | _ => None
            end
          | None => (* gc.c:746-751 new chunk: s->next = r; q->next = s *)
            consq q (sweep_loop fuel (Node p size []) todo' rest (p + size) (Z.max mf size) sf)
          end
    end
  end.

Fixpoint nodes_fuel (ns : list node) : nat :=
  match ns with
  | [] => O
  | n :: ns' => S (length (nrun n) + nodes_fuel ns')
  end.

(** one heap: p = sexp_heap_first_block(h); q = h->free_list *)
Definition sweep_heap (h : heap) (mf sf : Z) : option (heap * Z * Z) :=
  match hnodes h with
  | [] => None
  | s :: rest =>
    match sweep_loop (S (nodes_fuel (hnodes h))) (Node (noff s) (nsize s) []) (rev (nrun s)) rest hdr_sz mf sf with
    | Some (l, mf', sf') => Some (Heap (hsize h) l, mf', sf')
    | None => None
    end
  end.

(** the [for ( ; h; h=h->next)] loop; max_freed and sum_freed run across heaps *)
Fixpoint sweep_heaps (hs : list heap) (mf sf : Z) : option (list heap * Z * Z) :=
  match hs with
  | [] => Some ([], mf, sf)
  | h :: hs' =>
    match sweep_heap h mf sf with
    | None => None
    | Some (h', mf1, sf1) =>
      match sweep_heaps hs' mf1 sf1 with
      | None => None
      | Some (l, mf2, sf2) => Some (h' :: l, mf2, sf2)
      end
    end
  end.

(** sexp_sweep: result (state, max_freed, sum_freed) *)
Definition sweep (st : state) : option (state * Z * Z) :=
  match sweep_heaps (heaps st) 0 0 with
  | None => None
  | Some (l, mf, sf) => Some (State l (max_size st), mf, sf)
  end.

(** sexp_gc, gc.c:776-823, allocator part: the mark phase (C02's subject) is the input [mss] — per
    heap, the ascending offsets of the objects that carry a mark when sexp_sweep starts. *)
Definition gc (st : state) (mss : list (list Z)) : option (state * Z * Z) :=
  match mark_heaps (heaps st) mss with
  | None => None
  | Some l => sweep (State l (max_size st))
  end.

(** ------------------------------------------------------------------ growth *)

(** sexp_heap_total_size, gc.c:41-46 *)
Definition total_size (st : state) : Z := fold_right (fun h a => hsize h + a) 0 (heaps st).

(** sexp_grow_heap, gc.c:858-885: new_size = [grow_formula cur_size size], the expression TRANSLATED from the
    source by gen/c10_consts.py (pinned: ceil(FACTOR * align(max(size of the LAST heap, size)))); [cur_size] is
    the size of the last heap of the chain, [size] is already aligned (sexp_alloc aligned it); the new heap goes
    to the end of the chain. *)
Definition grow_size (st : state) (size : Z) : Z :=
  grow_formula (hsize (last (heaps st) (make_heap 0))) size.

Definition grow (st : state) (size : Z) : state :=
  State (heaps st ++ [make_heap (grow_size st size)]) (max_size st).

(** the test of gc.c:982-985.  (total - sum_freed) > total * RATIO is evaluated by the C in double
    arithmetic; below 2^53 that is the exact rational comparison used here. *)
Definition must_grow (st : state) (size max_freed sum_freed : Z) : bool :=
  let total := total_size st in
  ((max_freed <? size)
   || ((sum_freed <? total) && (ratio_num * total <? ratio_den * (total - sum_freed))))
  && ((max_size st =? 0) || (total <? max_size st)).

Inductive ares := AOk (hi off : Z) | AOom | AStuck.

(** sexp_alloc, gc.c:953-1008, for an already aligned [size]: try; else collect (marks = input),
    maybe grow, try again; else the out-of-memory object. *)
Definition alloc (st : state) (size : Z) (mss : list (list Z)) : state * ares :=
  match try_alloc st size with
  | Some (i, o, st') => (st', AOk i o)
  | None =>
    match gc st mss with
    | None => (st, AStuck)
    | Some (st1, max_freed, sum_freed) =>
      let st2 := if must_grow st1 size max_freed sum_freed then grow st1 size else st1 in
      match try_alloc st2 size with
      | Some (i, o, st3) => (st3, AOk i o)
      | None => (st2, AOom)
      end
    end
  end.

(** ------------------------------------------------------------------ observation (used by the
    correspondence driver and by the specifications) *)

(** objects of a run given in reverse order, as (offset, size, mark), ascending, the run ending at [e] *)
Fixpoint run_objs (e : Z) (run : list obj) (acc : list (Z * Z * bool)) : list (Z * Z * bool) :=
  match run with
  | [] => acc
  | (sz, m) :: t => run_objs (e - sz) t ((e - sz, sz, m) :: acc)
  end.

Definition run_bytes (run : list obj) : Z := fold_right (fun o a => fst o + a) 0 run.

(** all objects of a node list, ascending; positions are derived from the node ends *)
Fixpoint nodes_objs (ns : list node) : list (Z * Z * bool) :=
  match ns with
  | [] => []
  | n :: ns' => run_objs (nend n + run_bytes (nrun n)) (nrun n) [] ++ nodes_objs ns'
  end.

Definition heap_objs (h : heap) : list (Z * Z * bool) := nodes_objs (hnodes h).

(** the C free list after the sentinel, in link order: (offset, size) *)
Definition free_list (h : heap) : list (Z * Z) := map (fun n => (noff n, nsize n)) (tl (hnodes h)).
