(** C10 — non-vacuity: the hypotheses of the theorems hold on concrete, non-trivial states, and the model
    computes what the C code does on small heaps worked out by hand (every coalescing case of sexp_sweep). *)
From Coq Require Import ZArith List Bool Lia.
From ChibiV Require Import Gen.C10_Consts C10.Model C10.Spec C10.Proofs C10.Sweep C10.Theorems C10.More.
Import ListNotations.
Local Open Scope Z_scope.

Definition a8 : list op := [OAlloc 32 []; OAlloc 32 []; OAlloc 32 []; OAlloc 32 []; OAlloc 32 []; OAlloc 32 []; OAlloc 32 []; OAlloc 32 []].
Definition s8 : state := fold_left step a8 (init 1024 0).

Lemma a8_ok : Forall req_ok a8.
Proof. repeat constructor; try (exists 1; reflexivity). Qed.

(** hypotheses of inv_init / heap_inv_reachable_states / try_alloc_inv / sweep_inv / gc_inv *)
Example ex_inv : Inv s8.
Proof. apply heap_inv_reachable_states_lemma; [reflexivity|exists 32; reflexivity|exact a8_ok]. Qed.

Example ex_s8 : map heap_objs (heaps s8) =
  [[(32, 32, false); (64, 32, false); (96, 32, false); (128, 32, false); (160, 32, false); (192, 32, false); (224, 32, false); (256, 32, false)]]
  /\ map free_list (heaps s8) = [[(288, 736)]].
Proof. vm_compute. split; reflexivity. Qed.

(** one sweep exercising: new chunk after the sentinel (no merge although the sentinel "ends" nowhere),
    new chunk, merge with q, and merge with q AND r (the tail chunk) *)
Example ex_sweep_cases_1 :
  match gc s8 [[64; 160]] with
  | Some (st, mf, sf) => (map heap_objs (heaps st), map free_list (heaps st), mf, sf)
  | None => ([], [], 0, 0)
  end = ([[(64, 32, false); (160, 32, false)]], [[(32, 32); (96, 64); (192, 832)]], 832, 192).
Proof. vm_compute. reflexivity. Qed.

(** ... and merge with r only (object at 256 freed in front of the tail chunk, q = (96,128) not adjacent) *)
Example ex_sweep_cases_2 :
  match gc s8 [[64; 224]] with
  | Some (st, mf, sf) => (map heap_objs (heaps st), map free_list (heaps st), mf, sf)
  | None => ([], [], 0, 0)
  end = ([[(64, 32, false); (224, 32, false)]], [[(32, 32); (96, 128); (256, 768)]], 768, 192).
Proof. vm_compute. reflexivity. Qed.

(** sweep_frees_exactly_unmarked / sweep_free_bytes on that state: 1024 - 32 - 64 = 928 free bytes *)
Example ex_free_bytes :
  match gc s8 [[64; 224]] with Some (st, _, _) => state_free st | None => 0 end = 1024 - hdr_sz * 1 - 64.
Proof. vm_compute. reflexivity. Qed.

(** the slow path: three 64-byte objects fill a 256-byte heap; the fourth request collects; with one survivor
    the freed chunk is reused and the heap does NOT grow (no_growth_when_fits, alloc_reuses) ... *)
Definition h3 : state := fold_left step [OAlloc 64 []; OAlloc 64 []; OAlloc 64 []] (init 256 0).

Example ex_slow_reuse :
  try_alloc h3 64 = None /\
  (let '(st, r) := alloc h3 64 [[96]] in (map hsize (heaps st), map heap_objs (heaps st), map free_list (heaps st), r))
  = ([256], [[(32, 64, false); (96, 64, false)]], [[(160, 96)]], AOk 0 32).
Proof. vm_compute. split; reflexivity. Qed.

(** ... with everything live it grows by FACTOR * the last segment and allocates in the new segment *)
Example ex_slow_grow :
  (let '(st, r) := alloc h3 64 [[32; 96; 160]] in (map hsize (heaps st), map free_list (heaps st), r))
  = ([256; 512], [[(224, 32)]; [(96, 416)]], AOk 1 32).
Proof. vm_compute. reflexivity. Qed.

(** hypotheses of no_growth_when_fits *)
Example ex_no_growth_hyps : exists st1 mf sf, gc h3 [[96]] = Some (st1, mf, sf) /\ 64 <= mf /\
  ratio_den * (total_size st1 - sf) <= ratio_num * total_size st1 /\ try_alloc h3 64 = None.
Proof. eexists _, _, _. split; [vm_compute; reflexivity|]. vm_compute. repeat split; discriminate. Qed.

(** hypotheses of heap_bounded_partial: a single-size-class history with L = 128 *)
Example ex_hist_ok : hist_ok 128 (init 256 0) [OAlloc 64 []; OAlloc 64 []; OAlloc 64 []; OAlloc 64 [[96]]].
Proof.
  cbn [hist_ok].
  split; [cbn [step_ok]; intros Hx; vm_compute in Hx; discriminate|].
  split; [cbn [step_ok]; intros Hx; vm_compute in Hx; discriminate|].
  split; [cbn [step_ok]; intros Hx; vm_compute in Hx; discriminate|].
  split; [|exact I].
  cbn [step_ok]. intros _ st1 mf sf Hg. vm_compute in Hg. injection Hg as <- <- <-.
  split; [left; vm_compute; discriminate|]. vm_compute. split; discriminate.
Qed.

(** out of memory: max_size reached, nothing fits *)
Example ex_oom :
  snd (alloc (fold_left step [OAlloc 64 []; OAlloc 64 []; OAlloc 64 []] (init 256 256)) 64 [[32; 96; 160]]) = AOom.
Proof. vm_compute. reflexivity. Qed.
