(** C10 — sexp_alloc reports out of memory only when the heap may not grow (max_size reached). *)
From Coq Require Import ZArith List Bool Lia.
From ChibiV Require Import Gen.C10_Consts C10.Model C10.Spec C10.Proofs C10.Sweep C10.Theorems C10.More.
Import ListNotations.
Local Open Scope Z_scope.

Lemma sweep_heap_mono h mf sf h' mf' sf' : heap_inv h -> sweep_heap h mf sf = Some (h', mf', sf') -> mf <= mf' /\ heap_inv h'.
Proof.
  intros Hh H. destruct (sweep_heap_spec h mf sf Hh) as (h2 & mf2 & sf2 & E & Hi & _ & _ & _ & _ & Hm).
  rewrite E in H. injection H as <- <- <-. split; assumption.
Qed.

(** max_freed across the heap chain: either it never rose above the incoming value, or some heap has a
    free-list chunk at least that large *)
Lemma sweep_heaps_maxfreed : forall hs mf sf hs' mf' sf', Forall heap_inv hs -> 0 <= mf ->
  sweep_heaps hs mf sf = Some (hs', mf', sf') ->
  mf' <= mf \/ exists h n, In h hs' /\ In n (tl (hnodes h)) /\ mf' <= nsize n.
Proof.
  induction hs as [|h hs IH]; intros mf sf hs' mf' sf' Hall Hmf H; cbn [sweep_heaps] in H.
  - injection H as <- <- <-. left. lia.
  - inversion Hall as [|? ? Hh Hall']; subst.
    destruct (sweep_heap h mf sf) as [[[h1 mf1] sf1]|] eqn:E1; [|discriminate].
    destruct (sweep_heaps hs mf1 sf1) as [[[l mf2] sf2]|] eqn:E2; [|discriminate].
    injection H as <- <- <-.
    destruct (sweep_heap_mono _ _ _ _ _ _ Hh E1) as [Hm1 _].
    destruct (IH _ _ _ _ _ Hall' (Z.le_trans _ _ _ Hmf Hm1) E2) as [Hle|(h2 & n & Hin & Hn & Hsz)].
    + destruct (sweep_heap_maxfreed _ _ _ _ _ _ Hh Hmf E1) as [Hle1|(n & Hn & Hsz)].
      * left. lia.
      * right. exists h1, n. split; [left; reflexivity|]. split; [assumption|lia].
    + right. exists h2, n. split; [right; assumption|]. split; assumption.
Qed.

(** after a collection that reports max_freed >= size, sexp_try_alloc succeeds *)
Theorem gc_then_fits_lemma st mss st1 mf sf size : Inv st -> gc st mss = Some (st1, mf, sf) ->
  0 < size -> size <= mf -> try_alloc st1 size <> None.
Proof.
  intros (Hne & Hall & _) Hgc Hs Hle. unfold gc in Hgc.
  destruct (mark_heaps (heaps st) mss) as [l|] eqn:E; [|discriminate].
  destruct (mark_heaps_inv _ _ _ Hall E) as [Hi _].
  unfold sweep in Hgc. cbn [heaps max_size] in Hgc.
  destruct (sweep_heaps l 0 0) as [[[l' mf'] sf']|] eqn:E2; [|discriminate].
  injection Hgc as <- <- <-.
  destruct (sweep_heaps_maxfreed _ _ _ _ _ _ Hi (Z.le_refl 0) E2) as [H0|(h & n & Hin & Hn & Hsz)]; [lia|].
  apply alloc_reuses_lemma. exists h, n. cbn [heaps]. split; [assumption|]. split; [assumption|lia].
Qed.

(** the new segment's single chunk fits the request that caused the growth *)
Lemma grow_fits st size : Inv st -> 0 < size -> (unit_sz | size) -> try_alloc (grow st size) size <> None.
Proof.
  intros HI Hs Hd. apply alloc_reuses_lemma.
  exists (make_heap (grow_size st size)), (Node hdr_sz (grow_size st size - hdr_sz) []).
  split; [unfold grow; cbn [heaps]; apply in_or_app; right; left; reflexivity|].
  split; [cbn; left; reflexivity|]. cbn [nsize].
  rewrite (grow_size_val st size HI Hd). rewrite factor_integral.
  replace (factor_num * Z.max (hsize (last (heaps st) (make_heap 0))) size + 1 - 1)
    with (factor_num * Z.max (hsize (last (heaps st) (make_heap 0))) size) by lia.
  rewrite Z.div_1_r. pose proof factor_ge2. pose proof hdr_le_unit.
  assert (unit_sz <= size) by (apply Z.divide_pos_le; assumption).
  assert (size <= Z.max (hsize (last (heaps st) (make_heap 0))) size) by lia. nia.
Qed.

(** sexp_alloc returns the out-of-memory object only when a maximum heap size is set and reached (the
    collection itself never gets stuck on a well-formed heap once the mark input designates objects) *)
Theorem oom_only_at_max_lemma st size mss : Inv st -> 0 < size -> (unit_sz | size) ->
  snd (alloc st size mss) = AOom -> max_size st <> 0 /\ exists st1 mf sf, gc st mss = Some (st1, mf, sf) /\ max_size st <= total_size st1.
Proof.
  intros HI Hs Hd H. unfold alloc in H.
  destruct (try_alloc st size) as [[[i o] st']|] eqn:E1; [discriminate|].
  destruct (gc st mss) as [[[st1 mf] sf]|] eqn:E2; [|discriminate].
  destruct (gc_inv_lemma _ _ _ _ _ HI E2) as (HI1 & _ & Hmax).
  destruct (must_grow st1 size mf sf) eqn:Eg.
  - exfalso. pose proof (grow_fits st1 size HI1 Hs Hd) as Hf.
    destruct (try_alloc (grow st1 size) size) as [[[i o] st3]|]; [discriminate|congruence].
  - destruct (try_alloc st1 size) as [[[i o] st3]|] eqn:E3; [discriminate|].
    unfold must_grow in Eg. apply andb_false_iff in Eg. destruct Eg as [Eg|Eg].
    + exfalso. apply orb_false_iff in Eg. destruct Eg as [Eg _]. apply Z.ltb_ge in Eg.
      exact (gc_then_fits_lemma _ _ _ _ _ _ HI E2 Hs Eg E3).
    + apply orb_false_iff in Eg. destruct Eg as [Eg1 Eg2]. apply Z.eqb_neq in Eg1. apply Z.ltb_ge in Eg2.
      rewrite Hmax in *. split; [assumption|]. exists st1, mf, sf. split; [reflexivity|assumption].
Qed.
