(** C10 — the theorems about whole heaps, states and histories. *)
From Coq Require Import ZArith List Bool Lia.
From ChibiV Require Import Gen.C10_Consts C10.Model C10.Spec C10.Proofs C10.Sweep.
Import ListNotations.
Local Open Scope Z_scope.

(** ================================================================== one heap *)
Lemma heap_objs_inv h s rest : hnodes h = s :: rest -> sentinel s ->
  heap_objs h = pos_objs hdr_sz (rev (nrun s)) ++ nodes_objs rest.
Proof.
  intros Hn Hs. unfold heap_objs. rewrite Hn, nodes_objs_cons, nend_sentinel by assumption. reflexivity.
Qed.

(** the sweep of a well-tiled heap (ANY mark bits) succeeds, leaves a well-formed coalesced heap with all
    marks clear, keeps exactly the marked objects where they were, and counts the unmarked bytes *)
Lemma sweep_heap_spec h mf sf : heap_inv h ->
  exists h' mf' sf', sweep_heap h mf sf = Some (h', mf', sf') /\
    heap_inv h' /\ heap_unmarked h' /\ hsize h' = hsize h /\
    heap_objs h' = surv (heap_objs h) /\ sf' = sf + dead_bytes (heap_objs h) /\ mf <= mf'.
Proof.
  intros (s & rest & Hn & Hsent & Hrs & Hch & Hdiv).
  pose proof (heap_objs_inv h s rest Hn Hsent) as Hobjs.
  unfold sweep_heap. rewrite Hn.
  assert (Hq : sentinel (Node (noff s) (nsize s) [])) by (destruct Hsent; split; assumption).
  destruct (sweep_loop_spec (S (nodes_fuel (s :: rest))) (Node (noff s) (nsize s) []) (rev (nrun s)) rest hdr_sz mf sf (hsize h))
    as (q' & l' & mf' & sf' & Hres & Ho' & Hs' & _ & Hr' & Hch' & Hum' & Hobjs' & Hsf & Hmf).
  - cbn [nodes_fuel]. rewrite rev_length. lia.
  - left. exact Hq.
  - rewrite (nend_sentinel _ Hq). unfold run_bytes. cbn. lia.
  - constructor.
  - constructor.
  - apply run_ok_rev. assumption.
  - rewrite run_bytes_rev. eapply tchain_weaken; [|exact Hch]. intros _. right. right. destruct Hsent. assumption.
  - rewrite Hres. exists (Heap (hsize h) (q' :: l')), mf', sf'. split; [reflexivity|].
    specialize (Hs' Hq).
    split.
    { exists q', l'. cbn [hnodes hsize]. split; [reflexivity|]. split; [assumption|]. split; [assumption|].
      split; [|assumption]. rewrite (nend_sentinel _ Hs') in Hch'. eapply tchain_weaken; [|exact Hch']. tauto. }
    split; [exact Hum'|]. split; [reflexivity|].
    rewrite Hobjs. split; [|split; [assumption|assumption]].
    unfold heap_objs. cbn [hnodes]. rewrite Hobjs'. cbn [nrun rev pos_objs app]. reflexivity.
Qed.

(** tiling identity: header + free chunks + objects = segment size *)
Lemma tchain_bytes : forall l a c e, tchain a c l e ->
  a + fold_right (fun n acc => nsize n + acc) 0 l + obj_bytes (nodes_objs l) = e.
Proof.
  assert (Hpo : forall asc p, obj_bytes (pos_objs p asc) = run_bytes asc).
  { induction asc as [|[sz m] asc IH]; intros p; [reflexivity|].
    cbn [pos_objs]. unfold obj_bytes in *. cbn [fold_right snd fst]. rewrite IH, run_bytes_cons. reflexivity. }
  assert (Hoa : forall a b, obj_bytes (a ++ b) = obj_bytes a + obj_bytes b).
  { induction a as [|x a IH]; intros b; [reflexivity|]. unfold obj_bytes in *. cbn [app fold_right]. rewrite IH. lia. }
  induction l as [|m l IH]; intros a c e Hch; cbn [tchain] in Hch.
  - cbn. unfold obj_bytes. cbn. lia.
  - destruct Hch as (Ho & Hc & _ & Hr & Hrest). apply IH in Hrest.
    rewrite nodes_objs_cons, Hoa, Hpo, run_bytes_rev. cbn [fold_right]. lia.
Qed.

Lemma heap_bytes h : heap_inv h ->
  hdr_sz + free_bytes h + obj_bytes (heap_objs h) = hsize h.
Proof.
  intros (s & rest & Hn & Hsent & Hrs & Hch & Hdiv).
  apply tchain_bytes in Hch. unfold free_bytes, heap_objs. rewrite Hn, nodes_objs_cons. cbn [fold_right].
  destruct Hsent as [_ Hs0]. rewrite Hs0.
  assert (Hpo : forall asc p, obj_bytes (pos_objs p asc) = run_bytes asc).
  { induction asc as [|[sz m] asc IH]; intros p; [reflexivity|].
    cbn [pos_objs]. unfold obj_bytes in *. cbn [fold_right snd fst]. rewrite IH, run_bytes_cons. reflexivity. }
  assert (Hoa : forall a b, obj_bytes (a ++ b) = obj_bytes a + obj_bytes b).
  { induction a as [|x a IH]; intros b; [reflexivity|]. unfold obj_bytes in *. cbn [app fold_right]. rewrite IH. lia. }
  rewrite Hoa, Hpo, run_bytes_rev. lia.
Qed.

(** ================================================================== all heaps *)
Lemma sweep_heaps_spec : forall hs mf sf, Forall heap_inv hs ->
  exists hs' mf' sf', sweep_heaps hs mf sf = Some (hs', mf', sf') /\
    Forall heap_inv hs' /\ Forall heap_unmarked hs' /\ map hsize hs' = map hsize hs /\
    map heap_objs hs' = map surv (map heap_objs hs) /\
    sf' = sf + fold_right (fun h a => dead_bytes (heap_objs h) + a) 0 hs /\ mf <= mf'.
Proof.
  induction hs as [|h hs IH]; intros mf sf Hall.
  - exists [], mf, sf. cbn. repeat split; try constructor; lia.
  - inversion Hall as [|? ? Hh Hall']; subst.
    destruct (sweep_heap_spec h mf sf Hh) as (h' & mf1 & sf1 & E1 & Hi & Hu & Hsz & Ho & Hsf1 & Hmf1).
    destruct (IH mf1 sf1 Hall') as (hs' & mf2 & sf2 & E2 & Hi2 & Hu2 & Hsz2 & Ho2 & Hsf2 & Hmf2).
    exists (h' :: hs'), mf2, sf2. cbn [sweep_heaps]. rewrite E1, E2.
    split; [reflexivity|]. split; [constructor; assumption|]. split; [constructor; assumption|].
    split; [cbn [map]; rewrite Hsz, Hsz2; reflexivity|].
    split; [cbn [map]; rewrite Ho, Ho2; reflexivity|].
    split; [cbn [fold_right]; lia|lia].
Qed.

Definition all_dead_bytes (st : state) : Z := fold_right (fun h a => dead_bytes (heap_objs h) + a) 0 (heaps st).

(** sexp_sweep on a well-tiled state with arbitrary mark bits *)
Theorem sweep_inv_lemma st : heaps st <> [] -> Forall heap_inv (heaps st) ->
  exists st' mf sf, sweep st = Some (st', mf, sf) /\ Inv st' /\
    map hsize (heaps st') = map hsize (heaps st) /\ max_size st' = max_size st /\
    state_objs st' = map surv (state_objs st) /\ sf = all_dead_bytes st /\ 0 <= mf.
Proof.
  intros Hne Hall.
  destruct (sweep_heaps_spec (heaps st) 0 0 Hall) as (hs' & mf & sf & E & Hi & Hu & Hsz & Ho & Hsf & Hmf).
  exists (State hs' (max_size st)), mf, sf. unfold sweep. rewrite E.
  split; [reflexivity|]. split.
  { unfold Inv. cbn [heaps]. split; [|split; assumption].
    intros ->. destruct (heaps st); [congruence|discriminate]. }
  cbn [heaps max_size]. split; [assumption|]. split; [reflexivity|]. split; [exact Ho|].
  split; [unfold all_dead_bytes; lia|assumption].
Qed.

(** ================================================================== mark bits do not touch the tiling *)
Definition same_shape (n n' : node) : Prop :=
  noff n' = noff n /\ nsize n' = nsize n /\ map fst (nrun n') = map fst (nrun n).

Lemma run_ok_shape r r' : map fst r' = map fst r -> run_ok r -> run_ok r'.
Proof.
  revert r'. induction r as [|x r IH]; intros [|x' r'] Hm Hok; try discriminate; [constructor|].
  cbn [map] in Hm. injection Hm as Hx Hm. inversion Hok; subst.
  constructor; [unfold obj_ok in *; rewrite Hx; assumption|apply IH; assumption].
Qed.

Lemma run_bytes_shape r r' : map fst r' = map fst r -> run_bytes r' = run_bytes r.
Proof.
  revert r'. induction r as [|x r IH]; intros [|x' r'] Hm; try discriminate; [reflexivity|].
  cbn [map] in Hm. injection Hm as Hx Hm. rewrite !run_bytes_cons, Hx, (IH r' Hm). reflexivity.
Qed.

Lemma nil_shape (r r' : list obj) : map fst r' = map fst r -> r <> [] -> r' <> [].
Proof. intros Hm Hne ->. destruct r; [congruence|discriminate]. Qed.

Lemma tchain_shape : forall l l' a (c : Prop) e,
  Forall2 same_shape l l' -> tchain a c l e -> tchain a c l' e.
Proof.
  induction l as [|m l IH]; intros l' a c e HF Hch; inversion HF as [|? m' ? l2 (Ho & Hs & Hr) HF']; subst; [exact Hch|].
  cbn [tchain] in *. destruct Hch as (H1 & (H2 & H3 & H4) & H5 & H6 & H7).
  split; [lia|]. split; [unfold chunk; rewrite Ho, Hs; auto|]. split; [assumption|].
  split; [eapply run_ok_shape; eassumption|].
  rewrite Ho, Hs, (run_bytes_shape _ _ Hr).
  eapply tchain_weaken; [|apply IH; eassumption]. apply nil_shape. assumption.
Qed.

Lemma mark_objs_shape : forall objs p ms acc run ms',
  mark_objs p objs ms acc = (run, ms') -> map fst run = map fst (rev objs ++ acc).
Proof.
  induction objs as [|[sz m] objs IH]; intros p ms acc run ms' H; cbn [mark_objs] in H.
  - injection H as <- _. reflexivity.
  - cbn [rev]. rewrite <- app_assoc. cbn [app].
    destruct ms as [|o ms1].
    + apply IH in H. rewrite H, !map_app. reflexivity.
    + destruct (o =? p); apply IH in H; rewrite H, !map_app; reflexivity.
Qed.

Lemma mark_nodes_shape : forall ns ms l ms', mark_nodes ns ms = (l, ms') -> Forall2 same_shape ns l.
Proof.
  induction ns as [|n ns IH]; intros ms l ms' H; cbn [mark_nodes] in H.
  - injection H as <- _. constructor.
  - destruct (mark_objs (nend n) (rev (nrun n)) ms []) as [run ms1] eqn:E1.
    destruct (mark_nodes ns ms1) as [l2 ms2] eqn:E2. injection H as <- _.
    constructor; [|eapply IH; eassumption].
    split; [reflexivity|]. split; [reflexivity|]. cbn [nrun].
    apply mark_objs_shape in E1. rewrite E1, rev_involutive, app_nil_r. reflexivity.
Qed.

Lemma mark_heap_inv h ms h' : heap_inv h -> mark_heap h ms = Some h' -> heap_inv h' /\ hsize h' = hsize h.
Proof.
  intros (s & rest & Hn & Hsent & Hrs & Hch & Hdiv) Hm. unfold mark_heap in Hm.
  destruct (mark_nodes (hnodes h) ms) as [l ms'] eqn:E. destruct ms'; [|discriminate]. injection Hm as <-.
  apply mark_nodes_shape in E. rewrite Hn in E.
  inversion E as [|? s' ? rest' (Ho & Hs & Hr) HF]; subst.
  split; [|reflexivity]. exists s', rest'. cbn [hnodes hsize].
  split; [reflexivity|]. split; [destruct Hsent; split; lia|].
  split; [eapply run_ok_shape; eassumption|]. split; [|assumption].
  rewrite (run_bytes_shape _ _ Hr). eapply tchain_shape; eassumption.
Qed.

Lemma mark_heaps_inv : forall hs mss l, Forall heap_inv hs -> mark_heaps hs mss = Some l ->
  Forall heap_inv l /\ map hsize l = map hsize hs.
Proof.
  induction hs as [|h hs IH]; intros mss l Hall H; cbn [mark_heaps] in H.
  - destruct mss; [|discriminate]. injection H as <-. split; [constructor|reflexivity].
  - destruct mss as [|ms mss]; [discriminate|].
    destruct (mark_heap h ms) as [h'|] eqn:E1; [|discriminate].
    destruct (mark_heaps hs mss) as [l'|] eqn:E2; [|discriminate]. injection H as <-.
    inversion Hall as [|? ? Hh Hall']; subst.
    destruct (mark_heap_inv _ _ _ Hh E1) as [Hi Hsz]. destruct (IH _ _ Hall' E2) as [Hi2 Hsz2].
    split; [constructor; assumption|cbn [map]; rewrite Hsz, Hsz2; reflexivity].
Qed.

(** sexp_gc (mark bits = input): a collection of a well-formed state yields a well-formed state *)
Theorem gc_inv_lemma st mss st' mf sf : Inv st -> gc st mss = Some (st', mf, sf) ->
  Inv st' /\ map hsize (heaps st') = map hsize (heaps st) /\ max_size st' = max_size st.
Proof.
  intros (Hne & Hall & _) H. unfold gc in H.
  destruct (mark_heaps (heaps st) mss) as [l|] eqn:E; [|discriminate].
  destruct (mark_heaps_inv _ _ _ Hall E) as [Hi Hsz].
  assert (Hne' : l <> []) by (intros ->; destruct (heaps st); [congruence|discriminate]).
  destruct (sweep_inv_lemma (State l (max_size st)) Hne' Hi) as (st2 & mf2 & sf2 & E2 & HI & Hs2 & Hm2 & _).
  rewrite E2 in H. injection H as <- <- <-. cbn [heaps max_size] in *.
  split; [assumption|]. split; [congruence|assumption].
Qed.

(** a collection never gets stuck once the mark input designates objects *)
Lemma gc_total st mss l : Inv st -> mark_heaps (heaps st) mss = Some l -> gc st mss <> None.
Proof.
  intros (Hne & Hall & _) E. unfold gc. rewrite E.
  destruct (mark_heaps_inv _ _ _ Hall E) as [Hi Hsz].
  assert (Hne' : l <> []) by (intros ->; destruct (heaps st); [congruence|discriminate]).
  destruct (sweep_inv_lemma (State l (max_size st)) Hne' Hi) as (st2 & mf2 & sf2 & E2 & _).
  rewrite E2. discriminate.
Qed.

(** ================================================================== sexp_alloc and histories *)
Theorem alloc_inv_lemma st size mss : 0 < size -> (unit_sz | size) -> Inv st -> Inv (fst (alloc st size mss)).
Proof.
  intros Hs Hd HI. unfold alloc.
  destruct (try_alloc st size) as [[[i o] st1]|] eqn:E1.
  - cbn [fst]. eapply try_alloc_inv_lemma; eassumption.
  - destruct (gc st mss) as [[[st1 mf] sf]|] eqn:E2; [|exact HI].
    destruct (gc_inv_lemma _ _ _ _ _ HI E2) as [HI1 _].
    assert (HI2 : Inv (if must_grow st1 size mf sf then grow st1 size else st1)).
    { destruct (must_grow st1 size mf sf); [apply grow_inv_lemma; assumption|assumption]. }
    destruct (try_alloc (if must_grow st1 size mf sf then grow st1 size else st1) size) as [[[i o] st3]|] eqn:E3.
    + cbn [fst]. eapply try_alloc_inv_lemma; eassumption.
    + exact HI2.
Qed.

Lemma step_inv st o : req_ok o -> Inv st -> Inv (step st o).
Proof.
  destruct o as [size mss|mss]; cbn [req_ok step].
  - intros [Hs Hd]. apply alloc_inv_lemma; assumption.
  - intros _ HI. destruct (gc st mss) as [[[st1 mf] sf]|] eqn:E; [|exact HI].
    eapply gc_inv_lemma; eassumption.
Qed.

(** every state reachable from a fresh heap by ANY history of allocations and collections (with any
    mark inputs, any request sizes that sexp_alloc can pass on) is well formed *)
Theorem heap_inv_reachable_states_lemma size max ops :
  hdr_sz < size -> (unit_sz | size) -> Forall req_ok ops -> Inv (fold_left step ops (init size max)).
Proof.
  intros H1 H2 Hops. pose proof (inv_init_lemma size max H1 H2) as HI.
  revert HI. generalize (init size max). induction Hops as [|o ops Ho _ IH]; intros st HI; [exact HI|].
  cbn [fold_left]. apply IH. apply step_inv; assumption.
Qed.

(** ================================================================== reuse *)
Lemma try_nodes_reuses : forall rest ls1 size, (exists n, In n rest /\ size <= nsize n) -> try_nodes ls1 rest size <> None.
Proof.
  induction rest as [|ls2 rest IH]; intros ls1 size (n & Hin & Hle); [destruct Hin|].
  cbn [try_nodes]. destruct (size <=? nsize ls2) eqn:E.
  - destruct (size + min_obj <=? nsize ls2); discriminate.
  - apply Z.leb_gt in E. destruct Hin as [->|Hin]; [lia|].
    specialize (IH ls2 size (ex_intro _ n (conj Hin Hle))).
    destruct (try_nodes ls2 rest size) as [[o l]|]; [discriminate|congruence].
Qed.

(** a free chunk of at least [size] bytes anywhere in the chain => sexp_try_alloc succeeds (so sexp_alloc
    neither collects nor grows) *)
Theorem alloc_reuses_lemma st size :
  (exists h n, In h (heaps st) /\ In n (tl (hnodes h)) /\ size <= nsize n) -> try_alloc st size <> None.
Proof.
  intros (h & n & Hh & Hn & Hle). unfold try_alloc.
  assert (H : forall hs hi, In h hs -> try_heaps hs size hi <> None).
  { induction hs as [|h0 hs IH]; intros hi Hin; [destruct Hin|]. cbn [try_heaps].
    destruct (try_heap h0 size) as [[o h']|] eqn:E; [discriminate|].
    destruct Hin as [->|Hin].
    - exfalso. unfold try_heap in E. destruct (hnodes h) as [|s rest]; [destruct Hn|]. cbn [tl] in Hn.
      pose proof (try_nodes_reuses rest s size (ex_intro _ n (conj Hn Hle))) as Hr.
      destruct (try_nodes s rest size) as [[o l]|]; [discriminate|congruence].
    - specialize (IH (hi + 1) Hin). destruct (try_heaps hs size (hi + 1)) as [[[i o] l]|]; [discriminate|congruence]. }
  specialize (H (heaps st) 0 Hh). destruct (try_heaps (heaps st) size 0) as [[[i o] l]|]; [discriminate|congruence].
Qed.

(** sexp_alloc does not add a segment when the collection freed a chunk that fits and the bytes not
    freed by it are at most RATIO of the total *)
Theorem no_growth_when_fits_lemma st size mss st1 mf sf :
  gc st mss = Some (st1, mf, sf) -> size <= mf ->
  ratio_den * (total_size st1 - sf) <= ratio_num * total_size st1 ->
  try_alloc st size = None ->
  map hsize (heaps (fst (alloc st size mss))) = map hsize (heaps st1) \/
  exists i o st3, try_alloc st1 size = Some (i, o, st3) /\ fst (alloc st size mss) = st3.
Proof.
  intros Hgc Hmf Hratio Htry. unfold alloc. rewrite Htry, Hgc.
  assert (Hng : must_grow st1 size mf sf = false).
  { unfold must_grow. apply andb_false_iff. left. apply orb_false_iff. split.
    - apply Z.ltb_ge. assumption.
    - apply andb_false_iff. right. apply Z.ltb_ge. assumption. }
  rewrite Hng. destruct (try_alloc st1 size) as [[[i o] st3]|] eqn:E.
  - right. exists i, o, st3. split; reflexivity.
  - left. reflexivity.
Qed.

(** ================================================================== bytes *)
Definition sumZ (l : list Z) : Z := fold_right Z.add 0 l.
Definition state_free (st : state) : Z := sumZ (map free_bytes (heaps st)).
(** bytes of the marked objects (what the collection keeps) *)
Definition live_bytes (st : state) : Z := sumZ (map (fun o => obj_bytes (surv o)) (state_objs st)).

Lemma total_size_sum st : total_size st = sumZ (map hsize (heaps st)).
Proof. unfold total_size, sumZ. induction (heaps st) as [|h l IH]; cbn; [reflexivity|]. rewrite IH. reflexivity. Qed.

Lemma heaps_bytes : forall hs, Forall heap_inv hs ->
  hdr_sz * Z.of_nat (length hs) + sumZ (map free_bytes hs) + sumZ (map (fun h => obj_bytes (heap_objs h)) hs)
  = sumZ (map hsize hs).
Proof.
  induction 1 as [|h hs Hh _ IH]; [cbn; lia|].
  pose proof (heap_bytes h Hh). cbn [length map sumZ fold_right] in *. unfold sumZ in *. lia.
Qed.

(** after a sweep the free bytes are everything except the headers and the marked objects, and sum_freed
    is exactly the bytes of the unmarked objects *)
Theorem sweep_free_bytes_lemma st st' mf sf : heaps st <> [] -> Forall heap_inv (heaps st) ->
  sweep st = Some (st', mf, sf) ->
  state_free st' = total_size st - hdr_sz * Z.of_nat (length (heaps st)) - live_bytes st
  /\ sf = all_dead_bytes st.
Proof.
  intros Hne Hall Hsw.
  destruct (sweep_inv_lemma st Hne Hall) as (st2 & mf2 & sf2 & E & (_ & Hi & _) & Hsz & _ & Hobjs & Hsf & _).
  rewrite E in Hsw. injection Hsw as <- <- <-. split; [|assumption].
  pose proof (heaps_bytes _ Hi) as Hb. rewrite Hsz in Hb.
  assert (Hlen : length (heaps st2) = length (heaps st)).
  { rewrite <- (map_length hsize (heaps st2)), Hsz, map_length. reflexivity. }
  rewrite Hlen in Hb. rewrite total_size_sum. unfold state_free, live_bytes.
  assert (Hl : sumZ (map (fun h => obj_bytes (heap_objs h)) (heaps st2)) = sumZ (map (fun o => obj_bytes (surv o)) (state_objs st))).
  { unfold state_objs in *. rewrite <- (map_map heap_objs obj_bytes), Hobjs, !map_map. reflexivity. }
  lia.
Qed.

Theorem sweep_frees_exactly_unmarked_lemma st st' mf sf : heaps st <> [] -> Forall heap_inv (heaps st) ->
  sweep st = Some (st', mf, sf) -> state_objs st' = map surv (state_objs st).
Proof.
  intros Hne Hall Hsw.
  destruct (sweep_inv_lemma st Hne Hall) as (st2 & mf2 & sf2 & E & _ & _ & _ & Ho & _).
  rewrite E in Hsw. injection Hsw as <- _ _. exact Ho.
Qed.
