(** C10 round 4 — "storage of unreachable objects is returned to the allocator and REUSED", as theorems about the
    model of sexp_sweep / sexp_try_alloc (coq/C10/Model.v; no new model function: [cap] and [iter_try] are
    specification-side quantities built from the model's own free list and [try_alloc]).

    1. [sweep_loop_mf_lower] .. [dead_object_recycled_lemma]: max_freed is at least the size of EVERY unmarked object
       the sweep walks over, so a request no larger than some dead object is served by sexp_try_alloc right after
       the collection (no growth is needed for it).
    2. [cap n st] = sum over the free chunks of floor(size / n) = the number of n-byte objects the free lists can
       still take.  sexp_try_alloc of n bytes succeeds iff [cap n st > 0] and lowers it by EXACTLY one — whether it
       splits a chunk or takes a whole chunk of n .. n+MINIMUM-1 bytes (in particular one of exactly n bytes).  So
       exactly [cap n st] consecutive n-byte allocations are served on the fast path, no collection before the
       ([cap]+1)-th: k one-object holes are ALL refilled ([fast_path_count_lemma]).
    3. [exact_fit_refilled_lemma]: when the first chunk that is large enough has exactly the requested size, the
       object is placed at that chunk's address, that chunk leaves the free list and every other chunk keeps its
       offset and size. *)
From Coq Require Import ZArith List Bool Lia.
From ChibiV Require Import Gen.C10_Consts C10.Model C10.Spec C10.Proofs C10.Sweep C10.Theorems C10.More C10.Oom.
Import ListNotations.
Local Open Scope Z_scope.

(** ================================================================== 1. max_freed >= every dead object *)
Definition dead_le (b : Z) (l : list obj) : Prop := forall s, In (s, false) l -> s <= b.

Lemma sweep_loop_mf_lower : forall fuel q todo rest p mf sf l mf' sf',
  0 <= nsize q -> sizes_nonneg todo rest ->
  sweep_loop fuel q todo rest p mf sf = Some (l, mf', sf') ->
  mf <= mf' /\ dead_le mf' todo /\ (forall r, In r rest -> dead_le mf' (nrun r)).
Proof.
  induction fuel as [|fuel IH]; intros q todo rest p mf sf l mf' sf' Hq [Ht Hr] H; [discriminate|].
  cbn [sweep_loop] in H.
  destruct todo as [|[size marked] todo'].
  - destruct rest as [|r rest'].
    + injection H as <- <- <-. split; [lia|]. split; [intros s []|intros r []].
    + destruct (noff r =? p); [|discriminate].
      inversion Hr as [|? ? [Hr0 Hrr] Hr']; subst.
      destruct (sweep_loop fuel (Node (noff r) (nsize r) []) (rev (nrun r)) rest' (p + nsize r) mf sf)
        as [[[l2 a] b]|] eqn:E; [|discriminate].
      cbn [consq] in H. injection H as <- <- <-.
      assert (Hq' : 0 <= nsize (Node (noff r) (nsize r) [])) by (cbn [nsize]; lia).
      destruct (IH _ _ _ _ _ _ _ _ _ Hq' (conj (nonneg_rev _ Hrr) Hr') E) as (Hm & Hd & Hrest).
      split; [assumption|]. split; [intros s []|].
      intros r1 [<-|Hin]; [|apply Hrest; assumption].
      intros s Hs. apply Hd. apply in_rev in Hs. exact Hs.
  - inversion Ht as [|? ? Hsz Ht']; subst. cbn [fst] in Hsz.
    destruct marked.
    + assert (Hq' : 0 <= nsize (Node (noff q) (nsize q) ((size, false) :: nrun q))) by (cbn [nsize]; lia).
      destruct (IH _ _ _ _ _ _ _ _ _ Hq' (conj Ht' Hr) H) as (Hm & Hd & Hrest).
      split; [assumption|]. split; [|assumption].
      intros s [Heq|Hin]; [discriminate|apply Hd; assumption].
    + destruct ((noff q + nsize q =? p) && negb (noff q =? 0)).
      * destruct (next_adjacent rest (p + size)) as [[r rest']|] eqn:Eadj.
        -- destruct todo'; [|discriminate].
           destruct rest as [|r0 rest0]; [discriminate|]. cbn [next_adjacent] in Eadj.
           destruct (negb (nsize r0 =? 0) && (p + size =? noff r0)); [|discriminate]. injection Eadj as -> ->.
           inversion Hr as [|? ? [Hr0 Hrr] Hr']; subst.
           assert (Hq' : 0 <= nsize (Node (noff q) (nsize q + size + nsize r) (nrun q))) by (cbn [nsize]; lia).
           destruct (IH _ _ _ _ _ _ _ _ _ Hq' (conj (nonneg_rev _ Hrr) Hr') H) as (Hm & Hd & Hrest).
           split; [lia|]. split.
           ++ intros s [Heq|[]]. injection Heq as Heq. lia.
           ++ intros r1 [<-|Hin]; [|apply Hrest; assumption].
              intros s Hs. apply Hd. apply in_rev in Hs. exact Hs.
        -- assert (Hq' : 0 <= nsize (Node (noff q) (nsize q + size) (nrun q))) by (cbn [nsize]; lia).
           destruct (IH _ _ _ _ _ _ _ _ _ Hq' (conj Ht' Hr) H) as (Hm & Hd & Hrest).
           split; [lia|]. split; [|assumption].
           intros s [Heq|Hin]; [injection Heq as Heq; lia|apply Hd; assumption].
      * destruct (next_adjacent rest (p + size)) as [[r rest']|] eqn:Eadj.
        -- destruct todo'; [|discriminate].
           destruct rest as [|r0 rest0]; [discriminate|]. cbn [next_adjacent] in Eadj.
           destruct (negb (nsize r0 =? 0) && (p + size =? noff r0)); [|discriminate]. injection Eadj as -> ->.
           inversion Hr as [|? ? [Hr0 Hrr] Hr']; subst.
           destruct (sweep_loop fuel (Node p (size + nsize r) []) (rev (nrun r)) rest' (p + (size + nsize r))
                                (Z.max mf (size + nsize r)) (sf + size)) as [[[l2 a] b]|] eqn:E; [|discriminate].
           cbn [consq] in H. injection H as <- <- <-.
           assert (Hq' : 0 <= nsize (Node p (size + nsize r) [])) by (cbn [nsize]; lia).
           destruct (IH _ _ _ _ _ _ _ _ _ Hq' (conj (nonneg_rev _ Hrr) Hr') E) as (Hm & Hd & Hrest).
           split; [lia|]. split.
           ++ intros s [Heq|[]]. injection Heq as Heq. lia.
           ++ intros r1 [<-|Hin]; [|apply Hrest; assumption].
              intros s Hs. apply Hd. apply in_rev in Hs. exact Hs.
        -- destruct (sweep_loop fuel (Node p size []) todo' rest (p + size) (Z.max mf size) (sf + size))
             as [[[l2 a] b]|] eqn:E; [|discriminate].
           cbn [consq] in H. injection H as <- <- <-.
           assert (Hq' : 0 <= nsize (Node p size [])) by (cbn [nsize]; lia).
           destruct (IH _ _ _ _ _ _ _ _ _ Hq' (conj Ht' Hr) E) as (Hm & Hd & Hrest).
           split; [lia|]. split; [|assumption].
           intros s [Heq|Hin]; [injection Heq as Heq; lia|apply Hd; assumption].
Qed.

Lemma sweep_heap_mf_lower h mf sf h' mf' sf' : heap_inv h -> sweep_heap h mf sf = Some (h', mf', sf') ->
  mf <= mf' /\ forall nd, In nd (hnodes h) -> dead_le mf' (nrun nd).
Proof.
  intros (s & rest & Hn & Hsent & Hrs & Hch & Hdiv) H. unfold sweep_heap in H. rewrite Hn in H.
  destruct (sweep_loop (S (nodes_fuel (s :: rest))) (Node (noff s) (nsize s) []) (rev (nrun s)) rest hdr_sz mf sf)
    as [[[l a] b]|] eqn:E; [|discriminate]. injection H as <- -> ->.
  apply sweep_loop_mf_lower in E.
  - destruct E as (Hm & Hd & Hrest). split; [assumption|]. rewrite Hn.
    intros nd [<-|Hin]; [|apply Hrest; assumption].
    intros x Hx. apply Hd. apply in_rev in Hx. exact Hx.
  - cbn [nsize]. destruct Hsent as [_ Hz]. lia.
  - split; [apply nonneg_rev, run_ok_nonneg_all; assumption|eapply tchain_nonneg; exact Hch].
Qed.

Lemma sweep_heaps_mf_lower : forall hs mf sf hs' mf' sf', Forall heap_inv hs ->
  sweep_heaps hs mf sf = Some (hs', mf', sf') ->
  mf <= mf' /\ forall h nd, In h hs -> In nd (hnodes h) -> dead_le mf' (nrun nd).
Proof.
  induction hs as [|h hs IH]; intros mf sf hs' mf' sf' Hall H; cbn [sweep_heaps] in H.
  - injection H as <- <- <-. split; [lia|intros h nd []].
  - inversion Hall as [|? ? Hh Hall']; subst.
    destruct (sweep_heap h mf sf) as [[[h1 mf1] sf1]|] eqn:E1; [|discriminate].
    destruct (sweep_heaps hs mf1 sf1) as [[[l mf2] sf2]|] eqn:E2; [|discriminate].
    injection H as <- <- <-.
    destruct (sweep_heap_mf_lower _ _ _ _ _ _ Hh E1) as [Hm1 Hd1].
    destruct (IH _ _ _ _ _ Hall' E2) as [Hm2 Hd2].
    split; [lia|]. intros h0 nd [<-|Hin] Hnd.
    + intros x Hx. specialize (Hd1 nd Hnd x Hx). lia.
    + eapply Hd2; eassumption.
Qed.

(** the storage of a dead object is offered again: after the sweep of a tiled heap (ANY mark bits) max_freed is at
    least the size [s] of every unmarked object, and a request of at most [s] bytes is served by sexp_try_alloc *)
Theorem dead_object_recycled_lemma st st' mf sf h nd s n :
  heaps st <> [] -> Forall heap_inv (heaps st) -> sweep st = Some (st', mf, sf) ->
  In h (heaps st) -> In nd (hnodes h) -> In (s, false) (nrun nd) -> 0 < n -> n <= s ->
  s <= mf /\ try_alloc st' n <> None.
Proof.
  intros Hne Hall Hsw Hh Hnd Hs Hn Hle. unfold sweep in Hsw.
  destruct (sweep_heaps (heaps st) 0 0) as [[[l mf'] sf']|] eqn:E; [|discriminate].
  injection Hsw as <- <- <-.
  destruct (sweep_heaps_mf_lower _ _ _ _ _ _ Hall E) as [_ Hd].
  pose proof (Hd h nd Hh Hnd s Hs) as Hmf.
  split; [assumption|].
  destruct (sweep_heaps_maxfreed _ _ _ _ _ _ Hall (Z.le_refl 0) E) as [H0|(h2 & n2 & Hin & Hn2 & Hsz)]; [lia|].
  apply alloc_reuses_lemma. exists h2, n2. cbn [heaps]. split; [assumption|]. split; [assumption|lia].
Qed.

(** ================================================================== 2. capacity of the free lists *)
Definition cap_nodes (n : Z) (l : list node) : Z := fold_right (fun m a => nsize m / n + a) 0 l.
Definition cap_heap (n : Z) (h : heap) : Z := cap_nodes n (hnodes h).
Definition cap_hs (n : Z) (hs : list heap) : Z := fold_right (fun h a => cap_heap n h + a) 0 hs.
Definition cap (n : Z) (st : state) : Z := cap_hs n (heaps st).

Definition nn (l : list node) : Prop := Forall (fun m => 0 <= nsize m) l.

Lemma cap_nodes_cons n m l : cap_nodes n (m :: l) = nsize m / n + cap_nodes n l.
Proof. reflexivity. Qed.

Lemma cap_nodes_nonneg n l : 0 < n -> nn l -> 0 <= cap_nodes n l.
Proof.
  intros Hn H. induction H as [|m l Hm _ IH]; [unfold cap_nodes; cbn; lia|].
  rewrite cap_nodes_cons. pose proof (Z.div_pos (nsize m) n Hm Hn). lia.
Qed.

(** a successful sexp_try_alloc lowers the capacity by exactly one: split => (s - n)/n = s/n - 1; whole chunk =>
    n <= s < n + MINIMUM <= 2n, so s/n = 1 and the chunk is gone *)
Lemma try_nodes_cap : forall rest ls1 n o l, 0 < n -> min_obj <= n ->
  try_nodes ls1 rest n = Some (o, l) -> cap_nodes n l = cap_nodes n (ls1 :: rest) - 1.
Proof.
  induction rest as [|ls2 rest' IH]; intros ls1 n o l Hn Hmin H; cbn [try_nodes] in H; [discriminate|].
  destruct (n <=? nsize ls2) eqn:E1.
  - apply Z.leb_le in E1. destruct (n + min_obj <=? nsize ls2) eqn:E2; injection H as <- <-.
    + rewrite !cap_nodes_cons. cbn [nsize].
      replace (nsize ls2 - n) with (nsize ls2 + (-1) * n) by lia. rewrite Z.div_add by lia. lia.
    + apply Z.leb_gt in E2. rewrite !cap_nodes_cons. cbn [nsize].
      assert (Hd : 1 = nsize ls2 / n) by (apply (Z.div_unique (nsize ls2) n 1 (nsize ls2 - n)); lia).
      lia.
  - destruct (try_nodes ls2 rest' n) as [[o' l']|] eqn:E; [|discriminate]. injection H as <- <-.
    specialize (IH ls2 n o' l' Hn Hmin E). rewrite !cap_nodes_cons in *. lia.
Qed.

Lemma try_nodes_none_cap : forall rest ls1 n, 0 < n -> nn rest -> try_nodes ls1 rest n = None -> cap_nodes n rest = 0.
Proof.
  induction rest as [|ls2 rest' IH]; intros ls1 n Hn Hnn H; [reflexivity|]. cbn [try_nodes] in H.
  inversion Hnn as [|? ? H2 Hnn']; subst.
  destruct (n <=? nsize ls2) eqn:E1.
  - destruct (n + min_obj <=? nsize ls2); discriminate.
  - apply Z.leb_gt in E1. destruct (try_nodes ls2 rest' n) as [[o' l']|] eqn:E; [discriminate|].
    rewrite cap_nodes_cons, (IH ls2 n Hn Hnn' E), Z.div_small by lia. reflexivity.
Qed.

Lemma heap_inv_nn h : heap_inv h -> nn (hnodes h).
Proof.
  intros (s & rest & Hn & [_ Hz] & _ & Hch & _). rewrite Hn. constructor; [lia|].
  eapply Forall_impl; [|eapply tchain_nonneg; exact Hch]. intros a [Ha _]. exact Ha.
Qed.

Lemma try_heap_cap h n o h' : 0 < n -> min_obj <= n -> try_heap h n = Some (o, h') -> cap_heap n h' = cap_heap n h - 1.
Proof.
  intros Hn Hmin H. unfold try_heap in H. unfold cap_heap. destruct (hnodes h) as [|s rest]; [discriminate|].
  destruct (try_nodes s rest n) as [[o' l]|] eqn:E; [|discriminate]. injection H as <- <-. cbn [hnodes].
  eapply try_nodes_cap; eassumption.
Qed.

Lemma try_heap_none_cap h n : 0 < n -> heap_inv h -> try_heap h n = None -> cap_heap n h = 0.
Proof.
  intros Hn Hh H. pose proof (heap_inv_nn h Hh) as Hnn. destruct Hh as (s & rest & Hs & [_ Hz] & _).
  unfold try_heap in H. unfold cap_heap. rewrite Hs in *.
  destruct (try_nodes s rest n) as [[o' l]|] eqn:E; [discriminate|].
  inversion Hnn as [|? ? _ Hnn']; subst.
  rewrite cap_nodes_cons, (try_nodes_none_cap rest s n Hn Hnn' E), Hz. rewrite Z.div_0_l by lia. reflexivity.
Qed.

Lemma try_heaps_cap : forall hs n hi i o l, 0 < n -> min_obj <= n -> Forall heap_inv hs ->
  try_heaps hs n hi = Some (i, o, l) -> cap_hs n l = cap_hs n hs - 1.
Proof.
  induction hs as [|h hs IH]; intros n hi i o l Hn Hmin Hall H; cbn [try_heaps] in H; [discriminate|].
  inversion Hall as [|? ? Hh Hall']; subst.
  destruct (try_heap h n) as [[o1 h1]|] eqn:E1.
  - injection H as <- <- <-. unfold cap_hs. cbn [fold_right]. rewrite (try_heap_cap _ _ _ _ Hn Hmin E1). lia.
  - destruct (try_heaps hs n (hi + 1)) as [[[i2 o2] l2]|] eqn:E2; [|discriminate]. injection H as <- <- <-.
    specialize (IH n (hi + 1) i2 o2 l2 Hn Hmin Hall' E2). unfold cap_hs in *. cbn [fold_right]. lia.
Qed.

Lemma try_heaps_none_cap : forall hs n hi, 0 < n -> Forall heap_inv hs -> try_heaps hs n hi = None -> cap_hs n hs = 0.
Proof.
  induction hs as [|h hs IH]; intros n hi Hn Hall H; [reflexivity|]. cbn [try_heaps] in H.
  inversion Hall as [|? ? Hh Hall']; subst.
  destruct (try_heap h n) as [[o1 h1]|] eqn:E1; [discriminate|].
  destruct (try_heaps hs n (hi + 1)) as [[[i2 o2] l2]|] eqn:E2; [discriminate|].
  unfold cap_hs. cbn [fold_right]. fold (cap_hs n hs).
  rewrite (try_heap_none_cap h n Hn Hh E1), (IH n (hi + 1) Hn Hall' E2). reflexivity.
Qed.

Lemma cap_hs_nonneg n hs : 0 < n -> Forall heap_inv hs -> 0 <= cap_hs n hs.
Proof.
  intros Hn H. induction H as [|h hs Hh _ IH]; [unfold cap_hs; cbn; lia|].
  unfold cap_hs in *. cbn [fold_right]. pose proof (cap_nodes_nonneg n (hnodes h) Hn (heap_inv_nn h Hh)).
  unfold cap_heap at 1. lia.
Qed.

Theorem try_alloc_cap_lemma st n i o st' : 0 < n -> (unit_sz | n) -> Inv st ->
  try_alloc st n = Some (i, o, st') -> cap n st' = cap n st - 1.
Proof.
  intros Hn Hd (_ & Hall & _) H. unfold try_alloc in H.
  destruct (try_heaps (heaps st) n 0) as [[[i2 o2] l2]|] eqn:E; [|discriminate]. injection H as <- <- <-.
  unfold cap. cbn [heaps]. eapply try_heaps_cap; try eassumption.
  rewrite min_obj_unit. apply Z.divide_pos_le; assumption.
Qed.

Lemma try_nodes_some_chunk : forall rest s n o l, try_nodes s rest n = Some (o, l) -> exists m, In m rest /\ n <= nsize m.
Proof.
  induction rest as [|ls2 rest' IHr]; intros s n o l E3; cbn [try_nodes] in E3; [discriminate|].
  destruct (n <=? nsize ls2) eqn:E4.
  - apply Z.leb_le in E4. exists ls2. split; [left; reflexivity|assumption].
  - destruct (try_nodes ls2 rest' n) as [[o2 l2]|] eqn:E5; [|discriminate].
    destruct (IHr _ _ _ _ E5) as (m & Hin & Hle). exists m. split; [right; assumption|assumption].
Qed.

Lemma try_heaps_some_chunk : forall hs n hi i o l, try_heaps hs n hi = Some (i, o, l) ->
  exists h m, In h hs /\ In m (hnodes h) /\ n <= nsize m.
Proof.
  induction hs as [|h hs IH]; intros n hi i o l E; cbn [try_heaps] in E; [discriminate|].
  destruct (try_heap h n) as [[o1 h1]|] eqn:E1.
  - unfold try_heap in E1. destruct (hnodes h) as [|s rest] eqn:Es; [discriminate|].
    destruct (try_nodes s rest n) as [[o' l']|] eqn:E3; [|discriminate].
    destruct (try_nodes_some_chunk _ _ _ _ _ E3) as (m & Hin & Hle).
    exists h, m. split; [left; reflexivity|]. split; [rewrite Es; right; assumption|assumption].
  - destruct (try_heaps hs n (hi + 1)) as [[[i3 o3] l3]|] eqn:E2; [|discriminate].
    destruct (IH _ _ _ _ _ E2) as (h2 & m & Hin & Hm & Hle). exists h2, m. split; [right; assumption|]. split; assumption.
Qed.

Lemma cap_nodes_ge1 n l m : 0 < n -> nn l -> In m l -> n <= nsize m -> 1 <= cap_nodes n l.
Proof.
  intros Hn Hnn. induction Hnn as [|a l Ha Hnn' IHl]; intros Hm Hle; [destruct Hm|].
  rewrite cap_nodes_cons. pose proof (cap_nodes_nonneg n l Hn Hnn'). pose proof (Z.div_pos (nsize a) n Ha Hn).
  destruct Hm as [->|Hm].
  - assert (1 <= nsize m / n) by (apply Z.div_le_lower_bound; lia). lia.
  - specialize (IHl Hm Hle). lia.
Qed.

Lemma cap_hs_ge1 n hs h m : 0 < n -> Forall heap_inv hs -> In h hs -> In m (hnodes h) -> n <= nsize m -> 1 <= cap_hs n hs.
Proof.
  intros Hn Hall. induction Hall as [|h0 hs Hh0 Hall' IH]; intros Hh Hm Hle; [destruct Hh|].
  unfold cap_hs. cbn [fold_right]. fold (cap_hs n hs).
  pose proof (cap_hs_nonneg n hs Hn Hall'). pose proof (cap_nodes_nonneg n (hnodes h0) Hn (heap_inv_nn h0 Hh0)).
  unfold cap_heap. destruct Hh as [->|Hh].
  - pose proof (cap_nodes_ge1 n (hnodes h) m Hn (heap_inv_nn h Hh0) Hm Hle). lia.
  - specialize (IH Hh Hm Hle). lia.
Qed.

Theorem try_alloc_none_cap_lemma st n : 0 < n -> Inv st -> (try_alloc st n = None <-> cap n st = 0).
Proof.
  intros Hn (_ & Hall & _). unfold try_alloc, cap. split.
  - intros H. destruct (try_heaps (heaps st) n 0) as [[[i2 o2] l2]|] eqn:E; [discriminate|].
    eapply try_heaps_none_cap; eassumption.
  - intros H0. destruct (try_heaps (heaps st) n 0) as [[[i2 o2] l2]|] eqn:E; [|reflexivity]. exfalso.
    destruct (try_heaps_some_chunk _ _ _ _ _ _ E) as (h & m & Hh & Hm & Hle).
    pose proof (cap_hs_ge1 n (heaps st) h m Hn Hall Hh Hm Hle). lia.
Qed.

(** [k] consecutive requests of [n] bytes, all on the fast path of sexp_alloc (sexp_try_alloc only) *)
Fixpoint iter_try (k : nat) (st : state) (n : Z) : option state :=
  match k with
  | O => Some st
  | S k' => match try_alloc st n with
            | None => None
            | Some (_, _, st1) => iter_try k' st1 n
            end
  end.

(** exactly [cap n st] consecutive n-byte allocations are served without a collection — every hole that can take
    an n-byte object (a chunk of exactly n bytes included) is used before sexp_alloc collects or grows *)
Theorem fast_path_count_lemma : forall k st n, 0 < n -> (unit_sz | n) -> Inv st ->
  ((exists st', iter_try k st n = Some st') <-> Z.of_nat k <= cap n st).
Proof.
  induction k as [|k IH]; intros st n Hn Hd HI.
  - cbn [iter_try]. split; [intros _|intros _; exists st; reflexivity].
    destruct HI as (_ & Hall & _). unfold cap. pose proof (cap_hs_nonneg n (heaps st) Hn Hall). lia.
  - cbn [iter_try]. destruct (try_alloc st n) as [[[i o] st1]|] eqn:E.
    + destruct (try_alloc_inv_lemma _ _ _ _ _ Hn Hd HI E) as [HI1 _].
      rewrite (IH st1 n Hn Hd HI1), (try_alloc_cap_lemma _ _ _ _ _ Hn Hd HI E). lia.
    + apply (try_alloc_none_cap_lemma st n Hn HI) in E. split; [intros [st' H]; discriminate|lia].
Qed.

(** ================================================================== 3. exact fit *)
Definition nshape (x : node) : Z * Z := (noff x, nsize x).

Lemma try_nodes_exact : forall pre ls1 m post n,
  Forall (fun x => nsize x < n) pre -> n <= nsize m -> nsize m < n + min_obj ->
  exists q l0, try_nodes ls1 (pre ++ m :: post) n = Some (noff m, q :: l0) /\
               nshape q = nshape ls1 /\ map nshape l0 = map nshape (pre ++ post).
Proof.
  induction pre as [|a pre IH]; intros ls1 m post n Hpre H1 H2.
  - cbn [app try_nodes]. apply Z.leb_le in H1. apply Z.leb_gt in H2. rewrite H1, H2.
    eexists _, _. split; [reflexivity|]. split; reflexivity.
  - inversion Hpre as [|? ? Ha Hpre']; subst. cbn [app try_nodes].
    apply Z.leb_gt in Ha. rewrite Ha.
    destruct (IH a m post n Hpre' H1 H2) as (q & l0 & -> & Hq & Hl).
    exists ls1, (q :: l0). split; [reflexivity|]. split; [reflexivity|].
    cbn [map app]. rewrite Hq, Hl. reflexivity.
Qed.

(** a hole of exactly the requested size is refilled: the object goes to the hole's address, the hole leaves
    the free list, all other chunks keep offset and size *)
Theorem exact_fit_refilled_lemma h s pre m post n :
  hnodes h = s :: pre ++ m :: post -> Forall (fun x => nsize x < n) pre -> nsize m = n -> 0 < min_obj ->
  exists h', try_heap h n = Some (noff m, h') /\ hsize h' = hsize h /\
             free_list h' = map nshape (pre ++ post).
Proof.
  intros Hn Hpre Hm Hmin. unfold try_heap. rewrite Hn.
  destruct (try_nodes_exact pre s m post n Hpre ltac:(lia) ltac:(lia)) as (q & l0 & -> & _ & Hl).
  eexists. split; [reflexivity|]. split; [reflexivity|]. unfold free_list. cbn [hnodes tl]. exact Hl.
Qed.

(** ---- the hypotheses are satisfiable: a 1 KB heap with two 64-byte holes between objects ---- *)
Definition ex_heap : heap :=
  Heap 1024 [Node 0 0 [(64, false)]; Node 96 64 [(64, false)]; Node 224 64 [(64, false)]; Node 352 672 []].
Definition ex_state : state := State [ex_heap] 0.

Example ex_inv : Inv ex_state.
Proof.
  assert (Hu : forall z, (unit_sz | 32 * z)) by (intros z; exists z; unfold unit_sz; lia).
  split; [discriminate|]. split.
  - constructor; [|constructor]. exists (Node 0 0 [(64, false)]), [Node 96 64 [(64, false)]; Node 224 64 [(64, false)]; Node 352 672 []].
    split; [reflexivity|]. split; [split; reflexivity|].
    split; [constructor; [split; [cbn; lia|apply (Hu 2)]|constructor]|].
    split; [|apply (Hu 32)].
    cbn [tchain noff nsize nrun]. unfold chunk, run_ok, obj_ok, run_bytes, hdr_sz. cbn [noff nsize fold_right fst].
    repeat split; try lia; try discriminate; try apply (Hu 2); try apply (Hu 21);
      repeat (constructor; [split; [cbn; lia|apply (Hu 2)]|]); try constructor.
  - constructor; [|constructor]. repeat constructor.
Qed.

Example ex_cap : cap 64 ex_state = 12. Proof. reflexivity. Qed.
Example ex_exact : try_heap ex_heap 64 = Some (96, Heap 1024 [Node 0 0 [(64, false); (64, false); (64, false)]; Node 224 64 [(64, false)]; Node 352 672 []]).
Proof. reflexivity. Qed.
Example ex_iter12 : exists st', iter_try 12 ex_state 64 = Some st'. Proof. eexists. vm_compute. reflexivity. Qed.
Example ex_iter13 : iter_try 13 ex_state 64 = None. Proof. vm_compute. reflexivity. Qed.
