(** C10 round 3 — proofs about coq/C10/Image.v: the hand-built heap of a loaded image is well formed (for ALL packed
    contents and ALL requested free sizes) and stays so over every history; the preservatives list is a multiset
    with LIFO removal, and an object whose last preservation is released is freed by the next collection unless it is
    reachable otherwise. *)
From Coq Require Import ZArith List Bool Lia.
From ChibiV Require Import Gen.C10_Consts C10.Model C10.Spec C10.Proofs C10.Sweep C10.Theorems C10.Closed C10.Image.
Import ListNotations.
Local Open Scope Z_scope.

(** ================================================================== image heaps *)

Lemma heap_align_div n : (unit_sz | heap_align n).
Proof. unfold heap_align. exists ((n + unit_sz - 1) / unit_sz). reflexivity. Qed.

Lemma heap_align_ge n : n <= heap_align n.
Proof.
  unfold heap_align. pose proof unit_pos as Hu.
  pose proof (Z.div_mod (n + unit_sz - 1) unit_sz ltac:(lia)) as E.
  pose proof (Z.mod_pos_bound (n + unit_sz - 1) unit_sz Hu) as B. lia.
Qed.

Lemma heap_align_lt n : heap_align n < n + unit_sz.
Proof.
  unfold heap_align. pose proof unit_pos as Hu.
  pose proof (Z.div_mod (n + unit_sz - 1) unit_sz ltac:(lia)) as E.
  pose proof (Z.mod_pos_bound (n + unit_sz - 1) unit_sz Hu) as B. lia.
Qed.

Lemma run_ok_div r : run_ok r -> (unit_sz | run_bytes r).
Proof.
  induction 1 as [|o r Ho _ IH]; [exists 0; reflexivity|].
  rewrite run_bytes_cons. apply Z.divide_add_r; [apply Ho|exact IH].
Qed.

Lemma packed_free_ok free : 0 <= free ->
  (unit_sz | packed_free free) /\ 0 <= packed_free free /\ free <= packed_free free /\
  (packed_free free = 0 <-> free = 0).
Proof.
  intros Hf. unfold packed_free.
  set (f1 := if (0 <? free) && (free <? 2 * free_chunk_raw) then 2 * free_chunk_raw else free).
  assert (H1 : free <= f1 /\ (f1 = 0 <-> free = 0)).
  { unfold f1. destruct (0 <? free) eqn:E1; cbn [andb].
    - apply Z.ltb_lt in E1. destruct (free <? 2 * free_chunk_raw) eqn:E2.
      + apply Z.ltb_lt in E2. unfold free_chunk_raw in *. lia.
      + lia.
    - apply Z.ltb_ge in E1. lia. }
  pose proof (heap_align_ge f1). pose proof (heap_align_lt f1). pose proof (heap_align_div f1) as Hd.
  pose proof unit_pos.
  split; [exact Hd|]. split; [lia|]. split; [lia|]. split.
  - intros E. lia.
  - intros E. destruct H1 as [_ [_ H1]]. rewrite (H1 E). reflexivity.
Qed.

(** THE theorem for image heaps: whatever was packed (any well-formed objects) and whatever free size was asked
    for, the segment sexp_gc_packed_heap_make builds is an exact tiling of [hdr, hsize) — the packed objects,
    then (when free > 0) ONE free chunk that ends exactly at the segment end — with an aligned size, all marks
    clear, it lies inside the malloc'ed block, its objects sit where the image was read to, and the chunk holds
    at least the bytes asked for.  (This is where the sentinel pad matters: the chunk size must NOT include it.) *)
Theorem packed_heap_make_inv_lemma objs free :
  run_ok objs -> unmarked objs -> 0 <= free ->
  let h := fst (packed_heap_make objs free) in
  heap_inv h /\ heap_unmarked h /\
  hsize h <= snd (packed_heap_make objs free) /\
  heap_objs h = pos_objs hdr_sz objs /\
  hsize h = hdr_sz + run_bytes objs + packed_free free /\
  free_list h = (if packed_free free =? 0 then [] else [(hdr_sz + run_bytes objs, packed_free free)]) /\
  free <= packed_free free.
Proof.
  intros Hok Hum Hf. destruct (packed_free_ok free Hf) as (Hd & H0 & Hle & Hz).
  pose proof (run_ok_div objs Hok) as Hpd. pose proof (run_ok_nonneg objs Hok) as Hp0.
  pose proof hdr_aligned as Hh. pose proof hdr_pos as Hhp. pose proof unit_pos as Hu.
  unfold packed_heap_make. cbn zeta. cbn [fst snd].
  unfold pk_hsize, pk_chunk, pk_req.
  assert (Hrun : run_ok (rev objs)) by (apply run_ok_rev; exact Hok).
  assert (Humr : unmarked (rev objs)).
  { unfold unmarked in *. rewrite Forall_forall in *. intros o Ho. apply Hum. apply in_rev. exact Ho. }
  assert (Hsz : (unit_sz | run_bytes objs + packed_free free + hdr_sz)).
  { apply Z.divide_add_r; [apply Z.divide_add_r|]; assumption. }
  destruct (packed_free free =? 0) eqn:Ez.
  - apply Z.eqb_eq in Ez. rewrite Ez. split.
    { exists (Node 0 0 (rev objs)), []. cbn [hnodes hsize nrun].
      split; [reflexivity|]. split; [split; reflexivity|]. split; [exact Hrun|]. split.
      - cbn [tchain]. rewrite run_bytes_rev. lia.
      - rewrite Ez in Hsz. exact Hsz. }
    split; [unfold heap_unmarked; cbn [hnodes]; constructor; [exact Humr|constructor]|].
    split; [cbn [hsize]; pose proof (heap_align_ge (run_bytes objs + 0 + free_chunk_raw + 128)) as HA; revert HA;
            generalize (heap_align (run_bytes objs + 0 + free_chunk_raw + 128)); intros q HA; clear -HA; unfold free_chunk_raw, hdr_sz in *; lia|].
    split.
    { erewrite heap_objs_inv; [|reflexivity|split; reflexivity]. cbn [nrun nodes_objs].
      rewrite rev_involutive, app_nil_r. reflexivity. }
    split; [cbn [hsize]; lia|]. split; [reflexivity|lia].
  - apply Z.eqb_neq in Ez. split.
    { exists (Node 0 0 (rev objs)), [Node (hdr_sz + run_bytes objs) (packed_free free) []]. cbn [hnodes hsize nrun].
      split; [reflexivity|]. split; [split; reflexivity|]. split; [exact Hrun|]. split; [|exact Hsz].
      cbn [tchain noff nsize nrun]. rewrite run_bytes_rev. change (run_bytes (@nil obj)) with 0.
      split; [reflexivity|]. split; [unfold chunk; cbn [noff nsize]; split; [lia|split; [lia|exact Hd]]|]. split; [exact I|].
      split; [constructor|lia]. }
    split; [unfold heap_unmarked; cbn [hnodes]; constructor; [exact Humr|constructor; [constructor|constructor]]|].
    split; [cbn [hsize]; pose proof (heap_align_ge (run_bytes objs + packed_free free + free_chunk_raw + 128)) as HA; revert HA;
            generalize (heap_align (run_bytes objs + packed_free free + free_chunk_raw + 128)); intros q HA; clear -HA; unfold free_chunk_raw, hdr_sz in *; lia|].
    split.
    { erewrite heap_objs_inv; [|reflexivity|split; reflexivity]. cbn [nrun nodes_objs].
      rewrite rev_involutive. unfold nend. cbn [noff nsize nrun]. unfold run_bytes at 1. cbn [fold_right run_objs].
      rewrite app_nil_r. reflexivity. }
    split; [cbn [hsize]; lia|]. split; [reflexivity|lia].
Qed.

(** ... and it stays well formed over every history of allocations and collections that starts from a loaded
    image (the counterpart of heap_inv_reachable_states for the second way a context comes into being) *)
Theorem inv_after_image_load_lemma objs free max ops :
  run_ok objs -> unmarked objs -> 0 <= free -> Forall req_ok ops ->
  Inv (fold_left step ops (image_state objs free max)).
Proof.
  intros Hok Hum Hf Hops.
  destruct (packed_heap_make_inv_lemma objs free Hok Hum Hf) as (Hi & Hu & _).
  assert (HI : Inv (image_state objs free max)).
  { unfold Inv, image_state. cbn [heaps]. split; [discriminate|]. split; constructor; auto. }
  revert HI. generalize (image_state objs free max).
  induction Hops as [|o ops Ho _ IH]; intros st HI; [exact HI|].
  cbn [fold_left]. apply IH. apply step_inv; assumption.
Qed.

Example packed_example :
  packed_heap_make [(64, false); (32, false); (96, false)] 100
  = (Heap 352 [Node 0 0 [(96, false); (32, false); (64, false)]; Node 224 128 []], 480).
Proof. vm_compute. reflexivity. Qed.
Example packed_example_full :
  packed_heap_make [(64, false); (32, false)] 0 = (Heap 128 [Node 0 0 [(32, false); (64, false)]], 256).
Proof. vm_compute. reflexivity. Qed.
Example packed_example_min : packed_free 1 = 32 /\ packed_free 31 = 32 /\ packed_free 33 = 64 /\ packed_free 0 = 0.
Proof. vm_compute. repeat split; reflexivity. Qed.

(** ================================================================== the preservatives list *)

Lemma oaddr_eqb_eq a b : oaddr_eqb a b = true <-> a = b.
Proof. exact (addr_eqb_eq a b). Qed.

Lemma oaddr_eqb_refl a : oaddr_eqb a a = true.
Proof. apply oaddr_eqb_eq. reflexivity. Qed.

Lemma oaddr_dec (a b : oaddr) : {a = b} + {a <> b}.
Proof. decide equality; apply Z.eq_dec. Qed.

(** sexp_release_object removes exactly ONE occurrence, the first one: *)
Lemma release_first x l1 l2 : ~ In x l1 -> release x (l1 ++ x :: l2) = l1 ++ l2.
Proof.
  induction l1 as [|y l1 IH]; intros Hn; cbn [app release].
  - rewrite oaddr_eqb_refl. reflexivity.
  - destruct (oaddr_eqb y x) eqn:E.
    + apply oaddr_eqb_eq in E. exfalso. apply Hn. left. exact E.
    + rewrite IH; [reflexivity|]. intros H. apply Hn. right. exact H.
Qed.

Lemma release_absent x l : ~ In x l -> release x l = l.
Proof.
  induction l as [|y l IH]; intros Hn; cbn [release]; [reflexivity|].
  destruct (oaddr_eqb y x) eqn:E.
  - apply oaddr_eqb_eq in E. exfalso. apply Hn. left. exact E.
  - rewrite IH; [reflexivity|]. intros H. apply Hn. right. exact H.
Qed.

Lemma release_count_same x l : count_occ oaddr_dec (release x l) x = Nat.pred (count_occ oaddr_dec l x).
Proof.
  induction l as [|y l IH]; cbn [release count_occ]; [reflexivity|].
  destruct (oaddr_eqb y x) eqn:E.
  - apply oaddr_eqb_eq in E. subst y. destruct (oaddr_dec x x) as [_|N]; [reflexivity|congruence].
  - assert (y <> x) by (intros ->; rewrite oaddr_eqb_refl in E; discriminate).
    cbn [count_occ]. destruct (oaddr_dec y x) as [->|_]; [congruence|]. exact IH.
Qed.

Lemma release_count_other x y l : y <> x -> count_occ oaddr_dec (release x l) y = count_occ oaddr_dec l y.
Proof.
  intros Hne. induction l as [|z l IH]; cbn [release count_occ]; [reflexivity|].
  destruct (oaddr_eqb z x) eqn:E.
  - apply oaddr_eqb_eq in E. subst z. destruct (oaddr_dec x y) as [->|_]; [congruence|reflexivity].
  - cbn [count_occ]. destruct (oaddr_dec z y); rewrite IH; reflexivity.
Qed.

(** the order of the other elements is untouched (interior unlinking does not disturb the list) *)
Lemma release_sublist x l : forall y, In y (release x l) -> In y l.
Proof.
  induction l as [|z l IH]; intros y; cbn [release]; [tauto|].
  destruct (oaddr_eqb z x); [intros H; right; exact H|].
  intros [H|H]; [left; exact H|right; apply IH; exact H].
Qed.

(** over ANY history the list is the multiset "preservations minus releases" (a release of an object that is not
    preserved does nothing; an object preserved twice needs two releases) *)
Theorem pres_count_history_lemma ops : forall r x,
  count_occ oaddr_dec (pres (fold_left rstep ops r)) x
  = fold_left (balance_step x) ops (count_occ oaddr_dec (pres r) x).
Proof.
  induction ops as [|o ops IH]; intros r x; [reflexivity|].
  cbn [fold_left]. rewrite IH. f_equal.
  destruct o as [y|y|vs|]; cbn [rstep pres balance_step]; try reflexivity.
  - unfold preserve. cbn [count_occ]. destruct (oaddr_eqb y x) eqn:E.
    + apply oaddr_eqb_eq in E. subst y. destruct (oaddr_dec x x); [reflexivity|congruence].
    + destruct (oaddr_dec y x) as [->|_]; [rewrite oaddr_eqb_refl in E; discriminate|reflexivity].
  - destruct (oaddr_eqb y x) eqn:E.
    + apply oaddr_eqb_eq in E. subst y. apply release_count_same.
    + apply release_count_other. intros ->. rewrite oaddr_eqb_refl in E. discriminate.
Qed.

(** reachability from a root list through the slot function *)
Inductive reach (sl : oaddr -> list oaddr) (roots : list oaddr) : oaddr -> Prop :=
| reach_root a : In a roots -> reach sl roots a
| reach_slot a b : reach sl roots a -> In b (sl a) -> reach sl roots b.

(** THE theorem for the embedder's root API, one step: after sexp_release_object(x) took the LAST preservation of
    x, and a collection whose mark phase marked exactly what is reachable from the roots as they are NOW (C02's
    property, the stated interface), x's chunk is free — it is no object of the swept heap — unless x is reachable
    through some other root or object. *)
Theorem release_unroots_lemma r x sl st st' mf sf :
  count_occ oaddr_dec (pres r) x = 1%nat ->
  let r' := rstep r (RRelease x) in
  ~ In x (pres r') /\
  (heaps st <> [] -> Forall heap_inv (heaps st) ->
   (forall a, In a (marked_addrs st) <-> In a (obj_addrs st) /\ reach sl (root_list r') a) ->
   sweep st = Some (st', mf, sf) ->
   ~ reach sl (root_list r') x -> ~ In x (obj_addrs st')).
Proof.
  intros Hc. cbn zeta. cbn [rstep pres]. split.
  - intros Hin. apply (count_occ_In oaddr_dec) in Hin. rewrite release_count_same, Hc in Hin. cbn in Hin. lia.
  - intros Hne Hall HM Hsw Hnr Hin.
    assert (E : obj_addrs st' = marked_addrs st).
    { unfold obj_addrs, marked_addrs. rewrite (sweep_frees_exactly_unmarked_lemma st st' mf sf Hne Hall Hsw).
      apply addrs_surv. }
    rewrite E in Hin. apply HM in Hin. apply Hnr. apply Hin.
Qed.

(** lifted over histories of root operations: for ANY history [ops] from ANY root state, an object whose
    preservations and releases balance to zero, that sits in no sexp_gc_preserve frame and is no fixed root, is not
    in the preservatives list; and a collection with marks = reachable-from-the-current-roots frees it unless it
    is reachable from what remains. *)
Theorem release_unroots_history_lemma ops r0 x sl st st' mf sf :
  let r := fold_left rstep ops r0 in
  fold_left (balance_step x) ops (count_occ oaddr_dec (pres r0) x) = 0%nat ->
  ~ In x (pres r) /\
  (heaps st <> [] -> Forall heap_inv (heaps st) ->
   (forall a, In a (marked_addrs st) <-> In a (obj_addrs st) /\ reach sl (root_list r) a) ->
   sweep st = Some (st', mf, sf) ->
   ~ reach sl (root_list r) x -> ~ In x (obj_addrs st')).
Proof.
  cbn zeta. intros Hb. split.
  - intros Hin. apply (count_occ_In oaddr_dec) in Hin. rewrite pres_count_history_lemma, Hb in Hin. lia.
  - intros Hne Hall HM Hsw Hnr Hin.
    assert (E : obj_addrs st' = marked_addrs st).
    { unfold obj_addrs, marked_addrs. rewrite (sweep_frees_exactly_unmarked_lemma st st' mf sf Hne Hall Hsw).
      apply addrs_surv. }
    rewrite E in Hin. apply HM in Hin. apply Hnr. apply Hin.
Qed.

(** conversely nothing that is still rooted is lost: a rooted object that is an object of the heap survives *)
Theorem rooted_survives_lemma r sl st st' mf sf x :
  heaps st <> [] -> Forall heap_inv (heaps st) ->
  (forall a, In a (marked_addrs st) <-> In a (obj_addrs st) /\ reach sl (root_list r) a) ->
  sweep st = Some (st', mf, sf) ->
  In x (obj_addrs st) -> reach sl (root_list r) x -> In x (obj_addrs st').
Proof.
  intros Hne Hall HM Hsw Hin Hr.
  assert (E : obj_addrs st' = marked_addrs st).
  { unfold obj_addrs, marked_addrs. rewrite (sweep_frees_exactly_unmarked_lemma st st' mf sf Hne Hall Hsw).
    apply addrs_surv. }
  rewrite E. apply HM. split; assumption.
Qed.

(** Examples: stack order, queue order, double preservation, release of a never-preserved object *)
Example release_stack_order :
  release (0, 96) (preserve (0, 96) (preserve (0, 64) (preserve (0, 32) []))) = [(0, 64); (0, 32)].
Proof. vm_compute. reflexivity. Qed.
Example release_queue_order :
  release (0, 32) (preserve (0, 96) (preserve (0, 64) (preserve (0, 32) []))) = [(0, 96); (0, 64)].
Proof. vm_compute. reflexivity. Qed.
Example release_twice_preserved :
  release (0, 32) (preserve (0, 32) (preserve (0, 64) (preserve (0, 32) []))) = [(0, 64); (0, 32)].
Proof. vm_compute. reflexivity. Qed.
Example release_never_preserved : release (0, 128) (preserve (0, 64) (preserve (0, 32) [])) = [(0, 64); (0, 32)].
Proof. vm_compute. reflexivity. Qed.
Example balance_example :
  balance (0, 32) [RPreserve (0, 32); RPreserve (0, 64); RPreserve (0, 32); RRelease (0, 32); RRelease (0, 99); RRelease (0, 32); RRelease (0, 32)] = 0%nat.
Proof. vm_compute. reflexivity. Qed.
