(** C10 — proofs about the allocator model (coq/C10/Model.v) against coq/C10/Spec.v. *)
From Coq Require Import ZArith List Bool Lia.
From ChibiV Require Import Gen.C10_Consts C10.Model C10.Spec.
Import ListNotations.
Local Open Scope Z_scope.

(** ---- the facts about the regenerated constants the proofs rely on (they fail here, visibly, when the
    headers change them in a way the theorems do not survive) ---- *)
Lemma unit_pos : 0 < unit_sz. Proof. reflexivity. Qed.
Lemma hdr_pos : 0 < hdr_sz. Proof. reflexivity. Qed.
Lemma min_obj_unit : min_obj = unit_sz. Proof. reflexivity. Qed.
Lemma hdr_aligned : (unit_sz | hdr_sz). Proof. exists 1. reflexivity. Qed.
Lemma factor_integral : factor_den = 1. Proof. reflexivity. Qed.
Lemma factor_ge1 : 1 <= factor_num. Proof. unfold factor_num. lia. Qed.
Lemma ratio_pos : 0 < ratio_num /\ 0 < ratio_den. Proof. split; reflexivity. Qed.

(** ---- run_bytes ---- *)
Lemma run_bytes_cons a l : run_bytes (a :: l) = fst a + run_bytes l.
Proof. reflexivity. Qed.

Lemma run_bytes_app a b : run_bytes (a ++ b) = run_bytes a + run_bytes b.
Proof. induction a as [|x a IH]; [reflexivity|]. rewrite <- app_comm_cons, !run_bytes_cons, IH. lia. Qed.

Lemma run_bytes_rev a : run_bytes (rev a) = run_bytes a.
Proof.
  induction a as [|x a IH]; [reflexivity|]. cbn [rev]. rewrite run_bytes_app, IH, !run_bytes_cons.
  unfold run_bytes at 2. cbn [fold_right]. lia.
Qed.

Lemma run_ok_nonneg r : run_ok r -> 0 <= run_bytes r.
Proof.
  induction 1 as [|x r [Hx _] _ IH]; [unfold run_bytes; cbn; lia|]. rewrite run_bytes_cons. lia.
Qed.

Lemma run_ok_pos r : run_ok r -> r <> [] -> 0 < run_bytes r.
Proof.
  intros H Hne. destruct H as [|x r [Hx _] Hr]; [congruence|].
  rewrite run_bytes_cons. pose proof (run_ok_nonneg r Hr). lia.
Qed.

Lemma run_ok_zero r : run_ok r -> run_bytes r = 0 -> r = [].
Proof.
  intros H H0. destruct r as [|x r]; [reflexivity|].
  assert (0 < run_bytes (x :: r)) by (apply run_ok_pos; [assumption|discriminate]). lia.
Qed.

Lemma run_ok_app a b : run_ok a -> run_ok b -> run_ok (a ++ b).
Proof. intros. apply Forall_app. split; assumption. Qed.

Lemma run_ok_rev a : run_ok a -> run_ok (rev a).
Proof. intros. apply Forall_rev. assumption. Qed.

Lemma unmarked_app a b : unmarked a -> unmarked b -> unmarked (a ++ b).
Proof. intros. apply Forall_app. split; assumption. Qed.

Lemma aligned_between n s : (unit_sz | n) -> (unit_sz | s) -> n <= s -> s < n + unit_sz -> s = n.
Proof.
  intros [a Ha] [b Hb] H1 H2. subst. pose proof unit_pos.
  assert (b = a) by nia. subst. reflexivity.
Qed.

(** ---- tchain ---- *)
Lemma tchain_weaken a (c c' : Prop) l e : (c -> c') -> tchain a c l e -> tchain a c' l e.
Proof. destruct l; cbn; [tauto|]. intros Hc (H1 & H2 & H3 & H4). auto. Qed.

Lemma nend_sentinel n : sentinel n -> nend n = hdr_sz.
Proof. intros [H _]. unfold nend. rewrite H. reflexivity. Qed.

Lemma nend_chunk n : chunk n -> nend n = noff n + nsize n.
Proof.
  intros (H & _). unfold nend. pose proof hdr_pos.
  destruct (noff n =? 0) eqn:E; [apply Z.eqb_eq in E; lia|reflexivity].
Qed.

(** ================================================================== sexp_try_alloc *)

(** [try_nodes] from a chain: the result is a chain over the same addresses, the node before keeps its
    offset and size, the returned offset is that of a chunk of the list large enough *)
Lemma try_nodes_chain : forall rest ls1 size o l a (c : Prop) e,
  0 < size -> (unit_sz | size) ->
  run_ok (nrun ls1) ->
  tchain (a + run_bytes (nrun ls1)) c rest e ->
  try_nodes ls1 rest size = Some (o, l) ->
  exists r1 l', l = Node (noff ls1) (nsize ls1) r1 :: l' /\ run_ok r1 /\
                (nrun ls1 <> [] -> r1 <> []) /\
                tchain (a + run_bytes r1) (c \/ r1 <> []) l' e.
Proof.
  induction rest as [|ls2 rest' IH]; intros ls1 size o l a c e Hs Hal Hr1 Hch Htry; [discriminate|].
  cbn [try_nodes] in Htry. cbn [tchain] in Hch. destruct Hch as (Ho2 & Hc2 & Hc & Hr2 & Hrest).
  destruct Hc2 as (Hlo & Hsz & Hdiv).
  destruct (size <=? nsize ls2) eqn:Efit.
  - apply Z.leb_le in Efit.
    destruct (size + min_obj <=? nsize ls2) eqn:Esplit.
    + (* split *)
      apply Z.leb_le in Esplit. rewrite min_obj_unit in Esplit. pose proof unit_pos.
      injection Htry as <- <-.
      eexists _, _. split; [reflexivity|].
      assert (Hok : obj_ok (size, false)) by (split; assumption).
      split; [constructor; assumption|]. split; [discriminate|].
      cbn [tchain noff nsize nrun]. rewrite run_bytes_cons. cbn [fst].
      split; [lia|].
      split; [unfold chunk; cbn [noff nsize]; split; [lia|split; [lia|apply Z.divide_sub_r; assumption]]|].
      split; [right; discriminate|]. split; [assumption|].
      replace (noff ls2 + size + (nsize ls2 - size)) with (noff ls2 + nsize ls2) by lia. assumption.
    + (* take the whole chunk *)
      apply Z.leb_gt in Esplit. rewrite min_obj_unit in Esplit.
      assert (nsize ls2 = size) by (apply aligned_between; assumption || lia).
      injection Htry as <- <-.
      eexists _, _. split; [reflexivity|].
      assert (Hok : obj_ok (size, false)) by (split; assumption).
      split; [apply run_ok_app; [assumption|constructor; assumption]|].
      split; [intros _ Hnil; apply app_eq_nil in Hnil; destruct Hnil; discriminate|].
      rewrite run_bytes_app, run_bytes_cons. cbn [fst].
      eapply tchain_weaken; [|replace (a + (run_bytes (nrun ls2) + (size + run_bytes (nrun ls1))))
                                 with (noff ls2 + nsize ls2 + run_bytes (nrun ls2)) by lia; exact Hrest].
      intros _. right. intros Hnil. apply app_eq_nil in Hnil. destruct Hnil; discriminate.
  - destruct (try_nodes ls2 rest' size) as [[o2 l2]|] eqn:Erec; [|discriminate].
    injection Htry as <- <-.
    destruct (IH ls2 size o2 l2 (noff ls2 + nsize ls2) (nrun ls2 <> []) e Hs Hal Hr2 Hrest Erec)
      as (r2 & l2' & -> & Hr2' & Hne & Hch').
    exists (nrun ls1), (Node (noff ls2) (nsize ls2) r2 :: l2'). split; [destruct ls1; reflexivity|].
    split; [assumption|]. split; [auto|].
    cbn [tchain noff nsize nrun].
    split; [assumption|]. split; [unfold chunk; cbn [noff nsize]; auto|]. split; [auto|]. split; [assumption|].
    eapply tchain_weaken; [|exact Hch']. tauto.
Qed.

Lemma try_nodes_unmarked : forall rest ls1 size o l,
  Forall (fun n => unmarked (nrun n)) (ls1 :: rest) ->
  try_nodes ls1 rest size = Some (o, l) ->
  Forall (fun n => unmarked (nrun n)) l.
Proof.
  induction rest as [|ls2 rest' IH]; intros ls1 size o l Hall Htry; [discriminate|].
  cbn [try_nodes] in Htry.
  inversion Hall as [|? ? H1 Hall2]; subst. inversion Hall2 as [|? ? H2 Hall3]; subst.
  destruct (size <=? nsize ls2).
  - destruct (size + min_obj <=? nsize ls2); injection Htry as <- <-.
    + constructor; [cbn; constructor; [reflexivity|assumption]|]. constructor; assumption.
    + constructor; [|assumption]. cbn. apply unmarked_app; [assumption|]. constructor; [reflexivity|assumption].
  - destruct (try_nodes ls2 rest' size) as [[o2 l2]|] eqn:Erec; [|discriminate].
    injection Htry as <- <-. constructor; [assumption|]. eapply IH; eassumption.
Qed.

Lemma try_heap_inv h size o h' :
  0 < size -> (unit_sz | size) -> heap_inv h -> try_heap h size = Some (o, h') ->
  heap_inv h' /\ hsize h' = hsize h.
Proof.
  intros Hs Hal (s & rest & Hn & Hsent & Hrs & Hch & Hdiv) Htry.
  unfold try_heap in Htry. rewrite Hn in Htry.
  destruct (try_nodes s rest size) as [[o' l]|] eqn:E; [|discriminate].
  injection Htry as <- <-.
  destruct (try_nodes_chain rest s size o' l hdr_sz True (hsize h) Hs Hal Hrs Hch E)
    as (r1 & l' & -> & Hr1 & _ & Hch').
  split; [|reflexivity].
  exists (Node (noff s) (nsize s) r1), l'. cbn [hnodes hsize nrun].
  split; [reflexivity|]. split; [exact Hsent|]. split; [assumption|]. split; [|assumption].
  eapply tchain_weaken; [|exact Hch']. tauto.
Qed.

Lemma try_heap_unmarked h size o h' :
  heap_unmarked h -> try_heap h size = Some (o, h') -> heap_unmarked h'.
Proof.
  unfold heap_unmarked, try_heap. intros Hu Htry.
  destruct (hnodes h) as [|s rest]; [discriminate|].
  destruct (try_nodes s rest size) as [[o' l]|] eqn:E; [|discriminate].
  injection Htry as <- <-. cbn. eapply try_nodes_unmarked; eassumption.
Qed.

Lemma try_heaps_inv : forall hs size hi i o l,
  0 < size -> (unit_sz | size) ->
  Forall heap_inv hs -> Forall heap_unmarked hs ->
  try_heaps hs size hi = Some (i, o, l) ->
  Forall heap_inv l /\ Forall heap_unmarked l /\ map hsize l = map hsize hs.
Proof.
  induction hs as [|h hs IH]; intros size hi i o l Hs Hal Hinv Hum Htry; [discriminate|].
  cbn [try_heaps] in Htry.
  inversion Hinv as [|? ? Hh Hinv']; subst. inversion Hum as [|? ? Hu Hum']; subst.
  destruct (try_heap h size) as [[o' h']|] eqn:E.
  - injection Htry as <- <- <-.
    destruct (try_heap_inv h size o' h' Hs Hal Hh E) as [Hi Hsz].
    repeat split.
    + constructor; assumption.
    + constructor; [eapply try_heap_unmarked; eassumption|assumption].
    + cbn. rewrite Hsz. reflexivity.
  - destruct (try_heaps hs size (hi + 1)) as [[[i' o'] l']|] eqn:E2; [|discriminate].
    injection Htry as <- <- <-.
    destruct (IH size (hi + 1) i' o' l' Hs Hal Hinv' Hum' E2) as (H1 & H2 & H3).
    repeat split; [constructor; assumption|constructor; assumption|cbn; rewrite H3; reflexivity].
Qed.

(** sexp_try_alloc keeps the heap well formed and never changes a segment's size *)
Theorem try_alloc_inv_lemma st size i o st' :
  0 < size -> (unit_sz | size) -> Inv st -> try_alloc st size = Some (i, o, st') ->
  Inv st' /\ map hsize (heaps st') = map hsize (heaps st) /\ max_size st' = max_size st.
Proof.
  intros Hs Hal (Hne & Hinv & Hum) Htry. unfold try_alloc in Htry.
  destruct (try_heaps (heaps st) size 0) as [[[i' o'] l]|] eqn:E; [|discriminate].
  injection Htry as <- <- <-. unfold Inv. cbn [heaps max_size].
  destruct (try_heaps_inv _ _ _ _ _ _ Hs Hal Hinv Hum E) as (H1 & H2 & H3).
  split; [|split; [assumption|reflexivity]].
  split; [|split; assumption].
  intros Hl. rewrite Hl in H3. destruct (heaps st); [congruence|discriminate].
Qed.

(** ================================================================== sexp_make_heap / sexp_grow_heap *)
Lemma hdr_le_unit : hdr_sz <= unit_sz. Proof. unfold hdr_sz, unit_sz. lia. Qed.
Lemma factor_ge2 : 2 <= factor_num. Proof. unfold factor_num. lia. Qed.

Lemma make_heap_inv size : hdr_sz < size -> (unit_sz | size) ->
  heap_inv (make_heap size) /\ heap_unmarked (make_heap size).
Proof.
  intros Hlt Hdiv. split.
  - exists (Node 0 0 []), [Node hdr_sz (size - hdr_sz) []]. cbn [make_heap hnodes hsize nrun].
    split; [reflexivity|]. split; [split; reflexivity|]. split; [constructor|]. split; [|assumption].
    cbn [tchain noff nsize nrun]. unfold run_bytes. cbn [fold_right].
    split; [lia|]. split; [|split; [exact I|split; [constructor|lia]]].
    unfold chunk. cbn [noff nsize]. split; [lia|]. split; [lia|].
    apply Z.divide_sub_r; [assumption|apply hdr_aligned].
  - unfold heap_unmarked, make_heap. cbn. repeat constructor.
Qed.

Theorem inv_init_lemma size max : hdr_sz < size -> (unit_sz | size) -> Inv (init size max).
Proof.
  intros Hlt Hdiv. destruct (make_heap_inv size Hlt Hdiv) as [H1 H2].
  unfold Inv, init. cbn [heaps]. split; [discriminate|]. split; constructor; auto.
Qed.

Lemma last_heap_inv hs d : hs <> [] -> Forall heap_inv hs -> heap_inv (last hs d).
Proof.
  intros Hne Hall. rewrite Forall_forall in Hall. apply Hall.
  destruct hs as [|h hs]; [congruence|]. clear. revert h.
  induction hs as [|h' hs IH]; intros h; [left; reflexivity|]. right. apply IH.
Qed.

(** ---- the growth formula regenerated from gc.c (Gen/C10_Consts.v [grow_formula]) ---- *)
Lemma heap_align_mult n : (unit_sz | n) -> heap_align n = n.
Proof.
  intros [k ->]. unfold heap_align. pose proof unit_pos.
  replace (k * unit_sz + unit_sz - 1) with (unit_sz - 1 + k * unit_sz) by lia.
  rewrite Z.div_add by lia. rewrite Z.div_small by lia. lia.
Qed.

(** on aligned arguments the translated expression is FACTOR * max(cur, size) (FACTOR is integral) *)
Lemma grow_formula_val cur size : (unit_sz | cur) -> (unit_sz | size) ->
  grow_formula cur size = (factor_num * Z.max cur size + factor_den - 1) / factor_den.
Proof.
  intros Hc Hs. unfold grow_formula, cdiv. rewrite factor_integral.
  assert (E : (if size <? cur then cur else size) = Z.max cur size).
  { destruct (size <? cur) eqn:E; [apply Z.ltb_lt in E|apply Z.ltb_ge in E]; lia. }
  rewrite E. rewrite heap_align_mult by (apply Z.max_case; assumption).
  replace (1 * 1) with 1 by reflexivity. reflexivity.
Qed.

(** every segment size the formula produces from aligned arguments is a multiple of the alignment unit and
    leaves room for the request behind the header: what [make_heap] needs to tile the new segment exactly *)
Theorem grow_formula_aligned_lemma cur size : 0 <= cur -> (unit_sz | cur) -> 0 < size -> (unit_sz | size) ->
  (unit_sz | grow_formula cur size) /\ hdr_sz + size <= grow_formula cur size.
Proof.
  intros Hc0 Hc Hs0 Hs. rewrite grow_formula_val by assumption. rewrite factor_integral.
  replace (factor_num * Z.max cur size + 1 - 1) with (factor_num * Z.max cur size) by lia.
  rewrite Z.div_1_r. pose proof factor_ge2. pose proof hdr_le_unit. pose proof unit_pos.
  assert (unit_sz <= size) by (apply Z.divide_pos_le; assumption).
  split; [apply Z.divide_mul_r; apply Z.max_case; assumption|nia].
Qed.

Lemma grow_size_val st size : Inv st -> (unit_sz | size) ->
  grow_size st size = (factor_num * Z.max (hsize (last (heaps st) (make_heap 0))) size + factor_den - 1) / factor_den.
Proof.
  intros (Hne & Hinv & _) Hdiv. unfold grow_size. apply grow_formula_val; [|assumption].
  destruct (last_heap_inv (heaps st) (make_heap 0) Hne Hinv) as (_ & _ & _ & _ & _ & _ & Hd). exact Hd.
Qed.

Lemma grow_size_ok st size : Inv st -> 0 < size -> (unit_sz | size) ->
  hdr_sz < grow_size st size /\ (unit_sz | grow_size st size).
Proof.
  intros HI Hs Hdiv. rewrite (grow_size_val st size HI Hdiv). destruct HI as (Hne & Hinv & _).
  rewrite factor_integral.
  replace (factor_num * Z.max (hsize (last (heaps st) (make_heap 0))) size + 1 - 1)
    with (factor_num * Z.max (hsize (last (heaps st) (make_heap 0))) size) by lia.
  rewrite Z.div_1_r.
  destruct (last_heap_inv (heaps st) (make_heap 0) Hne Hinv) as (_ & _ & _ & _ & _ & _ & Hd).
  pose proof factor_ge2. pose proof hdr_le_unit. pose proof unit_pos.
  assert (unit_sz <= size) by (apply Z.divide_pos_le; assumption).
  split; [nia|].
  apply Z.divide_mul_r. apply Z.max_case; assumption.
Qed.

Theorem grow_inv_lemma st size : Inv st -> 0 < size -> (unit_sz | size) ->
  Inv (grow st size) /\ total_size (grow st size) = total_size st + grow_size st size.
Proof.
  intros HI Hs Hdiv. destruct (grow_size_ok st size HI Hs Hdiv) as [H1 H2].
  destruct (make_heap_inv _ H1 H2) as [H3 H4]. destruct HI as (Hne & Hinv & Hum).
  split.
  - unfold Inv, grow. cbn [heaps]. split; [intros Hnil; apply app_eq_nil in Hnil; destruct Hnil; discriminate|].
    split; apply Forall_app; split; auto.
  - unfold total_size, grow. cbn [heaps]. rewrite fold_right_app. cbn [fold_right make_heap hsize].
    generalize (heaps st). induction l as [|h l IH]; cbn [fold_right]; lia.
Qed.
