(** C10 round 2 — the CLOSEDNESS clause ("every reference held by a live object designates the start of another
    live object") for the sweep step, and the interface between the mark phase (C02), the weak pass (C16) and the
    sweep (here): exactly what the marks must satisfy at sweep entry.

    Objects of the allocator model carry no slots; the slot contents are a separate component [sl : addr -> slots]
    (the memory of the objects).  sexp_sweep writes mark bits and the headers of the chunks it frees (inside
    UNMARKED objects) and nothing else, so [sl] of the survivors is the same function before and after the sweep;
    sexp_reset_weak_references (gc.c:416-464, second loop) rewrites weak and extra slots of marked objects and is
    modelled by [reset_slots].  Addresses are (heap index, offset), as in the heap dumps of the hooks. *)
From Coq Require Import ZArith List Bool Lia.
From ChibiV Require Import Gen.C10_Consts C10.Model C10.Spec C10.Proofs C10.Sweep C10.Theorems.
Import ListNotations.
Local Open Scope Z_scope.

Definition addr := (Z * Z)%type.
Definition addr_eqb (a b : addr) : bool := (fst a =? fst b) && (snd a =? snd b).

(** a slot: [None] = immediate / NULL / a static object outside the heaps (v[i] && sexp_pointerp(v[i]) false, or
    verif_locate < 0); [Some a] = a pointer into the heaps *)
Definition ref := option addr.
(** the three groups of slots the collector distinguishes: strong (sexp_type_field_base .. num_slots, plus the
    saves of a context), weak (sexp_type_weak_base, num_weak_slots: the key of an ephemeron), extra (the next
    sexp_type_weak_len_extra slots: the value of an ephemeron) *)
Record slots := Slots { strong : list ref; weak : list ref; extra : list ref }.

Definition mem (M : list addr) (a : addr) : bool := existsb (addr_eqb a) M.

(** [v[i] && sexp_pointerp(v[i]) && !sexp_markedp(v[i])] *)
Definition dead_ref (M : list addr) (r : ref) : bool :=
  match r with Some a => negb (mem M a) | None => false end.

(** sexp_reset_weak_references, gc.c:440-456, for one marked object: every weak slot that designates an unmarked
    object becomes #f; when ALL weak slots were such ([all_reset_p]) the extra slots become #f too *)
Definition reset_slots (M : list addr) (s : slots) : slots :=
  let w := map (fun r => if dead_ref M r then None else r) (weak s) in
  let all_reset := forallb (dead_ref M) (weak s) in
  Slots (strong s) w (if all_reset then map (fun _ => None) (extra s) else extra s).

(** [live_p] of sexp_mark_weak_extras, gc.c:393-398: some key is not an unmarked heap object *)
Definition live_key (M : list addr) (s : slots) : bool := existsb (fun r => negb (dead_ref M r)) (weak s).

Definition all_refs (s : slots) : list ref := strong s ++ weak s ++ extra s.

(** what the mark phase and the ephemeron fixpoint must DELIVER to the sweep: the marked set [M] is closed under
    the strong slots of marked objects, and under the extra slots (values) of the marked weak objects one of whose
    keys is alive.  (That [M] is not larger than needed is C02's / C16's business, not a premise here.) *)
Definition marks_closed (M : list addr) (sl : addr -> slots) : Prop :=
  forall a, In a M ->
    (forall b, In (Some b) (strong (sl a)) -> In b M) /\
    (live_key M (sl a) = true -> forall b, In (Some b) (extra (sl a)) -> In b M).

(** the conclusion: every slot of every object of [L] designates an object of [L] *)
Definition closed (L : list addr) (sl : addr -> slots) : Prop :=
  forall a, In a L -> forall b, In (Some b) (all_refs (sl a)) -> In b L.

Lemma addr_eqb_eq a b : addr_eqb a b = true <-> a = b.
Proof.
  destruct a as [a1 a2], b as [b1 b2]. unfold addr_eqb. cbn [fst snd].
  rewrite andb_true_iff, !Z.eqb_eq. split; [intros [-> ->]; reflexivity|intros E; injection E; auto].
Qed.

Lemma mem_In M a : mem M a = true <-> In a M.
Proof.
  unfold mem. rewrite existsb_exists. split.
  - intros (x & Hx & E). apply addr_eqb_eq in E. subst. assumption.
  - intros H. exists a. split; [assumption|apply addr_eqb_eq; reflexivity].
Qed.

(** the weak pass + "keep exactly the marked objects" re-establish closedness, for ANY memory contents *)
Theorem reset_then_keep_marked_closed M sl :
  marks_closed M sl -> closed M (fun a => reset_slots M (sl a)).
Proof.
  intros HC a Ha b Hb. destruct (HC a Ha) as [Hs He].
  unfold all_refs, reset_slots in Hb. cbn [strong weak extra] in Hb.
  apply in_app_or in Hb. destruct Hb as [Hb|Hb]; [apply Hs; assumption|].
  apply in_app_or in Hb. destruct Hb as [Hb|Hb].
  - (* a weak slot that was not reset designates a marked object *)
    apply in_map_iff in Hb. destruct Hb as (r & Hr & _).
    destruct (dead_ref M r) eqn:Ed; [discriminate|]. subst r.
    unfold dead_ref in Ed. apply negb_false_iff in Ed. apply mem_In. assumption.
  - destruct (forallb (dead_ref M) (weak (sl a))) eqn:Ef.
    + apply in_map_iff in Hb. destruct Hb as (r & Hr & _). discriminate.
    + (* not all reset: some key is alive, so the fixpoint premise covers the value *)
      apply He; [|assumption]. unfold live_key.
      assert (Hex : exists r, In r (weak (sl a)) /\ dead_ref M r = false).
      { clear -Ef. induction (weak (sl a)) as [|r l IH]; [discriminate|]. cbn [forallb] in Ef.
        apply andb_false_iff in Ef. destruct Ef as [Ef|Ef].
        - exists r. split; [left; reflexivity|assumption].
        - destruct (IH Ef) as (r' & Hin & Hd). exists r'. split; [right; assumption|assumption]. }
      destruct Hex as (r & Hin & Hd). apply existsb_exists. exists r. split; [assumption|].
      rewrite Hd. reflexivity.
Qed.

(** the premise is also NECESSARY for the strong part: a marked object with a strong slot to an unmarked one is a
    dangling reference after "keep exactly the marked" (so the check of the premise on the dumps is not stronger
    than the property) *)
Theorem strong_closed_necessary M sl :
  closed M (fun a => reset_slots M (sl a)) -> forall a, In a M -> forall b, In (Some b) (strong (sl a)) -> In b M.
Proof.
  intros HC a Ha b Hb. apply (HC a Ha b). unfold all_refs, reset_slots. cbn [strong].
  apply in_or_app. left. assumption.
Qed.

(** ---- the tie with the allocator model: addresses of a state's objects ---- *)
Fixpoint addrs_from (hi : Z) (only_marked : bool) (ol : list (list (Z * Z * bool))) : list addr :=
  match ol with
  | [] => []
  | l :: r =>
    map (fun x : Z * Z * bool => (hi, fst (fst x))) (filter (fun x : Z * Z * bool => if only_marked then snd x else true) l)
    ++ addrs_from (hi + 1) only_marked r
  end.

(** all objects / the marked objects of a state, as (heap index, offset) *)
Definition obj_addrs (st : state) : list addr := addrs_from 0 false (state_objs st).
Definition marked_addrs (st : state) : list addr := addrs_from 0 true (state_objs st).

Lemma filter_true {A} (l : list A) : filter (fun _ => true) l = l.
Proof. induction l as [|x l IH]; [reflexivity|]. cbn [filter]. rewrite IH. reflexivity. Qed.

Lemma addrs_surv hi ol : addrs_from hi false (map surv ol) = addrs_from hi true ol.
Proof.
  revert hi. induction ol as [|l r IH]; intros hi; [reflexivity|].
  cbn [map addrs_from]. rewrite IH. f_equal.
  unfold surv. rewrite filter_true, map_map. cbn [fst snd]. reflexivity.
Qed.

(** sexp_reset_weak_references followed by sexp_sweep, on the allocator model's state: when the marks at sweep
    entry are closed under (strong slots U values of live-key ephemerons), then after the sweep every slot of
    every object of the heap designates an object of the heap. *)
Theorem sweep_inv_closed_lemma st st' mf sf sl :
  heaps st <> [] -> Forall heap_inv (heaps st) ->
  marks_closed (marked_addrs st) sl ->
  sweep st = Some (st', mf, sf) ->
  obj_addrs st' = marked_addrs st /\
  closed (obj_addrs st') (fun a => reset_slots (marked_addrs st) (sl a)).
Proof.
  intros Hne Hall HC Hsw.
  assert (E : obj_addrs st' = marked_addrs st).
  { unfold obj_addrs, marked_addrs. rewrite (sweep_frees_exactly_unmarked_lemma st st' mf sf Hne Hall Hsw).
    apply addrs_surv. }
  split; [exact E|]. rewrite E. apply reset_then_keep_marked_closed. exact HC.
Qed.

(** ---- Example: the hypotheses are satisfiable on a non-trivial value, and the refuted shape is refuted ----
    two chained ephemerons B = (0,64) < A = (0,128): A's key kA = (0,32) is marked by the mark phase, A's value
    vA = (0,192) lies above A and is the only path to B's key kB = (0,224); B's value vB = (0,96). *)
Definition ex_sl (a : addr) : slots :=
  if addr_eqb a (0, 128) then Slots [] [Some (0, 32)] [Some (0, 192)]        (* A *)
  else if addr_eqb a (0, 64) then Slots [] [Some (0, 224)] [Some (0, 96)]    (* B *)
  else if addr_eqb a (0, 192) then Slots [Some (0, 224); None] [] []          (* vA = (kB . #f) *)
  else Slots [] [] [].
(** the marks a correct fixpoint delivers: everything *)
Definition ex_M_good : list addr := [(0, 32); (0, 64); (0, 96); (0, 128); (0, 192); (0, 224)].
(** the marks of a single scan that does not re-run after marking vA (above the scan pointer): vB is missing *)
Definition ex_M_bad : list addr := [(0, 32); (0, 64); (0, 128); (0, 192); (0, 224)].

Definition closedb (L : list addr) (sl : addr -> slots) : bool :=
  forallb (fun a => forallb (fun r => match r with Some b => mem L b | None => true end) (all_refs (sl a))) L.

Example ex_good_closed : closedb ex_M_good (fun a => reset_slots ex_M_good (ex_sl a)) = true.
Proof. vm_compute. reflexivity. Qed.
(** with the incomplete marks the LIVE ephemeron B (its key kB is marked) keeps a value slot that designates
    the freed vB: closedness fails *)
Example ex_bad_not_closed : closedb ex_M_bad (fun a => reset_slots ex_M_bad (ex_sl a)) = false.
Proof. vm_compute. reflexivity. Qed.

Lemma closedb_spec L sl : closedb L sl = true <-> closed L sl.
Proof.
  unfold closedb, closed. rewrite forallb_forall. split.
  - intros H a Ha b Hb. specialize (H a Ha). rewrite forallb_forall in H. specialize (H _ Hb). cbn in H.
    apply mem_In. assumption.
  - intros H a Ha. apply forallb_forall. intros [b|] Hr; [|reflexivity]. apply mem_In. apply (H a Ha b Hr).
Qed.

Example ex_good_premise : marks_closed ex_M_good ex_sl.
Proof.
  intros a Ha. cbn in Ha.
  repeat (destruct Ha as [<-|Ha]; [split; [intros b Hb|intros _ b Hb]; cbn in Hb;
    repeat (destruct Hb as [Hb|Hb]; [try discriminate; injection Hb as <-; cbn; tauto|]); try contradiction|]).
  contradiction.
Qed.
