(** C10 round 3 (job 2, second part) — the single-size-class heap bound WITHOUT a premise on the number of segments:
    when every segment is at least 8 objects large (true of every grown segment once the initial one is), the
    per-segment overhead header + tail (< hdr + n <= 2n) is at most a quarter of the heap, so at a slow path
    "bytes not freed" <= survivors + total/4, the growth test (retained > 3/4 total, or nothing freed) can only
    fire while total < 2 * live, and a growth at most triples the heap:

        live data <= Lv for the whole history  ==>  total heap <= max(initial, 6 * Lv)

    — C10's first clause ("the heap does not grow beyond a constant multiple of the bound") for one size class,
    with the constant, from the program's live data alone. *)
From Coq Require Import ZArith List Bool Lia.
From ChibiV Require Import Gen.C10_Consts C10.Model C10.Spec C10.Proofs C10.Sweep C10.Theorems C10.More C10.SizeClass C10.OneClass.
Import ListNotations.
Local Open Scope Z_scope.

Section Free.
Variable n : Z.
Hypothesis Hn : 0 < n.
Hypothesis Hnu : (unit_sz | n).

Definition big8 (st : state) : Prop := Forall (fun z => 8 * n <= z) (map hsize (heaps st)).
Definition J8 (st : state) : Prop := J n st /\ big8 st.

Lemma n_ge_unit : unit_sz <= n.
Proof. apply Z.divide_pos_le; assumption. Qed.

Lemma overhead_quarter : forall hs, Forall (fun z => 8 * n <= z) (map hsize hs) ->
  4 * ((hdr_sz + n) * Z.of_nat (length hs)) <= sumZ (map hsize hs).
Proof.
  induction hs as [|h hs IH]; intros HF; [cbn [map length sumZ fold_right Z.of_nat]; rewrite Z.mul_0_r; lia|].
  cbn [map] in HF. inversion HF as [|? ? Hh HF']; subst. specialize (IH HF'). cbn beta in Hh.
  cbn [map length sumZ fold_right]. unfold sumZ in *. rewrite Nat2Z.inj_succ, Z.mul_succ_r.
  pose proof n_ge_unit. pose proof hdr_le_unit. lia.
Qed.

Lemma J_heap_ge st : J n st -> Forall (heap_ge n) (heaps st).
Proof.
  intros ((_ & Hall & _) & Hg & _). unfold ogrid in Hg.
  induction Hall as [|h hs Hh _ IH]; [constructor|]. inversion Hg; subst.
  constructor; [apply heap_ge_of_grid; assumption|apply IH; assumption].
Qed.

(** what sexp_alloc does to the segment sizes: nothing, or ONE new segment after a slow path whose growth test fired *)
Lemma alloc_sizes st size mss : Inv st -> 0 < size -> (unit_sz | size) ->
  map hsize (heaps (fst (alloc st size mss))) = map hsize (heaps st) \/
  exists st1 mf sf, try_alloc st size = None /\ gc st mss = Some (st1, mf, sf) /\ must_grow st1 size mf sf = true /\
    map hsize (heaps (fst (alloc st size mss))) = map hsize (heaps st) ++ [grow_size st1 size].
Proof.
  intros HI Hs Hd. unfold alloc.
  destruct (try_alloc st size) as [[[i o] st1]|] eqn:E1.
  - left. cbn [fst]. destruct (try_alloc_inv_lemma _ _ _ _ _ Hs Hd HI E1) as (_ & Hsz & _). exact Hsz.
  - destruct (gc st mss) as [[[st1 mf] sf]|] eqn:E2; [|left; reflexivity].
    destruct (gc_inv_lemma _ _ _ _ _ HI E2) as (HI1 & Hsz1 & _).
    destruct (must_grow st1 size mf sf) eqn:Eg.
    + right. exists st1, mf, sf. split; [reflexivity|]. split; [reflexivity|]. split; [exact Eg|].
      assert (Hg : map hsize (heaps (grow st1 size)) = map hsize (heaps st) ++ [grow_size st1 size]).
      { unfold grow. cbn [heaps]. rewrite map_app, Hsz1. reflexivity. }
      destruct (try_alloc (grow st1 size) size) as [[[i o] st3]|] eqn:E3; cbn [fst]; [|exact Hg].
      destruct (grow_inv_lemma st1 size HI1 Hs Hd) as [HI2 _].
      destruct (try_alloc_inv_lemma _ _ _ _ _ Hs Hd HI2 E3) as (_ & Hsz & _). rewrite Hsz. exact Hg.
    + left. destruct (try_alloc st1 size) as [[[i o] st3]|] eqn:E3; cbn [fst]; [|exact Hsz1].
      destruct (try_alloc_inv_lemma _ _ _ _ _ Hs Hd HI1 E3) as (_ & Hsz & _). rewrite Hsz. exact Hsz1.
Qed.

Lemma grow_size_bounds st1 : Inv st1 -> big8 st1 ->
  8 * n <= grow_size st1 n /\ grow_size st1 n <= 2 * total_size st1.
Proof.
  intros HI1 Hb. rewrite (grow_size_val st1 n HI1 Hnu), factor_integral.
  replace (factor_num * Z.max (hsize (last (heaps st1) (make_heap 0))) n + 1 - 1)
    with (factor_num * Z.max (hsize (last (heaps st1) (make_heap 0))) n) by lia.
  rewrite Z.div_1_r. destruct HI1 as (Hne & Hall & _).
  pose proof (last_in_forall (fun z => 8 * n <= z) (heaps st1) (make_heap 0) Hne Hb) as Hl. cbn beta in Hl.
  assert (Hcur : hsize (last (heaps st1) (make_heap 0)) <= total_size st1).
  { apply last_le_total; [assumption|]. eapply Forall_impl; [|exact Hall].
    intros h Hh. pose proof (heap_inv_size_pos h Hh). lia. }
  unfold factor_num. lia.
Qed.

Lemma step_J8 st o : J8 st -> class_op n o -> J8 (step st o).
Proof.
  intros [HJ Hb] Hc. split; [apply step_J; assumption|].
  destruct HJ as (HI & _). destruct o as [size mss|mss]; cbn [step class_op] in *.
  - subst size. destruct (alloc_sizes st n mss HI Hn Hnu) as [E|(st1 & mf & sf & _ & Egc & _ & E)]; unfold big8; rewrite E; [exact Hb|].
    apply Forall_app. split; [exact Hb|]. constructor; [|constructor].
    destruct (gc_inv_lemma _ _ _ _ _ HI Egc) as (HI1 & Hsz1 & _).
    apply (grow_size_bounds st1 HI1). unfold big8. rewrite Hsz1. exact Hb.
  - destruct (gc st mss) as [[[st1 mf] sf]|] eqn:E; [|exact Hb].
    destruct (gc_inv_lemma _ _ _ _ _ HI E) as (_ & Hsz1 & _). unfold big8. rewrite Hsz1. exact Hb.
Qed.

(** the premise about the PROGRAM, nothing else: every request has the class's size and the survivors of every
    slow-path collection total at most Lv bytes *)
Definition live_step1 (Lv : Z) (st : state) (o : op) : Prop :=
  match o with
  | OGc _ => True
  | OAlloc size mss => size = n /\
      (try_alloc st size = None -> forall st1 mf sf, gc st mss = Some (st1, mf, sf) -> obj_total st1 <= Lv)
  end.

Fixpoint live_hist1 (Lv : Z) (st : state) (ops : list op) : Prop :=
  match ops with
  | [] => True
  | o :: t => live_step1 Lv st o /\ live_hist1 Lv (step st o) t
  end.

Definition within6 (T0 Lv : Z) (st : state) : Prop := total_size st <= Z.max T0 (6 * Lv).

Lemma total_app hs g : sumZ (map hsize hs ++ [g]) = sumZ (map hsize hs) + g.
Proof. unfold sumZ. rewrite fold_right_app. cbn [fold_right]. induction (map hsize hs) as [|x l IH]; cbn [fold_right]; lia. Qed.

Lemma step_within6 T0 Lv st o : J8 st -> class_op n o -> live_step1 Lv st o -> within6 T0 Lv st -> within6 T0 Lv (step st o).
Proof.
  intros [HJ Hb] Hc Hl HB. pose proof HJ as (HI & Hg & Hbig).
  destruct o as [size mss|mss]; cbn [step class_op live_step1] in *.
  - subst size. destruct Hl as [_ Hl].
    destruct (alloc_sizes st n mss HI Hn Hnu) as [E|(st1 & mf & sf & Hnone & Egc & Eg & E)].
    + unfold within6 in *. rewrite (total_size_hsizes _ _ E). exact HB.
    + destruct (gc_inv_lemma _ _ _ _ _ HI Egc) as (HI1 & Hsz1 & _).
      pose proof (Hl Hnone st1 mf sf Egc) as HLv.
      pose proof (slow_retained n Hn st mss st1 mf sf HJ Hnone Egc) as Hret.
      assert (Hb1 : big8 st1) by (unfold big8; rewrite Hsz1; exact Hb).
      pose proof (overhead_quarter (heaps st1) Hb1) as Hq. rewrite <- total_size_sum in Hq.
      destruct (grow_size_bounds st1 HI1 Hb1) as [_ Hgs].
      assert (Ht1 : total_size st1 = total_size st) by (apply total_size_hsizes; exact Hsz1).
      assert (Hnew : total_size (fst (alloc st n mss)) = total_size st + grow_size st1 n).
      { rewrite !total_size_sum, E, total_app. reflexivity. }
      assert (Hpos : 0 < total_size st1).
      { destruct HI1 as (Hne1 & Hall1 & _). rewrite total_size_sum. destruct (heaps st1) as [|h0 hs0]; [congruence|].
        inversion Hall1 as [|? ? Hh0 Hall0]; subst. pose proof (heap_inv_size_pos h0 Hh0).
        cbn [map sumZ fold_right]. unfold sumZ.
        assert (0 <= fold_right Z.add 0 (map hsize hs0)).
        { clear -Hall0. induction Hall0 as [|h l Hh _ IH]; cbn [map fold_right]; [lia|]. pose proof (heap_inv_size_pos h Hh). lia. }
        lia. }
      (* the growth test fired: nothing was freed, or more than RATIO of the heap was retained *)
      assert (Hsmall : total_size st1 <= 2 * Lv).
      { unfold must_grow in Eg. apply andb_prop in Eg. destruct Eg as [Eg _]. apply orb_prop in Eg. destruct Eg as [Eg|Eg].
        - apply Z.ltb_lt in Eg.
          destruct (single_class_fit_lemma st mss st1 mf sf n ltac:(lia) (J_heap_ge st HJ) Egc) as [Hfit|Hsf0]; [lia|].
          subst sf. lia.
        - apply andb_prop in Eg. destruct Eg as [_ Eg]. apply Z.ltb_lt in Eg. unfold ratio_num, ratio_den in Eg. lia. }
      unfold within6. rewrite Hnew. lia.
  - destruct (gc st mss) as [[[st1 mf] sf]|] eqn:E; [|exact HB].
    destruct (gc_inv_lemma _ _ _ _ _ HI E) as (_ & Hsz & _). unfold within6 in *. rewrite (total_size_hsizes _ _ Hsz). exact HB.
Qed.

(** job 2, closed form: no premise about segments or fragmentation left *)
Theorem heap_bounded_single_class_free_lemma Lv : forall ops st, J8 st -> Forall (class_op n) ops -> live_hist1 Lv st ops ->
  total_size (fold_left step ops st) <= Z.max (total_size st) (6 * Lv).
Proof.
  intros ops st HJ Hc Hl.
  assert (HB : within6 (total_size st) Lv st) by (unfold within6; lia).
  revert HB. generalize (total_size st) as T0. revert st HJ Hl.
  induction Hc as [|o ops Ho _ IH]; intros st HJ Hl T0 HB; [exact HB|].
  cbn [fold_left live_hist1] in *. destruct Hl as [Hl1 Hl2].
  apply IH; [apply step_J8; assumption|exact Hl2|apply step_within6; assumption].
Qed.

Lemma init_J8 size max : hdr_sz < size -> (unit_sz | size) -> 8 * n <= size -> J8 (init size max).
Proof.
  intros H1 H2 H3. split; [apply init_J; try assumption; lia|].
  unfold big8, init. cbn [heaps map make_heap hsize]. constructor; [exact H3|constructor].
Qed.

Theorem heap_bounded_from_init_lemma size0 max Lv ops :
  hdr_sz < size0 -> (unit_sz | size0) -> 8 * n <= size0 ->
  Forall (class_op n) ops -> live_hist1 Lv (init size0 max) ops ->
  total_size (fold_left step ops (init size0 max)) <= Z.max size0 (6 * Lv).
Proof.
  intros H1 H2 H3 Hc Hl.
  pose proof (heap_bounded_single_class_free_lemma Lv ops (init size0 max) (init_J8 size0 max H1 H2 H3) Hc Hl) as HB.
  unfold total_size at 2 in HB. cbn [init heaps fold_right make_heap hsize] in HB. rewrite Z.add_0_r in HB. exact HB.
Qed.

End Free.

(** Example: a 512-byte heap, class 64 (8 * 64 = 512): 7 objects fill it (480 = 7*64 + 32 tail), the 8th request
    collects with two survivors (128 bytes <= Lv = 128), frees five, and is served without growth. *)
Definition ex2_ops : list op :=
  [OAlloc 64 [[]]; OAlloc 64 [[]]; OAlloc 64 [[]]; OAlloc 64 [[]]; OAlloc 64 [[]]; OAlloc 64 [[]]; OAlloc 64 [[]]; OAlloc 64 [[32; 160]]].

Example ex2_live : live_hist1 64 128 (init 512 0) ex2_ops.
Proof.
  unfold ex2_ops. cbn [live_hist1].
  repeat (split; [split; [reflexivity|]; intros Hnone; first [vm_compute in Hnone; discriminate |
     intros st1 mf sf Hgc; vm_compute in Hgc; injection Hgc as <- _ _; vm_compute; discriminate]|]).
  exact I.
Qed.

Example ex2_bound : total_size (fold_left step ex2_ops (init 512 0)) <= Z.max 512 (6 * 128).
Proof.
  apply (heap_bounded_from_init_lemma 64); try reflexivity; try (vm_compute; discriminate).
  - exists 2. reflexivity.
  - exists 16. reflexivity.
  - unfold ex2_ops. repeat constructor.
  - exact ex2_live.
Qed.

Example ex2_slow_path : try_alloc (fold_left step (firstn 7 ex2_ops) (init 512 0)) 64 = None.
Proof. vm_compute. reflexivity. Qed.
