(** C10 — sexp_sweep: the loop invariant and what the sweep establishes. *)
From Coq Require Import ZArith List Bool Lia.
From ChibiV Require Import Gen.C10_Consts C10.Model C10.Spec C10.Proofs.
Import ListNotations.
Local Open Scope Z_scope.

(** ---- the address-level view ---- *)
Lemma pos_objs_app : forall a b p, pos_objs p (a ++ b) = pos_objs p a ++ pos_objs (p + run_bytes a) b.
Proof.
  induction a as [|[sz m] a IH]; intros b p.
  - cbn. unfold run_bytes. cbn. rewrite Z.add_0_r. reflexivity.
  - cbn [app pos_objs]. rewrite IH, run_bytes_cons. cbn [fst]. rewrite Z.add_assoc. reflexivity.
Qed.

Lemma run_objs_pos : forall run e acc,
  run_objs e run acc = pos_objs (e - run_bytes run) (rev run) ++ acc.
Proof.
  induction run as [|[sz m] run IH]; intros e acc.
  - reflexivity.
  - cbn [run_objs rev]. rewrite IH, pos_objs_app, run_bytes_cons, run_bytes_rev. cbn [fst pos_objs].
    rewrite <- app_assoc. cbn [app].
    replace (e - sz - run_bytes run) with (e - (sz + run_bytes run)) by lia.
    replace (e - (sz + run_bytes run) + run_bytes run) with (e - sz) by lia. reflexivity.
Qed.

Lemma nodes_objs_cons n ns :
  nodes_objs (n :: ns) = pos_objs (nend n) (rev (nrun n)) ++ nodes_objs ns.
Proof.
  cbn [nodes_objs]. rewrite run_objs_pos, app_nil_r.
  replace (nend n + run_bytes (nrun n) - run_bytes (nrun n)) with (nend n) by lia. reflexivity.
Qed.

Lemma surv_app a b : surv (a ++ b) = surv a ++ surv b.
Proof. unfold surv. rewrite filter_app, map_app. reflexivity. Qed.

Lemma dead_bytes_app a b : dead_bytes (a ++ b) = dead_bytes a + dead_bytes b.
Proof. induction a as [|x a IH]; [reflexivity|]. unfold dead_bytes in *. cbn [app fold_right]. rewrite IH. lia. Qed.

(** ---- what the adjacency test of the C code means on a chain ---- *)
Lemma adjacent_some : forall rest p size todo' (c : Prop) e r rest',
  run_ok todo' ->
  tchain (p + (size + run_bytes todo')) c rest e ->
  next_adjacent rest (p + size) = Some (r, rest') ->
  rest = r :: rest' /\ todo' = [] /\ noff r = p + size /\ chunk r /\ run_ok (nrun r) /\
  tchain (noff r + nsize r + run_bytes (nrun r)) (nrun r <> []) rest' e.
Proof.
  intros rest p size todo' c e r rest' Hok Hch Hadj.
  destruct rest as [|r0 rest0]; [discriminate|]. cbn [next_adjacent] in Hadj.
  destruct (negb (nsize r0 =? 0) && (p + size =? noff r0)) eqn:E; [|discriminate].
  injection Hadj as <- <-. apply andb_prop in E. destruct E as [_ E]. apply Z.eqb_eq in E.
  cbn [tchain] in Hch. destruct Hch as (Ho & Hc & _ & Hr & Hrest).
  assert (run_bytes todo' = 0) by lia.
  split; [reflexivity|]. split; [apply run_ok_zero; assumption|]. split; [lia|]. auto.
Qed.

Lemma adjacent_none : forall rest p size todo' (c c' : Prop) e,
  run_ok todo' ->
  tchain (p + (size + run_bytes todo')) c rest e ->
  next_adjacent rest (p + size) = None ->
  tchain (p + size + run_bytes todo') (todo' <> [] \/ c') rest e.
Proof.
  intros rest p size todo' c c' e Hok Hch Hadj. rewrite <- Z.add_assoc.
  destruct rest as [|r0 rest0]; [exact Hch|].
  cbn [tchain] in *. destruct Hch as (Ho & Hc & _ & Hr & Hrest).
  split; [assumption|]. split; [assumption|]. split; [|auto].
  left. intros ->. cbn [next_adjacent] in Hadj.
  destruct Hc as (_ & Hpos & _).
  assert (E1 : (nsize r0 =? 0) = false) by (apply Z.eqb_neq; lia).
  assert (E2 : (p + size =? noff r0) = true) by (apply Z.eqb_eq; unfold run_bytes in Ho; cbn in Ho; lia).
  rewrite E1, E2 in Hadj. discriminate.
Qed.

(** ---- post-condition of the loop, for the part of memory [X] that was still to be visited ---- *)
Definition sweep_post (q : node) (X : list (Z * Z * bool)) (mf sf e : Z)
           (res : option (list node * Z * Z)) : Prop :=
  exists q' l' mf' sf',
    res = Some (q' :: l', mf', sf') /\
    noff q' = noff q /\ (sentinel q -> sentinel q') /\ (chunk q -> chunk q') /\
    run_ok (nrun q') /\
    tchain (nend q' + run_bytes (nrun q')) (nrun q' <> [] \/ noff q' = 0) l' e /\
    Forall (fun n => unmarked (nrun n)) (q' :: l') /\
    nodes_objs (q' :: l') = pos_objs (nend q) (rev (nrun q)) ++ surv X /\
    sf' = sf + dead_bytes X /\ mf <= mf'.

Lemma chunk_not_sentinel q : chunk q -> noff q <> 0.
Proof. intros (H & _). pose proof hdr_pos. lia. Qed.

Lemma nend_ge_hdr q : sentinel q \/ chunk q -> hdr_sz <= nend q.
Proof.
  intros [H|H]; [rewrite nend_sentinel by assumption; lia|].
  rewrite nend_chunk by assumption. destruct H as (? & ? & _). lia.
Qed.

(** the result of closing [q] and continuing with a fresh current node [s] starting at [p] *)
Lemma post_consq : forall q s X mf0 mf sf e res,
  sentinel q \/ chunk q -> run_ok (nrun q) -> unmarked (nrun q) ->
  chunk s -> nrun s = [] -> noff s = nend q + run_bytes (nrun q) ->
  (nrun q <> [] \/ noff q = 0) ->
  mf0 <= mf ->
  sweep_post s X mf sf e res ->
  exists q' l' mf' sf',
    consq q res = Some (q' :: l', mf', sf') /\
    noff q' = noff q /\ (sentinel q -> sentinel q') /\ (chunk q -> chunk q') /\
    run_ok (nrun q') /\
    tchain (nend q' + run_bytes (nrun q')) (nrun q' <> [] \/ noff q' = 0) l' e /\
    Forall (fun n => unmarked (nrun n)) (q' :: l') /\
    nodes_objs (q' :: l') = pos_objs (nend q) (rev (nrun q)) ++ surv X /\
    sf' = sf + dead_bytes X /\ mf0 <= mf'.
Proof.
  intros q s X mf0 mf sf e res Hq Hrq Huq Hs Hrs Hos Hc Hmf
         (s' & l2 & mf' & sf' & -> & Hos' & _ & Hcs' & Hrs' & Hch & Hum & Hobjs & Hsf & Hmf').
  exists q, (s' :: l2), mf', sf'. cbn [consq].
  split; [reflexivity|]. split; [reflexivity|]. split; [auto|]. split; [auto|]. split; [assumption|].
  specialize (Hcs' Hs).
  split.
  { cbn [tchain]. split; [lia|]. split; [assumption|]. split; [assumption|]. split; [assumption|].
    rewrite nend_chunk in Hch by assumption.
    eapply tchain_weaken; [|exact Hch]. intros [H|H]; [assumption|]. apply chunk_not_sentinel in Hcs'. contradiction. }
  split; [constructor; assumption|].
  split; [|split; [assumption|lia]].
  rewrite nodes_objs_cons, Hobjs, Hrs. reflexivity.
Qed.

Lemma sweep_loop_spec : forall fuel q todo rest p mf sf e,
  (length todo + nodes_fuel rest < fuel)%nat ->
  sentinel q \/ chunk q ->
  p = nend q + run_bytes (nrun q) ->
  run_ok (nrun q) -> unmarked (nrun q) -> run_ok todo ->
  tchain (p + run_bytes todo) (todo <> [] \/ nrun q <> [] \/ noff q = 0) rest e ->
  sweep_post q (pos_objs p todo ++ nodes_objs rest) mf sf e (sweep_loop fuel q todo rest p mf sf).
Proof.
  induction fuel as [|fuel IH]; intros q todo rest p mf sf e Hfuel Hq Hp Hrq Huq Htodo Hch; [lia|].
  cbn [sweep_loop].
  destruct todo as [|[size marked] todo'].
  - (* no object before the next free-list node *)
    destruct rest as [|r rest'].
    + cbn [tchain] in Hch. unfold run_bytes in Hch at 1. cbn [fold_right] in Hch.
      exists q, [], mf, sf. split; [reflexivity|]. split; [reflexivity|]. split; [auto|]. split; [auto|].
      split; [assumption|]. split; [cbn [tchain]; lia|]. split; [constructor; [assumption|constructor]|].
      split; [rewrite nodes_objs_cons; reflexivity|]. split; [cbn; lia|lia].
    + cbn [tchain] in Hch. destruct Hch as (Ho & Hcr & Hc & Hrr & Hrest).
      unfold run_bytes in Ho at 1. cbn [fold_right] in Ho.
      assert (E : (noff r =? p) = true) by (apply Z.eqb_eq; lia). rewrite E.
      assert (Hpe : p + nsize r = nend r) by (rewrite nend_chunk by assumption; lia).
      assert (Hcs : chunk (Node (noff r) (nsize r) []))
        by (destruct Hcr as (? & ? & ?); unfold chunk; cbn [noff nsize]; auto).
      assert (Hpost : sweep_post (Node (noff r) (nsize r) []) (pos_objs (p + nsize r) (rev (nrun r)) ++ nodes_objs rest') mf sf e
                                 (sweep_loop fuel (Node (noff r) (nsize r) []) (rev (nrun r)) rest' (p + nsize r) mf sf)).
      { apply IH.
        - cbn [nodes_fuel length] in Hfuel. rewrite rev_length. lia.
        - right. exact Hcs.
        - unfold nend. cbn [noff nsize nrun]. pose proof (chunk_not_sentinel r Hcr) as Hn.
          apply Z.eqb_neq in Hn. rewrite Hn. unfold run_bytes. cbn [fold_right]. lia.
        - constructor.
        - constructor.
        - apply run_ok_rev. assumption.
        - rewrite run_bytes_rev.
          replace (p + nsize r + run_bytes (nrun r)) with (noff r + nsize r + run_bytes (nrun r)) by lia.
          eapply tchain_weaken; [|exact Hrest]. intros Hn. left. intros Hr. apply Hn.
          apply (f_equal (@rev obj)) in Hr. rewrite rev_involutive in Hr. exact Hr. }
      cbn [pos_objs app]. rewrite nodes_objs_cons. rewrite <- Hpe.
      apply (post_consq q _ _ mf mf sf e _ Hq Hrq Huq Hcs eq_refl ltac:(cbn [noff]; lia)
                        ltac:(destruct Hc as [H|H]; [congruence|assumption]) ltac:(lia) Hpost).
  - (* an object at p *)
    inversion Htodo as [|? ? [Hszpos Hszdiv] Htodo']; subst. cbn [fst] in *.
    rewrite run_bytes_cons in Hch. cbn [fst] in Hch.
    cbn [pos_objs app].
    destruct marked.
    + (* marked: clear the mark, keep *)
      assert (Hpost : sweep_post (Node (noff q) (nsize q) ((size, false) :: nrun q))
                                 (pos_objs (nend q + run_bytes (nrun q) + size) todo' ++ nodes_objs rest) mf sf e
                                 (sweep_loop fuel (Node (noff q) (nsize q) ((size, false) :: nrun q)) todo' rest
                                             (nend q + run_bytes (nrun q) + size) mf sf)).
      { apply IH.
        - cbn [length] in Hfuel. lia.
        - destruct Hq as [[? ?]|(? & ? & ?)]; [left; split; assumption|right; unfold chunk; cbn [noff nsize]; auto].
        - unfold nend. cbn [noff nsize nrun]. rewrite run_bytes_cons. cbn [fst]. unfold nend. lia.
        - constructor; [split; assumption|assumption].
        - constructor; [reflexivity|assumption].
        - assumption.
        - rewrite <- Z.add_assoc. eapply tchain_weaken; [|exact Hch]. intros _. right. left. discriminate. }
      destruct Hpost as (q' & l' & mf' & sf' & Hres & Ho' & Hs' & Hc' & Hr' & Hch' & Hum' & Hobjs & Hsf & Hmf).
      exists q', l', mf', sf'. split; [exact Hres|]. split; [exact Ho'|].
      split; [intros [? ?]; apply Hs'; split; assumption|].
      split; [intros (? & ? & ?); apply Hc'; unfold chunk; cbn [noff nsize]; auto|].
      split; [assumption|]. split; [assumption|]. split; [assumption|].
      split; [|split; [|assumption]].
      * rewrite Hobjs. cbn [nrun rev]. rewrite pos_objs_app, run_bytes_rev. cbn [pos_objs].
        rewrite <- app_assoc. cbn [app]. unfold surv at 2. cbn [filter snd map fst].
        unfold nend. cbn [noff nsize]. reflexivity.
      * rewrite Hsf. cbn [dead_bytes fold_right snd]. unfold dead_bytes. lia.
    + (* unmarked: free it *)
      destruct ((noff q + nsize q =? nend q + run_bytes (nrun q)) && negb (noff q =? 0)) eqn:Etest.
      * (* q ends exactly at p and is not the sentinel *)
        apply andb_prop in Etest. destruct Etest as [E1 E2].
        apply Z.eqb_eq in E1. apply negb_true_iff in E2. apply Z.eqb_neq in E2.
        assert (Hcq : chunk q) by (destruct Hq as [[? ?]|?]; [contradiction|assumption]).
        assert (Hnil : nrun q = []).
        { apply run_ok_zero; [assumption|]. rewrite nend_chunk in E1 by assumption. lia. }
        destruct Hcq as (Hq1 & Hq2 & Hq3).
        destruct (next_adjacent rest (nend q + run_bytes (nrun q) + size)) as [[r rest']|] eqn:Eadj.
        -- destruct (adjacent_some _ _ _ _ _ _ _ _ Htodo' Hch Eadj) as (-> & -> & Hor & Hcr & Hrr & Hrest).
           destruct Hcr as (Hr1 & Hr2 & Hr3).
           assert (Hpost : sweep_post (Node (noff q) (nsize q + size + nsize r) (nrun q))
                                      (pos_objs (nend q + run_bytes (nrun q) + size + nsize r) (rev (nrun r)) ++ nodes_objs rest')
                                      (Z.max mf (nsize q + size + nsize r)) (sf + size) e
                                      (sweep_loop fuel (Node (noff q) (nsize q + size + nsize r) (nrun q)) (rev (nrun r)) rest'
                                                  (nend q + run_bytes (nrun q) + size + nsize r)
                                                  (Z.max mf (nsize q + size + nsize r)) (sf + size))).
           { apply IH.
             - cbn [length nodes_fuel] in Hfuel. rewrite rev_length. lia.
             - right. unfold chunk. cbn [noff nsize]. split; [lia|]. split; [lia|].
               apply Z.divide_add_r; [apply Z.divide_add_r|]; assumption.
             - unfold nend. cbn [noff nsize nrun]. apply Z.eqb_neq in E2. rewrite E2. rewrite Hnil.
               unfold run_bytes. cbn [fold_right]. unfold run_bytes in E1. rewrite Hnil in E1. cbn [fold_right] in E1. lia.
             - assumption.
             - assumption.
             - apply run_ok_rev. assumption.
             - rewrite run_bytes_rev.
               replace (nend q + run_bytes (nrun q) + size + nsize r + run_bytes (nrun r))
                 with (noff r + nsize r + run_bytes (nrun r)) by lia.
               eapply tchain_weaken; [|exact Hrest]. intros Hn. left. intros Hr. apply Hn.
               apply (f_equal (@rev obj)) in Hr. rewrite rev_involutive in Hr. exact Hr. }
           destruct Hpost as (q' & l' & mf' & sf' & Hres & Ho' & Hs' & Hc' & Hr' & Hch' & Hum' & Hobjs & Hsf & Hmf).
           exists q', l', mf', sf'. split; [exact Hres|]. split; [exact Ho'|].
           split; [intros [? ?]; contradiction|].
           split; [intros _; apply Hc'; unfold chunk; cbn [noff nsize]; split; [lia|split; [lia|
                   apply Z.divide_add_r; [apply Z.divide_add_r|]; assumption]]|].
           split; [assumption|]. split; [assumption|]. split; [assumption|].
           split; [|split; [|lia]].
           ++ rewrite Hobjs. cbn [nrun]. rewrite Hnil. cbn [rev pos_objs app].
              rewrite nodes_objs_cons. unfold surv at 2. cbn [filter snd map app]. fold (surv (pos_objs (nend r) (rev (nrun r)) ++ nodes_objs rest')).
              rewrite (nend_chunk r) by (unfold chunk; auto).
              replace (nend q + run_bytes [] + size + nsize r) with (noff r + nsize r); [reflexivity|].
              rewrite Hnil in Hor. lia.
           ++ rewrite Hsf. cbn [pos_objs app]. rewrite nodes_objs_cons.
              unfold dead_bytes. cbn [fold_right snd fst].
              rewrite (nend_chunk r) by (unfold chunk; auto).
              replace (nend q + run_bytes (nrun q) + size + nsize r) with (noff r + nsize r) by lia. lia.
        -- assert (Hpost : sweep_post (Node (noff q) (nsize q + size) (nrun q))
                                      (pos_objs (nend q + run_bytes (nrun q) + size) todo' ++ nodes_objs rest)
                                      (Z.max mf (nsize q + size)) (sf + size) e
                                      (sweep_loop fuel (Node (noff q) (nsize q + size) (nrun q)) todo' rest
                                                  (nend q + run_bytes (nrun q) + size) (Z.max mf (nsize q + size)) (sf + size))).
           { apply IH.
             - cbn [length] in Hfuel. lia.
             - right. unfold chunk. cbn [noff nsize]. split; [lia|]. split; [lia|]. apply Z.divide_add_r; assumption.
             - unfold nend. cbn [noff nsize nrun]. apply Z.eqb_neq in E2. rewrite E2. rewrite Hnil.
               unfold run_bytes. cbn [fold_right]. unfold run_bytes in E1. rewrite Hnil in E1. cbn [fold_right] in E1. lia.
             - assumption.
             - assumption.
             - assumption.
             - eapply adjacent_none; eassumption. }
           destruct Hpost as (q' & l' & mf' & sf' & Hres & Ho' & Hs' & Hc' & Hr' & Hch' & Hum' & Hobjs & Hsf & Hmf).
           exists q', l', mf', sf'. split; [exact Hres|]. split; [exact Ho'|].
           split; [intros [? ?]; contradiction|].
           split; [intros _; apply Hc'; unfold chunk; cbn [noff nsize]; split; [lia|split; [lia|
                   apply Z.divide_add_r; assumption]]|].
           split; [assumption|]. split; [assumption|]. split; [assumption|].
           split; [|split; [|lia]].
           ++ rewrite Hobjs. cbn [nrun]. rewrite Hnil. cbn [rev pos_objs app].
              unfold surv at 2. cbn [filter snd map]. reflexivity.
           ++ rewrite Hsf. unfold dead_bytes. cbn [fold_right snd fst]. lia.
      * (* a new free-list node starts at p *)
        assert (Hcoal : nrun q <> [] \/ noff q = 0).
        { destruct (Z.eq_dec (noff q) 0) as [|Hn0]; [right; assumption|left].
          assert (Hcq : chunk q) by (destruct Hq as [[? ?]|?]; [contradiction|assumption]).
          apply andb_false_iff in Etest. destruct Etest as [E|E].
          - apply Z.eqb_neq in E. rewrite nend_chunk in E by assumption. intros Hnil. rewrite Hnil in E.
            unfold run_bytes in E. cbn in E. lia.
          - apply negb_false_iff in E. apply Z.eqb_eq in E. contradiction. }
        pose proof (nend_ge_hdr q Hq) as Hge. pose proof (run_ok_nonneg _ Hrq) as Hnn.
        destruct (next_adjacent rest (nend q + run_bytes (nrun q) + size)) as [[r rest']|] eqn:Eadj.
        -- destruct (adjacent_some _ _ _ _ _ _ _ _ Htodo' Hch Eadj) as (-> & -> & Hor & Hcr & Hrr & Hrest).
           destruct Hcr as (Hr1 & Hr2 & Hr3).
           assert (Hpe : nend q + run_bytes (nrun q) + (size + nsize r) = nend r)
             by (rewrite (nend_chunk r) by (unfold chunk; auto); lia).
           assert (Hpost : sweep_post (Node (nend q + run_bytes (nrun q)) (size + nsize r) [])
                                      (pos_objs (nend q + run_bytes (nrun q) + (size + nsize r)) (rev (nrun r)) ++ nodes_objs rest')
                                      (Z.max mf (size + nsize r)) (sf + size) e
                                      (sweep_loop fuel (Node (nend q + run_bytes (nrun q)) (size + nsize r) []) (rev (nrun r)) rest'
                                                  (nend q + run_bytes (nrun q) + (size + nsize r))
                                                  (Z.max mf (size + nsize r)) (sf + size))).
           { apply IH.
             - cbn [length nodes_fuel] in Hfuel. rewrite rev_length. lia.
             - right. unfold chunk. cbn [noff nsize]. split; [lia|]. split; [lia|]. apply Z.divide_add_r; assumption.
             - unfold nend. cbn [noff nsize nrun].
               assert (En : (nend q + run_bytes (nrun q) =? 0) = false) by (apply Z.eqb_neq; pose proof hdr_pos; lia).
               unfold nend in En. rewrite En. unfold run_bytes at 3. cbn [fold_right]. unfold nend. lia.
             - constructor.
             - constructor.
             - apply run_ok_rev. assumption.
             - rewrite run_bytes_rev.
               replace (nend q + run_bytes (nrun q) + (size + nsize r) + run_bytes (nrun r))
                 with (noff r + nsize r + run_bytes (nrun r)) by lia.
               eapply tchain_weaken; [|exact Hrest]. intros Hn. left. intros Hr. apply Hn.
               apply (f_equal (@rev obj)) in Hr. rewrite rev_involutive in Hr. exact Hr. }
           assert (Hcs : chunk (Node (nend q + run_bytes (nrun q)) (size + nsize r) []))
             by (unfold chunk; cbn [noff nsize]; split; [lia|split; [lia|apply Z.divide_add_r; assumption]]).
           destruct (post_consq q _ _ mf _ _ e _ Hq Hrq Huq Hcs eq_refl eq_refl Hcoal (Z.le_max_l _ _) Hpost)
             as (q' & l' & mf' & sf' & Hres & Ho' & Hs' & Hc' & Hr' & Hch' & Hum' & Hobjs & Hsf & Hmf).
           exists q', l', mf', sf'. split; [exact Hres|]. split; [exact Ho'|]. split; [exact Hs'|]. split; [exact Hc'|].
           split; [assumption|]. split; [assumption|]. split; [assumption|].
           split; [|split; [|lia]].
           ++ rewrite Hobjs. cbn [pos_objs app]. rewrite nodes_objs_cons.
              unfold surv at 2. cbn [filter snd map]. fold (surv (pos_objs (nend r) (rev (nrun r)) ++ nodes_objs rest')).
              rewrite Hpe. reflexivity.
           ++ rewrite Hsf. cbn [pos_objs app]. rewrite nodes_objs_cons.
              unfold dead_bytes. cbn [fold_right snd fst]. rewrite Hpe. lia.
        -- assert (Hpost : sweep_post (Node (nend q + run_bytes (nrun q)) size [])
                                      (pos_objs (nend q + run_bytes (nrun q) + size) todo' ++ nodes_objs rest)
                                      (Z.max mf size) (sf + size) e
                                      (sweep_loop fuel (Node (nend q + run_bytes (nrun q)) size []) todo' rest
                                                  (nend q + run_bytes (nrun q) + size) (Z.max mf size) (sf + size))).
           { apply IH.
             - cbn [length] in Hfuel. lia.
             - right. unfold chunk. cbn [noff nsize]. split; [lia|]. split; [lia|]. assumption.
             - unfold nend. cbn [noff nsize nrun].
               assert (En : (nend q + run_bytes (nrun q) =? 0) = false) by (apply Z.eqb_neq; pose proof hdr_pos; lia).
               unfold nend in En. rewrite En. unfold run_bytes at 3. cbn [fold_right]. unfold nend. lia.
             - constructor.
             - constructor.
             - assumption.
             - eapply adjacent_none; eassumption. }
           assert (Hcs : chunk (Node (nend q + run_bytes (nrun q)) size []))
             by (unfold chunk; cbn [noff nsize]; split; [lia|split; [lia|assumption]]).
           destruct (post_consq q _ _ mf _ _ e _ Hq Hrq Huq Hcs eq_refl eq_refl Hcoal (Z.le_max_l _ _) Hpost)
             as (q' & l' & mf' & sf' & Hres & Ho' & Hs' & Hc' & Hr' & Hch' & Hum' & Hobjs & Hsf & Hmf).
           exists q', l', mf', sf'. split; [exact Hres|]. split; [exact Ho'|]. split; [exact Hs'|]. split; [exact Hc'|].
           split; [assumption|]. split; [assumption|]. split; [assumption|].
           split; [|split; [|lia]].
           ++ rewrite Hobjs. unfold surv at 2. cbn [filter snd map]. reflexivity.
           ++ rewrite Hsf. unfold dead_bytes. cbn [fold_right snd fst]. lia.
Qed.
