(** C10 round 3 — executable model, second part (no proofs here):
    (1) the heap that sexp_load_image / sexp_gc_heap_pack build by hand: gc_heap.c sexp_gc_packed_heap_make;
    (2) the embedder's root API: sexp_preserve_object / sexp_release_object (gc.c:116-129), the
        sexp_gc_preserve / sexp_gc_release frames (sexp.h: struct sexp_gc_var_t chain of the context) and the
        history language over them. *)
From Coq Require Import ZArith List Bool.
From ChibiV Require Import Gen.C10_Consts C10.Model.
Import ListNotations.
Local Open Scope Z_scope.

(** ------------------------------------------------------------------ image heaps *)

(** gc_heap.c:256-259:  if (free_size > 0 && free_size < 2*sexp_free_chunk_size) free_size = 2*sexp_free_chunk_size;
    free_size = sexp_heap_align(free_size);  (text compared by gen/c10_consts.py PACKED_SHAPES) *)
Definition packed_free (free : Z) : Z :=
  heap_align (if (0 <? free) && (free <? 2 * free_chunk_raw) then 2 * free_chunk_raw else free).

(** sexp_gc_packed_heap_make, gc_heap.c:255-278, for the packed objects [objs] (sizes, ascending; the image is read to
    sexp_heap_first_block) and the requested free size [free] (main.c: the -h argument, 0 by default).  Result: the
    segment and the size handed to sexp_make_heap (malloc).  [pk_req], [pk_hsize], [pk_chunk] are the right-hand
    sides TRANSLATED from the source (Gen/C10_Consts.v); pad = first block - data = [hdr_sz] (checked by the probe). *)
Definition packed_heap_make (objs : list obj) (free : Z) : heap * Z :=
  let packed := run_bytes objs in
  let fs := packed_free free in
  let req := pk_req packed fs in
  let hs := pk_hsize packed fs hdr_sz req in
  (Heap hs (if fs =? 0
            then [Node 0 0 (rev objs)]                      (* heap->free_list->next = NULL *)
            else [Node 0 0 (rev objs); Node (hdr_sz + packed) (pk_chunk packed fs hdr_sz req hs) []]),
   heap_align req).

(** the context a loaded image starts with: one segment; max_size as sexp_load_image sets it *)
Definition image_state (objs : list obj) (free max : Z) : state :=
  State [fst (packed_heap_make objs free)] max.

(** ------------------------------------------------------------------ roots held by the embedding C program *)

(** an object is named by its address (heap index, offset) *)
Definition oaddr := (Z * Z)%type.
Definition oaddr_eqb (a b : oaddr) : bool := (fst a =? fst b) && (snd a =? snd b).

(** sexp_preserve_object, gc.c:116-118: cons in front of SEXP_G_PRESERVATIVES *)
Definition preserve (x : oaddr) (pres : list oaddr) : list oaddr := x :: pres.

(** sexp_release_object, gc.c:120-129: unlink the FIRST pair whose car is x (the head: store the cdr back into the
    global; an interior pair: set the cdr of its predecessor); nothing when x is not in the list *)
Fixpoint release (x : oaddr) (pres : list oaddr) : list oaddr :=
  match pres with
  | [] => []
  | y :: t => if oaddr_eqb y x then t else y :: release x t
  end.

(** the roots an embedding program controls: the preservatives list, the stack of sexp_gc_preserve frames (innermost
    first; each frame = the current values of its variables), and whatever else is rooted ([fixed]: globals vector,
    the context itself, ...) *)
Record roots := Roots { pres : list oaddr; frames : list (list oaddr); fixed : list oaddr }.

Inductive rop :=
| RPreserve (x : oaddr)
| RRelease (x : oaddr)
| RPush (vars : list oaddr)      (* sexp_gc_preserveN *)
| RPop.                          (* sexp_gc_releaseN: ctx->saves = the frame's saved next *)

Definition rstep (r : roots) (o : rop) : roots :=
  match o with
  | RPreserve x => Roots (preserve x (pres r)) (frames r) (fixed r)
  | RRelease x => Roots (release x (pres r)) (frames r) (fixed r)
  | RPush vs => Roots (pres r) (vs :: frames r) (fixed r)
  | RPop => Roots (pres r) (tl (frames r)) (fixed r)
  end.

Definition root_list (r : roots) : list oaddr := pres r ++ concat (frames r) ++ fixed r.

(** SPEC side of the preservatives list: how often x is preserved after a history (a multiset) *)
Definition balance_step (x : oaddr) (n : nat) (o : rop) : nat :=
  match o with
  | RPreserve y => if oaddr_eqb y x then S n else n
  | RRelease y => if oaddr_eqb y x then Nat.pred n else n
  | _ => n
  end.
Definition balance (x : oaddr) (ops : list rop) : nat := fold_left (balance_step x) ops O.

(** executable reachability: [closure fuel sl work seen] — depth-first over the slot function [sl] *)
Definition omem (l : list oaddr) (a : oaddr) : bool := existsb (oaddr_eqb a) l.
Fixpoint closure (fuel : nat) (sl : oaddr -> list oaddr) (work seen : list oaddr) : list oaddr :=
  match fuel with
  | O => seen
  | S fuel =>
    match work with
    | [] => seen
    | a :: w => if omem seen a then closure fuel sl w seen else closure fuel sl (sl a ++ w) (a :: seen)
    end
  end.
