(** C10 — specification side: what a well-formed heap is, and what allocation / sweep must do, stated
    on addresses (offsets from h->data) independently of how the model computes. *)
From Coq Require Import ZArith List Bool Lia.
From ChibiV Require Import Gen.C10_Consts C10.Model.
Import ListNotations.
Local Open Scope Z_scope.

(** an object: positive size, multiple of the heap alignment *)
Definition obj_ok (o : obj) : Prop := 0 < fst o /\ (unit_sz | fst o).
Definition run_ok (r : list obj) : Prop := Forall obj_ok r.
Definition unmarked (r : list obj) : Prop := Forall (fun o => snd o = false) r.

Definition sentinel (n : node) : Prop := noff n = 0 /\ nsize n = 0.
(** a real free chunk: after the sentinel's header, positive aligned size *)
Definition chunk (n : node) : Prop := hdr_sz <= noff n /\ 0 < nsize n /\ (unit_sz | nsize n).

(** [tchain a c l e]: the free-list nodes [l] and the objects after each of them tile the addresses
    [a .. e) EXACTLY: each node starts where the previous node's last object ended ([a] for the first),
    the last object of the last node ends at [e].  [c]: "the node before [l] is separated from the first
    node of [l] by at least one object" (or is the sentinel) — so along a chain no two free chunks are
    adjacent in memory: the list is coalesced; it is strictly increasing because every extent is positive. *)
Fixpoint tchain (a : Z) (c : Prop) (l : list node) (e : Z) : Prop :=
  match l with
  | [] => a = e
  | m :: l' =>
    noff m = a /\ chunk m /\ c /\ run_ok (nrun m) /\
    tchain (noff m + nsize m + run_bytes (nrun m)) (nrun m <> []) l' e
  end.

(** one heap segment: sentinel first (size 0, at offset 0, occupying the header), then an exact tiling
    of [hdr_sz, hsize) *)
Definition heap_inv (h : heap) : Prop :=
  exists s rest, hnodes h = s :: rest /\ sentinel s /\ run_ok (nrun s) /\
                 tchain (hdr_sz + run_bytes (nrun s)) True rest (hsize h) /\
                 (unit_sz | hsize h).

Definition heap_unmarked (h : heap) : Prop := Forall (fun n => unmarked (nrun n)) (hnodes h).

(** the invariant of the whole allocator state BETWEEN collections (all mark bits clear) *)
Definition Inv (st : state) : Prop :=
  heaps st <> [] /\ Forall heap_inv (heaps st) /\ Forall heap_unmarked (heaps st).

(** ---- the address-level view: objects as (offset, size, mark), ascending ---- *)
Fixpoint pos_objs (p : Z) (asc : list obj) : list (Z * Z * bool) :=
  match asc with
  | [] => []
  | (sz, m) :: t => (p, sz, m) :: pos_objs (p + sz) t
  end.

(** what a sweep must leave: exactly the marked objects, where they were, marks cleared *)
Definition surv (l : list (Z * Z * bool)) : list (Z * Z * bool) :=
  map (fun x : Z * Z * bool => (fst (fst x), snd (fst x), false)) (filter (fun x : Z * Z * bool => snd x) l).

(** bytes of the unmarked objects *)
Definition dead_bytes (l : list (Z * Z * bool)) : Z :=
  fold_right (fun (x : Z * Z * bool) a => (if snd x then 0 else snd (fst x)) + a) 0 l.
Definition obj_bytes (l : list (Z * Z * bool)) : Z := fold_right (fun (x : Z * Z * bool) a => snd (fst x) + a) 0 l.

Definition free_bytes (h : heap) : Z := fold_right (fun n a => nsize n + a) 0 (hnodes h).

Definition state_objs (st : state) : list (list (Z * Z * bool)) := map heap_objs (heaps st).

(** histories: the operations a mutator + collector perform on the allocator.  [OGc mss]: a collection
    whose mark phase marked exactly the objects at the listed offsets. *)
Inductive op := OAlloc (size : Z) (mss : list (list Z)) | OGc (mss : list (list Z)).

Definition step (st : state) (o : op) : state :=
  match o with
  | OAlloc size mss => fst (alloc st size mss)
  | OGc mss => match gc st mss with Some (st', _, _) => st' | None => st end
  end.

Definition req_ok (o : op) : Prop :=
  match o with
  | OAlloc size _ => 0 < size /\ (unit_sz | size)
  | OGc _ => True
  end.
