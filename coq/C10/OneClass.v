(** C10 round 3 (job 2) — the heap bound for SINGLE-SIZE-CLASS histories: [hist_ok] (More.v), the premise of
    [heap_bounded_partial], is DERIVED from "the survivors of every slow-path collection total at most Lv bytes" when
    every request has the same size [n].

    The argument is the one recorded in notes/C10.md after round 2: with one size class every object lies on the
    n-grid of its segment (offset = hdr + k*n) — an invariant of the reachable states, NOT a consequence of [Inv] —
    so every free chunk starts on the grid, a chunk that is followed by an object has a size that is a multiple of
    n, and the only chunk smaller than n a segment can hold is its tail.  Hence at a slow path (no chunk fits) each
    segment has fewer than n free bytes, and "bytes not freed" = headers + survivors + (less than n per segment). *)
From Coq Require Import ZArith List Bool Lia Permutation.
From ChibiV Require Import Gen.C10_Consts C10.Model C10.Spec C10.Proofs C10.Sweep C10.Theorems C10.More C10.SizeClass.
Import ListNotations.
Local Open Scope Z_scope.

Section OneClass.
Variable n : Z.
Hypothesis Hn : 0 < n.
Hypothesis Hnu : (unit_sz | n).

(** an object of the class: size n, on the grid *)
Definition ok_pair (p : Z * Z) : Prop := snd p = n /\ (n | fst p - hdr_sz).
Definition ok_obj (x : Z * Z * bool) : Prop := ok_pair (fst x).
Definition ogrid_h (h : heap) : Prop := Forall ok_obj (heap_objs h).
Definition ogrid (st : state) : Prop := Forall ogrid_h (heaps st).

Lemma ok_obj_map l : Forall ok_obj l <-> Forall ok_pair (map fst l).
Proof. unfold ok_obj. rewrite Forall_map. reflexivity. Qed.

Lemma pos_sizes : forall asc p, Forall ok_obj (pos_objs p asc) -> Forall (fun o : obj => fst o = n) asc.
Proof.
  induction asc as [|[sz m] asc IH]; intros p H; [constructor|].
  cbn [pos_objs] in H. inversion H as [|? ? Hx Hr]; subst. constructor; [exact (proj1 Hx)|eapply IH; exact Hr].
Qed.

Lemma sizes_div : forall asc, Forall (fun o : obj => fst o = n) asc -> (n | run_bytes asc).
Proof.
  induction 1 as [|o asc Ho _ IH]; [exists 0; reflexivity|].
  rewrite run_bytes_cons, Ho. apply Z.divide_add_r; [apply Z.divide_refl|exact IH].
Qed.

Lemma pos_head : forall asc p, Forall ok_obj (pos_objs p asc) -> asc <> [] -> (n | p - hdr_sz).
Proof.
  intros [|[sz m] asc] p H Hne; [congruence|]. cbn [pos_objs] in H. inversion H as [|? ? Hx _]; subst. exact (proj2 Hx).
Qed.

Lemma sizes_rev (r : list obj) : Forall (fun o : obj => fst o = n) (rev r) -> Forall (fun o : obj => fst o = n) r.
Proof. intros H. rewrite <- (rev_involutive r). apply Forall_rev. exact H. Qed.

(** every free chunk of a chain whose objects are on the grid starts on the grid *)
Lemma chain_grid : forall l a (c : Prop) e, tchain a c l e -> Forall ok_obj (nodes_objs l) -> (n | a - hdr_sz) ->
  forall m, In m l -> (n | noff m - hdr_sz).
Proof.
  induction l as [|m l IH]; intros a c e Hch Hok Ha m0 Hin; [destruct Hin|].
  cbn [tchain] in Hch. destruct Hch as (Ho & Hc & _ & Hr & Hrest).
  rewrite nodes_objs_cons in Hok. apply Forall_app in Hok. destruct Hok as [Hok1 Hok2].
  destruct Hin as [<-|Hin]; [rewrite Ho; exact Ha|].
  destruct l as [|m' l']; [destruct Hin|].
  assert (Hne : nrun m <> []) by (cbn [tchain] in Hrest; tauto).
  assert (Hne' : rev (nrun m) <> []).
  { intros E. apply Hne. rewrite <- (rev_involutive (nrun m)), E. reflexivity. }
  pose proof (pos_head _ _ Hok1 Hne') as Hp. rewrite (nend_chunk m Hc) in Hp.
  pose proof (sizes_div _ (sizes_rev _ (pos_sizes _ _ Hok1))) as Hd.
  eapply IH; [exact Hrest|exact Hok2| |exact Hin].
  replace (noff m + nsize m + run_bytes (nrun m) - hdr_sz) with (noff m + nsize m - hdr_sz + run_bytes (nrun m)) by lia.
  apply Z.divide_add_r; assumption.
Qed.

(** ... and when no chunk reaches n bytes the chain is empty or ONE chunk with nothing behind it (the tail) *)
Lemma chain_small : forall l a (c : Prop) e, tchain a c l e -> Forall ok_obj (nodes_objs l) -> (n | a - hdr_sz) ->
  (forall m, In m l -> nsize m < n) -> l = [] \/ exists m, l = [m] /\ nrun m = [].
Proof.
  intros [|m l] a c e Hch Hok Ha Hsm; [left; reflexivity|right].
  cbn [tchain] in Hch. destruct Hch as (Ho & Hc & _ & Hr & Hrest).
  rewrite nodes_objs_cons in Hok. apply Forall_app in Hok. destruct Hok as [Hok1 Hok2].
  assert (Hempty : nrun m = []).
  { destruct (nrun m) as [|x r] eqn:E; [reflexivity|exfalso].
    assert (Hne' : rev (x :: r) <> []) by (cbn [rev]; intros E2; apply app_eq_nil in E2; destruct E2; discriminate).
    pose proof (pos_head _ _ Hok1 Hne') as Hp. rewrite (nend_chunk m Hc) in Hp.
    assert (Hd : (n | nsize m)).
    { replace (nsize m) with (noff m + nsize m - hdr_sz - (a - hdr_sz)) by lia. apply Z.divide_sub_r; assumption. }
    destruct Hc as (_ & Hpos & _). pose proof (Z.divide_pos_le _ _ Hpos Hd). specialize (Hsm m (or_introl eq_refl)). lia. }
  exists m. split; [|exact Hempty].
  destruct l as [|m' l']; [reflexivity|exfalso]. cbn [tchain] in Hrest. destruct Hrest as (_ & _ & Hc' & _). apply Hc'. exact Hempty.
Qed.

Lemma heap_first_grid h s rest : hnodes h = s :: rest -> sentinel s -> ogrid_h h ->
  Forall ok_obj (nodes_objs rest) /\ (n | hdr_sz + run_bytes (nrun s) - hdr_sz) /\ Forall (fun o : obj => fst o = n) (nrun s).
Proof.
  intros Hnod Hs Hg. unfold ogrid_h in Hg. rewrite (heap_objs_inv h s rest Hnod Hs) in Hg.
  apply Forall_app in Hg. destruct Hg as [H1 H2]. split; [exact H2|].
  pose proof (sizes_rev _ (pos_sizes _ _ H1)) as Hsz. split; [|exact Hsz].
  replace (hdr_sz + run_bytes (nrun s) - hdr_sz) with (run_bytes (nrun s)) by lia. apply sizes_div. exact Hsz.
Qed.

(** a segment of the class in which no chunk fits has fewer than n free bytes *)
Lemma heap_small h : heap_inv h -> ogrid_h h -> (forall m, In m (tl (hnodes h)) -> nsize m < n) ->
  0 <= free_bytes h < n.
Proof.
  intros (s & rest & Hnod & Hsent & Hrs & Hch & Hdiv) Hg Hsm.
  destruct (heap_first_grid h s rest Hnod Hsent Hg) as (Hok & Ha & _).
  rewrite Hnod in Hsm. cbn [tl] in Hsm.
  unfold free_bytes. rewrite Hnod. cbn [fold_right]. destruct Hsent as [_ Hs0]. rewrite Hs0.
  destruct (chain_small rest _ True _ Hch Hok Ha Hsm) as [->|(m & -> & _)]; cbn [fold_right]; [lia|].
  cbn [tchain] in Hch. destruct Hch as (_ & (_ & Hpos & _) & _). specialize (Hsm m (or_introl eq_refl)). lia.
Qed.

Lemma heap_chunks_grid h : heap_inv h -> ogrid_h h -> forall m, In m (tl (hnodes h)) -> (n | noff m - hdr_sz).
Proof.
  intros (s & rest & Hnod & Hsent & Hrs & Hch & Hdiv) Hg m Hin.
  destruct (heap_first_grid h s rest Hnod Hsent Hg) as (Hok & Ha & _).
  rewrite Hnod in Hin. cbn [tl] in Hin. eapply chain_grid; eassumption.
Qed.

(** structural consequence: every object of every run has size n (what SizeClass.v needs) *)
Lemma nodes_sizes : forall l, Forall ok_obj (nodes_objs l) -> Forall (fun m => Forall (fun o : obj => fst o = n) (nrun m)) l.
Proof.
  induction l as [|m l IH]; intros H; [constructor|].
  rewrite nodes_objs_cons in H. apply Forall_app in H. destruct H as [H1 H2].
  constructor; [exact (sizes_rev _ (pos_sizes _ _ H1))|exact (IH H2)].
Qed.

Lemma heap_ge_of_grid h : heap_inv h -> ogrid_h h -> heap_ge n h.
Proof.
  intros (s & rest & Hnod & Hsent & Hrs & Hch & Hdiv) Hg.
  unfold heap_ge, nodes_ge. unfold ogrid_h, heap_objs in Hg. pose proof (nodes_sizes _ Hg) as Hs. rewrite Hnod in *.
  assert (Hnn : Forall (fun m => 0 <= nsize m) (s :: rest)).
  { constructor; [destruct Hsent as [_ ->]; lia|].
    clear -Hch. revert Hch. generalize (hdr_sz + run_bytes (nrun s)). generalize True.
    induction rest as [|m l IH]; intros c a Hch; [constructor|].
    cbn [tchain] in Hch. destruct Hch as (_ & (_ & Hpos & _) & _ & _ & Hrest). constructor; [cbn beta; lia|eapply IH; exact Hrest]. }
  clear -Hs Hnn. induction Hs as [|m l Hm _ IH]; [constructor|].
  inversion Hnn as [|? ? H0 Hnn']; subst. constructor; [|apply IH; exact Hnn'].
  split; [exact H0|]. unfold run_ge. eapply Forall_impl; [|exact Hm]. intros o Ho. cbn beta in Ho |- *. rewrite Ho. apply Z.le_refl.
Qed.

(** ================================================================== the grid is an invariant of the class's histories *)
Lemma perm_grid l l' : Permutation l l' -> Forall ok_obj l -> Forall ok_obj l'.
Proof.
  intros HP HF. rewrite Forall_forall in *. intros x Hx. apply HF.
  eapply Permutation_in; [apply Permutation_sym; exact HP|exact Hx].
Qed.

Lemma try_nodes_off : forall rest ls1 size o l, try_nodes ls1 rest size = Some (o, l) -> exists m, In m rest /\ o = noff m.
Proof.
  induction rest as [|ls2 rest IH]; intros ls1 size o l H; [discriminate|]. cbn [try_nodes] in H.
  destruct (size <=? nsize ls2).
  - destruct (size + min_obj <=? nsize ls2); injection H as <- _; exists ls2; (split; [left; reflexivity|reflexivity]).
  - destruct (try_nodes ls2 rest size) as [[o2 l2]|] eqn:E; [|discriminate]. injection H as <- _.
    destruct (IH _ _ _ _ E) as (m & Hin & ->). exists m. split; [right; exact Hin|reflexivity].
Qed.

Lemma try_heap_grid h o h' : heap_inv h -> ogrid_h h -> try_heap h n = Some (o, h') -> ogrid_h h'.
Proof.
  intros Hi Hg Ht. pose proof (try_heap_fresh_lemma h n o h' Hn Hnu Hi Ht) as HP.
  unfold ogrid_h. eapply perm_grid; [apply Permutation_sym; exact HP|]. constructor; [|exact Hg].
  split; [reflexivity|]. cbn [fst].
  unfold try_heap in Ht. destruct (hnodes h) as [|s rest] eqn:Hnod; [discriminate|].
  destruct (try_nodes s rest n) as [[o' l]|] eqn:E; [|discriminate]. injection Ht as <- _.
  destruct (try_nodes_off _ _ _ _ _ E) as (m & Hin & ->). apply (heap_chunks_grid h Hi Hg). rewrite Hnod. exact Hin.
Qed.

Lemma try_heaps_grid : forall hs hi i o l, Forall heap_inv hs -> Forall ogrid_h hs -> try_heaps hs n hi = Some (i, o, l) -> Forall ogrid_h l.
Proof.
  induction hs as [|h hs IH]; intros hi i o l Hi Hg H; cbn [try_heaps] in H; [discriminate|].
  inversion Hi as [|? ? Hih Hi']; subst. inversion Hg as [|? ? Hgh Hg']; subst.
  destruct (try_heap h n) as [[o' h']|] eqn:E.
  - injection H as _ _ <-. constructor; [eapply try_heap_grid; eassumption|exact Hg'].
  - destruct (try_heaps hs n (hi + 1)) as [[[i2 o2] l2]|] eqn:E2; [|discriminate]. injection H as _ _ <-.
    constructor; [exact Hgh|eapply IH; eassumption].
Qed.

Lemma try_alloc_grid st i o st' : Inv st -> ogrid st -> try_alloc st n = Some (i, o, st') -> ogrid st'.
Proof.
  intros (_ & Hi & _) Hg H. unfold try_alloc in H.
  destruct (try_heaps (heaps st) n 0) as [[[i2 o2] l2]|] eqn:E; [|discriminate]. injection H as _ _ <-.
  unfold ogrid. cbn [heaps]. eapply try_heaps_grid; eassumption.
Qed.

Lemma pos_objs_fst : forall asc asc' p, map fst asc' = map fst asc -> map fst (pos_objs p asc') = map fst (pos_objs p asc).
Proof.
  induction asc as [|[sz m] asc IH]; intros [|[sz' m'] asc'] p H; try discriminate; [reflexivity|].
  cbn [map fst] in H. injection H as -> H. cbn [pos_objs map fst]. rewrite (IH asc' (p + sz) H). reflexivity.
Qed.

Lemma shape_objs : forall l l', Forall2 same_shape l l' -> map fst (nodes_objs l') = map fst (nodes_objs l).
Proof.
  induction 1 as [|m m' l l' (Ho & Hs & Hr) _ IH]; [reflexivity|].
  rewrite !nodes_objs_cons, !map_app, IH. f_equal.
  assert (En : nend m' = nend m) by (unfold nend; rewrite Ho, Hs; reflexivity). rewrite En.
  apply pos_objs_fst. rewrite !map_rev. f_equal. exact Hr.
Qed.

Lemma shape_free : forall l l', Forall2 same_shape l l' ->
  fold_right (fun m a => nsize m + a) 0 l' = fold_right (fun m a => nsize m + a) 0 l.
Proof. induction 1 as [|m m' l l' (Ho & Hs & Hr) _ IH]; [reflexivity|]. cbn [fold_right]. rewrite Hs, IH. reflexivity. Qed.

Lemma mark_heap_grid h ms h' : mark_heap h ms = Some h' -> (ogrid_h h -> ogrid_h h') /\ free_bytes h' = free_bytes h.
Proof.
  intros Hm. unfold mark_heap in Hm. destruct (mark_nodes (hnodes h) ms) as [l ms'] eqn:E. destruct ms'; [|discriminate].
  injection Hm as <-. apply mark_nodes_shape in E. split.
  - unfold ogrid_h, heap_objs. cbn [hnodes]. rewrite !ok_obj_map, (shape_objs _ _ E). tauto.
  - unfold free_bytes. cbn [hnodes]. apply shape_free. exact E.
Qed.

Lemma mark_heaps_grid : forall hs mss l, mark_heaps hs mss = Some l ->
  (Forall ogrid_h hs -> Forall ogrid_h l) /\ map free_bytes l = map free_bytes hs.
Proof.
  induction hs as [|h hs IH]; intros mss l H; cbn [mark_heaps] in H.
  - destruct mss; [|discriminate]. injection H as <-. split; [auto|reflexivity].
  - destruct mss as [|ms mss]; [discriminate|].
    destruct (mark_heap h ms) as [h'|] eqn:E1; [|discriminate].
    destruct (mark_heaps hs mss) as [l'|] eqn:E2; [|discriminate]. injection H as <-.
    destruct (mark_heap_grid _ _ _ E1) as [Hg1 Hf1]. destruct (IH _ _ E2) as [Hg2 Hf2]. split.
    + intros Hall. inversion Hall; subst. constructor; auto.
    + cbn [map]. rewrite Hf1, Hf2. reflexivity.
Qed.

Lemma surv_grid l : Forall ok_obj l -> Forall ok_obj (surv l).
Proof.
  intros H. rewrite Forall_forall in *. intros x Hx. unfold surv in Hx. apply in_map_iff in Hx. destruct Hx as (y & <- & Hy).
  apply filter_In in Hy. destruct Hy as [Hy _]. specialize (H y Hy). unfold ok_obj, ok_pair in *. cbn [fst snd]. exact H.
Qed.

Lemma gc_grid st mss st1 mf sf : Inv st -> ogrid st -> gc st mss = Some (st1, mf, sf) -> ogrid st1.
Proof.
  intros (Hne & Hall & _) Hg H. unfold gc in H.
  destruct (mark_heaps (heaps st) mss) as [l|] eqn:E; [|discriminate].
  destruct (mark_heaps_inv _ _ _ Hall E) as [Hi Hsz]. destruct (mark_heaps_grid _ _ _ E) as [Hgl _].
  assert (Hne' : l <> []) by (intros ->; destruct (heaps st); [congruence|discriminate]).
  pose proof (sweep_frees_exactly_unmarked_lemma (State l (max_size st)) st1 mf sf Hne' Hi H) as Ho.
  unfold ogrid, ogrid_h. rewrite <- Forall_map. fold (state_objs st1). rewrite Ho. unfold state_objs. cbn [heaps].
  rewrite Forall_map. apply Forall_map. eapply Forall_impl; [|exact (Hgl Hg)]. intros h Hh. apply surv_grid. exact Hh.
Qed.

Lemma grow_grid st : ogrid st -> ogrid (grow st n).
Proof.
  intros Hg. unfold grow, ogrid. cbn [heaps]. apply Forall_app. split; [exact Hg|]. constructor; [|constructor].
  unfold ogrid_h, heap_objs, make_heap. cbn [hnodes nodes_objs run_objs nrun app]. constructor.
Qed.

(** every segment can hold an object of the class (true of the grown ones by the growth formula) *)
Definition big (st : state) : Prop := Forall (fun z => n <= z) (map hsize (heaps st)).
Definition J (st : state) : Prop := Inv st /\ ogrid st /\ big st.

Lemma grow_big st : Inv st -> big st -> big (grow st n).
Proof.
  intros HI Hb. unfold big, grow. cbn [heaps]. rewrite map_app. apply Forall_app. split; [exact Hb|].
  cbn [map make_heap hsize]. constructor; [|constructor].
  rewrite (grow_size_val st n HI Hnu), factor_integral.
  replace (factor_num * Z.max (hsize (last (heaps st) (make_heap 0))) n + 1 - 1)
    with (factor_num * Z.max (hsize (last (heaps st) (make_heap 0))) n) by lia.
  rewrite Z.div_1_r. pose proof factor_ge2. nia.
Qed.

Lemma alloc_J st mss : J st -> J (fst (alloc st n mss)).
Proof.
  intros (HI & Hg & Hb). unfold alloc.
  destruct (try_alloc st n) as [[[i o] st1]|] eqn:E1.
  - cbn [fst]. destruct (try_alloc_inv_lemma _ _ _ _ _ Hn Hnu HI E1) as (HI1 & Hsz & _).
    split; [exact HI1|]. split; [exact (try_alloc_grid st i o st1 HI Hg E1)|unfold big; rewrite Hsz; exact Hb].
  - destruct (gc st mss) as [[[st1 mf] sf]|] eqn:E2; [|cbn [fst]; exact (conj HI (conj Hg Hb))].
    destruct (gc_inv_lemma _ _ _ _ _ HI E2) as (HI1 & Hsz1 & _).
    pose proof (gc_grid _ _ _ _ _ HI Hg E2) as Hg1.
    assert (Hb1 : big st1) by (unfold big; rewrite Hsz1; exact Hb).
    assert (HJ2 : J (if must_grow st1 n mf sf then grow st1 n else st1)).
    { destruct (must_grow st1 n mf sf).
      - split; [apply grow_inv_lemma; assumption|]. split; [apply grow_grid; exact Hg1|apply grow_big; assumption].
      - exact (conj HI1 (conj Hg1 Hb1)). }
    destruct (try_alloc (if must_grow st1 n mf sf then grow st1 n else st1) n) as [[[i o] st3]|] eqn:E3.
    + cbn [fst]. destruct HJ2 as (HI2 & Hg2 & Hb2).
      destruct (try_alloc_inv_lemma _ _ _ _ _ Hn Hnu HI2 E3) as (HI3 & Hsz & _).
      split; [exact HI3|]. split; [exact (try_alloc_grid _ i o st3 HI2 Hg2 E3)|unfold big; rewrite Hsz; exact Hb2].
    + cbn [fst]. exact HJ2.
Qed.

Definition class_op (o : op) : Prop := match o with OAlloc size _ => size = n | OGc _ => True end.

Lemma step_J st o : J st -> class_op o -> J (step st o).
Proof.
  intros HJ Hc. destruct o as [size mss|mss]; cbn [step class_op] in *.
  - subst size. apply alloc_J. exact HJ.
  - destruct HJ as (HI & Hg & Hb). destruct (gc st mss) as [[[st1 mf] sf]|] eqn:E; [|exact (conj HI (conj Hg Hb))].
    destruct (gc_inv_lemma _ _ _ _ _ HI E) as (HI1 & Hsz1 & _).
    split; [exact HI1|]. split; [exact (gc_grid st mss st1 mf sf HI Hg E)|unfold big; rewrite Hsz1; exact Hb].
Qed.

Lemma init_J size max : hdr_sz < size -> (unit_sz | size) -> n <= size -> J (init size max).
Proof.
  intros H1 H2 H3. split; [apply inv_init_lemma; assumption|]. split.
  - unfold ogrid, init. cbn [heaps]. constructor; [|constructor].
    unfold ogrid_h, heap_objs, make_heap. cbn [hnodes nodes_objs run_objs nrun app]. constructor.
  - unfold big, init. cbn [heaps map make_heap hsize]. constructor; [exact H3|constructor].
Qed.

(** ================================================================== the slow path of the class: bytes not freed *)
Definition obj_total (st : state) : Z := sumZ (map (fun h => obj_bytes (heap_objs h)) (heaps st)).

Lemma obj_split l : obj_bytes l = obj_bytes (surv l) + dead_bytes l.
Proof.
  induction l as [|[[o s] m] l IH]; [reflexivity|].
  unfold surv, obj_bytes, dead_bytes in *. cbn [filter fold_right fst snd].
  destruct m; cbn [map fold_right fst snd]; lia.
Qed.

Lemma sum_split : forall hs, sumZ (map (fun h => obj_bytes (heap_objs h)) hs)
  = sumZ (map (fun o => obj_bytes (surv o)) (map heap_objs hs)) + fold_right (fun h a => dead_bytes (heap_objs h) + a) 0 hs.
Proof.
  induction hs as [|h hs IH]; [reflexivity|]. cbn [map sumZ fold_right] in *. unfold sumZ in *. rewrite IH, (obj_split (heap_objs h)). lia.
Qed.

Lemma state_small : forall hs, Forall heap_inv hs -> Forall ogrid_h hs ->
  (forall h m, In h hs -> In m (tl (hnodes h)) -> nsize m < n) ->
  0 <= sumZ (map free_bytes hs) <= n * Z.of_nat (length hs).
Proof.
  induction hs as [|h hs IH]; intros Hi Hg Hsm; [cbn; lia|].
  inversion Hi as [|? ? Hih Hi']; subst. inversion Hg as [|? ? Hgh Hg']; subst.
  pose proof (heap_small h Hih Hgh (fun m Hm => Hsm h m (or_introl eq_refl) Hm)) as H1.
  assert (H2 := IH Hi' Hg' (fun h0 m Hh Hm => Hsm h0 m (or_intror Hh) Hm)).
  cbn [map sumZ fold_right length]. unfold sumZ in *. rewrite Nat2Z.inj_succ. lia.
Qed.

Lemma no_fit_small st : try_alloc st n = None -> forall h m, In h (heaps st) -> In m (tl (hnodes h)) -> nsize m < n.
Proof.
  intros Hnone h m Hh Hm. destruct (Z.lt_ge_cases (nsize m) n) as [H|H]; [exact H|exfalso].
  apply (alloc_reuses_lemma st n); [|exact Hnone]. exists h, m. repeat split; assumption.
Qed.

(** THE step: at a slow path of the class, "bytes not freed" = headers + survivors + the free bytes there were
    before the collection, and those are fewer than n per segment *)
Lemma slow_retained st mss st1 mf sf : J st -> try_alloc st n = None -> gc st mss = Some (st1, mf, sf) ->
  total_size st1 - sf <= obj_total st1 + (hdr_sz + n) * Z.of_nat (length (heaps st1)).
Proof.
  intros (HI & Hg & Hb) Hnone Hgc.
  destruct (gc_inv_lemma _ _ _ _ _ HI Hgc) as (HI1 & Hsz1 & _).
  destruct HI as (Hne & Hall & Hum). unfold gc in Hgc.
  destruct (mark_heaps (heaps st) mss) as [l|] eqn:E; [|discriminate].
  destruct (mark_heaps_inv _ _ _ Hall E) as [Hi Hsz]. destruct (mark_heaps_grid _ _ _ E) as [_ Hfree].
  assert (Hne' : l <> []) by (intros ->; destruct (heaps st); [congruence|discriminate]).
  destruct (sweep_free_bytes_lemma (State l (max_size st)) st1 mf sf Hne' Hi Hgc) as [Hf Hsf].
  cbn [heaps] in Hf.
  pose proof (heaps_bytes l Hi) as Hbl. rewrite (sum_split l) in Hbl.
  destruct HI1 as (Hne1 & Hall1 & _). pose proof (heaps_bytes (heaps st1) Hall1) as Hb1.
  pose proof (state_small (heaps st) Hall Hg (no_fit_small st Hnone)) as Hsmall.
  assert (Hlen1 : length (heaps st1) = length (heaps st)).
  { rewrite <- (map_length hsize (heaps st1)), Hsz1, map_length. reflexivity. }
  assert (Hlenl : length l = length (heaps st)).
  { rewrite <- (map_length hsize l), Hsz, map_length. reflexivity. }
  rewrite (total_size_sum st1). rewrite (total_size_sum (State l (max_size st))) in Hf. cbn [heaps] in Hf.
  unfold state_free, live_bytes, state_objs, all_dead_bytes, obj_total in *. cbn [heaps] in *.
  rewrite Hfree in Hbl. rewrite Hlenl in *. rewrite Hlen1 in *.
  set (k := Z.of_nat (length (heaps st))) in *. lia.
Qed.

Definition live_step (Lv K : Z) (st : state) (o : op) : Prop :=
  match o with
  | OGc _ => True
  | OAlloc size mss => size = n /\
      (try_alloc st size = None -> forall st1 mf sf, gc st mss = Some (st1, mf, sf) ->
         obj_total st1 <= Lv /\ Z.of_nat (length (heaps st1)) <= K)
  end.

(** the premise about the PROGRAM: every request has the class's size, and whenever the slow path collects, the
    survivors total at most Lv bytes (live data bounded) while the heap has at most K segments *)
Fixpoint live_hist (Lv K : Z) (st : state) (ops : list op) : Prop :=
  match ops with
  | [] => True
  | o :: t => live_step Lv K st o /\ live_hist Lv K (step st o) t
  end.

Lemma last_in_forall (P : Z -> Prop) : forall hs d, hs <> [] -> Forall P (map hsize hs) -> P (hsize (last hs d)).
Proof.
  induction hs as [|h hs IH]; intros d Hne HF; [congruence|]. cbn [map] in HF. inversion HF as [|? ? Hh HF']; subst.
  destruct hs as [|h2 hs2]; [exact Hh|]. change (last (h :: h2 :: hs2) d) with (last (h2 :: hs2) d).
  apply IH; [discriminate|exact HF'].
Qed.

Lemma step_ok_class Lv K st o : J st -> live_step Lv K st o -> step_ok (Lv + (hdr_sz + n) * K) st o.
Proof.
  intros HJ Hl. destruct o as [size mss|mss]; cbn [step_ok live_step] in *; [|exact I].
  destruct Hl as [-> Hl]. intros Hnone st1 mf sf Hgc.
  destruct (Hl Hnone st1 mf sf Hgc) as [HLv HK].
  pose proof (slow_retained st mss st1 mf sf HJ Hnone Hgc) as Hret.
  destruct HJ as (HI & Hg & Hb).
  destruct (gc_inv_lemma _ _ _ _ _ HI Hgc) as (HI1 & Hsz1 & _).
  split; [|split].
  - eapply single_class_fit_lemma; [lia| |exact Hgc].
    destruct HI as (_ & Hall & _). clear -Hall Hg Hn Hnu. unfold ogrid in Hg.
    induction Hall as [|h hs Hh _ IH]; [constructor|]. inversion Hg; subst. constructor; [apply heap_ge_of_grid; assumption|apply IH; assumption].
  - pose proof hdr_pos. assert ((hdr_sz + n) * Z.of_nat (length (heaps st1)) <= (hdr_sz + n) * K) by (apply Z.mul_le_mono_nonneg_l; lia). lia.
  - destruct HI1 as (Hne1 & _). apply (last_in_forall (fun z => n <= z)); [exact Hne1|]. rewrite Hsz1. exact Hb.
Qed.

(** job 2: [hist_ok] DERIVED for single-size-class histories *)
Theorem single_class_hist_ok_lemma Lv K : forall ops st, J st -> Forall class_op ops -> live_hist Lv K st ops ->
  hist_ok (Lv + (hdr_sz + n) * K) st ops.
Proof.
  induction ops as [|o ops IH]; intros st HJ Hc Hl; [exact I|].
  inversion Hc as [|? ? Hco Hc']; subst. cbn [live_hist hist_ok] in *. destruct Hl as [Hl1 Hl2].
  split; [apply step_ok_class; assumption|]. apply IH; [apply step_J; assumption|exact Hc'|exact Hl2].
Qed.

Lemma class_req_ok o : class_op o -> req_ok o.
Proof. destruct o as [size mss|mss]; cbn [class_op req_ok]; [intros ->; split; assumption|auto]. Qed.

(** ... and with it the heap bound, from a fresh heap, in terms of the program's live data only (plus the
    per-segment overhead header + tail < hdr + n): total <= max(initial, (1+FACTOR)/RATIO * (Lv + (hdr+n)*K)) *)
Theorem heap_bounded_single_class_lemma size0 max Lv K ops :
  hdr_sz < size0 -> (unit_sz | size0) -> n <= size0 ->
  Forall class_op ops -> live_hist Lv K (init size0 max) ops ->
  ratio_num * total_size (fold_left step ops (init size0 max))
  <= Z.max (ratio_num * size0) ((1 + factor_num) * ratio_den * (Lv + (hdr_sz + n) * K)).
Proof.
  intros H1 H2 H3 Hc Hl. pose proof (init_J size0 max H1 H2 H3) as HJ.
  pose proof (heap_bounded_partial_lemma (Lv + (hdr_sz + n) * K) (init size0 max) ops (proj1 HJ)
                (Forall_impl _ class_req_ok Hc) (single_class_hist_ok_lemma Lv K ops _ HJ Hc Hl)) as HB.
  unfold total_size at 2 in HB. cbn [init heaps fold_right make_heap hsize] in HB. rewrite Z.add_0_r in HB. exact HB.
Qed.

End OneClass.

(** Example: the hypotheses are satisfiable on a history with a real slow path.  A 256-byte segment holds three
    64-byte objects and a 32-byte tail; the fourth request finds no chunk, the collection keeps one object (64
    bytes <= Lv = 128) in one segment (<= K = 2), frees two, and the request is served from the freed chunk. *)
Definition ex_ops : list op := [OAlloc 64 [[]]; OAlloc 64 [[]]; OAlloc 64 [[]]; OAlloc 64 [[32]]; OGc [[32]]].

Example ex_live_hist : live_hist 64 128 2 (init 256 0) ex_ops.
Proof.
  unfold ex_ops. cbn [live_hist].
  repeat (split; [first [exact I | split; [reflexivity|]; intros Hnone; first [vm_compute in Hnone; discriminate |
     intros st1 mf sf Hgc; vm_compute in Hgc; injection Hgc as <- _ _; vm_compute; split; discriminate]]|]).
  exact I.
Qed.

Example ex_slow_path_taken :
  try_alloc (fold_left step (firstn 3 ex_ops) (init 256 0)) 64 = None /\
  total_size (fold_left step ex_ops (init 256 0)) = 256.
Proof. vm_compute. split; reflexivity. Qed.

Example ex_single_class_bound :
  ratio_num * total_size (fold_left step ex_ops (init 256 0))
  <= Z.max (ratio_num * 256) ((1 + factor_num) * ratio_den * (128 + (hdr_sz + 64) * 2)).
Proof.
  apply (heap_bounded_single_class_lemma 64); try reflexivity; try (vm_compute; discriminate).
  - exists 2. reflexivity.
  - exists 8. reflexivity.
  - unfold ex_ops. repeat constructor.
  - exact ex_live_hist.
Qed.
