From Coq Require Import ExtrOcamlBasic.
From ChibiV Require Import Common.ExtractBase C07.Env C07.Expand C07.Strip C07.Template.
Extraction "model.ml" ext_base env_cell identifier_eq strip id_name idp rename inst expand resolve analyze swapU extend_synclo_env enter_fv enter_env contains strip_b strip_synclos strip_spec has_clo hgt compile eval expand_template.
