From Coq Require Import ExtrOcamlBasic.
From ChibiV Require Import Common.ExtractBase C07.Env C07.Expand.
Extraction "model.ml" ext_base env_cell identifier_eq strip id_name idp rename inst expand resolve analyze swapU.
