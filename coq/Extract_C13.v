From Coq Require Import ExtrOcamlBasic.
From ChibiV Require Import Common.ExtractBase C13.Res.
Extraction "model.ml" ext_base rtrace rw0 rstep rrun observe.
