From Coq Require Import ExtrOcamlBasic.
From ChibiV Require Import Common.ExtractBase C13.Res C13.Sig C13.Tab.
Extraction "model.ml" ext_base rtrace rw0 rstep rrun observe strace sw0 sstep srun ttrace tw0 tstep trun ctx_closed ctxs_disjoint.
