(** C17 proofs, part 3: arithmetic_shift is floor (x * 2^c). *)
From ChibiV Require Import Common.Words C17.Bits C17.Model C17.Spec C17.Proofs C17.ProofsOps.
Local Open Scope Z_scope.

(** * pure arithmetic with B = p * q kept abstract *)
Lemma split_mul p q x : 0 < p -> 0 < q -> 0 <= x < p * q ->
  (x * p) mod (p * q) = (x mod q) * p /\ 0 <= x / q < p.
Proof.
  intros Hp Hq Hx. split.
  - symmetry. apply Z.mod_unique with (q := x / q).
    + left. pose proof (Z.mod_pos_bound x q Hq). nia.
    + pose proof (Z.div_mod x q ltac:(lia)). nia.
  - split; [apply Z.div_pos; lia|apply Z.div_lt_upper_bound; lia].
Qed.

Lemma pq_B bs : 0 <= bs <= 64 -> B = 2 ^ bs * 2 ^ (64 - bs).
Proof. intros H. rewrite <- Z.pow_add_r by lia. replace (bs + (64 - bs)) with 64 by lia. exact B_eq. Qed.

(** * left shift loop *)
Lemma shl_loop_spec bs : 0 <= bs < 64 -> forall l t, words l -> 0 <= t < 2 ^ bs ->
  val (shl_loop bs l t) = val l * 2 ^ bs + t /\ words (shl_loop bs l t).
Proof.
  intros Hbs. pose proof (pq_B bs ltac:(lia)) as HB.
  assert (0 < 2 ^ bs) as Hp by (apply Z.pow_pos_nonneg; lia).
  assert (0 < 2 ^ (64 - bs)) as Hq by (apply Z.pow_pos_nonneg; lia).
  set (p := 2 ^ bs) in *. set (q := 2 ^ (64 - bs)) in *.
  induction l as [|x r IH]; intros t Hw Ht; cbn [shl_loop val]; fold p; fold q.
  - split; [lia|]. constructor; [|constructor]. unfold isword. rewrite HB. nia.
  - inversion Hw as [|? ? Hx Hr]; subst. unfold isword in Hx.
    destruct (Z.eqb_spec bs 0) as [E|E].
    + assert (p = 1) as Hp1 by (unfold p; rewrite E; reflexivity).
      assert (t = 0) as -> by lia.
      destruct (IH 0 Hr ltac:(lia)) as (Hv & Hw').
      rewrite Hv, Hp1. rewrite Z.mul_1_r, Z.add_0_r, Z.mod_mod, Z.mod_small by lia.
      split; [ring|]. constructor; [exact Hx|exact Hw'].
    + rewrite HB in Hx. destruct (split_mul p q x Hp Hq Hx) as (Hm & Hd).
      destruct (IH (x / q) Hr Hd) as (Hv & Hw').
      pose proof (Z.mod_pos_bound x q Hq) as Hxq. pose proof (Z.div_mod x q ltac:(lia)) as Hdm.
      assert (((x * p) mod B + t) mod B = (x mod q) * p + t) as Ew.
      { rewrite HB, Hm. rewrite Z.mod_small; [reflexivity|]. nia. }
      rewrite Ew, Hv. split; [rewrite HB; nia|].
      constructor; [|exact Hw']. unfold isword. rewrite HB. nia.
Qed.

(** * right shift loop *)
Lemma shr_loop_spec bs : 0 <= bs < 64 -> forall l, words l ->
  val (fst (shr_loop bs l)) = val l / 2 ^ bs /\ words (fst (shr_loop bs l))
  /\ length (fst (shr_loop bs l)) = length l
  /\ snd (shr_loop bs l) = (if bs =? 0 then 0 else (val l mod 2 ^ bs) * 2 ^ (64 - bs)).
Proof.
  intros Hbs. pose proof (pq_B bs ltac:(lia)) as HB.
  assert (0 < 2 ^ bs) as Hp by (apply Z.pow_pos_nonneg; lia).
  assert (0 < 2 ^ (64 - bs)) as Hq by (apply Z.pow_pos_nonneg; lia).
  set (p := 2 ^ bs) in *. set (q := 2 ^ (64 - bs)) in *.
  induction l as [|x r IH]; intros Hw; cbn [shr_loop].
  - cbn [fst snd val length]. rewrite Z.div_0_l, Z.mod_0_l by lia.
    repeat split; [constructor|destruct (bs =? 0); reflexivity].
  - inversion Hw as [|? ? Hx Hr]; subst. unfold isword in Hx.
    destruct (IH Hr) as (Hv & Hw' & Hl & Ht).
    destruct (shr_loop bs r) as [r' t]. cbn [fst snd] in *. cbn [val length]. fold p; fold q.
    destruct (Z.eqb_spec bs 0) as [E|E].
    + assert (p = 1) as Hp1 by (unfold p; rewrite E; reflexivity).
      subst t. rewrite Hp1 in *. rewrite !Z.div_1_r in *. rewrite Z.add_0_r, Z.mod_small by lia.
      repeat split; try lia. constructor; assumption.
    + pose proof (Z.mod_pos_bound (val r) p Hp) as Hrp. pose proof (Z.div_mod (val r) p ltac:(lia)) as Hdm.
      assert (0 <= x / p < q) as Hxp.
      { split; [apply Z.div_pos; lia|apply Z.div_lt_upper_bound; [lia|rewrite <- HB; lia]]. }
      assert ((x / p + t) mod B = x / p + t) as Ew by (apply Z.mod_small; rewrite HB; nia).
      rewrite Ew. repeat split.
      * (* value *)
        replace (x + B * val r) with (x + (q * val r) * p) by (rewrite HB; ring).
        rewrite Z.div_add by lia. rewrite Hv, Ht, HB. nia.
      * constructor; [|exact Hw']. unfold isword. split; [lia|]. rewrite HB. nia.
      * lia.
      * (* new tmp: the dropped bits of the lowest word *)
        replace (x + B * val r) with (x + (q * val r) * p) by (rewrite HB; ring).
        rewrite Z_mod_plus_full.
        rewrite HB. rewrite Z.mul_mod_distr_r by lia. reflexivity.
Qed.

(** * is any dropped bit set? *)
Lemma sticky_zero l : forall t, words l -> 0 <= t -> (sticky l t = 0 <-> t = 0 /\ val l = 0).
Proof.
  induction l as [|x r IH]; intros t Hw Ht; cbn [sticky val].
  - split; [intros ->; auto|tauto].
  - inversion Hw as [|? ? Hx Hr]; subst. unfold isword in Hx.
    pose proof (val_nonneg r Hr). pose proof B_pos.
    destruct (Z.eqb_spec t 0) as [->|Hne].
    + rewrite (IH x Hr ltac:(lia)). split; intros [A C]; split; auto; nia.
    + split; [intros; lia|intros [A _]; lia].
Qed.

(** * sexp_bignum_fxadd by one *)
Lemma fxadd_one a : words a -> a <> [] ->
  val (fxadd a 1) = val a + 1 /\ words (fxadd a 1) /\ fxadd a 1 <> [].
Proof.
  intros Hw Hne. unfold fxadd. set (h := hi a).
  pose proof (firstn_strip_val a Hw) as Hf. fold h in Hf.
  pose proof (val_firstn_skipn h a) as Hs.
  assert (length (firstn h a) = h) as Lh by (apply firstn_length_le; apply hi_le_length; exact Hne).
  rewrite Lh in Hs.
  pose proof (val_nonneg _ (words_skipn h a Hw)) as Hk. pose proof (pow_B_pos h) as HP.
  assert (val (skipn h a) = 0) as Hz by nia.
  destruct (add_small_spec (firstn h a) 1 (words_firstn h a Hw) ltac:(lia)) as (Hv & Hw' & Hl & Hc).
  destruct (add_small (firstn h a) 1) as [r c]. cbn [fst snd] in *.
  rewrite Lh in Hv, Hl.
  assert (c = 0 \/ c = 1) as [-> | ->] by lia.
  - change (0 =? 0) with true. cbv iota. rewrite val_app, Hz. repeat split.
    + lia.
    + apply words_app; [exact Hw'|apply words_skipn; exact Hw].
    + intros E. apply app_eq_nil in E. destruct E as [-> _]. cbn [length] in Hl.
      pose proof (hi_ge1 a). fold h in H. lia.
  - change (1 =? 0) with false. cbv iota. rewrite val_app, Hl. cbn [val]. repeat split.
    + lia.
    + apply words_app; [exact Hw'|]. constructor; [|constructor]. unfold isword. pose proof Bge2. lia.
    + intros E. apply app_eq_nil in E. destruct E as [_ E]. discriminate.
Qed.

(** * the bignum branch *)
Lemma pow2_split c : 0 <= c ->
  let off := Z.to_nat (c / 64) in let bs := c - Z.of_nat off * 64 in
  0 <= bs < 64 /\ 2 ^ c = B ^ Z.of_nat off * 2 ^ bs.
Proof.
  intros Hc off bs. pose proof (Z.div_mod c 64 ltac:(lia)) as Hd. pose proof (Z.mod_pos_bound c 64 ltac:(lia)) as Hm.
  assert (0 <= c / 64) as Hq by (apply Z.div_pos; lia).
  assert (Z.of_nat off = c / 64) as Ho by (unfold off; rewrite Z2Nat.id; lia).
  assert (bs = c mod 64) as Hb by (unfold bs; lia).
  split; [lia|].
  rewrite B_eq, <- Z.pow_mul_r, <- Z.pow_add_r by lia. f_equal. lia.
Qed.

Lemma wfb_nonneg s ws : wfb s ws -> 0 <= val ws /\ (s = 1 \/ s = -1 /\ 0 < val ws).
Proof.
  intros (Hs & Hw & Hne & Hp). split; [apply val_nonneg; exact Hw|].
  destruct Hs as [-> | ->]; [left; reflexivity|right; split; [reflexivity|apply Hp; reflexivity]].
Qed.

Lemma shift_left_ok s ws c : wfb s ws -> 0 < c ->
  ival (shift_big s ws c) = (s * val ws) * 2 ^ c.
Proof.
  intros Hwf Hc. pose proof Hwf as (Hs & Hw & Hne & Hp).
  unfold shift_big. destruct (Z.ltb_spec c 0) as [|_]; [lia|]. cbv zeta.
  destruct (pow2_split c ltac:(lia)) as (Hbs & Hpow). cbv zeta in Hbs, Hpow.
  set (off := Z.to_nat (c / 64)) in *. set (bs := c - Z.of_nat off * 64) in *.
  assert (0 < 2 ^ bs) as Hp2 by (apply Z.pow_pos_nonneg; lia).
  destruct (shl_loop_spec bs Hbs (firstn (hi ws) ws) 0 (words_firstn _ _ Hw) ltac:(lia)) as (Hv & Hw').
  rewrite firstn_strip_val in Hv by exact Hw.
  rewrite normalize_ival.
  - rewrite val_app, val_repeat0, repeat_length, Hv, Hpow. ring.
  - apply words_app; [apply words_repeat0|exact Hw'].
  - intros E. apply app_eq_nil in E. destruct E as [_ E].
    destruct (firstn (hi ws) ws); discriminate.
Qed.

Lemma div_small_neg m D : 0 < m < D -> (- m) / D = -1.
Proof. intros H. symmetry. apply Z.div_unique with (r := D - m); lia. Qed.

Lemma shift_right_ok s ws c : wfb s ws -> c < 0 ->
  ival (shift_big s ws c) = (s * val ws) / 2 ^ (- c).
Proof.
  intros Hwf Hc. pose proof Hwf as (Hs & Hw & Hne & Hp).
  destruct (wfb_nonneg s ws Hwf) as (Hm0 & Hsm).
  unfold shift_big. destruct (Z.ltb_spec c 0) as [_|]; [|lia]. cbv zeta.
  destruct (pow2_split (- c) ltac:(lia)) as (Hbs & Hpow). cbv zeta in Hbs, Hpow.
  set (off := Z.to_nat (- c / 64)) in *. set (bs := - c - Z.of_nat off * 64) in *.
  set (len := hi ws). set (m := val ws) in *. set (D := 2 ^ (- c)) in *.
  pose proof (pow_B_pos off) as HP. set (P := B ^ Z.of_nat off) in *.
  assert (0 < 2 ^ bs) as Hp2 by (apply Z.pow_pos_nonneg; lia). set (p := 2 ^ bs) in *.
  assert (len <= length ws)%nat as Hll by (apply hi_le_length; exact Hne).
  destruct (Nat.ltb_spec len off) as [Hlt|Hge].
  - (* everything is shifted out *)
    assert (m < P) as HmP.
    { pose proof (val_lt_pow_hi ws Hw) as Hb. fold len in Hb. fold m in Hb.
      eapply Z.lt_le_trans; [exact Hb|]. apply Z.pow_le_mono_r; [exact B_pos|lia]. }
    assert (m < D) as HmD by nia.
    destruct Hsm as [-> | [-> Hpos]]; cbn [ival].
    + change (1 >? 0) with true. cbv iota. rewrite Z.mul_1_l. symmetry. apply Z.div_small. lia.
    + change (-1 >? 0) with false. cbv iota. replace (-1 * m) with (- m) by lia.
      symmetry. apply div_small_neg. lia.
  - (* the kept words *)
    set (W := firstn len ws).
    assert (val W = m) as HW by (apply firstn_strip_val; exact Hw).
    assert (length W = len) as LW by (apply firstn_length_le; exact Hll).
    assert (firstn (len - off) (skipn off ws) = skipn off W) as EK.
    { rewrite firstn_skipn_comm. replace (off + (len - off))%nat with len by lia. reflexivity. }
    assert (firstn off ws = firstn off W) as Elo.
    { unfold W. rewrite firstn_firstn. replace (Nat.min off len) with off by lia. reflexivity. }
    rewrite EK, Elo.
    assert (words W) as WW by (apply words_firstn; exact Hw).
    pose proof (val_firstn_skipn off W) as Hsplit.
    rewrite firstn_length_le in Hsplit by lia. fold P in Hsplit. rewrite HW in Hsplit.
    pose proof (val_bound _ (words_firstn off W WW)) as Hlo1. rewrite firstn_length_le in Hlo1 by lia. fold P in Hlo1.
    pose proof (val_nonneg _ (words_firstn off W WW)) as Hlo0.
    pose proof (val_nonneg _ (words_skipn off W WW)) as HK0.
    set (vlo := val (firstn off W)) in *. set (vK := val (skipn off W)) in *.
    destruct (shr_loop_spec bs Hbs (skipn off W) (words_skipn off W WW)) as (Hv & Hw' & Hl & Ht).
    destruct (shr_loop bs (skipn off W)) as [r t]. cbn [fst snd] in *. fold vK in Hv, Ht. fold p in Hv, Ht.
    assert (m / P = vK) as HmP.
    { rewrite Hsplit, (Z.mul_comm P vK), Z.div_add by lia. rewrite Z.div_small by lia. lia. }
    assert (m mod P = vlo) as HmodP.
    { rewrite Hsplit, (Z.mul_comm P vK), Z_mod_plus_full. apply Z.mod_small. lia. }
    assert (m / D = vK / p) as HmD.
    { rewrite Hpow, <- Z.div_div by lia. rewrite HmP. reflexivity. }
    assert (m mod D = vlo + P * (vK mod p)) as HmodD.
    { rewrite Hpow, Z.rem_mul_r by lia. rewrite HmodP, HmP. reflexivity. }
    pose proof (Z.mod_pos_bound vK p Hp2) as HKp.
    assert (0 <= t /\ (t = 0 <-> vK mod p = 0)) as (Ht0 & Htz).
    { destruct (Z.eqb_spec bs 0) as [E|E].
      - subst t. split; [lia|]. assert (p = 1) as -> by (unfold p; rewrite E; reflexivity).
        rewrite Z.mod_1_r. tauto.
      - assert (0 < 2 ^ (64 - bs)) as Hq by (apply Z.pow_pos_nonneg; lia). subst t. split; nia. }
    assert (words (r ++ [0])) as Wr by (apply words_ext0; exact Hw').
    assert (r ++ [0] <> []) as Nr by (destruct r; discriminate).
    pose proof (sticky_zero (firstn off W) t (words_firstn off W WW) Ht0) as Hst. fold vlo in Hst.
    destruct Hsm as [-> | [-> Hpos]].
    + change (1 <? 0) with false. cbv iota. rewrite normalize_ival by assumption.
      rewrite val_ext0, Hv, !Z.mul_1_l. symmetry. exact HmD.
    + change (-1 <? 0) with true. cbv iota. replace (-1 * m) with (- m) by lia.
      destruct (Z.eqb_spec (sticky (firstn off W) t) 0) as [E|E].
      * apply Hst in E. destruct E as (E1 & E2).
        rewrite normalize_ival by assumption. rewrite val_ext0, Hv.
        rewrite Z_div_zero_opp_full; [rewrite HmD; lia|]. rewrite HmodD. apply Htz in E1. rewrite E1, E2. lia.
      * destruct (fxadd_one (r ++ [0]) Wr Nr) as (Fv & Fw & Fn).
        rewrite normalize_ival by assumption. rewrite Fv, val_ext0, Hv.
        rewrite Z_div_nz_opp_full; [rewrite HmD; lia|unfold D; apply Z.pow_nonzero; lia|]. rewrite HmodD. intros Z0. apply E. apply Hst.
        assert (0 <= P * (vK mod p)) as Hnn by (apply Z.mul_nonneg_nonneg; lia).
        assert (vlo = 0) as A by lia.
        assert (P * (vK mod p) = 0) as C0 by lia. apply Z.mul_eq_0 in C0.
        assert (vK mod p = 0) as C by lia. split; [apply Htz; exact C|exact A].
Qed.

(** * log2i and the fixnum branch *)
Lemma log2i_loop_spec fuel : forall i v, 0 <= i ->
  i <= log2i_loop fuel i v <= i + Z.of_nat fuel /\
  (log2i_loop fuel i v < i + Z.of_nat fuel -> v < 2 ^ (log2i_loop fuel i v + 1)).
Proof.
  induction fuel as [|f IH]; intros i v Hi; cbn [log2i_loop].
  - split; lia.
  - destruct (Z.gtb_spec (2 ^ (i + 1)) v) as [Hgt|Hle].
    + split; [lia|]. intros _. lia.
    + destruct (IH (i + 1) v ltac:(lia)) as (A & C). split; [lia|]. intros H. apply C. lia.
Qed.

Lemma FIXMAX_eq : FIXMAX = 2 ^ 62 - 1.  Proof. reflexivity. Qed.

Lemma shift_fix_small z c : - FIXMAX - 1 <= z <= FIXMAX -> 0 < c -> log2i (z mod B) + c + 1 <? 63 = true ->
  ((z mod B) * 2 ^ c) mod B * (if z <? 0 then -1 else 1) = z * 2 ^ c.
Proof.
  intros Hz Hc Hl. apply Z.ltb_lt in Hl. unfold log2i in Hl.
  destruct (log2i_loop_spec 64 0 (z mod B) ltac:(lia)) as (Hr & Hb).
  set (r := log2i_loop 64 0 (z mod B)) in *.
  specialize (Hb ltac:(lia)). pose proof FIX_lt_B as HF. pose proof FIXMAX_eq as HE.
  assert (0 <= z) as Hz0.
  { destruct (Z.ltb_spec z 0) as [Hneg|]; [|lia]. exfalso.
    assert (z mod B = z + B) as E by (symmetry; apply Z.mod_unique with (q := -1); lia).
    rewrite E in Hb.
    assert (2 ^ (r + 1) <= 2 ^ 62) as Hle by (apply Z.pow_le_mono_r; lia).
    assert (B = 2 ^ 62 * 4) as HB4 by (rewrite B_eq; reflexivity). lia. }
  destruct (Z.ltb_spec z 0); [lia|]. rewrite Z.mul_1_r.
  rewrite (Z.mod_small z B) in * by lia.
  apply Z.mod_small. split; [apply Z.mul_nonneg_nonneg; [lia|apply Z.pow_nonneg; lia]|].
  assert (z * 2 ^ c < 2 ^ (r + 1) * 2 ^ c) as H1.
  { apply Z.mul_lt_mono_pos_r; [apply Z.pow_pos_nonneg; lia|exact Hb]. }
  rewrite <- Z.pow_add_r in H1 by lia.
  assert (2 ^ (r + 1 + c) <= 2 ^ 62) as H2 by (apply Z.pow_le_mono_r; lia). lia.
Qed.

Theorem arithmetic_shift_ok x c : wf x ->
  ival (arithmetic_shift x c) = if c <? 0 then ival x / 2 ^ (- c) else ival x * 2 ^ c.
Proof.
  intros Hwf. unfold arithmetic_shift. destruct (Z.eqb_spec c 0) as [->|Hc0].
  - change (0 <? 0) with false. cbv iota. change (2 ^ 0) with 1. lia.
  - destruct x as [z|s ws]; cbn [wf ival] in *.
    + destruct (Z.ltb_spec c 0) as [Hneg|Hpos].
      * cbn [ival]. destruct (Z.gtb_spec c (-64)) as [|Hbig]; [reflexivity|].
        pose proof FIX_lt_B. assert (B <= 2 ^ (- c)) as HBc by (rewrite B_eq; apply Z.pow_le_mono_r; lia).
        destruct (Z.ltb_spec z 0) as [Hz|Hz].
        -- symmetry. rewrite <- (Z.opp_involutive z). apply div_small_neg. lia.
        -- symmetry. apply Z.div_small. lia.
      * destruct (log2i (z mod B) + c + 1 <? 63) eqn:El.
        -- cbn [ival]. apply shift_fix_small; [exact Hwf|lia|exact El].
        -- assert (wfb (if z <? 0 then -1 else 1) [Z.abs z]) as Hb.
           { pose proof FIX_lt_B. repeat split.
             - destruct (z <? 0); auto.
             - constructor; [unfold isword; lia|constructor].
             - discriminate.
             - destruct (Z.ltb_spec z 0); [intros _; cbn [val]; lia|discriminate]. }
           rewrite shift_left_ok by (exact Hb || lia). f_equal. cbn [val].
           destruct (Z.ltb_spec z 0); lia.
    + destruct (Z.ltb_spec c 0); [apply shift_right_ok|apply shift_left_ok]; auto; lia.
Qed.

Corollary arithmetic_shift_shiftl x c : wf x -> ival (arithmetic_shift x c) = Z.shiftl (ival x) c.
Proof.
  intros H. rewrite arithmetic_shift_ok by exact H. destruct (Z.ltb_spec c 0).
  - rewrite Z.shiftl_div_pow2 by lia. reflexivity.
  - rewrite Z.shiftl_mul_pow2 by lia. reflexivity.
Qed.

Example arithmetic_shift_witness :
  arithmetic_shift (Big (-1) [0; 1]) (-64) = Fix (-1) /\ arithmetic_shift (Big (-1) [1; 1]) (-64) = Fix (-2)
  /\ arithmetic_shift (Fix (-5)) (-64) = Fix (-1).
Proof. vm_compute. auto. Qed.
