(** C17 proofs, part 6: bit_count.  The borrow loop over the words is proved for all inputs; the SWAR
    population count of one 64-bit word (bit_count_w, bit.c:319-326) is a premise here (it is compared
    with the C leaf and with Python's popcount on thousands of words by the inner correspondence). *)
From ChibiV Require Import Common.Words C17.Bits C17.Model C17.Spec C17.Proofs C17.ProofsOps.
Local Open Scope Z_scope.

Definition swar_correct : Prop := forall w, isword w -> bit_count_w w = Zpopcount w.

Lemma Zpopcount_double b n : 0 <= n -> (b = 0 \/ b = 1) -> Zpopcount (b + 2 * n) = b + Zpopcount n.
Proof. intros Hn [-> | ->]; destruct n as [|p|p]; try lia; reflexivity. Qed.

Lemma Zpopcount_nonneg n : 0 <= Zpopcount n.
Proof.
  destruct n as [|p|p]; cbn [Zpopcount]; try lia.
  induction p; cbn [pos_popcount]; lia.
Qed.

Lemma Zpopcount_digit_gen (k : nat) : forall x t, 0 <= x < 2 ^ Z.of_nat k -> 0 <= t ->
  Zpopcount (x + 2 ^ Z.of_nat k * t) = Zpopcount x + Zpopcount t.
Proof.
  induction k as [|k IH]; intros x t Hx Ht.
  - change (2 ^ Z.of_nat 0) with 1 in *. assert (x = 0) as -> by lia. rewrite Z.mul_1_l. reflexivity.
  - rewrite Nat2Z.inj_succ, Z.pow_succ_r in * by lia.
    pose proof (Z.div_mod x 2 ltac:(lia)) as Hd. pose proof (Z.mod_pos_bound x 2 ltac:(lia)) as Hm.
    assert (0 <= x / 2 < 2 ^ Z.of_nat k) as Hq by (split; [apply Z.div_pos; lia|apply Z.div_lt_upper_bound; lia]).
    assert (0 < 2 ^ Z.of_nat k) as Hp by (apply Z.pow_pos_nonneg; lia).
    replace (x + 2 * 2 ^ Z.of_nat k * t) with (x mod 2 + 2 * (x / 2 + 2 ^ Z.of_nat k * t)) by lia.
    rewrite Zpopcount_double by (try nia; lia). rewrite IH by lia.
    rewrite Hd at 3. rewrite (Z.add_comm (2 * (x / 2))), Zpopcount_double by lia. lia.
Qed.

Lemma Zpopcount_digit x t : isword x -> 0 <= t -> Zpopcount (x + B * t) = Zpopcount x + Zpopcount t.
Proof. rewrite isword_pow, B_eq. intros. apply (Zpopcount_digit_gen 64); assumption. Qed.

Lemma bc_loop_0 (Hleaf : swar_correct) l : words l -> bc_loop l 0 = Zpopcount (val l).
Proof.
  induction 1 as [|x r Hx Hr IH]; cbn [bc_loop val]; [reflexivity|].
  change (0 =? 0) with true. cbn [negb andb]. rewrite IH.
  rewrite Z.sub_0_r, Z.mod_small by exact Hx. rewrite Hleaf by exact Hx.
  rewrite Zpopcount_digit by (try apply val_nonneg; assumption). reflexivity.
Qed.

Lemma bc_loop_1 (Hleaf : swar_correct) l : words l -> 0 < val l -> bc_loop l 1 = Zpopcount (val l - 1).
Proof.
  induction 1 as [|x r Hx Hr IH]; cbn [bc_loop val]; [lia|]. intros Hpos.
  change (1 =? 0) with false. cbn [negb andb]. pose proof WMAX_eq as HW. pose proof B_pos.
  pose proof (val_nonneg r Hr) as Hr0. unfold isword in Hx.
  destruct (Z.eqb_spec x 0) as [->|Hx0].
  - assert (0 < val r) as Hrp by nia. rewrite IH by exact Hrp.
    replace ((0 - 1) mod B) with WMAX by (symmetry; apply Z.mod_unique with (q := -1); lia).
    rewrite Hleaf by (unfold isword; lia).
    replace (0 + B * val r - 1) with (WMAX + B * (val r - 1)) by lia.
    rewrite Zpopcount_digit by (unfold isword; lia). reflexivity.
  - rewrite (bc_loop_0 Hleaf r Hr). rewrite Z.mod_small by lia. rewrite Hleaf by (unfold isword; lia).
    replace (x + B * val r - 1) with ((x - 1) + B * val r) by lia.
    rewrite Zpopcount_digit by (unfold isword; lia). reflexivity.
Qed.

Theorem bit_count_ok (Hleaf : swar_correct) x : wf x -> ival (bit_count x) = bit_count_spec (ival x).
Proof.
  intros Hwf. unfold bit_count_spec. destruct x as [z|s ws]; cbn [bit_count ival wf] in *.
  - pose proof FIX_lt_B. destruct (Z.ltb_spec z 0); apply Hleaf; unfold isword, Z.lnot; lia.
  - pose proof Hwf as (Hs & Hw & Hne & Hp). pose proof (val_nonneg ws Hw).
    destruct Hs as [-> | ->].
    + change (1 <? 0) with false. cbv iota. rewrite Z.mul_1_l.
      destruct (Z.ltb_spec (val ws) 0); [lia|]. apply bc_loop_0; assumption.
    + specialize (Hp eq_refl). change (-1 <? 0) with true. cbv iota.
      destruct (Z.ltb_spec (-1 * val ws) 0); [|lia].
      replace (Z.lnot (-1 * val ws)) with (val ws - 1) by (unfold Z.lnot; lia).
      apply bc_loop_1; assumption.
Qed.

(** the SWAR leaf on a few thousand words (not a proof of the premise; see the header) *)
Example swar_sample :
  forallb (fun w => bit_count_w w =? Zpopcount w)
    (map (fun k => 2 ^ Z.of_nat k) (seq 0 64) ++ map (fun k => 2 ^ Z.of_nat k - 1) (seq 0 65)
     ++ map (fun k => WMAX - 2 ^ Z.of_nat k) (seq 0 64) ++ map (fun k => 81985529216486895 * Z.of_nat k mod B) (seq 0 2000)) = true.
Proof. vm_compute. reflexivity. Qed.

Example bit_count_witness : bit_count (Big (-1) [0; 1]) = Fix 64 /\ bit_count (Big (-1) [0; 0; 4]) = Fix 130.
Proof. vm_compute. auto. Qed.

(** SRFI 151's definition via testbit: the count of set bits below any bound of a non-negative n *)
Fixpoint count_bits (k : nat) (n : Z) : Z :=
  match k with O => 0 | S k' => (if Z.testbit n (Z.of_nat k') then 1 else 0) + count_bits k' n end.

Lemma Zpopcount_testbit (k : nat) : forall n, 0 <= n < 2 ^ Z.of_nat k -> Zpopcount n = count_bits k n.
Proof.
  induction k as [|k IH]; intros n Hn.
  - change (2 ^ Z.of_nat 0) with 1 in Hn. assert (n = 0) as -> by lia. reflexivity.
  - cbn [count_bits].
    assert (0 < 2 ^ Z.of_nat k) as Hp by (apply Z.pow_pos_nonneg; lia).
    rewrite Nat2Z.inj_succ, Z.pow_succ_r in Hn by lia.
    pose proof (Z.div_mod n (2 ^ Z.of_nat k) ltac:(lia)) as Hd.
    pose proof (Z.mod_pos_bound n (2 ^ Z.of_nat k) Hp) as Hm.
    assert (0 <= n / 2 ^ Z.of_nat k < 2) as Hq by (split; [apply Z.div_pos; lia|apply Z.div_lt_upper_bound; lia]).
    set (lo := n mod 2 ^ Z.of_nat k) in *. set (t := n / 2 ^ Z.of_nat k) in *.
    clearbody lo t. clear Hn. rewrite Z.add_comm in Hd. subst n.
    assert (Z.testbit (lo + 2 ^ Z.of_nat k * t) (Z.of_nat k) = Z.testbit t 0) as Eb.
    { rewrite testbit_digit by lia.
      destruct (Z.ltb_spec (Z.of_nat k) (Z.of_nat k)); [lia|]. f_equal. lia. }
    assert (count_bits k (lo + 2 ^ Z.of_nat k * t) = count_bits k lo) as Ec.
    { clear IH. assert (forall j, (j <= k)%nat -> count_bits j (lo + 2 ^ Z.of_nat k * t) = count_bits j lo) as G.
      { induction j as [|j IHj]; intros Hj; [reflexivity|]. cbn [count_bits]. rewrite IHj by lia. f_equal.
        rewrite testbit_digit by lia.
        destruct (Z.ltb_spec (Z.of_nat j) (Z.of_nat k)); [reflexivity|lia]. }
      apply G. lia. }
    rewrite Eb, Ec, <- IH by lia. rewrite Zpopcount_digit_gen by lia.
    assert (t = 0 \/ t = 1) as [-> | ->] by lia.
    + change (Z.testbit 0 0) with false. change (Zpopcount 0) with 0. cbv iota. lia.
    + change (Z.testbit 1 0) with true. change (Zpopcount 1) with 1. cbv iota. lia.
Qed.
