(** C17 proofs, part 9: the procedures that (srfi 142) and (srfi 33) define themselves (regenerated from lib/srfi/142.sld and
    lib/srfi/33.sld by gen/c17_bitwise.py -> Gen/C17_Wrappers.v), with THEIR argument conventions. *)
From Coq Require Import ZArith List Lia Bool.
From ChibiV Require Import C17.Bits C17.Spec C17.SchemeBase Gen.C17_Bitwise Gen.C17_Wrappers C17.ProofsDerived.
Import ListNotations.
Local Open Scope Z_scope.

(** SRFI 142 (= SRFI 33's bitwise-merge): where the mask has a 1 the bit of the LAST operand *)
Theorem s142_bitwise_if_bits mask n m k : 0 <= k ->
  Z.testbit (s142_bitwise_if mask n m) k = if Z.testbit mask k then Z.testbit m k else Z.testbit n k.
Proof. intros Hk. unfold s142_bitwise_if. apply bitwise_if_bits. exact Hk. Qed.

Lemma s33_mask_ones len : s33_mask len = Z.ones len.
Proof. unfold s33_mask, Z.ones. lia. Qed.

Lemma s_ior2 a b : s_bitwise_ior [a; b] = Z.lor a b.
Proof. apply binary_ops. Qed.

(** SRFI 33 extract-bit-field size position n = bits position .. position+size-1 of n *)
Theorem s33_extract_bits size pos n k : 0 <= size -> 0 <= pos -> 0 <= k ->
  Z.testbit (s33_extract_bit_field size pos n) k = (k <? size) && Z.testbit n (k + pos).
Proof.
  intros Hs Hp Hk. unfold s33_extract_bit_field. rewrite s_and2, s33_mask_ones, Z.land_spec, Z.shiftl_spec, ones_bit by lia.
  replace (k - - pos) with (k + pos) by lia. apply andb_comm.
Qed.

Theorem s33_extract_field size pos n : s33_extract_bit_field size pos n = field n pos (pos + size).
Proof.
  unfold s33_extract_bit_field, field, Z.shiftr. rewrite s_and2, s33_mask_ones.
  replace (pos + size - pos) with size by lia. reflexivity.
Qed.

(** SRFI 33 replace-bit-field size position newfield n: inside the field the low [size] bits of newfield (whatever lies above
    them in newfield is dropped: fixes/C17-srfi33-replace-bit-field-mask.patch), outside the bits of n *)
Theorem s33_replace_bits size pos nf n k : 0 <= size -> 0 <= pos -> 0 <= k ->
  Z.testbit (s33_replace_bit_field size pos nf n) k
  = if inr pos (pos + size) k then Z.testbit nf (k - pos) else Z.testbit n k.
Proof.
  intros Hs Hp Hk. unfold s33_replace_bit_field.
  rewrite s_ior2, !s_and2, s_bitwise_not_lnot, s33_mask_ones, Z.lor_spec, Z.land_spec.
  rewrite Z.lnot_spec by lia.
  rewrite (Z.shiftl_spec (Z.ones size) pos k), (Z.shiftl_spec (Z.land nf (Z.ones size)) pos k) by lia.
  rewrite Z.land_spec.
  assert (Z.testbit (Z.ones size) (k - pos) = inr pos (pos + size) k) as ->.
  { destruct (inr_cases pos (pos + size) k) as [[-> H]|[-> H]].
    - rewrite ones_bit by lia. apply Z.ltb_lt. lia.
    - destruct (Z.ltb_spec k pos); [apply Z.testbit_neg_r; lia|]. rewrite ones_bit by lia. apply Z.ltb_ge. lia. }
  destruct (inr pos (pos + size) k), (Z.testbit n k), (Z.testbit nf (k - pos)); reflexivity.
Qed.

(** SRFI 33 copy-bit-field size position from to: the field of [to] replaced by the same field of [from] *)
Theorem s33_copy_bits size pos from to k : 0 <= size -> 0 <= pos -> 0 <= k ->
  Z.testbit (s33_copy_bit_field size pos from to) k
  = if inr pos (pos + size) k then Z.testbit from k else Z.testbit to k.
Proof.
  intros Hs Hp Hk. unfold s33_copy_bit_field. rewrite s142_bitwise_if_bits by lia.
  assert (Z.shiftl (s33_mask size) pos = s_range pos (pos + size)) as ->.
  { unfold s_range, s33_mask, s_mask. replace (pos + size - pos) with size by lia. reflexivity. }
  rewrite s_range_bit by lia. reflexivity.
Qed.


(** SRFI 33 test-bit-field? / clear-bit-field address the field by SIZE and POSITION (fixes/C17-srfi33-field-conventions.patch;
    the pinned 33.sld re-exported SRFI 151's start/end procedures under these names) *)
Theorem s33_test_bits size pos n : 0 <= size -> 0 <= pos ->
  s33_test_bit_field_p size pos n = false <-> forall k, pos <= k < pos + size -> Z.testbit n k = false.
Proof. intros Hs Hp. unfold s33_test_bit_field_p. apply bit_field_any_spec. lia. Qed.

Theorem s33_clear_bits size pos n k : 0 <= size -> 0 <= pos -> 0 <= k ->
  Z.testbit (s33_clear_bit_field size pos n) k = if inr pos (pos + size) k then false else Z.testbit n k.
Proof. intros Hs Hp Hk. unfold s33_clear_bit_field. apply clear_bits; lia. Qed.

Example s33_clear_witness : s33_clear_bit_field 4 0 255 = 240 /\ s33_test_bit_field_p 4 0 16 = false.
Proof. vm_compute. split; reflexivity. Qed.

Example s33_copy_witness : s33_copy_bit_field 8 60 (- 2 ^ 70 - 1) (2 ^ 100) = 2 ^ 100 + (2 ^ 68 - 2 ^ 60).
Proof. vm_compute. reflexivity. Qed.
Example s142_if_witness : s142_bitwise_if 1 1 2 = 0 /\ s_bitwise_if 1 1 2 = 3.
Proof. vm_compute. split; reflexivity. Qed.
