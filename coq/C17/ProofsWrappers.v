(** C17 proofs, part 9: the procedures that (srfi 142) and (srfi 33) define themselves (regenerated from lib/srfi/142.sld and
    lib/srfi/33.sld by gen/c17_bitwise.py -> Gen/C17_Wrappers.v), with THEIR argument conventions. *)
From Coq Require Import ZArith List Lia Bool.
From ChibiV Require Import C17.Bits C17.Spec C17.SchemeBase Gen.C17_Bitwise Gen.C17_Wrappers C17.ProofsDerived.
Import ListNotations.
Local Open Scope Z_scope.

(** SRFI 142 (= SRFI 33's bitwise-merge): where the mask has a 1 the bit of the LAST operand *)
Theorem s142_bitwise_if_bits mask n m k : 0 <= k ->
  Z.testbit (s142_bitwise_if mask n m) k = if Z.testbit mask k then Z.testbit m k else Z.testbit n k.
Proof. intros Hk. unfold s142_bitwise_if. apply bitwise_if_bits. exact Hk. Qed.

Lemma s33_mask_ones len : s33_mask len = Z.ones len.
Proof. unfold s33_mask, Z.ones. lia. Qed.

Lemma s_ior2 a b : s_bitwise_ior [a; b] = Z.lor a b.
Proof. apply binary_ops. Qed.

(** SRFI 33 extract-bit-field size position n = bits position .. position+size-1 of n *)
Theorem s33_extract_bits size pos n k : 0 <= size -> 0 <= pos -> 0 <= k ->
  Z.testbit (s33_extract_bit_field size pos n) k = (k <? size) && Z.testbit n (k + pos).
Proof.
  intros Hs Hp Hk. unfold s33_extract_bit_field. rewrite s_and2, s33_mask_ones, Z.land_spec, Z.shiftl_spec, ones_bit by lia.
  replace (k - - pos) with (k + pos) by lia. apply andb_comm.
Qed.

Theorem s33_extract_field size pos n : s33_extract_bit_field size pos n = field n pos (pos + size).
Proof.
  unfold s33_extract_bit_field, field, Z.shiftr. rewrite s_and2, s33_mask_ones.
  replace (pos + size - pos) with size by lia. reflexivity.
Qed.

(** SRFI 33 replace-bit-field size position newfield n: the field of n is cleared and newfield (shifted) or-ed in; for
    0 <= newfield < 2^size this is: inside the field the bits of newfield, outside those of n *)
Theorem s33_replace_bits size pos nf n k : 0 <= size -> 0 <= pos -> 0 <= k ->
  Z.testbit (s33_replace_bit_field size pos nf n) k
  = (if inr pos (pos + size) k then false else Z.testbit n k) || Z.testbit nf (k - pos).
Proof.
  intros Hs Hp Hk. unfold s33_replace_bit_field.
  rewrite s_ior2, s_and2, s_bitwise_not_lnot, s33_mask_ones, Z.lor_spec, Z.land_spec.
  rewrite Z.lnot_spec by lia. rewrite (Z.shiftl_spec (Z.ones size) pos k), (Z.shiftl_spec nf pos k) by lia.
  assert (Z.testbit (Z.ones size) (k - pos) = inr pos (pos + size) k) as ->.
  { destruct (inr_cases pos (pos + size) k) as [[-> H]|[-> H]].
    - rewrite ones_bit by lia. apply Z.ltb_lt. lia.
    - destruct (Z.ltb_spec k pos); [apply Z.testbit_neg_r; lia|]. rewrite ones_bit by lia. apply Z.ltb_ge. lia. }
  destruct (inr pos (pos + size) k), (Z.testbit n k); reflexivity.
Qed.

(** SRFI 33 copy-bit-field size position from to: the field of [to] replaced by the same field of [from] *)
Theorem s33_copy_bits size pos from to k : 0 <= size -> 0 <= pos -> 0 <= k ->
  Z.testbit (s33_copy_bit_field size pos from to) k
  = if inr pos (pos + size) k then Z.testbit from k else Z.testbit to k.
Proof.
  intros Hs Hp Hk. unfold s33_copy_bit_field. rewrite s142_bitwise_if_bits by lia.
  assert (Z.shiftl (s33_mask size) pos = s_range pos (pos + size)) as ->.
  { unfold s_range, s33_mask, s_mask. replace (pos + size - pos) with size by lia. reflexivity. }
  rewrite s_range_bit by lia. reflexivity.
Qed.

Example s33_copy_witness : s33_copy_bit_field 8 60 (- 2 ^ 70 - 1) (2 ^ 100) = 2 ^ 100 + (2 ^ 68 - 2 ^ 60).
Proof. vm_compute. reflexivity. Qed.
Example s142_if_witness : s142_bitwise_if 1 1 2 = 0 /\ s_bitwise_if 1 1 2 = 3.
Proof. vm_compute. split; reflexivity. Qed.
