(** C17 proofs, part 1: the two's-complement view of (sign, words) and the word loops of and/ior/xor. *)
From ChibiV Require Import Common.Words C17.Bits C17.Model C17.Spec.
Local Open Scope Z_scope.

Lemma Bge2 : 2 <= B.  Proof. unfold B. lia. Qed.
Lemma pow_B_pos n : 0 < B ^ Z.of_nat n.
Proof. apply Z.pow_pos_nonneg; [exact B_pos|lia]. Qed.
Lemma pow_B_S n : B ^ Z.of_nat (S n) = B * B ^ Z.of_nat n.
Proof. rewrite Nat2Z.inj_succ, Z.pow_succ_r by lia. reflexivity. Qed.

(** * the carry loop *)
Lemma add_small_spec l : forall c, words l -> 0 <= c <= 1 ->
  val (fst (add_small l c)) + B ^ Z.of_nat (length l) * snd (add_small l c) = val l + c
  /\ words (fst (add_small l c)) /\ length (fst (add_small l c)) = length l
  /\ 0 <= snd (add_small l c) <= 1.
Proof.
  induction l as [|x r IH]; intros c Hw Hc; cbn [add_small].
  - cbn [fst snd val length]. rewrite Z.pow_0_r. repeat split; try lia. constructor.
  - destruct (Z.eqb_spec c 0) as [->|Hc0].
    + cbn [fst snd]. repeat split; try lia. exact Hw.
    + assert (c = 1) as -> by lia.
      inversion Hw as [|? ? Hx Hr]; subst. unfold isword in Hx.
      set (c2 := if x >? WMAX - 1 then 1 else 0).
      assert (0 <= c2 <= 1) as Hc2 by (unfold c2; destruct (x >? WMAX - 1); lia).
      destruct (IH c2 Hr Hc2) as (Hv & Hw' & Hl & Hc').
      destruct (add_small r c2) as [r' c'] eqn:E. cbn [fst snd] in *.
      cbn [val length]. rewrite pow_B_S. pose proof WMAX_eq as HW.
      assert ((x + 1) mod B + B * c2 = x + 1) as Hd.
      { unfold c2. destruct (Z.gtb_spec x (WMAX - 1)).
        - assert (x + 1 = B) as -> by lia. rewrite Z_mod_same_full. lia.
        - rewrite Z.mod_small by lia. lia. }
      repeat split; try lia.
      constructor; [|exact Hw']. unfold isword. apply Z.mod_pos_bound. exact B_pos.
Qed.

Lemma wnot_word w : isword w -> isword (wnot w).
Proof. unfold isword, wnot. pose proof WMAX_eq. lia. Qed.

Lemma words_map_wnot l : words l -> words (map wnot l).
Proof. induction 1; cbn [map]; constructor; auto using wnot_word. Qed.

Lemma val_map_wnot l : val (map wnot l) = B ^ Z.of_nat (length l) - 1 - val l.
Proof.
  induction l as [|x r IH]; cbn [map val length].
  - rewrite Z.pow_0_r. lia.
  - rewrite IH, pow_B_S. unfold wnot. pose proof WMAX_eq. lia.
Qed.

(** sexp_set_twos_complement: the words of (- val l) mod B^len *)
Lemma set_tc_length l : words l -> length (set_tc l) = length l.
Proof.
  intros Hw. unfold set_tc.
  destruct (add_small_spec (map wnot l) 1 (words_map_wnot _ Hw) ltac:(lia)) as (_ & _ & Hl & _).
  rewrite Hl, map_length. reflexivity.
Qed.

Lemma set_tc_words l : words l -> words (set_tc l).
Proof.
  intros Hw. unfold set_tc.
  destruct (add_small_spec (map wnot l) 1 (words_map_wnot _ Hw) ltac:(lia)) as (_ & H & _). exact H.
Qed.

Lemma set_tc_val_pos l : words l -> 0 < val l -> val (set_tc l) = B ^ Z.of_nat (length l) - val l.
Proof.
  intros Hw Hp. unfold set_tc.
  destruct (add_small_spec (map wnot l) 1 (words_map_wnot _ Hw) ltac:(lia)) as (Hv & Hw' & Hl & Hc).
  rewrite map_length in *. rewrite val_map_wnot in Hv.
  pose proof (val_bound _ Hw') as Hb. rewrite Hl in Hb. pose proof (val_nonneg _ Hw').
  pose proof (pow_B_pos (length l)).
  set (P := B ^ Z.of_nat (length l)) in *.
  set (cc := snd (add_small (map wnot l) 1)) in *.
  assert (cc = 0 \/ cc = 1) as [E|E] by lia; rewrite E in Hv; lia.
Qed.

Lemma set_tc_val_zero l : words l -> val l = 0 -> val (set_tc l) = 0.
Proof.
  intros Hw Hp. unfold set_tc.
  destruct (add_small_spec (map wnot l) 1 (words_map_wnot _ Hw) ltac:(lia)) as (Hv & Hw' & Hl & Hc).
  rewrite map_length in *. rewrite val_map_wnot in Hv.
  pose proof (val_bound _ Hw') as Hb. rewrite Hl in Hb. pose proof (val_nonneg _ Hw').
  pose proof (pow_B_pos (length l)).
  set (P := B ^ Z.of_nat (length l)) in *.
  set (cc := snd (add_small (map wnot l) 1)) in *.
  assert (cc = 0 \/ cc = 1) as [E|E] by lia; rewrite E in Hv; lia.
Qed.

(** DESIGN's [twos_complement_repr]: unsigned value of the converted words = (-|n|) mod B^len *)
Lemma set_tc_val_mod l : words l -> val (set_tc l) = (- val l) mod B ^ Z.of_nat (length l).
Proof.
  intros Hw. pose proof (val_nonneg _ Hw) as Hn. pose proof (val_bound _ Hw) as Hb.
  pose proof (pow_B_pos (length l)) as HP.
  assert (val l = 0 \/ 0 < val l) as [E|E] by lia.
  - rewrite set_tc_val_zero, E by assumption. change (- 0) with 0. rewrite Z.mod_0_l; lia.
  - rewrite set_tc_val_pos by assumption.
    apply Z.mod_unique with (q := -1); lia.
Qed.

(** * two's complement with infinite sign extension *)
Fixpoint tcval (s : Z) (l : list Z) : Z :=
  match l with
  | [] => if s <? 0 then -1 else 0
  | x :: r => x + B * tcval s r
  end.

Lemma tcval_val s l : tcval s l = val l - (if s <? 0 then B ^ Z.of_nat (length l) else 0).
Proof.
  induction l as [|x r IH]; cbn [tcval val length].
  - rewrite Z.pow_0_r. destruct (s <? 0); lia.
  - rewrite IH, pow_B_S. destruct (s <? 0); lia.
Qed.

Lemma tcval_pos s l : 0 <= s -> tcval s l = val l.
Proof. intros H. rewrite tcval_val. destruct (Z.ltb_spec s 0); lia. Qed.

(** a negative bignum converted over its own length, read with sign extension, is the number itself *)
Lemma tcval_set_tc l : words l -> 0 < val l -> tcval (-1) (set_tc l) = - val l.
Proof.
  intros Hw Hp. rewrite tcval_val, set_tc_val_pos, set_tc_length by assumption.
  change (-1 <? 0) with true. cbv beta iota. lia.
Qed.

(** and back: converting a negative two's-complement pattern (non-zero words) gives the magnitude *)
Lemma val_set_tc_neg l : words l -> val l <> 0 -> val (set_tc l) = - tcval (-1) l.
Proof.
  intros Hw Hp. pose proof (val_nonneg _ Hw).
  rewrite tcval_val, set_tc_val_pos by (assumption || lia).
  change (-1 <? 0) with true. cbv beta iota. lia.
Qed.

Lemma twos_complement_repr_all l : words l ->
  val (set_tc l) = (- val l) mod B ^ Z.of_nat (length l) /\ words (set_tc l) /\ length (set_tc l) = length l.
Proof. intros Hw. auto using set_tc_val_mod, set_tc_words, set_tc_length. Qed.

(** * word-level versions of the digit lemmas (B = 2^64 stays folded) *)
Lemma isword_pow x : isword x <-> 0 <= x < 2 ^ 64.
Proof. unfold isword. rewrite B_eq. reflexivity. Qed.

Lemma zipext_length (op : Z -> Z -> Z) n : forall a b da db, length (zipext op n a b da db) = n.
Proof. induction n; intros; cbn [zipext length]; auto. Qed.

Lemma zipext_nth (op : Z -> Z -> Z) n : forall i a b da db, (i < n)%nat ->
  nth i (zipext op n a b da db) 0 = op (nth i a da) (nth i b db).
Proof.
  induction n as [|n IH]; intros i a b da db Hi; [lia|].
  cbn [zipext]. destruct i as [|i].
  - destruct a, b; reflexivity.
  - cbn [nth]. rewrite IH by lia. destruct a, b; cbn [tl nth]; try reflexivity.
    + destruct i; reflexivity.
    + destruct i; reflexivity.
    + destruct i; reflexivity.
Qed.

Lemma zipext_default_a (op : Z -> Z -> Z) n : forall a b da da' db, (n <= length a)%nat ->
  zipext op n a b da db = zipext op n a b da' db.
Proof.
  induction n as [|n IH]; intros a b da da' db Hl; [reflexivity|].
  destruct a as [|x a]; [cbn [length] in Hl; lia|].
  cbn [zipext hd tl]. f_equal. apply IH. cbn [length] in Hl. lia.
Qed.

Section WordOp.
  Variable op : Z -> Z -> Z.
  Variable f : bool -> bool -> bool.
  Hypothesis op_spec : forall a b n, Z.testbit (op a b) n = f (Z.testbit a n) (Z.testbit b n).
  Hypothesis f_ff : f false false = false.

  Lemma wop_word x y : isword x -> isword y -> isword (op x y).
  Proof. rewrite !isword_pow. intros. apply (op_range op f op_spec f_ff); lia. Qed.

  Lemma wop_digit x y t u : isword x -> isword y -> op (x + B * t) (y + B * u) = op x y + B * op t u.
  Proof. rewrite !isword_pow, B_eq. intros. apply (op_digit op f op_spec f_ff); lia. Qed.

  Definition ends (s : Z) : Z := if s <? 0 then -1 else 0.

  Lemma ends_unfold s : ends s = sext s + B * ends s.
  Proof. unfold ends, sext. pose proof WMAX_eq. destruct (s <? 0); lia. Qed.

  Lemma sext_word s : isword (sext s).
  Proof. unfold sext, isword. pose proof WMAX_eq. pose proof B_pos. destruct (s <? 0); lia. Qed.

  Lemma tcval_hd_tl s l : tcval s l = hd (sext s) l + B * tcval s (tl l).
  Proof. destruct l; cbn [tcval hd tl]; [apply ends_unfold|reflexivity]. Qed.

  Lemma words_tl l : words l -> words (tl l).
  Proof. destruct 1; cbn [tl]; auto. Qed.

  Lemma hd_word s l : words l -> isword (hd (sext s) l).
  Proof. destruct 1; cbn [hd]; auto using sext_word. Qed.


  Lemma zipext_words n : forall a b sa sb, words a -> words b -> words (zipext op n a b (sext sa) (sext sb)).
  Proof.
    induction n; intros; cbn [zipext]; constructor.
    - apply wop_word; apply hd_word; assumption.
    - apply IHn; apply words_tl; assumption.
  Qed.

  (** the loop computes [op] on the sign-extended integers, whatever the two lengths *)
  Lemma zipext_tcval sa sb sr : ends sr = op (ends sa) (ends sb) ->
    forall n a b, words a -> words b -> (length a <= n)%nat -> (length b <= n)%nat ->
    tcval sr (zipext op n a b (sext sa) (sext sb)) = op (tcval sa a) (tcval sb b).
  Proof.
    intros Hsr. induction n as [|n IH]; intros a b Ha Hb La Lb.
    - destruct a; [|cbn [length] in La; lia]. destruct b; [|cbn [length] in Lb; lia].
      cbn [zipext tcval]. exact Hsr.
    - cbn [zipext tcval]. rewrite (tcval_hd_tl sa a), (tcval_hd_tl sb b).
      rewrite wop_digit by (apply hd_word; assumption).
      rewrite IH; [reflexivity| | | |]; try (apply words_tl; assumption).
      + destruct a; cbn [tl length] in *; lia.
      + destruct b; cbn [tl length] in *; lia.
  Qed.


End WordOp.

Lemma last_nth (l : list Z) d : last l d = nth (length l - 1) l d.
Proof.
  induction l as [|x r IH]; [reflexivity|].
  destruct r as [|y r']; [reflexivity|].
  change (last (x :: y :: r') d) with (last (y :: r') d). rewrite IH.
  cbn [length]. replace (S (S (length r')) - 1)%nat with (S (S (length r') - 1)) by lia. reflexivity.
Qed.

Lemma zipext_last op n a b da db :
  last (zipext op (S n) a b da db) 0 = op (nth n a da) (nth n b db).
Proof.
  rewrite last_nth, zipext_length. replace (S n - 1)%nat with n by lia. apply zipext_nth. lia.
Qed.
