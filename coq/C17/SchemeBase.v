(** C17: the handful of (chibi) base procedures that lib/srfi/151/bitwise.scm uses, as total Gallina functions
    (targets of gen/c17_bitwise.py).  Lists of exact integers are [list Z]; vectors are lists (vector-set! becomes a
    functional update, the translator threads the updated vector); [car] of the empty list is never reached by the
    translated code (every use is behind a null?/pair? test) and is 0 here. *)
From Coq Require Import ZArith List Bool.
Import ListNotations.
Local Open Scope Z_scope.

Definition sb_zero_p (x : Z) : bool := x =? 0.
Definition sb_null_p {A} (l : list A) : bool := match l with [] => true | _ => false end.
Definition sb_pair_p {A} (l : list A) : bool := match l with [] => false | _ => true end.
Definition sb_car (l : list Z) : Z := hd 0 l.
Definition sb_cdr {A} (l : list A) : list A := tl l.
Definition sb_make_vector {A} (n : Z) (x : A) : list A := repeat x (Z.to_nat n).
Definition sb_vector_length {A} (v : list A) : Z := Z.of_nat (length v).
Definition sb_vector_ref (v : list bool) (i : Z) : bool := nth (Z.to_nat i) v false.
Definition sb_vector_set {A} (v : list A) (i : Z) (x : A) : list A :=
  firstn (Z.to_nat i) v ++ x :: skipn (S (Z.to_nat i)) v.
Definition sb_list_to_vector {A} (l : list A) : list A := l.
Definition sb_vector_to_list {A} (v : list A) : list A := v.
