(** C17 proofs, part 5: integer_length. *)
From ChibiV Require Import Common.Words C17.Bits C17.Model C17.Spec C17.Proofs C17.ProofsOps.
Local Open Scope Z_scope.

(** * bit length *)
Lemma bitlen_pos m : 0 < m -> bitlen m = Z.log2 m + 1.
Proof. intros H. unfold bitlen. destruct (Z.eqb_spec m 0); lia. Qed.

Lemma bitlen_shift x k : 0 <= x -> 0 <= k -> x / 2 ^ k <> 0 -> bitlen x = k + bitlen (x / 2 ^ k).
Proof.
  intros Hx Hk Hnz. assert (0 < 2 ^ k) as Hp by (apply Z.pow_pos_nonneg; lia).
  assert (0 < x / 2 ^ k) as Hq by (pose proof (Z.div_pos x (2 ^ k) Hx Hp); lia).
  assert (2 ^ k <= x) as Hge.
  { destruct (Z.lt_ge_cases x (2 ^ k)) as [Hlt|]; [|lia]. rewrite Z.div_small in Hq; lia. }
  rewrite !bitlen_pos by lia. rewrite <- Z.shiftr_div_pow2, Z.log2_shiftr by lia.
  assert (k <= Z.log2 x) as Hl by (apply Z.log2_le_pow2; lia). lia.
Qed.

Lemma tbl_ok : forall i, 0 <= i < 256 -> tbl i = bitlen i.
Proof.
  assert (forallb (fun n => tbl (Z.of_nat n) =? bitlen (Z.of_nat n)) (seq 0 256) = true) as H by (vm_compute; reflexivity).
  rewrite forallb_forall in H. intros i Hi.
  specialize (H (Z.to_nat i)). rewrite Z2Nat.id in H by lia. apply Z.eqb_eq, H. apply in_seq. lia.
Qed.

Lemma div_lt_pow x a b : 0 <= x < 2 ^ (a + b) -> 0 <= a -> 0 <= b -> 0 <= x / 2 ^ a < 2 ^ b.
Proof.
  intros Hx Ha Hb. assert (0 < 2 ^ a) by (apply Z.pow_pos_nonneg; lia).
  split; [apply Z.div_pos; lia|]. apply Z.div_lt_upper_bound; [lia|]. rewrite <- Z.pow_add_r; lia.
Qed.

Lemma integer_log2_32_ok x : 0 <= x < 2 ^ 32 -> integer_log2_32 x = bitlen x.
Proof.
  intros Hx. unfold integer_log2_32.
  pose proof (div_lt_pow x 16 16 ltac:(lia) ltac:(lia) ltac:(lia)) as H16.
  pose proof (div_lt_pow x 8 24 ltac:(lia) ltac:(lia) ltac:(lia)) as H8.
  destruct (Z.eqb_spec (x / 2 ^ 16) 0) as [E16|N16]; cbn [negb].
  - assert (x < 2 ^ 16) as Hlt.
    { destruct (Z.lt_ge_cases x (2 ^ 16)); [assumption|].
      assert (1 <= x / 2 ^ 16) by (apply Z.div_le_lower_bound; lia). lia. }
    destruct (Z.eqb_spec (x / 2 ^ 8) 0) as [E8|N8]; cbn [negb].
    + assert (x < 2 ^ 8) as Hlt8.
      { destruct (Z.lt_ge_cases x (2 ^ 8)); [assumption|].
        assert (1 <= x / 2 ^ 8) by (apply Z.div_le_lower_bound; lia). lia. }
      apply tbl_ok. change (2 ^ 8) with 256 in Hlt8. lia.
    + rewrite (bitlen_shift x 8) by lia. f_equal. apply tbl_ok.
      pose proof (div_lt_pow x 8 8 ltac:(lia) ltac:(lia) ltac:(lia)). change (2 ^ 8) with 256 in *. lia.
  - set (tt := x / 2 ^ 16) in *.
    pose proof (div_lt_pow tt 8 8 ltac:(lia) ltac:(lia) ltac:(lia)) as Ht8.
    rewrite (bitlen_shift x 16) by lia. fold tt.
    destruct (Z.eqb_spec (tt / 2 ^ 8) 0) as [E8|N8]; cbn [negb].
    + assert (tt < 2 ^ 8) as Hlt8.
      { destruct (Z.lt_ge_cases tt (2 ^ 8)); [assumption|].
        assert (1 <= tt / 2 ^ 8) by (apply Z.div_le_lower_bound; lia). lia. }
      f_equal. apply tbl_ok. change (2 ^ 8) with 256 in Hlt8. lia.
    + rewrite (bitlen_shift tt 8) by lia. rewrite Z.add_assoc. f_equal. apply tbl_ok.
      change (2 ^ 8) with 256 in *. lia.
Qed.

Lemma integer_log2_ok x : isword x -> integer_log2 x = bitlen x.
Proof.
  rewrite isword_pow. intros Hx. unfold integer_log2.
  pose proof (div_lt_pow x 32 32 ltac:(lia) ltac:(lia) ltac:(lia)) as H32.
  destruct (Z.eqb_spec (x / 2 ^ 32) 0) as [E|N]; cbn [negb].
  - apply integer_log2_32_ok.
    destruct (Z.lt_ge_cases x (2 ^ 32)); [lia|].
    assert (1 <= x / 2 ^ 32) by (apply Z.div_le_lower_bound; lia). lia.
  - rewrite (bitlen_shift x 32) by lia. rewrite integer_log2_32_ok by lia. lia.
Qed.

(** * powers of two *)
Lemma pow2_land_pred t : 0 < t -> (Z.land t (t - 1) = 0 <-> t = 2 ^ Z.log2 t).
Proof.
  intros Ht. pose proof (Z.log2_spec t Ht) as (Hlo & Hhi). pose proof (Z.log2_nonneg t) as Ha.
  set (a := Z.log2 t) in *. split.
  - intros Hl. destruct (Z.eq_dec t (2 ^ a)) as [|Hne]; [assumption|exfalso].
    assert (Z.testbit (Z.land t (t - 1)) a = true) as Hb.
    { rewrite Z.land_spec. unfold a at 1. rewrite Z.bit_log2 by lia.
      assert (Z.log2 (t - 1) = a) as El by (apply Z.log2_unique; lia).
      rewrite <- El. rewrite Z.bit_log2 by lia. reflexivity. }
    rewrite Hl, Z.testbit_0_l in Hb. discriminate.
  - intros E. replace (t - 1) with (Z.ones a) by (rewrite Z.ones_equiv; lia).
    rewrite Z.land_ones by lia. rewrite E at 1. apply Z_mod_same_full.
Qed.

Lemma bitlen_pred_pow2 n : 0 <= n -> bitlen (2 ^ n - 1) = n.
Proof.
  intros Hn. destruct (Z.eq_dec n 0) as [->|]; [reflexivity|].
  assert (1 < 2 ^ n) by (apply Z.pow_gt_1; lia).
  rewrite bitlen_pos by lia. replace (2 ^ n - 1) with (Z.pred (2 ^ n)) by lia.
  rewrite Z.log2_pred_pow2 by lia. lia.
Qed.

Lemma bitlen_pred_nonpow m : 0 < m -> m <> 2 ^ Z.log2 m -> bitlen (m - 1) = bitlen m.
Proof.
  intros Hm Hne. pose proof (Z.log2_spec m Hm) as (Hlo & Hhi). pose proof (Z.log2_nonneg m).
  assert (0 < 2 ^ Z.log2 m) by (apply Z.pow_pos_nonneg; lia).
  rewrite !bitlen_pos by lia. f_equal. apply Z.log2_unique; lia.
Qed.

Lemma bitlen_digit lo k t : 0 <= k -> 0 <= lo < 2 ^ k -> 0 < t -> bitlen (lo + 2 ^ k * t) = bitlen t + k.
Proof.
  intros Hk Hlo Ht. pose proof (Z.log2_spec t Ht) as (Ha & Hb). pose proof (Z.log2_nonneg t) as Hn.
  assert (0 < 2 ^ k) as Hp by (apply Z.pow_pos_nonneg; lia).
  assert (Z.log2 (lo + 2 ^ k * t) = Z.log2 t + k) as E.
  { apply Z.log2_unique; [lia|]. unfold Z.succ in *.
    replace (2 ^ (Z.log2 t + k + 1)) with (2 ^ (Z.log2 t + 1) * 2 ^ k)
      by (rewrite <- Z.pow_add_r by lia; f_equal; lia).
    replace (2 ^ (Z.log2 t + k)) with (2 ^ Z.log2 t * 2 ^ k) by (rewrite <- Z.pow_add_r by lia; reflexivity).
    set (A := 2 ^ Z.log2 t) in *. set (A1 := 2 ^ (Z.log2 t + 1)) in *. set (K := 2 ^ k) in *.
    assert (K * A <= K * t) by (apply Z.mul_le_mono_nonneg_l; lia).
    assert (K * (t + 1) <= K * A1) by (apply Z.mul_le_mono_nonneg_l; lia).
    assert (K * (t + 1) = K * t + K) by ring. assert (A * K = K * A) by ring. assert (A1 * K = K * A1) by ring.
    split; lia. }
  assert (0 < 2 ^ k * t) by (apply Z.mul_pos_pos; lia).
  rewrite !bitlen_pos by lia. rewrite E. lia.
Qed.

Lemma all_zero_val l : words l -> (all_zero l = true <-> val l = 0).
Proof.
  intros Hw. rewrite (val_zero_iff l Hw). unfold all_zero. rewrite forallb_forall, Forall_forall.
  split; intros H x Hx; specialize (H x Hx); [apply Z.eqb_eq|apply Z.eqb_eq]; assumption.
Qed.

(** the top word and the words below it *)
Lemma top_split ws : words ws -> ws <> [] ->
  let h := hi ws in
  val ws = val (firstn (h - 1) ws) + B ^ Z.of_nat (h - 1) * nth (h - 1) ws 0
  /\ 0 <= val (firstn (h - 1) ws) < B ^ Z.of_nat (h - 1)
  /\ isword (nth (h - 1) ws 0)
  /\ (0 < val ws -> 0 < nth (h - 1) ws 0).
Proof.
  intros Hw Hne h. pose proof (hi_ge1 ws) as H1. fold h in H1.
  pose proof (hi_le_length ws Hne) as Hle. fold h in Hle.
  set (W := firstn h ws).
  assert (val W = val ws) as HW by (apply firstn_strip_val; exact Hw).
  assert (length W = S (h - 1)) as LW by (unfold W; rewrite firstn_length_le; lia).
  assert (words W) as WW by (apply words_firstn; exact Hw).
  assert (nth (h - 1) W 0 = nth (h - 1) ws 0) as Etop.
  { rewrite <- (firstn_skipn h ws) at 1. fold W. rewrite app_nth1 by lia. reflexivity. }
  assert (firstn (h - 1) W = firstn (h - 1) ws) as Elo.
  { unfold W. rewrite firstn_firstn. replace (Nat.min (h - 1) h) with (h - 1)%nat by lia. reflexivity. }
  pose proof (val_firstn_skipn (h - 1) W) as Hs.
  rewrite (skipn_last_one W 0 (h - 1) LW), firstn_length_le in Hs by lia.
  cbn [val] in Hs. rewrite Etop, Elo, HW, Z.mul_0_r, Z.add_0_r in Hs.
  pose proof (val_bound _ (words_firstn (h - 1) ws Hw)) as Hb. rewrite firstn_length_le in Hb by lia.
  pose proof (val_nonneg _ (words_firstn (h - 1) ws Hw)) as Hb0.
  assert (isword (nth (h - 1) ws 0)) as Hword.
  { rewrite Forall_forall in Hw. apply Hw. apply nth_In. lia. }
  split; [exact Hs|]. split; [lia|]. split; [exact Hword|].
  intros Hpos. unfold isword in Hword. pose proof (pow_B_pos (h - 1)).
  destruct (Z.eq_dec (nth (h - 1) ws 0) 0) as [E|]; [|lia]. exfalso.
  rewrite E in Hs.
  destruct (Nat.eq_dec h 1) as [E1|N1].
  - rewrite E1 in Hs. cbn [firstn val Nat.sub] in Hs. lia.
  - pose proof (val_ge_pow_hi ws Hw ltac:(fold h; lia)) as Hge. fold h in Hge. lia.
Qed.

Theorem integer_length_ok x : wf x -> ival (integer_length x) = integer_length_spec (ival x).
Proof.
  intros Hwf. unfold integer_length_spec. destruct x as [z|s ws]; cbn [integer_length ival wf] in *.
  - pose proof FIX_lt_B. rewrite integer_log2_ok.
    + unfold Z.lnot. destruct (z <? 0); f_equal; lia.
    + unfold isword. destruct (Z.ltb_spec z 0); lia.
  - pose proof Hwf as (Hs & Hw & Hne & Hp).
    destruct (top_split ws Hw Hne) as (Hsplit & Hlo & Htop & Htpos). cbv zeta in *.
    set (h := hi ws) in *. set (top := nth (h - 1) ws 0) in *. set (lo := val (firstn (h - 1) ws)) in *.
    assert (B ^ Z.of_nat (h - 1) = 2 ^ (Z.of_nat (h - 1) * 64)) as HP
      by (rewrite B_eq, <- Z.pow_mul_r by lia; f_equal; lia).
    set (k := Z.of_nat (h - 1) * 64) in *. assert (0 <= k) as Hk by (unfold k; lia).
    rewrite HP in *. rewrite integer_log2_ok by exact Htop.
    pose proof (val_nonneg ws Hw) as Hm0.
    destruct Hs as [-> | ->].
    + (* positive *)
      change (1 <? 0) with false. cbn [andb ival]. rewrite Z.mul_1_l.
      destruct (Z.ltb_spec (val ws) 0); [lia|].
      destruct (Z.eq_dec (val ws) 0) as [E0|N0].
      * (* zero stored as a bignum *)
        assert (top = 0) as Et.
        { unfold isword in Htop. assert (0 < 2 ^ k) by (apply Z.pow_pos_nonneg; lia).
          assert (0 <= 2 ^ k * top) by (apply Z.mul_nonneg_nonneg; lia).
          assert (2 ^ k * top = 0) as E by lia. apply Z.mul_eq_0 in E. lia. }
        assert (h = 1%nat) as Eh.
        { destruct (Nat.eq_dec h 1); [assumption|]. pose proof (hi_ge1 ws).
          pose proof (val_ge_pow_hi ws Hw ltac:(fold h; lia)) as Hge. pose proof (pow_B_pos (hi ws - 1)). lia. }
        rewrite E0, Et. unfold k. rewrite Eh. reflexivity.
      * rewrite Hsplit. rewrite bitlen_digit by (try apply Htpos; lia). reflexivity.
    + (* negative: length of |x| - 1 *)
      specialize (Hp eq_refl). specialize (Htpos Hp).
      change (-1 <? 0) with true. cbn [andb].
      destruct (Z.ltb_spec (-1 * val ws) 0); [|lia].
      replace (Z.lnot (-1 * val ws)) with (val ws - 1) by (unfold Z.lnot; lia).
      unfold isword in Htop. rewrite (Z.mod_small (top - 1) B) by lia.
      assert (bitlen (val ws) = bitlen top + k) as Hbl by (rewrite Hsplit; apply bitlen_digit; lia).
      pose proof (pow2_land_pred top Htpos) as Hpw.
      pose proof (all_zero_val _ (words_firstn (h - 1) ws Hw)) as Haz. fold lo in Haz.
      pose proof (Z.log2_nonneg top) as Ha. set (a := Z.log2 top) in *.
      assert (0 < 2 ^ k) as Hpk by (apply Z.pow_pos_nonneg; lia).
      destruct (Z.eqb_spec (Z.land top (top - 1)) 0) as [El|El]; cbn [andb].
      * destruct (all_zero (firstn (h - 1) ws)) eqn:Ez; cbn [ival].
        -- (* a power of two *)
           apply Hpw in El. assert (lo = 0) as Ez0 by (apply Haz; reflexivity).
           rewrite Hsplit, Ez0, El, Z.add_0_l, <- Z.pow_add_r by lia.
           rewrite bitlen_pred_pow2 by lia. rewrite bitlen_pos by (apply Z.pow_pos_nonneg; lia).
           rewrite Z.log2_pow2 by lia. lia.
        -- (* low words not zero *)
           rewrite <- Hbl. symmetry. apply bitlen_pred_nonpow; [lia|].
           intros Epow. assert (lo <> 0) as Hlnz by (intros E; apply Haz in E; congruence).
           assert (Z.log2 (val ws) = a + k) as Elog.
           { assert (bitlen (val ws) = Z.log2 (val ws) + 1) by (apply bitlen_pos; lia).
             assert (bitlen top = a + 1) by (apply bitlen_pos; lia). lia. }
           rewrite Elog, Z.pow_add_r in Epow by lia. rewrite Hsplit in Epow.
           apply Hpw in El. rewrite <- El in Epow. nia.
      * cbn [ival]. rewrite <- Hbl. symmetry. apply bitlen_pred_nonpow; [lia|].
        intros Epow.
        assert (Z.log2 (val ws) = a + k) as Elog.
        { assert (bitlen (val ws) = Z.log2 (val ws) + 1) by (apply bitlen_pos; lia).
          assert (bitlen top = a + 1) by (apply bitlen_pos; lia). lia. }
        rewrite Elog, Z.pow_add_r in Epow by lia. rewrite Hsplit in Epow.
        apply El. apply Hpw.
        (* lo + 2^k top = 2^a 2^k with 0 <= lo < 2^k  ==>  top = 2^a *)
        assert (0 < 2 ^ a) as Hpa by (apply Z.pow_pos_nonneg; lia).
        set (A := 2 ^ a) in *. set (K := 2 ^ k) in *.
        assert (lo = K * (A - top)) as E1 by lia.
        assert (A - top = 0) by nia. lia.
Qed.

Example integer_length_witness :
  integer_length (Big (-1) [0; 1]) = Fix 64 /\ integer_length (Big (-1) [1; 1]) = Fix 65
  /\ integer_length (Big 1 [0; 1; 0]) = Fix 65.
Proof. vm_compute. auto. Qed.
