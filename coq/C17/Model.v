(** C17 model: lib/srfi/151/bit.c (with fixes/C17-*.patch applied), mirrored function by function.
    An exact integer is a fixnum [Fix z] or a bignum [Big s ws]: sign s in {1,-1} and a little-endian
    list of 64-bit words that may carry spare high zero words, exactly as the C object does
    (sexp_bignum_length vs sexp_bignum_hi).  Unsigned C arithmetic carries [mod B] explicitly. *)
From ChibiV Require Export Common.Words.
Local Open Scope Z_scope.

Inductive num := Fix (z : Z) | Big (s : Z) (ws : list Z).

Definition FIXMAX : Z := 4611686018427387903.          (* SEXP_MAX_FIXNUM = 2^62-1 *)
Definition HALF : Z := 9223372036854775808.            (* 2^63: (sexp_sint_t)w < 0  <->  w >= HALF *)

Definition ival (x : num) : Z :=
  match x with Fix z => z | Big s ws => s * val ws end.

(** ~w on a 64-bit word *)
Definition wnot (w : Z) : Z := WMAX - w.

(** the carry loop shared by sexp_set_twos_complement (bit.c:32-36) and sexp_bignum_fxadd
    (bignum.c:215-227):  do { n = data[i]; data[i] += carry; carry = n > MAX - carry; } while (++i<len && carry) *)
Fixpoint add_small (l : list Z) (carry : Z) : list Z * Z :=
  match l with
  | [] => ([], carry)
  | x :: r =>
      if carry =? 0 then (l, 0)
      else let '(r', c) := add_small r (if x >? WMAX - carry then 1 else 0) in
           ((x + carry) mod B :: r', c)
  end.

(** sexp_set_twos_complement (bit.c:26-37): complement every word, add one, drop the final carry *)
Definition set_tc (l : list Z) : list Z := fst (add_small (map wnot l) 1).

(** sexp_bignum_fxadd (bignum.c:215-227) on the data words; grows by one word on a final carry *)
Definition fxadd (a : list Z) (b : Z) : list Z :=
  let len := hi a in
  let '(r, c) := add_small (firstn len a) b in
  if c =? 0 then r ++ skipn len a else r ++ [1].

(** sexp_twos_complement (bit.c:39-49): negative bignums are copied and converted over their own length *)
Definition twos_complement (s : Z) (ws : list Z) : list Z :=
  if s <? 0 then set_tc ws else ws.

(** sexp_fixnum_to_twos_complement (bit.c:51-67), only ever called with x < 0:
    data[0] = ~(-x), data[1..len-1] = -1, then fxadd 1.  Since ~(-x) <= MAX-1 the carry of the fxadd
    stops in word 0 and the length stays len, so the len+1 patch-up (bit.c:61-62) is dead code. *)
Definition fix_to_tc (x : Z) (len : nat) : list Z :=
  (wnot (- x) + 1) mod B :: repeat WMAX (len - 1).

(** the word a shorter operand contributes beyond its length:  sign < 0 ? -1 : 0 *)
Definition sext (s : Z) : Z := if s <? 0 then WMAX else 0.

(** for (i=0; i<len; i++) res[i] = (i<lena ? a[i] : exta) OP (i<lenb ? b[i] : extb) *)
Fixpoint zipext (op : Z -> Z -> Z) (n : nat) (a b : list Z) (da db : Z) : list Z :=
  match n with
  | O => []
  | S n' => op (hd da a) (hd db b) :: zipext op n' (tl a) (tl b) da db
  end.

(** sexp_bignum_normalize (bignum.c:195-205) *)
Definition normalize (s : Z) (ws : list Z) : num :=
  if (1 <? hi ws)%nat then Big s ws
  else let d := hd 0 ws in
       if (d >? FIXMAX) && negb ((s =? -1) && (d =? FIXMAX + 1)) then Big s ws
       else Fix (d * s).

(** the common tail of and/xor (bit.c:98-105): a result whose top word has the sign bit is negative and
    is converted back to sign-magnitude; otherwise it is positive *)
Definition sign_fixup (sres : Z) (r : list Z) : num :=
  if last r 0 >=? HALF then normalize (if sres >? 0 then - sres else sres) (set_tc r)
  else normalize (if sres <? 0 then - sres else sres) r.

(** sexp_bit_and (bit.c:69-115) *)
Definition bit_and_big (sx : Z) (xs : list Z) (y : num) : num :=
  let x2 := twos_complement sx xs in
  let y2 := match y with
            | Big sy ys => Big sy (twos_complement sy ys)
            | Fix b => if b <? 0 then Big (-1) (fix_to_tc b (length x2)) else Fix b
            end in
  match y2 with
  | Fix b => Fix (Z.land b (hd 0 x2))
  | Big sy y2w =>
      let lenx := length x2 in let leny := length y2w in
      let sres := if (leny <? lenx)%nat then sx else sy in          (* sign of the copied operand *)
      let len := S (if (leny <? lenx)%nat then lenx else leny) in   (* fix: one extra word *)
      let r := zipext Z.land len x2 y2w (sext sx) (sext sy) in
      if ((sx <? 0) || (sy <? 0)) && (last r 0 >=? HALF)
      then normalize (if sres >? 0 then - sres else sres) (set_tc r)
      else normalize (if sres <? 0 then - sres else sres) r
  end.

Definition bit_and (x y : num) : num :=
  match x, y with
  | Fix a, Fix b => Fix (Z.land a b)                (* AND of the tagged words *)
  | Fix _, Big sy ys => bit_and_big sy ys x
  | Big sx xs, _ => bit_and_big sx xs y
  end.

(** res[0] op= y for a non-negative fixnum y (bit.c:134-140, 190-196) *)
Definition low_op (op : Z -> Z -> Z) (l : list Z) (b : Z) : list Z :=
  match l with [] => [] | x :: r => op x b :: r end.

(** the bignum/bignum and bignum/negative-fixnum part shared by ior and xor (bit.c:141-155, 197-211):
    returns (sign of res, words after the loop, sign of tmp) *)
Definition wide_op (op : Z -> Z -> Z) (sx : Z) (xs : list Z) (y : num) : Z * list Z * Z :=
  let '(sres, res, stmp, tmp) :=
    match y with
    | Fix b => (sx, xs ++ [0], -1, fix_to_tc b (S (length xs)))
    | Big sy ys =>
        if (length ys <=? length xs)%nat
        then (sx, xs ++ [0], sy, twos_complement sy ys)
        else (sy, ys ++ [0], sx, twos_complement sx xs)
    end in
  let res1 := if sres <? 0 then set_tc res else res in
  (sres, zipext op (length res1) res1 tmp 0 (sext stmp), stmp).

(** sexp_bit_ior (bit.c:117-171) *)
Definition bit_ior_big (sx : Z) (xs : list Z) (y : num) : num :=
  match y with
  | Fix b =>
      if 0 <=? b then
        let r1 := if sx <? 0 then set_tc xs else xs in
        let r2 := low_op Z.lor r1 b in
        normalize sx (if sx <? 0 then set_tc r2 else r2)
      else
        let '(sres, r, stmp) := wide_op Z.lor sx xs y in
        if ((sres <? 0) || (stmp <? 0)) && (last r 0 >=? HALF)
        then normalize (if sres >? 0 then - sres else sres) (set_tc r)
        else normalize sres r
  | Big _ _ =>
      let '(sres, r, stmp) := wide_op Z.lor sx xs y in
      if ((sres <? 0) || (stmp <? 0)) && (last r 0 >=? HALF)
      then normalize (if sres >? 0 then - sres else sres) (set_tc r)
      else normalize sres r
  end.

Definition bit_ior (x y : num) : num :=
  match x, y with
  | Fix a, Fix b => Fix (Z.lor a b)
  | Fix _, Big sy ys => bit_ior_big sy ys x
  | Big sx xs, _ => bit_ior_big sx xs y
  end.

(** sexp_bit_xor (bit.c:173-226) *)
Definition bit_xor_big (sx : Z) (xs : list Z) (y : num) : num :=
  match y with
  | Fix b =>
      if 0 <=? b then
        let r0 := xs ++ [0] in                                     (* fix: one extra word *)
        let r1 := if sx <? 0 then set_tc r0 else r0 in
        let r2 := low_op Z.lxor r1 b in
        normalize sx (if sx <? 0 then set_tc r2 else r2)
      else
        let '(sres, r, _) := wide_op Z.lxor sx xs y in sign_fixup sres r
  | Big _ _ =>
      let '(sres, r, _) := wide_op Z.lxor sx xs y in sign_fixup sres r
  end.

Definition bit_xor (x y : num) : num :=
  match x, y with
  | Fix a, Fix b => Fix (Z.lxor a b)
  | Fix _, Big sy ys => bit_xor_big sy ys x
  | Big sx xs, _ => bit_xor_big sx xs y
  end.

(** log2i (bit.c:228-234) on the unsigned word v *)
Fixpoint log2i_loop (fuel : nat) (i v : Z) : Z :=
  match fuel with
  | O => i
  | S f => if 2 ^ (i + 1) >? v then i else log2i_loop f (i + 1) v
  end.
Definition log2i (v : Z) : Z := log2i_loop 64 0 v.

(** right-shift loop (bit.c:283-289), from the top word down; returns the words and the final [tmp]
    (the bits dropped from the lowest kept word, left-aligned) *)
Fixpoint shr_loop (bs : Z) (l : list Z) : list Z * Z :=
  match l with
  | [] => ([], 0)
  | x :: r =>
      let '(r', t) := shr_loop bs r in
      ((x / 2 ^ bs + t) mod B :: r', if bs =? 0 then t else (x * 2 ^ (64 - bs)) mod B)
  end.

(** left-shift loop (bit.c:301-307), from the low word up; the last element is res[len+offset] *)
Fixpoint shl_loop (bs : Z) (l : list Z) (tmp : Z) : list Z :=
  match l with
  | [] => [tmp]
  | x :: r => ((x * 2 ^ bs) mod B + tmp) mod B :: shl_loop bs r (if bs =? 0 then tmp else x / 2 ^ (64 - bs))
  end.

(** for (j=0; j<offset && !tmp; j++) tmp = data[j];   -- is any dropped bit set? *)
Fixpoint sticky (l : list Z) (tmp : Z) : Z :=
  match l with
  | [] => tmp
  | x :: r => if tmp =? 0 then sticky r x else tmp
  end.

(** sexp_arithmetic_shift, bignum branch (bit.c:271-309) *)
Definition shift_big (s : Z) (ws : list Z) (c : Z) : num :=
  let len := hi ws in
  if c <? 0 then
    let c' := - c in
    let offset := Z.to_nat (c' / 64) in
    let bs := c' - Z.of_nat offset * 64 in
    if (len <? offset)%nat then Fix (if s >? 0 then 0 else -1)
    else
      let '(r, tmp) := shr_loop bs (firstn (len - offset) (skipn offset ws)) in
      let res := r ++ [0] in
      if s <? 0 then
        (if sticky (firstn offset ws) tmp =? 0 then normalize s res else normalize s (fxadd res 1))
      else normalize s res
  else
    let offset := Z.to_nat (c / 64) in
    let bs := c - Z.of_nat offset * 64 in
    normalize s (repeat 0 offset ++ shl_loop bs (firstn len ws) 0).

(** sexp_arithmetic_shift (bit.c:238-315); [c] is the unboxed count *)
Definition arithmetic_shift (x : num) (c : Z) : num :=
  if c =? 0 then x else
  match x with
  | Fix z =>
      if c <? 0 then Fix (if c >? -64 then z / 2 ^ (- c) else if z <? 0 then -1 else 0)
      else if log2i (z mod B) + c + 1 <? 63
           then Fix (((z mod B) * 2 ^ c) mod B * (if z <? 0 then -1 else 1))
           else shift_big (if z <? 0 then -1 else 1) [Z.abs z] c      (* sexp_fixnum_to_bignum *)
  | Big s ws => shift_big s ws c
  end.

(** bit_count (bit.c:319-326): the SWAR population count of one word *)
Definition M1 : Z := 6148914691236517205.    (* ~0/3      = 0x5555555555555555 *)
Definition M2 : Z := 3689348814741910323.    (* ~0/15*3   = 0x3333333333333333 *)
Definition M4 : Z := 1085102592571150095.    (* ~0/255*15 = 0x0f0f0f0f0f0f0f0f *)
Definition H01 : Z := 72340172838076673.     (* ~0/255    = 0x0101010101010101 *)
Definition bit_count_w (i : Z) : Z :=
  let i1 := (i - Z.land (i / 2) M1) mod B in
  let i2 := (Z.land i1 M2 + Z.land (i1 / 4) M2) mod B in
  let i3 := Z.land ((i2 + i2 / 16) mod B) M4 in
  ((i3 * H01) mod B) / 2 ^ 56.

(** the bignum loop of sexp_bit_count (bit.c:339-345 after the fix): counts |x| - borrow *)
Fixpoint bc_loop (l : list Z) (borrow : Z) : Z :=
  match l with
  | [] => 0
  | x :: r => bit_count_w ((x - borrow) mod B)
              + bc_loop r (if negb (borrow =? 0) && (x =? 0) then 1 else 0)
  end.

(** sexp_bit_count (bit.c:328-347) *)
Definition bit_count (x : num) : num :=
  match x with
  | Fix z => Fix (bit_count_w (if z <? 0 then Z.lnot z else z))
  | Big s ws => Fix (bc_loop ws (if s <? 0 then 1 else 0))
  end.

(** log_table_256 (bit.c:349-355) *)
Definition LT (n : Z) : list Z := repeat n 16.
Definition log_table_256 : list Z :=
  [0; 1; 2; 2; 3; 3; 3; 3; 4; 4; 4; 4; 4; 4; 4; 4]
  ++ LT 5 ++ LT 6 ++ LT 6 ++ LT 7 ++ LT 7 ++ LT 7 ++ LT 7
  ++ LT 8 ++ LT 8 ++ LT 8 ++ LT 8 ++ LT 8 ++ LT 8 ++ LT 8 ++ LT 8.
Definition tbl (i : Z) : Z := nth (Z.to_nat i) log_table_256 0.

(** integer_log2 (bit.c:357-368): the bit length of a word (one recursive call for the high half) *)
Definition integer_log2_32 (x : Z) : Z :=
  let tt := x / 2 ^ 16 in
  if negb (tt =? 0) then
    (let t := tt / 2 ^ 8 in if negb (t =? 0) then 24 + tbl t else 16 + tbl tt)
  else
    (let t := x / 2 ^ 8 in if negb (t =? 0) then 8 + tbl t else tbl x).
Definition integer_log2 (x : Z) : Z :=
  let tt := x / 2 ^ 32 in
  if negb (tt =? 0) then integer_log2_32 tt + 32 else integer_log2_32 x.

Definition all_zero (l : list Z) : bool := forallb (fun w => w =? 0) l.

(** sexp_integer_length (bit.c:370-387 after the fix) *)
Definition integer_length (x : num) : num :=
  match x with
  | Fix z => Fix (integer_log2 (if z <? 0 then - z - 1 else z))
  | Big s ws =>
      let h := hi ws in
      let top := nth (h - 1) ws 0 in
      let tmp := integer_log2 top + Z.of_nat (h - 1) * 64 in
      if (s <? 0) && (Z.land top ((top - 1) mod B) =? 0) && all_zero (firstn (h - 1) ws)
      then Fix (tmp - 1) else Fix tmp
  end.

(** sexp_bit_set_p (bit.c:389-414 after the fix); [i] is the unboxed index, i >= 0 *)
Definition bit_set_p (i : Z) (x : num) : bool :=
  match x with
  | Fix z => if i <? 64 then Z.testbit (z mod B) i else z <? 0
  | Big s ws =>
      let pos := Z.to_nat (i / 64) in
      let rem := i - Z.of_nat pos * 64 in
      if (length ws <=? pos)%nat then s <? 0
      else
        let word := nth pos ws 0 in
        let word' := if s <? 0
                     then (if all_zero (firstn pos ws) then (- word) mod B else wnot word)
                     else word in
        Z.testbit word' rem
  end.
