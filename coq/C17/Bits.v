(** C17 bit-level facts about Z used by the proofs: the digit decomposition of testbit and of the
    three bitwise operations.  No word-size constant is unfolded here (everything is stated for 2^k). *)
From Coq Require Import ZArith Lia Bool.
Local Open Scope Z_scope.

Lemma testbit_digit k x t n : 0 <= k -> 0 <= x < 2 ^ k -> 0 <= n ->
  Z.testbit (x + 2 ^ k * t) n = if n <? k then Z.testbit x n else Z.testbit t (n - k).
Proof.
  intros Hk Hx Hn. destruct (Z.ltb_spec n k) as [Hlt|Hge].
  - rewrite <- (Z.mod_pow2_bits_low (x + 2 ^ k * t) k n) by lia.
    rewrite (Z.mul_comm (2 ^ k) t), Z_mod_plus_full, Z.mod_small by lia. reflexivity.
  - replace n with ((n - k) + k) at 1 by lia.
    rewrite <- Z.div_pow2_bits by lia.
    rewrite (Z.mul_comm (2 ^ k) t), Z.div_add by lia.
    rewrite Z.div_small by lia. reflexivity.
Qed.

Lemma small_bits_high k x n : 0 <= k -> 0 <= x < 2 ^ k -> k <= n -> Z.testbit x n = false.
Proof.
  intros Hk Hx Hn. rewrite <- (Z.mod_small x (2 ^ k)) by lia. apply Z.mod_pow2_bits_high. lia.
Qed.

Section Bitop.
  Variable op : Z -> Z -> Z.
  Variable f : bool -> bool -> bool.
  Hypothesis op_spec : forall a b n, Z.testbit (op a b) n = f (Z.testbit a n) (Z.testbit b n).
  Hypothesis f_ff : f false false = false.

  Lemma op_range k x y : 0 <= k -> 0 <= x < 2 ^ k -> 0 <= y < 2 ^ k -> 0 <= op x y < 2 ^ k.
  Proof.
    intros Hk Hx Hy.
    assert (op x y = (op x y) mod 2 ^ k) as E.
    { apply Z.bits_inj'. intros n Hn. destruct (Z.ltb_spec n k).
      - rewrite Z.mod_pow2_bits_low by lia. reflexivity.
      - rewrite Z.mod_pow2_bits_high by lia. rewrite op_spec.
        rewrite (small_bits_high k x n), (small_bits_high k y n) by lia. exact f_ff. }
    rewrite E. apply Z.mod_pos_bound. lia.
  Qed.

  Lemma op_digit k x y t u : 0 <= k -> 0 <= x < 2 ^ k -> 0 <= y < 2 ^ k ->
    op (x + 2 ^ k * t) (y + 2 ^ k * u) = op x y + 2 ^ k * op t u.
  Proof.
    intros Hk Hx Hy. apply Z.bits_inj'. intros n Hn.
    rewrite op_spec, !testbit_digit by (auto using op_range; lia).
    destruct (n <? k); rewrite op_spec; reflexivity.
  Qed.
End Bitop.

Definition land_digit := op_digit Z.land andb Z.land_spec eq_refl.
Definition lor_digit := op_digit Z.lor orb Z.lor_spec eq_refl.
Definition lxor_digit := op_digit Z.lxor xorb Z.lxor_spec eq_refl.
Definition land_range := op_range Z.land andb Z.land_spec eq_refl.
Definition lor_range := op_range Z.lor orb Z.lor_spec eq_refl.
Definition lxor_range := op_range Z.lxor xorb Z.lxor_spec eq_refl.
