(** C17 proofs, part 4: bit_set_p is Z.testbit of the two's-complement integer. *)
From ChibiV Require Import Common.Words C17.Bits C17.Model C17.Spec C17.Proofs C17.ProofsOps.
Local Open Scope Z_scope.

Lemma WMAX_ones : WMAX = Z.ones 64.  Proof. reflexivity. Qed.

Lemma testbit_digitB x t n : isword x -> 0 <= n ->
  Z.testbit (x + B * t) n = if n <? 64 then Z.testbit x n else Z.testbit t (n - 64).
Proof. rewrite isword_pow, B_eq. intros. apply testbit_digit; lia. Qed.

(** bit (64*pos + rem) of a sign-extended word list is bit rem of word pos *)
Lemma tcval_testbit s l : words l -> forall pos rem, 0 <= rem < 64 ->
  Z.testbit (tcval s l) (64 * Z.of_nat pos + rem) = Z.testbit (nth pos l (sext s)) rem.
Proof.
  induction 1 as [|x r Hx Hr IH]; intros pos rem Hrem.
  - cbn [tcval]. replace (nth pos [] (sext s)) with (sext s) by (destruct pos; reflexivity).
    unfold sext. destruct (s <? 0).
    + rewrite Z.bits_m1 by lia. rewrite WMAX_ones, Z.ones_spec_low by lia. reflexivity.
    + rewrite !Z.testbit_0_l. reflexivity.
  - cbn [tcval]. rewrite testbit_digitB by (assumption || lia).
    destruct pos as [|p].
    + cbn [nth]. replace (64 * Z.of_nat 0 + rem) with rem by lia.
      destruct (Z.ltb_spec rem 64); [reflexivity|lia].
    + cbn [nth]. destruct (Z.ltb_spec (64 * Z.of_nat (S p) + rem) 64); [lia|].
      replace (64 * Z.of_nat (S p) + rem - 64) with (64 * Z.of_nat p + rem) by lia. apply IH. exact Hrem.
Qed.

(** the words of the two's complement, one at a time: negated up to the lowest non-zero word,
    complemented above it -- what the repaired sexp_bit_set_p computes without copying *)
Lemma add_small_wnot_nth d : forall l c pos, words l -> (c = 0 \/ c = 1) -> (pos < length l)%nat ->
  nth pos (fst (add_small (map wnot l) c)) d =
  if (c =? 1) && all_zero (firstn pos l) then (- nth pos l 0) mod B else wnot (nth pos l 0).
Proof.
  induction l as [|x r IH]; intros c pos Hw Hc Hpos; [cbn [length] in Hpos; lia|].
  inversion Hw as [|? ? Hx Hr]; subst. unfold isword in Hx. pose proof WMAX_eq as HW.
  cbn [map add_small]. destruct Hc as [-> | ->].
  - change (0 =? 0) with true. change (0 =? 1) with false. cbv iota. cbn [fst andb].
    change (wnot x :: map wnot r) with (map wnot (x :: r)).
    rewrite (nth_indep _ d (wnot 0)) by (rewrite map_length; exact Hpos). apply map_nth.
  - change (1 =? 0) with false. change (1 =? 1) with true. cbv iota. cbn [andb].
    set (c2 := if wnot x >? WMAX - 1 then 1 else 0).
    assert (c2 = if x =? 0 then 1 else 0) as Hc2.
    { unfold c2, wnot. destruct (Z.gtb_spec (WMAX - x) (WMAX - 1)), (Z.eqb_spec x 0); lia. }
    destruct (add_small (map wnot r) c2) as [r' c'] eqn:E. cbn [fst].
    destruct pos as [|p].
    + cbn [nth firstn all_zero forallb]. unfold wnot.
      replace (WMAX - x + 1) with (- x + 1 * B) by lia. apply Z_mod_plus_full.
    + cbn [nth firstn all_zero forallb]. fold (all_zero (firstn p r)).
      replace r' with (fst (add_small (map wnot r) c2)) by (rewrite E; reflexivity).
      rewrite IH; [|exact Hr|rewrite Hc2; destruct (x =? 0); auto|cbn [length] in Hpos; lia].
      rewrite Hc2. destruct (x =? 0); reflexivity.
Qed.

Lemma set_tc_nth d ws pos : words ws -> (pos < length ws)%nat ->
  nth pos (set_tc ws) d = if all_zero (firstn pos ws) then (- nth pos ws 0) mod B else wnot (nth pos ws 0).
Proof. intros Hw Hp. unfold set_tc. rewrite add_small_wnot_nth by auto. reflexivity. Qed.

Lemma fix_high_bits z i : - FIXMAX - 1 <= z <= FIXMAX -> 62 <= i -> Z.testbit z i = (z <? 0).
Proof.
  intros Hz Hi. pose proof FIXMAX_eq_pow as HE.
  assert (2 ^ 62 <= 2 ^ i) as Hp by (apply Z.pow_le_mono_r; lia).
  destruct (Z.ltb_spec z 0) as [Hneg|Hpos].
  - replace z with (- (- z)) by lia. rewrite Z.bits_opp by lia.
    rewrite (small_bits_high i (Z.pred (- z)) i) by lia. reflexivity.
  - apply (small_bits_high i z i); lia.
Qed.

Theorem bit_set_ok i x : 0 <= i -> wf x -> bit_set_p i x = Z.testbit (ival x) i.
Proof.
  intros Hi Hwf. destruct x as [z|s ws]; cbn [bit_set_p ival wf] in *.
  - destruct (Z.ltb_spec i 64).
    + rewrite B_eq. apply Z.mod_pow2_bits_low. lia.
    + symmetry. apply fix_high_bits; [exact Hwf|lia].
  - pose proof Hwf as (Hs & Hw & Hne & Hp).
    pose proof (Z.div_mod i 64 ltac:(lia)) as Hd. pose proof (Z.mod_pos_bound i 64 ltac:(lia)) as Hm.
    assert (0 <= i / 64) as Hq by (apply Z.div_pos; lia).
    set (pos := Z.to_nat (i / 64)). assert (Z.of_nat pos = i / 64) as Hpos by (unfold pos; rewrite Z2Nat.id; lia).
    set (rem := i - Z.of_nat pos * 64). assert (0 <= rem < 64) as Hrem by (unfold rem; lia).
    assert (i = 64 * Z.of_nat pos + rem) as Ei by (unfold rem; lia).
    destruct (tc_spec s ws Hwf) as (Tv & Tw & Tl). rewrite <- Tv, Ei at 1.
    rewrite tcval_testbit by assumption.
    destruct Hs as [-> | ->]; unfold twos_complement.
    + change (1 <? 0) with false. cbv iota. rewrite sext_pos.
      destruct (Nat.leb_spec (length ws) pos) as [Hge|Hlt].
      * rewrite nth_overflow by exact Hge. rewrite Z.testbit_0_l. reflexivity.
      * reflexivity.
    + change (-1 <? 0) with true. cbv iota. rewrite sext_neg.
      destruct (Nat.leb_spec (length ws) pos) as [Hge|Hlt].
      * rewrite nth_overflow by (rewrite set_tc_length; assumption).
        rewrite WMAX_ones, Z.ones_spec_low by lia. reflexivity.
      * rewrite set_tc_nth by assumption. reflexivity.
Qed.

Example bit_set_witness : bit_set_p 1 (Big (-1) [1; 1]) = true /\ bit_set_p 64 (Big (-1) [0; 1]) = true
  /\ bit_set_p 64 (Big (-1) [1; 1]) = false.
Proof. vm_compute. auto. Qed.
