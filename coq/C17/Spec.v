(** C17 SPEC: SRFI 151 on Coq's Z (an exact integer IS its infinite two's-complement bit string:
    Z.testbit).  Right-hand sides of the theorems and (extracted) oracle of the outer correspondence. *)
From Coq Require Import ZArith List Bool.
Import ListNotations.
Local Open Scope Z_scope.
Local Open Scope bool_scope.

(** number of 1 bits of a non-negative integer *)
Fixpoint pos_popcount (p : positive) : Z :=
  match p with xH => 1 | xO q => pos_popcount q | xI q => 1 + pos_popcount q end.
Definition Zpopcount (n : Z) : Z :=
  match n with Z0 => 0 | Zpos p => pos_popcount p | Zneg _ => 0 end.

(** SRFI 151 bit-count: for negative n the 1 bits of (bitwise-not n) *)
Definition bit_count_spec (n : Z) : Z := if n <? 0 then Zpopcount (Z.lnot n) else Zpopcount n.

(** bits needed for a non-negative m; integer-length n = bitlen (if n < 0 then lnot n else n) *)
Definition bitlen (m : Z) : Z := if m =? 0 then 0 else Z.log2 m + 1.
Definition integer_length_spec (n : Z) : Z := bitlen (if n <? 0 then Z.lnot n else n).

(** floor(n * 2^c) *)
Definition shift_spec (n c : Z) : Z := Z.shiftl n c.     (* = n * 2^c, and n / 2^(-c) (floor) for c < 0 *)

Definition field (i s e : Z) : Z := Z.land (Z.shiftr i s) (Z.ones (e - s)).
Definition fmask (s e : Z) : Z := Z.shiftl (Z.ones (e - s)) s.
Definition bitwise_if (mask i j : Z) : Z := Z.lor (Z.land mask i) (Z.land (Z.lnot mask) j).
Definition replace_same (dst src s e : Z) : Z := bitwise_if (fmask s e) src dst.
Definition replace (dst src s e : Z) : Z := replace_same dst (Z.shiftl src s) s e.

Fixpoint rev_bits (w : nat) (f acc : Z) : Z :=
  match w with O => acc | S w' => rev_bits w' (f / 2) (2 * acc + f mod 2) end.

Fixpoint first_set_pos (p : positive) : Z :=
  match p with xO q => 1 + first_set_pos q | _ => 0 end.
Definition first_set_bit (n : Z) : Z :=
  match n with Z0 => -1 | Zpos p => first_set_pos p | Zneg p => first_set_pos p end.

Inductive res := Val (z : Z) | Bool (b : bool) | Undefined.

Definition spec (op : nat) (args : list Z) : res :=
  match op, args with
  | 0%nat, [a; b] => Val (Z.land a b)
  | 1%nat, [a; b] => Val (Z.lor a b)
  | 2%nat, [a; b] => Val (Z.lxor a b)
  | 3%nat, [a; c] => Val (shift_spec a c)
  | 4%nat, [i; a] => if i <? 0 then Undefined else Bool (Z.testbit a i)
  | 5%nat, [a] => Val (Z.lnot a)
  | 6%nat, [a] => Val (bit_count_spec a)
  | 7%nat, [a] => Val (integer_length_spec a)
  | 8%nat, [a] => Val (first_set_bit a)
  | 9%nat, [a; b] => Val (Z.lnot (Z.lxor a b))                      (* eqv *)
  | 10%nat, [a; b] => Val (Z.lnot (Z.land a b))                     (* nand *)
  | 11%nat, [a; b] => Val (Z.lnot (Z.lor a b))                      (* nor *)
  | 12%nat, [a; b] => Val (Z.land (Z.lnot a) b)                     (* andc1 *)
  | 13%nat, [a; b] => Val (Z.land a (Z.lnot b))                     (* andc2 *)
  | 14%nat, [a; b] => Val (Z.lor (Z.lnot a) b)                      (* orc1 *)
  | 15%nat, [a; b] => Val (Z.lor a (Z.lnot b))                      (* orc2 *)
  | 16%nat, [m; a; b] => Val (bitwise_if m a b)
  | 17%nat, [t; a] => Bool (negb (Z.land t a =? 0))                 (* any-bit-set? *)
  | 18%nat, [t; a] => Bool (Z.land t a =? t)                        (* every-bit-set? *)
  | 19%nat, [a; s; e] => if (s <? 0) || (e <? s) then Undefined else Val (field a s e)
  | 20%nat, [a; s; e] => if (s <? 0) || (e <? s) then Undefined else Bool (negb (field a s e =? 0))
  | 21%nat, [a; s; e] => if (s <? 0) || (e <? s) then Undefined else Bool (field a s e =? Z.ones (e - s))
  | 22%nat, [a; s; e] => if (s <? 0) || (e <? s) then Undefined else Val (Z.land a (Z.lnot (fmask s e)))   (* clear *)
  | 23%nat, [a; s; e] => if (s <? 0) || (e <? s) then Undefined else Val (Z.lor a (fmask s e))              (* set *)
  | 24%nat, [d; r; s; e] => if (s <? 0) || (e <? s) then Undefined else Val (replace d r s e)
  | 25%nat, [d; r; s; e] => if (s <? 0) || (e <? s) then Undefined else Val (replace_same d r s e)
  | 26%nat, [a; c; s; e] =>                                                                                    (* rotate *)
      if (s <? 0) || (e <=? s) then Undefined else
      let w := e - s in let k := c mod w in let f := field a s e in
      Val (replace a (Z.land (Z.lor (Z.shiftl f k) (Z.shiftr f (w - k))) (Z.ones w)) s e)
  | 27%nat, [a; s; e] => if (s <? 0) || (e <? s) then Undefined else
      Val (replace a (rev_bits (Z.to_nat (e - s)) (field a s e) 0) s e)                                        (* reverse *)
  | 28%nat, [i; a; b] => if i <? 0 then Undefined else Val (replace a (if b =? 0 then 0 else 1) i (i + 1))   (* copy-bit *)
  | 29%nat, [i; j; a] => if (i <? 0) || (j <? 0) then Undefined else
      let bi := if Z.testbit a i then 1 else 0 in let bj := if Z.testbit a j then 1 else 0 in
      Val (replace (replace a bj i (i + 1)) bi j (j + 1))                                                      (* bit-swap *)
  | _, _ => Undefined
  end.
