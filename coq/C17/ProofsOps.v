(** C17 proofs, part 2: bit_and / bit_ior / bit_xor compute Z.land / Z.lor / Z.lxor. *)
From ChibiV Require Import Common.Words C17.Bits C17.Model C17.Spec C17.Proofs.
Local Open Scope Z_scope.

(** well-formed numbers: what every chibi integer object satisfies (no normalisation is required:
    a bignum may hold a small value and may carry spare high zero words) *)
Definition wfb (s : Z) (ws : list Z) : Prop :=
  (s = 1 \/ s = -1) /\ words ws /\ ws <> [] /\ (s = -1 -> 0 < val ws).
Definition wf (x : num) : Prop :=
  match x with Fix z => - FIXMAX - 1 <= z <= FIXMAX | Big s ws => wfb s ws end.

Lemma FIX_lt_B : FIXMAX + 1 < B.  Proof. reflexivity. Qed.
Lemma FIXMAX_eq_pow : FIXMAX = 2 ^ 62 - 1.  Proof. reflexivity. Qed.
Lemma sext_neg : sext (-1) = WMAX.  Proof. reflexivity. Qed.
Lemma sext_pos : sext 1 = 0.  Proof. reflexivity. Qed.
Lemma WMAX_ge_HALF : (WMAX >=? HALF) = true.  Proof. reflexivity. Qed.
Lemma zero_ge_HALF : (0 >=? HALF) = false.  Proof. reflexivity. Qed.
Lemma WMAX_nz : WMAX <> 0.  Proof. discriminate. Qed.

Lemma normalize_ival s ws : words ws -> ws <> [] -> ival (normalize s ws) = s * val ws.
Proof.
  intros Hw Hne. unfold normalize. destruct (1 <? hi ws)%nat eqn:E; [reflexivity|].
  apply Nat.ltb_ge in E. pose proof (hi_ge1 ws) as H1. assert (hi ws = 1%nat) as Hh by lia.
  pose proof (firstn_strip_val ws Hw) as Hv. rewrite Hh in Hv.
  destruct ws as [|d r]; [congruence|]. cbn [firstn val hd] in Hv |- *.
  assert (B * val r = 0) as Hz by lia.
  destruct ((d >? FIXMAX) && negb ((s =? -1) && (d =? FIXMAX + 1))); cbn [ival val]; rewrite ?Hz; ring.
Qed.

Lemma last_nz_val l : words l -> last l 0 <> 0 -> val l <> 0.
Proof.
  intros Hw Hl Hv. apply (val_zero_iff l Hw) in Hv. apply Hl. clear Hl Hw.
  induction Hv as [|x r Hx Hr IH]; [reflexivity|].
  destruct r as [|y r']; [exact Hx|]. exact IH.
Qed.

Lemma tc_spec s ws : wfb s ws ->
  tcval s (twos_complement s ws) = s * val ws /\ words (twos_complement s ws)
  /\ length (twos_complement s ws) = length ws.
Proof.
  intros ([->| ->] & Hw & Hne & Hp); unfold twos_complement.
  - change (1 <? 0) with false. cbv iota. rewrite tcval_pos by lia. repeat split; auto; lia.
  - change (-1 <? 0) with true. cbv iota. specialize (Hp eq_refl).
    rewrite tcval_set_tc by assumption. repeat split; auto using set_tc_words, set_tc_length; lia.
Qed.

Lemma tcval_repeat_WMAX k : tcval (-1) (repeat WMAX k) = -1.
Proof. induction k as [|k IH]; cbn [repeat tcval]; [reflexivity|]. rewrite IH. pose proof WMAX_eq. lia. Qed.

Lemma words_repeat_WMAX k : words (repeat WMAX k).
Proof.
  apply Forall_forall. intros x Hx. apply repeat_spec in Hx. subst.
  unfold isword. pose proof WMAX_eq. pose proof B_pos. lia.
Qed.

Lemma nth_repeat_in (a d : Z) n : forall i, (i < n)%nat -> nth i (repeat a n) d = a.
Proof. induction n as [|n IH]; intros [|i] Hi; cbn [repeat nth]; try lia; auto. apply IH. lia. Qed.

Lemma fix_to_tc_spec b len : - FIXMAX - 1 <= b < 0 -> (1 <= len)%nat ->
  tcval (-1) (fix_to_tc b len) = b /\ words (fix_to_tc b len) /\ length (fix_to_tc b len) = len
  /\ ((2 <= len)%nat -> nth (len - 1) (fix_to_tc b len) 0 = WMAX).
Proof.
  intros Hb Hl. unfold fix_to_tc. pose proof FIX_lt_B. pose proof WMAX_eq as HW.
  assert ((wnot (- b) + 1) mod B = B + b) as E.
  { unfold wnot. rewrite Z.mod_small; lia. }
  rewrite E. cbn [tcval length]. rewrite tcval_repeat_WMAX, repeat_length. repeat split; try lia.
  - constructor; [unfold isword; lia|apply words_repeat_WMAX].
  - intros H2. destruct len as [|[|k]]; try lia.
    replace (S (S k) - 1)%nat with (S k) by lia. cbn [nth]. apply nth_repeat_in. lia.
Qed.

Lemma land_ends sa sb : ends (if (sa <? 0) && (sb <? 0) then -1 else 1) = Z.land (ends sa) (ends sb).
Proof. unfold ends. destruct (sa <? 0), (sb <? 0); reflexivity. Qed.
Lemma lor_ends sa sb : ends (if (sa <? 0) || (sb <? 0) then -1 else 1) = Z.lor (ends sa) (ends sb).
Proof. unfold ends. destruct (sa <? 0), (sb <? 0); reflexivity. Qed.
Lemma lxor_ends sa sb : ends (if xorb (sa <? 0) (sb <? 0) then -1 else 1) = Z.lxor (ends sa) (ends sb).
Proof. unfold ends. destruct (sa <? 0), (sb <? 0); reflexivity. Qed.

(** a result read as negative/positive two's complement and converted back *)
Lemma back_neg r : words r -> r <> [] -> last r 0 = WMAX -> forall s, s = -1 ->
  ival (normalize s (set_tc r)) = tcval (-1) r.
Proof.
  intros Hw Hne Hl s ->. rewrite normalize_ival; [|apply set_tc_words; exact Hw|].
  - rewrite val_set_tc_neg; [lia|exact Hw|]. apply last_nz_val; [exact Hw|]. rewrite Hl. exact WMAX_nz.
  - intros E. apply (f_equal (@length Z)) in E. rewrite set_tc_length in E by exact Hw.
    destruct r; [congruence|discriminate].
Qed.

Lemma back_pos r : words r -> r <> [] -> forall s, s = 1 -> ival (normalize s r) = tcval 1 r.
Proof. intros Hw Hne s ->. rewrite normalize_ival, tcval_pos by (assumption || lia). lia. Qed.

(** * bit_and *)
Lemma zip_nonempty op m a b da db : zipext op (S m) a b da db <> [].
Proof. cbn [zipext]. discriminate. Qed.

Lemma and_core sx sy x2 y2 m :
  (sx = 1 \/ sx = -1) -> (sy = 1 \/ sy = -1) -> words x2 -> words y2 ->
  (length x2 <= m)%nat -> (length y2 <= m)%nat ->
  forall sres, (sres = 1 \/ sres = -1) ->
  let r := zipext Z.land (S m) x2 y2 (sext sx) (sext sy) in
  ival (if ((sx <? 0) || (sy <? 0)) && (last r 0 >=? HALF)
        then normalize (if sres >? 0 then - sres else sres) (set_tc r)
        else normalize (if sres <? 0 then - sres else sres) r) = Z.land (tcval sx x2) (tcval sy y2).
Proof.
  intros Hsx Hsy Hx Hy Lx Ly sres Hsres r.
  assert (Hw : words r) by (apply (zipext_words Z.land andb Z.land_spec eq_refl); assumption).
  pose proof (zip_nonempty Z.land m x2 y2 (sext sx) (sext sy)) as Hne. fold r in Hne.
  assert (Hl : last r 0 = Z.land (sext sx) (sext sy)).
  { unfold r. rewrite zipext_last, !nth_overflow by lia. reflexivity. }
  pose proof (zipext_tcval Z.land andb Z.land_spec eq_refl sx sy _ (land_ends sx sy) (S m) x2 y2 Hx Hy ltac:(lia) ltac:(lia)) as Hv.
  fold r in Hv. rewrite <- Hv.
  assert (Hs1 : (if sres >? 0 then - sres else sres) = -1) by (destruct Hsres as [-> | ->]; reflexivity).
  assert (Hs2 : (if sres <? 0 then - sres else sres) = 1) by (destruct Hsres as [-> | ->]; reflexivity).
  destruct Hsx as [-> | ->], Hsy as [-> | ->];
    rewrite ?sext_neg, ?sext_pos, ?Z.land_0_l, ?Z.land_0_r, ?Z.land_diag in Hl; rewrite Hl;
    rewrite ?WMAX_ge_HALF, ?zero_ge_HALF;
    change (1 <? 0) with false; change (-1 <? 0) with true; cbv beta iota; cbn [orb andb].
  - apply back_pos; assumption.
  - apply back_pos; assumption.
  - apply back_pos; assumption.
  - apply back_neg; assumption.
Qed.

Lemma low_digit (op : Z -> Z -> Z) f (op_spec : forall a b n, Z.testbit (op a b) n = f (Z.testbit a n) (Z.testbit b n))
  (f_ff : f false false = false) h b T : isword h -> isword b -> op (h + B * T) b = op h b + B * op T 0.
Proof.
  intros Hh Hb. pose proof (wop_digit op f op_spec f_ff h b T 0 Hh Hb) as E.
  rewrite Z.mul_0_r, Z.add_0_r in E. exact E.
Qed.

Lemma fix_word b : 0 <= b <= FIXMAX -> isword b.
Proof. pose proof FIX_lt_B. unfold isword. lia. Qed.

Lemma bit_and_big_ok sx xs y : wfb sx xs -> wf y ->
  ival (bit_and_big sx xs y) = Z.land (sx * val xs) (ival y).
Proof.
  intros Hx Hy. pose proof Hx as (Hsx & Hwx & Hnx & Hpx).
  destruct (tc_spec sx xs Hx) as (Tx & Wx & Lx).
  assert (1 <= length xs)%nat as Hlen by (destruct xs; [congruence|cbn [length]; lia]).
  unfold bit_and_big. set (x2 := twos_complement sx xs) in *.
  destruct y as [b | sy ys]; cbn [wf ival] in Hy |- *.
  - destruct (Z.ltb_spec b 0) as [Hneg|Hpos]; cbv beta iota zeta.
    + destruct (fix_to_tc_spec b (length x2)) as (Tb & Wb & Lb & _); [lia|lia|].
      rewrite Lb, Nat.ltb_irrefl. rewrite <- Tx.
      replace (Z.land (tcval sx x2) b) with (Z.land (tcval sx x2) (tcval (-1) (fix_to_tc b (length x2))))
        by (rewrite Tb; reflexivity).
      apply and_core; auto; lia.
    + destruct x2 as [|h t]; [cbn [length] in Lx; lia|].
      cbn [tcval] in Tx. rewrite <- Tx. cbn [ival hd]. inversion Wx as [|? ? Hh Ht]; subst.
      rewrite (Z.land_comm b h).
      rewrite (low_digit Z.land andb Z.land_spec eq_refl h b _ Hh (fix_word b ltac:(lia))).
      rewrite Z.land_0_r. lia.
  - destruct (tc_spec sy ys Hy) as (Ty & Wy & Ly). destruct Hy as (Hsy & _).
    cbv beta iota zeta. rewrite <- Tx, <- Ty.
    apply and_core; auto.
    + destruct (Nat.ltb_spec (length (twos_complement sy ys)) (length x2)); lia.
    + destruct (Nat.ltb_spec (length (twos_complement sy ys)) (length x2)); lia.
    + destruct (length (twos_complement sy ys) <? length x2)%nat; assumption.
Qed.

Theorem bit_and_ok x y : wf x -> wf y -> ival (bit_and x y) = Z.land (ival x) (ival y).
Proof.
  intros Hx Hy. destruct x as [a|sx xs], y as [b|sy ys]; cbn [bit_and].
  - reflexivity.
  - rewrite bit_and_big_ok by assumption. cbn [ival]. apply Z.land_comm.
  - apply bit_and_big_ok; assumption.
  - apply bit_and_big_ok; assumption.
Qed.

(** * the shared part of bit_ior / bit_xor *)
Lemma skipn_last_one (l : list Z) d : forall n, length l = S n -> skipn n l = [nth n l d].
Proof.
  induction l as [|x r IH]; intros n Hl; [discriminate|].
  destruct n as [|n]; cbn [length] in Hl.
  - destruct r; [reflexivity|discriminate].
  - cbn [skipn nth]. apply IH. lia.
Qed.

Lemma val_ext0 ws : val (ws ++ [0]) = val ws.
Proof. rewrite val_app. cbn [val]. lia. Qed.

Lemma words_ext0 ws : words ws -> words (ws ++ [0]).
Proof. intros H. apply words_app; [exact H|]. constructor; [|constructor]. unfold isword. pose proof B_pos. lia. Qed.

(** converting over one extra (zero) word makes the top word pure sign extension *)
Lemma top_set_tc_ext ws d : words ws -> 0 < val ws -> nth (length ws) (set_tc (ws ++ [0])) d = WMAX.
Proof.
  intros Hw Hp. set (n := length ws). set (l' := set_tc (ws ++ [0])).
  assert (words l') as Hw' by (apply set_tc_words, words_ext0, Hw).
  assert (length l' = S n) as Hl' by (unfold l'; rewrite set_tc_length by (apply words_ext0, Hw); rewrite app_length; cbn [length]; lia).
  assert (val l' = B ^ Z.of_nat (S n) - val ws) as Hv.
  { unfold l'. rewrite set_tc_val_pos by (rewrite ?val_ext0; auto using words_ext0).
    rewrite val_ext0, app_length. cbn [length]. replace (length ws + 1)%nat with (S n) by (unfold n; lia). reflexivity. }
  pose proof (val_firstn_skipn n l') as Hd.
  rewrite (skipn_last_one l' d n Hl') in Hd.
  rewrite firstn_length_le in Hd by lia. cbn [val] in Hd.
  pose proof (val_bound _ (words_firstn n _ Hw')) as Hb1. rewrite firstn_length_le in Hb1 by lia.
  pose proof (val_nonneg _ (words_firstn n _ Hw')) as Hb0.
  pose proof (val_bound _ Hw) as Hb2. fold n in Hb2.
  assert (isword (nth n l' d)) as Ht.
  { assert (In (nth n l' d) l') as Hin by (apply nth_In; lia).
    rewrite Forall_forall in Hw'. apply Hw'. exact Hin. }
  unfold isword in Ht. rewrite pow_B_S in Hv. pose proof (pow_B_pos n) as HP. pose proof WMAX_eq.
  set (P := B ^ Z.of_nat n) in *. set (t := nth n l' d) in *. set (F := val (firstn n l')) in *.
  assert (P * (t - (B - 2)) > 0) by lia.
  assert (t - (B - 2) > 0) by nia. lia.
Qed.

Section Wide.
  Variable op : Z -> Z -> Z.
  Variable f : bool -> bool -> bool.
  Hypothesis op_spec : forall a b n, Z.testbit (op a b) n = f (Z.testbit a n) (Z.testbit b n).
  Hypothesis f_ff : f false false = false.
  Hypothesis op_comm : forall a b, op a b = op b a.
  Variable sgn : Z -> Z -> Z.
  Hypothesis op_ends : forall sa sb, ends (sgn sa sb) = op (ends sa) (ends sb).

  Lemma wide_core sres ws stmp tmp : wfb sres ws -> (stmp = 1 \/ stmp = -1) -> words tmp ->
    (length tmp <= S (length ws))%nat -> nth (length ws) tmp (sext stmp) = sext stmp ->
    let res := ws ++ [0] in let res1 := if sres <? 0 then set_tc res else res in
    let r := zipext op (length res1) res1 tmp 0 (sext stmp) in
    words r /\ r <> [] /\ tcval (sgn sres stmp) r = op (sres * val ws) (tcval stmp tmp)
    /\ last r 0 = op (sext sres) (sext stmp).
  Proof.
    intros Hwf Hst Wt Lt Ht res res1 r.
    assert (wfb sres res) as Hwf1.
    { destruct Hwf as (Hs & Hw & Hne & Hp). unfold res. repeat split; auto using words_ext0.
      - destruct ws; discriminate.
      - rewrite val_ext0. exact Hp. }
    destruct (tc_spec sres res Hwf1) as (T1 & W1 & L1).
    change (twos_complement sres res) with res1 in *.
    assert (length res1 = S (length ws)) as L1'.
    { rewrite L1. unfold res. rewrite app_length. cbn [length]. lia. }
    unfold res in T1. rewrite val_ext0 in T1.
    assert (r = zipext op (S (length ws)) res1 tmp (sext sres) (sext stmp)) as Er.
    { unfold r. rewrite L1'. apply zipext_default_a. lia. }
    rewrite Er. repeat split.
    - apply (zipext_words op f op_spec f_ff); assumption.
    - apply zip_nonempty.
    - rewrite <- T1. apply (zipext_tcval op f op_spec f_ff); auto; lia.
    - rewrite zipext_last, Ht. f_equal.
      destruct Hwf as ([-> | ->] & Hw & Hne & Hp).
      + unfold res1, res. change (1 <? 0) with false. cbv iota.
        rewrite app_nth2, Nat.sub_diag by lia. reflexivity.
      + unfold res1, res. change (-1 <? 0) with true. cbv iota. rewrite sext_neg.
        apply top_set_tc_ext; auto.
  Qed.

  Definition ysign (y : num) : Z := match y with Fix _ => -1 | Big sy _ => sy end.

  Lemma wide_op_spec sx xs y : wfb sx xs -> wf y -> (match y with Fix b => b < 0 | Big _ _ => True end) ->
    let '(sres, r, stmp) := wide_op op sx xs y in
    (sres = 1 \/ sres = -1) /\ (stmp = 1 \/ stmp = -1) /\ words r /\ r <> [] /\
    tcval (sgn sres stmp) r = op (sx * val xs) (ival y) /\
    last r 0 = op (sext sres) (sext stmp).
  Proof.
    intros Hx Hy Hneg. pose proof Hx as (Hsx & Hwx & Hnx & Hpx).
    assert (1 <= length xs)%nat as Hlen by (destruct xs; [congruence|cbn [length]; lia]).
    unfold wide_op. destruct y as [b|sy ys]; cbn [wf ival] in *.
    - destruct (fix_to_tc_spec b (S (length xs))) as (Tb & Wb & Lb & Nb); [lia|lia|].
      cbv beta iota zeta.
      destruct (wide_core sx xs (-1) (fix_to_tc b (S (length xs))) Hx (or_intror eq_refl) Wb ltac:(lia)) as (A & A' & C & D).
      { rewrite sext_neg. replace (S (length xs) - 1)%nat with (length xs) in Nb by lia.
        erewrite nth_indep; [apply Nb; lia|lia]. }
      rewrite Tb in C. repeat split; auto.
    - pose proof Hy as (Hsy & Hwy & Hny & Hpy).
      destruct (Nat.leb_spec (length ys) (length xs)) as [Hle|Hgt]; cbv beta iota zeta.
      + destruct (tc_spec sy ys Hy) as (Ty & Wy & Ly).
        destruct (wide_core sx xs sy (twos_complement sy ys) Hx Hsy Wy ltac:(lia)) as (A & A' & C & D).
        { apply nth_overflow. lia. }
        rewrite Ty in C. repeat split; auto.
      + destruct (tc_spec sx xs Hx) as (Tx & Wx & Lx).
        destruct (wide_core sy ys sx (twos_complement sx xs) Hy Hsx Wx ltac:(lia)) as (A & A' & C & D).
        { apply nth_overflow. lia. }
        rewrite Tx, op_comm in C. repeat split; auto.
  Qed.
End Wide.

(** * bit_ior *)
Definition sgn_or (a b : Z) : Z := if (a <? 0) || (b <? 0) then -1 else 1.
Definition sgn_xor (a b : Z) : Z := if xorb (a <? 0) (b <? 0) then -1 else 1.

Lemma ior_tail sres stmp r : (sres = 1 \/ sres = -1) -> (stmp = 1 \/ stmp = -1) -> words r -> r <> [] ->
  last r 0 = Z.lor (sext sres) (sext stmp) ->
  ival (if ((sres <? 0) || (stmp <? 0)) && (last r 0 >=? HALF)
        then normalize (if sres >? 0 then - sres else sres) (set_tc r)
        else normalize sres r) = tcval (sgn_or sres stmp) r.
Proof.
  intros Hs Ht Hw Hne Hl. unfold sgn_or.
  destruct Hs as [-> | ->], Ht as [-> | ->];
    rewrite ?sext_neg, ?sext_pos, ?Z.lor_0_l, ?Z.lor_0_r, ?Z.lor_diag in Hl; rewrite Hl;
    rewrite ?WMAX_ge_HALF, ?zero_ge_HALF;
    change (1 <? 0) with false; change (-1 <? 0) with true; change (1 >? 0) with true; change (-1 >? 0) with false;
    cbv beta iota; cbn [orb andb].
  - apply back_pos; auto.
  - apply back_neg; auto.
  - apply back_neg; auto.
  - apply back_neg; auto.
Qed.

Lemma xor_tail sres stmp r : (sres = 1 \/ sres = -1) -> (stmp = 1 \/ stmp = -1) -> words r -> r <> [] ->
  last r 0 = Z.lxor (sext sres) (sext stmp) ->
  ival (sign_fixup sres r) = tcval (sgn_xor sres stmp) r.
Proof.
  intros Hs Ht Hw Hne Hl. unfold sgn_xor, sign_fixup.
  destruct Hs as [-> | ->], Ht as [-> | ->];
    rewrite ?sext_neg, ?sext_pos, ?Z.lxor_0_l, ?Z.lxor_0_r, ?Z.lxor_nilpotent in Hl; rewrite Hl;
    rewrite ?WMAX_ge_HALF, ?zero_ge_HALF;
    change (1 <? 0) with false; change (-1 <? 0) with true; change (1 >? 0) with true; change (-1 >? 0) with false;
    cbv beta iota; cbn [xorb].
  - apply back_pos; auto.
  - apply back_neg; auto.
  - apply back_neg; auto.
  - apply back_pos; auto.
Qed.

Lemma sgn_or_ends sa sb : ends (sgn_or sa sb) = Z.lor (ends sa) (ends sb).
Proof. apply lor_ends. Qed.
Lemma sgn_xor_ends sa sb : ends (sgn_xor sa sb) = Z.lxor (ends sa) (ends sb).
Proof. apply lxor_ends. Qed.

(** res[0] op= b for a non-negative fixnum b, on a word list read with sign extension *)
Lemma low_op_tcval (op : Z -> Z -> Z) f (op_spec : forall a b n, Z.testbit (op a b) n = f (Z.testbit a n) (Z.testbit b n))
  (f_ff : f false false = false) (op_0_r : forall a, op a 0 = a) s l b :
  words l -> l <> [] -> isword b ->
  tcval s (low_op op l b) = op (tcval s l) b /\ words (low_op op l b) /\ length (low_op op l b) = length l.
Proof.
  intros Hw Hne Hb. destruct l as [|h t]; [congruence|]. inversion Hw as [|? ? Hh Ht]; subst.
  cbn [low_op tcval length]. rewrite (low_digit op f op_spec f_ff h b _ Hh Hb), op_0_r.
  repeat split. constructor; [apply (wop_word op f op_spec f_ff); assumption|exact Ht].
Qed.

Lemma low_op_last (op : Z -> Z -> Z) l b : (2 <= length l)%nat -> last (low_op op l b) 0 = last l 0.
Proof. destruct l as [|h [|y t]]; cbn [length]; try lia. intros _. reflexivity. Qed.

Lemma nonempty_len (l : list Z) : l <> [] <-> (1 <= length l)%nat.
Proof. destruct l; cbn [length]; split; intros; try congruence; lia. Qed.

Lemma bit_ior_big_ok sx xs y : wfb sx xs -> wf y ->
  ival (bit_ior_big sx xs y) = Z.lor (sx * val xs) (ival y).
Proof.
  intros Hx Hy. pose proof Hx as (Hsx & Hwx & Hnx & Hpx).
  assert (Hwide : (match y with Fix b => b < 0 | Big _ _ => True end) ->
     ival (let '(sres, r, stmp) := wide_op Z.lor sx xs y in
           if ((sres <? 0) || (stmp <? 0)) && (last r 0 >=? HALF)
           then normalize (if sres >? 0 then - sres else sres) (set_tc r)
           else normalize sres r) = Z.lor (sx * val xs) (ival y)).
  { intros Hneg.
    pose proof (wide_op_spec Z.lor orb Z.lor_spec eq_refl Z.lor_comm sgn_or sgn_or_ends sx xs y Hx Hy Hneg) as H.
    destruct (wide_op Z.lor sx xs y) as [[sres r] stmp].
    destruct H as (Hs & Ht & Hw & Hne & Hv & Hl).
    rewrite <- Hv. apply ior_tail; auto. }
  unfold bit_ior_big. destruct y as [b|sy ys]; [|apply Hwide; exact I].
  destruct (Z.leb_spec 0 b) as [Hpos|Hneg]; [|apply Hwide; exact Hneg].
  cbn [wf ival] in Hy |- *. cbv zeta.
  assert (isword b) as Hb by (apply fix_word; lia).
  destruct Hsx as [-> | ->].
  - change (1 <? 0) with false. cbv iota.
    destruct (low_op_tcval Z.lor orb Z.lor_spec eq_refl Z.lor_0_r 1 xs b Hwx Hnx Hb) as (Tv & Tw & Tl).
    rewrite normalize_ival; [|exact Tw|apply nonempty_len; rewrite Tl; apply nonempty_len; exact Hnx].
    rewrite !tcval_pos in Tv by lia. rewrite !Z.mul_1_l. exact Tv.
  - change (-1 <? 0) with true. cbv iota. specialize (Hpx eq_refl).
    assert (words (set_tc xs)) as W1 by (apply set_tc_words; exact Hwx).
    assert (set_tc xs <> []) as N1 by (apply nonempty_len; rewrite set_tc_length by exact Hwx; apply nonempty_len; exact Hnx).
    destruct (low_op_tcval Z.lor orb Z.lor_spec eq_refl Z.lor_0_r (-1) (set_tc xs) b W1 N1 Hb) as (Tv & Tw & Tl).
    rewrite tcval_set_tc in Tv by assumption.
    assert (val (low_op Z.lor (set_tc xs) b) <> 0) as Hnz.
    { pose proof (set_tc_val_pos xs Hwx Hpx) as Hv1. pose proof (val_bound _ Hwx) as Hb2.
      clear Tv Tw Tl. destruct (set_tc xs) as [|h t]; [congruence|].
      inversion W1 as [|? ? Hh Ht]; subst. cbn [low_op val] in *. intros E.
      pose proof (val_nonneg t Ht). pose proof (wop_word Z.lor orb Z.lor_spec eq_refl h b Hh Hb) as Hlw.
      unfold isword in Hlw. pose proof B_pos.
      assert (Z.lor h b = 0 /\ val t = 0) as [E1 E2] by nia.
      apply Z.lor_eq_0_iff in E1. destruct E1 as [E1 _]. subst h. lia. }
    set (r2 := low_op Z.lor (set_tc xs) b) in *.
    rewrite normalize_ival; [|apply set_tc_words; exact Tw|].
    + rewrite val_set_tc_neg by assumption. replace (-1 * val xs) with (- val xs) by lia. rewrite Tv. lia.
    + apply nonempty_len. rewrite set_tc_length by exact Tw. rewrite Tl. apply nonempty_len. exact N1.
Qed.

Theorem bit_ior_ok x y : wf x -> wf y -> ival (bit_ior x y) = Z.lor (ival x) (ival y).
Proof.
  intros Hx Hy. destruct x as [a|sx xs], y as [b|sy ys]; cbn [bit_ior].
  - reflexivity.
  - rewrite bit_ior_big_ok by assumption. cbn [ival]. apply Z.lor_comm.
  - apply bit_ior_big_ok; assumption.
  - apply bit_ior_big_ok; assumption.
Qed.

(** * bit_xor *)
Lemma bit_xor_big_ok sx xs y : wfb sx xs -> wf y ->
  ival (bit_xor_big sx xs y) = Z.lxor (sx * val xs) (ival y).
Proof.
  intros Hx Hy. pose proof Hx as (Hsx & Hwx & Hnx & Hpx).
  assert (Hwide : (match y with Fix b => b < 0 | Big _ _ => True end) ->
     ival (let '(sres, r, _) := wide_op Z.lxor sx xs y in sign_fixup sres r) = Z.lxor (sx * val xs) (ival y)).
  { intros Hneg.
    pose proof (wide_op_spec Z.lxor xorb Z.lxor_spec eq_refl Z.lxor_comm sgn_xor sgn_xor_ends sx xs y Hx Hy Hneg) as H.
    destruct (wide_op Z.lxor sx xs y) as [[sres r] stmp].
    destruct H as (Hs & Ht & Hw & Hne & Hv & Hl).
    rewrite <- Hv. apply xor_tail; auto. }
  unfold bit_xor_big. destruct y as [b|sy ys]; [|apply Hwide; exact I].
  destruct (Z.leb_spec 0 b) as [Hpos|Hneg]; [|apply Hwide; exact Hneg].
  cbn [wf ival] in Hy |- *. cbv zeta.
  assert (isword b) as Hb by (apply fix_word; lia).
  assert (words (xs ++ [0])) as W0 by (apply words_ext0; exact Hwx).
  assert (xs ++ [0] <> []) as N0 by (destruct xs; discriminate).
  destruct Hsx as [-> | ->].
  - change (1 <? 0) with false. cbv iota.
    destruct (low_op_tcval Z.lxor xorb Z.lxor_spec eq_refl Z.lxor_0_r 1 (xs ++ [0]) b W0 N0 Hb) as (Tv & Tw & Tl).
    rewrite normalize_ival; [|exact Tw|apply nonempty_len; rewrite Tl; apply nonempty_len; exact N0].
    rewrite !tcval_pos in Tv by lia. rewrite val_ext0 in Tv. rewrite !Z.mul_1_l. exact Tv.
  - change (-1 <? 0) with true. cbv iota. specialize (Hpx eq_refl).
    assert (words (set_tc (xs ++ [0]))) as W1 by (apply set_tc_words; exact W0).
    assert (length (set_tc (xs ++ [0])) = S (length xs)) as L1
      by (rewrite set_tc_length by exact W0; rewrite app_length; cbn [length]; lia).
    assert (set_tc (xs ++ [0]) <> []) as N1 by (apply nonempty_len; lia).
    destruct (low_op_tcval Z.lxor xorb Z.lxor_spec eq_refl Z.lxor_0_r (-1) (set_tc (xs ++ [0])) b W1 N1 Hb) as (Tv & Tw & Tl).
    rewrite tcval_set_tc in Tv by (rewrite ?val_ext0; assumption). rewrite val_ext0 in Tv.
    replace (-1 * val xs) with (- val xs) by lia. rewrite <- Tv.
    apply back_neg; auto.
    + apply nonempty_len. rewrite Tl. lia.
    + rewrite low_op_last by (apply nonempty_len in Hnx; lia).
      rewrite last_nth, L1. replace (S (length xs) - 1)%nat with (length xs) by lia.
      apply top_set_tc_ext; assumption.
Qed.

Theorem bit_xor_ok x y : wf x -> wf y -> ival (bit_xor x y) = Z.lxor (ival x) (ival y).
Proof.
  intros Hx Hy. destruct x as [a|sx xs], y as [b|sy ys]; cbn [bit_xor].
  - reflexivity.
  - rewrite bit_xor_big_ok by assumption. cbn [ival]. apply Z.lxor_comm.
  - apply bit_xor_big_ok; assumption.
  - apply bit_xor_big_ok; assumption.
Qed.

(** hypotheses are satisfiable on the probed witnesses (F-C17-1, F-C17-6, F-C17-7) *)
Example bit_xor_witness :
  ival (bit_xor (Big (-1) [0; 1]) (Big 1 [0; 0; 4])) = - (2 ^ 130 + 2 ^ 64).
Proof. vm_compute. reflexivity. Qed.
Example bit_and_witness :
  ival (bit_and (Big (-1) [0; 9223372036854775808]) (Big (-1) [0; 9223372036854775809])) = - 2 ^ 128.
Proof. vm_compute. reflexivity. Qed.
Example bit_ior_witness :
  ival (bit_ior (Big (-1) [1; 9223372036854775808]) (Big 1 [0; 1])) = - (2 ^ 127 + 1).
Proof. vm_compute. reflexivity. Qed.
Example wf_witness : wf (Big (-1) [0; 1]) /\ wf (Big 1 [0; 0; 4]) /\ wf (Fix (-5)).
Proof.
  repeat split; try (left; reflexivity); try (right; reflexivity); try discriminate;
    try (repeat constructor; unfold isword, B; lia); try (intros _; reflexivity); unfold FIXMAX; lia.
Qed.
