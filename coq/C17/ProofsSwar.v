(** C17 proofs, part 7: the SWAR population count of ONE 64-bit word (bit_count, bit.c:332-339; model
    [bit_count_w]) equals the number of 1 bits, for every word.

    Shape of the proof: a word is 8 bytes ([valb]); the masks are the same byte repeated ([mk]); each of the
    three masking stages acts on every byte separately (the bits a right shift brings in from the next byte
    are removed by the mask, or land in a nibble that cannot overflow because every nibble is <= 4 by then);
    the per-byte facts are decided by a sweep over all 256 byte values (vm_compute, lifted by forallb_forall);
    the final multiplication by 0x0101..01 sums the eight byte counts into the top byte (no carries, every
    partial sum is <= 64).  2^64 stays folded as [B] except in the two linear goals of [final_sum]. *)
From Coq Require Import ZArith List Lia Bool.
From ChibiV Require Import Common.Words C17.Bits C17.Model C17.Spec C17.Proofs C17.ProofsOps C17.ProofsCount.
Import ListNotations.
Local Open Scope Z_scope.
Ltac Zify.zify_post_hook ::= Z.div_mod_to_equations.

Definition isbyte (b : Z) : Prop := 0 <= b < 256.
(** both nibbles of a byte are <= 4 (true of every byte after stage 2) *)
Definition nib4 (b : Z) : Prop := b mod 16 <= 4 /\ b / 16 <= 4.

Fixpoint valb (l : list Z) : Z := match l with [] => 0 | b :: r => b + 256 * valb r end.
Fixpoint mk (c : Z) (n : nat) : Z := match n with O => 0 | S k => c + 256 * mk c k end.
Fixpoint to_bytes (n : nat) (w : Z) : list Z :=
  match n with O => [] | S k => w mod 256 :: to_bytes k (w / 256) end.

(** the three masking stages of bit_count with the mask as a parameter *)
Definition st1 (m i : Z) : Z := i - Z.land (i / 2) m.
Definition st2 (m i : Z) : Z := Z.land i m + Z.land (i / 4) m.
Definition st3 (m i : Z) : Z := Z.land (i + i / 16) m.
(** the whole computation on one byte *)
Definition pc8 (b : Z) : Z := st3 15 (st2 51 (st1 85 b)).

Lemma bit_count_w_stages i :
  bit_count_w i = (let i1 := st1 M1 i mod B in
                   let i2 := st2 M2 i1 mod B in
                   let i3 := Z.land ((i2 + i2 / 16) mod B) M4 in
                   (i3 * H01) mod B / 2 ^ 56).
Proof. reflexivity. Qed.

Lemma M1_mk : M1 = mk 85 8.  Proof. vm_compute. reflexivity. Qed.
Lemma M2_mk : M2 = mk 51 8.  Proof. vm_compute. reflexivity. Qed.
Lemma M4_mk : M4 = mk 15 8.  Proof. vm_compute. reflexivity. Qed.
Lemma B_256 : B = 256 ^ Z.of_nat 8.  Proof. vm_compute. reflexivity. Qed.

(** * sweeps over the 256 byte values *)
Definition all_bytes : list Z := map Z.of_nat (seq 0 256).
Lemma byte_in b : isbyte b -> In b all_bytes.
Proof.
  unfold isbyte. intros H. unfold all_bytes. rewrite <- (Z2Nat.id b) by lia.
  apply in_map, in_seq. lia.
Qed.

Definition nib4b (b : Z) : bool := (b mod 16 <=? 4) && (b / 16 <=? 4).

Definition chk_byte (b : Z) : bool :=
  let b1 := st1 85 b in let b2 := st2 51 b1 in
  (0 <=? b1) && (b1 <? 256) && (0 <=? b2) && (b2 <? 256) && nib4b b2
  && (pc8 b =? Zpopcount b) && (0 <=? pc8 b) && (pc8 b <=? 8).
Definition chk1 (bc : Z * Z) : bool := let '(b, c) := bc in Z.land (b / 2 + 128 * c) 85 =? Z.land (b / 2) 85.
Definition chk2 (bc : Z * Z) : bool := let '(b, c) := bc in Z.land (b / 4 + 64 * c) 51 =? Z.land (b / 4) 51.
Definition chk3 (bc : Z * Z) : bool :=
  let '(b, c) := bc in
  if nib4b b then (b + b / 16 + 16 * c <? 256) && (Z.land (b + b / 16 + 16 * c) 15 =? Z.land (b + b / 16) 15) else true.

Lemma sweep_byte : forallb chk_byte all_bytes = true.  Proof. vm_compute. reflexivity. Qed.
Lemma sweep1 : forallb chk1 (list_prod all_bytes [0; 1]) = true.  Proof. vm_compute. reflexivity. Qed.
Lemma sweep2 : forallb chk2 (list_prod all_bytes [0; 1; 2; 3]) = true.  Proof. vm_compute. reflexivity. Qed.
Lemma sweep3 : forallb chk3 (list_prod all_bytes [0; 1; 2; 3; 4]) = true.  Proof. vm_compute. reflexivity. Qed.

Lemma byte_facts b : isbyte b ->
  isbyte (st1 85 b) /\ isbyte (st2 51 (st1 85 b)) /\ nib4 (st2 51 (st1 85 b))
  /\ pc8 b = Zpopcount b /\ 0 <= pc8 b <= 8.
Proof.
  intros Hb. pose proof (proj1 (forallb_forall _ _) sweep_byte b (byte_in b Hb)) as H.
  unfold chk_byte, nib4b in H. cbv zeta in H.
  rewrite !andb_true_iff, !Z.leb_le, !Z.ltb_lt, !Z.eqb_eq in H.
  unfold isbyte, nib4. intuition.
Qed.

Lemma leak1 b c : isbyte b -> 0 <= c < 2 -> Z.land (b / 2 + 128 * c) 85 = Z.land (b / 2) 85.
Proof.
  intros Hb Hc.
  assert (In c [0; 1]) as Hin by (assert (c = 0 \/ c = 1) as [-> | ->] by lia; cbn [In]; auto).
  pose proof (proj1 (forallb_forall _ _) sweep1 (b, c) (in_prod _ _ _ _ (byte_in b Hb) Hin)) as H.
  apply Z.eqb_eq in H. exact H.
Qed.

Lemma leak2 b c : isbyte b -> 0 <= c < 4 -> Z.land (b / 4 + 64 * c) 51 = Z.land (b / 4) 51.
Proof.
  intros Hb Hc.
  assert (In c [0; 1; 2; 3]) as Hin
    by (assert (c = 0 \/ c = 1 \/ c = 2 \/ c = 3) as [-> | [-> | [-> | ->]]] by lia; cbn [In]; auto).
  pose proof (proj1 (forallb_forall _ _) sweep2 (b, c) (in_prod _ _ _ _ (byte_in b Hb) Hin)) as H.
  apply Z.eqb_eq in H. exact H.
Qed.

Lemma leak3 b c : isbyte b -> nib4 b -> 0 <= c <= 4 ->
  b + b / 16 + 16 * c < 256 /\ Z.land (b + b / 16 + 16 * c) 15 = Z.land (b + b / 16) 15.
Proof.
  intros Hb [Hn1 Hn2] Hc.
  assert (In c [0; 1; 2; 3; 4]) as Hin
    by (assert (c = 0 \/ c = 1 \/ c = 2 \/ c = 3 \/ c = 4) as [-> | [-> | [-> | [-> | ->]]]] by lia; cbn [In]; auto 6).
  pose proof (proj1 (forallb_forall _ _) sweep3 (b, c) (in_prod _ _ _ _ (byte_in b Hb) Hin)) as H.
  unfold chk3, nib4b in H.
  apply Z.leb_le in Hn1, Hn2. rewrite Hn1, Hn2 in H. cbn [andb] in H.
  apply andb_prop in H. destruct H as [H1 H2]. apply Z.ltb_lt in H1. apply Z.eqb_eq in H2. auto.
Qed.

(** * one byte step of each stage *)
Lemma land_byte x y t u : 0 <= x < 256 -> 0 <= y < 256 ->
  Z.land (x + 256 * t) (y + 256 * u) = Z.land x y + 256 * Z.land t u.
Proof. intros Hx Hy. exact (land_digit 8 x y t u ltac:(lia) Hx Hy). Qed.

Lemma st1_step m b t : isbyte b -> 0 <= t -> st1 (85 + 256 * m) (b + 256 * t) = st1 85 b + 256 * st1 m t.
Proof.
  unfold isbyte, st1. intros Hb Ht.
  assert ((b + 256 * t) / 2 = (b / 2 + 128 * (t mod 2)) + 256 * (t / 2)) as -> by lia.
  rewrite land_byte by lia. rewrite leak1 by (unfold isbyte; lia). lia.
Qed.

Lemma st2_step m b t : isbyte b -> 0 <= t -> st2 (51 + 256 * m) (b + 256 * t) = st2 51 b + 256 * st2 m t.
Proof.
  unfold isbyte, st2. intros Hb Ht.
  assert ((b + 256 * t) / 4 = (b / 4 + 64 * (t mod 4)) + 256 * (t / 4)) as -> by lia.
  rewrite !land_byte by lia. rewrite leak2 by (unfold isbyte; lia). lia.
Qed.

Lemma st3_step m b t : isbyte b -> nib4 b -> 0 <= t -> t mod 16 <= 4 ->
  st3 (15 + 256 * m) (b + 256 * t) = st3 15 b + 256 * st3 m t.
Proof.
  unfold st3. intros Hb Hn Ht Htm.
  destruct (leak3 b (t mod 16) Hb Hn ltac:(lia)) as [Hlt Hl].
  unfold isbyte in Hb.
  assert (b + 256 * t + (b + 256 * t) / 16 = (b + b / 16 + 16 * (t mod 16)) + 256 * (t + t / 16)) as -> by lia.
  rewrite land_byte by lia. rewrite Hl. reflexivity.
Qed.

(** * the stages on byte lists *)
Lemma valb_bound l : Forall isbyte l -> 0 <= valb l < 256 ^ Z.of_nat (length l).
Proof.
  induction 1 as [|b r Hb Hr IH]; cbn [valb length].
  - rewrite Z.pow_0_r. lia.
  - rewrite Nat2Z.inj_succ, Z.pow_succ_r by lia. unfold isbyte in Hb. lia.
Qed.

Lemma st1_valb l : Forall isbyte l -> st1 (mk 85 (length l)) (valb l) = valb (map (st1 85) l).
Proof.
  induction 1 as [|b r Hb Hr IH]; cbn [valb length mk map]; [reflexivity|].
  rewrite st1_step by (try exact Hb; apply valb_bound; exact Hr). rewrite IH. reflexivity.
Qed.

Lemma st2_valb l : Forall isbyte l -> st2 (mk 51 (length l)) (valb l) = valb (map (st2 51) l).
Proof.
  induction 1 as [|b r Hb Hr IH]; cbn [valb length mk map]; [reflexivity|].
  rewrite st2_step by (try exact Hb; apply valb_bound; exact Hr). rewrite IH. reflexivity.
Qed.

Lemma valb_mod16 l : Forall (fun b => isbyte b /\ nib4 b) l -> valb l mod 16 <= 4.
Proof.
  destruct 1 as [|b r [Hb [Hn _]] Hr]; cbn [valb]; [change (0 mod 16) with 0; lia|].
  unfold isbyte in Hb. lia.
Qed.

Lemma Forall_fst_byte l : Forall (fun b => isbyte b /\ nib4 b) l -> Forall isbyte l.
Proof. apply Forall_impl. intros a [H _]. exact H. Qed.

Lemma st3_valb l : Forall (fun b => isbyte b /\ nib4 b) l ->
  st3 (mk 15 (length l)) (valb l) = valb (map (st3 15) l).
Proof.
  induction 1 as [|b r [Hb Hn] Hr IH]; cbn [valb length mk map]; [reflexivity|].
  rewrite st3_step; [rewrite IH; reflexivity|exact Hb|exact Hn| |apply valb_mod16; exact Hr].
  apply valb_bound, Forall_fst_byte, Hr.
Qed.

(** a list of bytes below 128 is below half of its range: i + i/16 does not wrap *)
Lemma valb_half l : Forall (fun b => 0 <= b < 128) l -> 0 <= 2 * valb l < 256 ^ Z.of_nat (length l).
Proof.
  induction 1 as [|b r Hb Hr IH]; cbn [valb length].
  - rewrite Z.pow_0_r. lia.
  - rewrite Nat2Z.inj_succ, Z.pow_succ_r by lia. lia.
Qed.

(** * the final multiplication: the byte sums accumulate in the top byte *)
Lemma final_sum c0 c1 c2 c3 c4 c5 c6 c7 :
  0 <= c0 <= 8 -> 0 <= c1 <= 8 -> 0 <= c2 <= 8 -> 0 <= c3 <= 8 ->
  0 <= c4 <= 8 -> 0 <= c5 <= 8 -> 0 <= c6 <= 8 -> 0 <= c7 <= 8 ->
  (valb [c0; c1; c2; c3; c4; c5; c6; c7] * H01) mod B / 2 ^ 56 = c0 + c1 + c2 + c3 + c4 + c5 + c6 + c7.
Proof.
  intros H0 H1 H2 H3 H4 H5 H6 H7.
  set (lo := c0 + 256 * (c0 + c1) + 65536 * (c0 + c1 + c2) + 16777216 * (c0 + c1 + c2 + c3)
             + 4294967296 * (c0 + c1 + c2 + c3 + c4) + 1099511627776 * (c0 + c1 + c2 + c3 + c4 + c5)
             + 281474976710656 * (c0 + c1 + c2 + c3 + c4 + c5 + c6)).
  set (s := c0 + c1 + c2 + c3 + c4 + c5 + c6 + c7).
  set (q := (c1 + c2 + c3 + c4 + c5 + c6 + c7) + 256 * (c2 + c3 + c4 + c5 + c6 + c7)
            + 65536 * (c3 + c4 + c5 + c6 + c7) + 16777216 * (c4 + c5 + c6 + c7)
            + 4294967296 * (c5 + c6 + c7) + 1099511627776 * (c6 + c7) + 281474976710656 * c7).
  assert ((valb [c0; c1; c2; c3; c4; c5; c6; c7] * H01) mod B = lo + 72057594037927936 * s) as ->.
  { symmetry. apply Z.mod_unique with (q := q).
    - left. unfold B, lo, s. lia.
    - cbn [valb]. unfold H01, B, lo, s, q. lia. }
  symmetry. apply Z.div_unique with (r := lo).
  - left. unfold lo. change (2 ^ 56) with 72057594037927936. lia.
  - change (2 ^ 56) with 72057594037927936. lia.
Qed.

Lemma Zpopcount_valb_cons b r : isbyte b -> 0 <= valb r ->
  Zpopcount (valb (b :: r)) = Zpopcount b + Zpopcount (valb r).
Proof. intros Hb Hr. exact (Zpopcount_digit_gen 8 b (valb r) Hb Hr). Qed.

(** * every 8-byte word *)
Lemma bit_count_w_valb l : length l = 8%nat -> Forall isbyte l -> bit_count_w (valb l) = Zpopcount (valb l).
Proof.
  intros Hlen Hl.
  (* per-byte facts for the three intermediate lists *)
  assert (Forall isbyte (map (st1 85) l)) as Hl1.
  { apply Forall_forall. intros x Hx. apply in_map_iff in Hx. destruct Hx as (b & <- & Hb).
    assert (isbyte b) as Hbb by (exact (proj1 (Forall_forall _ _) Hl b Hb)).
    destruct (byte_facts b Hbb) as (H1 & _). exact H1. }
  assert (Forall (fun b => isbyte b /\ nib4 b) (map (st2 51) (map (st1 85) l))) as Hl2.
  { apply Forall_forall. intros x Hx. apply in_map_iff in Hx. destruct Hx as (y & <- & Hy).
    apply in_map_iff in Hy. destruct Hy as (b & <- & Hb).
    assert (isbyte b) as Hbb by (exact (proj1 (Forall_forall _ _) Hl b Hb)).
    destruct (byte_facts b Hbb) as (_ & H2 & H3 & _). auto. }
  assert (Forall (fun b => 0 <= b < 128) (map (st2 51) (map (st1 85) l))) as Hl2'.
  { revert Hl2. apply Forall_impl. intros a [Ha [_ Hn]]. unfold isbyte in Ha. lia. }
  rewrite bit_count_w_stages. cbv zeta.
  rewrite M1_mk, M2_mk, M4_mk.
  (* stage 1 *)
  pose proof (st1_valb l Hl) as S1. rewrite Hlen in S1. rewrite S1.
  pose proof (valb_bound _ Hl1) as Hb1. rewrite map_length, Hlen, <- B_256 in Hb1.
  rewrite (Z.mod_small (valb (map (st1 85) l)) B) by exact Hb1.
  (* stage 2 *)
  pose proof (st2_valb _ Hl1) as S2. rewrite map_length, Hlen in S2. rewrite S2.
  pose proof (valb_bound _ (Forall_fst_byte _ Hl2)) as Hb2. rewrite !map_length, Hlen, <- B_256 in Hb2.
  rewrite (Z.mod_small (valb (map (st2 51) (map (st1 85) l))) B) by exact Hb2.
  (* stage 3 *)
  pose proof (valb_half _ Hl2') as Hh2. rewrite !map_length, Hlen, <- B_256 in Hh2.
  set (i2 := valb (map (st2 51) (map (st1 85) l))) in *.
  assert (0 <= i2 + i2 / 16 < B) as Hs3 by lia.
  rewrite (Z.mod_small (i2 + i2 / 16) B) by exact Hs3.
  change (Z.land (i2 + i2 / 16) (mk 15 8)) with (st3 (mk 15 8) i2). subst i2.
  pose proof (st3_valb _ Hl2) as S3. rewrite !map_length, Hlen in S3. rewrite S3.
  (* the explicit eight bytes *)
  destruct l as [|b0 [|b1 [|b2 [|b3 [|b4 [|b5 [|b6 [|b7 [|? ?]]]]]]]]]; try discriminate Hlen.
  repeat match goal with H : Forall _ (_ :: _) |- _ => apply Forall_cons_iff in H; destruct H as [? H] end.
  cbn [map]. fold (pc8 b0) (pc8 b1) (pc8 b2) (pc8 b3) (pc8 b4) (pc8 b5) (pc8 b6) (pc8 b7).
  destruct (byte_facts b0 ltac:(assumption)) as (_ & _ & _ & E0 & R0).
  destruct (byte_facts b1 ltac:(assumption)) as (_ & _ & _ & E1 & R1).
  destruct (byte_facts b2 ltac:(assumption)) as (_ & _ & _ & E2 & R2).
  destruct (byte_facts b3 ltac:(assumption)) as (_ & _ & _ & E3 & R3).
  destruct (byte_facts b4 ltac:(assumption)) as (_ & _ & _ & E4 & R4).
  destruct (byte_facts b5 ltac:(assumption)) as (_ & _ & _ & E5 & R5).
  destruct (byte_facts b6 ltac:(assumption)) as (_ & _ & _ & E6 & R6).
  destruct (byte_facts b7 ltac:(assumption)) as (_ & _ & _ & E7 & R7).
  rewrite final_sum by assumption.
  rewrite E0, E1, E2, E3, E4, E5, E6, E7.
  rewrite !Zpopcount_valb_cons by (try assumption; cbn [valb]; unfold isbyte in *; lia).
  cbn [valb]. change (Zpopcount 0) with 0. lia.
Qed.

Lemma to_bytes_spec n : forall w, 0 <= w < 256 ^ Z.of_nat n ->
  valb (to_bytes n w) = w /\ Forall isbyte (to_bytes n w) /\ length (to_bytes n w) = n.
Proof.
  induction n as [|n IH]; intros w Hw; cbn [to_bytes valb length].
  - rewrite Z.pow_0_r in Hw. repeat split; [lia|constructor].
  - rewrite Nat2Z.inj_succ, Z.pow_succ_r in Hw by lia.
    assert (0 <= w / 256 < 256 ^ Z.of_nat n) as Hq by lia.
    destruct (IH (w / 256) Hq) as (Hv & Hf & Hl). rewrite Hv, Hl.
    repeat split; [lia|]. constructor; [unfold isbyte; lia|exact Hf].
Qed.

(** the former premise of bit_count_Z_partial *)
Theorem swar_correct_all : swar_correct.
Proof.
  intros w Hw. unfold isword in Hw. rewrite B_256 in Hw.
  destruct (to_bytes_spec 8 w Hw) as (Hv & Hf & Hl).
  rewrite <- Hv. apply bit_count_w_valb; assumption.
Qed.

Theorem bit_count_all x : wf x -> ival (bit_count x) = bit_count_spec (ival x).
Proof. exact (bit_count_ok swar_correct_all x). Qed.

(** non-vacuity: the all-ones word, and a word whose stage-3 nibbles reach 4 + 4 *)
Example swar_witness : bit_count_w WMAX = 64 /\ bit_count_w 1085102592571150095 = 32 /\ isword WMAX.
Proof. vm_compute. repeat split; congruence. Qed.
