(** C17 (G): the leaf data regenerated from lib/srfi/151/bit.c (coq/Gen/C17_Leaf.v, rebuilt on every run)
    is the data the model uses. *)
From ChibiV Require Import Common.Words C17.Model Gen.C17_Leaf.
Local Open Scope Z_scope.

Lemma leaf_data_ok :
  src_log_table_256 = log_table_256 /\ src_M1 = M1 /\ src_M2a = M2 /\ src_M2b = M2 /\ src_M4 = M4
  /\ src_H01 = H01 /\ src_final_shift = 56.
Proof. vm_compute. repeat split; reflexivity. Qed.
