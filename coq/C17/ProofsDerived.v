(** C17 proofs, part 8: the derived operations of lib/srfi/151/bitwise.scm.  The definitions [s_*] are REGENERATED from
    bitwise.scm (gen/c17_bitwise.py -> Gen/C17_Bitwise.v; the seven primitives of bit.c translated to the Z operations they
    are proved to compute).  Every one is proved equal to its Z.testbit specification, for all integers (negative ones
    included) and all field bounds 0 <= start <= end; where coq/C17/Spec.v (the oracle of the outer correspondence) has
    the operation, the generated definition is also proved equal to it. *)
From Coq Require Import ZArith List Lia Bool.
From ChibiV Require Import C17.Bits C17.Spec C17.SchemeBase Gen.C17_Bitwise C17.ProofsDerivedSeq.
Import ListNotations.
Local Open Scope Z_scope.

(** k lies in the field [s, e) *)
Definition inr (s e k : Z) : bool := (s <=? k) && (k <? e).

Lemma inr_true s e k : inr s e k = true <-> s <= k < e.
Proof. unfold inr. rewrite andb_true_iff, Z.leb_le, Z.ltb_lt. tauto. Qed.

Lemma inr_cases s e k : (inr s e k = true /\ s <= k < e) \/ (inr s e k = false /\ (k < s \/ e <= k)).
Proof. unfold inr. destruct (Z.leb_spec s k), (Z.ltb_spec k e); cbn [andb]; lia. Qed.

(** * not, masks *)
Lemma s_bitwise_not_lnot i : s_bitwise_not i = Z.lnot i.
Proof. unfold s_bitwise_not, Z.lnot. lia. Qed.

Lemma s_mask_ones len : s_mask len = Z.ones len.
Proof. unfold s_mask, Z.ones. lia. Qed.

Lemma ones_bit w k : 0 <= w -> 0 <= k -> Z.testbit (Z.ones w) k = (k <? w).
Proof.
  intros Hw Hk. destruct (Z.ltb_spec k w).
  - apply Z.ones_spec_low. lia.
  - apply Z.ones_spec_high. lia.
Qed.

Lemma s_range_fmask s e : s_range s e = fmask s e.
Proof. unfold s_range, fmask. rewrite s_mask_ones. reflexivity. Qed.

Lemma s_range_bit s e k : 0 <= s <= e -> 0 <= k -> Z.testbit (s_range s e) k = inr s e k.
Proof.
  intros Hse Hk. unfold s_range. rewrite s_mask_ones, Z.shiftl_spec by lia.
  destruct (inr_cases s e k) as [[-> H]|[-> H]].
  - rewrite ones_bit by lia. apply Z.ltb_lt. lia.
  - destruct (Z.ltb_spec k s).
    + apply Z.testbit_neg_r. lia.
    + rewrite ones_bit by lia. apply Z.ltb_ge. lia.
Qed.

(** * the n-ary operations (make-nary) *)
Lemma make_nary_lp_fold f : forall l i, s_make_nary_lp f i l = fold_left f l i.
Proof. induction l as [|x r IH]; intros i; cbn [s_make_nary_lp fold_left]; [reflexivity|apply IH]. Qed.

Lemma s_make_nary_spec f d l :
  s_make_nary f d l = match l with [] => d | x :: r => fold_left f r x end.
Proof. destruct l as [|x r]; [reflexivity|]. unfold s_make_nary. cbn [sb_null_p sb_car sb_cdr hd tl]. apply make_nary_lp_fold. Qed.

(** when the default is a left identity the result is the fold from the default *)
Lemma s_make_nary_identity f d l : (forall x, f d x = x) -> s_make_nary f d l = fold_left f l d.
Proof. intros Hid. rewrite s_make_nary_spec. destruct l as [|x r]; cbn [fold_left]; [reflexivity|]. rewrite Hid. reflexivity. Qed.

Lemma s_bitwise_and_fold l : s_bitwise_and l = fold_left Z.land l (-1).
Proof. apply s_make_nary_identity. intros x. apply Z.land_m1_l. Qed.
Lemma s_bitwise_ior_fold l : s_bitwise_ior l = fold_left Z.lor l 0.
Proof. apply s_make_nary_identity. intros x. apply Z.lor_0_l. Qed.
Lemma s_bitwise_xor_fold l : s_bitwise_xor l = fold_left Z.lxor l 0.
Proof. apply s_make_nary_identity. intros x. apply Z.lxor_0_l. Qed.
Lemma fold_left_ext' (f g : Z -> Z -> Z) : (forall a b, f a b = g a b) -> forall l i, fold_left f l i = fold_left g l i.
Proof. intros H. induction l as [|x r IH]; intros i; cbn [fold_left]; [reflexivity|]. rewrite H. apply IH. Qed.

(** SRFI 151: n-ary eqv is the fold of the binary eqv from -1 (so it is the xor of the arguments, complemented iff
    their number is even) *)
Lemma s_bitwise_eqv_fold l : s_bitwise_eqv l = fold_left (fun a b => Z.lnot (Z.lxor a b)) l (-1).
Proof.
  unfold s_bitwise_eqv. rewrite s_make_nary_identity.
  - apply fold_left_ext'. intros a b. apply s_bitwise_not_lnot.
  - intros x. rewrite s_bitwise_not_lnot, Z.lxor_m1_l. apply Z.lnot_involutive.
Qed.

Lemma fold_bit (f : Z -> Z -> Z) (g : bool -> bool -> bool) k :
  (forall a b, Z.testbit (f a b) k = g (Z.testbit a k) (Z.testbit b k)) ->
  forall l i, Z.testbit (fold_left f l i) k = fold_left (fun acc x => g acc (Z.testbit x k)) l (Z.testbit i k).
Proof. intros H. induction l as [|x r IH]; intros i; cbn [fold_left]; [reflexivity|]. rewrite IH, H. reflexivity. Qed.

Theorem nary_and_bits l k : 0 <= k -> Z.testbit (s_bitwise_and l) k = fold_left (fun acc x => acc && Z.testbit x k) l true.
Proof. intros Hk. rewrite s_bitwise_and_fold, (fold_bit Z.land andb k) by (intros; apply Z.land_spec). rewrite Z.bits_m1 by exact Hk. reflexivity. Qed.
Theorem nary_ior_bits l k : Z.testbit (s_bitwise_ior l) k = fold_left (fun acc x => acc || Z.testbit x k) l false.
Proof. rewrite s_bitwise_ior_fold, (fold_bit Z.lor orb k) by (intros; apply Z.lor_spec). rewrite Z.bits_0. reflexivity. Qed.
Theorem nary_xor_bits l k : Z.testbit (s_bitwise_xor l) k = fold_left (fun acc x => xorb acc (Z.testbit x k)) l false.
Proof. rewrite s_bitwise_xor_fold, (fold_bit Z.lxor xorb k) by (intros; apply Z.lxor_spec). rewrite Z.bits_0. reflexivity. Qed.
Theorem nary_eqv_bits l k : 0 <= k -> Z.testbit (s_bitwise_eqv l) k = fold_left (fun acc x => Bool.eqb acc (Z.testbit x k)) l true.
Proof.
  intros Hk. rewrite s_bitwise_eqv_fold, (fold_bit (fun a b => Z.lnot (Z.lxor a b)) Bool.eqb k).
  - rewrite Z.bits_m1 by exact Hk. reflexivity.
  - intros a b. rewrite Z.lnot_spec, Z.lxor_spec by exact Hk. destruct (Z.testbit a k), (Z.testbit b k); reflexivity.
Qed.

(** the binary forms *)
Theorem binary_ops a b :
  s_bitwise_and [a; b] = Z.land a b /\ s_bitwise_ior [a; b] = Z.lor a b /\ s_bitwise_xor [a; b] = Z.lxor a b
  /\ s_bitwise_eqv [a; b] = Z.lnot (Z.lxor a b) /\ s_bitwise_nand [a; b] = Z.lnot (Z.land a b)
  /\ s_bitwise_nor [a; b] = Z.lnot (Z.lor a b)
  /\ s_bitwise_andc1 a b = Z.land (Z.lnot a) b /\ s_bitwise_andc2 a b = Z.land a (Z.lnot b)
  /\ s_bitwise_orc1 a b = Z.lor (Z.lnot a) b /\ s_bitwise_orc2 a b = Z.lor a (Z.lnot b).
Proof.
  unfold s_bitwise_and, s_bitwise_ior, s_bitwise_xor, s_bitwise_eqv, s_bitwise_nand, s_bitwise_nor, s_bitwise_complement,
    s_bitwise_andc1, s_bitwise_andc2, s_bitwise_orc1, s_bitwise_orc2.
  rewrite !s_make_nary_spec. cbn [fold_left]. rewrite !s_bitwise_not_lnot. repeat split; reflexivity.
Qed.

Lemma s_and2 a b : s_bitwise_and [a; b] = Z.land a b.
Proof. apply binary_ops. Qed.

(** * any-bit-set?  every-bit-set? *)
Lemma zero_bits x : x = 0 <-> forall k, 0 <= k -> Z.testbit x k = false.
Proof.
  split.
  - intros -> k _. apply Z.bits_0.
  - intros H. apply Z.bits_inj'. intros k Hk. rewrite Z.bits_0. apply H. exact Hk.
Qed.

Theorem any_bit_set_spec t i :
  s_any_bit_set_p t i = negb (Z.land t i =? 0)
  /\ (s_any_bit_set_p t i = false <-> forall k, 0 <= k -> Z.testbit t k && Z.testbit i k = false).
Proof.
  unfold s_any_bit_set_p, sb_zero_p. rewrite s_and2. split; [reflexivity|].
  rewrite negb_false_iff, Z.eqb_eq, zero_bits.
  split; intros H k Hk; specialize (H k Hk); rewrite Z.land_spec in *; exact H.
Qed.

Theorem every_bit_set_spec t i :
  s_every_bit_set_p t i = (Z.land t i =? t)
  /\ (s_every_bit_set_p t i = true <-> forall k, 0 <= k -> Z.testbit t k = true -> Z.testbit i k = true).
Proof.
  unfold s_every_bit_set_p. rewrite s_and2. split; [apply Z.eqb_sym|].
  rewrite Z.eqb_eq. split.
  - intros H k Hk Ht. assert (Z.testbit (Z.land t i) k = true) as H0 by (rewrite <- H; exact Ht).
    rewrite Z.land_spec, Ht in H0. exact H0.
  - intros H. apply Z.bits_inj'. intros k Hk. rewrite Z.land_spec.
    destruct (Z.testbit t k) eqn:E; [|reflexivity]. rewrite (H k Hk E). reflexivity.
Qed.

(** * bitwise-if (SRFI 151 order: mask, then the operand taken where the mask is 1) *)
Lemma s_bitwise_if_spec m a b : s_bitwise_if m a b = bitwise_if m a b.
Proof. unfold s_bitwise_if, bitwise_if. rewrite s_bitwise_not_lnot. reflexivity. Qed.

Theorem bitwise_if_bits m a b k : 0 <= k ->
  Z.testbit (s_bitwise_if m a b) k = if Z.testbit m k then Z.testbit a k else Z.testbit b k.
Proof.
  intros Hk. unfold s_bitwise_if. rewrite s_bitwise_not_lnot, Z.lor_spec, !Z.land_spec, Z.lnot_spec by exact Hk.
  destruct (Z.testbit m k), (Z.testbit a k), (Z.testbit b k); reflexivity.
Qed.

(** * bit-field and its predicates *)
Lemma s_bit_field_field n s e : s_bit_field n s e = field n s e.
Proof. unfold s_bit_field, field, Z.shiftr. rewrite s_mask_ones. reflexivity. Qed.

Theorem bit_field_bits n s e k : 0 <= s <= e -> 0 <= k ->
  Z.testbit (s_bit_field n s e) k = (k <? e - s) && Z.testbit n (k + s).
Proof.
  intros Hse Hk. unfold s_bit_field. rewrite s_mask_ones, Z.land_spec, Z.shiftl_spec, ones_bit by lia.
  replace (k - - s) with (k + s) by lia. apply andb_comm.
Qed.

Theorem bit_field_range n s e : 0 <= s <= e -> 0 <= s_bit_field n s e < 2 ^ (e - s).
Proof.
  intros Hse. unfold s_bit_field. rewrite s_mask_ones, Z.land_ones by lia.
  apply Z.mod_pos_bound. apply Z.pow_pos_nonneg; lia.
Qed.

Theorem bit_field_any_spec n s e : 0 <= s <= e ->
  s_bit_field_any_p n s e = negb (field n s e =? 0)
  /\ (s_bit_field_any_p n s e = false <-> forall k, s <= k < e -> Z.testbit n k = false).
Proof.
  intros Hse.
  assert (s_bit_field_any_p n s e = negb (s_bit_field n s e =? 0)) as E by reflexivity.
  rewrite E, s_bit_field_field. split; [reflexivity|].
  rewrite negb_false_iff, Z.eqb_eq, <- s_bit_field_field, zero_bits. split.
  - intros H k Hk. specialize (H (k - s) ltac:(lia)). rewrite bit_field_bits in H by lia.
    replace (k - s + s) with k in H by lia.
    destruct (Z.ltb_spec (k - s) (e - s)); [exact H|lia].
  - intros H k Hk. rewrite bit_field_bits by lia.
    destruct (Z.ltb_spec k (e - s)); [|reflexivity]. apply H. lia.
Qed.

Theorem bit_field_every_spec n s e : 0 <= s <= e ->
  s_bit_field_every_p n s e = (field n s e =? Z.ones (e - s))
  /\ (s_bit_field_every_p n s e = true <-> forall k, s <= k < e -> Z.testbit n k = true).
Proof.
  intros Hse.
  assert (s_bit_field_every_p n s e = (s_bit_field n s e =? Z.ones (e - s))) as E.
  { unfold s_bit_field_every_p, s_bit_field. cbv zeta. rewrite s_mask_ones, Z.land_comm. reflexivity. }
  rewrite E, s_bit_field_field. split; [reflexivity|].
  rewrite Z.eqb_eq, <- s_bit_field_field. split.
  - intros H k Hk.
    assert (Z.testbit (s_bit_field n s e) (k - s) = Z.testbit (Z.ones (e - s)) (k - s)) as Hb by (rewrite H; reflexivity).
    rewrite bit_field_bits, ones_bit in Hb by lia. replace (k - s + s) with k in Hb by lia.
    destruct (Z.ltb_spec (k - s) (e - s)); [exact Hb|lia].
  - intros H. apply Z.bits_inj'. intros k Hk. rewrite bit_field_bits, ones_bit by lia.
    destruct (Z.ltb_spec k (e - s)); [|reflexivity]. apply H. lia.
Qed.

(** * replace, clear, set *)
Lemma s_replace_same_spec d r s e : s_bit_field_replace_same d r s e = replace_same d r s e.
Proof. unfold s_bit_field_replace_same, replace_same. rewrite s_bitwise_if_spec, s_range_fmask. reflexivity. Qed.
Lemma s_replace_spec d r s e : s_bit_field_replace d r s e = replace d r s e.
Proof. unfold s_bit_field_replace, replace. apply s_replace_same_spec. Qed.

Theorem replace_same_bits d r s e k : 0 <= s <= e -> 0 <= k ->
  Z.testbit (s_bit_field_replace_same d r s e) k = if inr s e k then Z.testbit r k else Z.testbit d k.
Proof. intros Hse Hk. unfold s_bit_field_replace_same. rewrite bitwise_if_bits, s_range_bit by lia. reflexivity. Qed.

Theorem replace_bits d r s e k : 0 <= s <= e -> 0 <= k ->
  Z.testbit (s_bit_field_replace d r s e) k = if inr s e k then Z.testbit r (k - s) else Z.testbit d k.
Proof.
  intros Hse Hk. unfold s_bit_field_replace. rewrite replace_same_bits by lia.
  rewrite Z.shiftl_spec by lia. reflexivity.
Qed.

Theorem clear_bits n s e k : 0 <= s <= e -> 0 <= k ->
  Z.testbit (s_bit_field_clear n s e) k = if inr s e k then false else Z.testbit n k.
Proof. intros Hse Hk. unfold s_bit_field_clear. rewrite replace_bits by lia. rewrite Z.bits_0. reflexivity. Qed.

Lemma s_clear_spec n s e : 0 <= s <= e -> s_bit_field_clear n s e = Z.land n (Z.lnot (fmask s e)).
Proof.
  intros Hse. apply Z.bits_inj'. intros k Hk.
  rewrite clear_bits, Z.land_spec, Z.lnot_spec, <- s_range_fmask, s_range_bit by lia.
  destruct (inr s e k), (Z.testbit n k); reflexivity.
Qed.

Theorem set_bits n s e k : 0 <= s <= e -> 0 <= k ->
  Z.testbit (s_bit_field_set n s e) k = if inr s e k then true else Z.testbit n k.
Proof.
  intros Hse Hk. unfold s_bit_field_set. rewrite Z.lor_spec, s_range_bit by lia.
  destruct (inr s e k), (Z.testbit n k); reflexivity.
Qed.

Lemma s_set_spec n s e : s_bit_field_set n s e = Z.lor n (fmask s e).
Proof. unfold s_bit_field_set. rewrite s_range_fmask. reflexivity. Qed.

(** * copy-bit, bit-swap *)
Theorem copy_bit_bits idx i (b : bool) k : 0 <= idx -> 0 <= k ->
  Z.testbit (s_copy_bit idx i b) k = if k =? idx then b else Z.testbit i k.
Proof.
  intros Hi Hk. unfold s_copy_bit. rewrite replace_bits by lia.
  destruct (inr_cases idx (idx + 1) k) as [[-> H]|[-> H]].
  - assert (k = idx) as -> by lia. rewrite Z.eqb_refl, Z.sub_diag. destruct b; reflexivity.
  - destruct (Z.eqb_spec k idx); [lia|reflexivity].
Qed.

Theorem bit_swap_bits i1 i2 i k : 0 <= i1 -> 0 <= i2 -> 0 <= k ->
  Z.testbit (s_bit_swap i1 i2 i) k
  = if k =? i1 then Z.testbit i i2 else if k =? i2 then Z.testbit i i1 else Z.testbit i k.
Proof.
  intros H1 H2 Hk. unfold s_bit_swap. cbv zeta. rewrite !copy_bit_bits by lia.
  destruct (Z.eqb_spec k i2) as [E2|N2]; destruct (Z.eqb_spec k i1) as [E1|N1]; try reflexivity.
  subst. reflexivity.
Qed.

(** * bit-field-rotate: the field is rotated LEFT by count (mod width), everything outside is kept *)
Theorem rotate_bits n c s e k : 0 <= s < e -> 0 <= k ->
  Z.testbit (s_bit_field_rotate n c s e) k
  = if inr s e k then Z.testbit n (s + (k - s - c) mod (e - s)) else Z.testbit n k.
Proof.
  intros Hse Hk. unfold s_bit_field_rotate. cbv zeta.
  set (w := e - s). assert (0 < w) as Hw by (unfold w; lia).
  set (c' := c mod w). assert (0 <= c' < w) as Hc by (apply Z.mod_pos_bound; exact Hw).
  assert (s_bitwise_not (Z.shiftl (-1) w) = Z.ones w) as Emask.
  { rewrite s_bitwise_not_lnot. apply Z.bits_inj'. intros j Hj.
    rewrite Z.lnot_spec, Z.shiftl_spec, ones_bit by lia.
    destruct (Z.ltb_spec j w).
    - rewrite Z.testbit_neg_r by lia. reflexivity.
    - rewrite Z.bits_m1 by lia. reflexivity. }
  rewrite Emask, s_and2.
  set (f := Z.land (Z.ones w) (Z.shiftl n (- s))).
  assert (forall m, Z.testbit f m = (0 <=? m) && (m <? w) && Z.testbit n (m + s)) as Hf.
  { intros m. destruct (Z.leb_spec 0 m).
    - unfold f. rewrite Z.land_spec, Z.shiftl_spec, ones_bit by lia. replace (m - - s) with (m + s) by lia. reflexivity.
    - rewrite Z.testbit_neg_r by lia. reflexivity. }
  rewrite Z.lor_spec, Z.land_spec, s_bitwise_not_lnot, Z.lnot_spec, !Z.shiftl_spec by lia.
  rewrite Z.lor_spec, Z.land_spec.
  destruct (inr_cases s e k) as [[-> H]|[-> H]].
  - (* inside the field *)
    rewrite ones_bit by lia.
    destruct (Z.ltb_spec (k - s) w) as [_|]; [|unfold w in *; lia]. cbn [negb andb orb].
    rewrite orb_false_r.
    destruct (Z.le_gt_cases c' (k - s)) as [Hge|Hlt].
    + (* no wrap *)
      assert ((k - s - c) mod w = k - s - c') as ->.
      { symmetry. apply Z.mod_unique with (q := - (c / w)); [left; lia|].
        pose proof (Z.div_mod c w ltac:(lia)) as Hd. fold c' in Hd. lia. }
      rewrite (Z.shiftl_spec f c') by lia. rewrite (Z.shiftl_spec f (c' - w)) by lia.
      rewrite !Hf.
      destruct (Z.leb_spec 0 (k - s - c')); [|lia].
      destruct (Z.ltb_spec (k - s - c') w); [|lia].
      destruct (Z.ltb_spec (k - s - (c' - w)) w); [lia|].
      cbn [andb]. rewrite andb_false_r, orb_false_r. f_equal. lia.
    + (* the bit comes from the top part of the field *)
      assert ((k - s - c) mod w = k - s - c' + w) as ->.
      { symmetry. apply Z.mod_unique with (q := - (c / w) - 1); [left; lia|].
        pose proof (Z.div_mod c w ltac:(lia)) as Hd. fold c' in Hd. lia. }
      rewrite (Z.shiftl_spec f c') by lia. rewrite (Z.shiftl_spec f (c' - w)) by lia.
      rewrite !Hf.
      destruct (Z.leb_spec 0 (k - s - c')); [lia|].
      destruct (Z.leb_spec 0 (k - s - (c' - w))); [|lia].
      destruct (Z.ltb_spec (k - s - (c' - w)) w); [|lia].
      cbn [andb orb]. f_equal. lia.
  - (* outside the field *)
    destruct (Z.ltb_spec k s) as [Hlo|Hhi].
    + rewrite !(Z.testbit_neg_r _ (k - s)) by lia. reflexivity.
    + rewrite ones_bit by lia. destruct (Z.ltb_spec (k - s) w); [unfold w in *; lia|].
      cbn [negb andb orb]. rewrite (Z.shiftl_spec f (c' - w)) by lia. rewrite Hf.
      destruct (Z.ltb_spec (k - s - (c' - w)) w); [lia|]. rewrite andb_false_r. reflexivity.
Qed.

(** * first-set-bit: the index of the lowest 1 bit (-1 for 0), any sign *)
Lemma odd_part_pos p : exists k q, 0 <= k /\ Z.pos p = 2 ^ k * (2 * q + 1).
Proof.
  induction p as [p IH|p IH|].
  - exists 0, (Z.pos p). split; [lia|]. rewrite Z.pow_0_r. lia.
  - destruct IH as (k & q & Hk & E). exists (k + 1), q. split; [lia|].
    rewrite Z.pow_add_r, Z.pow_1_r by lia. rewrite (Pos2Z.inj_xO p), E. ring.
  - exists 0, 0. split; [lia|]. reflexivity.
Qed.

Lemma odd_part i : i <> 0 -> exists k q, 0 <= k /\ i = 2 ^ k * (2 * q + 1).
Proof.
  destruct i as [|p|p]; intros Hi; [congruence|apply odd_part_pos|].
  destruct (odd_part_pos p) as (k & q & Hk & E). exists k, (- q - 1). split; [exact Hk|].
  rewrite <- Pos2Z.opp_pos, E. ring.
Qed.

Theorem first_set_bit_spec i :
  (i = 0 -> s_first_set_bit i = -1)
  /\ (i <> 0 -> 0 <= s_first_set_bit i /\ Z.testbit i (s_first_set_bit i) = true
               /\ forall m, 0 <= m < s_first_set_bit i -> Z.testbit i m = false).
Proof.
  split; [intros ->; reflexivity|]. intros Hi.
  destruct (odd_part i Hi) as (k & q & Hk & E).
  assert (0 < 2 ^ k) as Hp by (apply Z.pow_pos_nonneg; lia).
  assert (s_first_set_bit i = k) as ->.
  { unfold s_first_set_bit, sb_zero_p. destruct (Z.eqb_spec i 0); [contradiction|].
    assert (Z.land i (i - 1) = 2 ^ (k + 1) * q) as ->.
    { assert (2 ^ (k + 1) = 2 * 2 ^ k) as Ek by (rewrite Z.pow_add_r, Z.pow_1_r by lia; ring).
      replace i with (2 ^ k + 2 ^ (k + 1) * q) at 1 by (rewrite E, Ek; ring).
      replace (i - 1) with ((2 ^ k - 1) + 2 ^ (k + 1) * q) by (rewrite E, Ek; ring).
      assert (Z.land (2 ^ k) (2 ^ k - 1) = 0) as E0.
      { replace (2 ^ k - 1) with (Z.ones k) by (rewrite Z.ones_equiv; lia).
        rewrite Z.land_ones by lia. apply Z.mod_same. lia. }
      rewrite land_digit by lia. rewrite E0, Z.land_diag. ring. }
    replace (i - 2 ^ (k + 1) * q) with (2 ^ k)
      by (rewrite E, Z.pow_add_r, Z.pow_1_r by lia; ring).
    unfold integer_length_spec, bitlen.
    destruct (Z.ltb_spec (2 ^ k) 0); [lia|]. destruct (Z.eqb_spec (2 ^ k) 0); [lia|].
    rewrite Z.log2_pow2 by lia. lia. }
  split; [exact Hk|]. split.
  - rewrite E, Z.mul_comm, Z.mul_pow2_bits by lia. rewrite Z.sub_diag.
    rewrite Z.bit0_odd, Z.add_comm, Z.odd_add_mul_2. reflexivity.
  - intros m Hm. rewrite E, Z.mul_comm, Z.mul_pow2_bits_low by lia. reflexivity.
Qed.

Lemma first_set_bit_spec_eq i : s_first_set_bit i = first_set_bit i.
Proof.
  (* Spec.v's recursive definition has the same characterisation: lowest set bit *)
  destruct (Z.eq_dec i 0) as [->|Hi]; [reflexivity|].
  destruct (first_set_bit_spec i) as [_ H]. destruct (H Hi) as (H0 & H1 & H2).
  assert (forall p, 0 <= first_set_pos p /\ Z.testbit (Z.pos p) (first_set_pos p) = true
                    /\ forall m, 0 <= m < first_set_pos p -> Z.testbit (Z.pos p) m = false) as Hpos.
  { induction p as [p IH|p IH|]; cbn [first_set_pos].
    - split; [lia|split; [reflexivity|intros m Hm; lia]].
    - destruct IH as (A & Bq & C). split; [lia|split].
      + replace (1 + first_set_pos p) with (Z.succ (first_set_pos p)) by lia.
        rewrite (Pos2Z.inj_xO p), Z.testbit_even_succ by lia. exact Bq.
      + intros m Hm. destruct (Z.eq_dec m 0) as [->|]; [reflexivity|].
        replace m with (Z.succ (m - 1)) by lia. rewrite (Pos2Z.inj_xO p), Z.testbit_even_succ by lia. apply C. lia.
    - split; [lia|split; [reflexivity|intros m Hm; lia]]. }
  assert (forall a b, 0 <= a -> 0 <= b -> Z.testbit i a = true -> Z.testbit i b = true ->
                      (forall m, 0 <= m < a -> Z.testbit i m = false) -> (forall m, 0 <= m < b -> Z.testbit i m = false) -> a = b) as Huniq.
  { intros a b Ha Hb Ta Tb La Lb. destruct (Z.lt_trichotomy a b) as [L|[L|L]]; [|exact L|].
    - rewrite Lb in Ta by lia. discriminate.
    - rewrite La in Tb by lia. discriminate. }
  destruct i as [|p|p]; [congruence| |].
  - destruct (Hpos p) as (A & Bq & C). cbn [first_set_bit]. apply Huniq; assumption.
  - destruct (Hpos p) as (A & Bq & C). cbn [first_set_bit].
    (* the lowest set bit of -x is the lowest set bit of x *)
    assert (forall m, 0 <= m <= first_set_pos p -> Z.testbit (Z.neg p) m = Z.testbit (Z.pos p) m) as Hneg.
    { intros m Hm. destruct (odd_part_pos p) as (k & q & Hk & E).
      assert (first_set_pos p = k) as Ek.
      { assert (0 < 2 ^ k) by (apply Z.pow_pos_nonneg; lia).
        destruct (Z.lt_trichotomy k (first_set_pos p)) as [L|[L|L]]; [|symmetry; exact L|].
        - assert (Z.testbit (Z.pos p) k = true) as T.
          { rewrite E, Z.mul_comm, Z.mul_pow2_bits by lia. rewrite Z.sub_diag, Z.bit0_odd, Z.add_comm, Z.odd_add_mul_2. reflexivity. }
          rewrite C in T by lia. discriminate.
        - assert (Z.testbit (Z.pos p) (first_set_pos p) = false) as T
            by (rewrite E, Z.mul_comm, Z.mul_pow2_bits_low by lia; reflexivity).
          rewrite Bq in T. discriminate. }
      rewrite Ek in Hm. assert (0 < 2 ^ k) by (apply Z.pow_pos_nonneg; lia).
      rewrite <- Pos2Z.opp_pos, E.
      replace (- (2 ^ k * (2 * q + 1))) with ((2 * (- q - 1) + 1) * 2 ^ k) by ring.
      rewrite (Z.mul_comm (2 ^ k)).
      destruct (Z.eq_dec m k) as [->|].
      - rewrite !Z.mul_pow2_bits by lia. rewrite Z.sub_diag, !Z.bit0_odd, !(Z.add_comm _ 1), !Z.odd_add_mul_2. reflexivity.
      - rewrite !Z.mul_pow2_bits_low by lia. reflexivity. }
    apply Huniq; try assumption.
    + rewrite Hneg by lia. exact Bq.
    + intros m Hm. rewrite Hneg by lia. apply C. exact Hm.
Qed.


(** * bit-field-reverse: the bits of the field in reverse order, everything outside kept (fuel > width suffices) *)
Theorem reverse_bits i s e fuel : 0 <= s <= e -> (Z.to_nat (e - s) < fuel)%nat ->
  exists r, s_bit_field_reverse fuel i s e = Some r
            /\ forall k, 0 <= k -> Z.testbit r k = if inr s e k then Z.testbit i (s + e - 1 - k) else Z.testbit i k.
Proof.
  intros Hse Hf. unfold s_bit_field_reverse.
  destruct (bit_reverse_ok (s_bit_field i s e) (e - s) fuel ltac:(lia) Hf) as (r & -> & Hr & Hb).
  eexists. split; [reflexivity|]. intros k Hk.
  rewrite bitwise_if_bits, s_range_bit by lia.
  destruct (inr_cases s e k) as [[-> H]|[-> H]]; [|reflexivity].
  rewrite Z.shiftl_spec by lia. rewrite Hb by lia. rewrite bit_field_bits by lia.
  destruct (Z.ltb_spec (e - s - 1 - (k - s)) (e - s)); [|lia]. cbn [andb]. f_equal. lia.
Qed.

Example reverse_witness : s_bit_field_reverse 20 (- 2 ^ 66 - 2 ^ 62 - 1) 60 68 = Some (-(2 ^ 65) - 2 ^ 61 - 1).
Proof. vm_compute. reflexivity. Qed.

(** non-vacuity (negative operands, fields across word boundaries) *)
Example rotate_witness : s_bit_field_rotate (-(2 ^ 70) - 5 - 2 ^ 63) 3 62 70 = -(2 ^ 70) - 5 - 2 ^ 66 /\ (0 <= 62 < 70).
Proof. vm_compute. split; [reflexivity|split; congruence]. Qed.
Example first_set_bit_witness : s_first_set_bit (- 2 ^ 130) = 130 /\ - 2 ^ 130 <> 0.
Proof. split; [vm_compute; reflexivity|intros H; vm_compute in H; discriminate]. Qed.
Example eqv_nary_witness : s_bitwise_eqv [] = -1 /\ s_bitwise_eqv [5] = 5 /\ s_bitwise_eqv [1; 2; 4] = 7 /\ s_bitwise_eqv [37; 12] = -42.
Proof. vm_compute. repeat split; reflexivity. Qed.
Example bit_swap_witness : s_bit_swap 0 64 (- 2 ^ 64) = - 2 ^ 65 + 1.
Proof. vm_compute. reflexivity. Qed.

(** * the remaining cases of the outer-correspondence oracle [Spec.spec] are the regenerated definitions *)
Lemma spec_copy_bit idx i b : s_copy_bit idx i (negb (b =? 0)) = replace i (if b =? 0 then 0 else 1) idx (idx + 1).
Proof. unfold s_copy_bit. rewrite s_replace_spec. destruct (b =? 0); reflexivity. Qed.

Lemma spec_bit_swap i1 i2 a :
  s_bit_swap i1 i2 a
  = replace (replace a (if Z.testbit a i2 then 1 else 0) i1 (i1 + 1)) (if Z.testbit a i1 then 1 else 0) i2 (i2 + 1).
Proof. unfold s_bit_swap, s_copy_bit. cbv zeta. rewrite !s_replace_spec. reflexivity. Qed.

Lemma spec_rotate a c s e : 0 <= s < e ->
  s_bit_field_rotate a c s e
  = (let w := e - s in let k := c mod w in let f := field a s e in
     replace a (Z.land (Z.lor (Z.shiftl f k) (Z.shiftr f (w - k))) (Z.ones w)) s e).
Proof.
  intros Hse. cbv zeta. apply Z.bits_inj'. intros j Hj.
  rewrite rotate_bits, <- s_replace_spec, replace_bits by lia.
  set (w := e - s). assert (0 < w) as Hw by (unfold w; lia).
  set (c' := c mod w). assert (0 <= c' < w) as Hc by (apply Z.mod_pos_bound; exact Hw).
  destruct (inr_cases s e j) as [[-> H]|[-> H]]; [|reflexivity].
  assert (forall m, Z.testbit (field a s e) m = (0 <=? m) && (m <? w) && Z.testbit a (m + s)) as Hf.
  { intros m. destruct (Z.leb_spec 0 m).
    - rewrite <- s_bit_field_field, bit_field_bits by lia. reflexivity.
    - rewrite Z.testbit_neg_r by lia. reflexivity. }
  rewrite Z.land_spec, Z.lor_spec, Z.shiftl_spec, Z.shiftr_spec, ones_bit, !Hf by lia.
  destruct (Z.ltb_spec (j - s) w); [|unfold w in *; lia]. rewrite andb_true_r.
  destruct (Z.le_gt_cases c' (j - s)) as [Hge|Hlt].
  - assert ((j - s - c) mod w = j - s - c') as ->.
    { symmetry. apply Z.mod_unique with (q := - (c / w)); [left; lia|].
      pose proof (Z.div_mod c w ltac:(lia)) as Hd. fold c' in Hd. lia. }
    destruct (Z.leb_spec 0 (j - s - c')); [|lia]. destruct (Z.ltb_spec (j - s - c') w); [|lia].
    destruct (Z.ltb_spec (j - s + (w - c')) w); [lia|].
    cbn [andb]. rewrite andb_false_r, orb_false_r. f_equal. lia.
  - assert ((j - s - c) mod w = j - s - c' + w) as ->.
    { symmetry. apply Z.mod_unique with (q := - (c / w) - 1); [left; lia|].
      pose proof (Z.div_mod c w ltac:(lia)) as Hd. fold c' in Hd. lia. }
    destruct (Z.leb_spec 0 (j - s - c')); [lia|].
    destruct (Z.leb_spec 0 (j - s + (w - c'))); [|lia]. destruct (Z.ltb_spec (j - s + (w - c')) w); [|lia].
    cbn [andb orb]. f_equal. lia.
Qed.

(** Spec.rev_bits: the low w bits of f reversed (above an accumulator) *)
Lemma rev_bits_spec (w : nat) : forall f acc k, 0 <= acc -> 0 <= k ->
  Z.testbit (rev_bits w f acc) k
  = if k <? Z.of_nat w then Z.testbit f (Z.of_nat w - 1 - k) else Z.testbit acc (k - Z.of_nat w).
Proof.
  induction w as [|w IH]; intros f acc k Ha Hk.
  - cbn [rev_bits]. change (Z.of_nat 0) with 0. destruct (Z.ltb_spec k 0); [lia|]. f_equal. lia.
  - cbn [rev_bits]. assert (0 <= f mod 2 < 2) as Hm by (apply Z.mod_pos_bound; lia).
    rewrite IH by lia. rewrite Nat2Z.inj_succ.
    destruct (Z.ltb_spec k (Z.of_nat w)), (Z.ltb_spec k (Z.succ (Z.of_nat w))); try lia.
    + replace (Z.succ (Z.of_nat w) - 1 - k) with (Z.succ (Z.of_nat w - 1 - k)) by lia.
      rewrite Z.div2_bits by lia. reflexivity.
    + assert (k = Z.of_nat w) as -> by lia.
      replace (Z.of_nat w - Z.of_nat w) with 0 by lia. replace (Z.succ (Z.of_nat w) - 1 - Z.of_nat w) with 0 by lia.
      rewrite !Z.bit0_odd. rewrite (Z.div_mod f 2) at 2 by lia.
      rewrite (Z.add_comm (2 * acc)), (Z.add_comm (2 * (f / 2))), !Z.odd_add_mul_2. reflexivity.
    + replace (k - Z.of_nat w) with (Z.succ (k - Z.succ (Z.of_nat w))) by lia.
      assert (f mod 2 = 0 \/ f mod 2 = 1) as [-> | ->] by lia.
      * rewrite Z.add_0_r, Z.testbit_even_succ by lia. reflexivity.
      * rewrite Z.testbit_odd_succ by lia. reflexivity.
Qed.

Lemma spec_reverse a s e fuel : 0 <= s <= e -> (Z.to_nat (e - s) < fuel)%nat ->
  s_bit_field_reverse fuel a s e = Some (replace a (rev_bits (Z.to_nat (e - s)) (field a s e) 0) s e).
Proof.
  intros Hse Hf. destruct (reverse_bits a s e fuel Hse Hf) as (r & -> & Hr). f_equal.
  apply Z.bits_inj'. intros k Hk. rewrite Hr, <- s_replace_spec, replace_bits by lia.
  destruct (inr_cases s e k) as [[-> H]|[-> H]]; [|reflexivity].
  rewrite rev_bits_spec by lia. rewrite Z2Nat.id by lia.
  destruct (Z.ltb_spec (k - s) (e - s)); [|lia].
  rewrite <- s_bit_field_field, bit_field_bits by lia.
  destruct (Z.ltb_spec (e - s - 1 - (k - s)) (e - s)); [|lia]. cbn [andb]. f_equal. lia.
Qed.
