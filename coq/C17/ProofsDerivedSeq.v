(** C17: the derived sequence procedures of lib/srfi/151/bitwise.scm (bit-reverse, bits<->vector/list,
    bitwise-fold / for-each / unfold, make-bitwise-generator), as generated in Gen/C17_Bitwise.v, against
    Z.testbit -- for ALL integers (negative ones included wherever the statement allows). *)
From Coq Require Import ZArith List Lia Bool.
From ChibiV Require Import C17.Bits C17.Spec C17.SchemeBase Gen.C17_Bitwise.
Import ListNotations.  Local Open Scope Z_scope.

(** * helpers *)

Lemma testbit_one k : 0 <= k -> Z.testbit 1 k = (k =? 0).
Proof.
  intros Hk. destruct (Z.eqb_spec k 0) as [->|Hne]; [reflexivity|].
  apply (small_bits_high 1 1 k); lia.
Qed.

Lemma shl_m1_bit n k : 0 <= k -> Z.testbit (Z.shiftl n (-1)) k = Z.testbit n (k + 1).
Proof. intros Hk. rewrite Z.shiftl_spec by lia. f_equal; lia. Qed.

Lemma bits_bound r len : 0 <= len -> 0 <= r -> (forall k, len <= k -> Z.testbit r k = false) -> 0 <= r < 2 ^ len.
Proof.
  intros Hl Hr Hb. assert (r = r mod 2 ^ len) as E.
  { apply Z.bits_inj'. intros k Hk. destruct (Z.ltb_spec k len).
    - rewrite Z.mod_pow2_bits_low by lia. reflexivity.
    - rewrite Z.mod_pow2_bits_high by lia. apply Hb. lia. }
  rewrite E. apply Z.mod_pos_bound. lia.
Qed.

(** * 1. bit-reverse *)

Lemma bit_reverse_lp_ok : forall (m fuel : nat) len n i res,
  (m < fuel)%nat -> i + Z.of_nat m = len + 1 -> 0 <= res ->
  exists r, s_bit_reverse_lp fuel len n i res = Some r /\ 0 <= r /\
    forall k, 0 <= k -> Z.testbit r k =
      if k <? Z.of_nat m then Z.testbit n (Z.of_nat m - 1 - k) else Z.testbit res (k - Z.of_nat m).
Proof.
  induction m as [|m IH]; intros fuel len n i res Hf Hi Hres;
    (destruct fuel as [|fuel]; [lia|]); cbn [s_bit_reverse_lp].
  - replace (i >? len) with true by (symmetry; apply Z.gtb_lt; lia).
    exists res. split; [reflexivity|]. split; [assumption|].
    intros k Hk. replace (k <? Z.of_nat 0) with false by (symmetry; apply Z.ltb_ge; lia).
    f_equal. lia.
  - replace (i >? len) with false by (symmetry; rewrite Z.gtb_ltb; apply Z.ltb_ge; lia).
    destruct (IH fuel len (Z.shiftl n (-1)) (i + 1) (Z.lor (Z.shiftl res 1) (Z.land n 1)))
      as (r & Hr & Hr0 & Hb).
    + lia.
    + lia.
    + apply Z.lor_nonneg. split; [apply Z.shiftl_nonneg; assumption|apply Z.land_nonneg; right; lia].
    + exists r. split; [exact Hr|]. split; [exact Hr0|].
      intros k Hk. rewrite Hb by assumption.
      destruct (Z.ltb_spec k (Z.of_nat m)) as [Hlt|Hge].
      * replace (k <? Z.of_nat (S m)) with true by (symmetry; apply Z.ltb_lt; lia).
        rewrite shl_m1_bit by lia. f_equal. lia.
      * rewrite Z.lor_spec, Z.land_spec, Z.shiftl_spec, testbit_one by lia.
        destruct (Z.ltb_spec k (Z.of_nat (S m))) as [Hlt'|Hge'].
        -- assert (k = Z.of_nat m) as -> by lia.
           replace (Z.of_nat m - Z.of_nat m) with 0 by lia.
           replace (Z.of_nat (S m) - 1 - Z.of_nat m) with 0 by lia.
           rewrite Z.testbit_neg_r by lia. cbn [orb Z.eqb]. apply andb_true_r.
        -- replace (k - Z.of_nat m =? 0) with false by (symmetry; apply Z.eqb_neq; lia).
           rewrite andb_false_r, orb_false_r. f_equal. lia.
Qed.

Theorem bit_reverse_ok : forall n len fuel, 0 <= len -> (Z.to_nat len < fuel)%nat ->
  exists r, s_bit_reverse fuel n len = Some r /\ 0 <= r < 2 ^ len /\
    forall k, 0 <= k < len -> Z.testbit r k = Z.testbit n (len - 1 - k).
Proof.
  intros n len fuel Hl Hf. unfold s_bit_reverse.
  destruct (bit_reverse_lp_ok (Z.to_nat len) fuel len n 1 0) as (r & Hr & Hr0 & Hb); [lia|lia|lia|].
  rewrite Z2Nat.id in Hb by lia.
  exists r. split; [exact Hr|]. split.
  - apply bits_bound; [lia|assumption|]. intros k Hk. rewrite Hb by lia.
    replace (k <? len) with false by (symmetry; apply Z.ltb_ge; lia). apply Z.testbit_0_l.
  - intros k Hk. rewrite Hb by lia.
    replace (k <? len) with true by (symmetry; apply Z.ltb_lt; lia). reflexivity.
Qed.

Example bit_reverse_witness : s_bit_reverse 10 (-3) 4 = Some 11.
Proof. vm_compute. reflexivity. Qed.

(** * 5. bitwise-fold, bitwise-for-each *)

Lemma bitlen_step i : 0 < i -> bitlen i = bitlen (i / 2) + 1.
Proof.
  intros Hi. unfold bitlen.
  replace (i =? 0) with false by (symmetry; apply Z.eqb_neq; lia).
  destruct (Z.eqb_spec (i / 2) 0) as [E|E].
  - assert (i = 1) as -> by (apply Z.div_small_iff in E; lia). reflexivity.
  - assert (0 < i / 2) as Hp by (pose proof (Z.div_pos i 2); lia).
    change 2 with (2 ^ 1) at 1. rewrite <- Z.shiftr_div_pow2, Z.log2_shiftr by lia.
    assert (0 < Z.log2 i).
    { apply Z.log2_pos. destruct (Z.eq_dec i 1) as [->|]; [exfalso; apply E; reflexivity|lia]. }
    lia.
Qed.

Lemma il_nonneg i : 0 <= i -> integer_length_spec i = bitlen i.
Proof. intros Hi. unfold integer_length_spec. replace (i <? 0) with false by (symmetry; apply Z.ltb_ge; lia). reflexivity. Qed.

Lemma bitlen_nonneg i : 0 <= bitlen i.
Proof. unfold bitlen. destruct (i =? 0); [lia|]. pose proof (Z.log2_nonneg i). lia. Qed.

Lemma shl_m1_div2 i : Z.shiftl i (-1) = i / 2.
Proof. change (-1) with (- (1)). rewrite Z.shiftl_opp_r, Z.shiftr_div_pow2 by lia. reflexivity. Qed.

Definition bits_upto (i : Z) (m : nat) : list bool := map (fun k => Z.testbit i (Z.of_nat k)) (seq 0 m).

Lemma bits_upto_S i m : bits_upto i (S m) = Z.odd i :: bits_upto (Z.shiftl i (-1)) m.
Proof.
  unfold bits_upto. cbn [seq map]. rewrite Z.bit0_odd. f_equal.
  rewrite <- seq_shift, map_map. apply map_ext. intros k.
  rewrite shl_m1_bit by lia. f_equal. lia.
Qed.

(** the loop of bitwise-fold (after fixes/C17-bitwise-fold-negative.patch: it counts n = 0 .. integer-length i, so the sign of i
    does not matter) *)
Lemma bitwise_fold_lp_ok : forall (A : Type) (kons : bool -> A -> A) len (m fuel : nat) i n acc,
  len - n = Z.of_nat m -> (m < fuel)%nat ->
  s_bitwise_fold_lp fuel kons len i n acc = Some (fold_left (fun acc b => kons b acc) (bits_upto i m) acc).
Proof.
  intros A kons len. induction m as [|m IH]; intros fuel i n acc Hm Hf;
    (destruct fuel as [|fuel]; [lia|]); cbn [s_bitwise_fold_lp].
  - destruct (Z.geb_spec n len); [reflexivity|lia].
  - destruct (Z.geb_spec n len); [lia|].
    rewrite bits_upto_S. cbn [fold_left]. apply IH; lia.
Qed.

Lemma integer_length_spec_nonneg i : 0 <= integer_length_spec i.
Proof. unfold integer_length_spec. apply bitlen_nonneg. Qed.

Theorem bitwise_fold_ok : forall (A : Type) (kons : bool -> A -> A) knil i fuel,
  (Z.to_nat (integer_length_spec i) < fuel)%nat ->
  s_bitwise_fold fuel kons knil i =
  Some (fold_left (fun acc b => kons b acc)
         (map (fun k => Z.testbit i (Z.of_nat k)) (seq 0 (Z.to_nat (integer_length_spec i)))) knil).
Proof.
  intros A kons knil i fuel Hf. unfold s_bitwise_fold. cbv zeta.
  apply bitwise_fold_lp_ok; [|assumption].
  pose proof (integer_length_spec_nonneg i). rewrite Z2Nat.id by assumption. lia.
Qed.

Theorem bitwise_for_each_ok : forall proc i fuel, (Z.to_nat (integer_length_spec i) < fuel)%nat ->
  s_bitwise_for_each fuel proc i =
  Some (fold_left (fun acc b => proc b)
         (map (fun k => Z.testbit i (Z.of_nat k)) (seq 0 (Z.to_nat (integer_length_spec i)))) false).
Proof.
  intros proc i fuel Hf. unfold s_bitwise_for_each.
  apply (bitwise_fold_ok bool (fun b _ => proc b) false i fuel Hf).
Qed.

Example bitwise_fold_witness : s_bitwise_fold 10 cons [] 6 = Some [true; true; false].
Proof. vm_compute. reflexivity. Qed.
Example bitwise_fold_negative_witness : s_bitwise_fold 10 cons [] (-6) = Some [false; true; false].
Proof. vm_compute. reflexivity. Qed.
Example bitwise_for_each_witness : s_bitwise_for_each 10 negb 5 = Some false.
Proof. vm_compute. reflexivity. Qed.

(** * 7. make-bitwise-generator *)

Lemma iter_S {A} (f : A -> A) (k : nat) x : Nat.iter (S k) f x = f (Nat.iter k f x).
Proof. reflexivity. Qed.

Lemma iter_S_r {A} (f : A -> A) (k : nat) x : Nat.iter (S k) f x = Nat.iter k f (f x).
Proof. induction k as [|k IH]; [reflexivity|]. rewrite iter_S, IH. reflexivity. Qed.

Lemma generator_state i (k : nat) :
  Nat.iter k (fun s => snd (s_make_bitwise_generator_step s)) i = Z.shiftr i (Z.of_nat k).
Proof.
  induction k as [|k IH].
  - reflexivity.
  - rewrite iter_S, IH. unfold s_make_bitwise_generator_step. cbn [snd].
    change (-1) with (- (1)). rewrite Z.shiftl_opp_r, Z.shiftr_shiftr by lia. f_equal. lia.
Qed.

Theorem generator_ok : forall i (k : nat),
  fst (s_make_bitwise_generator_step (Nat.iter k (fun s => snd (s_make_bitwise_generator_step s)) i))
  = Z.testbit i (Z.of_nat k).
Proof.
  intros i k. rewrite generator_state. unfold s_make_bitwise_generator_step. cbn [fst].
  rewrite <- Z.bit0_odd, Z.shiftr_spec by lia. f_equal.
Qed.

Example generator_witness :
  map (fun k => fst (s_make_bitwise_generator_step
                       (Nat.iter k (fun s => snd (s_make_bitwise_generator_step s)) (-6))))
      [0; 1; 2; 3; 4; 50]%nat = [false; true; false; true; true; true].
Proof. vm_compute. reflexivity. Qed.

(** * 2. vector->bits *)

Lemma vector_to_bits_lp_ok : forall (m fuel : nat) vec i res,
  (m < fuel)%nat -> 0 <= i -> i + Z.of_nat m = Z.of_nat (length vec) -> 0 <= res < 2 ^ i ->
  exists r, s_vector_to_bits_lp fuel vec (Z.of_nat (length vec)) i (2 ^ i) res = Some r /\
    0 <= r < 2 ^ Z.of_nat (length vec) /\
    forall k, 0 <= k -> Z.testbit r k = if k <? i then Z.testbit res k else nth (Z.to_nat k) vec false.
Proof.
  induction m as [|m IH]; intros fuel vec i res Hf Hi Hm Hres;
    (destruct fuel as [|fuel]; [lia|]); cbn [s_vector_to_bits_lp].
  - replace (i =? Z.of_nat (length vec)) with true by (symmetry; apply Z.eqb_eq; lia).
    exists res. split; [reflexivity|]. split; [replace (Z.of_nat (length vec)) with i by lia; assumption|].
    intros k Hk. destruct (Z.ltb_spec k i) as [Hlt|Hge]; [reflexivity|].
    rewrite (small_bits_high i res k) by lia. symmetry. apply nth_overflow. lia.
  - replace (i =? Z.of_nat (length vec)) with false by (symmetry; apply Z.eqb_neq; lia).
    assert (2 ^ i * 2 = 2 ^ (i + 1)) as E2 by (rewrite Z.pow_add_r by lia; lia).
    rewrite E2. unfold sb_vector_ref.
    destruct (nth (Z.to_nat i) vec false) eqn:Hb.
    + destruct (IH fuel vec (i + 1) (res + 2 ^ i)) as (r & Hr & Hr0 & Hbits); [lia|lia|lia|lia|].
      exists r. split; [exact Hr|]. split; [exact Hr0|].
      intros k Hk. rewrite Hbits by assumption.
      destruct (Z.ltb_spec k (i + 1)) as [Hlt|Hge].
      * replace (res + 2 ^ i) with (res + 2 ^ i * 1) by lia.
        rewrite testbit_digit by lia.
        destruct (Z.ltb_spec k i) as [Hlt'|Hge']; [reflexivity|].
        assert (k = i) as -> by lia. rewrite Z.sub_diag, Hb. reflexivity.
      * replace (k <? i) with false by (symmetry; apply Z.ltb_ge; lia). reflexivity.
    + destruct (IH fuel vec (i + 1) res) as (r & Hr & Hr0 & Hbits); [lia|lia|lia|lia|].
      exists r. split; [exact Hr|]. split; [exact Hr0|].
      intros k Hk. rewrite Hbits by assumption.
      destruct (Z.ltb_spec k (i + 1)) as [Hlt|Hge].
      * destruct (Z.ltb_spec k i) as [Hlt'|Hge']; [reflexivity|].
        assert (k = i) as -> by lia. rewrite Hb. apply (small_bits_high i res i); lia.
      * replace (k <? i) with false by (symmetry; apply Z.ltb_ge; lia). reflexivity.
Qed.

Theorem vector_to_bits_ok : forall v fuel, (length v < fuel)%nat ->
  exists r, s_vector_to_bits fuel v = Some r /\ 0 <= r < 2 ^ Z.of_nat (length v) /\
    forall k, 0 <= k -> Z.testbit r k = nth (Z.to_nat k) v false.
Proof.
  intros v fuel Hf. unfold s_vector_to_bits, sb_vector_length. cbv zeta.
  destruct (vector_to_bits_lp_ok (length v) fuel v 0 0) as (r & Hr & Hr0 & Hb); [lia|lia|lia|cbn; lia|].
  change (2 ^ 0) with 1 in Hr.
  exists r. split; [exact Hr|]. split; [exact Hr0|].
  intros k Hk. rewrite Hb by assumption.
  replace (k <? 0) with false by (symmetry; apply Z.ltb_ge; lia). reflexivity.
Qed.

Example vector_to_bits_witness : s_vector_to_bits 10 [true; false; true; true] = Some 13.
Proof. vm_compute. reflexivity. Qed.

(** * 3. bits->vector *)

Lemma vset_length {A} (v : list A) i x : (i < length v)%nat ->
  length (firstn i v ++ x :: skipn (S i) v) = length v.
Proof.
  intros Hi. rewrite app_length, firstn_length. cbn [length]. rewrite skipn_length. lia.
Qed.

Lemma vset_nth {A} (v : list A) x d : forall i k, (i < length v)%nat ->
  nth k (firstn i v ++ x :: skipn (S i) v) d = if (k =? i)%nat then x else nth k v d.
Proof.
  induction v as [|a v IH]; intros i k Hi; cbn [length] in Hi; [lia|].
  destruct i as [|i].
  - destruct k; reflexivity.
  - destruct k as [|k]; [reflexivity|].
    change (nth k (firstn i v ++ x :: skipn (S i) v) d = if (k =? i)%nat then x else nth k v d).
    apply IH. lia.
Qed.

Lemma nth_repeat_false k m : nth k (repeat false m) false = false.
Proof. revert k. induction m as [|m IH]; intros [|k]; cbn [repeat nth]; auto. Qed.

Lemma bits_to_vector_lp_ok : forall (m fuel : nat) len res n i,
  (m < fuel)%nat -> 0 <= i -> i + Z.of_nat m = len -> length res = Z.to_nat len ->
  (forall k, i <= Z.of_nat k -> nth k res false = false) ->
  exists v, s_bits_to_vector_lp fuel len res n i = Some v /\ length v = Z.to_nat len /\
    forall k, (k < Z.to_nat len)%nat ->
      nth k v false = if Z.of_nat k <? i then nth k res false else Z.testbit n (Z.of_nat k - i).
Proof.
  induction m as [|m IH]; intros fuel len res n i Hf Hi Hm Hlen Hfalse;
    (destruct fuel as [|fuel]; [lia|]); cbn [s_bits_to_vector_lp].
  - replace (i >=? len) with true by (symmetry; apply Z.geb_le; lia).
    exists res. split; [reflexivity|]. split; [assumption|].
    intros k Hk. replace (Z.of_nat k <? i) with true by (symmetry; apply Z.ltb_lt; lia). reflexivity.
  - replace (i >=? len) with false by (symmetry; rewrite Z.geb_leb; apply Z.leb_gt; lia).
    cbv zeta.
    set (res' := if Z.odd n then sb_vector_set res i true else res).
    assert (length res' = Z.to_nat len) as Hlen'.
    { unfold res', sb_vector_set. destruct (Z.odd n); [|assumption]. rewrite vset_length; lia. }
    assert (forall k, nth k res' false = if (k =? Z.to_nat i)%nat then Z.odd n else nth k res false) as Hres'.
    { intros k. unfold res', sb_vector_set. destruct (Z.odd n).
      - apply vset_nth. lia.
      - destruct (Nat.eqb_spec k (Z.to_nat i)) as [->|]; [|reflexivity]. apply Hfalse. lia. }
    destruct (IH fuel len res' (Z.shiftl n (-1)) (i + 1)) as (v & Hv & Hvl & Hvb); [lia|lia|lia|assumption| |].
    + intros k Hk. rewrite Hres'.
      replace (k =? Z.to_nat i)%nat with false by (symmetry; apply Nat.eqb_neq; lia).
      apply Hfalse. lia.
    + exists v. split; [exact Hv|]. split; [exact Hvl|].
      intros k Hk. rewrite Hvb by assumption. rewrite Hres'.
      destruct (Z.ltb_spec (Z.of_nat k) i) as [Hlt|Hge].
      * replace (Z.of_nat k <? i + 1) with true by (symmetry; apply Z.ltb_lt; lia).
        replace (k =? Z.to_nat i)%nat with false by (symmetry; apply Nat.eqb_neq; lia). reflexivity.
      * destruct (Z.ltb_spec (Z.of_nat k) (i + 1)) as [Hlt'|Hge'].
        -- replace (k =? Z.to_nat i)%nat with true by (symmetry; apply Nat.eqb_eq; lia).
           replace (Z.of_nat k - i) with 0 by lia. symmetry. apply Z.bit0_odd.
        -- rewrite shl_m1_bit by lia. f_equal. lia.
Qed.

Theorem bits_to_vector_ok : forall n o fuel,
  let len := match o with x :: _ => x | [] => integer_length_spec n end in
  0 <= len -> (Z.to_nat len < fuel)%nat ->
  exists v, s_bits_to_vector fuel n o = Some v /\ length v = Z.to_nat len /\
    forall k, (k < Z.to_nat len)%nat -> nth k v false = Z.testbit n (Z.of_nat k).
Proof.
  intros n o fuel len Hl Hf. unfold s_bits_to_vector. cbv zeta.
  replace (if sb_pair_p o then sb_car o else integer_length_spec n) with len
    by (unfold len; destruct o; reflexivity).
  destruct (bits_to_vector_lp_ok (Z.to_nat len) fuel len (sb_make_vector len false) n 0)
    as (v & Hv & Hvl & Hvb); [lia|lia|lia| | |].
  - unfold sb_make_vector. apply repeat_length.
  - intros k _. apply nth_repeat_false.
  - exists v. split; [exact Hv|]. split; [exact Hvl|].
    intros k Hk. rewrite Hvb by assumption.
    replace (Z.of_nat k <? 0) with false by (symmetry; apply Z.ltb_ge; lia). f_equal. lia.
Qed.

Example bits_to_vector_witness : s_bits_to_vector 10 (-6) [5] = Some [false; true; false; true; true].
Proof. vm_compute. reflexivity. Qed.
Example bits_to_vector_witness_default : s_bits_to_vector 10 6 [] = Some [false; true; true].
Proof. vm_compute. reflexivity. Qed.

(** * 6. bitwise-unfold *)

Lemma add_bit_spec j0 i (b : bool) : 0 <= j0 -> 0 <= i < 2 ^ j0 ->
  0 <= (if b then i + 2 ^ j0 else i) < 2 ^ (j0 + 1) /\
  forall j, 0 <= j -> Z.testbit (if b then i + 2 ^ j0 else i) j =
                      if j <? j0 then Z.testbit i j else (j =? j0) && b.
Proof.
  intros Hj Hi. assert (2 ^ (j0 + 1) = 2 ^ j0 * 2) as E by (rewrite Z.pow_add_r by lia; lia).
  split; [destruct b; lia|].
  intros j Hj'. destruct b.
  - replace (i + 2 ^ j0) with (i + 2 ^ j0 * 1) by lia. rewrite testbit_digit by lia.
    destruct (Z.ltb_spec j j0); [reflexivity|]. rewrite testbit_one by lia.
    rewrite andb_true_r. destruct (Z.eqb_spec j j0), (Z.eqb_spec (j - j0) 0); try reflexivity; lia.
  - destruct (Z.ltb_spec j j0); [reflexivity|]. rewrite andb_false_r. apply (small_bits_high j0 i j); lia.
Qed.

Lemma bitwise_unfold_lp_ok : forall (St : Type) (stop mapper : St -> bool) (succ : St -> St) (k fuel : nat) state j0 i,
  0 <= j0 -> 0 <= i < 2 ^ j0 ->
  (forall j, (j < k)%nat -> stop (Nat.iter j succ state) = false) -> stop (Nat.iter k succ state) = true ->
  (k < fuel)%nat ->
  exists r, s_bitwise_unfold_lp fuel stop mapper succ state (2 ^ j0) i = Some r /\
    0 <= r < 2 ^ (j0 + Z.of_nat k) /\
    forall j, 0 <= j -> Z.testbit r j =
      if j <? j0 then Z.testbit i j
      else (j <? j0 + Z.of_nat k) && mapper (Nat.iter (Z.to_nat (j - j0)) succ state).
Proof.
  intros St stop mapper succ. induction k as [|k IH]; intros fuel state j0 i Hj0 Hi Hns Hs Hf;
    (destruct fuel as [|fuel]; [lia|]); cbn [s_bitwise_unfold_lp].
  - change (Nat.iter 0 succ state) with state in Hs. rewrite Hs.
    exists i. split; [reflexivity|]. split; [rewrite Z.add_0_r; assumption|].
    intros j Hj. destruct (Z.ltb_spec j j0); [reflexivity|].
    replace (j <? j0 + Z.of_nat 0) with false by (symmetry; apply Z.ltb_ge; lia).
    apply (small_bits_high j0 i j); lia.
  - assert (stop state = false) as Hs0 by (apply (Hns 0%nat); lia). rewrite Hs0.
    assert (2 ^ j0 * 2 = 2 ^ (j0 + 1)) as E2 by (rewrite Z.pow_add_r by lia; lia).
    rewrite E2.
    destruct (add_bit_spec j0 i (mapper state) Hj0 Hi) as [Hrange Hbits].
    destruct (IH fuel (succ state) (j0 + 1) (if mapper state then i + 2 ^ j0 else i))
      as (r & Hr & Hr0 & Hb); [lia|exact Hrange| | |lia|].
    + intros j Hj. rewrite <- iter_S_r. apply Hns. lia.
    + rewrite <- iter_S_r. exact Hs.
    + exists r. split; [exact Hr|].
      split; [replace (j0 + Z.of_nat (S k)) with (j0 + 1 + Z.of_nat k) by lia; exact Hr0|].
      intros j Hj. rewrite Hb, Hbits by assumption.
      replace (j0 + Z.of_nat (S k)) with (j0 + 1 + Z.of_nat k) by lia.
      destruct (Z.ltb_spec j j0) as [Hlt|Hge].
      * replace (j <? j0 + 1) with true by (symmetry; apply Z.ltb_lt; lia). reflexivity.
      * destruct (Z.ltb_spec j (j0 + 1)) as [Hlt'|Hge'].
        -- assert (j = j0) as -> by lia. rewrite Z.eqb_refl, Z.sub_diag.
           replace (j0 <? j0 + 1 + Z.of_nat k) with true by (symmetry; apply Z.ltb_lt; lia).
           reflexivity.
        -- rewrite <- iter_S_r. replace (S (Z.to_nat (j - (j0 + 1)))) with (Z.to_nat (j - j0)) by lia.
           reflexivity.
Qed.

Theorem bitwise_unfold_ok : forall (St : Type) (stop mapper : St -> bool) (succ : St -> St) seed (k fuel : nat),
  (forall j, (j < k)%nat -> stop (Nat.iter j succ seed) = false) -> stop (Nat.iter k succ seed) = true ->
  (k < fuel)%nat ->
  exists r, s_bitwise_unfold fuel stop mapper succ seed = Some r /\ 0 <= r < 2 ^ Z.of_nat k /\
    forall j, 0 <= j -> Z.testbit r j = (j <? Z.of_nat k) && mapper (Nat.iter (Z.to_nat j) succ seed).
Proof.
  intros St stop mapper succ seed k fuel Hns Hs Hf. unfold s_bitwise_unfold.
  destruct (bitwise_unfold_lp_ok St stop mapper succ k fuel seed 0 0) as (r & Hr & Hr0 & Hb);
    [lia|cbn; lia|assumption|assumption|assumption|].
  change (2 ^ 0) with 1 in Hr. rewrite Z.add_0_l in Hr0.
  exists r. split; [exact Hr|]. split; [exact Hr0|].
  intros j Hj. rewrite Hb by assumption.
  replace (j <? 0) with false by (symmetry; apply Z.ltb_ge; lia).
  rewrite Z.add_0_l, Z.sub_0_r. reflexivity.
Qed.

Example bitwise_unfold_witness :
  s_bitwise_unfold 10 (fun s => s =? 5) Z.even (fun s => s + 1) 0 = Some 21.
Proof. vm_compute. reflexivity. Qed.

(** * 4. list->bits, bits, bits->list, round trip *)

Theorem list_to_bits_ok : forall v fuel, (length v < fuel)%nat ->
  exists r, s_list_to_bits fuel v = Some r /\ 0 <= r < 2 ^ Z.of_nat (length v) /\
    forall k, 0 <= k -> Z.testbit r k = nth (Z.to_nat k) v false.
Proof. intros v fuel Hf. unfold s_list_to_bits, sb_list_to_vector. apply vector_to_bits_ok. assumption. Qed.

Theorem bits_ok : forall v fuel, (length v < fuel)%nat ->
  exists r, s_bits fuel v = Some r /\ 0 <= r < 2 ^ Z.of_nat (length v) /\
    forall k, 0 <= k -> Z.testbit r k = nth (Z.to_nat k) v false.
Proof. intros v fuel Hf. unfold s_bits. apply list_to_bits_ok. assumption. Qed.

Theorem bits_to_list_ok : forall n o fuel,
  let len := match o with x :: _ => x | [] => integer_length_spec n end in
  0 <= len -> (Z.to_nat len < fuel)%nat ->
  exists v, s_bits_to_list fuel n o = Some v /\ length v = Z.to_nat len /\
    forall k, (k < Z.to_nat len)%nat -> nth k v false = Z.testbit n (Z.of_nat k).
Proof.
  intros n o fuel len Hl Hf. unfold s_bits_to_list, sb_vector_to_list.
  destruct (bits_to_vector_ok n o fuel Hl Hf) as (v & Hv & Hrest).
  rewrite Hv. exists v. split; [reflexivity|exact Hrest].
Qed.

Lemma bits_above_bitlen n k : 0 <= n -> bitlen n <= k -> Z.testbit n k = false.
Proof.
  intros Hn Hk. unfold bitlen in Hk. destruct (Z.eqb_spec n 0) as [->|Hne].
  - apply Z.testbit_0_l.
  - apply Z.bits_above_log2; lia.
Qed.

Theorem bits_roundtrip : forall n fuel, 0 <= n -> (Z.to_nat (integer_length_spec n) < fuel)%nat ->
  exists l, s_bits_to_list fuel n [] = Some l /\ s_list_to_bits fuel l = Some n.
Proof.
  intros n fuel Hn Hf.
  assert (0 <= integer_length_spec n) as Hl by (rewrite il_nonneg by assumption; apply bitlen_nonneg).
  destruct (bits_to_list_ok n [] fuel Hl Hf) as (l & Hl1 & Hlen & Hlb).
  exists l. split; [exact Hl1|].
  destruct (list_to_bits_ok l fuel) as (r & Hr & _ & Hrb); [lia|].
  rewrite Hr. f_equal. apply Z.bits_inj'. intros k Hk. rewrite Hrb by assumption.
  destruct (Z.ltb_spec k (integer_length_spec n)) as [Hlt|Hge].
  - rewrite Hlb by lia. f_equal. lia.
  - rewrite nth_overflow by lia. symmetry. apply bits_above_bitlen; [assumption|].
    rewrite <- il_nonneg by assumption. assumption.
Qed.

Example list_to_bits_witness : s_list_to_bits 10 [false; true; true] = Some 6.
Proof. vm_compute. reflexivity. Qed.
Example bits_witness : s_bits 10 [true; false; true; true] = Some 13.
Proof. vm_compute. reflexivity. Qed.
Example bits_to_list_witness : s_bits_to_list 10 (-6) [5] = Some [false; true; false; true; true].
Proof. vm_compute. reflexivity. Qed.
Example bits_roundtrip_witness :
  s_bits_to_list 10 22 [] = Some [false; true; true; false; true] /\
  s_list_to_bits 10 [false; true; true; false; true] = Some 22.
Proof. vm_compute. split; reflexivity. Qed.
