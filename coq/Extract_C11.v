From Coq Require Import ExtrOcamlBasic.
From ChibiV Require Import Common.ExtractBase C11.Model.
Extraction "model.ml" ext_base init step enabled run scheduler cur front back paused th mx started.
