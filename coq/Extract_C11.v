From Coq Require Import ExtrOcamlBasic.
From ChibiV Require Import Common.ExtractBase C11.Model C11.Prog.
Extraction "model.ml" ext_base init step enabled Model.run scheduler cur front back paused th mx started prog_outcome prog_properly_locked canonical.
