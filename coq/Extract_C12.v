From Coq Require Import ExtrOcamlBasic.
From ChibiV Require Import Common.ExtractBase C12.Model C12.Spec C12.PortModel C12.RangeModel C12.FilePortModel C12.MapModel C12.HistModel2 C12.CiModel.
Extraction "model.ml" ext_base
  sexp_utf8_initial_byte_count sexp_utf8_char_byte_count sexp_utf8_encode_char sexp_string_utf8_ref
  verif_c12_unbox_character verif_c12_make_character
  lead_count width encode decode_at string_length index_to_cursor cursor_to_index string_ref string_set
  substring string_copy string_append string_concatenate make_string of_utf8_shared to_utf8 slice
  cursor_next cursor_prev cursor_end step run spec_step spec_run
  read_byte read_char peek_char read_string read_line open_string_port open_fd_port pending
  write_char write_chars write_bytes out_bytes open_output_string
  op_write_string display_string write_string_io string_to_utf8_range string_fill string_copy_bang string_map string_cmp
  fgetc fread_char fpeek_char fread_string open_file_port fpending
  string_map_n for_each_args xstep xspec_step xrun xspec_run xpreb hist_okb
  string_cmp_ci string_foldcase_cps char_foldcase fold_char string_foldcase string_ci_cmp_full.
