From Coq Require Import ExtrOcamlBasic List.
From ChibiV Require Import Common.ExtractBase Gen.C10_Consts C10.Model.
(* Coq's List.rev is the quadratic definition (rev l ++ [x]); a full segment is ONE run of 100 000 objects, which the
   sweep reverses: extracted to OCaml's linear List.rev (same function; trusted, see notes/C10.md (d)) *)
Extract Inlined Constant rev => "List.rev".
Extraction "model.ml" ext_base init try_alloc gc sweep alloc grow must_grow grow_size total_size heap_objs free_list
  unit_sz hdr_sz min_obj.
