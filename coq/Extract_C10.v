From Coq Require Import ExtrOcamlBasic List.
From ChibiV Require Import Common.ExtractBase Gen.C10_Consts C10.Model C10.Image.
(* Coq's List.rev is the quadratic definition (rev l ++ [x]); a full segment is ONE run of 100 000 objects, which the
   sweep reverses: extracted to OCaml's linear List.rev (same function; trusted, see notes/C10.md (d)) *)
Extract Inlined Constant rev => "List.rev".
(* round 3: a filled segment is ONE run of up to a million objects, and the extracted length / app / map / fold_right /
   Nat.add recurse once per element (stack overflow in the thorough growth streams).  Same functions, written with an
   accumulator (trusted like List.rev above; the per-free-list-node recursions of the model itself stay as extracted). *)
Extract Constant length => "fun l -> let rec go acc = function [] -> acc | _ :: t -> go (S acc) t in go O l".
Extract Constant app => "fun l m -> List.rev_append (List.rev l) m".
Extract Constant map => "fun f l -> List.rev (List.rev_map f l)".
Extract Constant fold_right => "fun f a l -> List.fold_left (fun acc x -> f x acc) a (List.rev l)".
Extract Constant Nat.add => "fun n m -> let rec go n m = match n with O -> m | S p -> go p (S m) in go n m".
Extraction "model.ml" ext_base init try_alloc gc sweep alloc grow must_grow grow_size total_size heap_objs free_list
  unit_sz hdr_sz min_obj
  packed_heap_make image_state rstep root_list closure.
