From Coq Require Import ExtrOcamlBasic.
From ChibiV Require Import Common.ExtractBase Gen.C10_Consts C10.Model.
Extraction "model.ml" ext_base init try_alloc gc sweep alloc grow must_grow grow_size total_size heap_objs free_list
  unit_sz hdr_sz min_obj.
