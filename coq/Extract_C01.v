From Coq Require Import ExtrOcamlBasic.
From ChibiV Require Import Common.ExtractBase C01.Model C01.Spec C01.Prims Gen.C01_VmGuards Gen.C01_Stack C01.Recursion Gen.C01_Recursion.
Extraction "model.ml" ext_base run_entry vm_table entry_safe spec
  prim_substring prim_subbytes prim_cursor_to_index prim_make_vector prim_make_bytes prim_index_to_cursor fix_to_cur prim_utf8_ref_checked prim_utf8_set in_boundsb
  gen_ensure_stack step write_sites site_ok.
