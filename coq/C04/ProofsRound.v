(** Rounding of exact rationals (sexp_ratio_trunc/_floor/_ceiling/_round) and ratio subtraction. *)
From ChibiV Require Import Common.Words C04.Model C04.Model2 C04.Model3 C04.Model4 C04.Model5 C04.Model6
  C04.Proofs C04.ProofsFx C04.ProofsMul C04.ProofsDiv C04.ProofsQuot C04.ProofsSqrt C04.ProofsRatio.
From Coq Require Import ZifyBool Znumtheory.
Local Open Scope Z_scope.

Theorem ratio_sub_spec fuel qf mf na da nb db :
  wf_num na -> wf_num da -> wf_num nb -> wf_num db -> nval da <> 0 -> nval db <> 0 ->
  rat_ok (ratio_sub fuel qf mf na da nb db) (nval na * nval db - nval nb * nval da) (nval da * nval db).
Proof.
  intros Wna Wda Wnb Wdb Hda Hdb. unfold ratio_sub.
  apply omul_ok; [assumption|reflexivity|]. intros nb' W' _ V'. cbn [nval] in V'.
  pose proof (ratio_add_spec fuel qf mf na da nb' db Wna Wda W' Wdb Hda Hdb) as H.
  rewrite V' in H. replace (nval na * nval db - nval nb * nval da) with (nval na * nval db + nval nb * -1 * nval da) by ring.
  exact H.
Qed.

Lemma is_pos_nz x : wf_num x -> nval x <> 0 -> is_pos x = (0 <? nval x).
Proof.
  destruct x as [z|s d]; cbn [is_pos nval wf_num]; intros Hw Hnz; [reflexivity|].
  destruct Hw as (Hs & Hd & _). cbn [fst snd] in *. pose proof (val_nonneg d Hd).
  destruct Hs as [-> | ->].
  - destruct (Z.ltb_spec 0 (1 * val d)); [reflexivity|lia].
  - destruct (Z.ltb_spec 0 (-1 * val d)); [lia|reflexivity].
Qed.

Theorem ratio_trunc_spec qf mf n d r : wf_num n -> wf_num d ->
  ratio_trunc qf mf n d = NV r -> nval r = Z.quot (nval n) (nval d).
Proof. intros Hn Hd H. apply num_quotient_spec in H; tauto. Qed.

(** floor / ceiling of a non-integral fraction with positive denominator *)
Theorem ratio_floor_spec qf mf n d r : wf_num n -> wf_num d -> 0 < nval d -> Z.rem (nval n) (nval d) <> 0 ->
  ratio_floor qf mf n d = NV r -> nval r = nval n / nval d.
Proof.
  intros Hn Hd Hd0 Hr H. unfold ratio_floor in H.
  destruct (num_quotient qf mf n d) as [q| |] eqn:E; try discriminate.
  apply num_quotient_spec in E; [|assumption|assumption]. destruct E as (_ & Vq & Wq).
  apply NV_inj in H. subst r.
  assert (Hn0 : nval n <> 0) by (intros E; rewrite E, Z.rem_0_l in Hr; lia).
  rewrite (is_neg_nz n Hn Hn0).
  pose proof (Z.quot_rem' (nval n) (nval d)) as Hqr. pose proof (Z.rem_bound_abs (nval n) (nval d) ltac:(lia)) as Hb.
  pose proof (Z.rem_sign_mul (nval n) (nval d) ltac:(lia)) as Hs. rewrite <- Vq in Hqr.
  destruct (Z.ltb_spec (nval n) 0).
  - destruct (num_add_spec q (Fix (-1)) Wq eq_refl) as (V & _ & _). rewrite V. cbn [nval].
    apply (Z.div_unique _ _ _ (Z.rem (nval n) (nval d) + nval d)); nia.
  - apply (Z.div_unique _ _ _ (Z.rem (nval n) (nval d))); nia.
Qed.

Theorem ratio_ceiling_spec qf mf n d r : wf_num n -> wf_num d -> 0 < nval d -> Z.rem (nval n) (nval d) <> 0 ->
  ratio_ceiling qf mf n d = NV r -> nval r = - ((- nval n) / nval d).
Proof.
  intros Hn Hd Hd0 Hr H. unfold ratio_ceiling in H.
  destruct (num_quotient qf mf n d) as [q| |] eqn:E; try discriminate.
  apply num_quotient_spec in E; [|assumption|assumption]. destruct E as (_ & Vq & Wq).
  apply NV_inj in H. subst r.
  assert (Hn0 : nval n <> 0) by (intros E; rewrite E, Z.rem_0_l in Hr; lia).
  rewrite (is_pos_nz n Hn Hn0).
  pose proof (Z.quot_rem' (nval n) (nval d)) as Hqr. pose proof (Z.rem_bound_abs (nval n) (nval d) ltac:(lia)) as Hb.
  pose proof (Z.rem_sign_mul (nval n) (nval d) ltac:(lia)) as Hs. rewrite <- Vq in Hqr.
  destruct (Z.ltb_spec 0 (nval n)).
  - destruct (num_add_spec q (Fix 1) Wq eq_refl) as (V & _ & _). rewrite V. cbn [nval].
    assert (E : (- nval n) / nval d = - (nval q + 1)); [|lia].
    symmetry. apply (Z.div_unique _ _ _ (nval d - Z.rem (nval n) (nval d))); nia.
  - assert (E : (- nval n) / nval d = - nval q); [|lia].
    symmetry. apply (Z.div_unique _ _ _ (- Z.rem (nval n) (nval d))); nia.
Qed.

(** ** round to even *)
Definition round_ok (n d R : Z) : Prop :=
  2 * Z.abs (n - R * d) < d \/ (2 * Z.abs (n - R * d) = d /\ Z.even R = true).

Lemma is_two_spec d : is_two d = true -> d = Fix 2.
Proof. destruct d as [z|]; [|discriminate]. destruct z as [|p|p]; try discriminate. destruct p as [p|p|]; try discriminate. destruct p; try discriminate. reflexivity. Qed.

Lemma canon_two d : canon d -> nval d = 2 -> is_two d = true.
Proof.
  unfold canon. destruct d as [z|s dd]; cbn [is_fix nval is_two]; intros Hc Hv.
  - subst. reflexivity.
  - rewrite Hv in Hc. discriminate.
Qed.

Lemma B_even : Z.even B = true.
Proof. reflexivity. Qed.

Lemma is_odd_spec x : wf_num x -> is_odd x = Z.odd (nval x).
Proof.
  destruct x as [z|s d]; cbn [is_odd nval wf_num]; intros Hw; [reflexivity|].
  destruct Hw as (Hs & Hd & Hn). cbn [fst snd] in *.
  destruct d as [|x0 d']; [congruence|]. unfold wd. cbn [nth val].
  assert (Z.odd (x0 + B * val d') = Z.odd x0).
  { rewrite Z.odd_add, Z.odd_mul. replace (Z.odd B) with false by reflexivity. cbn [andb]. apply xorb_false_r. }
  destruct Hs as [-> | ->].
  - rewrite Z.mul_1_l. symmetry. assumption.
  - replace (-1 * (x0 + B * val d')) with (- (x0 + B * val d')) by ring. rewrite Z.odd_opp. symmetry. assumption.
Qed.

Lemma gcd1_rem_nz n d : 1 < d -> Z.gcd n d = 1 -> Z.rem n d <> 0.
Proof.
  intros Hd Hg Hr. apply Z.rem_divide in Hr; [|lia].
  assert (Hdd : (d | Z.gcd n d)) by (apply Z.gcd_greatest; [exact Hr|apply Z.divide_refl]).
  rewrite Hg in Hdd. apply Z.divide_1_r_nonneg in Hdd; lia.
Qed.

Theorem ratio_round_spec qf mf n d R : wf_num n -> wf_num d -> canon d ->
  1 < nval d -> Z.gcd (nval n) (nval d) = 1 ->
  ratio_round qf mf n d = NV R -> round_ok (nval n) (nval d) (nval R).
Proof.
  intros Hn Hd Cd Hd1 Hg H. unfold ratio_round in H.
  destruct (num_quotient qf mf n d) as [q| |] eqn:Eq; try discriminate.
  apply num_quotient_spec in Eq; [|assumption|assumption]. destruct Eq as (_ & Vq & Wq).
  pose proof (gcd1_rem_nz _ _ Hd1 Hg) as Hrnz.
  pose proof (Z.quot_rem' (nval n) (nval d)) as Hqr. pose proof (Z.rem_bound_abs (nval n) (nval d) ltac:(lia)) as Hb.
  pose proof (Z.rem_sign_mul (nval n) (nval d) ltac:(lia)) as Hs. rewrite <- Vq in Hqr.
  set (r := Z.rem (nval n) (nval d)) in *.
  assert (Hn0 : nval n <> 0) by (intros E; unfold r in Hrnz; rewrite E, Z.rem_0_l in Hrnz; lia).
  unfold round_ok.
  destruct (is_two d && is_odd q) eqn:Hb1.
  - apply andb_prop in Hb1. destruct Hb1 as [H2 Ho]. apply is_two_spec in H2. subst d. cbn [nval] in *.
    rewrite (is_odd_spec q Wq) in Ho.
    assert (Hq0 : nval q <> 0) by (intros E; rewrite E in Ho; discriminate).
    apply NV_inj in H. subst R. rewrite (is_pos_nz q Wq Hq0).
    destruct (Z.ltb_spec 0 (nval q)).
    + destruct (num_add_spec q (Fix 1) Wq eq_refl) as (V & _ & _). rewrite V. cbn [nval].
      right. split; [nia|]. rewrite Z.even_add, <- Z.negb_odd, Ho. reflexivity.
    + destruct (num_add_spec q (Fix (-1)) Wq eq_refl) as (V & _ & _). rewrite V. cbn [nval].
      right. split; [nia|]. rewrite Z.even_add, <- Z.negb_odd, Ho. reflexivity.
  - destruct (num_remainder qf mf n d) as [r'| |] eqn:Er; try discriminate.
    apply num_remainder_spec in Er; [|assumption|assumption]. destruct Er as (_ & Vr & Wr). fold r in Vr.
    assert (Hr0 : nval r' <> 0) by (rewrite Vr; exact Hrnz).
    rewrite (is_neg_nz r' Wr Hr0) in H.
    destruct (num_mul mf r' (if nval r' <? 0 then Fix (-2) else Fix 2)) as [r2|] eqn:Em; [|discriminate].
    apply num_mul_spec in Em; [|assumption|destruct (nval r' <? 0); reflexivity]. destruct Em as (V2 & C2 & W2).
    assert (Vabs : nval r2 = 2 * Z.abs r).
    { rewrite V2, Vr. destruct (Z.ltb_spec r 0); cbn [nval]; lia. }
    pose proof (num_compare_spec r2 d W2 Hd (cmp_ok_canon _ _ C2 Cd)) as Hc. rewrite Vabs in Hc.
    (* no tie unless d = 2 *)
    assert (Htie : 2 * Z.abs r = nval d -> nval d = 2).
    { intros E. assert (Hdiv : (Z.abs r | Z.gcd (nval n) (nval d))).
      { apply Z.gcd_greatest.
        - rewrite Hqr, <- E. apply Z.divide_add_r; [apply Z.divide_mul_l, Z.divide_mul_r, Z.divide_refl|apply Z.divide_abs_l, Z.divide_refl].
        - rewrite <- E. apply Z.divide_mul_r, Z.divide_refl. }
      rewrite Hg in Hdiv. apply Z.divide_1_r_nonneg in Hdiv; lia. }
    destruct (Z.ltb_spec 0 (num_compare r2 d)) as [Hgt|Hle].
    + apply NV_inj in H. subst R. rewrite (is_neg_nz n Hn Hn0).
      destruct (Z.ltb_spec (nval n) 0).
      * destruct (num_add_spec q (Fix (-1)) Wq eq_refl) as (V & _ & _). rewrite V. cbn [nval]. left. nia.
      * destruct (num_add_spec q (Fix 1) Wq eq_refl) as (V & _ & _). rewrite V. cbn [nval]. left. nia.
    + apply NV_inj in H. subst R.
      destruct (Z.eq_dec (2 * Z.abs r) (nval d)) as [E|NE].
      * right. pose proof (Htie E) as Hd2. split; [nia|].
        apply andb_false_elim in Hb1. destruct Hb1 as [Ht|Ho].
        -- rewrite (canon_two d Cd Hd2) in Ht. discriminate.
        -- rewrite (is_odd_spec q Wq) in Ho. rewrite <- Z.negb_odd, Ho. reflexivity.
      * left. nia.
Qed.

Example round_example :
  ratio_round 8 16 (Fix (-2305843009213693952)) (Fix 2305843009213693953) = NV (Fix (-1))   (* F-C04-6 witness *)
  /\ ratio_round 8 16 (Fix 7) (Fix 2) = NV (Fix 4) /\ ratio_round 8 16 (Fix (-5)) (Fix 2) = NV (Fix (-2))
  /\ ratio_floor 8 16 (Fix (-7)) (Fix 2) = NV (Fix (-4)) /\ ratio_ceiling 8 16 (Fix 7) (Fix 2) = NV (Fix 4).
Proof. vm_compute. repeat split; reflexivity. Qed.

(** ** VM multiplication fast path *)
Theorem vm_mul_spec mf a b r : wf_num a -> wf_num b -> vm_mul mf a b = Some r ->
  nval r = nval a * nval b /\ canon r /\ wf_num r.
Proof.
  intros Ha Hb H. destruct a as [x|sa da], b as [y|sb db]; unfold vm_mul in H;
    try (apply num_mul_spec in H; assumption).
  cbn [wf_num nval] in *. destruct (fits_fix (x * y)) eqn:Hf.
  - apply Some_inj in H. subst r. cbn [nval wf_num]. split; [reflexivity|]. split; [apply canon_fix|]; assumption.
  - destruct (fixnum_to_bignum_spec x (fits_abs_lt_B x Ha)) as [Wx Vx].
    apply num_mul_spec in H; [|apply wf_num_big_num; exact Wx|exact Hb].
    rewrite nval_big_num, Vx in H. exact H.
Qed.
