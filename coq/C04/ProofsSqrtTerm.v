(** The Newton loop of sexp_bignum_sqrt terminates from any positive estimate: one step brings the
    estimate to or above the root, then it strictly decreases until the exit test holds. *)
From ChibiV Require Import Common.Words C04.Model C04.Model2 C04.Model3 C04.Model4
  C04.Proofs C04.ProofsFx C04.ProofsMul C04.ProofsDiv C04.ProofsQuot C04.ProofsSqrt
  C04.ProofsMulTerm C04.ProofsDivTerm C04.ProofsDivTerm2 C04.ProofsRatioTerm.
From Coq Require Import ZifyBool.
Local Open Scope Z_scope.

(** ** the arithmetic of one Newton step on integers *)
Lemma newton_ge_root a x s : 1 <= x -> 0 <= a -> 0 <= s -> s * s <= a ->
  s <= Z.quot (x + Z.quot a x) 2.
Proof.
  intros Hx Ha Hs Hsa.
  rewrite (Z.quot_div_nonneg a x) by lia.
  assert (0 <= a / x) by (apply Z.div_pos; lia).
  rewrite (Z.quot_div_nonneg (x + a / x) 2) by lia.
  pose proof (Z.div_mod a x ltac:(lia)) as D1. pose proof (Z.mod_pos_bound a x ltac:(lia)) as M1.
  set (y := a / x) in *.
  apply Z.div_le_lower_bound; [lia|].
  (* 2 s <= x + y, else x + y + 1 <= 2 s and a < x (y + 1) <= s^2 *)
  destruct (Z_le_gt_dec (2 * s) (x + y)) as [|Hgt]; [lia|exfalso].
  assert (a < x * (y + 1)) by nia.
  assert (4 * (x * (y + 1)) <= (x + y + 1) * (x + y + 1)).
  { assert (E : (x + y + 1) * (x + y + 1) - 4 * (x * (y + 1)) = (x - (y + 1)) * (x - (y + 1))) by ring.
    pose proof (Z.square_nonneg (x - (y + 1))). lia. }
  assert ((x + y + 1) * (x + y + 1) <= (2 * s) * (2 * s)) by (apply Z.mul_le_mono_nonneg; lia).
  nia.
Qed.

Lemma newton_decreases a x : 1 <= x -> 0 <= a -> a < x * x ->
  Z.quot (x + Z.quot a x) 2 < x.
Proof.
  intros Hx Ha Hax.
  rewrite (Z.quot_div_nonneg a x) by lia.
  assert (0 <= a / x) by (apply Z.div_pos; lia).
  rewrite (Z.quot_div_nonneg (x + a / x) 2) by lia.
  assert (a / x < x) by (apply Z.div_lt_upper_bound; lia).
  apply Z.div_lt_upper_bound; lia.
Qed.

Lemma newton_pos a x : 1 <= x -> 1 <= a -> 1 <= Z.quot (x + Z.quot a x) 2.
Proof.
  intros Hx Ha. apply (newton_ge_root a x 1); lia.
Qed.

(** ** monotonicity of the fuelled model in its fuels *)
Lemma num_mul_mono m m' a b r : (m <= m')%nat -> num_mul m a b = Some r -> num_mul m' a b = Some r.
Proof.
  intros Hm H. destruct a as [x|sa da], b as [y|sb db]; try exact H.
  unfold num_mul in *. destruct (bignum_mul m (sa, da) (sb, db)) as [z|] eqn:E; [|discriminate].
  rewrite (mul_fuel_le m' m _ _ z Hm E). exact H.
Qed.

Lemma num_mul_total a b : wf_num a -> wf_num b -> exists m r, num_mul m a b = Some r.
Proof.
  intros Ha Hb. destruct a as [x|sa da], b as [y|sb db]; cbn [wf_num] in *.
  - exists 0%nat. unfold num_mul. destruct (fits_fix (x * y)); [eexists; reflexivity|].
    destruct (fixnum_to_bignum x). eexists. reflexivity.
  - exists 0%nat. eexists. reflexivity.
  - exists 0%nat. eexists. reflexivity.
  - destruct (karatsuba_total (sa, da) (sb, db) Ha Hb) as (f & r & E & _). exists f. unfold num_mul. rewrite E. eexists. reflexivity.
Qed.

Lemma sqrt_loop_mono : forall fuel qf qf' mf mf' a res s r, (qf <= qf')%nat -> (mf <= mf')%nat ->
  sqrt_loop fuel qf mf a res = SV s r -> sqrt_loop fuel qf' mf' a res = SV s r.
Proof.
  induction fuel as [|f IH]; intros qf qf' mf mf' a res s r Hq Hm H; [discriminate|].
  cbn [sqrt_loop] in *.
  assert (Hadj : forall X X',
    X = nv (num_quotient qf mf a res) (fun tmp => nv (num_quotient qf mf (num_add res tmp) (Fix 2)) (fun res2 => sqrt_loop f qf mf a res2)) ->
    X' = nv (num_quotient qf' mf' a res) (fun tmp => nv (num_quotient qf' mf' (num_add res tmp) (Fix 2)) (fun res2 => sqrt_loop f qf' mf' a res2)) ->
    X = SV s r -> X' = SV s r).
  { intros X X' -> -> HX.
    destruct (num_quotient qf mf a res) as [tmp| |] eqn:E1; cbn [nv] in HX; try discriminate.
    rewrite (num_quotient_mono qf qf' mf mf' _ _ tmp Hq Hm E1). cbn [nv].
    destruct (num_quotient qf mf (num_add res tmp) (Fix 2)) as [res2| |] eqn:E2; cbn [nv] in HX; try discriminate.
    rewrite (num_quotient_mono qf qf' mf mf' _ _ res2 Hq Hm E2). cbn [nv].
    apply (IH qf qf' mf mf'); assumption. }
  destruct (num_mul mf res res) as [sq|] eqn:Em; cbn [ov] in H; [|discriminate].
  rewrite (num_mul_mono mf mf' _ _ sq Hm Em). cbn [ov].
  destruct (is_neg (num_sub a sq)); [eapply Hadj; [reflexivity|reflexivity|exact H]|].
  destruct (num_quotient qf mf (num_sub (num_sub a sq) (Fix 1)) (Fix 2)) as [tmp2| |] eqn:E3; cbn [nv] in H; try discriminate.
  rewrite (num_quotient_mono qf qf' mf mf' _ _ tmp2 Hq Hm E3). cbn [nv].
  destruct (num_compare tmp2 res <? 0); [exact H|].
  eapply Hadj; [reflexivity|reflexivity|exact H].
Qed.

Lemma sqrt_loop_fuel_S : forall fuel qf mf a res s r,
  sqrt_loop fuel qf mf a res = SV s r -> sqrt_loop (S fuel) qf mf a res = SV s r.
Proof.
  induction fuel as [|f IH]; intros qf mf a res s r H; [discriminate|].
  cbn [sqrt_loop] in H.
  change (sqrt_loop (S (S f)) qf mf a res) with
    (let adjust :=
        nv (num_quotient qf mf a res) (fun tmp =>
        let res1 := num_add res tmp in
        nv (num_quotient qf mf res1 (Fix 2)) (fun res2 => sqrt_loop (S f) qf mf a res2)) in
      ov (num_mul mf res res) (fun sq =>
      let rem := num_sub a sq in
      if is_neg rem then adjust
      else
        let tmp := num_sub rem (Fix 1) in
        nv (num_quotient qf mf tmp (Fix 2)) (fun tmp2 =>
        if num_compare tmp2 res <? 0 then SV (normalize res) (normalize rem) else adjust))).
  cbv zeta.
  assert (Hadj :
    nv (num_quotient qf mf a res) (fun tmp => nv (num_quotient qf mf (num_add res tmp) (Fix 2)) (fun res2 => sqrt_loop f qf mf a res2)) = SV s r ->
    nv (num_quotient qf mf a res) (fun tmp => nv (num_quotient qf mf (num_add res tmp) (Fix 2)) (fun res2 => sqrt_loop (S f) qf mf a res2)) = SV s r).
  { intros HX. destruct (num_quotient qf mf a res) as [tmp| |]; cbn [nv] in *; try discriminate.
    destruct (num_quotient qf mf (num_add res tmp) (Fix 2)) as [res2| |]; cbn [nv] in *; try discriminate.
    apply IH. exact HX. }
  destruct (num_mul mf res res) as [sq|]; cbn [ov] in *; [|discriminate].
  destruct (is_neg (num_sub a sq)); [apply Hadj; exact H|].
  destruct (num_quotient qf mf (num_sub (num_sub a sq) (Fix 1)) (Fix 2)) as [tmp2| |]; cbn [nv] in *; try discriminate.
  destruct (num_compare tmp2 res <? 0); [exact H|apply Hadj; exact H].
Qed.

(** ** the loop terminates from any positive estimate *)
Definition smeasure (A x : Z) : Z := if x <? Z.sqrt A then A + 2 else x - Z.sqrt A.

Lemma sqrt_loop_total : forall n a res,
  wf_num a -> is_fix a = false -> 1 <= nval a -> wf_num res -> seed_ok res -> 1 <= nval res ->
  smeasure (nval a) (nval res) < Z.of_nat n ->
  exists fuel qf mf s r, sqrt_loop fuel qf mf a res = SV s r.
Proof.
  induction n as [|n IH]; intros a res Ha Hab HA Hres Hseed Hr1 Hn.
  - exfalso. unfold smeasure in Hn. pose proof (Z.sqrt_nonneg (nval a)). destruct (nval res <? Z.sqrt (nval a)) eqn:E; lia.
  - set (A := nval a) in *. set (x := nval res) in *.
    pose proof (Z.sqrt_spec A ltac:(lia)) as [HS1 HS2]. pose proof (Z.sqrt_nonneg A) as HS0.
    set (S := Z.sqrt A) in *.
    (* the adjust continuation *)
    assert (Hadj : smeasure A (Z.quot (x + Z.quot A x) 2) < smeasure A x ->
      exists fuel qf mf s r, forall qf' mf', (qf <= qf')%nat -> (mf <= mf')%nat ->
        nv (num_quotient qf' mf' a res) (fun tmp => nv (num_quotient qf' mf' (num_add res tmp) (Fix 2))
           (fun res2 => sqrt_loop fuel qf' mf' a res2)) = SV s r).
    { intros Hdec.
      destruct (num_quotient_total a res Ha Hres ltac:(fold x; lia)) as (q1 & m1 & tmp & E1 & V1 & W1).
      destruct (num_add_spec res tmp Hres W1) as (Vs & Cs & Ws).
      destruct (num_quotient_total (num_add res tmp) (Fix 2) Ws eq_refl ltac:(cbn; lia)) as (q2 & m2 & res2 & E2 & V2 & W2).
      pose proof (num_quotient_canon q2 m2 (num_add res tmp) (Fix 2) res2 Ws eq_refl Cs E2) as C2.
      assert (V2' : nval res2 = Z.quot (x + Z.quot A x) 2) by (rewrite V2, Vs, V1; reflexivity).
      destruct (IH a res2 Ha Hab HA W2 (or_introl C2)) as (fuel & qf & mf & s & r & Hl).
      { rewrite V2'. apply newton_pos; lia. }
      { fold A. rewrite V2'. lia. }
      exists fuel, (Nat.max qf (Nat.max q1 q2)), (Nat.max mf (Nat.max m1 m2)), s, r.
      intros qf' mf' Hq Hm.
      rewrite (num_quotient_mono q1 qf' m1 mf' _ _ tmp ltac:(lia) ltac:(lia) E1). cbn [nv].
      rewrite (num_quotient_mono q2 qf' m2 mf' _ _ res2 ltac:(lia) ltac:(lia) E2). cbn [nv].
      apply (sqrt_loop_mono fuel qf qf' mf mf'); [lia|lia|exact Hl]. }
    destruct (num_mul_total res res Hres Hres) as (m0 & sq & Em).
    pose proof (num_mul_spec m0 res res sq Hres Hres Em) as (Vsq & Csq & Wsq).
    destruct (num_sub_spec a sq Ha Wsq) as (Vrem & Crem & Wrem); [rewrite Hab; discriminate|].
    set (rem := num_sub a sq) in *. fold A x in Vrem. rewrite Vsq in Vrem. fold x in Vrem.
    pose proof (is_neg_spec rem Wrem Crem) as Hneg.
    destruct (Z.ltb_spec (nval rem) 0) as [Hlt|Hge].
    + (* x^2 > A: above the root, Newton decreases *)
      destruct Hadj as (fuel & qf & mf & s & r & Hl).
      { pose proof (newton_decreases A x ltac:(lia) ltac:(lia) ltac:(lia)) as Hd.
        pose proof (newton_ge_root A x S ltac:(lia) ltac:(lia) HS0 HS1) as Hg.
        unfold smeasure. fold S. assert (S < x) by nia.
        destruct (Z.ltb_spec x S); [lia|]. destruct (Z.ltb_spec (Z.quot (x + Z.quot A x) 2) S); lia. }
      exists (Datatypes.S fuel), qf, (Nat.max mf m0), s, r. cbn [sqrt_loop].
      rewrite (num_mul_mono m0 (Nat.max mf m0) _ _ sq ltac:(lia) Em). cbn [ov]. fold rem. rewrite Hneg.
      destruct (Z.ltb_spec (nval rem) 0); [|lia]. apply Hl; lia.
    + destruct (num_sub_spec rem (Fix 1) Wrem eq_refl) as (Vt & Ct & Wt).
      { intros Hf _. destruct rem as [z|]; [|discriminate]. cbn [wf_num nval] in *.
        unfold fits_fix, FIXMIN, FIXMAX in *. lia. }
      destruct (num_quotient_total (num_sub rem (Fix 1)) (Fix 2) Wt eq_refl ltac:(cbn; lia)) as (q3 & m3 & tmp2 & E3 & V3 & W3).
      pose proof (num_quotient_canon q3 m3 (num_sub rem (Fix 1)) (Fix 2) tmp2 Wt eq_refl Ct E3) as C3.
      cbn [nval] in V3, Vt. rewrite Vt in V3.
      assert (Ht2 : 0 <= nval tmp2).
      { rewrite V3. destruct (Z.eq_dec (nval rem) 0) as [E|E]; [rewrite E; vm_compute; discriminate|apply Z.quot_pos; lia]. }
      assert (Hok : cmp_ok tmp2 res).
      { destruct Hseed as [Cr|[d ->]].
        - destruct tmp2, res; cbn [cmp_ok]; auto.
        - destruct tmp2 as [z|s2 d2]; cbn [cmp_ok nval] in *; [right; split; [reflexivity|exact Ht2]|].
          right. split; [|reflexivity].
          destruct (canon_big_large s2 d2 W3 C3) as [[-> _]|[-> Hl]]; [reflexivity|exfalso].
          pose proof W3 as (_ & Hd2 & _). cbn [snd] in Hd2. pose proof (val_nonneg d2 Hd2). unfold FIXMAX in *. lia. }
      pose proof (num_compare_spec tmp2 res W3 Hres Hok) as Hsgn. fold x in Hsgn.
      destruct (Z.ltb_spec (num_compare tmp2 res) 0) as [Hc|Hc].
      * (* exit *)
        exists 1%nat, q3, (Nat.max m0 m3), (normalize res), (normalize rem). cbn [sqrt_loop].
        rewrite (num_mul_mono m0 (Nat.max m0 m3) _ _ sq ltac:(lia) Em). cbn [ov]. fold rem. rewrite Hneg.
        destruct (Z.ltb_spec (nval rem) 0); [lia|].
        rewrite (num_quotient_mono q3 q3 m3 (Nat.max m0 m3) _ _ tmp2 ltac:(lia) ltac:(lia) E3). cbn [nv].
        destruct (Z.ltb_spec (num_compare tmp2 res) 0); [reflexivity|lia].
      * (* below the root: one step brings the estimate above it *)
        assert (Hx : x < S).
        { assert (x <= nval tmp2) by lia.
          pose proof (Z.quot_rem' (nval rem - 1) 2) as Hqr. pose proof (Z.rem_bound_abs (nval rem - 1) 2 ltac:(lia)) as Hrb.
          pose proof (Z.rem_sign_mul (nval rem - 1) 2 ltac:(lia)) as Hrs. rewrite <- V3 in Hqr.
          assert ((x + 1) * (x + 1) <= A) by nia. nia. }
        destruct Hadj as (fuel & qf & mf & s & r & Hl).
        { pose proof (newton_ge_root A x S ltac:(lia) ltac:(lia) HS0 HS1) as Hg.
          assert (Hup : Z.quot (x + Z.quot A x) 2 <= A).
          { rewrite (Z.quot_div_nonneg A x) by lia. assert (0 <= A / x) by (apply Z.div_pos; lia).
            rewrite (Z.quot_div_nonneg (x + A / x) 2) by lia.
            assert (A / x <= A) by (apply Z.div_le_upper_bound; nia).
            apply Z.div_le_upper_bound; nia. }
          unfold smeasure. fold S. destruct (Z.ltb_spec x S); [|lia].
          destruct (Z.ltb_spec (Z.quot (x + Z.quot A x) 2) S); lia. }
        exists (Datatypes.S fuel), (Nat.max qf q3), (Nat.max mf (Nat.max m0 m3)), s, r. cbn [sqrt_loop].
        rewrite (num_mul_mono m0 (Nat.max mf (Nat.max m0 m3)) res res sq ltac:(lia) Em). cbn [ov]. fold rem. rewrite Hneg.
        destruct (Z.ltb_spec (nval rem) 0); [lia|].
        rewrite (num_quotient_mono q3 (Nat.max qf q3) m3 (Nat.max mf (Nat.max m0 m3)) _ _ tmp2 ltac:(lia) ltac:(lia) E3). cbn [nv].
        destruct (Z.ltb_spec (num_compare tmp2 res) 0); [lia|]. apply Hl; lia.
Qed.

(** total correctness of the exact integer square root of a positive bignum, for any positive estimate *)
Theorem sqrt_total a res : wf_num a -> is_fix a = false -> 1 <= nval a ->
  wf_num res -> seed_ok res -> 1 <= nval res ->
  exists fuel qf mf s r, sqrt_loop fuel qf mf a res = SV s r
    /\ nval s * nval s <= nval a < (nval s + 1) * (nval s + 1) /\ nval r = nval a - nval s * nval s
    /\ canon s /\ canon r.
Proof.
  intros Ha Hab HA Hres Hseed Hr1.
  destruct (sqrt_loop_total (Datatypes.S (Z.to_nat (smeasure (nval a) (nval res)))) a res Ha Hab HA Hres Hseed Hr1)
    as (fuel & qf & mf & s & r & H).
  { unfold smeasure. pose proof (Z.sqrt_nonneg (nval a)). destruct (nval res <? Z.sqrt (nval a)) eqn:E; lia. }
  exists fuel, qf, mf, s, r. split; [exact H|]. apply (sqrt_loop_spec fuel qf mf a res s r); assumption.
Qed.
