(** C04 model, sixth part: rounding of exact rationals, sexp_ratio_trunc / _floor / _ceiling / _round
    (bignum.c:910-949) on a ratio n/d (d > 1, lowest terms).  NO proofs here. *)
From ChibiV Require Export Common.Words C04.Model C04.Model2 C04.Model3 C04.Model4 C04.Model5.
Local Open Scope Z_scope.

Definition is_pos (x : num) : bool := match x with Fix z => 0 <? z | Big s _ => 0 <? s end.  (* sexp_exact_positivep *)
Definition is_odd (x : num) : bool := match x with Fix z => Z.odd z | Big _ d => Z.odd (wd d 0) end.  (* sexp_oddp *)
Definition is_two (x : num) : bool := match x with Fix 2 => true | _ => false end.   (* == SEXP_TWO *)

Definition ratio_trunc (qf mf : nat) (n d : num) : nres := num_quotient qf mf n d.

Definition ratio_floor (qf mf : nat) (n d : num) : nres :=
  match num_quotient qf mf n d with
  | NV q => NV (if is_neg n then num_add q (Fix (-1)) else q)
  | e => e
  end.

Definition ratio_ceiling (qf mf : nat) (n d : num) : nres :=
  match num_quotient qf mf n d with
  | NV q => NV (if is_pos n then num_add q (Fix 1) else q)
  | e => e
  end.

(** sexp_ratio_round with the F-C04-6 repair: |2r| is computed as r * (+-2) instead of negating 2r
    in place with the wrapping sexp_fx_neg *)
Definition ratio_round (qf mf : nat) (n d : num) : nres :=
  match num_quotient qf mf n d with
  | NV q =>
      if is_two d && is_odd q then NV (num_add q (if is_pos q then Fix 1 else Fix (-1)))
      else match num_remainder qf mf n d with
           | NV r =>
               match num_mul mf r (if is_neg r then Fix (-2) else Fix 2) with
               | Some r2 =>
                   if 0 <? num_compare r2 d
                   then NV (num_add q (if is_neg n then Fix (-1) else Fix 1))
                   else NV q
               | None => NFuel
               end
           | e => e
           end
  | e => e
  end.

(** sexp_sub on two ratios (bignum.c:1449-1458, with the F-C04-5 repair: the numerator of the
    subtrahend is negated by a multiplication, not by the wrapping sexp_fx_neg) *)
Definition ratio_sub (fuel qf mf : nat) (na da nb db : num) : rres :=
  omul mf nb (Fix (-1)) (fun nb' => ratio_add fuel qf mf na da nb' db).

(** VM fast path SEXP_OP_MUL (vm.c:1821-1835): the product of two unboxed fixnums is a 128-bit signed
    value (exact); outside the fixnum range the operation is redone by sexp_mul on a bignum *)
Definition vm_mul (mf : nat) (a b : num) : option num :=
  match a, b with
  | Fix x, Fix y =>
      let prod := x * y in
      if fits_fix prod then Some (Fix prod) else num_mul mf (big_num (fixnum_to_bignum x)) b
  | _, _ => num_mul mf a b
  end.
