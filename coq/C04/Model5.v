(** C04 model, fifth part: exact rationals.  sexp_ratio_normalize (sexp.c:2900-2932, the version
    with the F-C04-1/2 repair: no in-place negation) and sexp_ratio_add/mul/div/compare
    (bignum.c:865-908) on top of the generic operations.  A ratio is a pair (numerator, denominator)
    of numbers.  NO proofs here. *)
From ChibiV Require Export Common.Words C04.Model C04.Model2 C04.Model3 C04.Model4.
Local Open Scope Z_scope.

Inductive rres := RInt (v : num) | RRat (n d : num) | RErr | RFuel.

Definition is_zero (x : num) : bool := match x with Fix 0 => true | _ => false end.   (* == SEXP_ZERO *)

(** Euclid's loop: while (den != SEXP_ZERO) { tmp = sexp_remainder(num, den); num = den; den = tmp; } *)
Fixpoint gcd_loop (fuel qf mf : nat) (x y : num) {struct fuel} : option (option num) :=
  if is_zero y then Some (Some x)
  else match fuel with
       | O => None
       | S f => match num_remainder qf mf x y with
                | NV tmp => gcd_loop f qf mf y tmp
                | NDivZero => Some None
                | NFuel => None
                end
       end.

Definition ratio_normalize (fuel qf mf : nat) (n d : num) : rres :=
  if is_zero d then RErr
  else if is_zero n then RInt (Fix 0)
  else match gcd_loop fuel qf mf n d with
       | None => RFuel
       | Some None => RErr
       | Some (Some g) =>
           match num_quotient qf mf d g, num_quotient qf mf n g with
           | NV d1, NV n1 =>
               let neg := is_neg d1 in
               match (if neg then num_mul mf n1 (Fix (-1)) else Some n1),
                     (if neg then num_mul mf d1 (Fix (-1)) else Some d1) with
               | Some n2, Some d2 =>
                   let n3 := normalize n2 in let d3 := normalize d2 in
                   if is_one d3 then RInt n3 else RRat n3 d3
               | _, _ => RFuel
               end
           | NFuel, _ | _, NFuel => RFuel
           | _, _ => RErr
           end
       end.

Definition omul (mf : nat) (a b : num) (k : num -> rres) : rres :=
  match num_mul mf a b with Some v => k v | None => RFuel end.

(** sexp_ratio_add / _mul / _div on (na/da) and (nb/db) *)
Definition ratio_add (fuel qf mf : nat) (na da nb db : num) : rres :=
  omul mf na db (fun t1 => omul mf nb da (fun t2 =>
  let nn := num_add t1 t2 in
  omul mf da db (fun dd => ratio_normalize fuel qf mf nn dd))).

Definition ratio_mul (fuel qf mf : nat) (na da nb db : num) : rres :=
  omul mf na nb (fun nn => omul mf da db (fun dd => ratio_normalize fuel qf mf nn dd)).

Definition ratio_div (fuel qf mf : nat) (na da nb db : num) : rres :=
  omul mf na db (fun nn => omul mf da nb (fun dd => ratio_normalize fuel qf mf nn dd)).

(** sexp_ratio_compare: sign of na*db - nb*da (denominators positive) *)
Definition ratio_compare (mf : nat) (na da nb db : num) : option Z :=
  match num_mul mf na db, num_mul mf nb da with
  | Some a2, Some b2 => Some (num_compare a2 b2)
  | _, _ => None
  end.
