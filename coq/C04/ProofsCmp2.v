(** C04 proofs, round 3, second part: the FLO_FLO entry of sexp_compare (two doubles) is the order of the
    rationals they denote. *)
From ChibiV Require Import C04.Model10 C04.ProofsCmp C04.Spec C04.SpecFloat C04.SpecCmp.
From Coq Require Import Lia.
Local Open Scope Z_scope.

(** the fraction of a dyadic, scaled to an integer: n * 2^K = m * 2^(e+K) * d *)
Lemma dy_val_scale m e K : 0 <= K -> 0 <= e + K ->
  fst (dy_val m e) * 2 ^ K = m * 2 ^ (e + K) * snd (dy_val m e).
Proof.
  intros HK HeK. unfold dy_val. destruct (Z.leb_spec 0 e) as [He|He]; cbn [fst snd].
  - rewrite Z.pow_add_r by lia. ring.
  - replace (2 ^ K) with (2 ^ (e + K) * 2 ^ (- e)); [ring|].
    rewrite <- Z.pow_add_r by lia. f_equal. lia.
Qed.

Lemma dy_cmp_spec m e m' e' :
  dy_cmp m e m' e' =
  Z.sgn (fst (dy_val m e) * snd (dy_val m' e') - fst (dy_val m' e') * snd (dy_val m e)).
Proof.
  unfold dy_cmp. set (k := Z.min e e').
  set (K := Z.max 0 (- k)).
  assert (HK : 0 <= K) by lia. assert (HkK : 0 <= k + K) by lia.
  assert (He : 0 <= e + K) by lia. assert (He' : 0 <= e' + K) by lia.
  pose proof (dy_val_den_pos m e) as Hd. pose proof (dy_val_den_pos m' e') as Hd'.
  pose proof (dy_val_scale m e K HK He) as S1. pose proof (dy_val_scale m' e' K HK He') as S2.
  set (n := fst (dy_val m e)) in *. set (d := snd (dy_val m e)) in *.
  set (n' := fst (dy_val m' e')) in *. set (d' := snd (dy_val m' e')) in *.
  assert (P1 : 0 < 2 ^ K) by (apply Z.pow_pos_nonneg; lia).
  assert (P2 : 0 < 2 ^ (k + K)) by (apply Z.pow_pos_nonneg; lia).
  assert (P3 : 0 < d * d') by (apply Z.mul_pos_pos; assumption).
  set (A := m * 2 ^ (e - k) - m' * 2 ^ (e' - k)).
  assert (E1 : (n * d' - n' * d) * 2 ^ K = A * 2 ^ (k + K) * (d * d')).
  { replace ((n * d' - n' * d) * 2 ^ K) with (n * 2 ^ K * d' - n' * 2 ^ K * d) by ring.
    rewrite S1, S2. unfold A.
    replace (e + K) with ((e - k) + (k + K)) by ring. replace (e' + K) with ((e' - k) + (k + K)) by ring.
    assert (0 <= e - k) by lia. assert (0 <= e' - k) by lia.
    rewrite (Z.pow_add_r 2 (e - k) (k + K)), (Z.pow_add_r 2 (e' - k) (k + K)) by assumption. ring. }
  rewrite <- (sgn_pos_mul (n * d' - n' * d) (2 ^ K) P1), E1.
  rewrite (sgn_pos_mul _ (d * d') P3), (sgn_pos_mul _ (2 ^ (k + K)) P2). reflexivity.
Qed.

(** FLO_FLO: for ANY two flonums (finite doubles need no range hypothesis here) *)
Theorem flo_flo_spec fuel rf qf mf f g :
  match cmp_le fuel rf qf mf (CFlo f) (CFlo g) with
  | CV c => ext_cmp (fval f) (fval g) = Some (Z.sgn c)
  | CNan => ext_cmp (fval f) (fval g) = None
  | CFuel => False
  end.
Proof.
  destruct f as [m e|s|], g as [m' e'|t|]; cbn [cmp_le flo_cmp fval ext_cmp]; try reflexivity.
  - f_equal. rewrite dy_cmp_spec. symmetry. apply Z.sgn_sgn.
  - destruct t; reflexivity.
  - destruct s; reflexivity.
  - destruct s, t; reflexivity.
Qed.

(** every entry of the switch of sexp_compare, operands in type order: the complete statement *)
Theorem cmp_le_spec_all fuel rf qf mf a b : cwf a -> cwf b -> ctype a <= ctype b -> (1100 <= fuel)%nat ->
  match cmp_le fuel rf qf mf a b with
  | CV c => ext_cmp (cval a) (cval b) = Some (Z.sgn c)
  | CNan => ext_cmp (cval a) (cval b) = None
  | CFuel => True
  end.
Proof.
  intros Wa Wb Hty Hfu.
  destruct (match a, b with CFlo _, CFlo _ => true | _, _ => false end) eqn:E.
  - destruct a as [?|f|? ?|? ?], b as [?|g|? ?|? ?]; try discriminate. cbn [cval].
    pose proof (flo_flo_spec fuel rf qf mf f g) as S.
    destruct (cmp_le fuel rf qf mf (CFlo f) (CFlo g)); [exact S|exact S|exact I].
  - apply cmp_le_spec; try assumption. destruct a, b; try exact I. discriminate.
Qed.

Example flo_flo_neighbours : dy_cmp 6004799503160661 (-54) 6004799503160662 (-54) = -1 /\ dy_cmp 1 (-1074) 0 (-1074) = 1
  /\ dy_cmp 4503599627370496 971 9007199254740991 970 = 1.
Proof. vm_compute. auto. Qed.
