(** quot_rem terminates: every round of the estimate-and-correct loop strictly decreases |a1|,
    because the quotient-digit guess x satisfies 0 < b1 * x < 2 * |a1| in each of its four variants
    (two-word / two-and-a-half-word estimate, first try / retry one position lower). *)
From ChibiV Require Import Common.Words C04.Model C04.Model2 C04.Proofs C04.ProofsFx C04.ProofsMul
  C04.ProofsDiv C04.ProofsMulTerm.
From Coq Require Import ZifyBool.
Local Open Scope Z_scope.

(** ** word lists *)
Lemma val_firstn_S : forall a m, val (firstn (S m) a) = val (firstn m a) + B ^ Z.of_nat m * nth m a 0.
Proof.
  induction a as [|x a IH]; intros m.
  - destruct m; cbn [firstn val nth]; ring.
  - destruct m as [|m].
    + cbn [firstn val nth Z.of_nat]. rewrite Z.pow_0_r. ring.
    + change (firstn (S (S m)) (x :: a)) with (x :: firstn (S m) a).
      change (firstn (S m) (x :: a)) with (x :: firstn m a). cbn [val nth].
      rewrite IH, Nat2Z.inj_succ, Z.pow_succ_r by lia. ring.
Qed.

Lemma val_firstn_bound a m : words a -> 0 <= val (firstn m a) < B ^ Z.of_nat m.
Proof.
  intros Ha. pose proof (words_firstn m a Ha) as Hw. split; [apply val_nonneg; exact Hw|].
  eapply Z.lt_le_trans; [apply val_bound; exact Hw|]. apply Z.pow_le_mono_r; [reflexivity|].
  rewrite firstn_length. lia.
Qed.

Lemma isword_wd a i : words a -> isword (wd a i).
Proof.
  intros Ha. unfold wd. destruct (Nat.lt_ge_cases i (length a)) as [Hl|Hl].
  - rewrite Forall_forall in Ha. apply Ha. apply nth_In. exact Hl.
  - rewrite nth_overflow by exact Hl. apply isword_0.
Qed.

(** top two words *)
Lemma top2 a n : words a -> hi a = n -> (2 <= n)%nat ->
  exists lo, val a = lo + B ^ Z.of_nat (n - 2) * (wd a (n - 1) * B + wd a (n - 2))
             /\ 0 <= lo < B ^ Z.of_nat (n - 2).
Proof.
  intros Ha Hh Hn. exists (val (firstn (n - 2) a)). split; [|apply val_firstn_bound; exact Ha].
  rewrite <- (firstn_strip_val a Ha), Hh.
  replace n with (S (S (n - 2))) at 1 by lia.
  rewrite !val_firstn_S. unfold wd. replace (n - 1)%nat with (S (n - 2)) by lia.
  rewrite Nat2Z.inj_succ, Z.pow_succ_r by lia. ring.
Qed.

Lemma HALF_sq : HALF * HALF = B.
Proof. reflexivity. Qed.

(** top two and a half words *)
Lemma top3 a n : words a -> hi a = n -> (3 <= n)%nat ->
  exists lo, val a = lo + (B ^ Z.of_nat (n - 3) * HALF) * ((wd a (n - 1) * B + wd a (n - 2)) * HALF + wd a (n - 3) / HALF)
             /\ 0 <= lo < B ^ Z.of_nat (n - 3) * HALF.
Proof.
  intros Ha Hh Hn.
  exists (val (firstn (n - 3) a) + B ^ Z.of_nat (n - 3) * (wd a (n - 3) mod HALF)).
  pose proof (val_firstn_bound a (n - 3) Ha) as Hb.
  pose proof (isword_wd a (n - 3) Ha) as Hw3. unfold isword in Hw3.
  assert (HH : 0 < HALF) by reflexivity.
  pose proof (Z.div_mod (wd a (n - 3)) HALF ltac:(lia)) as Hdm.
  pose proof (Z.mod_pos_bound (wd a (n - 3)) HALF HH) as Hmb.
  assert (Hp : 0 < B ^ Z.of_nat (n - 3)) by (apply Z.pow_pos_nonneg; [reflexivity|lia]).
  split; [|nia].
  rewrite <- (firstn_strip_val a Ha), Hh.
  replace n with (S (S (S (n - 3)))) at 1 by lia.
  rewrite !val_firstn_S. unfold wd in *.
  replace (n - 1)%nat with (S (S (n - 3))) by lia. replace (n - 2)%nat with (S (n - 3)) by lia.
  rewrite !Nat2Z.inj_succ, !Z.pow_succ_r by lia.
  set (P := B ^ Z.of_nat (n - 3)) in *. set (w3 := nth (n - 3) a 0) in *.
  rewrite <- HALF_sq. nia.
Qed.

(** setnth *)
Lemma setnth_cons_S x l i v : setnth (x :: l) (S i) v = x :: setnth l i v.
Proof. reflexivity. Qed.

Lemma val_setnth : forall l i v, (i < length l)%nat ->
  val (setnth l i v) = val l + (v - nth i l 0) * B ^ Z.of_nat i.
Proof.
  induction l as [|x l IH]; intros i v Hi; [cbn in Hi; lia|].
  destruct i as [|i].
  - unfold setnth. cbn [firstn skipn app val nth Z.of_nat]. rewrite Z.pow_0_r. ring.
  - rewrite setnth_cons_S. cbn [val nth]. rewrite IH by (cbn [length] in Hi; lia).
    rewrite Nat2Z.inj_succ, Z.pow_succ_r by lia. ring.
Qed.

Lemma nth_setnth_other : forall l i j v, i <> j -> nth j (setnth l i v) 0 = nth j l 0.
Proof.
  induction l as [|x l IH]; intros i j v Hij.
  - unfold setnth. destruct i; cbn; destruct j; reflexivity.
  - destruct i as [|i].
    + unfold setnth. cbn [firstn skipn app]. destruct j; [congruence|reflexivity].
    + rewrite setnth_cons_S. destruct j; [reflexivity|]. cbn [nth]. apply IH. congruence.
Qed.

Lemma nth_repeat0 n j : nth j (repeat 0 n) 0 = 0.
Proof. revert j. induction n; intros j; destruct j; cbn; auto. Qed.

(** value of the guess x *)
Lemma guess_val alen0 off d : (1 <= off < alen0)%nat -> 0 <= d < B * B ->
  let x0 := setnth (repeat 0 alen0) off ((d / B) mod B) in
  let x := setnth x0 (off - 1) (d mod B) in
  val x = d * B ^ Z.of_nat (off - 1).
Proof.
  intros Hoff Hd. cbv zeta.
  rewrite val_setnth by (rewrite setnth_length, repeat_length; lia).
  rewrite nth_setnth_other by lia. rewrite nth_repeat0.
  rewrite val_setnth by (rewrite repeat_length; lia).
  rewrite nth_repeat0, val_repeat0.
  pose proof B_pos. assert (0 <= d / B < B) by (split; [apply Z.div_pos; lia|apply Z.div_lt_upper_bound; lia]).
  rewrite (Z.mod_small (d / B) B) by assumption.
  replace (Z.of_nat off) with (Z.succ (Z.of_nat (off - 1))) by lia. rewrite Z.pow_succ_r by lia.
  pose proof (Z.div_mod d B ltac:(lia)). nia.
Qed.

(** ** the arithmetic core: a truncated quotient of truncated operands is within a factor 2 *)
Lemma estimate_good A b dn dd ra rb Sa Sb X :
  A = dn * Sa + ra -> 0 <= ra < Sa -> b = dd * Sb + rb -> 0 <= rb < Sb ->
  1 <= dd -> 1 <= dn / dd -> Sa = Sb * X -> 0 < X ->
  0 < b * (dn / dd * X) < 2 * A.
Proof.
  intros HA Hra Hb Hrb Hdd Hd HS HX.
  pose proof (Z.div_mod dn dd ltac:(lia)) as Hdm. pose proof (Z.mod_pos_bound dn dd ltac:(lia)) as Hmb.
  set (d := dn / dd) in *.
  assert (Hb1 : b < (dd + 1) * Sb) by nia.
  assert (Hb0 : 0 < b) by nia.
  split; [nia|].
  assert (H1 : b * (d * X) < (dd + 1) * Sb * (d * X)) by (apply Z.mul_lt_mono_pos_r; nia).
  assert (H2 : (dd + 1) * Sb * (d * X) = (dd + 1) * d * Sa) by (rewrite HS; ring).
  assert (H3 : (dd + 1) * d <= 2 * dn) by nia.
  nia.
Qed.

(** ** more decompositions *)
Lemma top_word_pos a : words a -> (2 <= hi a)%nat -> 1 <= wd a (hi a - 1).
Proof.
  intros Ha Hh. destruct (top2 a (hi a) Ha eq_refl Hh) as (lo & Hv & Hlo).
  pose proof (val_ge_pow_hi a Ha Hh) as Hge.
  pose proof (isword_wd a (hi a - 1) Ha) as H1. pose proof (isword_wd a (hi a - 2) Ha) as H2. unfold isword in *.
  replace (Z.of_nat (hi a - 1)) with (Z.succ (Z.of_nat (hi a - 2))) in Hge by lia.
  rewrite Z.pow_succ_r in Hge by lia.
  assert (0 < B ^ Z.of_nat (hi a - 2)) by (apply Z.pow_pos_nonneg; [reflexivity|lia]).
  pose proof B_pos. nia.
Qed.

(** top word alone *)
Lemma top1 a n : words a -> hi a = n -> (2 <= n)%nat ->
  exists lo, val a = lo + B ^ Z.of_nat (n - 1) * wd a (n - 1) /\ 0 <= lo < B ^ Z.of_nat (n - 1).
Proof.
  intros Ha Hh Hn. destruct (top2 a n Ha Hh Hn) as (lo & Hv & Hlo).
  pose proof (isword_wd a (n - 2) Ha) as H2. unfold isword in H2.
  exists (lo + B ^ Z.of_nat (n - 2) * wd a (n - 2)).
  replace (Z.of_nat (n - 1)) with (Z.succ (Z.of_nat (n - 2))) by lia. rewrite Z.pow_succ_r by lia.
  assert (0 < B ^ Z.of_nat (n - 2)) by (apply Z.pow_pos_nonneg; [reflexivity|lia]).
  split; [rewrite Hv; ring|nia].
Qed.

(** top word and a half *)
Lemma top2h a n : words a -> hi a = n -> (2 <= n)%nat ->
  exists lo, val a = lo + (B ^ Z.of_nat (n - 2) * HALF) * (wd a (n - 1) * HALF + wd a (n - 2) / HALF)
             /\ 0 <= lo < B ^ Z.of_nat (n - 2) * HALF.
Proof.
  intros Ha Hh Hn. destruct (top2 a n Ha Hh Hn) as (lo & Hv & Hlo).
  pose proof (isword_wd a (n - 2) Ha) as H2. unfold isword in H2.
  assert (HH : 0 < HALF) by reflexivity.
  pose proof (Z.div_mod (wd a (n - 2)) HALF ltac:(lia)) as Hdm.
  pose proof (Z.mod_pos_bound (wd a (n - 2)) HALF HH) as Hmb.
  assert (Hp : 0 < B ^ Z.of_nat (n - 2)) by (apply Z.pow_pos_nonneg; [reflexivity|lia]).
  exists (lo + B ^ Z.of_nat (n - 2) * (wd a (n - 2) mod HALF)).
  split; [|nia]. rewrite Hv. set (P := B ^ Z.of_nat (n - 2)) in *. rewrite <- HALF_sq. nia.
Qed.

Lemma hi_le_of_val a b : words a -> words b -> val b <= val a -> (hi b <= hi a)%nat.
Proof.
  intros Ha Hb Hle. destruct (Nat.le_gt_cases (hi b) (hi a)) as [|Hgt]; [assumption|exfalso].
  pose proof (val_lt_pow_hi a Ha). pose proof (hi_ge1 a).
  pose proof (val_ge_pow_hi b Hb ltac:(lia)).
  assert (B ^ Z.of_nat (hi a) <= B ^ Z.of_nat (hi b - 1)) by (apply Z.pow_le_mono_r; [reflexivity|lia]).
  lia.
Qed.

Lemma lu_small x : 0 <= x < B2 -> lu x = x.
Proof. apply lu_id. Qed.

Lemma B2_eq : B2 = B * B.
Proof. reflexivity. Qed.

Lemma pow_split (n m : nat) : (m <= n)%nat -> B ^ Z.of_nat n = B ^ Z.of_nat m * B ^ Z.of_nat (n - m).
Proof. intros H. rewrite <- Z.pow_add_r by lia. f_equal. lia. Qed.
