(** quot_rem terminates: every round of the estimate-and-correct loop strictly decreases |a1|,
    because the quotient-digit guess x satisfies 0 < b1 * x < 2 * |a1| in each of its four variants
    (two-word / two-and-a-half-word estimate, first try / retry one position lower). *)
From ChibiV Require Import Common.Words C04.Model C04.Model2 C04.Proofs C04.ProofsFx C04.ProofsMul
  C04.ProofsDiv C04.ProofsMulTerm.
From Coq Require Import ZifyBool.
Local Open Scope Z_scope.

(** ** word lists *)
Lemma val_firstn_S : forall a m, val (firstn (S m) a) = val (firstn m a) + B ^ Z.of_nat m * nth m a 0.
Proof.
  induction a as [|x a IH]; intros m.
  - destruct m; cbn [firstn val nth]; ring.
  - destruct m as [|m].
    + cbn [firstn val nth Z.of_nat]. rewrite Z.pow_0_r. ring.
    + change (firstn (S (S m)) (x :: a)) with (x :: firstn (S m) a).
      change (firstn (S m) (x :: a)) with (x :: firstn m a). cbn [val nth].
      rewrite IH, Nat2Z.inj_succ, Z.pow_succ_r by lia. ring.
Qed.

Lemma val_firstn_bound a m : words a -> 0 <= val (firstn m a) < B ^ Z.of_nat m.
Proof.
  intros Ha. pose proof (words_firstn m a Ha) as Hw. split; [apply val_nonneg; exact Hw|].
  eapply Z.lt_le_trans; [apply val_bound; exact Hw|]. apply Z.pow_le_mono_r; [reflexivity|].
  rewrite firstn_length. lia.
Qed.

Lemma isword_wd a i : words a -> isword (wd a i).
Proof.
  intros Ha. unfold wd. destruct (Nat.lt_ge_cases i (length a)) as [Hl|Hl].
  - rewrite Forall_forall in Ha. apply Ha. apply nth_In. exact Hl.
  - rewrite nth_overflow by exact Hl. apply isword_0.
Qed.

(** top two words *)
Lemma top2 a n : words a -> hi a = n -> (2 <= n)%nat ->
  exists lo, val a = lo + B ^ Z.of_nat (n - 2) * (wd a (n - 1) * B + wd a (n - 2))
             /\ 0 <= lo < B ^ Z.of_nat (n - 2).
Proof.
  intros Ha Hh Hn. exists (val (firstn (n - 2) a)). split; [|apply val_firstn_bound; exact Ha].
  rewrite <- (firstn_strip_val a Ha), Hh.
  replace n with (S (S (n - 2))) at 1 by lia.
  rewrite !val_firstn_S. unfold wd. replace (n - 1)%nat with (S (n - 2)) by lia.
  rewrite Nat2Z.inj_succ, Z.pow_succ_r by lia. ring.
Qed.

Lemma HALF_sq : HALF * HALF = B.
Proof. reflexivity. Qed.

(** top two and a half words *)
Lemma top3 a n : words a -> hi a = n -> (3 <= n)%nat ->
  exists lo, val a = lo + (B ^ Z.of_nat (n - 3) * HALF) * ((wd a (n - 1) * B + wd a (n - 2)) * HALF + wd a (n - 3) / HALF)
             /\ 0 <= lo < B ^ Z.of_nat (n - 3) * HALF.
Proof.
  intros Ha Hh Hn.
  exists (val (firstn (n - 3) a) + B ^ Z.of_nat (n - 3) * (wd a (n - 3) mod HALF)).
  pose proof (val_firstn_bound a (n - 3) Ha) as Hb.
  pose proof (isword_wd a (n - 3) Ha) as Hw3. unfold isword in Hw3.
  assert (HH : 0 < HALF) by reflexivity.
  pose proof (Z.div_mod (wd a (n - 3)) HALF ltac:(lia)) as Hdm.
  pose proof (Z.mod_pos_bound (wd a (n - 3)) HALF HH) as Hmb.
  assert (Hp : 0 < B ^ Z.of_nat (n - 3)) by (apply Z.pow_pos_nonneg; [reflexivity|lia]).
  split; [|nia].
  rewrite <- (firstn_strip_val a Ha), Hh.
  replace n with (S (S (S (n - 3)))) at 1 by lia.
  rewrite !val_firstn_S. unfold wd in *.
  replace (n - 1)%nat with (S (S (n - 3))) by lia. replace (n - 2)%nat with (S (n - 3)) by lia.
  rewrite !Nat2Z.inj_succ, !Z.pow_succ_r by lia.
  set (P := B ^ Z.of_nat (n - 3)) in *. set (w3 := nth (n - 3) a 0) in *.
  rewrite <- HALF_sq. nia.
Qed.

(** setnth *)
Lemma setnth_cons_S x l i v : setnth (x :: l) (S i) v = x :: setnth l i v.
Proof. reflexivity. Qed.

Lemma val_setnth : forall l i v, (i < length l)%nat ->
  val (setnth l i v) = val l + (v - nth i l 0) * B ^ Z.of_nat i.
Proof.
  induction l as [|x l IH]; intros i v Hi; [cbn in Hi; lia|].
  destruct i as [|i].
  - unfold setnth. cbn [firstn skipn app val nth Z.of_nat]. rewrite Z.pow_0_r. ring.
  - rewrite setnth_cons_S. cbn [val nth]. rewrite IH by (cbn [length] in Hi; lia).
    rewrite Nat2Z.inj_succ, Z.pow_succ_r by lia. ring.
Qed.

Lemma nth_setnth_other : forall l i j v, i <> j -> nth j (setnth l i v) 0 = nth j l 0.
Proof.
  induction l as [|x l IH]; intros i j v Hij.
  - unfold setnth. destruct i; cbn; destruct j; reflexivity.
  - destruct i as [|i].
    + unfold setnth. cbn [firstn skipn app]. destruct j; [congruence|reflexivity].
    + rewrite setnth_cons_S. destruct j; [reflexivity|]. cbn [nth]. apply IH. congruence.
Qed.

Lemma nth_repeat0 n j : nth j (repeat 0 n) 0 = 0.
Proof. revert j. induction n; intros j; destruct j; cbn; auto. Qed.

(** value of the guess x *)
Lemma guess_val alen0 off d : (1 <= off < alen0)%nat -> 0 <= d < B * B ->
  let x0 := setnth (repeat 0 alen0) off ((d / B) mod B) in
  let x := setnth x0 (off - 1) (d mod B) in
  val x = d * B ^ Z.of_nat (off - 1).
Proof.
  intros Hoff Hd. cbv zeta.
  rewrite val_setnth by (rewrite setnth_length, repeat_length; lia).
  rewrite nth_setnth_other by lia. rewrite nth_repeat0.
  rewrite val_setnth by (rewrite repeat_length; lia).
  rewrite nth_repeat0, val_repeat0.
  pose proof B_pos. assert (0 <= d / B < B) by (split; [apply Z.div_pos; lia|apply Z.div_lt_upper_bound; lia]).
  rewrite (Z.mod_small (d / B) B) by assumption.
  replace (Z.of_nat off) with (Z.succ (Z.of_nat (off - 1))) by lia. rewrite Z.pow_succ_r by lia.
  pose proof (Z.div_mod d B ltac:(lia)). nia.
Qed.

(** ** the arithmetic core: a truncated quotient of truncated operands is within a factor 2 *)
Lemma estimate_good A b dn dd ra rb Sa Sb X :
  A = dn * Sa + ra -> 0 <= ra < Sa -> b = dd * Sb + rb -> 0 <= rb < Sb ->
  1 <= dd -> 1 <= dn / dd -> Sa = Sb * X -> 0 < X ->
  0 < b * (dn / dd * X) < 2 * A.
Proof.
  intros HA Hra Hb Hrb Hdd Hd HS HX.
  pose proof (Z.div_mod dn dd ltac:(lia)) as Hdm. pose proof (Z.mod_pos_bound dn dd ltac:(lia)) as Hmb.
  set (d := dn / dd) in *.
  assert (Hb1 : b < (dd + 1) * Sb) by nia.
  assert (Hb0 : 0 < b) by nia.
  split; [nia|].
  assert (H1 : b * (d * X) < (dd + 1) * Sb * (d * X)) by (apply Z.mul_lt_mono_pos_r; nia).
  assert (H2 : (dd + 1) * Sb * (d * X) = (dd + 1) * d * Sa) by (rewrite HS; ring).
  assert (H3 : (dd + 1) * d <= 2 * dn) by nia.
  nia.
Qed.

(** ** more decompositions *)
Lemma top_word_pos a : words a -> (2 <= hi a)%nat -> 1 <= wd a (hi a - 1).
Proof.
  intros Ha Hh. destruct (top2 a (hi a) Ha eq_refl Hh) as (lo & Hv & Hlo).
  pose proof (val_ge_pow_hi a Ha Hh) as Hge.
  pose proof (isword_wd a (hi a - 1) Ha) as H1. pose proof (isword_wd a (hi a - 2) Ha) as H2. unfold isword in *.
  replace (Z.of_nat (hi a - 1)) with (Z.succ (Z.of_nat (hi a - 2))) in Hge by lia.
  rewrite Z.pow_succ_r in Hge by lia.
  assert (0 < B ^ Z.of_nat (hi a - 2)) by (apply Z.pow_pos_nonneg; [reflexivity|lia]).
  pose proof B_pos. nia.
Qed.

(** top word alone *)
Lemma top1 a n : words a -> hi a = n -> (2 <= n)%nat ->
  exists lo, val a = lo + B ^ Z.of_nat (n - 1) * wd a (n - 1) /\ 0 <= lo < B ^ Z.of_nat (n - 1).
Proof.
  intros Ha Hh Hn. destruct (top2 a n Ha Hh Hn) as (lo & Hv & Hlo).
  pose proof (isword_wd a (n - 2) Ha) as H2. unfold isword in H2.
  exists (lo + B ^ Z.of_nat (n - 2) * wd a (n - 2)).
  replace (Z.of_nat (n - 1)) with (Z.succ (Z.of_nat (n - 2))) by lia. rewrite Z.pow_succ_r by lia.
  assert (0 < B ^ Z.of_nat (n - 2)) by (apply Z.pow_pos_nonneg; [reflexivity|lia]).
  split; [rewrite Hv; ring|nia].
Qed.

(** top word and a half *)
Lemma top2h a n : words a -> hi a = n -> (2 <= n)%nat ->
  exists lo, val a = lo + (B ^ Z.of_nat (n - 2) * HALF) * (wd a (n - 1) * HALF + wd a (n - 2) / HALF)
             /\ 0 <= lo < B ^ Z.of_nat (n - 2) * HALF.
Proof.
  intros Ha Hh Hn. destruct (top2 a n Ha Hh Hn) as (lo & Hv & Hlo).
  pose proof (isword_wd a (n - 2) Ha) as H2. unfold isword in H2.
  assert (HH : 0 < HALF) by reflexivity.
  pose proof (Z.div_mod (wd a (n - 2)) HALF ltac:(lia)) as Hdm.
  pose proof (Z.mod_pos_bound (wd a (n - 2)) HALF HH) as Hmb.
  assert (Hp : 0 < B ^ Z.of_nat (n - 2)) by (apply Z.pow_pos_nonneg; [reflexivity|lia]).
  exists (lo + B ^ Z.of_nat (n - 2) * (wd a (n - 2) mod HALF)).
  split; [|nia]. rewrite Hv. set (P := B ^ Z.of_nat (n - 2)) in *. rewrite <- HALF_sq. nia.
Qed.

Lemma hi_le_of_val a b : words a -> words b -> val b <= val a -> (hi b <= hi a)%nat.
Proof.
  intros Ha Hb Hle. destruct (Nat.le_gt_cases (hi b) (hi a)) as [|Hgt]; [assumption|exfalso].
  pose proof (val_lt_pow_hi a Ha). pose proof (hi_ge1 a).
  pose proof (val_ge_pow_hi b Hb ltac:(lia)).
  assert (B ^ Z.of_nat (hi a) <= B ^ Z.of_nat (hi b - 1)) by (apply Z.pow_le_mono_r; [reflexivity|lia]).
  lia.
Qed.

Lemma lu_small x : 0 <= x < B2 -> lu x = x.
Proof. apply lu_id. Qed.

Lemma B2_eq : B2 = B * B.
Proof. reflexivity. Qed.

Lemma pow_split (n m : nat) : (m <= n)%nat -> B ^ Z.of_nat n = B ^ Z.of_nat m * B ^ Z.of_nat (n - m).
Proof. intros H. rewrite <- Z.pow_add_r by lia. f_equal. lia. Qed.

(** ** the estimate is good in all four variants *)
Lemma lu2 w1 w2 : isword w1 -> isword w2 -> lu (lu (w1 * B) + w2) = w1 * B + w2.
Proof.
  unfold isword. intros H1 H2. pose proof B_pos.
  rewrite (lu_small (w1 * B)) by (rewrite B2_eq; nia). apply lu_small. rewrite B2_eq. nia.
Qed.

Lemma lu2h x h : 0 <= x < HALF * B -> 0 <= h < HALF -> lu (lu (x * HALF) + h) = x * HALF + h.
Proof.
  intros Hx Hh. assert (HH : 0 < HALF) by reflexivity. pose proof B_pos.
  assert (B2 = HALF * B * HALF) by reflexivity.
  rewrite (lu_small (x * HALF)) by nia. apply lu_small. nia.
Qed.

Lemma div_half_bound w : isword w -> 0 <= w / HALF < HALF.
Proof.
  unfold isword. intros Hw. assert (HH : 0 < HALF) by reflexivity.
  split; [apply Z.div_pos; lia|apply Z.div_lt_upper_bound; [lia|rewrite HALF_sq; lia]].
Qed.

(* small arithmetic facts, proved in a small context *)
Lemma est_x w1 w2 : 0 <= w1 < HALF -> 0 <= w2 < B -> 0 <= w1 * B + w2 < HALF * B.
Proof. intros. pose proof B_pos. nia. Qed.
Lemma est_bounds w1 w2 h : 0 <= w1 < HALF -> 0 <= w2 < B -> 0 <= h < HALF -> 0 <= (w1 * B + w2) * HALF + h < B * B.
Proof. intros H1 H2 H3. pose proof (est_x w1 w2 H1 H2). pose proof HALF_sq. assert (0 < HALF) by reflexivity. nia. Qed.
Lemma est_pos v1 v2 h : 1 <= v1 -> 0 <= v2 -> 0 <= h -> 1 <= (v1 * B + v2) * HALF + h.
Proof. intros. pose proof B_pos. assert (0 < HALF) by reflexivity. nia. Qed.
Lemma est_plain w1 w2 : 0 <= w1 < B -> 0 <= w2 < B -> 0 <= w1 * B + w2 < B * B.
Proof. intros. nia. Qed.
Lemma est_plain_pos v1 v2 : 1 <= v1 -> 0 <= v2 -> 1 <= v1 * B + v2.
Proof. intros. pose proof B_pos. nia. Qed.
Lemma est_big w1 w2 h : 1 <= w1 -> 0 <= w2 -> 0 <= h -> B * HALF <= (w1 * B + w2) * HALF + h.
Proof. intros. pose proof B_pos. assert (0 < HALF) by reflexivity. nia. Qed.
Lemma est_h v1 h : 0 <= v1 < HALF -> 0 <= h < HALF -> 0 <= v1 * HALF + h < B.
Proof. intros. pose proof HALF_sq. nia. Qed.
Lemma est_h_pos v1 h : 1 <= v1 -> 0 <= h -> 1 <= v1 * HALF + h.
Proof. intros. assert (0 < HALF) by reflexivity. nia. Qed.
Lemma B_le_BH : B <= B * HALF.
Proof. pose proof B_pos. assert (1 <= HALF) by (unfold HALF; lia). nia. Qed.
Lemma plain_big w1 w2 : 1 <= w1 -> 0 <= w2 -> B <= w1 * B + w2.
Proof. intros. pose proof B_pos. nia. Qed.

Lemma qr_guess_good a1 b1 d off :
  words a1 -> words b1 -> (2 <= hi b1)%nat -> val b1 <= val a1 ->
  qr_guess a1 b1 (hi a1) (hi b1) = (d, off) ->
  (1 <= off <= hi a1 - 1)%nat /\ 1 <= d < B * B
  /\ 0 < val b1 * (d * B ^ Z.of_nat (off - 1)) < 2 * val a1.
Proof.
  intros Ha Hb Hbl Hle H.
  pose proof (hi_le_of_val a1 b1 Ha Hb Hle) as Hlen.
  set (alen := hi a1) in *. set (blen := hi b1) in *.
  pose proof (isword_wd a1 (alen - 1) Ha) as W1. pose proof (isword_wd a1 (alen - 2) Ha) as W2.
  pose proof (isword_wd a1 (alen - 3) Ha) as W3.
  pose proof (isword_wd b1 (blen - 1) Hb) as V1. pose proof (isword_wd b1 (blen - 2) Hb) as V2.
  pose proof (isword_wd b1 (blen - 3) Hb) as V3.
  pose proof (top_word_pos a1 Ha ltac:(fold alen; lia)) as W1p. fold alen in W1p.
  pose proof (top_word_pos b1 Hb Hbl) as V1p. fold blen in V1p.
  pose proof (div_half_bound _ W3) as W3h. pose proof (div_half_bound _ V3) as V3h. pose proof (div_half_bound _ V2) as V2h.
  assert (HH : 0 < HALF) by reflexivity. pose proof B_pos as HB. pose proof HALF_sq as HS.
  destruct (top2 a1 alen Ha eq_refl ltac:(lia)) as (la & Ea & Hla).
  destruct (top2 b1 blen Hb eq_refl Hbl) as (lb & Eb & Hlb).
  unfold qr_guess in H. rewrite !lu2 in H by assumption.
  set (w1 := wd a1 (alen - 1)) in *. set (w2 := wd a1 (alen - 2)) in *. set (w3 := wd a1 (alen - 3)) in *.
  set (v1 := wd b1 (blen - 1)) in *. set (v2 := wd b1 (blen - 2)) in *. set (v3 := wd b1 (blen - 3)) in *.
  unfold isword in *.
  assert (Pa : 0 < B ^ Z.of_nat (alen - 2)) by (apply Z.pow_pos_nonneg; [reflexivity|lia]).
  assert (Pb : 0 < B ^ Z.of_nat (blen - 2)) by (apply Z.pow_pos_nonneg; [reflexivity|lia]).
  assert (PX : 0 < B ^ Z.of_nat (alen - blen)) by (apply Z.pow_pos_nonneg; [reflexivity|lia]).
  (* first estimate: (dn1, dd1, Sa1, Sb1) *)
  assert (E1 : exists dn dd Sa Sb ra rb,
    (let '(dn0, dd0) :=
       if (2 <? alen)%nat && (2 <? blen)%nat && (w1 <? HALF) && (v1 <? HALF)
       then (lu (lu ((w1 * B + w2) * HALF) + w3 / HALF), lu (lu ((v1 * B + v2) * HALF) + v3 / HALF))
       else (w1 * B + w2, v1 * B + v2) in (dn0, dd0)) = (dn, dd)
    /\ val a1 = dn * Sa + ra /\ 0 <= ra < Sa /\ val b1 = dd * Sb + rb /\ 0 <= rb < Sb
    /\ 1 <= dd /\ 0 <= dn < B * B /\ Sa = Sb * B ^ Z.of_nat (alen - blen) /\ 0 < Sb).
  { destruct ((2 <? alen)%nat && (2 <? blen)%nat && (w1 <? HALF) && (v1 <? HALF)) eqn:R1.
    - apply andb_prop in R1. destruct R1 as [R1 Rv]. apply andb_prop in R1. destruct R1 as [R1 Rw].
      apply andb_prop in R1. destruct R1 as [Ra Rb]. apply Nat.ltb_lt in Ra, Rb. apply Z.ltb_lt in Rw, Rv.
      destruct (top3 a1 alen Ha eq_refl ltac:(lia)) as (la3 & Ea3 & Hla3).
      destruct (top3 b1 blen Hb eq_refl ltac:(lia)) as (lb3 & Eb3 & Hlb3).
      fold w1 w2 w3 in Ea3. fold v1 v2 v3 in Eb3.
      rewrite (lu2h (w1 * B + w2)) by (try apply est_x; lia).
      rewrite (lu2h (v1 * B + v2)) by (try apply est_x; lia).
      exists ((w1 * B + w2) * HALF + w3 / HALF), ((v1 * B + v2) * HALF + v3 / HALF),
             (B ^ Z.of_nat (alen - 3) * HALF), (B ^ Z.of_nat (blen - 3) * HALF), la3, lb3.
      assert (0 < B ^ Z.of_nat (blen - 3)) by (apply Z.pow_pos_nonneg; [reflexivity|lia]).
      split; [reflexivity|]. split; [rewrite Ea3; ring|]. split; [exact Hla3|].
      split; [rewrite Eb3; ring|]. split; [exact Hlb3|]. split; [apply est_pos; lia|]. split; [apply est_bounds; lia|].
      split; [|apply Z.mul_pos_pos; assumption]. rewrite (pow_split (alen - 3) (blen - 3)) by lia.
      replace (alen - 3 - (blen - 3))%nat with (alen - blen)%nat by lia. ring.
    - exists (w1 * B + w2), (v1 * B + v2), (B ^ Z.of_nat (alen - 2)), (B ^ Z.of_nat (blen - 2)), la, lb.
      split; [reflexivity|]. split; [rewrite Ea; ring|]. split; [exact Hla|].
      split; [rewrite Eb; ring|]. split; [exact Hlb|]. split; [apply est_plain_pos; lia|]. split; [apply est_plain; lia|].
      split; [|exact Pb]. rewrite (pow_split (alen - 2) (blen - 2)) by lia.
      replace (alen - 2 - (blen - 2))%nat with (alen - blen)%nat by lia. reflexivity. }
  destruct E1 as (dn & dd & Sa & Sb & ra & rb & Eq & EA & Hra & EB & Hrb & Hdd & Hdn & HSab & HSb).
  destruct (if (2 <? alen)%nat && (2 <? blen)%nat && (w1 <? HALF) && (v1 <? HALF)
            then (lu (lu ((w1 * B + w2) * HALF) + w3 / HALF), lu (lu ((v1 * B + v2) * HALF) + v3 / HALF))
            else (w1 * B + w2, v1 * B + v2)) as [dn0 dd0] eqn:Eif.
  apply pair_equal_spec in Eq. destruct Eq as [-> ->].
  destruct (Z.eqb_spec (dn / dd) 0) as [Hd0|Hd0].
  2:{ (* first estimate accepted *)
    apply pair_equal_spec in H. destruct H as [<- <-].
    assert (Hd1 : 1 <= dn / dd) by (pose proof (Z.div_pos dn dd ltac:(lia) ltac:(lia)); lia).
    split; [lia|]. split.
    - split; [exact Hd1|]. assert (dn / dd <= dn); [|lia].
      apply Z.div_le_upper_bound; [lia|]. clear - Hdd Hdn. nia.
    - replace (alen - blen + 1 - 1)%nat with (alen - blen)%nat by lia.
      apply (estimate_good (val a1) (val b1) dn dd ra rb Sa Sb); try assumption. }
  (* retry one position lower *)
  assert (Hlt : dn < dd) by (apply Z.div_small_iff in Hd0; lia).
  assert (Hgt : (blen < alen)%nat).
  { destruct (Nat.eq_dec alen blen) as [E|]; [|lia]. exfalso.
    rewrite E, Nat.sub_diag in HSab. cbn [Z.of_nat] in HSab. rewrite Z.pow_0_r, Z.mul_1_r in HSab. subst Sa.
    clear - EA Hra EB Hrb Hlt Hle HSb Hdd Hdn. nia. }
  assert (E2 : exists dn2 dd2 Sa2 Sb2 ra2 rb2,
    (let '(dn0, dd0) :=
       if (w1 <? HALF) && (v1 <? HALF)
       then (lu (lu ((w1 * B + w2) * HALF) + w3 / HALF), lu (lu (v1 * HALF) + v2 / HALF))
       else (w1 * B + w2, v1) in (dn0, dd0)) = (dn2, dd2)
    /\ val a1 = dn2 * Sa2 + ra2 /\ 0 <= ra2 < Sa2 /\ val b1 = dd2 * Sb2 + rb2 /\ 0 <= rb2 < Sb2
    /\ 1 <= dd2 /\ dd2 <= dn2 < B * B /\ Sa2 = Sb2 * B ^ Z.of_nat (alen - blen - 1) /\ 0 < Sb2).
  { destruct ((w1 <? HALF) && (v1 <? HALF)) eqn:R2.
    - apply andb_prop in R2. destruct R2 as [Rw Rv]. apply Z.ltb_lt in Rw, Rv.
      destruct (top3 a1 alen Ha eq_refl ltac:(lia)) as (la3 & Ea3 & Hla3). fold w1 w2 w3 in Ea3.
      destruct (top2h b1 blen Hb eq_refl Hbl) as (lbh & Ebh & Hlbh). fold v1 v2 in Ebh.
      rewrite (lu2h (w1 * B + w2)) by (try apply est_x; lia).
      pose proof (est_h v1 (v2 / HALF) ltac:(lia) V2h) as Hvh.
      rewrite (lu_small (v1 * HALF)) by (rewrite B2_eq; clear - Rv V1p HB HH HS; nia).
      rewrite (lu_small (v1 * HALF + v2 / HALF)) by (rewrite B2_eq; clear - Hvh HB; nia).
      exists ((w1 * B + w2) * HALF + w3 / HALF), (v1 * HALF + v2 / HALF),
             (B ^ Z.of_nat (alen - 3) * HALF), (B ^ Z.of_nat (blen - 2) * HALF), la3, lbh.
      split; [reflexivity|]. split; [rewrite Ea3; ring|]. split; [exact Hla3|].
      split; [rewrite Ebh; ring|]. split; [exact Hlbh|]. split; [apply est_h_pos; lia|].
      split; [split; [|apply est_bounds; lia]|].
      { pose proof (est_big w1 w2 (w3 / HALF) W1p ltac:(lia) ltac:(lia)). pose proof B_le_BH. lia. }
      split; [|apply Z.mul_pos_pos; assumption]. rewrite (pow_split (alen - 3) (blen - 2)) by lia.
      replace (alen - 3 - (blen - 2))%nat with (alen - blen - 1)%nat by lia. ring.
    - destruct (top1 b1 blen Hb eq_refl Hbl) as (lb1 & Eb1 & Hlb1). fold v1 in Eb1.
      exists (w1 * B + w2), v1, (B ^ Z.of_nat (alen - 2)), (B ^ Z.of_nat (blen - 1)), la, lb1.
      split; [reflexivity|]. split; [rewrite Ea; ring|]. split; [exact Hla|].
      split; [rewrite Eb1; ring|]. split; [exact Hlb1|]. split; [lia|].
      split; [split; [pose proof (plain_big w1 w2 W1p ltac:(lia)); lia|apply est_plain; lia]|].
      split; [|apply Z.pow_pos_nonneg; [reflexivity|lia]].
      rewrite (pow_split (alen - 2) (blen - 1)) by lia.
      replace (alen - 2 - (blen - 1))%nat with (alen - blen - 1)%nat by lia. reflexivity. }
  destruct E2 as (dn2 & dd2 & Sa2 & Sb2 & ra2 & rb2 & Eq2 & EA2 & Hra2 & EB2 & Hrb2 & Hdd2 & Hdn2 & HSab2 & HSb2).
  destruct (if (w1 <? HALF) && (v1 <? HALF)
            then (lu (lu ((w1 * B + w2) * HALF) + w3 / HALF), lu (lu (v1 * HALF) + v2 / HALF))
            else (w1 * B + w2, v1)) as [dn0 dd0] eqn:Eif2.
  apply pair_equal_spec in Eq2. destruct Eq2 as [-> ->].
  apply pair_equal_spec in H. destruct H as [<- <-].
  assert (Hd1 : 1 <= dn2 / dd2) by (apply Z.div_le_lower_bound; lia).
  split; [lia|]. split.
  - split; [exact Hd1|]. assert (dn2 / dd2 <= dn2); [|lia].
    apply Z.div_le_upper_bound; [lia|]. clear - Hdd2 Hdn2. nia.
  - replace (alen - blen + 1 - 1 - 1)%nat with (alen - blen - 1)%nat by lia.
    apply (estimate_good (val a1) (val b1) dn2 dd2 ra2 rb2 Sa2 Sb2); try assumption.
    apply Z.pow_pos_nonneg; [reflexivity|lia].
Qed.

(** ** the loop terminates *)
Lemma qr_loop_mf_mono : forall fuel mf mf' alen0 a1 b1 blen q sign r, (mf <= mf')%nat ->
  qr_loop fuel mf alen0 a1 b1 blen q sign = Some r -> qr_loop fuel mf' alen0 a1 b1 blen q sign = Some r.
Proof.
  induction fuel as [|f IH]; intros mf mf' alen0 a1 b1 blen q sign r Hle H; cbn [qr_loop] in *.
  - exact H.
  - destruct (compare_abs (snd a1) b1 >=? 0); [|exact H].
    destruct (qr_guess (snd a1) b1 (hi (snd a1)) blen) as [d off].
    match type of H with context [bignum_mul mf ?u ?v] =>
      destruct (bignum_mul mf u v) as [y|] eqn:E; [|discriminate];
      rewrite (mul_fuel_le mf' mf u v y Hle E) end.
    destruct (if sign <? 0 then _ else _) as [a2 q2]. cbv beta iota in *.
    apply (IH mf); assumption.
Qed.

Lemma wf_big_val_abs z : wf_big z -> val (snd z) = Z.abs (bval z).
Proof.
  destruct z as [s d]. intros (Hs & Hd & _). cbn [fst snd] in *. unfold bval. cbn [fst snd].
  pose proof (val_nonneg d Hd). destruct Hs as [-> | ->]; lia.
Qed.

Lemma qr_loop_total : forall n alen0 a1 b1 q sign,
  wf_big a1 -> words b1 -> b1 <> [] -> (2 <= hi b1)%nat -> wf_num q ->
  (sign = 1 \/ sign = -1) -> fst a1 = sign -> (hi (snd a1) <= alen0)%nat ->
  val (snd a1) < Z.of_nat n ->
  exists fuel mf res, qr_loop fuel mf alen0 a1 b1 (hi b1) q sign = Some res.
Proof.
  induction n as [|n IH]; intros alen0 a1 b1 q sign Ha1 Hb1 Hnb Hbl Hq Hs Hfs Hlen Hn.
  - pose proof (val_nonneg _ (proj1 (proj2 Ha1))). lia.
  - destruct (compare_abs (snd a1) b1 >=? 0) eqn:Hc.
    2:{ exists 0%nat, 0%nat, (a1, q, sign). cbn [qr_loop]. rewrite Hc. reflexivity. }
    pose proof Ha1 as (Hsa & Hwa & Hna).
    destruct (compare_abs_spec (snd a1) b1 Hwa Hb1 Hna Hnb) as [_ Hlt].
    assert (Hle : val b1 <= val (snd a1)) by lia.
    destruct (qr_guess (snd a1) b1 (hi (snd a1)) (hi b1)) as [d off] eqn:Eg.
    destruct (qr_guess_good (snd a1) b1 d off Hwa Hb1 Hbl Hle Eg) as (Hoff & Hd & Hy).
    pose proof (guess_val alen0 off d ltac:(lia) ltac:(lia)) as Vx. cbv zeta in Vx.
    set (x0 := setnth (repeat 0 alen0) off ((d / B) mod B)) in *.
    set (x := setnth x0 (off - 1) (d mod B)) in *.
    assert (Hx : wf_big (1, x)).
    { assert (words x0 /\ length x0 = alen0) as [Hx0 Hl0].
      { unfold x0. split; [apply words_setnth; [apply words_repeat0|apply isword_modB]|].
        rewrite setnth_length, repeat_length. reflexivity. }
      split; [cbn [fst]; auto|]. cbn [snd].
      split; [unfold x; apply words_setnth; [exact Hx0|apply isword_modB]|].
      apply nonempty_length. unfold x. rewrite setnth_length. lia. }
    assert (Hb1w : wf_big (1, b1)) by (split; [cbn [fst]; auto|split; assumption]).
    destruct (karatsuba_total (1, b1) (1, x) Hb1w Hx) as (mfy & y & Ey & Vy & Wy).
    unfold bval at 2 3 in Vy. cbn [fst snd] in Vy. rewrite !Z.mul_1_l, Vx in Vy.
    set (A := val (snd a1)) in *.
    assert (Ha1v : bval a1 = sign * A) by (unfold bval, A; rewrite Hfs; reflexivity).
    set (step := if sign <? 0 then (bignum_add a1 y, num_sub q (Big 1 x))
                 else (bignum_sub a1 y, num_add q (Big 1 x))).
    assert (Hstep : wf_big (fst step) /\ wf_num (snd step) /\ Z.abs (bval (fst step)) < A).
    { unfold step. destruct (Z.ltb_spec sign 0); cbn [fst snd].
      - destruct (bignum_add_spec a1 y Ha1 Wy) as [V W].
        destruct (num_sub_spec q (Big 1 x) Hq Hx) as (_ & _ & W2); [cbn [is_fix]; congruence|].
        split; [exact W|]. split; [exact W2|]. rewrite V, Vy, Ha1v. assert (sign = -1) as -> by lia. lia.
      - destruct (bignum_sub_spec a1 y Ha1 Wy) as [V W].
        destruct (num_add_spec q (Big 1 x) Hq Hx) as (_ & _ & W2).
        split; [exact W|]. split; [exact W2|]. rewrite V, Vy, Ha1v. assert (sign = 1) as -> by lia. lia. }
    destruct step as [a2 q2] eqn:Estep. cbn [fst snd] in Hstep. destruct Hstep as (Wa2 & Wq2 & Habs).
    set (a3 := if negb (fst a2 =? sign) then (- sign, snd a2) else a2).
    set (sign' := if negb (fst a2 =? sign) then - sign else sign).
    assert (Wa3 : wf_big a3 /\ fst a3 = sign' /\ snd a3 = snd a2 /\ (sign' = 1 \/ sign' = -1)).
    { unfold a3, sign'. destruct (Z.eqb_spec (fst a2) sign); cbn [negb].
      - split; [exact Wa2|]. split; [assumption|]. split; [reflexivity|exact Hs].
      - destruct Wa2 as (H1 & H2 & H3). split; [split; [cbn [fst]; lia|split; assumption]|].
        split; [reflexivity|]. split; [reflexivity|lia]. }
    destruct Wa3 as (Wa3 & Hfs3 & Hsnd3 & Hs3).
    assert (Hv3 : val (snd a3) < A) by (rewrite Hsnd3, (wf_big_val_abs a2 Wa2); exact Habs).
    destruct (IH alen0 a3 b1 q2 sign' Wa3 Hb1 Hnb Hbl Wq2 Hs3 Hfs3) as (fuel & mf & res & Hr).
    { pose proof (hi_le_of_val (snd a1) (snd a3) Hwa ltac:(apply Wa3) ltac:(fold A; lia)). lia. }
    { lia. }
    set (M := Nat.max mf mfy).
    exists (S fuel), M, res. cbn [qr_loop]. rewrite Hc, Eg.
    assert (Hoff0 : (0 <? off)%nat = true) by (apply Nat.ltb_lt; lia). rewrite Hoff0.
    fold x0. fold x. rewrite (mul_fuel_le M mfy _ _ _ ltac:(unfold M; lia) Ey).
    fold step. rewrite Estep. cbv beta iota. fold a3 sign'.
    apply (qr_loop_mf_mono fuel mf M); [unfold M; lia|exact Hr].
Qed.

(** total correctness of quot_rem *)
Theorem quot_rem_total x y : wf_big x -> wf_big y -> bval y <> 0 ->
  exists fuel mf q r, quot_rem fuel mf x y = QR q r
    /\ nval q = Z.quot (bval x) (bval y) /\ nval r = Z.rem (bval x) (bval y) /\ wf_num q /\ wf_num r.
Proof.
  intros Hx Hy Hnz.
  assert (H : exists fuel mf q r, quot_rem fuel mf x y = QR q r).
  { destruct x as [sa a], y as [sb b].
    pose proof Hx as (Hsa & Ha & Hna). pose proof Hy as (Hsb & Hb & Hnb). cbn [fst snd] in *.
    unfold quot_rem. destruct (Nat.eqb_spec (hi b) 1) as [Hb1|Hb1]; cbn [andb].
    - pose proof (hi1_val b Hb Hnb Hb1) as Hvb. unfold wd. rewrite <- Hvb.
      destruct (Z.eqb_spec (val b) 0) as [Hz|_].
      + exfalso. apply Hnz. unfold bval. cbn [fst snd]. rewrite Hz. ring.
      + exists 0%nat, 0%nat. destruct (fxdiv a (val b) 0) as [qs r0]. eexists _, _. reflexivity.
    - pose proof (hi_ge1 b).
      destruct (qr_loop_total (S (Z.to_nat (val a))) (length a) (1, a) b (Fix 0) 1) as (fuel & mf & res & Hr);
        try assumption; try reflexivity; try (cbn [fst snd]; auto).
      + split; [cbn [fst]; auto|split; assumption].
      + lia.
      + apply hi_le_length. exact Hna.
      + pose proof (val_nonneg a Ha). lia.
      + exists fuel, mf. rewrite Hr. destruct res as [[a1 q1] sign].
        destruct ((sign <? 0) && negb _); eexists _, _; reflexivity. }
  destruct H as (fuel & mf & q & r & H). exists fuel, mf, q, r. split; [exact H|].
  destruct (quot_rem_spec fuel mf x y q r Hx Hy H) as (_ & H1 & H2 & H3 & H4). tauto.
Qed.
