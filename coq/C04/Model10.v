(** C04 model, tenth part (round 3): sexp_compare over EVERY pair of real number types
    fixnum (1) < flonum (2) < bignum (3) < ratio (4)  (bignum.c:1901-1995), i.e. the flonum entries
    FIX_FLO, FLO_FLO, FLO_BIG, FLO_RAT on top of the exact entries of Model4 / Model5.
    A flonum is given by what it denotes: a finite double by its dyadic value (m, e) = m * 2^e
    (SpecFloat.b64_decode), or +-inf, or NaN.
    MODELLING ASSUMPTION about the FPU (facts of IEEE-754): the C comparisons f < g, f == g of two
    doubles compare their exact values; isinf / isnan classify; sexp_inexact_to_exact and
    sexp_double_to_bignum are the models of Model8 (exact, no rounding).   NO proofs in this file. *)
From ChibiV Require Export C04.Model8.
Local Open Scope Z_scope.

Inductive flo := FFin (m e : Z) | FInf (neg : bool) | FNan.
Inductive cnum := CFix (z : Z) | CFlo (f : flo) | CBig (s : Z) (d : list Z) | CRat (n d : num).
(** CV c: a fixnum of which every caller uses the sign only; CNan: the exception "can't compare NaN"
    (the VM turns it into #f); CFuel: a fuel of the exact operations ran out *)
Inductive cres := CV (c : Z) | CNan | CFuel.

(** sexp_number_type *)
Definition ctype (x : cnum) : Z :=
  match x with CFix _ => 1 | CFlo _ => 2 | CBig _ _ => 3 | CRat _ _ => 4 end.

Definition oc (r : option Z) : cres := match r with Some c => CV c | None => CFuel end.
(** [if (!sexp_exceptionp(r)) { sexp_negate(r); }]: sexp_fx_neg on the fixnum result *)
Definition cneg (r : cres) : cres := match r with CV c => CV (wrap_fix (- c)) | x => x end.

(** sexp_compare on two EXACT operands (the entries FIX_FIX, FIX_BIG, BIG_BIG of Model4.num_compare;
    FIX_RAT, BIG_RAT: [a = tmp = sexp_make_ratio(ctx, a, SEXP_ONE)] and fall through to RAT_RAT:
    sexp_ratio_compare; a ratio first: at > bt, compare (b, a) and negate) *)
Definition ex_compare (mf : nat) (a b : enum) : cres :=
  match a, b with
  | EInt x, EInt y => CV (num_compare x y)
  | EInt x, ERat n d => oc (ratio_compare mf x (Fix 1) n d)
  | ERat n d, EInt y => cneg (oc (ratio_compare mf y (Fix 1) n d))
  | ERat n d, ERat n' d' => oc (ratio_compare mf n d n' d')
  end.

(** tmp = sexp_inexact_to_exact(ctx, NULL, 1, flonum), then the recursive sexp_compare [k] on it *)
Definition with_exact (x : xres) (k : enum -> cres) : cres :=
  match x with
  | XNum (RInt v) => k (EInt v)
  | XNum (RRat n d) => k (ERat n d)
  | _ => CFuel
  end.

(** the C comparison [f < g] / [f == g] of two finite doubles: m*2^e against m'*2^e' *)
Definition dy_cmp (m e m' e' : Z) : Z :=
  let k := Z.min e e' in Z.sgn (m * 2 ^ (e - k) - m' * 2 ^ (e' - k)).

(** FLO_FLO, no NaN: [f < g ? -1 : f == g ? 0 : 1] *)
Definition flo_cmp (f g : flo) : Z :=
  match f, g with
  | FFin m e, FFin m' e' => dy_cmp m e m' e'
  | FInf s, FInf t => if Bool.eqb s t then 0 else if s then -1 else 1
  | FInf s, _ => if s then -1 else 1
  | _, FInf t => if t then 1 else -1
  | _, _ => 0
  end.

(** the switch of sexp_compare for at <= bt *)
Definition cmp_le (fuel rf qf mf : nat) (a b : cnum) : cres :=
  match a, b with
  | CFix x, CFix y => CV (num_compare (Fix x) (Fix y))                              (* FIX_FIX *)
  | CFix x, CFlo (FInf neg) => CV (if neg then 1 else -1)                           (* FIX_FLO: isinf(b) *)
  | CFix x, CFlo FNan => CNan
  | CFix x, CFlo (FFin m e) =>                     (* sexp_compare(a, tmp = inexact_to_exact(b)) *)
      with_exact (inexact_to_exact fuel rf qf mf (Some (m, e))) (fun t => ex_compare mf (EInt (Fix x)) t)
  | CFix x, CBig s d => CV (num_compare (Fix x) (Big s d))                          (* FIX_BIG *)
  | CFix x, CRat n d => ex_compare mf (EInt (Fix x)) (ERat n d)                     (* FIX_RAT *)
  | CFlo FNan, CFlo _ => CNan                                                       (* FLO_FLO *)
  | CFlo _, CFlo FNan => CNan
  | CFlo f, CFlo g => CV (flo_cmp f g)
  | CFlo (FInf neg), CBig _ _ => CV (if neg then -1 else 1)                         (* FLO_BIG *)
  | CFlo FNan, CBig _ _ => CNan
  | CFlo (FFin m e), CBig s d =>          (* a = tmp = sexp_double_to_bignum(f): TRUNCATES; BIG_BIG *)
      match double_to_bignum fuel (dy_trunc m e) with
      | Some a' => CV (bignum_compare a' (s, d))
      | None => CFuel
      end
  | CFlo (FInf neg), CRat _ _ => CV (if neg then -1 else 1)                         (* FLO_RAT *)
  | CFlo FNan, CRat _ _ => CNan
  | CFlo (FFin m e), CRat n d =>                   (* sexp_compare(tmp = inexact_to_exact(a), b) *)
      with_exact (inexact_to_exact fuel rf qf mf (Some (m, e))) (fun t => ex_compare mf t (ERat n d))
  | CBig s d, CBig s' d' => CV (bignum_compare (s, d) (s', d'))                     (* BIG_BIG *)
  | CBig s d, CRat n' d' => ex_compare mf (EInt (Big s d)) (ERat n' d')             (* BIG_RAT *)
  | CRat n d, CRat n' d' => ex_compare mf (ERat n d) (ERat n' d')                   (* RAT_RAT *)
  | _, _ => CFuel                                                                   (* at > bt: not reached *)
  end.

(** sexp_compare: [if (at > bt) { r = sexp_compare(ctx, b, a); negate }] *)
Definition x_compare (fuel rf qf mf : nat) (a b : cnum) : cres :=
  if ctype b <? ctype a then cneg (cmp_le fuel rf qf mf b a) else cmp_le fuel rf qf mf a b.

(** the VM opcodes on top of it (vm.c SEXP_OP_EQN / LT / LE; [>] and [>=] are LT / LE with the operands
    swapped by the compiler): a NaN exception becomes #f.  op: 0 [=] 1 [<] 2 [>] 3 [<=] 4 [>=] *)
Definition vm_cmp (op : nat) (fuel rf qf mf : nat) (a b : cnum) : option bool :=
  let r := match op with
           | 2%nat | 4%nat => x_compare fuel rf qf mf b a
           | _ => x_compare fuel rf qf mf a b
           end in
  match r with
  | CNan => Some false
  | CFuel => None
  | CV c => Some (match op with
                  | 0%nat => c =? 0
                  | 1%nat | 2%nat => c <? 0
                  | _ => c <=? 0
                  end)
  end.
