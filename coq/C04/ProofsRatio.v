(** Exact rationals: sexp_ratio_normalize yields the same fraction in lowest terms with a positive
    denominator (an integer when the denominator becomes 1); add / mul / div / compare agree with Q. *)
From ChibiV Require Import Common.Words C04.Model C04.Model2 C04.Model3 C04.Model4 C04.Model5
  C04.Proofs C04.ProofsFx C04.ProofsMul C04.ProofsDiv C04.ProofsQuot C04.ProofsSqrt.
From Coq Require Import ZifyBool Znumtheory QArith.
Local Open Scope Z_scope.

Lemma is_zero_spec x : is_zero x = true -> x = Fix 0.
Proof. destruct x as [z|]; [|discriminate]. destruct z; try discriminate. reflexivity. Qed.

Lemma gcd_rem_step a b : Z.gcd a b = Z.gcd b (Z.rem a b).
Proof.
  destruct (Z.eq_dec b 0) as [->|Hb].
  - rewrite Z.rem_0_r_ext by reflexivity. apply Z.gcd_comm.
  - pose proof (Z.quot_rem' a b) as H.
    replace (Z.rem a b) with (a + (- (Z.quot a b)) * b) by lia.
    rewrite Z.gcd_add_mult_diag_r. apply Z.gcd_comm.
Qed.

Lemma gcd_loop_spec : forall fuel qf mf nu den g, wf_num nu -> wf_num den ->
  gcd_loop fuel qf mf nu den = Some (Some g) ->
  wf_num g /\ Z.gcd (nval nu) (nval den) = Z.abs (nval g).
Proof.
  induction fuel as [|f IH]; intros qf mf nu den g Hn Hd H; cbn [gcd_loop] in H.
  - destruct (is_zero den) eqn:Hz; [|discriminate].
    apply is_zero_spec in Hz. subst den. assert (g = nu) as -> by congruence.
    cbn [nval]. rewrite Z.gcd_0_r. tauto.
  - destruct (is_zero den) eqn:Hz.
    + apply is_zero_spec in Hz. subst den. assert (g = nu) as -> by congruence.
      cbn [nval]. rewrite Z.gcd_0_r. tauto.
    + destruct (num_remainder qf mf nu den) as [tmp| |] eqn:E; try discriminate.
      apply num_remainder_spec in E; [|assumption|assumption]. destruct E as (_ & Vt & Wt).
      apply IH in H; [|assumption|assumption]. destruct H as [Wg Hg].
      split; [exact Wg|]. rewrite <- Hg, Vt. apply gcd_rem_step.
Qed.

Lemma is_neg_nz x : wf_num x -> nval x <> 0 -> is_neg x = (nval x <? 0).
Proof.
  destruct x as [z|s d]; cbn [is_neg nval wf_num]; intros Hw Hnz; [reflexivity|].
  destruct Hw as (Hs & Hd & _). cbn [fst snd] in *. pose proof (val_nonneg d Hd).
  destruct Hs as [-> | ->].
  - destruct (Z.ltb_spec (1 * val d) 0); [lia|reflexivity].
  - destruct (Z.ltb_spec (-1 * val d) 0); [reflexivity|lia].
Qed.

Lemma canon_one x : canon x -> nval x = 1 -> is_one x = true.
Proof.
  unfold canon. destruct x as [z|s d]; cbn [is_fix nval is_one]; intros Hc Hv.
  - subst. reflexivity.
  - rewrite Hv in Hc. discriminate.
Qed.

Lemma exact_quot a g : g <> 0 -> (g | a) -> a = Z.quot a g * g.
Proof.
  intros Hg Hd. apply Z.rem_divide in Hd; [|exact Hg]. pose proof (Z.quot_rem' a g). lia.
Qed.

(** what normalisation promises about a result *)
Definition same_fraction (n d n' d' : Z) : Prop := n' * d = n * d'.

Definition rat_ok (r : rres) (n d : Z) : Prop :=
  match r with
  | RInt v => canon v /\ wf_num v /\ same_fraction n d (nval v) 1
  | RRat n' d' => canon n' /\ canon d' /\ wf_num n' /\ wf_num d' /\ same_fraction n d (nval n') (nval d')
                  /\ 1 < nval d' /\ Z.gcd (nval n') (nval d') = 1
  | RErr | RFuel => True
  end.

Theorem ratio_normalize_spec fuel qf mf n d : wf_num n -> wf_num d -> nval d <> 0 ->
  rat_ok (ratio_normalize fuel qf mf n d) (nval n) (nval d).
Proof.
  intros Hn Hd Hd0. unfold ratio_normalize.
  destruct (is_zero d) eqn:Zd; [exact I|].
  destruct (is_zero n) eqn:Zn.
  { apply is_zero_spec in Zn. subst n. cbn [rat_ok nval]. unfold same_fraction.
    split; [apply canon_fix; reflexivity|]. split; [reflexivity|ring]. }
  destruct (gcd_loop fuel qf mf n d) as [[g|]|] eqn:Eg; [|exact I|exact I].
  apply gcd_loop_spec in Eg; [|assumption|assumption]. destruct Eg as [Wg Hg].
  assert (Hg0 : nval g <> 0).
  { intros E. rewrite E in Hg. cbn in Hg. apply Z.gcd_eq_0_r in Hg. contradiction. }
  assert (Dn : (nval g | nval n)) by (apply Z.divide_abs_l; rewrite <- Hg; apply Z.gcd_divide_l).
  assert (Dd : (nval g | nval d)) by (apply Z.divide_abs_l; rewrite <- Hg; apply Z.gcd_divide_r).
  destruct (num_quotient qf mf d g) as [d1| |] eqn:Ed;
    [|destruct (num_quotient qf mf n g); exact I|destruct (num_quotient qf mf n g); exact I].
  destruct (num_quotient qf mf n g) as [n1| |] eqn:En; [|exact I|exact I].
  apply num_quotient_spec in Ed; [|assumption|assumption]. destruct Ed as (_ & Vd1 & Wd1).
  apply num_quotient_spec in En; [|assumption|assumption]. destruct En as (_ & Vn1 & Wn1).
  pose proof (exact_quot (nval n) (nval g) Hg0 Dn) as En. rewrite <- Vn1 in En.
  pose proof (exact_quot (nval d) (nval g) Hg0 Dd) as Ed. rewrite <- Vd1 in Ed.
  assert (Hd1 : nval d1 <> 0) by (intros E; rewrite E in Ed; lia).
  assert (Hg1 : Z.gcd (nval n1) (nval d1) = 1).
  { pose proof (Z.gcd_mul_mono_r (nval n1) (nval d1) (nval g)) as Hm. rewrite <- En, <- Ed, Hg in Hm.
    pose proof (Z.gcd_nonneg (nval n1) (nval d1)). nia. }
  rewrite (is_neg_nz d1 Wd1 Hd1).
  destruct (Z.ltb_spec (nval d1) 0) as [Hneg|Hpos].
  - destruct (num_mul mf n1 (Fix (-1))) as [n2|] eqn:E2; [|destruct (num_mul mf d1 (Fix (-1))); exact I].
    destruct (num_mul mf d1 (Fix (-1))) as [d2|] eqn:E3; [|exact I].
    apply num_mul_spec in E2; [|assumption|reflexivity]. destruct E2 as (V2 & _ & W2).
    apply num_mul_spec in E3; [|assumption|reflexivity]. destruct E3 as (V3 & _ & W3).
    cbn [nval] in V2, V3.
    destruct (normalize_num_spec n2 W2) as (Vn3 & Cn3 & Wn3).
    destruct (normalize_num_spec d2 W3) as (Vd3 & Cd3 & Wd3).
    assert (Hgg : Z.gcd (nval (normalize n2)) (nval (normalize d2)) = 1).
    { rewrite Vn3, Vd3, V2, V3. replace (nval n1 * -1) with (- nval n1) by ring.
      replace (nval d1 * -1) with (- nval d1) by ring. rewrite Z.gcd_opp_l, Z.gcd_opp_r. exact Hg1. }
    destruct (is_one (normalize d2)) eqn:E1; cbn [rat_ok]; unfold same_fraction.
    + apply is_one_spec in E1. rewrite E1 in Vd3. cbn [nval] in Vd3.
      split; [exact Cn3|]. split; [exact Wn3|]. rewrite Vn3, V2. nia.
    + repeat split; try assumption.
      * rewrite Vn3, Vd3, V2, V3. nia.
      * assert (nval (normalize d2) <> 1).
        { intros E. apply (canon_one _ Cd3) in E. congruence. }
        lia.
  - destruct (normalize_num_spec n1 Wn1) as (Vn3 & Cn3 & Wn3).
    destruct (normalize_num_spec d1 Wd1) as (Vd3 & Cd3 & Wd3).
    destruct (is_one (normalize d1)) eqn:E1; cbn [rat_ok]; unfold same_fraction.
    + apply is_one_spec in E1. rewrite E1 in Vd3. cbn [nval] in Vd3.
      split; [exact Cn3|]. split; [exact Wn3|]. rewrite Vn3. nia.
    + repeat split; try assumption.
      * rewrite Vn3, Vd3. nia.
      * assert (nval (normalize d1) <> 1).
        { intros E. apply (canon_one _ Cd3) in E. congruence. }
        lia.
      * rewrite Vn3, Vd3. exact Hg1.
Qed.

(** ** add / mul / div / compare *)
Lemma omul_ok mf a b k n d : wf_num a -> wf_num b ->
  (forall v, wf_num v -> canon v -> nval v = nval a * nval b -> rat_ok (k v) n d) ->
  rat_ok (omul mf a b k) n d.
Proof.
  intros Ha Hb Hk. unfold omul. destruct (num_mul mf a b) as [v|] eqn:E; [|exact I].
  apply num_mul_spec in E; [|assumption|assumption]. destruct E as (V & C & W). apply Hk; assumption.
Qed.

Theorem ratio_add_spec fuel qf mf na da nb db :
  wf_num na -> wf_num da -> wf_num nb -> wf_num db -> nval da <> 0 -> nval db <> 0 ->
  rat_ok (ratio_add fuel qf mf na da nb db) (nval na * nval db + nval nb * nval da) (nval da * nval db).
Proof.
  intros Wna Wda Wnb Wdb Hda Hdb. unfold ratio_add.
  apply omul_ok; [assumption|assumption|]. intros t1 W1 _ V1.
  apply omul_ok; [assumption|assumption|]. intros t2 W2 _ V2.
  apply omul_ok; [assumption|assumption|]. intros dd Wd _ Vd.
  destruct (num_add_spec t1 t2 W1 W2) as (Vs & _ & Ws).
  rewrite <- V1, <- V2, <- Vd, <- Vs. apply ratio_normalize_spec; [assumption|assumption|]. rewrite Vd. nia.
Qed.

Theorem ratio_mul_spec fuel qf mf na da nb db :
  wf_num na -> wf_num da -> wf_num nb -> wf_num db -> nval da <> 0 -> nval db <> 0 ->
  rat_ok (ratio_mul fuel qf mf na da nb db) (nval na * nval nb) (nval da * nval db).
Proof.
  intros Wna Wda Wnb Wdb Hda Hdb. unfold ratio_mul.
  apply omul_ok; [assumption|assumption|]. intros nn Wn _ Vn.
  apply omul_ok; [assumption|assumption|]. intros dd Wd _ Vd.
  rewrite <- Vn, <- Vd. apply ratio_normalize_spec; [assumption|assumption|]. rewrite Vd. nia.
Qed.

Theorem ratio_div_spec fuel qf mf na da nb db :
  wf_num na -> wf_num da -> wf_num nb -> wf_num db -> nval da <> 0 -> nval nb <> 0 ->
  rat_ok (ratio_div fuel qf mf na da nb db) (nval na * nval db) (nval da * nval nb).
Proof.
  intros Wna Wda Wnb Wdb Hda Hnb. unfold ratio_div.
  apply omul_ok; [assumption|assumption|]. intros nn Wn _ Vn.
  apply omul_ok; [assumption|assumption|]. intros dd Wd _ Vd.
  rewrite <- Vn, <- Vd. apply ratio_normalize_spec; [assumption|assumption|]. rewrite Vd. nia.
Qed.

Lemma cmp_ok_canon a b : canon a -> canon b -> cmp_ok a b.
Proof. intros Ca Cb. destruct a, b; cbn [cmp_ok]; auto. Qed.

Theorem ratio_compare_spec mf na da nb db c :
  wf_num na -> wf_num da -> wf_num nb -> wf_num db ->
  ratio_compare mf na da nb db = Some c ->
  Z.sgn c = Z.sgn (nval na * nval db - nval nb * nval da).
Proof.
  intros Wna Wda Wnb Wdb H. unfold ratio_compare in H.
  destruct (num_mul mf na db) as [a2|] eqn:E1; [|discriminate].
  destruct (num_mul mf nb da) as [b2|] eqn:E2; [|discriminate].
  apply num_mul_spec in E1; [|assumption|assumption]. destruct E1 as (V1 & C1 & W1).
  apply num_mul_spec in E2; [|assumption|assumption]. destruct E2 as (V2 & C2 & W2).
  assert (c = num_compare a2 b2) as -> by congruence.
  rewrite (num_compare_spec a2 b2 W1 W2 (cmp_ok_canon _ _ C1 C2)), V1, V2. reflexivity.
Qed.

(** the same statements in Coq's Q *)
Lemma same_fraction_Qeq n d n' d' : 0 < d -> 0 < d' -> same_fraction n d n' d' ->
  (n' # Z.to_pos d' == n # Z.to_pos d)%Q.
Proof.
  intros Hd Hd' H. unfold Qeq, same_fraction in *. cbn [Qnum Qden]. rewrite !Z2Pos.id by assumption. exact H.
Qed.

Definition rat_value (r : rres) : option Q :=
  match r with
  | RInt v => Some (nval v # 1)
  | RRat n d => Some (nval n # Z.to_pos (nval d))
  | _ => None
  end.

Lemma rat_ok_value r n d q : 0 < d -> rat_ok r n d -> rat_value r = Some q -> (q == n # Z.to_pos d)%Q.
Proof.
  intros Hd Hok Hv. destruct r as [v|n' d'| |]; cbn [rat_value rat_ok] in *; try discriminate.
  - assert (q = nval v # 1) as -> by congruence. destruct Hok as (_ & _ & Hs).
    unfold Qeq, same_fraction in *. cbn [Qnum Qden]. rewrite Z2Pos.id by assumption. lia.
  - assert (q = nval n' # Z.to_pos (nval d')) as -> by congruence.
    destruct Hok as (_ & _ & _ & _ & Hs & Hd1 & _). apply same_fraction_Qeq; [assumption|lia|exact Hs].
Qed.

Theorem ratio_add_Q fuel qf mf na da nb db q :
  wf_num na -> wf_num da -> wf_num nb -> wf_num db -> 0 < nval da -> 0 < nval db ->
  rat_value (ratio_add fuel qf mf na da nb db) = Some q ->
  (q == (nval na # Z.to_pos (nval da)) + (nval nb # Z.to_pos (nval db)))%Q.
Proof.
  intros Wna Wda Wnb Wdb Hda Hdb Hv.
  pose proof (ratio_add_spec fuel qf mf na da nb db Wna Wda Wnb Wdb ltac:(lia) ltac:(lia)) as Hok.
  assert (Hdd : 0 < nval da * nval db) by nia.
  rewrite (rat_ok_value _ _ _ q Hdd Hok Hv).
  unfold Qeq, Qplus. cbn [Qnum Qden]. rewrite Pos2Z.inj_mul, !Z2Pos.id by nia. ring.
Qed.

Theorem ratio_mul_Q fuel qf mf na da nb db q :
  wf_num na -> wf_num da -> wf_num nb -> wf_num db -> 0 < nval da -> 0 < nval db ->
  rat_value (ratio_mul fuel qf mf na da nb db) = Some q ->
  (q == (nval na # Z.to_pos (nval da)) * (nval nb # Z.to_pos (nval db)))%Q.
Proof.
  intros Wna Wda Wnb Wdb Hda Hdb Hv.
  pose proof (ratio_mul_spec fuel qf mf na da nb db Wna Wda Wnb Wdb ltac:(lia) ltac:(lia)) as Hok.
  assert (Hdd : 0 < nval da * nval db) by nia.
  rewrite (rat_ok_value _ _ _ q Hdd Hok Hv).
  unfold Qeq, Qmult. cbn [Qnum Qden]. rewrite Pos2Z.inj_mul, !Z2Pos.id by nia. ring.
Qed.

Example ratio_example :
  ratio_add 20 8 16 (Fix 1) (Fix 6) (Fix 1) (Fix 3) = RRat (Fix 1) (Fix 2)
  /\ ratio_normalize 20 8 16 (Big 1 [0; 1]) (Big (-1) [FIXMAX + 1]) = RInt (Fix (-4))
  /\ ratio_compare 16 (Fix (-496101541188620237)) (Fix 1) (Fix 2551577519108570916) (Fix 7) = Some (-1).
Proof. vm_compute. repeat split; reflexivity. Qed.
