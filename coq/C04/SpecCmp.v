(** C04 SPEC, comparisons between real numbers of which any may be a flonum (round 3).
    A real operand is an exact rational n/d (d > 0) or a binary64 given by its bits; a finite double
    DENOTES the exact dyadic rational m * 2^e (SpecFloat.b64_decode), so the mathematically defined
    result of [=], [<], [>], [<=], [>=] is the order of the rationals, extended by -inf < q < +inf;
    any comparison with a NaN is false.   Executable (the oracle of the outer stream `cmpx:`).
    NO proofs in this file (they are in ProofsCmp.v). *)
From Coq Require Import ZArith List Bool.
From ChibiV Require Import C04.Spec C04.SpecFloat.
Import ListNotations.
Local Open Scope Z_scope.

Inductive ext := EFin (n d : Z) | EInf (neg : bool) | ENan.

(** the value denoted by a binary64 bit pattern, 0 <= bits < 2^64 *)
Definition ext_of_bits (bits : Z) : ext :=
  match b64_decode bits with
  | Some (m, e) => let '(n, d) := dy_val m e in EFin n d
  | None => if bits mod 2 ^ 52 =? 0 then EInf (2 ^ 63 <=? bits) else ENan
  end.

(** an operand of the requests: kind 0 = exact n/d, kind 1 = the double with bits [n] *)
Definition ext_of (kind n d : Z) : ext := if kind =? 0 then EFin n d else ext_of_bits n.

(** sign of a - b in {-1, 0, 1}; None when a NaN is involved.  Denominators are positive. *)
Definition ext_cmp (a b : ext) : option Z :=
  match a, b with
  | ENan, _ | _, ENan => None
  | EInf s, EInf t => Some (if eqb s t then 0 else if s then -1 else 1)
  | EInf s, EFin _ _ => Some (if s then -1 else 1)
  | EFin _ _, EInf t => Some (if t then 1 else -1)
  | EFin n d, EFin n' d' => Some (Z.sgn (n * d' - n' * d))
  end.

(** op: 0 [=]  1 [<]  2 [>]  3 [<=]  4 [>=] *)
Definition cmp_holds (op : nat) (c : option Z) : bool :=
  match c with
  | None => false
  | Some s => match op with
              | 0%nat => s =? 0 | 1%nat => s <? 0 | 2%nat => 0 <? s | 3%nat => s <=? 0 | _ => 0 <=? s
              end
  end.

Definition spec_cmpx2 (op : nat) (ka na da kb nb db : Z) : res :=
  Bool (cmp_holds op (ext_cmp (ext_of ka na da) (ext_of kb nb db))).

Definition b2z (b : bool) : Z := if b then 1 else 0.
Definition all_ops : list nat := [0; 1; 2; 3; 4]%nat.

(** sign of a - b, Undefined with a NaN *)
Definition spec_cmpx_sgn (ka na da kb nb db : Z) : res :=
  match ext_cmp (ext_of ka na da) (ext_of kb nb db) with Some s => Val [s] | None => Undefined end.

(** the ten answers (= a b) (< a b) (> a b) (<= a b) (>= a b) (= b a) ... (>= b a) as 0 / 1 *)
Definition spec_cmpx_all (ka na da kb nb db : Z) : res :=
  let a := ext_of ka na da in let b := ext_of kb nb db in
  Val (map (fun op => b2z (cmp_holds op (ext_cmp a b))) all_ops ++
       map (fun op => b2z (cmp_holds op (ext_cmp b a))) all_ops).

(** (op a b c) = (and (op a b) (op b c)), for the five operators *)
Definition spec_cmpx3_all (ka na da kb nb db kc nc dc : Z) : res :=
  let a := ext_of ka na da in let b := ext_of kb nb db in let c := ext_of kc nc dc in
  Val (map (fun op => b2z (cmp_holds op (ext_cmp a b) && cmp_holds op (ext_cmp b c))) all_ops).

(** the exact value of (max a b) (op 0) / (min a b) (op 1) for finite operands, in lowest terms;
    the first operand when they are equal.  Undefined with inf / nan. *)
Definition spec_maxmin (op : nat) (ka na da kb nb db : Z) : res :=
  match ext_of ka na da, ext_of kb nb db with
  | EFin n d, EFin n' d' =>
      let s := Z.sgn (n * d' - n' * d) in
      let first := match op with 0%nat => 0 <=? s | _ => s <=? 0 end in
      let '(p, q) := if first then qnorm n d else qnorm n' d' in Val [p; q]
  | _, _ => Undefined
  end.
