(** Totality of the generic quotient / remainder (they call quot_rem once) *)
From ChibiV Require Import Common.Words C04.Model C04.Model2 C04.Model3 C04.Proofs C04.ProofsFx C04.ProofsMul
  C04.ProofsDiv C04.ProofsQuot C04.ProofsMulTerm C04.ProofsDivTerm.
From Coq Require Import ZifyBool.
Local Open Scope Z_scope.

Lemma qr_total x y : wf_big x -> wf_big y -> bval y <> 0 ->
  exists fuel mf q r, qr_quot (quot_rem fuel mf x y) = NV q /\ qr_rem (quot_rem fuel mf x y) = NV r.
Proof.
  intros Hx Hy Hnz. destruct (quot_rem_total x y Hx Hy Hnz) as (fuel & mf & q & r & H & _).
  exists fuel, mf, (normalize q), (normalize r). rewrite H. split; reflexivity.
Qed.

Theorem num_quotient_total a b : wf_num a -> wf_num b -> nval b <> 0 ->
  exists qf mf r, num_quotient qf mf a b = NV r /\ nval r = Z.quot (nval a) (nval b) /\ wf_num r.
Proof.
  intros Ha Hb Hnz.
  assert (H : exists qf mf r, num_quotient qf mf a b = NV r).
  { unfold num_quotient. destruct (is_one b); [exists 0%nat, 0%nat, a; reflexivity|].
    destruct a as [x|sa da], b as [y|sb db]; cbn [wf_num nval] in *.
    - destruct (Z.eqb_spec y 0); [contradiction|].
      destruct ((x <? 0) && (y <? 0) && (wrap_fix (Z.quot x y) <? 0)).
      + destruct (fixnum_to_bignum_spec x (fits_abs_lt_B x Ha)) as [Wx Vx].
        destruct (fixnum_to_bignum_spec y (fits_abs_lt_B y Hb)) as [Wy Vy].
        destruct (qr_total _ _ Wx Wy ltac:(rewrite Vy; exact Hnz)) as (f & m & q & r & Hq & _). exists f, m, q. exact Hq.
      + exists 0%nat, 0%nat. eexists. reflexivity.
    - destruct (fixnum_to_bignum_spec x (fits_abs_lt_B x Ha)) as [Wx Vx].
      destruct (qr_total _ (sb, db) Wx Hb Hnz) as (f & m & q & r & Hq & _). exists f, m, q. exact Hq.
    - destruct (fixnum_to_bignum_spec y (fits_abs_lt_B y Hb)) as [Wy Vy].
      destruct (qr_total (sa, da) _ Ha Wy ltac:(rewrite Vy; exact Hnz)) as (f & m & q & r & Hq & _). exists f, m, q. exact Hq.
    - destruct (qr_total (sa, da) (sb, db) Ha Hb Hnz) as (f & m & q & r & Hq & _). exists f, m, q. exact Hq. }
  destruct H as (qf & mf & r & H). exists qf, mf, r. split; [exact H|].
  destruct (num_quotient_spec qf mf a b r Ha Hb H) as (_ & V & W). tauto.
Qed.

Theorem num_remainder_total a b : wf_num a -> wf_num b -> nval b <> 0 ->
  exists qf mf r, num_remainder qf mf a b = NV r /\ nval r = Z.rem (nval a) (nval b) /\ wf_num r.
Proof.
  intros Ha Hb Hnz.
  assert (H : exists qf mf r, num_remainder qf mf a b = NV r).
  { unfold num_remainder. destruct (is_one b); [exists 0%nat, 0%nat, (Fix 0); reflexivity|].
    destruct a as [x|sa da], b as [y|sb db]; cbn [wf_num nval] in *.
    - destruct (Z.eqb_spec y 0); [contradiction|]. exists 0%nat, 0%nat. eexists. reflexivity.
    - destruct (fixnum_to_bignum_spec x (fits_abs_lt_B x Ha)) as [Wx Vx].
      destruct (qr_total _ (sb, db) Wx Hb Hnz) as (f & m & q & r & _ & Hr). exists f, m, r. exact Hr.
    - rewrite (fxrem_spec sa da y Ha (fits_abs_lt_B y Hb)).
      destruct (Z.eqb_spec y 0); [contradiction|]. exists 0%nat, 0%nat. eexists. reflexivity.
    - destruct (qr_total (sa, da) (sb, db) Ha Hb Hnz) as (f & m & q & r & _ & Hr). exists f, m, r. exact Hr. }
  destruct H as (qf & mf & r & H). exists qf, mf, r. split; [exact H|].
  destruct (num_remainder_spec qf mf a b r Ha Hb H) as (_ & V & W). tauto.
Qed.
