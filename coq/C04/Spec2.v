(** C04 SPEC, second part (round 2): exact complex numbers = Gaussian rationals Q[i], and positional
    notation of exact rationals.  Executable; extracted as the oracle of the outer correspondence and
    used as the right-hand side of the theorems of ProofsComplex.v / ProofsRadixQ.v.  NO proofs here. *)
From Coq Require Import ZArith List Bool.
From ChibiV Require Import C04.Spec.
Import ListNotations.
Local Open Scope Z_scope.

(** a fraction n/d, not necessarily reduced; d = 0 marks a division by zero *)
Definition fr := (Z * Z)%type.
Definition fadd (x y : fr) : fr := (fst x * snd y + fst y * snd x, snd x * snd y).
Definition fsub (x y : fr) : fr := (fst x * snd y - fst y * snd x, snd x * snd y).
Definition fmul (x y : fr) : fr := (fst x * fst y, snd x * snd y).
Definition fdiv (x y : fr) : fr := (fst x * snd y, snd x * fst y).
Definition feq (x y : fr) : bool := fst x * snd y =? fst y * snd x.

(** a Gaussian rational re + im*i *)
Definition gq := (fr * fr)%type.
Definition gadd (x y : gq) : gq := (fadd (fst x) (fst y), fadd (snd x) (snd y)).
Definition gsub (x y : gq) : gq := (fsub (fst x) (fst y), fsub (snd x) (snd y)).
Definition gmul (x y : gq) : gq :=
  (fsub (fmul (fst x) (fst y)) (fmul (snd x) (snd y)), fadd (fmul (fst x) (snd y)) (fmul (snd x) (fst y))).
(** (a+bi)/(c+di) = ((ac+bd) + (bc-ad)i) / (c^2+d^2) *)
Definition gdiv (x y : gq) : gq :=
  let n2 := fadd (fmul (fst y) (fst y)) (fmul (snd y) (snd y)) in
  (fdiv (fadd (fmul (fst x) (fst y)) (fmul (snd x) (snd y))) n2,
   fdiv (fsub (fmul (snd x) (fst y)) (fmul (fst x) (snd y))) n2).

(** result: both parts in lowest terms with positive denominators: [re_n; re_d; im_n; im_d] *)
Definition gqres (z : gq) : res :=
  if (snd (fst z) =? 0) || (snd (snd z) =? 0) then DivZero
  else let '(a, b) := qnorm (fst (fst z)) (snd (fst z)) in
       let '(c, d) := qnorm (fst (snd z)) (snd (snd z)) in Val [a; b; c; d].

(** operands (a1/b1 + a2/b2 i) and (c1/d1 + c2/d2 i), all denominators non-zero *)
Definition specc2 (op : nat) (a1 b1 a2 b2 c1 d1 c2 d2 : Z) : res :=
  let x : gq := ((a1, b1), (a2, b2)) in
  let y : gq := ((c1, d1), (c2, d2)) in
  match op with
  | 0%nat => gqres (gadd x y)
  | 1%nat => gqres (gsub x y)
  | 2%nat => gqres (gmul x y)
  | 3%nat => gqres (gdiv x y)
  | 4%nat => Bool (feq (fst x) (fst y) && feq (snd x) (snd y))
  | _ => Undefined
  end.

(** the value of an exact rational literal n/d *)
Definition spec_q (n d : Z) : res := qres n d.

(** number->string of an exact rational in radix r: sign, digits of |numerator|, and for a
    non-integer the marker -1 (the '/') followed by the digits of the denominator *)
Definition spec_radix_q (r n d : Z) : res :=
  if orb (r <? 2) (r >? 36) then Undefined
  else if d =? 0 then DivZero
  else let '(a, b) := qnorm n d in
       Val ((if a <? 0 then -1 else 1) :: to_radix r a ++ (if b =? 1 then [] else (-1) :: to_radix r b)).

(** number->string of an exact complex number re + im i in radix r: the text of re, then the text of
    im with its sign ('+' written for a non-negative imaginary part), then 'i'; the marker -2 separates
    the two parts *)
Definition spec_radix_c (r n1 d1 n2 d2 : Z) : res :=
  match spec_radix_q r n1 d1, spec_radix_q r n2 d2 with
  | Val l1, Val l2 => Val (l1 ++ (-2) :: l2)
  | DivZero, _ | _, DivZero => DivZero
  | _, _ => Undefined
  end.

(** (expt z e) for an exact complex or rational base and an exact integer exponent: repeated product,
    and the reciprocal for a negative exponent (DivZero for a zero base) *)
Definition gnorm (z : gq) : gq := (qnorm (fst (fst z)) (snd (fst z)), qnorm (fst (snd z)) (snd (snd z))).
(** every partial product is reduced to lowest terms (same values; keeps the oracle's numbers small) *)
Fixpoint gpow (x : gq) (n : nat) : gq :=
  match n with O => ((1, 1), (0, 1)) | S k => gnorm (gmul x (gpow x k)) end.
Definition specc_expt (a1 b1 a2 b2 e : Z) : res :=
  let x : gq := ((a1, b1), (a2, b2)) in
  if 0 <=? e then gqres (gpow x (Z.to_nat e))
  else gqres (gdiv ((1, 1), (0, 1)) (gpow x (Z.to_nat (- e)))).
