(** Termination (fuel sufficiency) where it is cheap: the digit loop of sexp_write_bignum needs at
    most one round per bit of the number.  (quot_rem, Karatsuba and Newton: open.) *)
From ChibiV Require Import Common.Words C04.Model C04.Model2 C04.Model3 C04.Proofs C04.ProofsFx C04.ProofsRadix.
From Coq Require Import ZifyBool.
Local Open Scope Z_scope.

Lemma zerop_false_val a : words a -> zerop a = false -> 0 < val a.
Proof.
  intros Hw Hz. pose proof (val_nonneg a Hw). destruct (Z.eq_dec (val a) 0) as [E|]; [|lia]. exfalso.
  apply (val_zero_iff a Hw) in E. assert (zerop a = true); [|congruence].
  unfold zerop. apply forallb_forall. intros x Hx. rewrite Forall_forall in E. apply Z.eqb_eq. apply E. exact Hx.
Qed.

Lemma write_loop_terminates : forall fuel b base acc,
  words b -> b <> [] -> 2 <= base < B -> val b < 2 ^ Z.of_nat fuel ->
  write_loop fuel b base acc <> None.
Proof.
  induction fuel as [|f IH]; intros b base acc Hb Hn Hbase Hv; cbn [write_loop].
  - destruct (zerop b) eqn:Hz; [discriminate|]. pose proof (zerop_false_val b Hb Hz). cbn in Hv. lia.
  - destruct (zerop b) eqn:Hz; [discriminate|].
    destruct (fxdiv b base 0) as [q r] eqn:E.
    apply fxdiv_spec in E; [|assumption|assumption|lia]. destruct E as (Hval & Hr & Hq & Hl).
    apply IH; [exact Hq|intros ->; destruct b; [congruence|cbn in Hl; lia]|exact Hbase|].
    rewrite Nat2Z.inj_succ, Z.pow_succ_r in Hv by lia. pose proof (val_nonneg q Hq). nia.
Qed.

Theorem write_bignum_terminates fuel a base : words a -> a <> [] -> 2 <= base < B ->
  val a < 2 ^ Z.of_nat fuel -> write_bignum_digits fuel a base <> None.
Proof.
  intros Ha Hn Hb Hv. unfold write_bignum_digits.
  pose proof (write_loop_terminates fuel a base [] Ha Hn Hb Hv) as H.
  destruct (write_loop fuel a base []) as [[|d l]|]; [discriminate|discriminate|congruence].
Qed.
