(** Euclid's loop of sexp_ratio_normalize terminates (|den| strictly decreases; each remainder
    terminates by quot_rem_terminates).  Needs monotonicity of the fuelled functions in their fuels. *)
From ChibiV Require Import Common.Words C04.Model C04.Model2 C04.Model3 C04.Model4 C04.Model5
  C04.Proofs C04.ProofsFx C04.ProofsMul C04.ProofsDiv C04.ProofsQuot C04.ProofsSqrt C04.ProofsRatio
  C04.ProofsMulTerm C04.ProofsDivTerm C04.ProofsDivTerm2.
From Coq Require Import ZifyBool.
Local Open Scope Z_scope.

Lemma qr_loop_fuel_S : forall f mf alen0 a1 b1 blen q sign r,
  qr_loop f mf alen0 a1 b1 blen q sign = Some r -> qr_loop (S f) mf alen0 a1 b1 blen q sign = Some r.
Proof.
  induction f as [|f IH]; intros mf alen0 a1 b1 blen q sign r H.
  - cbn [qr_loop] in *. destruct (compare_abs (snd a1) b1 >=? 0); [discriminate|exact H].
  - cbn [qr_loop] in H. change (qr_loop (S (S f)) mf alen0 a1 b1 blen q sign) with
      (if compare_abs (snd a1) b1 >=? 0 then
         let alen := hi (snd a1) in
         let '(d, off) := qr_guess (snd a1) b1 alen blen in
         let dhi := (d / B) mod B in
         let dlo := d mod B in
         let x0 := setnth (repeat 0 alen0) off dhi in
         let x := if (0 <? off)%nat then setnth x0 (off - 1) dlo else x0 in
         match bignum_mul mf (1, b1) (1, x) with
         | None => None
         | Some y =>
             let '(a1', q') :=
               if sign <? 0 then (bignum_add a1 y, num_sub q (Big 1 x))
               else (bignum_sub a1 y, num_add q (Big 1 x)) in
             let sign' := if negb (fst a1' =? sign) then - sign else sign in
             let a1'' := if negb (fst a1' =? sign) then (- sign, snd a1') else a1' in
             qr_loop (S f) mf alen0 a1'' b1 blen q' sign'
         end
       else Some (a1, q, sign)).
    destruct (compare_abs (snd a1) b1 >=? 0); [|exact H]. cbv zeta in *.
    destruct (qr_guess (snd a1) b1 (hi (snd a1)) blen) as [d off].
    destruct (bignum_mul mf _ _) as [y|]; [|discriminate].
    destruct (if sign <? 0 then _ else _) as [a2 q2]. apply IH. exact H.
Qed.

Lemma qr_loop_fuel_le : forall g f mf alen0 a1 b1 blen q sign r, (f <= g)%nat ->
  qr_loop f mf alen0 a1 b1 blen q sign = Some r -> qr_loop g mf alen0 a1 b1 blen q sign = Some r.
Proof.
  induction g as [|g IH]; intros f mf alen0 a1 b1 blen q sign r Hle H.
  - assert (f = 0%nat) as -> by lia. exact H.
  - destruct (Nat.eq_dec f (S g)) as [->|]; [exact H|]. apply qr_loop_fuel_S. apply (IH f); [lia|exact H].
Qed.

Lemma quot_rem_mono f f' m m' x y q r : (f <= f')%nat -> (m <= m')%nat ->
  quot_rem f m x y = QR q r -> quot_rem f' m' x y = QR q r.
Proof.
  intros Hf Hm H. destruct x as [sa a], y as [sb b]. unfold quot_rem in *.
  destruct ((hi b =? 1)%nat && (wd b 0 =? 0)); [exact H|].
  destruct (hi b =? 1)%nat; [exact H|].
  destruct (qr_loop f m (length a) (1, a) b (hi b) (Fix 0) 1) as [res|] eqn:E; [|discriminate].
  rewrite (qr_loop_fuel_le f' f m' _ _ _ _ _ _ res Hf (qr_loop_mf_mono f m m' _ _ _ _ _ _ res Hm E)). exact H.
Qed.

Lemma qr_rem_mono f f' m m' x y r : (f <= f')%nat -> (m <= m')%nat ->
  qr_rem (quot_rem f m x y) = NV r -> qr_rem (quot_rem f' m' x y) = NV r.
Proof.
  intros Hf Hm H. destruct (quot_rem f m x y) as [q0 r0| |] eqn:E; cbn [qr_rem] in H; try discriminate.
  rewrite (quot_rem_mono f f' m m' x y q0 r0 Hf Hm E). exact H.
Qed.

Lemma num_remainder_mono f f' m m' a b r : (f <= f')%nat -> (m <= m')%nat ->
  num_remainder f m a b = NV r -> num_remainder f' m' a b = NV r.
Proof.
  intros Hf Hm H. unfold num_remainder in *. destruct (is_one b); [exact H|].
  destruct a as [x|sa da], b as [y|sb db]; try exact H; apply (qr_rem_mono f f' m m'); assumption.
Qed.

Lemma num_remainder_canon qf mf a b r : wf_num a -> wf_num b -> num_remainder qf mf a b = NV r -> canon r.
Proof.
  intros Ha Hb H. pose proof (num_remainder_spec qf mf a b r Ha Hb H) as (_ & _ & Wr).
  unfold num_remainder in H. destruct (is_one b). { apply NV_inj in H. subst r. apply canon_fix. reflexivity. }
  destruct a as [x|sa da], b as [y|sb db]; cbn [wf_num] in *.
  - destruct (y =? 0); [discriminate|]. apply NV_inj in H. subst r. apply canon_fix. exact Wr.
  - destruct (fixnum_to_bignum_spec x (fits_abs_lt_B x Ha)) as [Wx _].
    apply qr_rem_spec in H; [|assumption|assumption]. tauto.
  - destruct (fxrem (sa, da) y); [|discriminate]. apply NV_inj in H. subst r. apply canon_fix. exact Wr.
  - apply qr_rem_spec in H; [|assumption|assumption]. tauto.
Qed.

Lemma gcd_loop_mono : forall fuel qf qf' mf mf' x y g, (qf <= qf')%nat -> (mf <= mf')%nat ->
  gcd_loop fuel qf mf x y = Some (Some g) -> gcd_loop fuel qf' mf' x y = Some (Some g).
Proof.
  induction fuel as [|f IH]; intros qf qf' mf mf' x y g Hq Hm H; cbn [gcd_loop] in *.
  - exact H.
  - destruct (is_zero y); [exact H|].
    destruct (num_remainder qf mf x y) as [tmp| |] eqn:E; try discriminate.
    rewrite (num_remainder_mono qf qf' mf mf' x y tmp Hq Hm E). apply (IH qf qf' mf mf'); assumption.
Qed.

Lemma is_zero_canon y : canon y -> is_zero y = false -> nval y <> 0.
Proof. intros Cy Hz E. apply (canon_zero y Cy) in E. subst y. discriminate. Qed.

Theorem gcd_loop_total : forall n x y, wf_num x -> wf_num y -> canon y -> Z.abs (nval y) < Z.of_nat n ->
  exists fuel qf mf g, gcd_loop fuel qf mf x y = Some (Some g).
Proof.
  induction n as [|n IH]; intros x y Hx Hy Cy Hn; [lia|].
  destruct (is_zero y) eqn:Hz.
  - exists 0%nat, 0%nat, 0%nat, x. cbn [gcd_loop]. rewrite Hz. reflexivity.
  - pose proof (is_zero_canon y Cy Hz) as Hnz.
    destruct (num_remainder_total x y Hx Hy Hnz) as (qf1 & mf1 & tmp & E & V & W).
    pose proof (num_remainder_canon qf1 mf1 x y tmp Hx Hy E) as Ct.
    pose proof (Z.rem_bound_abs (nval x) (nval y) Hnz) as Hb.
    destruct (IH y tmp Hy W Ct ltac:(rewrite V; lia)) as (fuel & qf & mf & g & Hg).
    exists (S fuel), (Nat.max qf qf1), (Nat.max mf mf1), g. cbn [gcd_loop]. rewrite Hz.
    rewrite (num_remainder_mono qf1 (Nat.max qf qf1) mf1 (Nat.max mf mf1) x y tmp ltac:(lia) ltac:(lia) E).
    apply (gcd_loop_mono fuel qf (Nat.max qf qf1) mf (Nat.max mf mf1)); [lia|lia|exact Hg].
Qed.

Lemma qr_quot_mono f f' m m' x y r : (f <= f')%nat -> (m <= m')%nat ->
  qr_quot (quot_rem f m x y) = NV r -> qr_quot (quot_rem f' m' x y) = NV r.
Proof.
  intros Hf Hm H. destruct (quot_rem f m x y) as [q0 r0| |] eqn:E; cbn [qr_quot] in H; try discriminate.
  rewrite (quot_rem_mono f f' m m' x y q0 r0 Hf Hm E). exact H.
Qed.

Lemma num_quotient_mono f f' m m' a b r : (f <= f')%nat -> (m <= m')%nat ->
  num_quotient f m a b = NV r -> num_quotient f' m' a b = NV r.
Proof.
  intros Hf Hm H. unfold num_quotient in *. destruct (is_one b); [exact H|].
  destruct a as [x|sa da], b as [y|sb db]; try (apply (qr_quot_mono f f' m m'); assumption).
  destruct (y =? 0); [exact H|].
  destruct ((x <? 0) && (y <? 0) && (wrap_fix (Z.quot x y) <? 0)); [|exact H].
  apply (qr_quot_mono f f' m m'); assumption.
Qed.

Lemma num_mul_neg1_some mf v : exists r, num_mul mf v (Fix (-1)) = Some r.
Proof.
  destruct v as [x|s d]; unfold num_mul.
  - destruct (fits_fix (x * -1)); [eexists; reflexivity|]. destruct (fixnum_to_bignum x). eexists. reflexivity.
  - eexists. reflexivity.
Qed.

(** sexp_ratio_normalize always returns an integer or a ratio (for a non-zero denominator) *)
Theorem ratio_normalize_total n d : wf_num n -> wf_num d -> canon d -> nval d <> 0 ->
  exists fuel qf mf, (exists v, ratio_normalize fuel qf mf n d = RInt v)
                     \/ (exists n' d', ratio_normalize fuel qf mf n d = RRat n' d').
Proof.
  intros Hn Hd Cd Hd0.
  destruct (is_zero d) eqn:Zd. { apply is_zero_spec in Zd. subst d. cbn [nval] in Hd0. lia. }
  destruct (is_zero n) eqn:Zn.
  { exists 0%nat, 0%nat, 0%nat. left. exists (Fix 0). unfold ratio_normalize. rewrite Zd, Zn. reflexivity. }
  destruct (gcd_loop_total (S (Z.to_nat (Z.abs (nval d)))) n d Hn Hd Cd ltac:(lia)) as (fuel & qf0 & mf0 & g & Eg).
  pose proof (gcd_loop_spec fuel qf0 mf0 n d g Hn Hd Eg) as [Wg Hg].
  assert (Hg0 : nval g <> 0).
  { intros E. rewrite E in Hg. cbn in Hg. apply Z.gcd_eq_0_r in Hg. contradiction. }
  destruct (num_quotient_total d g Hd Wg Hg0) as (qf1 & mf1 & d1 & Ed & _ & _).
  destruct (num_quotient_total n g Hn Wg Hg0) as (qf2 & mf2 & n1 & En & _ & _).
  set (QF := Nat.max qf0 (Nat.max qf1 qf2)). set (MF := Nat.max mf0 (Nat.max mf1 mf2)).
  exists fuel, QF, MF. unfold ratio_normalize. rewrite Zd, Zn.
  rewrite (gcd_loop_mono fuel qf0 QF mf0 MF n d g ltac:(unfold QF; lia) ltac:(unfold MF; lia) Eg).
  rewrite (num_quotient_mono qf1 QF mf1 MF d g d1 ltac:(unfold QF; lia) ltac:(unfold MF; lia) Ed).
  rewrite (num_quotient_mono qf2 QF mf2 MF n g n1 ltac:(unfold QF; lia) ltac:(unfold MF; lia) En).
  destruct (is_neg d1).
  - destruct (num_mul_neg1_some MF n1) as (n2 & E2). destruct (num_mul_neg1_some MF d1) as (d2 & E3).
    rewrite E2, E3. destruct (is_one (normalize d2)); [left|right]; eexists; try eexists; reflexivity.
  - destruct (is_one (normalize d1)); [left|right]; eexists; try eexists; reflexivity.
Qed.
