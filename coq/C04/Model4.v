(** C04 model, fourth part: sexp_compare on fixnum|bignum (bignum.c:1862-1927, with the F-C04-4
    repair of FIX_FIX) and the Newton loop of sexp_bignum_sqrt (bignum.c:751-764).  NO proofs here. *)
From ChibiV Require Export Common.Words C04.Model C04.Model2 C04.Model3.
Local Open Scope Z_scope.

(** sexp_bignum_compare (bignum.c:188-193) *)
Definition bignum_compare (x y : big) : Z :=
  let '(sa, a) := x in let '(sb, b) := y in
  if negb (sa =? sb) then sa
  else let c := compare_abs a b in if sa <? 0 then - c else c.

(** sexp_compare; the result is a fixnum of which only the sign is used by every caller.
    FIX_FIX (repaired, fixes/C04-compare-fixnum-difference-overflow.patch): -1 / 0 / 1.
    FIX_BIG second arm (a one-word bignum below 2^62, i.e. not normalised): the C subtracts data[0]
    without looking at the sign of b and reboxes (wraps); kept as is. *)
Definition fix_big_compare (x : Z) (sb : Z) (db : list Z) : Z :=
  if (1 <? hi db)%nat || (wd db 0 >? FIXMAX) then (if sb <? 0 then 1 else -1)
  else wrap_fix (x - wd db 0).

Definition num_compare (a b : num) : Z :=
  match a, b with
  | Fix x, Fix y => (if x >? y then 1 else 0) - (if x <? y then 1 else 0)
  | Fix x, Big sb db => fix_big_compare x sb db
  | Big sa da, Fix y => wrap_fix (- fix_big_compare y sa da)     (* at > bt: compare(b, a), sexp_negate *)
  | Big sa da, Big sb db => bignum_compare (sa, da) (sb, db)
  end.

(** Babylonian loop of sexp_bignum_sqrt.  [a] is the (positive) bignum argument, [res] the current
    estimate; the first estimate comes from a flonum square root and is a parameter here.
    Results of the generic operations are options (fuel of quot_rem / Karatsuba, zero divisor). *)
Inductive sres := SV (root rem : num) | SFuel | SDivZero.

Definition nv (r : nres) (k : num -> sres) : sres :=
  match r with NV v => k v | NDivZero => SDivZero | NFuel => SFuel end.
Definition ov (r : option num) (k : num -> sres) : sres :=
  match r with Some v => k v | None => SFuel end.

Definition is_neg (x : num) : bool := match x with Fix z => z <? 0 | Big s _ => s <? 0 end.

Fixpoint sqrt_loop (fuel qf mf : nat) (a res : num) {struct fuel} : sres :=
  match fuel with
  | O => SFuel
  | S f =>
      let adjust :=
        nv (num_quotient qf mf a res) (fun tmp =>
        let res1 := num_add res tmp in
        nv (num_quotient qf mf res1 (Fix 2)) (fun res2 => sqrt_loop f qf mf a res2)) in
      ov (num_mul mf res res) (fun sq =>
      let rem := num_sub a sq in
      if is_neg rem then adjust
      else
        let tmp := num_sub rem (Fix 1) in
        nv (num_quotient qf mf tmp (Fix 2)) (fun tmp2 =>
        if num_compare tmp2 res <? 0 then SV (normalize res) (normalize rem) else adjust))
  end.
