(** C04: an EXPLICIT fuel for Karatsuba multiplication (Model2.bignum_mul, sexp_bignum_mul
    bignum.c:530-567), instead of the mere existence proved in ProofsMulTerm.v.
    Measure: N v = ceil (log2 v).  Every operand of every recursive call (the low part, the high
    part, and the sum of both) of an operand v = v1 * B^k + v0 with v1 >= 1 satisfies
    2 (u - 1) <= v - 1, hence N u + 1 <= N v: the recursion depth is at most
    N |a| + N |b| + 2 (one extra step for the swap alen < blen), i.e. at most
    64 * (length a + length b) + 3.
    NOT proved: the tighter fuel 2 * (length a + length b) + 16 that ocaml/C04_driver.ml uses
    (it needs a word-level argument: for blen in {2,3} the lengths do not shrink at every step,
    only the top word does). *)
From ChibiV Require Import Common.Words C04.Model C04.Model2 C04.Proofs C04.ProofsFx C04.ProofsMul C04.ProofsMulTerm.
From Coq Require Import ZifyBool.
Local Open Scope Z_scope.

Definition N (v : Z) : Z := Z.log2_up v.

Lemma N_nonneg v : 0 <= N v.
Proof. apply Z.log2_up_nonneg. Qed.

Lemma N_halve u v : 0 <= u -> 2 <= v -> 2 * (u - 1) <= v - 1 -> N u + 1 <= N v.
Proof.
  intros Hu Hv H. unfold N.
  destruct (Z_le_gt_dec u 1) as [L|G].
  - assert (E : Z.log2_up u = 0).
    { destruct (Z.eq_dec u 1) as [->|Hne]; [reflexivity|]. apply Z.log2_up_nonpos. lia. }
    rewrite E. assert (0 < Z.log2_up v) by (apply Z.log2_up_pos; lia). lia.
  - rewrite (Z.log2_up_eqn u) by lia. rewrite (Z.log2_up_eqn v) by lia.
    assert (L2 : Z.log2 (2 * Z.pred u) <= Z.log2 (Z.pred v)) by (apply Z.log2_le_mono; lia).
    rewrite Z.log2_double in L2 by lia. lia.
Qed.

Lemma N_bound l : words l -> N (val l) <= 64 * Z.of_nat (length l).
Proof.
  intros Hl. unfold N. pose proof (val_bound l Hl) as Hb.
  assert (E : B ^ Z.of_nat (length l) = 2 ^ (64 * Z.of_nat (length l))).
  { rewrite B_eq. rewrite <- Z.pow_mul_r by lia. reflexivity. }
  rewrite E in Hb.
  eapply Z.le_trans; [apply Z.log2_up_le_mono; apply Z.lt_le_incl; exact Hb|].
  rewrite Z.log2_up_pow2 by lia. lia.
Qed.

Lemma split_halves v1 v0 Y : 1 <= v1 -> 0 <= v0 < Y -> 2 <= Y ->
  2 <= v1 * Y + v0 /\ 2 * (v1 + v0 - 1) <= v1 * Y + v0 - 1 /\
  2 * (v0 - 1) <= v1 * Y + v0 - 1 /\ 2 * (v1 - 1) <= v1 * Y + v0 - 1.
Proof. intros. repeat split; nia. Qed.

(** the three numbers made of an operand (low part, high part, their sum) all lose one unit of N *)
Lemma split_N a k : words a -> a <> [] -> (1 <= k < hi a)%nat ->
  let v0 := bval (split_lo a k) in let v1 := bval (split_hi a k) in
  0 <= v0 /\ 0 <= v1 /\
  N v0 + 1 <= N (val a) /\ N v1 + 1 <= N (val a) /\ N (v1 + v0) + 1 <= N (val a).
Proof.
  intros Ha Hna Hk. cbv zeta.
  destruct (split_spec a k Ha Hna Hk) as (W0 & W1 & Hv).
  assert (N0 : 0 <= bval (split_lo a k)).
  { unfold split_lo, bval. cbn [fst snd]. rewrite Z.mul_1_l. apply val_nonneg. apply W0. }
  assert (N1 : 0 <= bval (split_hi a k)).
  { unfold split_hi, bval. cbn [fst snd]. rewrite Z.mul_1_l. apply val_nonneg. apply W1. }
  assert (U0 : bval (split_lo a k) < B ^ Z.of_nat k).
  { unfold split_lo, bval. cbn [fst snd]. rewrite Z.mul_1_l.
    pose proof (val_bound (firstn k a) (words_firstn k a Ha)) as Hb.
    eapply Z.lt_le_trans; [exact Hb|]. apply Z.pow_le_mono_r; [reflexivity|]. rewrite firstn_length. lia. }
  pose proof (val_ge_pow_hi a Ha ltac:(lia)) as Hge.
  assert (Hp : B ^ Z.of_nat k <= B ^ Z.of_nat (hi a - 1)) by (apply Z.pow_le_mono_r; [reflexivity|lia]).
  assert (Hp2 : 2 <= B ^ Z.of_nat k).
  { assert (H : B ^ 1 <= B ^ Z.of_nat k) by (apply Z.pow_le_mono_r; [reflexivity|lia]).
    rewrite Z.pow_1_r in H. unfold B in H at 1. lia. }
  set (v0 := bval (split_lo a k)) in *. set (v1 := bval (split_hi a k)) in *. set (P := B ^ Z.of_nat k) in *.
  assert (V1 : 1 <= v1) by nia.
  destruct (split_halves v1 v0 P V1 (conj N0 U0) Hp2) as (G2 & Gs & G0 & G1).
  replace (val a) with (v1 * P + v0) by lia.
  repeat split; try assumption; apply N_halve; try assumption; lia.
Qed.

Definition msr2 (x y : big) : Z :=
  N (val (snd x)) + N (val (snd y)) + (if (hi (snd x) <? hi (snd y))%nat then 1 else 0) + 2.

Lemma karatsuba_fuel_aux : forall n x y, wf_big x -> wf_big y -> msr2 x y <= Z.of_nat n ->
  exists r, bignum_mul n x y = Some r.
Proof.
  induction n as [|n IH]; intros x y Hx Hy Hm.
  - exfalso. unfold msr2 in Hm. pose proof (N_nonneg (val (snd x))). pose proof (N_nonneg (val (snd y))).
    destruct (hi (snd x) <? hi (snd y))%nat; lia.
  - destruct x as [sa a], y as [sb b].
    pose proof Hx as (Hsa & Ha & Hna). pose proof Hy as (Hsb & Hb & Hnb). cbn [fst snd] in *.
    unfold msr2 in Hm. cbn [fst snd] in Hm.
    destruct (Nat.ltb_spec (hi a) (hi b)) as [Hlt|Hge].
    + destruct (IH (sb, b) (sa, a) Hy Hx) as (r & Hf).
      { unfold msr2. cbn [fst snd]. destruct (Nat.ltb_spec (hi b) (hi a)); lia. }
      exists r. rewrite bignum_mul_S. cbv zeta.
      destruct (Nat.ltb_spec (hi a) (hi b)); [exact Hf|lia].
    + destruct (Nat.eqb_spec (hi b) 1) as [Hb1|Hb1].
      * exists (sa * sb, fxmul a (nth 0 b 0) 0). rewrite bignum_mul_S. cbv zeta.
        destruct (Nat.ltb_spec (hi a) (hi b)); [lia|]. rewrite Hb1. reflexivity.
      * pose proof (hi_ge1 b) as Hhb.
        set (k := (hi b / 2)%nat) in *.
        assert (Hk : (1 <= k < hi b)%nat).
        { unfold k. split; [apply Nat.div_le_lower_bound; lia|apply Nat.div_lt; lia]. }
        destruct (split_spec a k Ha Hna ltac:(lia)) as (Wa0 & Wa1 & _).
        destruct (split_spec b k Hb Hnb ltac:(lia)) as (Wb0 & Wb1 & _).
        pose proof (split_N a k Ha Hna ltac:(lia)) as Sa. cbv zeta in Sa.
        destruct Sa as (Na0 & Na1 & Ha0 & Ha1 & Hat).
        pose proof (split_N b k Hb Hnb ltac:(lia)) as Sb. cbv zeta in Sb.
        destruct Sb as (Nb0 & Nb1 & Hb0 & Hb1' & Hbt).
        destruct (bignum_add_spec _ _ Wa1 Wa0) as [Vt0 Wt0].
        destruct (bignum_add_spec _ _ Wb1 Wb0) as [Vt1 Wt1].
        assert (Hval : forall z, wf_big z -> 0 <= bval z -> val (snd z) = bval z)
          by (intros; apply val_snd_nonneg; assumption).
        assert (M : forall u v, wf_big u -> wf_big v -> 0 <= bval u -> 0 <= bval v ->
                    N (bval u) + N (bval v) + 2 <= N (val a) + N (val b) -> msr2 u v <= Z.of_nat n).
        { intros u v Wu Wv Nu Nv Hs. unfold msr2. rewrite (Hval u Wu Nu), (Hval v Wv Nv).
          destruct (hi (snd u) <? hi (snd v))%nat; lia. }
        destruct (IH _ _ Wt1 Wt0) as (r1 & E1); [apply M; try assumption; try lia; rewrite Vt1, Vt0; lia|].
        destruct (IH _ _ Wa0 Wb0) as (r0 & E0); [apply M; try assumption; lia|].
        destruct (IH _ _ Wa1 Wb1) as (r2 & E2); [apply M; try assumption; lia|].
        eexists. rewrite bignum_mul_S. cbv zeta.
        destruct (Nat.ltb_spec (hi a) (hi b)); [lia|].
        destruct (Nat.eqb_spec (hi b) 1); [contradiction|].
        fold k. rewrite E1, E0, E2. reflexivity.
Qed.

(** An explicit fuel, linear in the operand lengths, always suffices — and the result is the product. *)
Theorem mul_karatsuba_fuel_bound x y : wf_big x -> wf_big y ->
  exists r, bignum_mul (64 * (length (snd x) + length (snd y)) + 3) x y = Some r
            /\ bval r = bval x * bval y /\ wf_big r.
Proof.
  intros Hx Hy.
  destruct (karatsuba_fuel_aux (64 * (length (snd x) + length (snd y)) + 3) x y Hx Hy) as (r & H).
  { unfold msr2. pose proof (N_bound _ (proj1 (proj2 Hx))). pose proof (N_bound _ (proj1 (proj2 Hy))).
    destruct (hi (snd x) <? hi (snd y))%nat; lia. }
  exists r. split; [exact H|]. apply (bignum_mul_spec _ x y r Hx Hy H).
Qed.

(** the sharper, value-dependent form: ceil(log2 |a|) + ceil(log2 |b|) + 3 *)
Theorem mul_karatsuba_fuel_log x y : wf_big x -> wf_big y ->
  exists r, bignum_mul (Z.to_nat (Z.log2_up (val (snd x)) + Z.log2_up (val (snd y)) + 3)) x y = Some r.
Proof.
  intros Hx Hy. apply karatsuba_fuel_aux; try assumption.
  unfold msr2, N. pose proof (Z.log2_up_nonneg (val (snd x))). pose proof (Z.log2_up_nonneg (val (snd y))).
  destruct (hi (snd x) <? hi (snd y))%nat; lia.
Qed.

(** any larger fuel works as well (mul_fuel_le), e.g. whatever a driver chooses above the bound *)
Corollary mul_karatsuba_fuel_enough x y f : wf_big x -> wf_big y ->
  (64 * (length (snd x) + length (snd y)) + 3 <= f)%nat ->
  exists r, bignum_mul f x y = Some r /\ bval r = bval x * bval y.
Proof.
  intros Hx Hy Hf. destruct (mul_karatsuba_fuel_bound x y Hx Hy) as (r & H & V & _).
  exists r. split; [|exact V]. eapply mul_fuel_le; eauto.
Qed.

(** non-trivial instance: a 3-word by 2-word product with carries, inside the bound *)
Example mul_karatsuba_fuel_bound_example :
  bignum_mul (64 * (3 + 2) + 3) (1, [18446744073709551615; 18446744073709551615; 7]) (-1, [18446744073709551615; 3])
  = Some (-1, [1; 18446744073709551612; 18446744073709551607; 31; 0]).
Proof. vm_compute. reflexivity. Qed.

From ChibiV Require Import C04.ProofsDiv C04.ProofsDivTerm.
(** ** quot_rem: the fuel handed to Karatsuba inside the loop is explicit
    (the multiplications are b1 * x with length x = length a); only the NUMBER OF ROUNDS stays
    existential (each round strictly decreases |a1|, no rate is proved). *)
Definition qr_mf (lb la : nat) : nat := 64 * (lb + la) + 3.

Lemma qr_loop_total_mf : forall n alen0 a1 b1 q sign,
  wf_big a1 -> words b1 -> b1 <> [] -> (2 <= hi b1)%nat -> wf_num q ->
  (sign = 1 \/ sign = -1) -> fst a1 = sign -> (hi (snd a1) <= alen0)%nat ->
  val (snd a1) < Z.of_nat n ->
  exists fuel res, qr_loop fuel (qr_mf (length b1) alen0) alen0 a1 b1 (hi b1) q sign = Some res.
Proof.
  induction n as [|n IH]; intros alen0 a1 b1 q sign Ha1 Hb1 Hnb Hbl Hq Hs Hfs Hlen Hn.
  - pose proof (val_nonneg _ (proj1 (proj2 Ha1))). lia.
  - destruct (compare_abs (snd a1) b1 >=? 0) eqn:Hc.
    2:{ exists 0%nat, (a1, q, sign). cbn [qr_loop]. rewrite Hc. reflexivity. }
    pose proof Ha1 as (Hsa & Hwa & Hna).
    destruct (compare_abs_spec (snd a1) b1 Hwa Hb1 Hna Hnb) as [_ Hlt].
    assert (Hle : val b1 <= val (snd a1)) by lia.
    destruct (qr_guess (snd a1) b1 (hi (snd a1)) (hi b1)) as [d off] eqn:Eg.
    destruct (qr_guess_good (snd a1) b1 d off Hwa Hb1 Hbl Hle Eg) as (Hoff & Hd & Hy).
    pose proof (guess_val alen0 off d ltac:(lia) ltac:(lia)) as Vx. cbv zeta in Vx.
    set (x0 := setnth (repeat 0 alen0) off ((d / B) mod B)) in *.
    set (x := setnth x0 (off - 1) (d mod B)) in *.
    assert (Hlx : length x = alen0).
    { unfold x, x0. rewrite !setnth_length, repeat_length. reflexivity. }
    assert (Hx : wf_big (1, x)).
    { assert (words x0 /\ length x0 = alen0) as [Hx0 Hl0].
      { unfold x0. split; [apply words_setnth; [apply words_repeat0|apply isword_modB]|].
        rewrite setnth_length, repeat_length. reflexivity. }
      split; [cbn [fst]; auto|]. cbn [snd].
      split; [unfold x; apply words_setnth; [exact Hx0|apply isword_modB]|].
      apply nonempty_length. unfold x. rewrite setnth_length. lia. }
    assert (Hb1w : wf_big (1, b1)) by (split; [cbn [fst]; auto|split; assumption]).
    destruct (mul_karatsuba_fuel_bound (1, b1) (1, x) Hb1w Hx) as (y & Ey & Vy & Wy).
    cbn [snd] in Ey. rewrite Hlx in Ey.
    change (64 * (length b1 + alen0) + 3)%nat with (qr_mf (length b1) alen0) in Ey.
    unfold bval at 2 3 in Vy. cbn [fst snd] in Vy. rewrite !Z.mul_1_l, Vx in Vy.
    set (A := val (snd a1)) in *.
    assert (Ha1v : bval a1 = sign * A) by (unfold bval, A; rewrite Hfs; reflexivity).
    set (step := if sign <? 0 then (bignum_add a1 y, num_sub q (Big 1 x))
                 else (bignum_sub a1 y, num_add q (Big 1 x))).
    assert (Hstep : wf_big (fst step) /\ wf_num (snd step) /\ Z.abs (bval (fst step)) < A).
    { unfold step. destruct (Z.ltb_spec sign 0); cbn [fst snd].
      - destruct (bignum_add_spec a1 y Ha1 Wy) as [V W].
        destruct (num_sub_spec q (Big 1 x) Hq Hx) as (_ & _ & W2); [cbn [is_fix]; congruence|].
        split; [exact W|]. split; [exact W2|]. rewrite V, Vy, Ha1v. assert (sign = -1) as -> by lia. lia.
      - destruct (bignum_sub_spec a1 y Ha1 Wy) as [V W].
        destruct (num_add_spec q (Big 1 x) Hq Hx) as (_ & _ & W2).
        split; [exact W|]. split; [exact W2|]. rewrite V, Vy, Ha1v. assert (sign = 1) as -> by lia. lia. }
    destruct step as [a2 q2] eqn:Estep. cbn [fst snd] in Hstep. destruct Hstep as (Wa2 & Wq2 & Habs).
    set (a3 := if negb (fst a2 =? sign) then (- sign, snd a2) else a2).
    set (sign' := if negb (fst a2 =? sign) then - sign else sign).
    assert (Wa3 : wf_big a3 /\ fst a3 = sign' /\ snd a3 = snd a2 /\ (sign' = 1 \/ sign' = -1)).
    { unfold a3, sign'. destruct (Z.eqb_spec (fst a2) sign); cbn [negb].
      - split; [exact Wa2|]. split; [assumption|]. split; [reflexivity|exact Hs].
      - destruct Wa2 as (H1 & H2 & H3). split; [split; [cbn [fst]; lia|split; assumption]|].
        split; [reflexivity|]. split; [reflexivity|lia]. }
    destruct Wa3 as (Wa3 & Hfs3 & Hsnd3 & Hs3).
    assert (Hv3 : val (snd a3) < A) by (rewrite Hsnd3, (wf_big_val_abs a2 Wa2); exact Habs).
    destruct (IH alen0 a3 b1 q2 sign' Wa3 Hb1 Hnb Hbl Wq2 Hs3 Hfs3) as (fuel & res & Hr).
    { pose proof (hi_le_of_val (snd a1) (snd a3) Hwa ltac:(apply Wa3) ltac:(fold A; lia)). lia. }
    { lia. }
    exists (S fuel), res. cbn [qr_loop]. rewrite Hc, Eg.
    assert (Hoff0 : (0 <? off)%nat = true) by (apply Nat.ltb_lt; lia). rewrite Hoff0.
    fold x0. fold x. rewrite Ey.
    fold step. rewrite Estep. cbv beta iota. fold a3 sign'. exact Hr.
Qed.

(** total correctness of quot_rem with the Karatsuba fuel 64 * (length b + length a) + 3 *)
Theorem quot_rem_total_mf x y : wf_big x -> wf_big y -> bval y <> 0 ->
  exists fuel q r, quot_rem fuel (qr_mf (length (snd y)) (length (snd x))) x y = QR q r
    /\ nval q = Z.quot (bval x) (bval y) /\ nval r = Z.rem (bval x) (bval y) /\ wf_num q /\ wf_num r.
Proof.
  intros Hx Hy Hnz.
  assert (H : exists fuel q r, quot_rem fuel (qr_mf (length (snd y)) (length (snd x))) x y = QR q r).
  { destruct x as [sa a], y as [sb b].
    pose proof Hx as (Hsa & Ha & Hna). pose proof Hy as (Hsb & Hb & Hnb). cbn [fst snd] in *.
    unfold quot_rem. destruct (Nat.eqb_spec (hi b) 1) as [Hb1|Hb1]; cbn [andb].
    - pose proof (hi1_val b Hb Hnb Hb1) as Hvb. unfold wd. rewrite <- Hvb.
      destruct (Z.eqb_spec (val b) 0) as [Hz|_].
      + exfalso. apply Hnz. unfold bval. cbn [fst snd]. rewrite Hz. ring.
      + exists 0%nat. destruct (fxdiv a (val b) 0) as [qs r0]. eexists _, _. reflexivity.
    - pose proof (hi_ge1 b).
      destruct (qr_loop_total_mf (S (Z.to_nat (val a))) (length a) (1, a) b (Fix 0) 1) as (fuel & res & Hr);
        try assumption; try reflexivity; try (cbn [fst snd]; auto).
      + split; [cbn [fst]; auto|split; assumption].
      + lia.
      + apply hi_le_length. exact Hna.
      + pose proof (val_nonneg a Ha). lia.
      + exists fuel. rewrite Hr. destruct res as [[a1 q1] sign].
        destruct ((sign <? 0) && negb _); eexists _, _; reflexivity. }
  destruct H as (fuel & q & r & H). exists fuel, q, r. split; [exact H|].
  destruct (quot_rem_spec fuel _ x y q r Hx Hy H) as (_ & H1 & H2 & H3 & H4). tauto.
Qed.
