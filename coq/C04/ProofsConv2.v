(** C04 proofs, exact -> inexact, second part: sexp_bignum_to_double's Horner loop is exact on a bignum
    whose value is representable (every rounding in it is the identity). *)
From ChibiV Require Import C04.Model8 C04.Proofs C04.ProofsFx C04.ProofsMul C04.ProofsDiv C04.ProofsQuot C04.ProofsRatio
  C04.ProofsRatioTerm C04.ProofsConv.
From Coq Require Import ZifyBool.
Local Open Scope Z_scope.
Ltac Zify.zify_post_hook ::= Z.div_mod_to_equations.

(** ** arithmetic: non-negative integers of the form m * 2^c, m < 2^53, c <= 971 *)
Definition nrepr (a : Z) : Prop := exists m c, 0 <= m < 2 ^ 53 /\ 0 <= c <= 971 /\ a = m * 2 ^ c.

(** a prefix (high part) of a representable integer, shifted back by no more than it was cut, is representable *)
Lemma nrepr_shift V s t : nrepr V -> 0 <= t <= s -> t <= 971 -> nrepr (V / 2 ^ s * 2 ^ t).
Proof.
  intros (m & c & Hm & Hc & ->) Hts Ht. destruct (Z_le_gt_dec s c) as [Hsc|Hsc].
  - exists m, (c - s + t). split; [lia|]. split; [lia|].
    replace (2 ^ c) with (2 ^ (c - s) * 2 ^ s) by (rewrite <- Z.pow_add_r by lia; f_equal; lia).
    rewrite Z.mul_assoc, Z.div_mul by (apply Z.pow_nonzero; lia). rewrite Z.pow_add_r by lia. ring.
  - assert (HP : 0 < 2 ^ (s - c)) by (apply Z.pow_pos_nonneg; lia).
    assert (HC : 0 < 2 ^ c) by (apply Z.pow_pos_nonneg; lia).
    replace (2 ^ s) with (2 ^ c * 2 ^ (s - c)) by (rewrite <- Z.pow_add_r by lia; f_equal; lia).
    rewrite (Z.mul_comm m), Z.div_mul_cancel_l by lia.
    exists (m / 2 ^ (s - c)), t. split; [|split; [lia|reflexivity]].
    split; [apply Z.div_pos; lia|]. apply Z.le_lt_trans with m; [|lia].
    apply Z.div_le_upper_bound; [lia|]. nia.
Qed.

(** a 64-bit word of it is representable: its set bits span at most 53 positions *)
Lemma nrepr_mod_B a : nrepr a -> nrepr (a mod B).
Proof.
  intros (m & c & Hm & Hc & ->). rewrite B_eq. destruct (Z_le_gt_dec 64 c) as [Hc64|Hc64].
  - replace (2 ^ c) with (2 ^ (c - 64) * 2 ^ 64) by (rewrite <- Z.pow_add_r by lia; f_equal; lia).
    rewrite Z.mul_assoc, Z.mod_mul by (apply Z.pow_nonzero; lia).
    exists 0, 0. split; [split; [lia|reflexivity]|]. split; [lia|reflexivity].
  - assert (HQ : 0 < 2 ^ (64 - c)) by (apply Z.pow_pos_nonneg; lia).
    assert (HC : 0 < 2 ^ c) by (apply Z.pow_pos_nonneg; lia).
    replace (2 ^ 64) with (2 ^ c * 2 ^ (64 - c)) by (rewrite <- Z.pow_add_r by lia; f_equal; lia).
    rewrite (Z.mul_comm m), Z.mul_mod_distr_l by lia.
    exists (m mod 2 ^ (64 - c)), c. split; [|split; [lia|ring]].
    pose proof (Z.mod_pos_bound m (2 ^ (64 - c)) HQ). pose proof (Z.mod_le m (2 ^ (64 - c)) ltac:(lia) HQ). lia.
Qed.

(** ** link with [repr] *)
Definition irq (z : Z) : Prop := repr (inject_Z z).

Lemma nrepr_irq a : nrepr a -> irq a.
Proof.
  intros (m & c & Hm & Hc & ->). exists m, c. split; [lia|]. split; [lia|].
  unfold dyq, Qpow2. destruct (Z.leb_spec 0 c); [|lia]. rewrite inject_Z_mult. reflexivity.
Qed.

Lemma irq_opp a : irq a -> irq (- a).
Proof.
  intros (m & e & Hm & He & Hx). exists (- m), e. split; [lia|]. split; [lia|].
  unfold dyq in *. rewrite !inject_Z_opp, Hx. ring.
Qed.

Lemma irq_nrepr z : irq z -> nrepr (Z.abs z).
Proof.
  intros (m & e & Hm & He & Hx). unfold dyq, Qpow2 in Hx. destruct (Z.leb_spec 0 e) as [H0|H0].
  - rewrite <- inject_Z_mult in Hx. unfold Qeq, inject_Z in Hx. cbn [Qnum Qden] in Hx.
    exists (Z.abs m), e. split; [lia|]. split; [lia|].
    assert (z = m * 2 ^ e) as -> by lia. rewrite Z.abs_mul. f_equal. apply Z.abs_eq. apply Z.pow_nonneg. lia.
  - assert (HP : 0 < 2 ^ (- e)) by (apply Z.pow_pos_nonneg; lia).
    unfold Qeq, Qmult, inject_Z in Hx. cbn [Qnum Qden] in Hx.
    rewrite Pos.mul_1_l, Z2Pos.id in Hx by exact HP.
    exists (Z.abs z), 0. split; [|split; [lia|rewrite Z.pow_0_r; ring]].
    split; [lia|]. assert (Z.abs z * 2 ^ (- e) = Z.abs m) by (rewrite <- (Z.abs_eq (2 ^ (- e))), <- Z.abs_mul by lia; f_equal; lia).
    nia.
Qed.

(** ** the Horner loop.  [hgood l]: everything the loop rounds, on the little-endian words l, is representable *)
Fixpoint hgood (l : list Z) : Prop :=
  match l with
  | [] => True
  | x :: r => hgood r /\ irq (val r * B) /\ irq x /\ irq (x + B * val r)
  end.

Definition hstep (rnd : Q -> option Q) (w : Z) (acc : fl) : fl :=
  fl_add rnd (fl_mul rnd acc (Some (inject_Z B))) (fl_of_Z rnd w).

Lemma horner_exact rnd : rnd_exact rnd -> forall l, hgood l ->
  exists y, fold_right (hstep rnd) (Some 0%Q) l = Some y /\ (y == inject_Z (val l))%Q.
Proof.
  intros Hr. induction l as [|x r IH]; intros Hg.
  - exists 0%Q. split; reflexivity.
  - cbn [hgood] in Hg. destruct Hg as (Hg & H1 & H2 & H3).
    destruct (IH Hg) as (y & Ey & Hy). cbn [fold_right val]. rewrite Ey.
    unfold hstep, fl_mul, fl_add, fl_op, fl_of_Z.
    assert (E1 : (inject_Z (val r * B) == y * inject_Z B)%Q) by (rewrite inject_Z_mult, Hy; reflexivity).
    destruct (Hr _ (repr_eq _ _ E1 H1)) as (y1 & -> & Hy1).
    destruct (Hr _ H2) as (y2 & -> & Hy2).
    assert (E3 : (inject_Z (x + B * val r) == y1 + y2)%Q).
    { rewrite Hy1, Hy2, <- E1, <- inject_Z_plus. apply inject_Z_injective. ring. }
    destruct (Hr _ (repr_eq _ _ E3 H3)) as (y3 & -> & Hy3).
    exists y3. split; [reflexivity|]. rewrite Hy3, <- E3. reflexivity.
Qed.

(** the words of a representable integer are good: l holds V / 2^s *)
Lemma hgood_of : forall l, words l -> forall V s, nrepr V -> 0 <= s -> val l = V / 2 ^ s -> hgood l.
Proof.
  induction 1 as [|x r Hx Hw IH]; intros V s HV Hs Hl; [exact I|].
  cbn [hgood]. cbn [val] in Hl. pose proof (val_nonneg r Hw) as Hr0. unfold isword in Hx. pose proof B_pos.
  assert (HP : 0 < 2 ^ s) by (apply Z.pow_pos_nonneg; lia).
  assert (Hr : val r = V / 2 ^ (s + 64)).
  { rewrite Z.pow_add_r, <- Z.div_div, <- Hl, <- B_eq by lia.
    apply (Z.div_unique _ _ _ x); [lia|ring]. }
  assert (Hxm : x = (V / 2 ^ s) mod B).
  { rewrite <- Hl. apply (Z.mod_unique _ _ (val r)); [lia|ring]. }
  assert (Hpre : nrepr (V / 2 ^ s)).
  { pose proof (nrepr_shift V s 0 HV ltac:(lia) ltac:(lia)) as Hn. rewrite Z.pow_0_r, Z.mul_1_r in Hn. exact Hn. }
  split; [apply (IH V (s + 64)); [exact HV|lia|exact Hr]|].
  split; [|split].
  - apply nrepr_irq. rewrite Hr, B_eq. apply nrepr_shift; [exact HV|lia|lia].
  - apply nrepr_irq. rewrite Hxm. apply nrepr_mod_B. exact Hpre.
  - apply nrepr_irq. rewrite Hl. exact Hpre.
Qed.

(** sexp_bignum_to_double is exact on a representable bignum, for any rounding that is the identity on
    representable values *)
Theorem bignum_to_double_exact rnd x : rnd_exact rnd -> wf_big x -> repr (inject_Z (bval x)) ->
  exists y, bignum_to_double rnd x = Some y /\ (y == inject_Z (bval x))%Q.
Proof.
  intros Hr (Hs & Hw & Hn) Hx. destruct x as [s d]. cbn [fst snd] in *. unfold bval in *. cbn [fst snd] in *.
  assert (HV : nrepr (val d)).
  { apply irq_nrepr in Hx. pose proof (val_nonneg d Hw). destruct Hs as [-> | ->].
    - rewrite Z.mul_1_l, Z.abs_eq in Hx by lia. exact Hx.
    - replace (Z.abs (-1 * val d)) with (val d) in Hx by lia. exact Hx. }
  unfold bignum_to_double. cbn [fst snd].
  assert (Hg : hgood (firstn (hi d) d)).
  { apply (hgood_of _ (words_firstn _ _ Hw) (val d) 0 HV ltac:(lia)).
    rewrite firstn_strip_val by exact Hw. rewrite Z.pow_0_r, Z.div_1_r. reflexivity. }
  destruct (horner_exact rnd Hr _ Hg) as (y & Ey & Hy). rewrite firstn_strip_val in Hy by exact Hw.
  rewrite <- (rev_involutive (firstn (hi d) d)) in Ey. rewrite fold_left_rev_right in Ey.
  unfold hstep in Ey.
  match goal with |- exists y0, fl_mul rnd ?a _ = _ /\ _ => replace a with (Some y) end.
  unfold fl_mul, fl_op, fl_of_Z.
  assert (Hsr : irq s). { destruct Hs as [-> | ->]; [|apply (irq_opp 1)]; apply nrepr_irq; exists 1, 0; lia. }
  destruct (Hr _ Hsr) as (ys & -> & Hys).
  assert (E : (inject_Z (s * val d) == y * ys)%Q) by (rewrite Hy, Hys, <- inject_Z_mult; apply inject_Z_injective; ring).
  destruct (Hr _ (repr_eq _ _ E Hx)) as (y' & -> & Hy').
  exists y'. split; [reflexivity|]. rewrite Hy', <- E. reflexivity.
Qed.

Example bignum_to_double_exact_ex :
  wf_big (-1, [0; 0; 0; 0; 0; 0; 0; 0; 0; 0; 0; 0; 0; 0; 0; 18446744073709549568; 0])
  /\ nrepr ((2 ^ 53 - 1) * 2 ^ 971)
  /\ bignum_to_double (fun q => Some q) (-1, [0; 0; 0; 0; 0; 0; 0; 0; 0; 0; 0; 0; 0; 0; 0; 18446744073709549568; 0])
     = Some (inject_Z (- ((2 ^ 53 - 1) * 2 ^ 971))).
Proof.
  split; [|split].
  - unfold wf_big. cbn [fst snd]. split; [auto|]. split; [|congruence].
    repeat constructor; unfold isword, B; lia.
  - exists (2 ^ 53 - 1), 971. split; [split; [|reflexivity]; discriminate|]. split; [lia|reflexivity].
  - vm_compute. reflexivity.
Qed.

(** any exact integer (fixnum or bignum) *)
Lemma num_to_double_exact rnd v : rnd_exact rnd -> wf_num v -> repr (inject_Z (nval v)) ->
  exists y, num_to_double rnd v = Some y /\ (y == inject_Z (nval v))%Q.
Proof.
  intros Hr Wv Hv. destruct v as [z|s d]; cbn [num_to_double nval] in *.
  - unfold fl_of_Z. destruct (Hr _ Hv) as (y & -> & Hy). exists y. split; [reflexivity|exact Hy].
  - apply (bignum_to_double_exact rnd (s, d) Hr Wv Hv).
Qed.

Theorem inexact_of_representable_integer rnd qf mf v : rnd_exact rnd -> wf_num v -> repr (inject_Z (nval v)) ->
  exists y, exact_to_inexact rnd qf mf (EInt v) = Some (Some y) /\ (y == inject_Z (nval v))%Q.
Proof.
  intros Hr Wv Hv. destruct (num_to_double_exact rnd v Hr Wv Hv) as (y & Ey & Hy).
  exists y. split; [|exact Hy]. destruct v as [z|s d]; cbn [exact_to_inexact num_to_double] in *; rewrite Ey; reflexivity.
Qed.

(** ratio n/d (fixnum or bignum parts) whose parts and quotient are representable: the plain division is
    exact and the scaled path is not taken *)
Theorem inexact_of_representable_ratio rnd qf mf n d : rnd_exact rnd -> wf_num n -> wf_num d ->
  nval n <> 0 -> nval d <> 0 ->
  repr (inject_Z (nval n)) -> repr (inject_Z (nval d)) -> repr (inject_Z (nval n) / inject_Z (nval d)) ->
  exists y, exact_to_inexact rnd qf mf (ERat n d) = Some (Some y)
            /\ (y == inject_Z (nval n) / inject_Z (nval d))%Q.
Proof.
  intros Hr Wn Wd Hn0 Hd0 Hn Hd Hq.
  destruct (num_to_double_exact rnd n Hr Wn Hn) as (yn & En & Hyn).
  destruct (num_to_double_exact rnd d Hr Wd Hd) as (yd & Ed & Hyd).
  apply (inexact_of_representable_ratio_div rnd qf mf n d yn yd Hr En Hyn Ed Hyd Hn0 Hd0 Hq).
Qed.

Example inexact_of_representable_ratio_ex :
  match exact_to_inexact (fun q => Some q) 8 8 (ERat (Big (-1) [0; 3]) (Big 1 [0; 0; 1])) with
  | Some (Some y) => Qeq_bool y (-3 # 18446744073709551616)
  | _ => false
  end = true.
Proof. vm_compute. reflexivity. Qed.

(** ** the scaled path of sexp_ratio_to_double, denominator 2^j *)
Lemma repr_opp x : repr x -> repr (- x).
Proof.
  intros (m & e & Hm & He & Hx). exists (- m), e. split; [lia|]. split; [lia|].
  unfold dyq in *. rewrite inject_Z_opp, Hx. ring.
Qed.

Lemma Qinv_pos_Z z : 0 < z -> (1 # Z.to_pos z == / inject_Z z)%Q.
Proof. intros Hz. destruct z as [|p|p]; try lia. reflexivity. Qed.

Lemma inject_Z_nz z : z <> 0 -> ~ (inject_Z z == 0)%Q.
Proof. intros Hz E. unfold Qeq in E. cbn in E. lia. Qed.

Lemma scale_words_val k : 0 <= k ->
  wf_big (1, repeat 0 (Z.to_nat (k / 64)) ++ [2 ^ (k mod 64)])
  /\ val (repeat 0 (Z.to_nat (k / 64)) ++ [2 ^ (k mod 64)]) = 2 ^ k.
Proof.
  intros Hk. assert (Hm : 0 <= k mod 64 < 64) by (apply Z.mod_pos_bound; lia).
  assert (Hd : 0 <= k / 64) by (apply Z.div_pos; lia).
  split.
  - unfold wf_big. cbn [fst snd]. split; [auto|]. split.
    + apply words_app; [apply words_repeat0|]. constructor; [|constructor]. unfold isword. rewrite B_eq.
      split; [apply Z.pow_nonneg; lia|apply Z.pow_lt_mono_r; lia].
    + intros E. apply app_eq_nil in E. destruct E as [_ E]. discriminate.
  - rewrite val_app, val_repeat0, repeat_length, Z2Nat.id by lia. cbn [val]. rewrite B_eq.
    rewrite <- Z.pow_mul_r by lia. rewrite Z.mul_0_r, Z.add_0_r, Z.add_0_l, <- Z.pow_add_r by lia.
    f_equal. pose proof (Z.div_mod k 64 ltac:(lia)). lia.
Qed.

Lemma low_word_val qd : words qd -> qd <> [] -> val qd < B -> nth 0 qd 0 = val qd.
Proof.
  intros Hw Hn Hlt. symmetry. apply hi1_val; [assumption|assumption|].
  pose proof (hi_ge1 qd). destruct (Nat.eq_dec (hi qd) 1) as [E|E]; [exact E|].
  pose proof (val_ge_pow_hi qd Hw ltac:(lia)) as Hge.
  assert (B <= B ^ Z.of_nat (hi qd - 1)).
  { rewrite <- (Z.pow_1_r B) at 1. apply Z.pow_le_mono_r; [reflexivity|lia]. }
  lia.
Qed.

(** If the plain division over/underflowed ([Hplain]) the scaled integer division returns n/d exactly,
    whenever it returns (no inherited fuel ran out).  [shift] is what the C code computes from the bit
    lengths; the two facts used about it: the division by 2^j is exact (j <= shift) and the quotient fits
    one word (for d = 2^j: shift - j = 63 - bits |n|). *)
Theorem ratio_to_double_scaled rnd qf mf n d j r :
  rnd_exact rnd -> wf_num n -> wf_num d -> nval n <> 0 -> Z.abs (nval n) < 2 ^ 53 ->
  0 < j -> nval d = 2 ^ j -> is_zero n = false ->
  negb (fl_finite (fl_div rnd (num_to_double rnd n) (num_to_double rnd d)))
    || fl_is_zero (fl_div rnd (num_to_double rnd n) (num_to_double rnd d)) = true ->
  let shift := exact_integer_bits d - exact_integer_bits n + 62 in
  j <= shift -> shift - j <= 971 -> Z.abs (nval n) * 2 ^ (shift - j) < B ->
  repr (inject_Z (nval n) / inject_Z (nval d)) ->
  ratio_to_double rnd qf mf n d = Some r ->
  exists y, r = Some y /\ (y == inject_Z (nval n) / inject_Z (nval d))%Q.
Proof.
  intros Hr Wn Wd Hn0 Hn53 Hj Hd Hz Hplain shift Hsj Hs971 HwB Hq Hret.
  unfold ratio_to_double in Hret. rewrite Hplain, Hz in Hret. cbn [andb negb] in Hret. fold shift in Hret.
  destruct (Z.ltb_spec shift 0) as [?|_]; [lia|]. rewrite (Z.abs_eq shift) in Hret by lia.
  destruct (scale_words_val shift ltac:(lia)) as [Wsc Vsc].
  destruct (normalize_spec 1 _ Wsc) as (Vscn & _ & Wscn). rewrite Vsc, Z.mul_1_l in Vscn.
  set (scale := normalize _) in *.
  destruct (num_mul mf n scale) as [sc|] eqn:Emul; [|discriminate].
  destruct (num_mul_spec mf n scale sc Wn Wscn Emul) as (Vm & _ & Wm). rewrite Vscn in Vm.
  destruct (num_quotient qf mf sc d) as [quot| |] eqn:Eq; try discriminate.
  destruct (num_remainder qf mf sc d) as [rem| |] eqn:Er; try discriminate.
  destruct (num_quotient_spec qf mf sc d quot Wm Wd Eq) as (_ & Vq & Wq).
  destruct (num_remainder_spec qf mf sc d rem Wm Wd Er) as (_ & Vr & _).
  pose proof (num_remainder_canon qf mf sc d rem Wm Wd Er) as Cr.
  assert (HJ : 0 < 2 ^ j) by (apply Z.pow_pos_nonneg; lia).
  assert (Hsplit : 2 ^ shift = 2 ^ (shift - j) * 2 ^ j) by (rewrite <- Z.pow_add_r by lia; f_equal; lia).
  rewrite Vm, Hd, Hsplit, Z.mul_assoc in Vq, Vr.
  rewrite Z.quot_mul in Vq by lia. rewrite Z.rem_mul in Vr by lia.
  apply (canon_zero rem Cr) in Vr. subst rem. cbn [is_zero] in Hret.
  set (W := Z.abs (nval n) * 2 ^ (shift - j)) in *.
  assert (HP : 0 < 2 ^ (shift - j)) by (apply Z.pow_pos_nonneg; lia).
  assert (Hw : match quot with Fix z => Z.abs z | Big _ qd => nth 0 qd 0 end = W).
  { destruct quot as [z|sq qd]; cbn [nval] in Vq.
    - rewrite Vq, Z.abs_mul, (Z.abs_eq (2 ^ (shift - j))) by lia. reflexivity.
    - destruct Wq as (Hsq & Hwq & Hnq). cbn [fst snd] in *. pose proof (val_nonneg qd Hwq).
      assert (val qd = W).
      { subst W. rewrite <- (Z.abs_eq (2 ^ (shift - j))), <- Z.abs_mul, <- Vq by lia. destruct Hsq as [-> | ->]; lia. }
      rewrite low_word_val; [assumption|assumption|assumption|lia]. }
  rewrite Hw in Hret. unfold fl_of_Z in Hret.
  assert (HW : irq W).
  { apply nrepr_irq. exists (Z.abs (nval n)), (shift - j). split; [lia|]. split; [lia|reflexivity]. }
  destruct (Hr _ HW) as (x & Ex & Hx). rewrite Ex in Hret.
  destruct (Z.leb_spec 0 (- shift)) as [?|_]; [lia|].
  assert (Habs : (x * Qpow2 (- shift) == inject_Z (Z.abs (nval n)) / inject_Z (2 ^ j))%Q).
  { unfold Qpow2. destruct (Z.leb_spec 0 (- shift)) as [?|_]; [lia|]. rewrite Z.opp_involutive.
    rewrite Qinv_pos_Z by (apply Z.pow_pos_nonneg; lia). rewrite Hx. subst W. rewrite Hsplit.
    rewrite !inject_Z_mult. field. split; apply inject_Z_nz; lia. }
  assert (Hqa : repr (inject_Z (Z.abs (nval n)) / inject_Z (2 ^ j))).
  { rewrite Hd in Hq. destruct (Z.abs_spec (nval n)) as [[_ ->]|[_ ->]]; [exact Hq|].
    apply repr_opp in Hq.
    assert (E : (- (inject_Z (nval n) / inject_Z (2 ^ j)) == inject_Z (- nval n) / inject_Z (2 ^ j))%Q)
      by (rewrite inject_Z_opp; field; apply inject_Z_nz; lia).
    exact (repr_eq _ _ E Hq). }
  symmetry in Habs. destruct (Hr _ (repr_eq _ _ Habs Hqa)) as (y & Ey & Hy). rewrite Ey in Hret.
  rewrite (is_neg_nz n Wn Hn0) in Hret. rewrite Hd.
  destruct (Z.ltb_spec (nval n) 0) as [Hneg|Hpos].
  - exists (- y)%Q. split; [cbn [fl_neg] in Hret; congruence|]. rewrite Hy, <- Habs.
    rewrite (Z.abs_neq (nval n)) by lia. rewrite inject_Z_opp. field. apply inject_Z_nz; lia.
  - exists y. split; [congruence|]. rewrite Hy, <- Habs. rewrite (Z.abs_eq (nval n)) by lia. reflexivity.
Qed.

(** the premises of ratio_to_double_scaled on 3 / 2^1030 (subnormal), with a rounding that overflows at 2^1024 *)
Definition rnd_ovf (x : Q) : option Q := if Qle_bool (inject_Z (2 ^ 1024)) x || Qle_bool x (inject_Z (- 2 ^ 1024)) then None else Some x.
Example ratio_to_double_scaled_ex :
  let n := Fix 3 in let d := Big 1 (repeat 0 16 ++ [64]) in
  nval d = 2 ^ 1030
  /\ negb (fl_finite (fl_div rnd_ovf (num_to_double rnd_ovf n) (num_to_double rnd_ovf d)))
     || fl_is_zero (fl_div rnd_ovf (num_to_double rnd_ovf n) (num_to_double rnd_ovf d)) = true
  /\ exact_integer_bits d - exact_integer_bits n + 62 = 1091
  /\ match ratio_to_double rnd_ovf 40 40 n d with
     | Some (Some y) => Qeq_bool y (3 # Z.to_pos (2 ^ 1030))
     | _ => false
     end = true.
Proof. vm_compute. repeat split; reflexivity. Qed.
