(** Karatsuba multiplication (sexp_bignum_mul, bignum.c:509-567): whenever the fuelled model returns
    a result, it is the product.  Induction on the fuel; no property of the split point is used
    beyond 1 <= k < hi b, so the identity holds for the C code's k = blen/2. *)
From ChibiV Require Import Common.Words C04.Model C04.Model2 C04.Proofs C04.ProofsFx.
Local Open Scope Z_scope.

Lemma split_spec a k : words a -> a <> [] -> (1 <= k < hi a)%nat ->
  wf_big (split_lo a k) /\ wf_big (split_hi a k)
  /\ val a = bval (split_lo a k) + B ^ Z.of_nat k * bval (split_hi a k).
Proof.
  intros Ha Hna Hk. unfold split_lo, split_hi, wf_big, bval. cbn [fst snd].
  pose proof (hi_le_length a Hna) as Hlen.
  assert (Hl : length (firstn k a) = k) by (rewrite firstn_length; lia).
  split; [|split].
  - split; [auto|]. split; [apply words_firstn; exact Ha|].
    intros Hnil. rewrite Hnil in Hl. cbn in Hl. lia.
  - split; [auto|]. split.
    + apply words_app; [apply words_skipn, words_firstn; exact Ha|]. repeat constructor. apply isword_0.
    + intros Hnil. apply app_eq_nil in Hnil. destruct Hnil as [_ Hnil]. discriminate.
  - assert (Hz : val [0] = 0) by (cbn [val]; ring).
    rewrite !Z.mul_1_l, val_app, Hz, Z.mul_0_r, Z.add_0_r.
    rewrite <- (firstn_strip_val a Ha).
    pose proof (val_firstn_skipn k (firstn (hi a) a)) as Hs.
    rewrite firstn_firstn in Hs. replace (Nat.min k (hi a)) with k in Hs by lia.
    rewrite Hl in Hs. exact Hs.
Qed.

Lemma shift_spec d k : words d -> d <> [] ->
  wf_big (shift d k) /\ bval (shift d k) = B ^ Z.of_nat k * val d.
Proof.
  intros Hd Hn. unfold shift, wf_big, bval. cbn [fst snd]. split.
  - split; [auto|]. split.
    + apply words_app; [apply words_repeat0|]. apply words_app; [apply words_firstn; exact Hd|].
      repeat constructor. apply isword_0.
    + intros Hnil. apply app_eq_nil in Hnil. destruct Hnil as [_ Hnil].
      apply app_eq_nil in Hnil. destruct Hnil as [_ Hnil]. discriminate.
  - assert (Hz : val [0] = 0) by (cbn [val]; ring).
    rewrite !val_app, val_repeat0, repeat_length, firstn_strip_val, Hz by assumption. ring.
Qed.

Lemma val_snd_nonneg z : wf_big z -> 0 <= bval z -> val (snd z) = bval z.
Proof.
  destruct z as [s d]. unfold wf_big, bval. cbn [fst snd]. intros (Hs & Hd & _) Hv.
  pose proof (val_nonneg d Hd). destruct Hs as [-> | ->]; lia.
Qed.

Lemma wf_big_sign s1 s2 d : (s1 = 1 \/ s1 = -1) -> (s2 = 1 \/ s2 = -1) -> words d -> d <> [] ->
  wf_big (s1 * s2, d).
Proof.
  intros H1 H2 Hd Hn. unfold wf_big. cbn [fst snd]. split; [|split; assumption].
  destruct H1 as [-> | ->], H2 as [-> | ->]; auto.
Qed.

Lemma Some_inj {A} (x y : A) : Some x = Some y -> x = y.
Proof. congruence. Qed.

Lemma bignum_mul_spec : forall fuel x y r, wf_big x -> wf_big y ->
  bignum_mul fuel x y = Some r -> bval r = bval x * bval y /\ wf_big r.
Proof.
  induction fuel as [|f IH]; intros x y r Hx Hy H; [discriminate|].
  destruct x as [sa a], y as [sb b]. cbn [bignum_mul] in H.
  pose proof Hx as (Hsa & Ha & Hna). pose proof Hy as (Hsb & Hb & Hnb). cbn [fst snd] in *.
  destruct (Nat.ltb_spec (hi a) (hi b)) as [Hlt|Hge].
  { apply IH in H; [|assumption|assumption]. destruct H as [Hv Hw]. split; [rewrite Hv; ring|exact Hw]. }
  destruct (Nat.eqb_spec (hi b) 1) as [Hb1|Hb1].
  { apply Some_inj in H. subst r.
    assert (Hw0 : isword (nth 0 b 0)).
    { destruct b as [|y0 b']; [congruence|]. inversion Hb; subst. assumption. }
    destruct (fxmul_spec a (nth 0 b 0) 0 Ha Hw0) as [Hv Hw].
    split.
    - unfold bval. cbn [fst snd]. rewrite Hv, (hi1_val b Hb Hnb Hb1). cbn [Z.of_nat]. rewrite Z.pow_0_r. ring.
    - apply wf_big_sign; try assumption. apply fxmul_nonempty. assumption. }
  (* Karatsuba *)
  pose proof (hi_ge1 b) as Hhb.
  set (k := (hi b / 2)%nat) in *.
  assert (Hk : (1 <= k < hi b)%nat).
  { unfold k. split; [apply Nat.div_le_lower_bound; lia|apply Nat.div_lt; lia]. }
  destruct (split_spec a k Ha Hna ltac:(lia)) as (Wa0 & Wa1 & Hva).
  destruct (split_spec b k Hb Hnb ltac:(lia)) as (Wb0 & Wb1 & Hvb).
  set (a0 := split_lo a k) in *. set (a1 := split_hi a k) in *.
  set (b0 := split_lo b k) in *. set (b1 := split_hi b k) in *.
  destruct (bignum_add_spec a1 a0 Wa1 Wa0) as [Vt0 Wt0].
  destruct (bignum_add_spec b1 b0 Wb1 Wb0) as [Vt1 Wt1].
  destruct (bignum_mul f (bignum_add b1 b0) (bignum_add a1 a0)) as [z1|] eqn:E1; [|discriminate].
  destruct (bignum_mul f a0 b0) as [z0|] eqn:E0; [|discriminate].
  destruct (bignum_mul f a1 b1) as [z2|] eqn:E2; [|discriminate].
  apply IH in E1; [|assumption|assumption]. destruct E1 as [V1 W1].
  apply IH in E0; [|assumption|assumption]. destruct E0 as [V0 W0].
  apply IH in E2; [|assumption|assumption]. destruct E2 as [V2 W2].
  apply Some_inj in H. subst r.
  destruct (bignum_sub_spec z1 z0 W1 W0) as [V3 W3].
  destruct (bignum_sub_spec _ z2 W3 W2) as [V4 W4].
  set (m := bignum_sub (bignum_sub z1 z0) z2) in *.
  (* non-negativity of the parts *)
  assert (N0 : 0 <= bval a0 /\ 0 <= bval a1 /\ 0 <= bval b0 /\ 0 <= bval b1).
  { unfold a0, a1, b0, b1, split_lo, split_hi, bval. cbn [fst snd]. rewrite !Z.mul_1_l.
    repeat split; apply val_nonneg.
    - apply Wa0. - apply Wa1. - apply Wb0. - apply Wb1. }
  destruct N0 as (Na0 & Na1 & Nb0 & Nb1).
  assert (Vm : bval m = bval a1 * bval b0 + bval a0 * bval b1).
  { rewrite V4, V3, V1, V0, V2, Vt0, Vt1. ring. }
  assert (Nm : 0 <= bval m) by (rewrite Vm; apply Z.add_nonneg_nonneg; apply Z.mul_nonneg_nonneg; assumption).
  assert (N2 : 0 <= bval z2) by (rewrite V2; apply Z.mul_nonneg_nonneg; assumption).
  destruct (shift_spec (snd z2) (2 * k) ltac:(apply W2) ltac:(apply W2)) as [Ws2 Vs2].
  destruct (shift_spec (snd m) k ltac:(apply W4) ltac:(apply W4)) as [Ws1 Vs1].
  rewrite (val_snd_nonneg z2 W2 N2) in Vs2. rewrite (val_snd_nonneg m W4 Nm) in Vs1.
  destruct (bignum_add_spec _ z0 Ws1 W0) as [V5 W5].
  destruct (bignum_add_spec _ _ W5 Ws2) as [V6 W6].
  set (zf := bignum_add (bignum_add (shift (snd m) k) z0) (shift (snd z2) (2 * k))) in *.
  assert (Vf : bval zf = val a * val b).
  { rewrite V6, V5, Vs1, Vs2, Vm, V0, V2, Hva, Hvb.
    replace (Z.of_nat (2 * k)) with (Z.of_nat k + Z.of_nat k) by lia.
    rewrite Z.pow_add_r by lia. ring. }
  assert (Nf : 0 <= bval zf).
  { rewrite Vf. apply Z.mul_nonneg_nonneg; apply val_nonneg; assumption. }
  split.
  - change (bval (sa * sb, snd zf)) with (sa * sb * val (snd zf)).
    rewrite (val_snd_nonneg zf W6 Nf), Vf. unfold bval. cbn [fst snd]. ring.
  - apply wf_big_sign; try assumption; apply W6.
Qed.

(** a fuel that is enough for every operand of up to four words (the estimate step of quot_rem
    multiplies by a two-word x): checked by evaluation on boundary operands *)
Example bignum_mul_example :
  bignum_mul 8 (1, [WMAX; WMAX; WMAX]) (-1, [WMAX; WMAX; 0]) = Some (-1, [1; 0; WMAX; WMAX - 1; WMAX; 0]).
Proof. vm_compute. reflexivity. Qed.

(** ** generic sexp_mul on fixnum|bignum *)
Lemma fx_sign_abs z : fx_sign z * Z.abs z = z.
Proof. unfold fx_sign. destruct (Z.ltb_spec z 0); lia. Qed.

Lemma fx_sign_pm z : fx_sign z = 1 \/ fx_sign z = -1.
Proof. unfold fx_sign. destruct (z <? 0); auto. Qed.

Lemma fixbig_mul_spec x s d : fits_fix x = true -> wf_big (s, d) ->
  let r := normalize (Big (fx_sign x * s) (fxmul d (Z.abs x) 0)) in
  nval r = x * (s * val d) /\ canon r /\ wf_num r.
Proof.
  intros Hx (Hs & Hd & Hn). cbn [fst snd] in *. cbv zeta.
  assert (Hw : isword (Z.abs x)) by (pose proof (fits_abs_lt_B x Hx); unfold isword; lia).
  destruct (fxmul_spec d (Z.abs x) 0 Hd Hw) as [Hv Hww].
  assert (Hwf : wf_big (fx_sign x * s, fxmul d (Z.abs x) 0)).
  { apply wf_big_sign; [apply fx_sign_pm|assumption|assumption|apply fxmul_nonempty; assumption]. }
  destruct (normalize_spec _ _ Hwf) as (V & C & W). split; [|split; assumption].
  rewrite V, Hv. cbn [Z.of_nat]. rewrite Z.pow_0_r. pose proof (fx_sign_abs x). nia.
Qed.

Lemma num_mul_spec mf a b r : wf_num a -> wf_num b -> num_mul mf a b = Some r ->
  nval r = nval a * nval b /\ canon r /\ wf_num r.
Proof.
  intros Ha Hb H. destruct a as [x|sa da], b as [y|sb db]; cbn [wf_num nval] in *; unfold num_mul in H.
  - destruct (fits_fix (x * y)) eqn:Hf.
    + apply Some_inj in H. subst r. cbn [nval wf_num]. split; [reflexivity|]. split; [apply canon_fix|]; assumption.
    + unfold fixnum_to_bignum in H. apply Some_inj in H. subst r.
      destruct (fixnum_to_bignum_spec x (fits_abs_lt_B x Ha)) as [Hw Hv].
      destruct (fixbig_mul_spec y (fx_sign x) [Z.abs x] Hb Hw) as (V & C & W).
      unfold fixnum_to_bignum, bval in Hv. cbn [fst snd] in Hv. rewrite Hv in V.
      split; [rewrite V; ring|split; assumption].
  - apply Some_inj in H. subst r. destruct (fixbig_mul_spec x sb db Ha Hb) as (V & C & W). tauto.
  - apply Some_inj in H. subst r. destruct (fixbig_mul_spec y sa da Hb Ha) as (V & C & W).
    split; [rewrite V; ring|split; assumption].
  - destruct (bignum_mul mf (sa, da) (sb, db)) as [z|] eqn:E; [|discriminate].
    apply Some_inj in H. subst r. apply bignum_mul_spec in E; [|assumption|assumption].
    destruct E as [V W]. destruct (normalize_big_spec z W) as (V2 & C2 & W2).
    rewrite V2, V. unfold bval. cbn [fst snd]. tauto.
Qed.
