From ChibiV Require Import Common.Words C04.Model.
From Coq Require Import ZifyBool.
Local Open Scope Z_scope.

Ltac Zify.zify_post_hook ::= Z.div_mod_to_equations.

Lemma isword_mod x : isword (x mod B).
Proof. unfold isword. pose proof B_pos. apply Z.mod_pos_bound. lia. Qed.

(** ** add_loop *)
Lemma add_loop_spec : forall a b carry r cf,
  words a -> words b -> (length b <= length a)%nat -> 0 <= carry <= 1 ->
  add_loop a b carry = (r, cf) ->
  val r + cf * B ^ Z.of_nat (length a) = val a + val b + carry
  /\ length r = length a /\ words r /\ 0 <= cf <= 1.
Proof.
  induction a as [|x a IH]; intros b carry r cf Ha Hb Hlen Hc H.
  - destruct b; cbn [length] in Hlen; [|lia]. cbn in H. inversion H; subst.
    cbn. repeat split; try lia. constructor.
  - inversion Ha as [|? ? Hx Ha']; subst.
    destruct b as [|y b].
    + cbn [add_loop] in H. destruct (Z.eqb_spec carry 0) as [->|Hne].
      * inversion H; subst. cbn [val]. repeat split; try lia. exact Ha.
      * destruct (add_loop a [] (if x =? WMAX then 1 else 0)) as [r' cf'] eqn:E.
        inversion H; subst. clear H.
        apply IH in E; [|assumption|constructor|cbn;lia|destruct (x =? WMAX); lia].
        destruct E as (Hv & Hl & Hw & Hcf).
        cbn [val length]. rewrite Nat2Z.inj_succ, Z.pow_succ_r by lia.
        repeat split; [|lia|constructor; [apply isword_mod|exact Hw]|lia|lia].
        cbn [val] in Hv. unfold isword in Hx. unfold WMAX, B in *.
        destruct (Z.eqb_spec x 18446744073709551615); nia.
    + inversion Hb as [|? ? Hy Hb']; subst. cbn [add_loop] in H.
      set (p := (x + y) mod B) in *.
      set (carry' := (if x >? WMAX - y then 1 else 0) + (if p >? WMAX - carry then 1 else 0)) in *.
      destruct (add_loop a b carry') as [r' cf'] eqn:E. inversion H; subst; clear H.
      assert (0 <= carry' <= 1 /\ (p + carry) mod B + B * carry' = x + y + carry) as [Hc' Hstep].
      { unfold carry', p, isword, WMAX, B in *.
        destruct (Z.gtb_spec x (18446744073709551615 - y));
        destruct (Z.gtb_spec ((x + y) mod 18446744073709551616) (18446744073709551615 - carry)); lia. }
      apply IH in E; [|assumption|assumption|cbn [length] in Hlen; lia|exact Hc'].
      destruct E as (Hv & Hl & Hw & Hcf).
      cbn [val length]. rewrite Nat2Z.inj_succ, Z.pow_succ_r by lia.
      repeat split; [|lia|constructor; [apply isword_mod|exact Hw]|lia|lia].
      nia.
Qed.

Lemma firstn_hi_length a : a <> [] -> length (firstn (hi a) a) = hi a.
Proof. intros H. rewrite firstn_length. pose proof (hi_le_length a H). lia. Qed.

Lemma skipn_hi_val a : words a -> val (skipn (hi a) a) = 0.
Proof.
  intros Hw. pose proof (val_firstn_skipn (hi a) a) as H.
  rewrite firstn_strip_val in H by assumption.
  pose proof (val_nonneg _ (words_skipn (hi a) a Hw)).
  assert (0 < B ^ Z.of_nat (length (firstn (hi a) a))) by (apply Z.pow_pos_nonneg; [reflexivity|lia]).
  nia.
Qed.

Lemma add_digits_ord_spec a b :
  words a -> words b -> a <> [] -> b <> [] -> (hi b <= hi a)%nat ->
  val (add_digits_ord a b) = val a + val b /\ words (add_digits_ord a b).
Proof.
  intros Ha Hb Hna Hnb Hh. unfold add_digits_ord.
  destruct (add_loop (firstn (hi a) a) (firstn (hi b) b) 0) as [r cf] eqn:E.
  apply add_loop_spec in E;
    [|apply words_firstn; assumption|apply words_firstn; assumption
     |rewrite !firstn_hi_length by assumption; exact Hh|lia].
  destruct E as (Hv & Hl & Hw & Hcf).
  rewrite !firstn_strip_val in Hv by assumption.
  rewrite firstn_hi_length in * by assumption.
  destruct (Z.eqb_spec cf 0) as [->|Hne].
  - rewrite val_app, Hl, skipn_hi_val by assumption.
    split; [lia|]. apply words_app; [exact Hw|apply words_skipn; exact Ha].
  - assert (cf = 1) as -> by lia. rewrite val_app, Hl. cbn [val].
    split; [lia|]. apply words_app; [exact Hw|]. repeat constructor; unfold B; lia.
Qed.

Lemma add_digits_spec a b :
  words a -> words b -> a <> [] -> b <> [] ->
  val (add_digits a b) = val a + val b /\ words (add_digits a b).
Proof.
  intros Ha Hb Hna Hnb. unfold add_digits.
  destruct (Nat.ltb_spec (hi a) (hi b)).
  - destruct (add_digits_ord_spec b a Hb Ha Hnb Hna ltac:(lia)) as [Hv Hw]. split; [lia|exact Hw].
  - apply add_digits_ord_spec; assumption.
Qed.

Lemma add_loop_length : forall a b carry, length (fst (add_loop a b carry)) = length a.
Proof.
  induction a as [|x a IH]; intros b carry; cbn [add_loop]; [reflexivity|].
  destruct b as [|y b].
  - destruct (carry =? 0); [reflexivity|].
    specialize (IH [] (if x =? WMAX then 1 else 0)).
    destruct (add_loop a [] (if x =? WMAX then 1 else 0)) as [r cf]. cbn [fst length] in *. lia.
  - match goal with |- context [add_loop a b ?c] => specialize (IH b c); destruct (add_loop a b c) as [r cf] end.
    cbn [fst length] in *. lia.
Qed.

Lemma add_digits_ord_nonempty a b : a <> [] -> add_digits_ord a b <> [].
Proof.
  intros Hna. unfold add_digits_ord.
  pose proof (add_loop_length (firstn (hi a) a) (firstn (hi b) b) 0) as Hl.
  destruct (add_loop (firstn (hi a) a) (firstn (hi b) b) 0) as [r cf]. cbn [fst] in Hl.
  rewrite firstn_hi_length in Hl by assumption. pose proof (hi_ge1 a).
  destruct (cf =? 0); intros Hnil; apply app_eq_nil in Hnil; destruct Hnil as [H1 H2]; subst; cbn [length] in *; try lia; congruence.
Qed.

Lemma add_digits_nonempty a b : a <> [] -> b <> [] -> add_digits a b <> [].
Proof.
  intros Hna Hnb. unfold add_digits. destruct (hi a <? hi b)%nat; apply add_digits_ord_nonempty; assumption.
Qed.
