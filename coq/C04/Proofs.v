From ChibiV Require Import Common.Words C04.Model.
From Coq Require Import ZifyBool.
Local Open Scope Z_scope.

Ltac Zify.zify_post_hook ::= Z.div_mod_to_equations.

Lemma isword_mod x : isword (x mod B).
Proof. unfold isword. pose proof B_pos. apply Z.mod_pos_bound. lia. Qed.

(** ** add_loop *)
Lemma add_loop_spec : forall a b carry r cf,
  words a -> words b -> (length b <= length a)%nat -> 0 <= carry <= 1 ->
  add_loop a b carry = (r, cf) ->
  val r + cf * B ^ Z.of_nat (length a) = val a + val b + carry
  /\ length r = length a /\ words r /\ 0 <= cf <= 1.
Proof.
  induction a as [|x a IH]; intros b carry r cf Ha Hb Hlen Hc H.
  - destruct b; cbn [length] in Hlen; [|lia]. cbn in H. inversion H; subst.
    cbn. repeat split; try lia. constructor.
  - inversion Ha as [|? ? Hx Ha']; subst.
    destruct b as [|y b].
    + cbn [add_loop] in H. destruct (Z.eqb_spec carry 0) as [->|Hne].
      * inversion H; subst. cbn [val]. repeat split; try lia. exact Ha.
      * destruct (add_loop a [] (if x =? WMAX then 1 else 0)) as [r' cf'] eqn:E.
        inversion H; subst. clear H.
        apply IH in E; [|assumption|constructor|cbn;lia|destruct (x =? WMAX); lia].
        destruct E as (Hv & Hl & Hw & Hcf).
        cbn [val length]. rewrite Nat2Z.inj_succ, Z.pow_succ_r by lia.
        repeat split; [|lia|constructor; [apply isword_mod|exact Hw]|lia|lia].
        cbn [val] in Hv. unfold isword in Hx. unfold WMAX, B in *.
        destruct (Z.eqb_spec x 18446744073709551615); nia.
    + inversion Hb as [|? ? Hy Hb']; subst. cbn [add_loop] in H.
      set (p := (x + y) mod B) in *.
      set (carry' := (if x >? WMAX - y then 1 else 0) + (if p >? WMAX - carry then 1 else 0)) in *.
      destruct (add_loop a b carry') as [r' cf'] eqn:E. inversion H; subst; clear H.
      assert (0 <= carry' <= 1 /\ (p + carry) mod B + B * carry' = x + y + carry) as [Hc' Hstep].
      { unfold carry', p, isword, WMAX, B in *.
        destruct (Z.gtb_spec x (18446744073709551615 - y));
        destruct (Z.gtb_spec ((x + y) mod 18446744073709551616) (18446744073709551615 - carry)); lia. }
      apply IH in E; [|assumption|assumption|cbn [length] in Hlen; lia|exact Hc'].
      destruct E as (Hv & Hl & Hw & Hcf).
      cbn [val length]. rewrite Nat2Z.inj_succ, Z.pow_succ_r by lia.
      repeat split; [|lia|constructor; [apply isword_mod|exact Hw]|lia|lia].
      nia.
Qed.

Lemma firstn_hi_length a : a <> [] -> length (firstn (hi a) a) = hi a.
Proof. intros H. rewrite firstn_length. pose proof (hi_le_length a H). lia. Qed.

Lemma skipn_hi_val a : words a -> val (skipn (hi a) a) = 0.
Proof.
  intros Hw. pose proof (val_firstn_skipn (hi a) a) as H.
  rewrite firstn_strip_val in H by assumption.
  pose proof (val_nonneg _ (words_skipn (hi a) a Hw)).
  assert (0 < B ^ Z.of_nat (length (firstn (hi a) a))) by (apply Z.pow_pos_nonneg; [reflexivity|lia]).
  nia.
Qed.

Lemma add_digits_ord_spec a b :
  words a -> words b -> a <> [] -> b <> [] -> (hi b <= hi a)%nat ->
  val (add_digits_ord a b) = val a + val b /\ words (add_digits_ord a b).
Proof.
  intros Ha Hb Hna Hnb Hh. unfold add_digits_ord.
  destruct (add_loop (firstn (hi a) a) (firstn (hi b) b) 0) as [r cf] eqn:E.
  apply add_loop_spec in E;
    [|apply words_firstn; assumption|apply words_firstn; assumption
     |rewrite !firstn_hi_length by assumption; exact Hh|lia].
  destruct E as (Hv & Hl & Hw & Hcf).
  rewrite !firstn_strip_val in Hv by assumption.
  rewrite firstn_hi_length in * by assumption.
  destruct (Z.eqb_spec cf 0) as [->|Hne].
  - rewrite val_app, Hl, skipn_hi_val by assumption.
    split; [lia|]. apply words_app; [exact Hw|apply words_skipn; exact Ha].
  - assert (cf = 1) as -> by lia. rewrite val_app, Hl. cbn [val].
    split; [lia|]. apply words_app; [exact Hw|]. repeat constructor; unfold B; lia.
Qed.

Lemma add_digits_spec a b :
  words a -> words b -> a <> [] -> b <> [] ->
  val (add_digits a b) = val a + val b /\ words (add_digits a b).
Proof.
  intros Ha Hb Hna Hnb. unfold add_digits.
  destruct (Nat.ltb_spec (hi a) (hi b)).
  - destruct (add_digits_ord_spec b a Hb Ha Hnb Hna ltac:(lia)) as [Hv Hw]. split; [lia|exact Hw].
  - apply add_digits_ord_spec; assumption.
Qed.

Lemma add_loop_length : forall a b carry, length (fst (add_loop a b carry)) = length a.
Proof.
  induction a as [|x a IH]; intros b carry; cbn [add_loop]; [reflexivity|].
  destruct b as [|y b].
  - destruct (carry =? 0); [reflexivity|].
    specialize (IH [] (if x =? WMAX then 1 else 0)).
    destruct (add_loop a [] (if x =? WMAX then 1 else 0)) as [r cf]. cbn [fst length] in *. lia.
  - match goal with |- context [add_loop a b ?c] => specialize (IH b c); destruct (add_loop a b c) as [r cf] end.
    cbn [fst length] in *. lia.
Qed.

Lemma add_digits_ord_nonempty a b : a <> [] -> add_digits_ord a b <> [].
Proof.
  intros Hna. unfold add_digits_ord.
  pose proof (add_loop_length (firstn (hi a) a) (firstn (hi b) b) 0) as Hl.
  destruct (add_loop (firstn (hi a) a) (firstn (hi b) b) 0) as [r cf]. cbn [fst] in Hl.
  rewrite firstn_hi_length in Hl by assumption. pose proof (hi_ge1 a).
  destruct (cf =? 0); intros Hnil; apply app_eq_nil in Hnil; destruct Hnil as [H1 H2]; subst; cbn [length] in *; try lia; congruence.
Qed.

Lemma add_digits_nonempty a b : a <> [] -> b <> [] -> add_digits a b <> [].
Proof.
  intros Hna Hnb. unfold add_digits. destruct (hi a <? hi b)%nat; apply add_digits_ord_nonempty; assumption.
Qed.

(** ** compare_abs *)
Lemma cmp_le_spec : forall a b, words a -> words b -> length a = length b ->
  (cmp_le a b > 0 <-> val a > val b) /\ (cmp_le a b < 0 <-> val a < val b) /\ -1 <= cmp_le a b <= 1.
Proof.
  induction a as [|x a IH]; intros b Ha Hb Hl; destruct b as [|y b]; cbn [length] in Hl; try lia.
  - cbn. lia.
  - inversion Ha as [|? ? Hx Ha']; subst. inversion Hb as [|? ? Hy Hb']; subst.
    specialize (IH b Ha' Hb' ltac:(lia)). destruct IH as (Hgt & Hlt & Hr).
    cbn [cmp_le val]. unfold isword, B in *.
    destruct (Z.eqb_spec (cmp_le a b) 0) as [Hc|Hc].
    + assert (val a = val b) as Hv by lia. rewrite Hv.
      destruct (Z.gtb_spec x y); [lia|]. destruct (Z.ltb_spec x y); lia.
    + assert (cmp_le a b = 1 \/ cmp_le a b = -1) as [Hc1|Hc1] by lia; rewrite Hc1 in *; lia.
Qed.

Lemma compare_abs_spec a b : words a -> words b -> a <> [] -> b <> [] ->
  (compare_abs a b > 0 <-> val a > val b) /\ (compare_abs a b < 0 <-> val a < val b).
Proof.
  intros Ha Hb Hna Hnb. unfold compare_abs.
  pose proof (val_lt_pow_hi a Ha) as Hua. pose proof (val_lt_pow_hi b Hb) as Hub.
  destruct (Nat.eqb_spec (hi a) (hi b)) as [He|Hne]; cbn [negb].
  - pose proof (cmp_le_spec (firstn (hi a) a) (firstn (hi a) b)
                  (words_firstn _ _ Ha) (words_firstn _ _ Hb)) as H.
    rewrite firstn_hi_length in H by assumption. rewrite He in H at 2.
    rewrite firstn_hi_length in H by assumption. specialize (H He).
    rewrite firstn_strip_val in H by assumption. rewrite He in H.
    rewrite firstn_strip_val in H by assumption. rewrite He. tauto.
  - assert (hi a < hi b \/ hi b < hi a)%nat as [Hlt|Hlt] by lia.
    + pose proof (val_ge_pow_hi b Hb ltac:(pose proof (hi_ge1 a); lia)) as Hl.
      assert (B ^ Z.of_nat (hi a) <= B ^ Z.of_nat (hi b - 1)) by (apply Z.pow_le_mono_r; [reflexivity|lia]).
      lia.
    + pose proof (val_ge_pow_hi a Ha ltac:(pose proof (hi_ge1 b); lia)) as Hl.
      assert (B ^ Z.of_nat (hi b) <= B ^ Z.of_nat (hi a - 1)) by (apply Z.pow_le_mono_r; [reflexivity|lia]).
      lia.
Qed.

(** ** sub_loop *)
Lemma sub_loop_spec : forall a b borrow r bf,
  words a -> words b -> (length b <= length a)%nat -> 0 <= borrow <= 1 ->
  sub_loop a b borrow = (r, bf) ->
  val r - bf * B ^ Z.of_nat (length a) = val a - val b - borrow
  /\ length r = length a /\ words r /\ 0 <= bf <= 1.
Proof.
  induction a as [|x a IH]; intros b borrow r bf Ha Hb Hlen Hc H.
  - destruct b; cbn [length] in Hlen; [|lia]. cbn in H. inversion H; subst.
    cbn. repeat split; try lia. constructor.
  - inversion Ha as [|? ? Hx Ha']; subst.
    destruct b as [|y b].
    + cbn [sub_loop] in H. destruct (Z.eqb_spec borrow 0) as [->|Hne].
      * inversion H; subst. cbn [val]. repeat split; try lia. exact Ha.
      * destruct (sub_loop a [] (if x =? 0 then 1 else 0)) as [r' bf'] eqn:E.
        inversion H; subst. clear H.
        apply IH in E; [|assumption|constructor|cbn;lia|destruct (x =? 0); lia].
        destruct E as (Hv & Hl & Hw & Hcf).
        cbn [val length]. rewrite Nat2Z.inj_succ, Z.pow_succ_r by lia.
        repeat split; [|lia|constructor; [apply isword_mod|exact Hw]|lia|lia].
        cbn [val] in Hv. unfold isword in Hx. unfold B in *.
        destruct (Z.eqb_spec x 0); nia.
    + inversion Hb as [|? ? Hy Hb']; subst. cbn [sub_loop] in H.
      destruct ((x >? y) || ((x =? y) && (borrow =? 0))) eqn:Hcond.
      * destruct (sub_loop a b 0) as [r' bf'] eqn:E. inversion H; subst; clear H.
        apply IH in E; [|assumption|assumption|cbn [length] in Hlen; lia|lia].
        destruct E as (Hv & Hl & Hw & Hcf).
        assert ((x - y - borrow) mod B = x - y - borrow) as Hstep.
        { unfold isword, B in *. lia. }
        cbn [val length]. rewrite Nat2Z.inj_succ, Z.pow_succ_r by lia.
        repeat split; [|lia|constructor; [apply isword_mod|exact Hw]|lia|lia].
        rewrite Hstep. nia.
      * destruct (sub_loop a b 1) as [r' bf'] eqn:E. cbv beta iota in H. apply pair_equal_spec in H. destruct H as [<- <-].
        apply IH in E; [|assumption|assumption|cbn [length] in Hlen; lia|lia].
        destruct E as (Hv & Hl & Hw & Hcf).
        assert ((((WMAX - y + 1) mod B - borrow) mod B + x) mod B = x - y - borrow + B) as Hstep.
        { assert (Hneg : x - y - borrow < 0).
          { apply orb_false_elim in Hcond. destruct Hcond as [Hg He].
            rewrite Z.gtb_ltb, Z.ltb_ge in Hg.
            apply andb_false_elim in He. destruct He as [He|He].
            - apply Z.eqb_neq in He. lia.
            - apply Z.eqb_neq in He. lia. }
          rewrite Zplus_mod_idemp_l.
          replace ((WMAX - y + 1) mod B - borrow + x) with ((WMAX - y + 1) mod B + (x - borrow)) by ring.
          rewrite Zplus_mod_idemp_l.
          replace (WMAX - y + 1 + (x - borrow)) with (x - y - borrow + B) by (unfold WMAX, B; ring).
          apply Z.mod_small. unfold isword in *. lia. }
        cbn [val length]. rewrite Nat2Z.inj_succ, Z.pow_succ_r by lia.
        repeat split; [|lia|constructor; [apply isword_mod|exact Hw]|lia|lia].
        rewrite Hstep. nia.
Qed.

Lemma sub_digits_ord_spec a b :
  words a -> words b -> a <> [] -> b <> [] -> (hi b <= hi a)%nat -> val b <= val a ->
  val (sub_digits_ord a b) = val a - val b /\ words (sub_digits_ord a b) /\ sub_digits_ord a b <> [].
Proof.
  intros Ha Hb Hna Hnb Hh Hle. unfold sub_digits_ord.
  destruct (sub_loop (firstn (hi a) a) (firstn (hi b) b) 0) as [r bf] eqn:E. cbn [fst].
  apply sub_loop_spec in E;
    [|apply words_firstn; assumption|apply words_firstn; assumption
     |rewrite !firstn_hi_length by assumption; exact Hh|lia].
  destruct E as (Hv & Hl & Hw & Hbf).
  rewrite !firstn_strip_val in Hv by assumption.
  rewrite firstn_hi_length in * by assumption.
  pose proof (val_bound r Hw) as Hub. rewrite Hl in Hub.
  pose proof (val_nonneg r Hw) as Hlb.
  assert (bf = 0) as -> by nia.
  rewrite val_app, Hl, skipn_hi_val by assumption.
  split; [lia|]. split; [apply words_app; [exact Hw|apply words_skipn; exact Ha]|].
  intros Hnil. apply app_eq_nil in Hnil. destruct Hnil as [-> _]. cbn [length] in Hl.
  pose proof (hi_ge1 a). lia.
Qed.

Lemma sub_digits_spec a b :
  words a -> words b -> a <> [] -> b <> [] ->
  val (sub_digits a b) = Z.abs (val a - val b) /\ words (sub_digits a b) /\ sub_digits a b <> [].
Proof.
  intros Ha Hb Hna Hnb. unfold sub_digits.
  destruct (compare_abs_spec a b Ha Hb Hna Hnb) as [Hgt Hlt].
  assert (Hcmp : hi a <> hi b -> compare_abs a b = Z.of_nat (hi a) - Z.of_nat (hi b)).
  { intros Hne. unfold compare_abs. destruct (Nat.eqb_spec (hi a) (hi b)); [contradiction|reflexivity]. }
  destruct ((hi a <? hi b)%nat || ((hi a =? hi b)%nat && (compare_abs a b <? 0))) eqn:Hc.
  - assert (val a < val b /\ (hi a <= hi b)%nat) as [Hv Hh].
    { destruct (Nat.ltb_spec (hi a) (hi b)) as [Hl|Hl].
      - specialize (Hcmp ltac:(lia)). lia.
      - cbn [orb] in Hc. apply andb_prop in Hc. destruct Hc as [He Hn].
        apply Nat.eqb_eq in He. apply Z.ltb_lt in Hn. lia. }
    destruct (sub_digits_ord_spec b a Hb Ha Hnb Hna Hh ltac:(lia)) as (H1 & H2 & H3).
    split; [lia|]. split; assumption.
  - assert (val b <= val a /\ (hi b <= hi a)%nat) as [Hv Hh].
    { apply orb_false_elim in Hc. destruct Hc as [Hl Hc]. apply Nat.ltb_ge in Hl.
      destruct (Nat.eqb_spec (hi a) (hi b)) as [He|Hne].
      - cbn [andb] in Hc. apply Z.ltb_ge in Hc. lia.
      - specialize (Hcmp Hne). lia. }
    destruct (sub_digits_ord_spec a b Ha Hb Hna Hnb Hh Hv) as (H1 & H2 & H3).
    split; [lia|]. split; assumption.
Qed.

(** ** signed layer: sexp_bignum_add / sexp_bignum_sub *)
Definition wf_big (x : big) : Prop := (fst x = 1 \/ fst x = -1) /\ words (snd x) /\ snd x <> [].

Lemma bignum_add_spec x y : wf_big x -> wf_big y ->
  bval (bignum_add x y) = bval x + bval y /\ wf_big (bignum_add x y).
Proof.
  destruct x as [sa a], y as [sb b]. unfold wf_big, bval. cbn [fst snd].
  intros (Hsa & Ha & Hna) (Hsb & Hb & Hnb). unfold bignum_add.
  destruct (compare_abs_spec a b Ha Hb Hna Hnb) as [Hgt Hlt].
  destruct (Z.eqb_spec sa sb) as [->|Hne]; cbn [fst snd].
  - destruct (add_digits_spec a b Ha Hb Hna Hnb) as [Hv Hw]. rewrite Hv.
    split; [ring|]. split; [assumption|]. split; [assumption|apply add_digits_nonempty; assumption].
  - destruct (sub_digits_spec a b Ha Hb Hna Hnb) as (Hv & Hw & Hn). rewrite Hv.
    destruct (Z.geb_spec (compare_abs a b) 0) as [Hc|Hc].
    + split; [|tauto]. destruct Hsa as [-> | ->], Hsb as [-> | ->]; lia.
    + split; [|tauto]. destruct Hsa as [-> | ->], Hsb as [-> | ->]; lia.
Qed.

Lemma bignum_sub_spec x y : wf_big x -> wf_big y ->
  bval (bignum_sub x y) = bval x - bval y /\ wf_big (bignum_sub x y).
Proof.
  destruct x as [sa a], y as [sb b]. unfold wf_big, bval. cbn [fst snd].
  intros (Hsa & Ha & Hna) (Hsb & Hb & Hnb). unfold bignum_sub.
  destruct (compare_abs_spec a b Ha Hb Hna Hnb) as [Hgt Hlt].
  destruct (Z.eqb_spec sa sb) as [->|Hne]; cbn [fst snd].
  - destruct (sub_digits_spec a b Ha Hb Hna Hnb) as (Hv & Hw & Hn). rewrite Hv.
    destruct (Z.geb_spec (compare_abs a b) 0) as [Hc|Hc].
    + split; [|tauto]. destruct Hsb as [-> | ->]; lia.
    + split; [|split; [|tauto]]; destruct Hsb as [-> | ->]; lia.
  - destruct (add_digits_spec a b Ha Hb Hna Hnb) as [Hv Hw]. rewrite Hv.
    split; [destruct Hsa as [-> | ->], Hsb as [-> | ->]; lia|].
    split; [assumption|]. split; [assumption|apply add_digits_nonempty; assumption].
Qed.

(** non-vacuity: concrete operands with a carry across an all-ones word, a borrow across a zero
    word, spare high zero words and both sign combinations *)
Example add_digits_example :
  add_digits [WMAX; WMAX; 0] [1] = [0; 0; 1] /\ val [0;0;1] = val [WMAX; WMAX; 0] + val [1].
Proof. vm_compute. split; reflexivity. Qed.
Example sub_digits_example :
  sub_digits [1; 0] [0; 0; 1; 0] = [WMAX; WMAX; 0; 0].
Proof. vm_compute. reflexivity. Qed.
Example bignum_add_example :
  bignum_add (1, [5; 0; 1]) (-1, [7; 0; 1; 0]) = (-1, [2; 0; 0; 0]).
Proof. vm_compute. reflexivity. Qed.
Example bignum_sub_example :
  bignum_sub (-1, [0; 1]) (-1, [1; 0; 0]) = (-1, [WMAX; 0]).
Proof. vm_compute. reflexivity. Qed.
