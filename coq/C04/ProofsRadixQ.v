(** Round trip of exact rationals through positional notation in radix 2..36 (round 2):
    reading the digits of a ratio in lowest terms gives back exactly that ratio. *)
From ChibiV Require Import Common.Words C04.Model C04.Model2 C04.Model3 C04.Model4 C04.Model5 C04.Model9
  C04.Spec C04.Proofs C04.ProofsFx C04.ProofsMul C04.ProofsDiv C04.ProofsQuot C04.ProofsSqrt C04.ProofsRadix C04.ProofsRatio.
From Coq Require Import ZifyBool Znumtheory Lia.
Local Open Scope Z_scope.

Lemma read_number_signed_spec sg base : (sg = 1 \/ sg = -1) -> 2 <= base <= 36 -> forall ds v,
  0 <= v <= FIXMAX -> Forall (isdigit base) ds ->
  nval (read_number_signed sg base ds v) = sg * horner base ds v
  /\ canon (read_number_signed sg base ds v) /\ wf_num (read_number_signed sg base ds v).
Proof.
  intros Hsg Hb. induction ds as [|d ds IH]; intros v Hv Hd; cbn [read_number_signed].
  - unfold horner. cbn [fold_left nval wf_num].
    assert (fits_fix (sg * v) = true) by (unfold fits_fix, FIXMIN, FIXMAX in *; lia).
    split; [reflexivity|]. split; [apply canon_fix; assumption|assumption].
  - inversion Hd as [|? ? Hd0 Hds]; subst.
    destruct ((FIXMAX / base <? v) || (v * base + d <? v) || (v * base + d >? FIXMAX)) eqn:Hc.
    + destruct (read_bignum_digits_spec v base (d :: ds) ltac:(unfold isword, FIXMAX, B in *; lia)
                  ltac:(unfold B; lia) Hd) as (V & W & N).
      destruct (normalize_spec sg (read_bignum_digits v base (d :: ds))
                  ltac:(split; [cbn [fst]; lia|split; assumption])) as (V2 & C2 & W2).
      rewrite V2, V. split; [reflexivity|]. split; assumption.
    + unfold isdigit in Hd0.
      assert (0 <= v * base + d <= FIXMAX) by (unfold FIXMAX in *; nia).
      destruct (IH (v * base + d) ltac:(assumption) Hds) as (V & C & W). split; [|split; assumption].
      rewrite V. unfold horner. reflexivity.
Qed.

(** a fraction in lowest terms with positive denominator is unique *)
Lemma lowest_terms_unique n d n' d' : 0 < d -> 0 < d' -> Z.gcd n d = 1 -> Z.gcd n' d' = 1 ->
  n' * d = n * d' -> n' = n /\ d' = d.
Proof.
  intros Hd Hd' G G' E.
  assert (D1 : (d | d')).
  { apply (Z.gauss d n d'); [exists n'; lia|rewrite Z.gcd_comm; exact G]. }
  assert (D2 : (d' | d)).
  { apply (Z.gauss d' n' d); [exists n; lia|rewrite Z.gcd_comm; exact G']. }
  assert (d' = d) by (apply Z.divide_antisym_nonneg; try lia; assumption).
  subst d'. split; [nia|reflexivity].
Qed.

(** [dn], [dd]: the digits that number->string writes for the numerator's magnitude and for the
    denominator of the canonical ratio sg*n/d (any printer meeting write_bignum_digits_val's promise:
    valid digits with Horner value n resp. d); [sg] is the sign character *)
Theorem ratio_radix_roundtrip fuel qf mf sg base dn dd n d :
  (sg = 1 \/ sg = -1) -> 2 <= base <= 36 ->
  Forall (isdigit base) dn -> Forall (isdigit base) dd ->
  of_radix base dn = n -> of_radix base dd = d -> 1 < d -> Z.gcd n d = 1 ->
  match read_ratio fuel qf mf sg base dn dd with
  | RRat n' d' => nval n' = sg * n /\ nval d' = d /\ canon n' /\ canon d' /\ wf_num n' /\ wf_num d'
  | RInt _ => False
  | RErr | RFuel => True
  end.
Proof.
  intros Hsg Hb Fn Fd Vn Vd Hd G. unfold read_ratio.
  rewrite of_radix_horner in Vn, Vd.
  destruct (read_number_signed_spec sg base Hsg Hb dn 0 ltac:(unfold FIXMAX; lia) Fn) as (V1 & C1 & W1).
  destruct (read_number_signed_spec 1 base (or_introl eq_refl) Hb dd 0 ltac:(unfold FIXMAX; lia) Fd) as (V2 & C2 & W2).
  rewrite Vn in V1. rewrite Vd in V2.
  pose proof (ratio_normalize_spec fuel qf mf _ _ W1 W2 ltac:(lia)) as R.
  rewrite V1, V2 in R.
  assert (Gs : Z.gcd (sg * n) d = 1).
  { destruct Hsg as [-> | ->]; [rewrite Z.mul_1_l; exact G|].
    replace (-1 * n) with (- n) by ring. rewrite Z.gcd_opp_l. exact G. }
  destruct (ratio_normalize fuel qf mf _ _) as [v|n' d'| |]; cbn [rat_ok] in R; try exact I.
  - destruct R as (_ & _ & S). unfold same_fraction in S.
    assert (Dv : (d | sg * n)) by (exists (nval v); lia).
    assert (D1 : (d | 1)) by (rewrite <- Gs; apply Z.gcd_greatest; [exact Dv|apply Z.divide_refl]).
    apply Z.divide_1_r_nonneg in D1; lia.
  - destruct R as (Cn & Cd & Wn & Wd & S & L & G').
    unfold same_fraction in S.
    destruct (lowest_terms_unique (sg * n) (1 * d) (nval n') (nval d')) as [E1 E2]; try lia.
    { rewrite Z.mul_1_l. exact Gs. }
    repeat split; try assumption; lia.
Qed.

(** non-vacuity: "-100000000000000000/3" in radix 16 (bignum numerator: the F-C04-12 path) and "ff/a" *)
Example ratio_radix_example :
  read_ratio 50 20 40 (-1) 16 [1;0;0;0;0;0;0;0;0;0;0;0;0;0;0;0;0;0] [3] = RRat (Big (-1) [0; 16]) (Fix 3)
  /\ read_ratio 50 20 40 1 16 [15; 15] [10] = RRat (Fix 51) (Fix 2).
Proof. vm_compute. split; reflexivity. Qed.
