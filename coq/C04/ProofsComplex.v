(** Exact complex arithmetic (round 2): every exact x exact entry of the type-pair table of
    sexp_add / sexp_sub / sexp_mul / sexp_div returns the exact Gaussian-rational result of
    Spec2 (gadd / gsub / gmul / gdiv) in canonical form. *)
From ChibiV Require Import Common.Words C04.Model C04.Model2 C04.Model3 C04.Model4 C04.Model5 C04.Model6 C04.Model7
  C04.Spec C04.Spec2 C04.Proofs C04.ProofsFx C04.ProofsMul C04.ProofsDiv C04.ProofsQuot C04.ProofsSqrt
  C04.ProofsRatio C04.ProofsRound.
From Coq Require Import ZifyBool Znumtheory Lia.
Local Open Scope Z_scope.

(** well-formed exact reals: canonical integers; ratios in lowest terms with denominator > 1 *)
Definition wf_x (x : xnum) : Prop :=
  match x with
  | XInt v => wf_num v /\ canon v
  | XRat n d => wf_num n /\ wf_num d /\ canon n /\ canon d /\ 1 < nval d /\ Z.gcd (nval n) (nval d) = 1
  end.
Definition xfr (x : xnum) : fr := match x with XInt v => (nval v, 1) | XRat n d => (nval n, nval d) end.

(** equality of fractions with non-zero denominators *)
Definition feqv (x y : fr) : Prop := fst x * snd y = fst y * snd x.
Definition r_ok (r : rres) (f : fr) : Prop := rat_ok r (fst f) (snd f).

Lemma xfr_den x : wf_x x -> 0 < snd (xfr x).
Proof. destruct x; cbn; intros H; [lia|]. destruct H as (_ & _ & _ & _ & H & _). lia. Qed.

Lemma same_fraction_trans n d n' d' nv dv : d <> 0 ->
  same_fraction n d nv dv -> n * d' = n' * d -> same_fraction n' d' nv dv.
Proof.
  unfold same_fraction. intros Hd H1 H2. apply (Z.mul_reg_r _ _ d Hd).
  transitivity (nv * d * d'); [ring|]. rewrite H1.
  transitivity (n * d' * dv); [ring|]. rewrite H2. ring.
Qed.

Lemma r_ok_feqv r f g : snd f <> 0 -> r_ok r f -> feqv f g -> r_ok r g.
Proof.
  unfold r_ok, feqv. destruct f as [n d], g as [n' d']. cbn [fst snd]. intros Hd H E.
  destruct r as [v|nn dd| |]; cbn [rat_ok] in *; try exact I.
  - destruct H as (C & W & S). repeat split; try assumption. eapply same_fraction_trans; eassumption.
  - destruct H as (C1 & C2 & W1 & W2 & S & R). repeat split; try tauto. eapply same_fraction_trans; eassumption.
Qed.

Lemma wf_one : wf_num (Fix 1). Proof. reflexivity. Qed.
Lemma wf_m1 : wf_num (Fix (-1)). Proof. reflexivity. Qed.

Section Fuel.
Variables (fuel qf mf : nat).

Ltac xparts :=
  repeat match goal with
         | H : wf_x (XInt _) |- _ => destruct H as (? & ?)
         | H : wf_x (XRat _ _) |- _ => destruct H as (? & ? & ? & ? & ? & ?)
         end.

Lemma x_add_ok a b : wf_x a -> wf_x b -> r_ok (x_add fuel qf mf a b) (fadd (xfr a) (xfr b)).
Proof.
  intros Ha Hb. destruct a as [x|na da], b as [y|nb db]; xparts; unfold r_ok, x_add, fadd; cbn [xfr fst snd].
  - destruct (num_add_spec x y) as (V & C & W); try assumption. cbn [rat_ok]. repeat split; try assumption.
    unfold same_fraction. rewrite V. ring.
  - pose proof (ratio_add_spec fuel qf mf x (Fix 1) nb db) as P. cbn [nval] in P.
    replace (nval x * nval db + nval nb * 1) with (nval x * nval db + nval nb * 1) by ring.
    replace (1 * nval db) with (1 * nval db) by ring. apply P; try assumption; try exact wf_one; lia.
  - pose proof (ratio_add_spec fuel qf mf y (Fix 1) na da) as P. cbn [nval] in P.
    replace (nval na * 1 + nval y * nval da) with (nval y * nval da + nval na * 1) by ring.
    replace (nval da * 1) with (1 * nval da) by ring. apply P; try assumption; try exact wf_one; lia.
  - apply ratio_add_spec; try assumption; lia.
Qed.

Lemma x_mul_ok a b : wf_x a -> wf_x b -> r_ok (x_mul fuel qf mf a b) (fmul (xfr a) (xfr b)).
Proof.
  intros Ha Hb. destruct a as [x|na da], b as [y|nb db]; xparts; unfold r_ok, x_mul, fmul; cbn [xfr fst snd].
  - destruct (num_mul mf x y) as [v|] eqn:E; [|exact I].
    apply num_mul_spec in E; try assumption. destruct E as (V & C & W). cbn [rat_ok]. repeat split; try assumption.
    unfold same_fraction. rewrite V. ring.
  - pose proof (ratio_mul_spec fuel qf mf x (Fix 1) nb db) as P. cbn [nval] in P.
    apply P; try assumption; try exact wf_one; lia.
  - pose proof (ratio_mul_spec fuel qf mf y (Fix 1) na da) as P. cbn [nval] in P.
    replace (nval na * nval y) with (nval y * nval na) by ring.
    replace (nval da * 1) with (1 * nval da) by ring. apply P; try assumption; try exact wf_one; lia.
  - apply ratio_mul_spec; try assumption; lia.
Qed.

(** a result that is a number is again a well-formed exact real with the promised value *)
Definition x_of (r : rres) : option xnum :=
  match r with RInt v => Some (XInt v) | RRat n d => Some (XRat n d) | _ => None end.

Lemma r_ok_x r f x : snd f <> 0 -> r_ok r f -> x_of r = Some x -> wf_x x /\ feqv (xfr x) f.
Proof.
  unfold r_ok, feqv. destruct f as [n d]. cbn [fst snd]. intros Hd H E.
  destruct r as [v|nn dd| |]; cbn [x_of] in E; try discriminate; injection E as <-; cbn [rat_ok wf_x xfr fst snd] in *.
  - destruct H as (C & W & S). unfold same_fraction in S. repeat split; try assumption; try lia.
  - destruct H as (C1 & C2 & W1 & W2 & S & R1 & R2). unfold same_fraction in S. repeat split; try assumption; try lia.
Qed.

Lemma x_sub_ok a b : wf_x a -> wf_x b -> r_ok (x_sub fuel qf mf a b) (fsub (xfr a) (xfr b)).
Proof.
  intros Ha Hb. destruct a as [x|na da], b as [y|nb db]; xparts; unfold r_ok, x_sub, fsub; cbn [xfr fst snd].
  - destruct (num_sub_total_spec x y) as (V & C & W); try assumption. cbn [rat_ok]. repeat split; try assumption.
    unfold same_fraction. rewrite V. ring.
  - pose proof (ratio_sub_spec fuel qf mf x (Fix 1) nb db) as P. cbn [nval] in P.
    apply P; try assumption; try exact wf_one; lia.
  - (* (y/1 - na/da) * -1 *)
    pose proof (ratio_sub_spec fuel qf mf y (Fix 1) na da) as P. cbn [nval] in P.
    assert (P' : r_ok (ratio_sub fuel qf mf y (Fix 1) na da) (nval y * nval da - nval na * 1, 1 * nval da))
      by (apply P; try assumption; try exact wf_one; lia).
    clear P. set (f := (nval y * nval da - nval na * 1, 1 * nval da)) in *.
    assert (Hf : snd f <> 0) by (unfold f; cbn [snd]; lia).
    assert (M1 : wf_x (XInt (Fix (-1)))) by (split; reflexivity).
    destruct (ratio_sub fuel qf mf y (Fix 1) na da) as [v|n' d'| |] eqn:E; try exact I.
    + destruct (r_ok_x _ _ (XInt v) Hf P' eq_refl) as [Wx Ex].
      pose proof (x_mul_ok (XInt v) (XInt (Fix (-1))) Wx M1) as Q.
      refine (r_ok_feqv _ _ (nval na * 1 - nval y * nval da, nval da * 1) _ Q _).
      * unfold fmul. cbn [xfr fst snd]. lia.
      * unfold feqv, fmul, f in *. cbn [xfr fst snd nval] in *. nia.
    + destruct (r_ok_x _ _ (XRat n' d') Hf P' eq_refl) as [Wx Ex].
      pose proof (x_mul_ok (XRat n' d') (XInt (Fix (-1))) Wx M1) as Q.
      pose proof (xfr_den _ Wx) as Dx.
      refine (r_ok_feqv _ _ (nval na * 1 - nval y * nval da, nval da * 1) _ Q _).
      * unfold fmul. cbn [xfr fst snd] in *. lia.
      * unfold feqv, fmul, f in *. cbn [xfr fst snd nval] in *. nia.
  - apply ratio_sub_spec; try assumption; lia.
Qed.

Lemma x_div_ok a b : wf_x a -> wf_x b -> fst (xfr b) <> 0 -> r_ok (x_div fuel qf mf a b) (fdiv (xfr a) (xfr b)).
Proof.
  intros Ha Hb Hnz. destruct a as [x|na da], b as [y|nb db]; xparts; unfold r_ok, x_div, fdiv; cbn [xfr fst snd] in *.
  - pose proof (ratio_normalize_spec fuel qf mf x y) as P.
    replace (nval x * 1) with (nval x) by ring. replace (1 * nval y) with (nval y) by ring. apply P; assumption.
  - pose proof (ratio_div_spec fuel qf mf x (Fix 1) nb db) as P. cbn [nval] in P.
    apply P; try assumption; try exact wf_one; lia.
  - pose proof (ratio_div_spec fuel qf mf na da y (Fix 1)) as P. cbn [nval] in P.
    apply P; try assumption; try exact wf_one; lia.
  - apply ratio_div_spec; try assumption; lia.
Qed.

(** division by an exact zero is an error (or fuel), never a number *)
Lemma x_div_zero a b : wf_x a -> wf_x b -> fst (xfr b) = 0 -> x_of (x_div fuel qf mf a b) = None.
Proof.
  intros Ha Hb Hz. destruct b as [y|nb db]; xparts; cbn [xfr fst] in Hz.
  - pose proof (canon_zero y ltac:(assumption) Hz) as ->.
    destruct a as [x|na da]; cbn [x_div].
    + unfold ratio_normalize. cbn [is_zero]. reflexivity.
    + unfold ratio_div, omul. destruct (num_mul mf na (Fix 1)); [|reflexivity].
      xparts. destruct (num_mul mf da (Fix 0)) as [v|] eqn:E; [|reflexivity].
      apply num_mul_spec in E; try assumption; try reflexivity. destruct E as (V & C & _). cbn [nval] in V.
      rewrite (canon_zero v C ltac:(lia)). unfold ratio_normalize. cbn [is_zero]. reflexivity.
  - exfalso. match goal with H : Z.gcd (nval nb) (nval db) = 1 |- _ => rewrite Hz in H; cbn in H end.
    rewrite Z.abs_eq in *; lia.
Qed.

(** the compatible form used to chain operations: operands known up to equality of fractions *)
Lemma chain (op : xnum -> xnum -> rres) (fop : fr -> fr -> fr) a b fa fb :
  (forall a b, wf_x a -> wf_x b -> r_ok (op a b) (fop (xfr a) (xfr b))) ->
  (forall x y x' y', snd x <> 0 -> snd y <> 0 -> snd x' <> 0 -> snd y' <> 0 ->
      feqv x x' -> feqv y y' -> feqv (fop x y) (fop x' y') /\ snd (fop x y) <> 0) ->
  wf_x a -> wf_x b -> snd fa <> 0 -> snd fb <> 0 -> feqv (xfr a) fa -> feqv (xfr b) fb ->
  r_ok (op a b) (fop fa fb).
Proof.
  intros Hop Hcomp Wa Wb Da Db Ea Eb.
  pose proof (xfr_den a Wa). pose proof (xfr_den b Wb).
  destruct (Hcomp (xfr a) (xfr b) fa fb) as [E D]; try assumption; try lia.
  eapply r_ok_feqv; [exact D|apply Hop; assumption|exact E].
Qed.

Lemma fadd_comp x y x' y' : snd x <> 0 -> snd y <> 0 -> snd x' <> 0 -> snd y' <> 0 ->
  feqv x x' -> feqv y y' -> feqv (fadd x y) (fadd x' y') /\ snd (fadd x y) <> 0.
Proof.
  unfold feqv, fadd. destruct x as [a b], y as [c d], x' as [a' b'], y' as [c' d']. cbn [fst snd].
  intros. split; [|nia].
  transitivity ((a * b') * (d * d') + (c * d') * (b * b')); [ring|]. rewrite H3, H4. ring.
Qed.
Lemma fsub_comp x y x' y' : snd x <> 0 -> snd y <> 0 -> snd x' <> 0 -> snd y' <> 0 ->
  feqv x x' -> feqv y y' -> feqv (fsub x y) (fsub x' y') /\ snd (fsub x y) <> 0.
Proof.
  unfold feqv, fsub. destruct x as [a b], y as [c d], x' as [a' b'], y' as [c' d']. cbn [fst snd].
  intros. split; [|nia].
  transitivity ((a * b') * (d * d') - (c * d') * (b * b')); [ring|]. rewrite H3, H4. ring.
Qed.
Lemma fmul_comp x y x' y' : snd x <> 0 -> snd y <> 0 -> snd x' <> 0 -> snd y' <> 0 ->
  feqv x x' -> feqv y y' -> feqv (fmul x y) (fmul x' y') /\ snd (fmul x y) <> 0.
Proof.
  unfold feqv, fmul. destruct x as [a b], y as [c d], x' as [a' b'], y' as [c' d']. cbn [fst snd].
  intros. split; [|nia].
  transitivity ((a * b') * (c * d')); [ring|]. rewrite H3, H4. ring.
Qed.

(** ** complex numbers *)
Definition wf_g (g : gnum) : Prop :=
  match g with GR x => wf_x x | GC re im => wf_x re /\ wf_x im /\ fst (xfr im) <> 0 end.
Definition gfr (g : gnum) : gq := match g with GR x => (xfr x, (0, 1)) | GC re im => (xfr re, xfr im) end.

(** what a result promises: parts well formed and equal (as fractions) to the spec's parts;
    canonical: a complex object iff the imaginary part is not zero *)
Definition g_ok (r : gres) (z : gq) : Prop :=
  match r with
  | GV g => wf_g g /\ feqv (fst (gfr g)) (fst z) /\ feqv (snd (gfr g)) (snd z)
  | _ => True
  end.

Lemma wf_zero : wf_x (XInt (Fix 0)). Proof. split; reflexivity. Qed.

Lemma mk_complex_ok re im fre fim : wf_x re -> wf_x im -> snd fim <> 0 ->
  feqv (xfr re) fre -> feqv (xfr im) fim -> g_ok (GV (mk_complex re im)) (fre, fim).
Proof.
  intros Wre Wim Dim Ere Eim. unfold mk_complex.
  assert (Hz : forall v, im = XInt v -> v = Fix 0 \/ nval v <> 0).
  { intros v ->. destruct Wim as [W C]. destruct (Z.eq_dec (nval v) 0) as [E|E]; [left; apply canon_zero; assumption|right; assumption]. }
  assert (general : fst (xfr im) <> 0 -> g_ok (GV (GC re im)) (fre, fim)).
  { intros Hnz. cbn [g_ok wf_g gfr fst snd]. tauto. }
  destruct im as [v|n d].
  - destruct (Hz v eq_refl) as [->|Hnz].
    + cbn [g_ok wf_g gfr fst snd]. repeat split; try assumption;
        try (unfold feqv in *; cbn [xfr fst snd nval] in *; lia).
    + destruct v as [z|s d']; [destruct z; try (apply general; cbn [xfr fst]; assumption); cbn [nval] in Hnz; lia|].
      apply general. cbn [xfr fst]. assumption.
  - apply general. cbn [xfr fst]. destruct Wim as (_ & _ & _ & _ & H1 & H2).
    intros E. rewrite E in H2. cbn in H2. rewrite Z.abs_eq in H2; lia.
Qed.

Lemma parts_ok g : wf_g g -> wf_x (fst (parts g)) /\ wf_x (snd (parts g)) /\
  xfr (fst (parts g)) = fst (gfr g) /\ xfr (snd (parts g)) = snd (gfr g).
Proof. destruct g as [x|re im]; cbn; intros H; [repeat split; try assumption; reflexivity|]. tauto. Qed.

(** binding a checked intermediate result *)
Lemma xbind_ok r f k z : snd f <> 0 -> r_ok r f ->
  (forall x, wf_x x -> feqv (xfr x) f -> g_ok (k x) z) -> g_ok (xbind r k) z.
Proof.
  intros Hf H Hk. destruct r as [v|n d| |]; cbn [xbind]; try exact I.
  - destruct (r_ok_x _ _ (XInt v) Hf H eq_refl). apply Hk; assumption.
  - destruct (r_ok_x _ _ (XRat n d) Hf H eq_refl). apply Hk; assumption.
Qed.

Lemma den_fr x : wf_x x -> snd (xfr x) <> 0.
Proof. intros H. pose proof (xfr_den x H). lia. Qed.

Theorem c_add_ok a b : wf_x (fst a) -> wf_x (snd a) -> wf_x (fst b) -> wf_x (snd b) ->
  g_ok (c_add fuel qf mf a b) (gadd (xfr (fst a), xfr (snd a)) (xfr (fst b), xfr (snd b))).
Proof.
  intros A1 A2 B1 B2. unfold c_add, gadd. cbn [fst snd].
  pose proof (den_fr _ A1). pose proof (den_fr _ A2). pose proof (den_fr _ B1). pose proof (den_fr _ B2).
  eapply xbind_ok; [|apply x_add_ok; assumption|]. { unfold fadd; cbn [snd]; nia. } intros re Wre Ere.
  eapply xbind_ok; [|apply x_add_ok; assumption|]. { unfold fadd; cbn [snd]; nia. } intros im Wim Eim.
  apply mk_complex_ok; try assumption. unfold fadd; cbn [snd]; nia.
Qed.

Theorem c_sub_ok a b : wf_x (fst a) -> wf_x (snd a) -> wf_x (fst b) -> wf_x (snd b) ->
  g_ok (c_sub fuel qf mf a b) (gsub (xfr (fst a), xfr (snd a)) (xfr (fst b), xfr (snd b))).
Proof.
  intros A1 A2 B1 B2. unfold c_sub, gsub. cbn [fst snd].
  pose proof (den_fr _ A1). pose proof (den_fr _ A2). pose proof (den_fr _ B1). pose proof (den_fr _ B2).
  eapply xbind_ok; [|apply x_sub_ok; assumption|]. { unfold fsub; cbn [snd]; nia. } intros re Wre Ere.
  eapply xbind_ok; [|apply x_sub_ok; assumption|]. { unfold fsub; cbn [snd]; nia. } intros im Wim Eim.
  apply mk_complex_ok; try assumption. unfold fsub; cbn [snd]; nia.
Qed.

Lemma feqv_refl x : feqv x x. Proof. unfold feqv. ring. Qed.

Theorem c_mul_ok a b : wf_x (fst a) -> wf_x (snd a) -> wf_x (fst b) -> wf_x (snd b) ->
  g_ok (c_mul fuel qf mf a b) (gmul (xfr (fst a), xfr (snd a)) (xfr (fst b), xfr (snd b))).
Proof.
  intros A1 A2 B1 B2. unfold c_mul, gmul. cbn [fst snd].
  pose proof (den_fr _ A1) as D1. pose proof (den_fr _ A2) as D2. pose proof (den_fr _ B1) as D3. pose proof (den_fr _ B2) as D4.
  set (ar := xfr (fst a)) in *. set (ai := xfr (snd a)) in *. set (br := xfr (fst b)) in *. set (bi := xfr (snd b)) in *.
  assert (M : forall x y, snd x <> 0 -> snd y <> 0 -> snd (fmul x y) <> 0) by (intros; unfold fmul; cbn [snd]; nia).
  eapply xbind_ok; [|apply x_mul_ok; assumption|]; [apply M; assumption|]. intros t1 W1 E1.
  eapply xbind_ok; [|apply x_mul_ok; assumption|]; [apply M; assumption|]. intros t2 W2 E2.
  eapply xbind_ok; [|apply (chain (x_sub fuel qf mf) fsub t1 t2 (fmul ar br) (fmul ai bi) x_sub_ok fsub_comp W1 W2); [apply M; assumption|apply M; assumption|exact E1|exact E2]|].
  { unfold fsub; cbn [snd]. pose proof (M ar br D1 D3). pose proof (M ai bi D2 D4). nia. }
  intros re Wre Ere.
  eapply xbind_ok; [|apply x_mul_ok; assumption|]; [apply M; assumption|]. intros t3 W3 E3.
  eapply xbind_ok; [|apply x_mul_ok; assumption|]; [apply M; assumption|]. intros t4 W4 E4.
  eapply xbind_ok; [|apply (chain (x_add fuel qf mf) fadd t3 t4 (fmul ar bi) (fmul ai br) x_add_ok fadd_comp W3 W4); [apply M; assumption|apply M; assumption|exact E3|exact E4]|].
  { unfold fadd; cbn [snd]. pose proof (M ar bi D1 D4). pose proof (M ai br D2 D3). nia. }
  intros im Wim Eim.
  apply mk_complex_ok; try assumption.
  unfold fadd; cbn [snd]. pose proof (M ar bi D1 D4). pose proof (M ai br D2 D3). nia.
Qed.

(** generic dispatch: real x real, real x complex, complex x complex *)
Lemma lift_ok r f : snd f <> 0 -> r_ok r f -> g_ok (lift r) (f, (0, 1)).
Proof.
  intros Hf H. unfold lift. eapply xbind_ok; [exact Hf|exact H|]. intros x Wx Ex.
  cbn [g_ok wf_g gfr fst snd]. repeat split; try assumption; try (unfold feqv; cbn; ring).
Qed.

Lemma gq_real_add x y : gadd (xfr x, (0, 1)) (xfr y, (0, 1)) = (fadd (xfr x) (xfr y), (0, 1)).
Proof. reflexivity. Qed.

Theorem g_add_ok a b : wf_g a -> wf_g b -> g_ok (g_add fuel qf mf a b) (gadd (gfr a) (gfr b)).
Proof.
  intros Wa Wb.
  destruct (parts_ok a Wa) as (A1 & A2 & A3 & A4). destruct (parts_ok b Wb) as (B1 & B2 & B3 & B4).
  assert (C : g_ok (c_add fuel qf mf (parts a) (parts b)) (gadd (gfr a) (gfr b))).
  { pose proof (c_add_ok (parts a) (parts b) A1 A2 B1 B2) as P. rewrite A3, A4, B3, B4 in P.
    destruct (gfr a), (gfr b). exact P. }
  (* real x real: c_add on (x, 0) (y, 0) computes to the lifted real sum (0 + 0 is the fixnum 0) *)
  destruct a as [x|ar ai], b as [y|br bi]; exact C.
Qed.

Theorem g_sub_ok a b : wf_g a -> wf_g b -> g_ok (g_sub fuel qf mf a b) (gsub (gfr a) (gfr b)).
Proof.
  intros Wa Wb.
  destruct (parts_ok a Wa) as (A1 & A2 & A3 & A4). destruct (parts_ok b Wb) as (B1 & B2 & B3 & B4).
  assert (C : g_ok (c_sub fuel qf mf (parts a) (parts b)) (gsub (gfr a) (gfr b))).
  { pose proof (c_sub_ok (parts a) (parts b) A1 A2 B1 B2) as P. rewrite A3, A4, B3, B4 in P.
    destruct (gfr a), (gfr b). exact P. }
  destruct a as [x|ar ai], b as [y|br bi]; exact C.
Qed.

Theorem g_mul_ok a b : wf_g a -> wf_g b -> g_ok (g_mul fuel qf mf a b) (gmul (gfr a) (gfr b)).
Proof.
  intros Wa Wb.
  destruct (parts_ok a Wa) as (A1 & A2 & A3 & A4). destruct (parts_ok b Wb) as (B1 & B2 & B3 & B4).
  assert (C : g_ok (c_mul fuel qf mf (parts a) (parts b)) (gmul (gfr a) (gfr b))).
  { pose proof (c_mul_ok (parts a) (parts b) A1 A2 B1 B2) as P. rewrite A3, A4, B3, B4 in P.
    destruct (gfr a), (gfr b). exact P. }
  destruct a as [x|ar ai], b as [y|br bi]; try exact C.
  cbn [g_mul gfr]. pose proof (den_fr _ Wa). pose proof (den_fr _ Wb).
  assert (L : g_ok (lift (x_mul fuel qf mf x y)) (fmul (xfr x) (xfr y), (0, 1))).
  { apply lift_ok; [|apply x_mul_ok; assumption]. unfold fmul; cbn [snd]; nia. }
  destruct (lift (x_mul fuel qf mf x y)) as [g| |]; try exact I. cbn [g_ok fst snd] in *.
  destruct L as (L1 & L2 & L3). repeat split; try assumption.
  - unfold gmul, fsub, fmul, feqv in *. cbn [fst snd] in *. nia.
  - unfold gmul, fadd, fmul, feqv in *. cbn [fst snd] in *. nia.
Qed.

(** ** division *)
Lemma fdiv_comp x y x' y' : snd x <> 0 -> snd y <> 0 -> snd x' <> 0 -> snd y' <> 0 -> fst y <> 0 ->
  feqv x x' -> feqv y y' -> feqv (fdiv x y) (fdiv x' y') /\ snd (fdiv x y) <> 0 /\ fst y' <> 0.
Proof.
  unfold feqv, fdiv. destruct x as [a b], y as [c d], x' as [a' b'], y' as [c' d']. cbn [fst snd].
  intros Hb Hd Hb' Hd' Hc E1 E2.
  assert (Hc' : c' <> 0) by (intros ->; nia).
  split; [|split; [nia|exact Hc']].
  transitivity ((a * b') * (c' * d)); [ring|]. rewrite E1, <- E2. ring.
Qed.

Lemma chain_div a b fa fb : wf_x a -> wf_x b -> snd fa <> 0 -> snd fb <> 0 -> fst fb <> 0 ->
  feqv (xfr a) fa -> feqv (xfr b) fb ->
  r_ok (x_div fuel qf mf a b) (fdiv fa fb) /\ snd (fdiv fa fb) <> 0.
Proof.
  intros Wa Wb Da Db Nb Ea Eb.
  pose proof (den_fr a Wa) as Da'. pose proof (den_fr b Wb) as Db'.
  assert (feqv fa (xfr a)) as Ea' by (unfold feqv in *; lia).
  assert (feqv fb (xfr b)) as Eb' by (unfold feqv in *; lia).
  destruct (fdiv_comp fa fb (xfr a) (xfr b) Da Db Da' Db' Nb Ea' Eb') as (E & D & N).
  destruct (fdiv_comp (xfr a) (xfr b) fa fb Da' Db' Da Db N Ea Eb) as (E2 & D2 & _).
  split; [|exact D].
  eapply r_ok_feqv; [exact D2|apply x_div_ok; assumption|exact E2].
Qed.

(** the divisor is not zero: its squared norm c^2 + d^2 (as a fraction) has a non-zero numerator *)
Theorem c_div_ok a b : wf_x (fst a) -> wf_x (snd a) -> wf_x (fst b) -> wf_x (snd b) ->
  fst (fadd (fmul (xfr (fst b)) (xfr (fst b))) (fmul (xfr (snd b)) (xfr (snd b)))) <> 0 ->
  g_ok (c_div fuel qf mf a b) (gdiv (xfr (fst a), xfr (snd a)) (xfr (fst b), xfr (snd b))).
Proof.
  intros A1 A2 B1 B2 NZ. unfold c_div, gdiv. cbn [fst snd] in *.
  pose proof (den_fr _ A1) as D1. pose proof (den_fr _ A2) as D2. pose proof (den_fr _ B1) as D3. pose proof (den_fr _ B2) as D4.
  set (ar := xfr (fst a)) in *. set (ai := xfr (snd a)) in *. set (br := xfr (fst b)) in *. set (bi := xfr (snd b)) in *.
  assert (M : forall x y, snd x <> 0 -> snd y <> 0 -> snd (fmul x y) <> 0) by (intros; unfold fmul; cbn [snd]; nia).
  assert (A : forall x y, snd x <> 0 -> snd y <> 0 -> snd (fadd x y) <> 0) by (intros; unfold fadd; cbn [snd]; nia).
  assert (S : forall x y, snd x <> 0 -> snd y <> 0 -> snd (fsub x y) <> 0) by (intros; unfold fsub; cbn [snd]; nia).
  eapply xbind_ok; [|apply x_mul_ok; assumption|]; [apply M; assumption|]. intros t1 W1 E1.
  eapply xbind_ok; [|apply x_mul_ok; assumption|]; [apply M; assumption|]. intros t2 W2 E2.
  eapply xbind_ok; [|apply (chain (x_add fuel qf mf) fadd t1 t2 (fmul br br) (fmul bi bi) x_add_ok fadd_comp W1 W2);
                      [apply M; assumption|apply M; assumption|exact E1|exact E2]|].
  { apply A; apply M; assumption. } intros den Wden Eden.
  eapply xbind_ok; [|apply x_mul_ok; assumption|]; [apply M; assumption|]. intros t3 W3 E3.
  eapply xbind_ok; [|apply x_mul_ok; assumption|]; [apply M; assumption|]. intros t4 W4 E4.
  eapply xbind_ok; [|apply (chain (x_add fuel qf mf) fadd t3 t4 (fmul ar br) (fmul ai bi) x_add_ok fadd_comp W3 W4);
                      [apply M; assumption|apply M; assumption|exact E3|exact E4]|].
  { apply A; apply M; assumption. } intros rn Wrn Ern.
  set (n2 := fadd (fmul br br) (fmul bi bi)) in *.
  assert (Dn2 : snd n2 <> 0) by (apply A; apply M; assumption).
  destruct (chain_div rn den (fadd (fmul ar br) (fmul ai bi)) n2 Wrn Wden) as [Qre Dre]; try assumption.
  { apply A; apply M; assumption. }
  eapply xbind_ok; [exact Dre|exact Qre|]. intros re Wre Ere.
  eapply xbind_ok; [|apply x_mul_ok; assumption|]; [apply M; assumption|]. intros t5 W5 E5.
  eapply xbind_ok; [|apply x_mul_ok; assumption|]; [apply M; assumption|]. intros t6 W6 E6.
  eapply xbind_ok; [|apply (chain (x_sub fuel qf mf) fsub t5 t6 (fmul ai br) (fmul ar bi) x_sub_ok fsub_comp W5 W6);
                      [apply M; assumption|apply M; assumption|exact E5|exact E6]|].
  { apply S; apply M; assumption. } intros inum Winum Einum.
  destruct (chain_div inum den (fsub (fmul ai br) (fmul ar bi)) n2 Winum Wden) as [Qim Dim]; try assumption.
  { apply S; apply M; assumption. }
  eapply xbind_ok; [exact Dim|exact Qim|]. intros im Wim Eim.
  apply mk_complex_ok; assumption.
Qed.

(** a non-zero divisor has a non-zero squared norm *)
Lemma norm_nz br bi : snd br <> 0 -> snd bi <> 0 -> (fst br <> 0 \/ fst bi <> 0) ->
  fst (fadd (fmul br br) (fmul bi bi)) <> 0.
Proof.
  destruct br as [a b], bi as [c d]. unfold fadd, fmul. cbn [fst snd]. intros Hb Hd H.
  assert (0 < b * b) by nia. assert (0 < d * d) by nia.
  assert (0 <= a * a) by nia. assert (0 <= c * c) by nia.
  destruct H as [H|H].
  - assert (0 < a * a) by nia. nia.
  - assert (0 < c * c) by nia. nia.
Qed.

Theorem g_div_ok a b : wf_g a -> wf_g b -> (fst (fst (gfr b)) <> 0 \/ fst (snd (gfr b)) <> 0) ->
  g_ok (g_div fuel qf mf a b) (gdiv (gfr a) (gfr b)).
Proof.
  intros Wa Wb NZ.
  destruct (parts_ok a Wa) as (A1 & A2 & A3 & A4). destruct (parts_ok b Wb) as (B1 & B2 & B3 & B4).
  assert (C : g_ok (c_div fuel qf mf (parts a) (parts b)) (gdiv (gfr a) (gfr b))).
  { pose proof (c_div_ok (parts a) (parts b) A1 A2 B1 B2) as P. rewrite A3, A4, B3, B4 in P.
    destruct (gfr a) as [far fai] eqn:Ga, (gfr b) as [fbr fbi] eqn:Gb. cbn [fst snd] in *. apply P.
    apply norm_nz; [rewrite <- B3; apply den_fr; assumption|rewrite <- B4; apply den_fr; assumption|exact NZ]. }
  destruct a as [x|ar ai], b as [y|br bi]; try exact C.
  (* real / real: sexp_div's own entries (ratio_normalize / sexp_ratio_div) *)
  cbn [g_div gfr fst snd] in *.
  assert (Hy : fst (xfr y) <> 0) by (destruct NZ as [H|H]; [exact H|exfalso; apply H; reflexivity]).
  pose proof (den_fr _ Wa) as Dx. pose proof (den_fr _ Wb) as Dy.
  assert (L : g_ok (lift (x_div fuel qf mf x y)) (fdiv (xfr x) (xfr y), (0, 1))).
  { apply lift_ok; [|apply x_div_ok; assumption]. unfold fdiv; cbn [snd]; nia. }
  destruct (lift (x_div fuel qf mf x y)) as [g| |]; try exact I. cbn [g_ok fst snd] in *.
  destruct L as (L1 & L2 & L3). repeat split; try assumption.
  - unfold gdiv, fdiv, fadd, fmul, feqv in *. cbn [fst snd] in *.
    destruct (xfr x) as [a b], (xfr y) as [c d]. cbn [fst snd] in *.
    rewrite !Z.mul_0_l, !Z.mul_0_r, !Z.add_0_r, !Z.mul_1_r in *.
    replace (fst (fst (gfr g)) * (b * d * (c * c))) with ((fst (fst (gfr g)) * (b * c)) * (d * c)) by ring.
    rewrite L2. ring.
  - unfold gdiv, fdiv, fsub, fadd, fmul, feqv in *. cbn [fst snd] in *.
    rewrite !Z.mul_0_l, !Z.mul_0_r in *. replace (fst (snd (gfr g))) with 0 by lia. ring.
Qed.
End Fuel.

(** non-vacuity: the witnesses of F-C04-9 / F-C04-10 on the model (fixnum parts at the limits; a ratio
    minus a complex number) *)
Example complex_example :
  g_mul 50 20 40 (GC (XInt (Fix 2305843009213693952)) (XInt (Fix 1))) (GC (XInt (Fix 1)) (XInt (Fix (-2305843009213693952))))
  = GV (GC (XInt (Big 1 [4611686018427387904])) (XInt (Big (-1) [18446744073709551615; 288230376151711743])))
  /\ g_sub 50 20 40 (GR (XRat (Fix 1) (Fix 2))) (GC (XRat (Fix 3) (Fix 4)) (XInt (Fix (-5))))
     = GV (GC (XRat (Fix (-1)) (Fix 4)) (XInt (Fix 5)))
  /\ g_sub 50 20 40 (GC (XInt (Fix 1)) (XInt (Fix 2))) (GC (XInt (Fix 3)) (XInt (Fix 2))) = GV (GR (XInt (Fix (-2)))).
Proof. vm_compute. repeat split; reflexivity. Qed.
