(** Sanity of the SPEC used as the oracle of the outer correspondence: its round-to-even is the
    rounding characterised by [round_ok] (the statement proved about sexp_ratio_round), and there is
    only one such integer. *)
From ChibiV Require Import Common.Words C04.Spec C04.ProofsRound.
From Coq Require Import ZifyBool.
Local Open Scope Z_scope.

Lemma qround_round_ok n d : 0 < d -> round_ok n d (qround n d).
Proof.
  intros Hd. unfold qround, round_ok.
  pose proof (Z.div_mod n d ltac:(lia)) as Hdm. pose proof (Z.mod_pos_bound n d Hd) as Hmb.
  set (q := n / d) in *.
  assert (Hr : n - q * d = n mod d) by lia. rewrite Hr.
  destruct (Z.ltb_spec (2 * (n mod d)) d); [left; lia|].
  destruct (Z.gtb_spec (2 * (n mod d)) d); [left; lia|].
  destruct (Z.even q) eqn:He; [right; split; [lia|exact He]|].
  right. split; [lia|]. rewrite Z.even_add, He. reflexivity.
Qed.

Lemma round_ok_unique n d R1 R2 : 0 < d -> round_ok n d R1 -> round_ok n d R2 -> R1 = R2.
Proof.
  intros Hd H1 H2. unfold round_ok in *.
  assert (Hc : R1 = R2 \/ R1 = R2 + 1 \/ R2 = R1 + 1 \/ R1 - R2 >= 2 \/ R2 - R1 >= 2) by lia.
  destruct Hc as [E|[E|[E|[E|E]]]]; [exact E| | | |]; exfalso.
  - subst R1. destruct H1 as [H1|[H1 E1]], H2 as [H2|[H2 E2]]; try nia.
    rewrite Z.even_add in E1. rewrite E2 in E1. discriminate.
  - subst R2. destruct H1 as [H1|[H1 E1]], H2 as [H2|[H2 E2]]; try nia.
    rewrite Z.even_add in E2. rewrite E1 in E2. discriminate.
  - destruct H1 as [H1|[H1 _]], H2 as [H2|[H2 _]]; nia.
  - destruct H1 as [H1|[H1 _]], H2 as [H2|[H2 _]]; nia.
Qed.

From ChibiV Require Import C04.Model C04.Model2 C04.Model3 C04.Model6 C04.ProofsFx.
Theorem ratio_round_eq_spec qf mf n d R : wf_num n -> wf_num d -> canon d ->
  1 < nval d -> Z.gcd (nval n) (nval d) = 1 ->
  ratio_round qf mf n d = NV R -> nval R = qround (nval n) (nval d).
Proof.
  intros Hn Hd Cd Hd1 Hg H.
  apply (round_ok_unique (nval n) (nval d)); [lia| |apply qround_round_ok; lia].
  apply (ratio_round_spec qf mf n d R); assumption.
Qed.
