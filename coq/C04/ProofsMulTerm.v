(** Karatsuba (sexp_bignum_mul) terminates: for all well-formed operands there is a fuel for which
    the model returns.  The argument is the one that makes the C recursion end: every recursive
    call has operands of strictly smaller VALUE (their lengths need not shrink when blen is 2 or 3,
    because hi (b1 + b0) can equal hi b), and the swap alen < blen happens at most once in a row.
    The fuel is not bounded here (a bound on the recursion depth stays open). *)
From ChibiV Require Import Common.Words C04.Model C04.Model2 C04.Proofs C04.ProofsFx C04.ProofsMul.
From Coq Require Import ZifyBool.
Local Open Scope Z_scope.

Lemma bignum_mul_S f x y :
  bignum_mul (S f) x y =
  let '(sa, a) := x in let '(sb, b) := y in
  if (hi a <? hi b)%nat then bignum_mul f y x
  else if (hi b =? 1)%nat then Some (sa * sb, fxmul a (nth 0 b 0) 0)
  else
    let k := (hi b / 2)%nat in
    let a0 := split_lo a k in let a1 := split_hi a k in
    let b0 := split_lo b k in let b1 := split_hi b k in
    let t0 := bignum_add a1 a0 in
    let t1 := bignum_add b1 b0 in
    match bignum_mul f t1 t0, bignum_mul f a0 b0, bignum_mul f a1 b1 with
    | Some z1, Some z0, Some z2 =>
        let z1 := bignum_sub z1 z0 in
        let z1 := bignum_sub z1 z2 in
        let z2 := shift (snd z2) (2 * k) in
        let z1 := shift (snd z1) k in
        let z1 := bignum_add z1 z0 in
        let z1 := bignum_add z1 z2 in
        Some (sa * sb, snd z1)
    | _, _, _ => None
    end.
Proof. reflexivity. Qed.

Lemma mul_fuel_S : forall f x y r, bignum_mul f x y = Some r -> bignum_mul (S f) x y = Some r.
Proof.
  induction f as [|f IH]; intros x y r H; [discriminate|].
  rewrite bignum_mul_S in H. rewrite (bignum_mul_S (S f)).
  destruct x as [sa a], y as [sb b]. cbv zeta in *.
  destruct (hi a <? hi b)%nat; [apply IH; exact H|].
  destruct (hi b =? 1)%nat; [exact H|].
  destruct (bignum_mul f (bignum_add (split_hi b (hi b / 2)) (split_lo b (hi b / 2)))
                         (bignum_add (split_hi a (hi b / 2)) (split_lo a (hi b / 2)))) as [z1|] eqn:E1; [|discriminate].
  destruct (bignum_mul f (split_lo a (hi b / 2)) (split_lo b (hi b / 2))) as [z0|] eqn:E0; [|discriminate].
  destruct (bignum_mul f (split_hi a (hi b / 2)) (split_hi b (hi b / 2))) as [z2|] eqn:E2; [|discriminate].
  rewrite (IH _ _ _ E1), (IH _ _ _ E0), (IH _ _ _ E2). exact H.
Qed.

Lemma mul_fuel_le : forall g f x y r, (f <= g)%nat -> bignum_mul f x y = Some r -> bignum_mul g x y = Some r.
Proof.
  induction g as [|g IH]; intros f x y r Hle H.
  - assert (f = 0%nat) as -> by lia. exact H.
  - destruct (Nat.eq_dec f (S g)) as [->|Hne]; [exact H|].
    apply mul_fuel_S. apply (IH f); [lia|exact H].
Qed.

(** the split parts and their sums are strictly smaller than the number *)
Lemma split_smaller a k : words a -> a <> [] -> (1 <= k < hi a)%nat ->
  let v0 := bval (split_lo a k) in let v1 := bval (split_hi a k) in
  0 <= v0 < val a /\ 0 <= v1 < val a /\ v1 + v0 < val a.
Proof.
  intros Ha Hna Hk. cbv zeta.
  destruct (split_spec a k Ha Hna Hk) as (W0 & W1 & Hv).
  assert (N0 : 0 <= bval (split_lo a k)).
  { unfold split_lo, bval. cbn [fst snd]. rewrite Z.mul_1_l. apply val_nonneg. apply W0. }
  assert (N1 : 0 <= bval (split_hi a k)).
  { unfold split_hi, bval. cbn [fst snd]. rewrite Z.mul_1_l. apply val_nonneg. apply W1. }
  assert (U0 : bval (split_lo a k) < B ^ Z.of_nat k).
  { unfold split_lo, bval. cbn [fst snd]. rewrite Z.mul_1_l.
    pose proof (val_bound (firstn k a) (words_firstn k a Ha)) as Hb.
    eapply Z.lt_le_trans; [exact Hb|]. apply Z.pow_le_mono_r; [reflexivity|]. rewrite firstn_length. lia. }
  pose proof (val_ge_pow_hi a Ha ltac:(lia)) as Hge.
  assert (Hp : B ^ Z.of_nat k <= B ^ Z.of_nat (hi a - 1)) by (apply Z.pow_le_mono_r; [reflexivity|lia]).
  assert (Hp2 : 2 <= B ^ Z.of_nat k).
  { assert (B ^ 1 <= B ^ Z.of_nat k) by (apply Z.pow_le_mono_r; [reflexivity|lia]).
    rewrite Z.pow_1_r in H. unfold B in H at 1. lia. }
  set (v0 := bval (split_lo a k)) in *. set (v1 := bval (split_hi a k)) in *. set (P := B ^ Z.of_nat k) in *.
  assert (1 <= v1) by nia.
  repeat split; nia.
Qed.

Definition msr (x y : big) : Z :=
  2 * (val (snd x) + val (snd y)) + (if (hi (snd x) <? hi (snd y))%nat then 1 else 0).

Lemma karatsuba_terminates_aux : forall n x y, wf_big x -> wf_big y -> msr x y < Z.of_nat n ->
  exists fuel r, bignum_mul fuel x y = Some r.
Proof.
  induction n as [|n IH]; intros x y Hx Hy Hm.
  - exfalso. unfold msr in Hm. pose proof (val_nonneg _ (proj1 (proj2 Hx))). pose proof (val_nonneg _ (proj1 (proj2 Hy))).
    destruct (hi (snd x) <? hi (snd y))%nat; lia.
  - destruct x as [sa a], y as [sb b].
    pose proof Hx as (Hsa & Ha & Hna). pose proof Hy as (Hsb & Hb & Hnb). cbn [fst snd] in *.
    unfold msr in Hm. cbn [fst snd] in Hm.
    destruct (Nat.ltb_spec (hi a) (hi b)) as [Hlt|Hge].
    + (* swap *)
      destruct (IH (sb, b) (sa, a) Hy Hx) as (f & r & Hf).
      { unfold msr. cbn [fst snd]. destruct (Nat.ltb_spec (hi b) (hi a)); lia. }
      exists (S f), r. rewrite bignum_mul_S. cbv zeta.
      destruct (Nat.ltb_spec (hi a) (hi b)); [exact Hf|lia].
    + destruct (Nat.eqb_spec (hi b) 1) as [Hb1|Hb1].
      * exists 1%nat, (sa * sb, fxmul a (nth 0 b 0) 0). rewrite bignum_mul_S. cbv zeta.
        destruct (Nat.ltb_spec (hi a) (hi b)); [lia|]. rewrite Hb1. reflexivity.
      * pose proof (hi_ge1 b) as Hhb.
        set (k := (hi b / 2)%nat) in *.
        assert (Hk : (1 <= k < hi b)%nat).
        { unfold k. split; [apply Nat.div_le_lower_bound; lia|apply Nat.div_lt; lia]. }
        destruct (split_spec a k Ha Hna ltac:(lia)) as (Wa0 & Wa1 & _).
        destruct (split_spec b k Hb Hnb ltac:(lia)) as (Wb0 & Wb1 & _).
        pose proof (split_smaller a k Ha Hna ltac:(lia)) as Sa. cbv zeta in Sa.
        pose proof (split_smaller b k Hb Hnb ltac:(lia)) as Sb. cbv zeta in Sb.
        destruct (bignum_add_spec _ _ Wa1 Wa0) as [Vt0 Wt0].
        destruct (bignum_add_spec _ _ Wb1 Wb0) as [Vt1 Wt1].
        assert (Hval : forall z, wf_big z -> 0 <= bval z -> val (snd z) = bval z) by (intros; apply val_snd_nonneg; assumption).
        assert (M : forall u v, wf_big u -> wf_big v -> 0 <= bval u -> 0 <= bval v ->
                    bval u + bval v + 1 <= val a + val b -> msr u v < Z.of_nat n).
        { intros u v Wu Wv Nu Nv Hs. unfold msr. rewrite (Hval u Wu Nu), (Hval v Wv Nv).
          destruct (hi (snd u) <? hi (snd v))%nat; lia. }
        destruct (IH _ _ Wt1 Wt0) as (f1 & r1 & E1); [apply M; try assumption; lia|].
        destruct (IH _ _ Wa0 Wb0) as (f0 & r0 & E0); [apply M; try assumption; lia|].
        destruct (IH _ _ Wa1 Wb1) as (f2 & r2 & E2); [apply M; try assumption; lia|].
        set (F := Nat.max f1 (Nat.max f0 f2)).
        apply (mul_fuel_le F) in E1; [|unfold F; lia].
        apply (mul_fuel_le F) in E0; [|unfold F; lia].
        apply (mul_fuel_le F) in E2; [|unfold F; lia].
        eexists (S F), _. rewrite bignum_mul_S. cbv zeta.
        destruct (Nat.ltb_spec (hi a) (hi b)); [lia|].
        destruct (Nat.eqb_spec (hi b) 1); [contradiction|].
        fold k. rewrite E1, E0, E2. reflexivity.
Qed.

(** total correctness of Karatsuba multiplication *)
Theorem karatsuba_total x y : wf_big x -> wf_big y ->
  exists fuel r, bignum_mul fuel x y = Some r /\ bval r = bval x * bval y /\ wf_big r.
Proof.
  intros Hx Hy.
  destruct (karatsuba_terminates_aux (S (Z.to_nat (msr x y))) x y Hx Hy) as (f & r & H).
  { unfold msr. pose proof (val_nonneg _ (proj1 (proj2 Hx))). pose proof (val_nonneg _ (proj1 (proj2 Hy))).
    destruct (hi (snd x) <? hi (snd y))%nat; lia. }
  exists f, r. split; [exact H|]. apply (bignum_mul_spec f x y r Hx Hy H).
Qed.

(** ** expt by squaring terminates as well (for some loop fuel and some Karatsuba fuel) *)
From ChibiV Require Import C04.Model3 C04.ProofsQuot.

Lemma expt_loop_mono : forall fuel mf mf' e res acc r, (mf <= mf')%nat ->
  expt_loop fuel mf e res acc = Some r -> expt_loop fuel mf' e res acc = Some r.
Proof.
  induction fuel as [|f IH]; intros mf mf' e res acc r Hle H; [discriminate|].
  cbn [expt_loop] in *. destruct (e =? 0); [exact H|].
  destruct (if Z.odd e then bignum_mul mf res acc else Some res) as [res'|] eqn:E1; [|discriminate].
  destruct (bignum_mul mf acc acc) as [acc'|] eqn:E2; [|discriminate].
  assert (E1' : (if Z.odd e then bignum_mul mf' res acc else Some res) = Some res').
  { destruct (Z.odd e); [apply (mul_fuel_le mf' mf); assumption|exact E1]. }
  rewrite E1', (mul_fuel_le mf' mf _ _ _ Hle E2). apply (IH mf); assumption.
Qed.

Lemma expt_loop_fuel_S : forall fuel mf e res acc r,
  expt_loop fuel mf e res acc = Some r -> expt_loop (S fuel) mf e res acc = Some r.
Proof.
  induction fuel as [|f IH]; intros mf e res acc r H; [discriminate|].
  cbn [expt_loop] in H. change (expt_loop (S (S f)) mf e res acc) with
    (if e =? 0 then Some res
     else match (if Z.odd e then bignum_mul mf res acc else Some res) with
          | None => None
          | Some res' => match bignum_mul mf acc acc with
                         | None => None
                         | Some acc' => expt_loop (S f) mf (e / 2) res' acc'
                         end
          end).
  destruct (e =? 0); [exact H|].
  destruct (if Z.odd e then bignum_mul mf res acc else Some res) as [res'|]; [|discriminate].
  destruct (bignum_mul mf acc acc) as [acc'|]; [|discriminate]. apply IH. exact H.
Qed.

Lemma expt_loop_terminates : forall n e res acc, wf_big res -> wf_big acc -> 0 <= e < Z.of_nat n ->
  exists fuel mf r, expt_loop fuel mf e res acc = Some r.
Proof.
  induction n as [|n IH]; intros e res acc Hres Hacc He; [lia|].
  destruct (Z.eq_dec e 0) as [->|Hne].
  - exists 1%nat, 0%nat, res. reflexivity.
  - destruct (karatsuba_total acc acc Hacc Hacc) as (f2 & acc' & E2 & _ & W2).
    assert (H1 : exists f1 res', (if Z.odd e then bignum_mul f1 res acc else Some res) = Some res' /\ wf_big res').
    { destruct (Z.odd e).
      - destruct (karatsuba_total res acc Hres Hacc) as (f1 & r1 & E1 & _ & W1). exists f1, r1. tauto.
      - exists 0%nat, res. tauto. }
    destruct H1 as (f1 & res' & E1 & W1).
    destruct (IH (e / 2) res' acc' W1 W2) as (fuel & mf & r & Hr).
    { split; [apply Z.div_pos; lia|]. apply Z.div_lt_upper_bound; lia. }
    set (M := Nat.max mf (Nat.max f1 f2)).
    exists (S fuel), M, r. cbn [expt_loop]. destruct (Z.eqb_spec e 0); [contradiction|].
    assert (E1' : (if Z.odd e then bignum_mul M res acc else Some res) = Some res').
    { destruct (Z.odd e); [apply (mul_fuel_le M f1); [unfold M; lia|exact E1]|exact E1]. }
    rewrite E1', (mul_fuel_le M f2 _ _ _ ltac:(unfold M; lia) E2).
    apply (expt_loop_mono fuel mf M); [unfold M; lia|exact Hr].
Qed.

Theorem bignum_expt_total a e : wf_big a -> 0 <= e ->
  exists fuel mf r, bignum_expt fuel mf a e = Some r /\ nval r = bval a ^ e /\ canon r /\ wf_num r.
Proof.
  intros Ha He.
  destruct (fixnum_to_bignum_spec 1 ltac:(unfold B; lia)) as [W1 _].
  destruct (expt_loop_terminates (S (Z.to_nat e)) e (fixnum_to_bignum 1) a W1 Ha ltac:(lia)) as (fuel & mf & z & Hz).
  assert (Hx : bignum_expt fuel mf a e = Some (normalize (big_num z))) by (unfold bignum_expt; rewrite Hz; reflexivity).
  exists fuel, mf, (normalize (big_num z)). split; [exact Hx|]. apply (bignum_expt_spec fuel mf a e _ Ha He Hx).
Qed.
