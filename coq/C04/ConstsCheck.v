(** The literals of the C04 models are the constants of the source tree being checked
    (coq/Gen/C04_Consts.v is regenerated from it on every run by gen/c04_consts.py). *)
From ChibiV Require Import Common.Words C04.Model C04.Model2 C04.Model3 Gen.C04_Consts.
Local Open Scope Z_scope.

Lemma consts_match :
  src_fixmax = FIXMAX /\ src_fixmin = FIXMIN /\ src_fixnum_bits = 1
  /\ src_uint_max = WMAX /\ 2 ^ src_uint_bits = B /\ 2 ^ src_luint_bits = B2 /\ 2 ^ src_half_shift = HALF
  /\ src_custom_long_longs = 0
  /\ Z.of_nat (length (read_bignum_digits 0 10 [])) = src_init_bignum_size.
Proof. vm_compute. repeat split; reflexivity. Qed.
