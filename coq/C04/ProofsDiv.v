(** sexp_bignum_quot_rem (bignum.c:569-668): soundness from the loop invariant
      |a| = q * |b| + a1      (a1 signed, its sign field = the C variable [sign])
    which holds for ANY quotient-digit guess x (only words x is used), so the subtle estimate
    ([qr_guess]) matters for termination only.  Fuel is explicit: QFuel is "did not finish". *)
From ChibiV Require Import Common.Words C04.Model C04.Model2 C04.Proofs C04.ProofsFx C04.ProofsMul.
From Coq Require Import Zquot ZifyBool.
Local Open Scope Z_scope.

Lemma words_setnth l i v : words l -> isword v -> words (setnth l i v).
Proof.
  intros Hl Hv. unfold setnth. apply words_app; [apply words_firstn; exact Hl|].
  pose proof (words_skipn i l Hl) as Hs. destruct (skipn i l) as [|y t]; [constructor|].
  inversion Hs; subst. constructor; assumption.
Qed.

Lemma setnth_length l i v : length (setnth l i v) = length l.
Proof.
  unfold setnth. rewrite app_length, firstn_length.
  pose proof (skipn_length i l) as Hs. destruct (skipn i l) as [|y t]; cbn [length] in *; lia.
Qed.

Lemma nonempty_length {A} (l : list A) : (0 < length l)%nat -> l <> [].
Proof. destruct l; cbn; [lia|congruence]. Qed.

Lemma isword_modB x : isword (x mod B).
Proof. apply isword_mod. Qed.

Lemma isword_nth0 b : words b -> b <> [] -> isword (nth 0 b 0).
Proof. intros Hb Hn. destruct b as [|w b']; [congruence|]. inversion Hb; subst. assumption. Qed.

(** the loop *)
Lemma qr_loop_spec : forall fuel mf alen0 a1 b1 blen q sign a1' q' sign' A,
  (0 < alen0)%nat -> wf_big a1 -> words b1 -> b1 <> [] -> wf_num q ->
  (sign = 1 \/ sign = -1) -> fst a1 = sign ->
  A = nval q * val b1 + bval a1 ->
  qr_loop fuel mf alen0 a1 b1 blen q sign = Some (a1', q', sign') ->
  wf_big a1' /\ wf_num q' /\ fst a1' = sign' /\ (sign' = 1 \/ sign' = -1)
  /\ A = nval q' * val b1 + bval a1' /\ val (snd a1') < val b1.
Proof.
  induction fuel as [|f IH]; intros mf alen0 a1 b1 blen q sign a1' q' sign' A Hal Ha1 Hb1 Hnb Hq Hs Hfs HA H.
  - cbn [qr_loop] in H. destruct (compare_abs (snd a1) b1 >=? 0) eqn:Hc; [discriminate|].
    apply Some_inj in H. apply pair_equal_spec in H. destruct H as [H <-].
    apply pair_equal_spec in H. destruct H as [<- <-].
    destruct (compare_abs_spec (snd a1) b1 ltac:(apply Ha1) Hb1 ltac:(apply Ha1) Hnb) as [_ Hlt].
    repeat split; try assumption; try apply Ha1. apply Hlt. lia.
  - cbn [qr_loop] in H. destruct (compare_abs (snd a1) b1 >=? 0) eqn:Hc.
    2:{ apply Some_inj in H. apply pair_equal_spec in H. destruct H as [H <-].
        apply pair_equal_spec in H. destruct H as [<- <-].
        destruct (compare_abs_spec (snd a1) b1 ltac:(apply Ha1) Hb1 ltac:(apply Ha1) Hnb) as [_ Hlt].
        repeat split; try assumption; try apply Ha1. apply Hlt. lia. }
    destruct (qr_guess (snd a1) b1 (hi (snd a1)) blen) as [d off].
    set (x0 := setnth (repeat 0 alen0) off ((d / B) mod B)) in *.
    set (x := if (0 <? off)%nat then setnth x0 (off - 1) (d mod B) else x0) in *.
    assert (Hx : wf_big (1, x)).
    { assert (Hx0 : words x0 /\ length x0 = alen0).
      { unfold x0. split; [apply words_setnth; [apply words_repeat0|apply isword_modB]|].
        rewrite setnth_length, repeat_length. reflexivity. }
      destruct Hx0 as [Hx0 Hl0].
      assert (words x /\ length x = alen0) as [Hxw Hxl].
      { unfold x. destruct (0 <? off)%nat; [|split; assumption].
        split; [apply words_setnth; [exact Hx0|apply isword_modB]|rewrite setnth_length; exact Hl0]. }
      split; [cbn [fst]; auto|]. cbn [snd]. split; [exact Hxw|]. apply nonempty_length. lia. }
    assert (Hb1w : wf_big (1, b1)) by (split; [cbn [fst]; auto|split; assumption]).
    destruct (bignum_mul mf (1, b1) (1, x)) as [y|] eqn:Em; [|discriminate].
    apply bignum_mul_spec in Em; [|assumption|assumption]. destruct Em as [Vy Wy].
    unfold bval at 2 3 in Vy. cbn [fst snd] in Vy. rewrite !Z.mul_1_l in Vy.
    set (step := if sign <? 0 then (bignum_add a1 y, num_sub q (Big 1 x))
                 else (bignum_sub a1 y, num_add q (Big 1 x))) in *.
    assert (Hstep : wf_big (fst step) /\ wf_num (snd step)
                    /\ A = nval (snd step) * val b1 + bval (fst step)).
    { unfold step. destruct (sign <? 0); cbn [fst snd].
      - destruct (bignum_add_spec a1 y Ha1 Wy) as [V W].
        destruct (num_sub_spec q (Big 1 x) Hq Hx) as (V2 & _ & W2); [cbn [is_fix]; congruence|].
        split; [exact W|]. split; [exact W2|]. rewrite V, V2, Vy, HA. cbn [nval]. ring.
      - destruct (bignum_sub_spec a1 y Ha1 Wy) as [V W].
        destruct (num_add_spec q (Big 1 x) Hq Hx) as (V2 & _ & W2).
        split; [exact W|]. split; [exact W2|]. rewrite V, V2, Vy, HA. cbn [nval]. ring. }
    destruct step as [a2 q2]. cbn [fst snd] in Hstep. destruct Hstep as (Wa2 & Wq2 & HA2).
    cbv beta iota in H.
    eapply IH in H; try eassumption.
    + destruct (Z.eqb_spec (fst a2) sign); cbn [negb]; [exact Wa2|].
      destruct a2 as [s2 d2]. destruct Wa2 as (Hs2 & Hd2 & Hn2). cbn [fst snd] in *.
      split; [cbn [fst]; lia|split; assumption].
    + destruct (Z.eqb_spec (fst a2) sign); cbn [negb]; lia.
    + destruct (Z.eqb_spec (fst a2) sign); cbn [negb]; [assumption|reflexivity].
    + rewrite HA2. f_equal.
      destruct (Z.eqb_spec (fst a2) sign); cbn [negb]; [reflexivity|].
      destruct a2 as [s2 d2]. destruct Wa2 as (Hs2 & _). cbn [fst snd] in *. unfold bval. cbn [fst snd].
      f_equal. lia.
Qed.

Lemma canon_zero x : canon x -> nval x = 0 -> x = Fix 0.
Proof.
  unfold canon. destruct x as [z|s d]; cbn [is_fix nval]; intros Hc Hv.
  - subst. reflexivity.
  - rewrite Hv in Hc. discriminate.
Qed.

Lemma nval_negate x : (forall z, x = Fix z -> fits_fix (- z) = true) -> nval (negate x) = - nval x.
Proof.
  intros Hf. destruct x as [z|s d]; cbn [negate nval].
  - apply wrap_fix_id. apply Hf. reflexivity.
  - ring.
Qed.

Lemma fits_neg_nonneg x : wf_num x -> 0 <= nval x -> forall z, x = Fix z -> fits_fix (- z) = true.
Proof.
  intros Hw Hv z ->. cbn [wf_num nval] in *. unfold fits_fix, FIXMIN, FIXMAX in *. lia.
Qed.

Lemma negate_if (c : bool) x : wf_num x -> 0 <= nval x ->
  nval (if c then negate x else x) = (if c then - nval x else nval x)
  /\ wf_num (if c then negate x else x).
Proof.
  intros Hw Hv. destruct c; [|split; [reflexivity|exact Hw]].
  apply negate_spec; [exact Hw|]. apply fits_neg_nonneg; assumption.
Qed.

Lemma QR_inj a b c d : QR a b = QR c d -> a = c /\ b = d.
Proof. intros H. split; congruence. Qed.

(** pure-Z core of the sign adjustment at the end of quot_rem *)
Lemma quot_rem_signs sa sb A Vb q r : (sa = 1 \/ sa = -1) -> (sb = 1 \/ sb = -1) ->
  0 <= A -> 0 < Vb -> A = q * Vb + r -> 0 <= r < Vb ->
  (if sa * sb <? 0 then - q else q) = Z.quot (sa * A) (sb * Vb)
  /\ (if sa <? 0 then - r else r) = Z.rem (sa * A) (sb * Vb).
Proof.
  intros Hsa Hsb HA0 HVb HA Hr.
  apply Zquot_mod_unique_full.
  - unfold Remainder.
    destruct (Z.ltb_spec sa 0); destruct Hsa as [-> | ->], Hsb as [-> | ->]; try lia.
    all: rewrite ?Z.mul_1_l; replace (-1 * A) with (- A) by ring; replace (-1 * Vb) with (- Vb) by ring; lia.
  - destruct (Z.ltb_spec (sa * sb) 0); destruct (Z.ltb_spec sa 0);
      destruct Hsa as [-> | ->], Hsb as [-> | ->]; try lia; rewrite HA; ring.
Qed.

Theorem quot_rem_spec fuel mf x y q r : wf_big x -> wf_big y ->
  quot_rem fuel mf x y = QR q r ->
  bval y <> 0 /\ nval q = Z.quot (bval x) (bval y) /\ nval r = Z.rem (bval x) (bval y)
  /\ wf_num q /\ wf_num r.
Proof.
  destruct x as [sa a], y as [sb b]. intros Hx Hy H.
  pose proof Hx as (Hsa & Ha & Hna). pose proof Hy as (Hsb & Hb & Hnb). cbn [fst snd] in *.
  unfold quot_rem in H. unfold bval. cbn [fst snd].
  pose proof (val_nonneg a Ha) as HA0.
  destruct (Nat.eqb_spec (hi b) 1) as [Hb1|Hb1]; cbn [andb] in H.
  - (* single-word divisor *)
    pose proof (hi1_val b Hb Hnb Hb1) as Hvb. unfold wd in H. rewrite <- Hvb in H.
    destruct (Z.eqb_spec (val b) 0) as [Hz|Hnz]; [discriminate|].
    pose proof (val_nonneg b Hb) as HB0.
    assert (HbB : 0 < val b < B).
    { pose proof (isword_nth0 b Hb Hnb) as Hw0. rewrite <- Hvb in Hw0. unfold isword in Hw0. lia. }
    destruct (fxdiv a (val b) 0) as [qs r0] eqn:E.
    apply fxdiv_spec in E; [|assumption|assumption|assumption]. destruct E as (Hv & Hr0 & Hqs & Hql).
    apply QR_inj in H. destruct H as [<- <-].
    assert (Hw : wf_big (1, [r0])).
    { split; [cbn [fst]; auto|]. cbn [snd]. split; [|congruence]. constructor; [unfold isword; lia|constructor]. }
    destruct (normalize_spec 1 [r0] Hw) as (Vn & Cn & Wn).
    assert (Vr0 : val [r0] = r0) by (cbn [val]; ring). rewrite Vr0, Z.mul_1_l in Vn.
    destruct (quot_rem_signs sa sb (val a) (val b) (val qs) r0 Hsa Hsb HA0 ltac:(lia) Hv Hr0) as [HQ HR].
    destruct (negate_if (sa <? 0) _ Wn ltac:(lia)) as [Vr Wr].
    split; [destruct Hsb as [-> | ->]; lia|]. split; [|split; [|split]].
    + rewrite <- HQ. destruct (sa * sb <? 0); cbn [nval]; ring.
    + rewrite Vr, Vn. exact HR.
    + assert (qs <> []) by (apply nonempty_length; destruct a; [congruence|cbn [length] in *; lia]).
      destruct (sa * sb <? 0); (split; [cbn [fst]; auto|split; assumption]).
    + exact Wr.
  - (* general case *)
    cbn [andb] in H.
    pose proof (hi_ge1 b) as Hh.
    assert (HVb : 0 < val b).
    { pose proof (val_ge_pow_hi b Hb ltac:(lia)) as Hge.
      assert (0 < B ^ Z.of_nat (hi b - 1)) by (apply Z.pow_pos_nonneg; [reflexivity|lia]). lia. }
    destruct (qr_loop fuel mf (length a) (1, a) b (hi b) (Fix 0) 1) as [[[a1 q1] sign]|] eqn:E; [|discriminate].
    eapply (qr_loop_spec _ _ _ _ _ _ _ _ _ _ _ (val a)) in E;
      [|destruct a; [congruence|cbn [length]; lia]
       |split; [cbn [fst]; auto|split; assumption]
       |exact Hb|exact Hnb|reflexivity|auto|reflexivity
       |unfold bval; cbn [nval fst snd]; ring].
    destruct E as (Wa1 & Wq1 & Hfs & Hsg & HA & Hlt).
    destruct (normalize_big_spec a1 Wa1) as (Vn & Cn & Wn).
    set (a1n := normalize (big_num a1)) in *.
    assert (Ha1v : bval a1 = sign * val (snd a1)) by (rewrite <- Hfs; reflexivity).
    pose proof (val_nonneg (snd a1) ltac:(apply Wa1)) as Hv1.
    set (adj := (sign <? 0) && negb match a1n with Fix 0 => true | _ => false end) in *.
    assert (Hadj : exists q2 r2, (if adj then (num_sub q1 (Fix 1), num_add a1n (Big 1 b)) else (q1, a1n)) = (q2, r2)
                   /\ wf_num q2 /\ wf_num r2 /\ val a = nval q2 * val b + nval r2 /\ 0 <= nval r2 < val b).
    { destruct adj eqn:Ead.
      - apply andb_prop in Ead. destruct Ead as [Hs Hnz]. apply Z.ltb_lt in Hs.
        assert (sign = -1) as -> by lia.
        assert (Hne : nval a1n <> 0).
        { intros Hz. apply (canon_zero _ Cn) in Hz. rewrite Hz in Hnz. discriminate. }
        assert (Hq1 : 1 <= nval q1) by nia.
        destruct (num_sub_spec q1 (Fix 1) Wq1 eq_refl) as (V2 & _ & W2).
        { intros Hf _. destruct q1 as [z|]; [|discriminate]. cbn [wf_num nval] in *.
          unfold fits_fix, FIXMIN, FIXMAX in *. lia. }
        destruct (num_add_spec a1n (Big 1 b) Wn ltac:(split; [cbn [fst]; auto|split; assumption])) as (V3 & _ & W3).
        eexists _, _. split; [reflexivity|]. split; [exact W2|]. split; [exact W3|].
        rewrite V2, V3, Vn. cbn [nval]. split; nia.
      - eexists _, _. split; [reflexivity|]. split; [exact Wq1|]. split; [exact Wn|].
        rewrite Vn. split; [lia|].
        apply andb_false_elim in Ead. destruct Ead as [Hs|Hz].
        + apply Z.ltb_ge in Hs. assert (sign = 1) as -> by lia. lia.
        + apply negb_false_iff in Hz. destruct a1n as [z|]; [|discriminate].
          destruct z; try discriminate. cbn [nval] in Vn. lia. }
    destruct Hadj as (q2 & r2 & Eq & Wq2 & Wr2 & HA2 & Hr2). rewrite Eq in H.
    apply QR_inj in H. destruct H as [<- <-].
    destruct (quot_rem_signs sa sb (val a) (val b) (nval q2) (nval r2) Hsa Hsb HA0 HVb HA2 Hr2) as [HQ HR].
    assert (Hq2 : 0 <= nval q2) by nia.
    destruct (negate_if (sa * sb <? 0) _ Wq2 Hq2) as [Vq Wq].
    destruct (negate_if (sa <? 0) _ Wr2 ltac:(lia)) as [Vr Wr].
    split; [destruct Hsb as [-> | ->]; lia|]. split; [|split; [|split]].
    + rewrite Vq. exact HQ.
    + rewrite Vr. exact HR.
    + exact Wq.
    + exact Wr.
Qed.

(** division by zero is reported, never computed *)
Lemma quot_rem_divzero fuel mf x y : wf_big x -> wf_big y ->
  (quot_rem fuel mf x y = QDivZero <-> bval y = 0).
Proof.
  destruct x as [sa a], y as [sb b]. intros Hx Hy.
  pose proof Hy as (Hsb & Hb & Hnb). cbn [fst snd] in *. unfold quot_rem, bval. cbn [fst snd].
  destruct (Nat.eqb_spec (hi b) 1) as [Hb1|Hb1]; cbn [andb].
  - pose proof (hi1_val b Hb Hnb Hb1) as Hvb. unfold wd. rewrite <- Hvb.
    destruct (Z.eqb_spec (val b) 0) as [Hz|Hnz].
    + split; [intros _; rewrite Hz; ring|reflexivity].
    + destruct (fxdiv a (val b) 0). split; [discriminate|]. intros Hz. destruct Hsb as [-> | ->]; lia.
  - pose proof (hi_ge1 b) as Hh.
    assert (HVb : 0 < val b).
    { pose proof (val_ge_pow_hi b Hb ltac:(lia)) as Hge.
      assert (0 < B ^ Z.of_nat (hi b - 1)) by (apply Z.pow_pos_nonneg; [reflexivity|lia]). lia. }
    split.
    + destruct (qr_loop _ _ _ _ _ _ _ _) as [[[a1 q1] sign]|]; [|discriminate].
      destruct ((sign <? 0) && negb _); cbv beta iota; discriminate.
    + intros Hz. destruct Hsb as [-> | ->]; lia.
Qed.

(** non-vacuity: an operand pair whose first estimate overshoots (the sign flips) *)
Example quot_rem_example :
  quot_rem 8 16 (1, [5; 0; 0; 7; 9]) (-1, [3; 4; 0])
  = QR (Big (-1) [17582052945254416384; 1152921504606846975; 4611686018427387904; 2; 0]) (Fix 2594073385365405701).
Proof. vm_compute. reflexivity. Qed.
