(** C04: proofs about the store-passing model (Store.v): no generic operation writes an object that
    existed before the call (operands_unchanged), which results can alias an operand
    (result_fresh_or_alias), the objects read back carry the words of the value-level models
    (the store_refines_value lemmas), and negative examples showing the statements are not vacuous. *)
From ChibiV Require Import Common.Words C04.Model C04.Model2 C04.Model3 C04.Model4 C04.Store.
Local Open Scope nat_scope.

(** ** the frame: [σ] extends [σ0] by new objects, everything of [σ0] is as it was *)
Definition ext (σ0 σ : store) : Prop := exists t, σ = σ0 ++ t.

Lemma ext_refl σ : ext σ σ.
Proof. exists []. now rewrite app_nil_r. Qed.

Lemma ext_len σ0 σ : ext σ0 σ -> length σ0 <= length σ.
Proof. intros [t ->]. rewrite app_length. lia. Qed.

Lemma ext_lookup σ0 σ r : ext σ0 σ -> r < length σ0 -> lookup σ r = lookup σ0 r.
Proof. intros [t ->] L. unfold lookup. now apply nth_error_app1. Qed.

Lemma ext_trans σ0 σ1 σ2 : ext σ0 σ1 -> ext σ1 σ2 -> ext σ0 σ2.
Proof. intros [t ->] [u ->]. exists (t ++ u). now rewrite app_assoc. Qed.

Lemma write_length σ r o : length (write σ r o) = length σ.
Proof. revert r; induction σ as [|x t IH]; intros [|r]; cbn [write length]; auto. Qed.

Lemma write_app_ge σ0 t r o : length σ0 <= r -> write (σ0 ++ t) r o = σ0 ++ write t (r - length σ0) o.
Proof.
  revert r; induction σ0 as [|x s IH]; intros r L; cbn [length app] in *.
  - now rewrite Nat.sub_0_r.
  - destruct r as [|r]; [lia|]. cbn [write]. rewrite IH by lia. reflexivity.
Qed.

(** THE frame lemma: a write at a reference allocated after [σ0] leaves [σ0] alone *)
Lemma ext_write σ0 σ r o : ext σ0 σ -> length σ0 <= r -> ext σ0 (write σ r o).
Proof. intros [t ->] L. rewrite write_app_ge by assumption. now eexists. Qed.

Lemma ext_app σ0 σ o : ext σ0 σ -> ext σ0 (σ ++ [o]).
Proof. intros [t ->]. exists (t ++ [o]). now rewrite app_assoc. Qed.

Lemma write_below_preserved σ r o n :
  n <= r -> forall ref, ref < n -> lookup (write σ r o) ref = lookup σ ref.
Proof.
  revert r n; induction σ as [|x t IH]; intros r n L ref Lr; [destruct r; reflexivity|].
  destruct r as [|r]; [lia|]. destruct ref as [|ref]; [reflexivity|].
  cbn [write]. unfold lookup in *. cbn [nth_error]. apply (IH r (n - 1)); lia.
Qed.

Lemma lookup_write_same σ r o : r < length σ -> lookup (write σ r o) r = Some o.
Proof.
  revert r; induction σ as [|x t IH]; intros r L; cbn [length] in L; [lia|].
  destruct r as [|r]; [reflexivity|]. cbn [write]. unfold lookup in *. cbn [nth_error]. apply IH. lia.
Qed.

Lemma lookup_alloc σ o : lookup (σ ++ [o]) (length σ) = Some o.
Proof. unfold lookup. rewrite nth_error_app2 by lia. now rewrite Nat.sub_diag. Qed.

(** results of the helpers: the store still extends [σ0], the returned reference is new w.r.t. [σ0] *)
Definition ok (σ0 : store) (p : store * nat) : Prop := ext σ0 (fst p) /\ length σ0 <= snd p.

Lemma ok_alloc σ0 σ o : ext σ0 σ -> ok σ0 (alloc σ o).
Proof. intros E. split; cbn [alloc fst snd]; [now apply ext_app | now apply ext_len]. Qed.

Ltac bind f lem :=
  match goal with
  | |- context [let '(_, _) := f ?a ?b in _] =>
      let E := fresh "E" in let K := fresh "K" in let s := fresh "σ" in let c := fresh "c" in
      pose proof (lem a b) as K; destruct (f a b) as [s c] eqn:E
  | |- context [let '(_, _) := f ?a ?b ?c0 in _] =>
      let E := fresh "E" in let K := fresh "K" in let s := fresh "σ" in let c := fresh "c" in
      pose proof (lem a b c0) as K; destruct (f a b c0) as [s c] eqn:E
  | |- context [let '(_, _) := f ?a ?b ?c0 ?d in _] =>
      let E := fresh "E" in let K := fresh "K" in let s := fresh "σ" in let c := fresh "c" in
      pose proof (lem a b c0 d) as K; destruct (f a b c0 d) as [s c] eqn:E
  end.

Lemma s_copy_ok σ0 σ a : ext σ0 σ -> ok σ0 (s_copy σ a).
Proof. intros; now apply ok_alloc. Qed.

Lemma s_fix2big_ok σ0 σ z : ext σ0 σ -> ok σ0 (s_fix2big σ z).
Proof. intros; now apply ok_alloc. Qed.

Lemma s_fxadd_ok σ0 σ a b : ext σ0 σ -> length σ0 <= a -> ok σ0 (s_fxadd σ a b).
Proof.
  intros E L. unfold s_fxadd. destruct (get σ a) as [s d]. destruct (fxadd_loop _ _) as [r c].
  destruct (Z.eqb c 0).
  - split; cbn [fst snd]; auto using ext_write.
  - apply ok_alloc. now apply ext_write.
Qed.

Lemma s_fxsub_ok σ0 σ a b : ext σ0 σ -> length σ0 <= a -> ok σ0 (s_fxsub σ a b).
Proof. intros E L. unfold s_fxsub. split; cbn [fst snd]; auto using ext_write. Qed.

Lemma s_add_fixnum_ok σ0 σ a z : ext σ0 σ -> ok σ0 (s_add_fixnum σ a z).
Proof.
  intros E. unfold s_add_fixnum.
  pose proof (s_copy_ok σ0 σ a E) as K. destruct (s_copy σ a) as [σ1 c]. destruct K as [K1 K2].
  cbn [fst snd] in *. destruct (Z.eqb _ _); [now apply s_fxadd_ok | now apply s_fxsub_ok].
Qed.

Definition dst_ok (σ0 : store) (dst : option nat) : Prop :=
  match dst with Some t => length σ0 <= t | None => True end.

Lemma s_pick_ok σ0 σ dst a : ext σ0 σ -> dst_ok σ0 dst -> ok σ0 (s_pick σ dst a).
Proof.
  intros E D. unfold s_pick. destruct dst as [t|]; [|now apply s_copy_ok].
  destruct (_ <=? _); [split; cbn [fst snd]; auto | now apply s_copy_ok].
Qed.

Lemma s_add_digits_ord_ok σ0 σ dst a b : ext σ0 σ -> dst_ok σ0 dst -> ok σ0 (s_add_digits_ord σ dst a b).
Proof.
  intros E D. unfold s_add_digits_ord. destruct (add_loop _ _ _) as [r cf].
  pose proof (s_pick_ok σ0 σ dst a E D) as K. destruct (s_pick σ dst a) as [σ1 c]. destruct K as [K1 K2].
  cbn [fst snd] in *. destruct (get σ1 c) as [sc dc]. destruct (Z.eqb cf 0).
  - split; cbn [fst snd]; auto using ext_write.
  - apply ok_alloc. now apply ext_write.
Qed.

Lemma s_add_digits_ok σ0 σ dst a b : ext σ0 σ -> dst_ok σ0 dst -> ok σ0 (s_add_digits σ dst a b).
Proof. intros E D. unfold s_add_digits. destruct (_ <? _); now apply s_add_digits_ord_ok. Qed.

Lemma s_sub_digits_ord_ok σ0 σ dst a b : ext σ0 σ -> dst_ok σ0 dst -> ok σ0 (s_sub_digits_ord σ dst a b).
Proof.
  intros E D. unfold s_sub_digits_ord.
  pose proof (s_pick_ok σ0 σ dst a E D) as K. destruct (s_pick σ dst a) as [σ1 c]. destruct K as [K1 K2].
  cbn [fst snd] in *. destruct (get σ1 c) as [sc dc].
  split; cbn [fst snd]; auto using ext_write.
Qed.

Lemma s_sub_digits_ok σ0 σ dst a b : ext σ0 σ -> dst_ok σ0 dst -> ok σ0 (s_sub_digits σ dst a b).
Proof. intros E D. unfold s_sub_digits. destruct (_ || _); now apply s_sub_digits_ord_ok. Qed.

Lemma set_sign_ext σ0 σ r s : ext σ0 σ -> length σ0 <= r -> ext σ0 (set_sign σ r s).
Proof. intros; now apply ext_write. Qed.

Lemma s_bignum_add_ok σ0 σ dst a b : ext σ0 σ -> dst_ok σ0 dst -> ok σ0 (s_bignum_add σ dst a b).
Proof.
  intros E D. unfold s_bignum_add. destruct (Z.eqb _ _).
  - pose proof (s_add_digits_ok σ0 σ dst a b E D) as K. destruct (s_add_digits σ dst a b) as [σ1 c].
    destruct K as [K1 K2]. cbn [fst snd] in *. split; cbn [fst snd]; auto using set_sign_ext.
  - pose proof (s_sub_digits_ok σ0 σ dst a b E D) as K. destruct (s_sub_digits σ dst a b) as [σ1 c].
    destruct K as [K1 K2]. cbn [fst snd] in *. split; cbn [fst snd]; auto using set_sign_ext.
Qed.

Lemma s_bignum_sub_ok σ0 σ dst a b : ext σ0 σ -> dst_ok σ0 dst -> ok σ0 (s_bignum_sub σ dst a b).
Proof.
  intros E D. unfold s_bignum_sub. destruct (get σ a) as [sa da]. destruct (get σ b) as [sb db].
  destruct (Z.eqb _ _).
  - pose proof (s_sub_digits_ok σ0 σ dst a b E D) as K. destruct (s_sub_digits σ dst a b) as [σ1 c].
    destruct K as [K1 K2]. cbn [fst snd] in *. split; cbn [fst snd]; auto using set_sign_ext.
  - pose proof (s_add_digits_ok σ0 σ dst a b E D) as K. destruct (s_add_digits σ dst a b) as [σ1 c].
    destruct K as [K1 K2]. cbn [fst snd] in *. split; cbn [fst snd]; auto using set_sign_ext.
Qed.

(** ** generic operations *)
Definition vfresh (σ0 : store) (v : value) : Prop :=
  match v with VFix _ => True | VRef r => length σ0 <= r end.
Definition rfresh (σ0 : store) (r : sres) : Prop :=
  match r with SV v => vfresh σ0 v | _ => True end.
Definition okv (σ0 : store) (p : store * sres) : Prop := ext σ0 (fst p) /\ rfresh σ0 (snd p).

Lemma s_normalize_fresh σ0 σ c : length σ0 <= c -> vfresh σ0 (s_normalize σ c).
Proof. intros L. unfold s_normalize. destruct (normalize _); cbn [vfresh]; auto. Qed.

Lemma okv_err σ0 σ e : ext σ0 σ -> e = SErr \/ e = SFuel -> okv σ0 (σ, e).
Proof. intros E [-> | ->]; split; cbn; auto. Qed.

Lemma okv_fix σ0 σ z : ext σ0 σ -> okv σ0 (σ, SV (VFix z)).
Proof. intros E; split; cbn; auto. Qed.

Lemma okv_norm σ0 σ c : ext σ0 σ -> length σ0 <= c -> okv σ0 (σ, SV (s_normalize σ c)).
Proof. intros E L; split; cbn [fst snd rfresh]; auto using s_normalize_fresh. Qed.

Lemma s_add_okv σ0 σ a b : ext σ0 σ -> okv σ0 (s_add σ a b).
Proof.
  intros E. unfold s_add.
  destruct (classify σ a) as [x|ra|]; destruct (classify σ b) as [y|rb|]; try solve [apply okv_err; auto].
  - destruct (_ || _); [|now apply okv_fix].
    pose proof (s_fix2big_ok σ0 σ x E) as K. destruct (s_fix2big σ x) as [σ1 t]. destruct K as [K1 K2].
    cbn [fst snd] in *.
    pose proof (s_add_fixnum_ok σ0 σ1 t y K1) as K. destruct (s_add_fixnum σ1 t y) as [σ2 c].
    destruct K as [K3 K4]. cbn [fst snd] in *. now apply okv_norm.
  - pose proof (s_add_fixnum_ok σ0 σ rb x E) as K. destruct (s_add_fixnum σ rb x) as [σ2 c].
    destruct K as [K3 K4]. cbn [fst snd] in *. now apply okv_norm.
  - pose proof (s_add_fixnum_ok σ0 σ ra y E) as K. destruct (s_add_fixnum σ ra y) as [σ2 c].
    destruct K as [K3 K4]. cbn [fst snd] in *. now apply okv_norm.
  - pose proof (s_bignum_add_ok σ0 σ None rb ra E I) as K. destruct (s_bignum_add σ None rb ra) as [σ2 c].
    destruct K as [K3 K4]. cbn [fst snd] in *. now apply okv_norm.
Qed.

Lemma s_sub_okv σ0 σ a b : ext σ0 σ -> okv σ0 (s_sub σ a b).
Proof.
  intros E. unfold s_sub.
  destruct (classify σ a) as [x|ra|]; destruct (classify σ b) as [y|rb|]; try solve [apply okv_err; auto].
  - destruct (_ || _); [|now apply okv_fix].
    pose proof (s_fix2big_ok σ0 σ x E) as K. destruct (s_fix2big σ x) as [σ1 t1]. destruct K as [K1 K2].
    cbn [fst snd] in *.
    pose proof (s_fix2big_ok σ0 σ1 y K1) as K. destruct (s_fix2big σ1 y) as [σ2 t2]. destruct K as [K3 K4].
    cbn [fst snd] in *.
    pose proof (s_bignum_sub_ok σ0 σ2 None t1 t2 K3 I) as K. destruct (s_bignum_sub σ2 None t1 t2) as [σ3 c].
    destruct K as [K5 K6]. cbn [fst snd] in *. now apply okv_norm.
  - pose proof (s_fix2big_ok σ0 σ x E) as K. destruct (s_fix2big σ x) as [σ1 t1]. destruct K as [K1 K2].
    cbn [fst snd] in *.
    pose proof (s_bignum_sub_ok σ0 σ1 None rb t1 K1 I) as K. destruct (s_bignum_sub σ1 None rb t1) as [σ3 c].
    destruct K as [K5 K6]. cbn [fst snd] in *. apply okv_norm; auto.
    unfold s_negate_big. now apply set_sign_ext.
  - pose proof (s_fix2big_ok σ0 σ y E) as K. destruct (s_fix2big σ y) as [σ1 t1]. destruct K as [K1 K2].
    cbn [fst snd] in *.
    pose proof (s_bignum_sub_ok σ0 σ1 None ra t1 K1 I) as K. destruct (s_bignum_sub σ1 None ra t1) as [σ3 c].
    destruct K as [K5 K6]. cbn [fst snd] in *. now apply okv_norm.
  - pose proof (s_bignum_sub_ok σ0 σ None ra rb E I) as K. destruct (s_bignum_sub σ None ra rb) as [σ3 c].
    destruct K as [K5 K6]. cbn [fst snd] in *. now apply okv_norm.
Qed.

Lemma s_fxmul_new_ok σ0 σ a b : ext σ0 σ -> ok σ0 (s_fxmul_new σ a b).
Proof.
  intros E. unfold s_fxmul_new. destruct (fxmul_loop _ _ _) as [r c].
  pose proof (ok_alloc σ0 σ (OBig 1 r) E) as K. destruct (alloc σ (OBig 1 r)) as [σ1 d]. destruct K as [K1 K2].
  cbn [fst snd] in *. destruct (Z.eqb c 0); [split; auto | now apply ok_alloc].
Qed.

Lemma s_fixbig_mul_okv σ0 σ x rb : ext σ0 σ -> okv σ0 (s_fixbig_mul σ x rb).
Proof.
  intros E. unfold s_fixbig_mul.
  pose proof (s_fxmul_new_ok σ0 σ rb (Z.abs x) E) as K. destruct (s_fxmul_new σ rb (Z.abs x)) as [σ1 r].
  destruct K as [K1 K2]. cbn [fst snd] in *. apply okv_norm; auto using set_sign_ext.
Qed.

Lemma s_mul_okv mf σ0 σ a b : ext σ0 σ -> okv σ0 (s_mul mf σ a b).
Proof.
  intros E. unfold s_mul.
  destruct (classify σ a) as [x|ra|]; destruct (classify σ b) as [y|rb|]; try solve [apply okv_err; auto].
  - destruct (fits_fix _); [now apply okv_fix|].
    pose proof (s_fix2big_ok σ0 σ x E) as K. destruct (s_fix2big σ x) as [σ1 t]. destruct K as [K1 K2].
    cbn [fst snd] in *. now apply s_fixbig_mul_okv.
  - now apply s_fixbig_mul_okv.
  - now apply s_fixbig_mul_okv.
  - unfold s_bignum_mul. destruct (bignum_mul _ _ _) as [r|]; [|apply okv_err; auto].
    pose proof (ok_alloc σ0 σ (obig r) E) as K. destruct (alloc σ (obig r)) as [σ1 c]. destruct K as [K1 K2].
    cbn [fst snd] in *. now apply okv_norm.
Qed.

Lemma s_of_num_okv σ0 σ n : ext σ0 σ -> okv σ0 (let '(σ1, r) := s_of_num σ n in (σ1, SV r)).
Proof.
  intros E. destruct n as [z|s d]; cbn [s_of_num]; [now apply okv_fix|].
  pose proof (ok_alloc σ0 σ (OBig s d) E) as K. destruct (alloc σ (OBig s d)) as [σ1 c]. destruct K as [K1 K2].
  split; cbn [fst snd rfresh vfresh] in *; auto.
Qed.

Lemma s_quot_rem_okv fuel mf σ0 σ a b pick : ext σ0 σ -> okv σ0 (s_quot_rem fuel mf σ a b pick).
Proof.
  intros E. unfold s_quot_rem. destruct (pick _); try solve [apply okv_err; auto]. now apply s_of_num_okv.
Qed.

(** quotient: the result is new, or the first operand itself on the shortcut [b == SEXP_ONE] *)
Definition rfresh_or (σ0 : store) (a : value) (r : sres) : Prop := rfresh σ0 r \/ r = SV a.

Lemma s_quotient_ext fuel mf σ0 σ a b :
  ext σ0 σ -> ext σ0 (fst (s_quotient fuel mf σ a b)) /\
              (rfresh σ0 (snd (s_quotient fuel mf σ a b)) \/
               (b = VFix 1 /\ s_quotient fuel mf σ a b = (σ, SV a))).
Proof.
  intros E. unfold s_quotient. destruct (v_is_one b) eqn:O1.
  { split; [exact E|]. right. split; [|reflexivity].
    destruct b as [z|]; [|discriminate]. cbn [v_is_one] in O1.
    destruct z as [|p|p]; try discriminate. destruct p; try discriminate. reflexivity. }
  assert (G : forall p, okv σ0 p -> ext σ0 (fst p) /\ (rfresh σ0 (snd p) \/ (b = VFix 1 /\ p = (σ, SV a)))).
  { intros p [P1 P2]. auto. }
  apply G.
  destruct (classify σ a) as [x|ra|]; destruct (classify σ b) as [y|rb|]; try solve [apply okv_err; auto].
  - destruct (Z.eqb y 0); [apply okv_err; auto|]. destruct (_ && _); [|now apply okv_fix].
    pose proof (s_fix2big_ok σ0 σ x E) as K. destruct (s_fix2big σ x) as [σ1 t1]. destruct K as [K1 K2].
    cbn [fst snd] in *.
    pose proof (s_fix2big_ok σ0 σ1 y K1) as K. destruct (s_fix2big σ1 y) as [σ2 t2]. destruct K as [K3 K4].
    cbn [fst snd] in *. now apply s_quot_rem_okv.
  - pose proof (s_fix2big_ok σ0 σ x E) as K. destruct (s_fix2big σ x) as [σ1 t1]. destruct K as [K1 K2].
    cbn [fst snd] in *. now apply s_quot_rem_okv.
  - pose proof (s_fix2big_ok σ0 σ y E) as K. destruct (s_fix2big σ y) as [σ1 t1]. destruct K as [K1 K2].
    cbn [fst snd] in *. now apply s_quot_rem_okv.
  - now apply s_quot_rem_okv.
Qed.

Lemma s_remainder_okv fuel mf σ0 σ a b : ext σ0 σ -> okv σ0 (s_remainder fuel mf σ a b).
Proof.
  intros E. unfold s_remainder. destruct (v_is_one b); [now apply okv_fix|].
  destruct (classify σ a) as [x|ra|]; destruct (classify σ b) as [y|rb|]; try solve [apply okv_err; auto].
  - destruct (Z.eqb y 0); [apply okv_err; auto | now apply okv_fix].
  - pose proof (s_fix2big_ok σ0 σ x E) as K. destruct (s_fix2big σ x) as [σ1 t1]. destruct K as [K1 K2].
    cbn [fst snd] in *. now apply s_quot_rem_okv.
  - destruct (fxrem _ _); [now apply okv_fix | apply okv_err; auto].
  - now apply s_quot_rem_okv.
Qed.

(** ** sexp_div = sexp_make_ratio + sexp_ratio_normalize (repaired code) *)
Lemma s_gcd_loop_ext fuel qf mf σ0 :
  forall σ x y, ext σ0 σ -> ext σ0 (fst (s_gcd_loop fuel qf mf σ x y)).
Proof.
  induction fuel as [|f IH]; intros σ x y E; cbn [s_gcd_loop]; destruct (v_is_zero y); auto.
  pose proof (s_remainder_okv qf mf σ0 σ x y E) as [K1 _].
  destruct (s_remainder qf mf σ x y) as [σ1 [tmp| |]]; cbn [fst] in *; auto.
Qed.

Lemma s_ratio_finish_ext qf mf σ0 σ rat g :
  ext σ0 σ -> length σ0 <= rat -> ext σ0 (fst (s_ratio_finish false qf mf σ rat g)).
Proof.
  intros E L. unfold s_ratio_finish. cbv beta iota zeta.
  pose proof (s_quotient_ext qf mf σ0 σ (snd (rat_fields σ rat)) g E) as [K1 _].
  destruct (s_quotient qf mf σ (snd (rat_fields σ rat)) g) as [σ1 [d1| |]]; cbn [fst] in K1 |- *; auto.
  assert (E2 : ext σ0 (set_den σ1 rat d1)) by (apply ext_write; auto).
  remember (set_den σ1 rat d1) as σ2 eqn:H2. clear H2.
  pose proof (s_quotient_ext qf mf σ0 σ2 (fst (rat_fields σ2 rat)) g E2) as [K3 _].
  destruct (s_quotient qf mf σ2 (fst (rat_fields σ2 rat)) g) as [σ3 [n1| |]]; cbn [fst] in K3 |- *; auto.
  assert (E4 : ext σ0 (set_num σ3 rat n1)) by (apply ext_write; auto).
  remember (set_num σ3 rat n1) as σ4 eqn:H4. clear H4.
  assert (F : forall σ5, ext σ0 σ5 ->
     ext σ0 (set_den (set_num σ5 rat (v_normalize σ5 (fst (rat_fields σ5 rat)))) rat
               (v_normalize (set_num σ5 rat (v_normalize σ5 (fst (rat_fields σ5 rat))))
                  (snd (rat_fields (set_num σ5 rat (v_normalize σ5 (fst (rat_fields σ5 rat)))) rat))))).
  { intros σ5 E5. apply ext_write; auto. apply ext_write; auto. }
  destruct (v_is_neg σ4 d1).
  - pose proof (s_mul_okv mf σ0 σ4 n1 (VFix (-1)) E4) as [K5 _].
    destruct (s_mul mf σ4 n1 (VFix (-1))) as [σa [n2| |]]; cbn [fst] in K5 |- *; auto.
    assert (E6 : ext σ0 (set_num σa rat n2)) by (apply ext_write; auto).
    remember (set_num σa rat n2) as σb eqn:Hb. clear Hb.
    pose proof (s_mul_okv mf σ0 σb d1 (VFix (-1)) E6) as [K7 _].
    destruct (s_mul mf σb d1 (VFix (-1))) as [σc [d2| |]]; cbn [fst] in K7 |- *; auto.
    apply F. apply ext_write; auto.
  - apply F. exact E4.
Qed.

Lemma s_ratio_normalize_ext fuel qf mf σ0 σ rat :
  ext σ0 σ -> length σ0 <= rat -> ext σ0 (fst (s_ratio_normalize false fuel qf mf σ rat)).
Proof.
  intros E L. unfold s_ratio_normalize. destruct (rat_fields σ rat) as [n d].
  destruct (v_is_zero d); [exact E|]. destruct (v_is_zero n); [exact E|].
  pose proof (s_gcd_loop_ext fuel qf mf σ0 σ n d E) as K.
  destruct (s_gcd_loop fuel qf mf σ n d) as [σ1 [g| |]]; cbn [fst] in K |- *; auto.
  now apply s_ratio_finish_ext.
Qed.

Lemma s_div_ext fuel qf mf σ0 σ a b : ext σ0 σ -> ext σ0 (fst (s_div fuel qf mf σ a b)).
Proof.
  intros E. unfold s_div, s_div_gen, s_make_ratio, alloc.
  assert (G : ext σ0 (fst (s_ratio_normalize false fuel qf mf (σ ++ [ORatio a b]) (length σ)))).
  { apply s_ratio_normalize_ext; [now apply ext_app | now apply ext_len]. }
  destruct (classify σ a); destruct (classify σ b); auto.
Qed.

(** ** the theorems *)
Inductive op :=
| OpAdd | OpSub | OpMul (mf : nat) | OpQuotient (fuel mf : nat) | OpRemainder (fuel mf : nat)
| OpDiv (fuel qf mf : nat).

Definition run (o : op) : store -> value -> value -> store * sres :=
  match o with
  | OpAdd => s_add
  | OpSub => s_sub
  | OpMul mf => s_mul mf
  | OpQuotient fuel mf => s_quotient fuel mf
  | OpRemainder fuel mf => s_remainder fuel mf
  | OpDiv fuel qf mf => s_div fuel qf mf
  end.

Lemma run_ext o σ0 σ a b : ext σ0 σ -> ext σ0 (fst (run o σ a b)).
Proof.
  intros E. destruct o; cbn [run].
  - now apply s_add_okv.
  - now apply s_sub_okv.
  - now apply s_mul_okv.
  - now apply s_quotient_ext.
  - now apply s_remainder_okv.
  - now apply s_div_ext.
Qed.

(** No object that existed before the call is modified: every store, every operand (fixnum,
    bignum reference, anything else), [a] and [b] possibly THE SAME reference, any fuel. *)
Theorem operands_unchanged :
  forall o σ a b, let '(σ', r) := run o σ a b in
  forall ref, ref < length σ -> lookup σ' ref = lookup σ ref.
Proof.
  intros o σ a b. pose proof (run_ext o σ σ a b (ext_refl σ)) as K.
  destruct (run o σ a b) as [σ' r]. cbn [fst] in K. intros ref L. now apply ext_lookup.
Qed.

(** ... and the store only grows *)
Theorem store_grows : forall o σ a b, length σ <= length (fst (run o σ a b)).
Proof. intros. apply ext_len. apply run_ext. apply ext_refl. Qed.

(** The result of + - * remainder is a fixnum or an object allocated by the call; only
    [quotient] can return an operand, and only its FIRST operand on the shortcut
    [if (b == SEXP_ONE) return a] (then nothing is allocated at all). *)
Definition is_div (o : op) : bool := match o with OpDiv _ _ _ => true | _ => false end.

Theorem result_fresh_or_alias :
  forall o σ a b, is_div o = false ->
  let '(σ', r) := run o σ a b in
  match r with
  | SV (VRef x) =>
      length σ <= x \/
      (exists fuel mf, o = OpQuotient fuel mf) /\ b = VFix 1 /\ a = VRef x /\ σ' = σ
  | _ => True
  end.
Proof.
  intros o σ a b D. destruct o; try discriminate D; cbn [run].
  - pose proof (s_add_okv σ σ a b (ext_refl σ)) as [_ K]. destruct (s_add σ a b) as [σ' [[z|x]| |]]; auto.
  - pose proof (s_sub_okv σ σ a b (ext_refl σ)) as [_ K]. destruct (s_sub σ a b) as [σ' [[z|x]| |]]; auto.
  - pose proof (s_mul_okv mf σ σ a b (ext_refl σ)) as [_ K]. destruct (s_mul mf σ a b) as [σ' [[z|x]| |]]; auto.
  - pose proof (s_quotient_ext fuel mf σ σ a b (ext_refl σ)) as [_ K].
    destruct (s_quotient fuel mf σ a b) as [σ' [[z|x]| |]]; auto.
    destruct K as [K | [K1 K2]]; [left; exact K|]. right.
    apply pair_equal_spec in K2. destruct K2 as [-> K2]. injection K2 as <-. repeat split; eauto.
  - pose proof (s_remainder_okv fuel mf σ σ a b (ext_refl σ)) as [_ K].
    destruct (s_remainder fuel mf σ a b) as [σ' [[z|x]| |]]; auto.
Qed.

(** that the returned reference is live in the new store and what it holds: store_refines_value
    lemmas below (for add, sub, mul) *)

(** ** negative examples: the statement of operands_unchanged is not vacuous *)
Definition σ_ex : store := [OBig 1 [5; 7]%Z; OBig 1 [1; 1]%Z].

(** a subtraction that negates its subtrahend in place and adds (pre-repair complex subtraction,
    F-C04-10) modifies operand 1 *)
Example bad_sub_operands_unchanged_refuted :
  let '(σ', r) := bad_sub σ_ex (VRef 0) (VRef 1) in
  lookup σ' 1 <> lookup σ_ex 1 /\ lookup σ' 1 = Some (OBig (-1) [1; 1]%Z).
Proof. vm_compute. split; [discriminate | reflexivity]. Qed.

(** the same call through the real model leaves both operands alone *)
Example s_sub_operands_example :
  let '(σ', r) := s_sub σ_ex (VRef 0) (VRef 1) in
  lookup σ' 0 = lookup σ_ex 0 /\ lookup σ' 1 = lookup σ_ex 1 /\
  r = SV (VRef 2) /\ lookup σ' 2 = Some (OBig 1 [4; 6]%Z).
Proof. vm_compute. auto. Qed.

(** aliasing: a - a with both operands the same reference *)
Example s_sub_alias_example :
  let '(σ', r) := s_sub σ_ex (VRef 0) (VRef 0) in
  lookup σ' 0 = lookup σ_ex 0 /\ r = SV (VFix 0).
Proof. vm_compute. auto. Qed.

(** F-C04-1 in the model: n = 2^320+1, m = -2^128, (/ n m).  The gcd is 1, sexp_quotient returns
    both operands by alias, and the code before 489a686 negated them in place:
    n became negative and m positive, as the probe on the real binary showed. *)
Definition σ_f1 : store := [OBig 1 [1; 0; 0; 0; 0; 1]%Z; OBig (-1) [0; 0; 1]%Z].

Example div_pre_repair_operands_unchanged_refuted :
  s_div_pre_repair 50 50 50 σ_f1 (VRef 0) (VRef 1)
  = ([OBig (-1) [1; 0; 0; 0; 0; 1]%Z; OBig 1 [0; 0; 1]%Z; ORatio (VRef 0) (VRef 1)], SV (VRef 2)).
Proof. vm_compute. reflexivity. Qed.

(** the repaired code on the same input: new objects 3 and 4 carry the negated numbers *)
Example div_repaired_example :
  s_div 50 50 50 σ_f1 (VRef 0) (VRef 1)
  = (σ_f1 ++ [ORatio (VRef 3) (VRef 4); OBig (-1) [1; 0; 0; 0; 0; 1]%Z; OBig 1 [0; 0; 1]%Z], SV (VRef 2)).
Proof. vm_compute. reflexivity. Qed.

(** sexp_div CAN return its first operand: (/ n 1) = n itself (gcd 1, sexp_quotient(n, 1) = n,
    denominator 1) — the alias is not excluded for OpDiv in result_fresh_or_alias *)
Example div_alias_example :
  s_div 50 50 50 σ_f1 (VRef 0) (VFix 1) = (σ_f1 ++ [ORatio (VRef 0) (VFix 1)], SV (VRef 0)).
Proof. vm_compute. reflexivity. Qed.

(** quotient by 1 returns the operand, nothing allocated *)
Example quotient_alias_example :
  s_quotient 50 50 σ_f1 (VRef 1) (VFix 1) = (σ_f1, SV (VRef 1)).
Proof. reflexivity. Qed.

(** ** refinement: the object read back at the result carries the words of the value-level model *)
Definition isbig (σ : store) (r : nat) (x : big) : Prop := lookup σ r = Some (obig x).

Lemma isbig_get σ r x : isbig σ r x -> get σ r = x.
Proof. unfold isbig, get. intros ->. destruct x; reflexivity. Qed.

Lemma isbig_lt σ r x : isbig σ r x -> r < length σ.
Proof. unfold isbig, lookup. intros H. apply nth_error_Some. rewrite H. discriminate. Qed.

Lemma isbig_ext σ0 σ r x : ext σ0 σ -> isbig σ0 r x -> isbig σ r x.
Proof. intros E H. unfold isbig. rewrite (ext_lookup σ0 σ r E); [exact H | eapply isbig_lt; eauto]. Qed.

Lemma isbig_write σ r o x : r < length σ -> o = obig x -> isbig (write σ r o) r x.
Proof. intros L ->. unfold isbig. now apply lookup_write_same. Qed.

Lemma isbig_alloc σ x : isbig (σ ++ [obig x]) (length σ) x.
Proof. apply lookup_alloc. Qed.

(** result of a helper: the store extends the old one EXCEPT for the object [w] it was told to
    write (for helpers working in place); here all we need is the read-back *)
Lemma s_copy_val σ a x : isbig σ a x -> isbig (fst (s_copy σ a)) (snd (s_copy σ a)) x.
Proof. intros H. unfold s_copy, alloc. cbn [fst snd]. rewrite (isbig_get _ _ _ H). apply isbig_alloc. Qed.

Lemma s_fxadd_val σ a b s d :
  isbig σ a (s, d) -> isbig (fst (s_fxadd σ a b)) (snd (s_fxadd σ a b)) (s, fxadd d b).
Proof.
  intros H. unfold s_fxadd, fxadd. rewrite (isbig_get _ _ _ H).
  destruct (fxadd_loop _ _) as [r c]. destruct (Z.eqb c 0); cbn [fst snd alloc].
  - apply isbig_write; [eapply isbig_lt; eauto | reflexivity].
  - apply (isbig_alloc _ (s, r ++ [1%Z])).
Qed.

Lemma s_fxsub_val σ a b x :
  isbig σ a x -> isbig (fst (s_fxsub σ a b)) (snd (s_fxsub σ a b)) (fst (fxsub x b)).
Proof.
  intros H. unfold s_fxsub. cbn [fst snd]. rewrite (isbig_get _ _ _ H).
  apply isbig_write; [eapply isbig_lt; eauto | reflexivity].
Qed.

Lemma s_add_fixnum_val σ a z x :
  isbig σ a x -> isbig (fst (s_add_fixnum σ a z)) (snd (s_add_fixnum σ a z)) (bignum_add_fixnum x z).
Proof.
  intros H. unfold s_add_fixnum. pose proof (s_copy_val σ a x H) as K.
  destruct (s_copy σ a) as [σ1 c]. cbn [fst snd] in K. rewrite (isbig_get _ _ _ K).
  destruct x as [s d]. unfold bignum_add_fixnum. cbn [fst]. destruct (Z.eqb s (fx_sign z)).
  - now apply s_fxadd_val.
  - now apply s_fxsub_val.
Qed.

Lemma get_alloc σ x : get (σ ++ [obig x]) (length σ) = x.
Proof. apply isbig_get. apply isbig_alloc. Qed.

Lemma lt_alloc (σ : store) o : length σ < length (σ ++ [o]).
Proof. rewrite app_length. cbn. lia. Qed.

Lemma s_add_digits_ord_val σ a b sa da sb db :
  isbig σ a (sa, da) -> isbig σ b (sb, db) ->
  isbig (fst (s_add_digits_ord σ None a b)) (snd (s_add_digits_ord σ None a b)) (sa, add_digits_ord da db).
Proof.
  intros Ha Hb. unfold s_add_digits_ord, add_digits_ord, s_pick, s_copy, alloc.
  rewrite (isbig_get _ _ _ Ha), (isbig_get _ _ _ Hb). cbn [fst snd].
  destruct (add_loop _ _ _) as [r cf]. rewrite get_alloc.
  destruct (Z.eqb cf 0); cbn [fst snd].
  - apply isbig_write; [apply lt_alloc | reflexivity].
  - apply (isbig_alloc _ (sa, r ++ [1%Z])).
Qed.

Lemma s_sub_digits_ord_val σ a b sa da sb db :
  isbig σ a (sa, da) -> isbig σ b (sb, db) ->
  isbig (fst (s_sub_digits_ord σ None a b)) (snd (s_sub_digits_ord σ None a b)) (sa, sub_digits_ord da db).
Proof.
  intros Ha Hb. unfold s_sub_digits_ord, sub_digits_ord, s_pick, s_copy, alloc.
  rewrite (isbig_get _ _ _ Ha), (isbig_get _ _ _ Hb). cbn [fst snd]. rewrite get_alloc. cbn [fst snd].
  apply isbig_write; [apply lt_alloc | reflexivity].
Qed.

(** the sign of the fresh copy is the sign of whichever operand was copied: callers overwrite it *)
Lemma s_add_digits_val σ a b sa da sb db :
  isbig σ a (sa, da) -> isbig σ b (sb, db) ->
  exists s, isbig (fst (s_add_digits σ None a b)) (snd (s_add_digits σ None a b)) (s, add_digits da db).
Proof.
  intros Ha Hb. unfold s_add_digits, add_digits.
  rewrite (isbig_get _ _ _ Ha), (isbig_get _ _ _ Hb). cbn [fst snd].
  destruct (hi da <? hi db); eexists; eapply s_add_digits_ord_val; eauto.
Qed.

Lemma s_sub_digits_val σ a b sa da sb db :
  isbig σ a (sa, da) -> isbig σ b (sb, db) ->
  exists s, isbig (fst (s_sub_digits σ None a b)) (snd (s_sub_digits σ None a b)) (s, sub_digits da db).
Proof.
  intros Ha Hb. unfold s_sub_digits, sub_digits.
  rewrite (isbig_get _ _ _ Ha), (isbig_get _ _ _ Hb). cbn [fst snd].
  destruct (_ || _); eexists; eapply s_sub_digits_ord_val; eauto.
Qed.

Lemma set_sign_val σ r s0 d s : isbig σ r (s0, d) -> isbig (set_sign σ r s) r (s, d).
Proof.
  intros H. unfold set_sign. rewrite (isbig_get _ _ _ H). cbn [snd].
  apply isbig_write; [eapply isbig_lt; eauto | reflexivity].
Qed.

Lemma s_bignum_add_val σ a b x y :
  isbig σ a x -> isbig σ b y ->
  isbig (fst (s_bignum_add σ None a b)) (snd (s_bignum_add σ None a b)) (bignum_add x y).
Proof.
  intros Ha Hb. destruct x as [sa da], y as [sb db]. unfold s_bignum_add, bignum_add.
  rewrite (isbig_get _ _ _ Ha), (isbig_get _ _ _ Hb). cbn [fst snd].
  destruct (Z.eqb sa sb).
  - destruct (s_add_digits_val σ a b sa da sb db Ha Hb) as [s K].
    pose proof (s_add_digits_ok σ σ None a b (ext_refl σ) I) as [E _].
    destruct (s_add_digits σ None a b) as [σ1 c]. cbn [fst snd] in *.
    rewrite (isbig_get _ _ _ (isbig_ext _ _ _ _ E Ha)). cbn [fst]. eapply set_sign_val; eauto.
  - destruct (s_sub_digits_val σ a b sa da sb db Ha Hb) as [s K].
    pose proof (s_sub_digits_ok σ σ None a b (ext_refl σ) I) as [E _].
    destruct (s_sub_digits σ None a b) as [σ1 c]. cbn [fst snd] in *.
    rewrite (isbig_get _ _ _ (isbig_ext _ _ _ _ E Ha)), (isbig_get _ _ _ (isbig_ext _ _ _ _ E Hb)).
    cbn [fst snd]. eapply set_sign_val; eauto.
Qed.

Lemma s_bignum_sub_val σ a b x y :
  isbig σ a x -> isbig σ b y ->
  isbig (fst (s_bignum_sub σ None a b)) (snd (s_bignum_sub σ None a b)) (bignum_sub x y).
Proof.
  intros Ha Hb. destruct x as [sa da], y as [sb db]. unfold s_bignum_sub, bignum_sub.
  rewrite (isbig_get _ _ _ Ha), (isbig_get _ _ _ Hb).
  destruct (Z.eqb sa sb).
  - destruct (s_sub_digits_val σ a b sa da sb db Ha Hb) as [s K].
    destruct (s_sub_digits σ None a b) as [σ1 c]. cbn [fst snd] in *. eapply set_sign_val; eauto.
  - destruct (s_add_digits_val σ a b sa da sb db Ha Hb) as [s K].
    destruct (s_add_digits σ None a b) as [σ1 c]. cbn [fst snd] in *. eapply set_sign_val; eauto.
Qed.

(** the number a value denotes in a store *)
Definition absv (σ : store) (v : value) : option num :=
  match v with
  | VFix z => Some (Fix z)
  | VRef r => match lookup σ r with Some (OBig s d) => Some (Big s d) | _ => None end
  end.

Lemma absv_cases σ a x : absv σ a = Some x ->
  (exists z, x = Fix z /\ classify σ a = TFix z) \/
  (exists r s d, x = Big s d /\ classify σ a = TBig r /\ isbig σ r (s, d)).
Proof.
  destruct a as [z|r]; cbn [absv classify]; intros H.
  - left. exists z. split; [congruence | reflexivity].
  - right. unfold isbig. destruct (lookup σ r) as [[s d|n d]|] eqn:L; try discriminate.
    exists r, s, d. split; [congruence|]. split; [reflexivity | exact L].
Qed.

Lemma normalize_big_inv s d s' d' : normalize (Big s d) = Big s' d' -> s' = s /\ d' = d.
Proof.
  unfold normalize. destruct (1 <? hi d).
  - intros H. injection H as <- <-. auto.
  - destruct (_ && _); [|discriminate]. intros H. injection H as <- <-. auto.
Qed.

Lemma s_normalize_val σ c x : isbig σ c x -> absv σ (s_normalize σ c) = Some (normalize (big_num x)).
Proof.
  intros H. unfold s_normalize. rewrite (isbig_get _ _ _ H).
  destruct (normalize (big_num x)) as [z|s' d'] eqn:N; [reflexivity|].
  destruct x as [s d]. apply normalize_big_inv in N. destruct N as [-> ->].
  cbn [absv]. unfold isbig in H. rewrite H. reflexivity.
Qed.

Definition refines (p : store * sres) (n : num) : Prop :=
  exists v, snd p = SV v /\ absv (fst p) v = Some n.

Lemma refines_norm σ c x : isbig σ c x -> refines (σ, SV (s_normalize σ c)) (normalize (big_num x)).
Proof. intros H. eexists. split; [reflexivity|]. now apply s_normalize_val. Qed.

(** sexp_add: whatever the store, operands denoting x and y (possibly the same reference) give a
    result denoting Model2.num_add x y — word for word (sign, all words incl. spare zeros, tag) *)
Theorem store_refines_value_add σ a b x y :
  absv σ a = Some x -> absv σ b = Some y -> refines (s_add σ a b) (num_add x y).
Proof.
  intros Ha Hb. unfold s_add.
  destruct (absv_cases _ _ _ Ha) as [(xa & -> & ->) | (ra & sa & da & -> & -> & Ia)];
  destruct (absv_cases _ _ _ Hb) as [(xb & -> & ->) | (rb & sb & db & -> & -> & Ib)]; cbn [num_add].
  - destruct (_ || _); [|eexists; split; reflexivity].
    unfold s_fix2big, alloc.
    pose proof (s_add_fixnum_val _ _ xb _ (isbig_alloc σ (fixnum_to_bignum xa))) as K.
    destruct (s_add_fixnum _ _ _) as [σ2 c]. now apply refines_norm.
  - pose proof (s_add_fixnum_val _ _ xa _ Ib) as K.
    destruct (s_add_fixnum _ _ _) as [σ2 c]. now apply refines_norm.
  - pose proof (s_add_fixnum_val _ _ xb _ Ia) as K.
    destruct (s_add_fixnum _ _ _) as [σ2 c]. now apply refines_norm.
  - pose proof (s_bignum_add_val _ _ _ _ _ Ib Ia) as K.
    destruct (s_bignum_add _ _ _ _) as [σ2 c]. now apply refines_norm.
Qed.

Lemma s_negate_big_val σ c x : isbig σ c x -> isbig (s_negate_big σ c) c (- fst x, snd x)%Z.
Proof.
  intros H. unfold s_negate_big. rewrite (isbig_get _ _ _ H). destruct x as [s d]. cbn [fst snd].
  eapply set_sign_val; eauto.
Qed.

(** sexp_sub (repaired FIX_FIX): result denotes Model2.num_sub x y *)
Theorem store_refines_value_sub σ a b x y :
  absv σ a = Some x -> absv σ b = Some y -> refines (s_sub σ a b) (num_sub x y).
Proof.
  intros Ha Hb. unfold s_sub.
  destruct (absv_cases _ _ _ Ha) as [(xa & -> & ->) | (ra & sa & da & -> & -> & Ia)];
  destruct (absv_cases _ _ _ Hb) as [(xb & -> & ->) | (rb & sb & db & -> & -> & Ib)]; cbn [num_sub].
  - destruct (_ || _); [|eexists; split; reflexivity].
    unfold s_fix2big, alloc.
    assert (I1 : isbig ((σ ++ [obig (fixnum_to_bignum xa)]) ++ [obig (fixnum_to_bignum xb)]) (length σ)
                   (fixnum_to_bignum xa)).
    { eapply isbig_ext; [|apply isbig_alloc]. eexists; reflexivity. }
    pose proof (s_bignum_sub_val _ _ _ _ _ I1 (isbig_alloc (σ ++ [obig (fixnum_to_bignum xa)]) (fixnum_to_bignum xb))) as K.
    destruct (s_bignum_sub _ _ _ _) as [σ2 c]. now apply refines_norm.
  - unfold s_fix2big, alloc.
    assert (I1 : isbig (σ ++ [obig (fixnum_to_bignum xa)]) rb (sb, db)).
    { eapply isbig_ext; [|exact Ib]. eexists; reflexivity. }
    pose proof (s_bignum_sub_val _ _ _ _ _ I1 (isbig_alloc σ (fixnum_to_bignum xa))) as K.
    destruct (s_bignum_sub _ _ _ _) as [σ2 c]. cbn [fst snd] in K.
    exact (refines_norm _ _ _ (s_negate_big_val _ _ _ K)).
  - unfold s_fix2big, alloc.
    assert (I1 : isbig (σ ++ [obig (fixnum_to_bignum xb)]) ra (sa, da)).
    { eapply isbig_ext; [|exact Ia]. eexists; reflexivity. }
    pose proof (s_bignum_sub_val _ _ _ _ _ I1 (isbig_alloc σ (fixnum_to_bignum xb))) as K.
    destruct (s_bignum_sub _ _ _ _) as [σ2 c]. now apply refines_norm.
  - pose proof (s_bignum_sub_val _ _ _ _ _ Ia Ib) as K.
    destruct (s_bignum_sub _ _ _ _) as [σ2 c]. now apply refines_norm.
Qed.

Lemma s_fxmul_new_val σ a b s d :
  isbig σ a (s, d) ->
  isbig (fst (s_fxmul_new σ a b)) (snd (s_fxmul_new σ a b)) (1%Z, fxmul d b 0).
Proof.
  intros H. unfold s_fxmul_new, fxmul, alloc. rewrite (isbig_get _ _ _ H). cbn [snd repeat app].
  destruct (fxmul_loop d b 0) as [r c]. destruct (Z.eqb c 0); cbn [fst snd].
  - rewrite app_nil_r. apply (isbig_alloc σ (1%Z, r)).
  - apply (isbig_alloc _ (1%Z, r ++ [c])).
Qed.

Lemma s_fixbig_mul_val σ x rb s d :
  isbig σ rb (s, d) ->
  refines (s_fixbig_mul σ x rb) (normalize (Big (fx_sign x * s) (fxmul d (Z.abs x) 0))).
Proof.
  intros H. unfold s_fixbig_mul.
  pose proof (s_fxmul_new_val σ rb (Z.abs x) s d H) as K.
  pose proof (s_fxmul_new_ok σ σ rb (Z.abs x) (ext_refl σ)) as [E _].
  destruct (s_fxmul_new σ rb (Z.abs x)) as [σ1 r]. cbn [fst snd] in *.
  rewrite (isbig_get _ _ _ (isbig_ext _ _ _ _ E H)). cbn [fst].
  exact (refines_norm _ _ _ (set_sign_val _ _ _ _ (fx_sign x * s)%Z K)).
Qed.

(** sexp_mul: result denotes Model2.num_mul x y (when Karatsuba's fuel suffices; otherwise SFuel) *)
Theorem store_refines_value_mul mf σ a b x y n :
  absv σ a = Some x -> absv σ b = Some y -> num_mul mf x y = Some n -> refines (s_mul mf σ a b) n.
Proof.
  intros Ha Hb. unfold s_mul.
  destruct (absv_cases _ _ _ Ha) as [(xa & -> & ->) | (ra & sa & da & -> & -> & Ia)];
  destruct (absv_cases _ _ _ Hb) as [(xb & -> & ->) | (rb & sb & db & -> & -> & Ib)]; cbn [num_mul].
  - destruct (fits_fix _).
    + intros H. injection H as <-. eexists; split; reflexivity.
    + unfold fixnum_to_bignum at 1. intros H. injection H as <-.
      unfold s_fix2big, alloc. apply s_fixbig_mul_val. apply (isbig_alloc σ (fixnum_to_bignum xa)).
  - intros H. injection H as <-. now apply s_fixbig_mul_val.
  - intros H. injection H as <-. now apply s_fixbig_mul_val.
  - unfold s_bignum_mul. rewrite (isbig_get _ _ _ Ia), (isbig_get _ _ _ Ib).
    destruct (bignum_mul mf (sa, da) (sb, db)) as [r|]; [|discriminate].
    intros H. injection H as <-. unfold alloc. apply refines_norm. apply isbig_alloc.
Qed.

(** the hypotheses are satisfiable, aliasing included: a + a with both operands the SAME bignum
    (carry out of the top word: a new 3-word object), operand untouched *)
Example store_refines_value_add_example :
  let σ := [OBig 1 [5; 18446744073709551615]%Z] in
  absv σ (VRef 0) = Some (Big 1 [5; 18446744073709551615]%Z) /\
  s_add σ (VRef 0) (VRef 0)
  = ([OBig 1 [5; 18446744073709551615]%Z; OBig 1 [10; 18446744073709551614]%Z;
      OBig 1 [10; 18446744073709551614; 1]%Z], SV (VRef 2)).
Proof. vm_compute. auto. Qed.

(** ** quotient / remainder: same outcome (value, divide by zero, out of fuel) as Model3 *)
Definition res_matches (p : store * sres) (r : nres) : Prop :=
  match r with NV n => refines p n | NDivZero => snd p = SErr | NFuel => snd p = SFuel end.

Lemma s_of_num_val σ n : refines (let '(σ1, r) := s_of_num σ n in (σ1, SV r)) n.
Proof.
  destruct n as [z|s d]; cbn [s_of_num alloc]; eexists; (split; [reflexivity|]); cbn [fst absv]; auto.
  rewrite (lookup_alloc σ (OBig s d)). reflexivity.
Qed.

Lemma s_quot_rem_val fuel mf σ a b pick x y :
  isbig σ a x -> isbig σ b y ->
  res_matches (s_quot_rem fuel mf σ a b pick) (pick (quot_rem fuel mf x y)).
Proof.
  intros Ha Hb. unfold s_quot_rem. rewrite (isbig_get _ _ _ Ha), (isbig_get _ _ _ Hb).
  destruct (pick _); cbn [res_matches snd]; auto. apply s_of_num_val.
Qed.

Lemma v_is_one_abs σ b y : absv σ b = Some y -> v_is_one b = is_one y.
Proof.
  destruct b as [z|r]; cbn [absv]; intros H.
  - injection H as <-. reflexivity.
  - destruct (lookup σ r) as [[s d|n d]|]; try discriminate. injection H as <-. reflexivity.
Qed.

Lemma isbig_app σ o r x : isbig σ r x -> isbig (σ ++ [o]) r x.
Proof. intros H. eapply isbig_ext; [|exact H]. eexists; reflexivity. Qed.

Theorem store_refines_value_quotient fuel mf σ a b x y :
  absv σ a = Some x -> absv σ b = Some y ->
  res_matches (s_quotient fuel mf σ a b) (num_quotient fuel mf x y).
Proof.
  intros Ha Hb. unfold s_quotient, num_quotient. rewrite (v_is_one_abs _ _ _ Hb).
  destruct (is_one y). { eexists; split; [reflexivity | exact Ha]. }
  destruct (absv_cases _ _ _ Ha) as [(xa & -> & ->) | (ra & sa & da & -> & -> & Ia)];
  destruct (absv_cases _ _ _ Hb) as [(xb & -> & ->) | (rb & sb & db & -> & -> & Ib)].
  - destruct (Z.eqb xb 0); [reflexivity|]. cbv zeta.
    destruct (_ && _); [|eexists; split; reflexivity].
    unfold s_fix2big, alloc. apply s_quot_rem_val; [apply isbig_app|]; apply isbig_alloc.
  - unfold s_fix2big, alloc. apply s_quot_rem_val; [apply isbig_alloc | now apply isbig_app].
  - unfold s_fix2big, alloc. apply s_quot_rem_val; [now apply isbig_app | apply isbig_alloc].
  - now apply s_quot_rem_val.
Qed.

Theorem store_refines_value_remainder fuel mf σ a b x y :
  absv σ a = Some x -> absv σ b = Some y ->
  res_matches (s_remainder fuel mf σ a b) (num_remainder fuel mf x y).
Proof.
  intros Ha Hb. unfold s_remainder, num_remainder. rewrite (v_is_one_abs _ _ _ Hb).
  destruct (is_one y). { eexists; split; reflexivity. }
  destruct (absv_cases _ _ _ Ha) as [(xa & -> & ->) | (ra & sa & da & -> & -> & Ia)];
  destruct (absv_cases _ _ _ Hb) as [(xb & -> & ->) | (rb & sb & db & -> & -> & Ib)].
  - destruct (Z.eqb xb 0); [reflexivity|]. eexists; split; reflexivity.
  - unfold s_fix2big, alloc. apply s_quot_rem_val; [apply isbig_alloc | now apply isbig_app].
  - rewrite (isbig_get _ _ _ Ia). destruct (fxrem _ _); [eexists; split; reflexivity | reflexivity].
  - now apply s_quot_rem_val.
Qed.

(** ** sexp_div: the result is a fixnum, an object allocated by the call (the ratio or a new
    bignum), or the FIRST operand itself (integer result with gcd 1: (/ n 1)) — never the second *)
Definition good (σ0 : store) (a v : value) : Prop := vfresh σ0 v \/ v = a.
Definition rgood (σ0 : store) (a : value) (r : sres) : Prop :=
  match r with SV v => good σ0 a v | _ => True end.

Lemma rat_fields_write σ rat n d : rat < length σ -> rat_fields (write σ rat (ORatio n d)) rat = (n, d).
Proof. intros L. unfold rat_fields. rewrite lookup_write_same by exact L. reflexivity. Qed.

Lemma rat_fields_ext σ0 σ rat : ext σ0 σ -> rat < length σ0 -> rat_fields σ rat = rat_fields σ0 rat.
Proof. intros E L. unfold rat_fields. now rewrite (ext_lookup σ0 σ rat E L). Qed.

Lemma set_num_fields σ rat n : rat < length σ -> rat_fields (set_num σ rat n) rat = (n, snd (rat_fields σ rat)).
Proof. intros L. unfold set_num. now apply rat_fields_write. Qed.

Lemma set_den_fields σ rat d : rat < length σ -> rat_fields (set_den σ rat d) rat = (fst (rat_fields σ rat), d).
Proof. intros L. unfold set_den. now apply rat_fields_write. Qed.

Lemma set_num_length σ rat n : length (set_num σ rat n) = length σ.
Proof. apply write_length. Qed.
Lemma set_den_length σ rat n : length (set_den σ rat n) = length σ.
Proof. apply write_length. Qed.

Lemma v_normalize_cases σ v : v_normalize σ v = v \/ exists z, v_normalize σ v = VFix z.
Proof.
  unfold v_normalize. destruct v as [z|r]; cbn [classify]; auto.
  destruct (lookup σ r) as [[s d|n d]|]; auto. unfold s_normalize. destruct (normalize _); eauto.
Qed.

Lemma good_normalize σ0 a σ v : good σ0 a v -> good σ0 a (v_normalize σ v).
Proof.
  intros G. destruct (v_normalize_cases σ v) as [-> | [z ->]]; [exact G | left; exact I].
Qed.

Lemma finish_tail σ0 a rat σ5 n5 :
  length σ0 <= rat -> rat < length σ5 -> fst (rat_fields σ5 rat) = n5 -> good σ0 a n5 ->
  good σ0 a
    (if v_is_one (snd (rat_fields
          (set_den (set_num σ5 rat (v_normalize σ5 (fst (rat_fields σ5 rat)))) rat
             (v_normalize (set_num σ5 rat (v_normalize σ5 (fst (rat_fields σ5 rat))))
                (snd (rat_fields (set_num σ5 rat (v_normalize σ5 (fst (rat_fields σ5 rat)))) rat)))) rat))
     then fst (rat_fields
          (set_den (set_num σ5 rat (v_normalize σ5 (fst (rat_fields σ5 rat)))) rat
             (v_normalize (set_num σ5 rat (v_normalize σ5 (fst (rat_fields σ5 rat))))
                (snd (rat_fields (set_num σ5 rat (v_normalize σ5 (fst (rat_fields σ5 rat)))) rat)))) rat)
     else VRef rat).
Proof.
  intros L Lt F G. destruct (v_is_one _); [|left; exact L].
  rewrite set_den_fields by (rewrite set_num_length; exact Lt). cbn [fst].
  rewrite set_num_fields by exact Lt. cbn [fst]. rewrite F. now apply good_normalize.
Qed.

Lemma s_ratio_finish_alias qf mf σ0 σ rat g a :
  ext σ0 σ -> length σ0 <= rat -> rat < length σ -> fst (rat_fields σ rat) = a ->
  rgood σ0 a (snd (s_ratio_finish false qf mf σ rat g)).
Proof.
  intros E L Lt Fa. unfold s_ratio_finish. cbv beta iota zeta.
  pose proof (s_quotient_ext qf mf σ σ (snd (rat_fields σ rat)) g (ext_refl σ)) as [K1 _].
  destruct (s_quotient qf mf σ (snd (rat_fields σ rat)) g) as [σ1 [d1| |]]; cbn [fst snd rgood] in K1 |- *; auto.
  pose proof (ext_len _ _ K1) as Le1.
  assert (Lt1 : rat < length σ1) by lia.
  assert (F1 : fst (rat_fields σ1 rat) = a) by (rewrite (rat_fields_ext σ σ1 rat K1 Lt); exact Fa).
  assert (E1 : ext σ0 σ1) by (eapply ext_trans; eauto).
  assert (E2 : ext σ0 (set_den σ1 rat d1)) by (apply ext_write; auto).
  assert (Lt2 : rat < length (set_den σ1 rat d1)) by (rewrite set_den_length; exact Lt1).
  assert (F2 : fst (rat_fields (set_den σ1 rat d1) rat) = a) by (rewrite set_den_fields by exact Lt1; exact F1).
  remember (set_den σ1 rat d1) as σ2 eqn:H2. clear H2.
  rewrite F2.
  pose proof (s_quotient_ext qf mf σ0 σ2 a g E2) as [K3 K3'].
  pose proof (s_quotient_ext qf mf σ2 σ2 a g (ext_refl σ2)) as [K4 _].
  destruct (s_quotient qf mf σ2 a g) as [σ3 [n1| |]]; cbn [fst snd rgood rfresh] in K3, K3', K4 |- *; auto.
  assert (G1 : good σ0 a n1).
  { destruct K3' as [K | [_ K]]; [left; exact K | right].
    apply pair_equal_spec in K. destruct K as [_ K]. injection K as ->. reflexivity. }
  pose proof (ext_len _ _ K4) as Le3.
  assert (Lt3 : rat < length σ3) by lia.
  assert (E4 : ext σ0 (set_num σ3 rat n1)) by (apply ext_write; auto).
  assert (Lt4 : rat < length (set_num σ3 rat n1)) by (rewrite set_num_length; exact Lt3).
  assert (F4 : fst (rat_fields (set_num σ3 rat n1) rat) = n1) by (rewrite set_num_fields by exact Lt3; reflexivity).
  remember (set_num σ3 rat n1) as σ4 eqn:H4. clear H4.
  destruct (v_is_neg σ4 d1).
  - pose proof (s_mul_okv mf σ0 σ4 n1 (VFix (-1)) E4) as [K5 K5'].
    pose proof (s_mul_okv mf σ4 σ4 n1 (VFix (-1)) (ext_refl σ4)) as [K6 _].
    destruct (s_mul mf σ4 n1 (VFix (-1))) as [σa [n2| |]]; cbn [fst snd rgood rfresh] in K5, K5', K6 |- *; auto.
    pose proof (ext_len _ _ K6) as Lea.
    assert (Lta : rat < length σa) by lia.
    assert (Ltb : rat < length (set_num σa rat n2)) by (rewrite set_num_length; exact Lta).
    assert (Fb : fst (rat_fields (set_num σa rat n2) rat) = n2) by (rewrite set_num_fields by exact Lta; reflexivity).
    remember (set_num σa rat n2) as σb eqn:Hb. clear Hb.
    pose proof (s_mul_okv mf σb σb d1 (VFix (-1)) (ext_refl σb)) as [K7 _].
    destruct (s_mul mf σb d1 (VFix (-1))) as [σc [d2| |]]; cbn [fst snd rgood rfresh] in K7 |- *; auto.
    pose proof (ext_len _ _ K7) as Lec.
    apply (finish_tail σ0 a rat (set_den σc rat d2) n2); auto.
    + rewrite set_den_length. lia.
    + rewrite set_den_fields by lia. cbn [fst]. rewrite (rat_fields_ext σb σc rat K7 Ltb). exact Fb.
    + left. exact K5'.
  - apply (finish_tail σ0 a rat σ4 n1); auto.
Qed.

Theorem result_fresh_or_alias_div :
  forall fuel qf mf σ a b,
  let '(σ', r) := s_div fuel qf mf σ a b in
  match r with SV (VRef x) => length σ <= x \/ a = VRef x | _ => True end.
Proof.
  intros fuel qf mf σ a b.
  assert (G : rgood σ a (snd (s_ratio_normalize false fuel qf mf (σ ++ [ORatio a b]) (length σ)))).
  { unfold s_ratio_normalize.
    assert (RF : rat_fields (σ ++ [ORatio a b]) (length σ) = (a, b))
      by (unfold rat_fields; now rewrite lookup_alloc).
    rewrite RF. destruct (v_is_zero b); [exact I|]. destruct (v_is_zero a); [left; exact I|].
    assert (E1 : ext σ (σ ++ [ORatio a b])) by (eexists; reflexivity).
    pose proof (s_gcd_loop_ext fuel qf mf σ _ a b E1) as K1.
    pose proof (s_gcd_loop_ext fuel qf mf _ _ a b (ext_refl (σ ++ [ORatio a b]))) as K2.
    destruct (s_gcd_loop fuel qf mf (σ ++ [ORatio a b]) a b) as [σg [g| |]]; cbn [fst snd rgood] in K1, K2 |- *; auto.
    pose proof (ext_len _ _ K2) as Le. pose proof (lt_alloc σ (ORatio a b)) as Lt.
    apply s_ratio_finish_alias; auto; [lia|].
    rewrite (rat_fields_ext _ σg (length σ) K2 Lt), RF. reflexivity. }
  unfold s_div, s_div_gen, s_make_ratio, alloc.
  assert (G' : match snd (s_ratio_normalize false fuel qf mf (σ ++ [ORatio a b]) (length σ)) with
               | SV (VRef x) => length σ <= x \/ a = VRef x | _ => True end).
  { destruct (snd _) as [[z|x]| |]; auto. destruct G as [G | G]; [left; exact G | right; now symmetry]. }
  destruct (classify σ a); destruct (classify σ b); auto;
    destruct (s_ratio_normalize _ _ _ _ _ _) as [σ' res]; exact G'.
Qed.
