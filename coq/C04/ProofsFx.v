(** Proofs for the single-word operations, normalisation, the generic integer dispatch and the VM
    fixnum fast paths of C04/Model2.v. *)
From ChibiV Require Import Common.Words C04.Model C04.Model2 C04.Proofs.
From Coq Require Import ZifyBool.
Local Open Scope Z_scope.

Ltac Zify.zify_post_hook ::= Z.div_mod_to_equations.

(** ** the 128-bit intermediate never wraps on word-sized inputs *)
Lemma B2_pos : 0 < B2.
Proof. unfold B2. pose proof B_pos. nia. Qed.

Lemma lu_id x : 0 <= x < B2 -> lu x = x.
Proof. intros H. unfold lu. apply Z.mod_small. exact H. Qed.

Lemma mul_word_bound x b c : isword x -> isword b -> isword c -> 0 <= x * b + c < B2.
Proof. unfold isword, B2. pose proof B_pos. intros. nia. Qed.

Lemma isword_0 : isword 0.
Proof. unfold isword. pose proof B_pos. lia. Qed.

(** ** fxmul *)
Lemma fxmul_loop_spec : forall a b carry r c,
  words a -> isword b -> isword carry -> fxmul_loop a b carry = (r, c) ->
  val r + c * B ^ Z.of_nat (length a) = val a * b + carry
  /\ words r /\ length r = length a /\ isword c.
Proof.
  induction a as [|x a IH]; intros b carry r c Ha Hb Hc H.
  - cbn [fxmul_loop] in H. apply pair_equal_spec in H. destruct H as [<- <-].
    cbn [val length]. rewrite Z.pow_0_r. repeat split; try lia; try constructor; apply Hc.
  - inversion Ha as [|? ? Hx Ha']; subst. cbn [fxmul_loop] in H.
    pose proof (mul_word_bound x b carry Hx Hb Hc) as Hn.
    assert (Hxb : lu (x * b) = x * b).
    { apply lu_id. pose proof (mul_word_bound x b 0 Hx Hb isword_0). lia. }
    rewrite Hxb in H. rewrite (lu_id _ Hn) in H.
    set (n := x * b + carry) in *.
    assert (Hq : isword ((n / B) mod B) /\ (n / B) mod B = n / B).
    { pose proof B_pos. assert (0 <= n / B < B).
      { split; [apply Z.div_pos; lia|apply Z.div_lt_upper_bound; [lia|]]. unfold B2 in Hn. lia. }
      rewrite Z.mod_small by assumption. split; [exact H1|reflexivity]. }
    destruct Hq as [Hq1 Hq2].
    destruct (fxmul_loop a b ((n / B) mod B)) as [r' c'] eqn:E.
    apply pair_equal_spec in H. destruct H as [<- <-].
    apply IH in E; [|assumption|assumption|assumption].
    destruct E as (Hv & Hw & Hl & Hcw).
    cbn [val length]. rewrite Nat2Z.inj_succ, Z.pow_succ_r by lia.
    repeat split; [|constructor; [apply isword_mod|exact Hw]|lia|apply Hcw|apply Hcw].
    rewrite Hq2 in Hv. pose proof B_pos. pose proof (Z.div_mod n B ltac:(lia)) as Hdm.
    nia.
Qed.

Lemma fxmul_spec a b off : words a -> isword b ->
  val (fxmul a b off) = val a * b * B ^ Z.of_nat off /\ words (fxmul a b off).
Proof.
  intros Ha Hb. unfold fxmul.
  destruct (fxmul_loop a b 0) as [r c] eqn:E.
  apply fxmul_loop_spec in E; [|assumption|assumption|apply isword_0].
  destruct E as (Hv & Hw & Hl & Hc).
  rewrite !val_app, val_repeat0, repeat_length, Hl.
  split.
  - destruct (Z.eqb_spec c 0) as [->|Hne]; cbn [val]; nia.
  - apply words_app; [apply words_repeat0|]. apply words_app; [exact Hw|].
    destruct (c =? 0); constructor; [exact Hc|constructor].
Qed.

Lemma fxmul_nonempty a b off : a <> [] -> fxmul a b off <> [].
Proof.
  intros Hna. unfold fxmul. destruct a as [|x a]; [congruence|]. cbn [fxmul_loop].
  destruct (fxmul_loop a b _) as [r c]. intros H. apply app_eq_nil in H. destruct H as [_ H].
  cbn in H. congruence.
Qed.

(** ** fxdiv *)
Lemma fxdiv_loop_spec : forall a b qs r,
  words a -> 0 < b < B -> fxdiv_loop a b = (qs, r) ->
  val a = val qs * b + r /\ 0 <= r < b /\ words qs /\ length qs = length a.
Proof.
  induction a as [|x a IH]; intros b qs r Ha Hb H.
  - cbn [fxdiv_loop] in H. apply pair_equal_spec in H. destruct H as [<- <-].
    cbn. repeat split; try lia. constructor.
  - inversion Ha as [|? ? Hx Ha']; subst. cbn [fxdiv_loop] in H.
    destruct (fxdiv_loop a b) as [qs' r0] eqn:E.
    apply IH in E; [|assumption|assumption]. destruct E as (Hv & Hr0 & Hw & Hl).
    pose proof B_pos as HB. unfold isword in Hx.
    assert (Hn : 0 <= r0 * B + x < B2 /\ r0 * B + x < b * B) by (unfold B2; nia).
    destruct Hn as [Hn Hnb].
    assert (H1 : lu (r0 * B) = r0 * B) by (apply lu_id; unfold B2 in *; nia).
    rewrite H1 in H. rewrite (lu_id _ Hn) in H.
    set (n := r0 * B + x) in *.
    assert (Hq : 0 <= n / b < B).
    { split; [apply Z.div_pos; lia|apply Z.div_lt_upper_bound; lia]. }
    rewrite (Z.mod_small (n / b) B Hq) in H.
    pose proof (Z.div_mod n b ltac:(lia)) as Hdm.
    pose proof (Z.mod_pos_bound n b ltac:(lia)) as Hmb.
    assert (H2 : lu (n / b * b) = n / b * b) by (apply lu_id; nia).
    rewrite H2 in H.
    assert (H3 : n - n / b * b = n mod b) by lia.
    rewrite H3 in H. rewrite lu_id in H by (unfold B2; nia).
    rewrite (Z.mod_small (n mod b) B) in H by lia.
    apply pair_equal_spec in H. destruct H as [<- <-].
    cbn [val length]. repeat split; [|lia|lia|constructor; [exact Hq|exact Hw]|lia].
    nia.
Qed.

Lemma firstn_all2 {A} (l : list A) : firstn 0 l = [].
Proof. reflexivity. Qed.

Lemma fxdiv_spec a b q r : words a -> a <> [] -> 0 < b < B -> fxdiv a b 0 = (q, r) ->
  val a = val q * b + r /\ 0 <= r < b /\ words q /\ length q = length a.
Proof.
  intros Ha Hna Hb H. unfold fxdiv in H. cbn [skipn firstn app] in H.
  destruct (fxdiv_loop (firstn (hi a) a) b) as [qs r'] eqn:E.
  apply pair_equal_spec in H. destruct H as [<- <-].
  apply fxdiv_loop_spec in E; [|apply words_firstn; assumption|assumption].
  destruct E as (Hv & Hr & Hw & Hl).
  rewrite firstn_strip_val in Hv by assumption.
  rewrite firstn_hi_length in Hl by assumption.
  rewrite val_app, skipn_hi_val by assumption.
  repeat split; [lia|lia|lia|apply words_app; [exact Hw|apply words_skipn; exact Ha]|].
  rewrite app_length, Hl, skipn_length. pose proof (hi_le_length a Hna). lia.
Qed.

(** ** fxrem *)
Lemma fxrem_loop_spec : forall a b0, words a -> 0 < b0 < B -> fxrem_loop a b0 = val a mod b0.
Proof.
  induction a as [|x a IH]; intros b0 Ha Hb.
  - cbn [fxrem_loop val]. symmetry. apply Z.mod_0_l. lia.
  - inversion Ha as [|? ? Hx Ha']; subst. cbn [fxrem_loop val].
    rewrite IH by assumption.
    pose proof B_pos as HB. unfold isword in Hx.
    pose proof (Z.mod_pos_bound (val a) b0 ltac:(lia)) as Hr0.
    set (r0 := val a mod b0) in *.
    assert (Hn : 0 <= r0 * B + x < B2 /\ r0 * B + x < b0 * B) by (unfold B2; nia).
    destruct Hn as [Hn Hnb].
    rewrite (lu_id (r0 * B)) by (unfold B2 in *; nia). rewrite (lu_id _ Hn).
    set (n := r0 * B + x) in *.
    assert (Hq : 0 <= n / b0 < B).
    { split; [apply Z.div_pos; lia|apply Z.div_lt_upper_bound; lia]. }
    rewrite (Z.mod_small (n / b0) B Hq).
    pose proof (Z.div_mod n b0 ltac:(lia)) as Hdm.
    pose proof (Z.mod_pos_bound n b0 ltac:(lia)) as Hmb.
    rewrite (lu_id (n / b0 * b0)) by nia.
    replace (n - n / b0 * b0) with (n mod b0) by lia.
    rewrite lu_id by (unfold B2; nia).
    unfold n, r0.
    rewrite <- Z.add_mod_idemp_l by lia. rewrite Z.mul_mod_idemp_l by lia.
    rewrite Z.add_mod_idemp_l by lia. f_equal. ring.
Qed.

(** b & (b-1) = 0 with b > 0 means b is a power of two *)
Lemma land_pred_pow2 b : 0 < b -> Z.land b (b - 1) = 0 -> b = 2 ^ Z.log2 b.
Proof.
  intros Hb Hl. pose proof (Z.log2_spec b Hb) as [Hlo Hhi]. pose proof (Z.log2_nonneg b) as Hk.
  destruct (Z.eq_dec b (2 ^ Z.log2 b)) as [E|NE]; [exact E|exfalso].
  assert (Hb1 : 2 ^ Z.log2 b <= b - 1 < 2 ^ Z.succ (Z.log2 b)) by lia.
  assert (Hlog : Z.log2 (b - 1) = Z.log2 b).
  { apply Z.log2_unique; [exact Hk|exact Hb1]. }
  assert (Ht : Z.testbit (Z.land b (b - 1)) (Z.log2 b) = true).
  { rewrite Z.land_spec, Z.bit_log2 by lia. rewrite <- Hlog. rewrite Z.bit_log2; [reflexivity|].
    pose proof (Z.pow_pos_nonneg 2 (Z.log2 b)). lia. }
  rewrite Hl, Z.bits_0 in Ht. discriminate.
Qed.

Lemma fxrem_spec s a b : wf_big (s, a) -> Z.abs b < B ->
  fxrem (s, a) b = if b =? 0 then None else Some (Z.rem (s * val a) b).
Proof.
  intros (Hs & Ha & Hna) Hbb. cbn [fst snd] in *. unfold fxrem.
  pose proof (val_nonneg a Ha) as Hv0.
  assert (Hrem : forall m, 0 < m -> Z.rem (s * val a) m = s * (val a mod m)).
  { intros m Hm. destruct Hs as [-> | ->].
    - rewrite !Z.mul_1_l. apply Z.rem_mod_nonneg; lia.
    - replace (-1 * val a) with (- val a) by ring. rewrite Z.rem_opp_l by lia.
      rewrite Z.rem_mod_nonneg by lia. ring. }
  destruct ((b >? 0) && (Z.land b (b - 1) =? 0)) eqn:Hp.
  - apply andb_prop in Hp. destruct Hp as [Hb0 Hl]. apply Z.gtb_lt in Hb0. apply Z.eqb_eq in Hl.
    destruct (Z.eqb_spec b 0); [lia|]. f_equal. rewrite Hrem by lia. f_equal.
    pose proof (land_pred_pow2 b Hb0 Hl) as Hpow. pose proof (Z.log2_nonneg b) as Hk.
    set (k := Z.log2 b) in *.
    assert (Hk64 : k < 64).
    { apply (Z.pow_lt_mono_r_iff 2); [lia|lia|]. rewrite <- Hpow, <- B_eq. lia. }
    replace (b - 1) with (Z.ones k) by (rewrite Z.ones_equiv; lia).
    rewrite Z.land_ones by lia. rewrite <- Hpow.
    destruct a as [|x a']; [congruence|]. cbn [nth val].
    assert (HB : B = b * 2 ^ (64 - k)).
    { rewrite B_eq, Hpow, <- Z.pow_add_r by lia. f_equal. lia. }
    rewrite HB. replace (x + b * 2 ^ (64 - k) * val a') with (x + (2 ^ (64 - k) * val a') * b) by ring.
    rewrite Z.mod_add by lia. reflexivity.
  - assert (Hb0' : (if b >=? 0 then b else - b) = Z.abs b) by (destruct (Z.geb_spec b 0); lia).
    rewrite Hb0'. destruct (Z.eqb_spec b 0) as [->|Hne]; [reflexivity|].
    destruct (Z.eqb_spec (Z.abs b) 0); [lia|]. f_equal.
    rewrite fxrem_loop_spec by (try apply words_firstn; try assumption; lia).
    rewrite firstn_strip_val by assumption.
    rewrite Z.mod_small by (pose proof (Z.mod_pos_bound (val a) (Z.abs b)); lia).
    rewrite <- Hrem by lia.
    destruct (Z.abs_spec b) as [[_ ->]|[_ ->]]; [reflexivity|]. rewrite Z.rem_opp_r by lia. reflexivity.
Qed.

(** ** normalize *)
Definition wf_num (x : num) : Prop :=
  match x with Fix z => fits_fix z = true | Big s d => wf_big (s, d) end.
Definition canon (x : num) : Prop := is_fix x = fits_fix (nval x).

Lemma FIX_lt_B : FIXMAX + 1 < B.
Proof. reflexivity. Qed.

Lemma hi1_val d : words d -> d <> [] -> hi d = 1%nat -> val d = nth 0 d 0.
Proof.
  intros Hw Hn Hh. rewrite <- (firstn_strip_val d Hw), Hh.
  destruct d as [|x d]; [congruence|]. cbn. lia.
Qed.

Lemma normalize_spec s d : wf_big (s, d) ->
  nval (normalize (Big s d)) = s * val d /\ canon (normalize (Big s d)) /\ wf_num (normalize (Big s d)).
Proof.
  intros Hwf. pose proof Hwf as (Hs & Hw & Hn). cbn [fst snd] in *. unfold normalize, canon.
  destruct (Nat.ltb_spec 1 (hi d)) as [Hh|Hh].
  - cbn [nval is_fix]. split; [reflexivity|]. split; [|exact Hwf].
    pose proof (val_ge_pow_hi d Hw ltac:(lia)) as Hge.
    assert (B <= B ^ Z.of_nat (hi d - 1)).
    { rewrite <- (Z.pow_1_r B) at 1. apply Z.pow_le_mono_r; [reflexivity|lia]. }
    pose proof FIX_lt_B. unfold fits_fix, FIXMIN, FIXMAX in *.
    destruct Hs as [-> | ->]; lia.
  - assert (Hh1 : hi d = 1%nat) by (pose proof (hi_ge1 d); lia).
    rewrite <- (hi1_val d Hw Hn Hh1).
    pose proof (val_nonneg d Hw) as Hv0. set (v := val d) in *.
    destruct ((v >? FIXMAX) && negb ((s =? -1) && (v =? FIXMAX + 1))) eqn:Hc; cbn [nval is_fix].
    + split; [reflexivity|]. split; [|exact Hwf]. unfold fits_fix, FIXMIN, FIXMAX in *.
      destruct Hs as [-> | ->]; lia.
    + split; [ring|]. unfold wf_num, fits_fix, FIXMIN, FIXMAX in *.
      destruct Hs as [-> | ->]; lia.
Qed.

Lemma normalize_fix z : normalize (Fix z) = Fix z.
Proof. reflexivity. Qed.

(** ** fixnum_to_bignum *)
Lemma fixnum_to_bignum_spec z : Z.abs z < B ->
  wf_big (fixnum_to_bignum z) /\ bval (fixnum_to_bignum z) = z.
Proof.
  intros Hz. unfold fixnum_to_bignum, wf_big, bval, fx_sign. cbn [fst snd val].
  split; [split; [destruct (z <? 0); auto|split; [repeat constructor; unfold isword; lia|congruence]]|].
  destruct (Z.ltb_spec z 0); lia.
Qed.

(** ** fxadd *)
Lemma fxadd_loop_spec : forall a carry r c,
  words a -> isword carry -> fxadd_loop a carry = (r, c) ->
  val r + c * B ^ Z.of_nat (length a) = val a + carry
  /\ words r /\ length r = length a /\ 0 <= c < B /\ (a <> [] -> c <= 1).
Proof.
  induction a as [|x a IH]; intros carry r c Ha Hc H.
  - cbn in H. apply pair_equal_spec in H. destruct H as [<- <-]. cbn. unfold isword in Hc.
    repeat split; try lia; try constructor. congruence.
  - inversion Ha as [|? ? Hx Ha']; subst. cbn [fxadd_loop] in H.
    destruct (Z.eqb_spec carry 0) as [->|Hne].
    + apply pair_equal_spec in H. destruct H as [<- <-]. pose proof B_pos.
      repeat split; try lia. exact Ha.
    + set (c' := if x >? WMAX - carry then 1 else 0) in *.
      assert (Hstep : isword c' /\ (x + carry) mod B + B * c' = x + carry).
      { unfold c', isword, WMAX, B in *. destruct (Z.gtb_spec x (18446744073709551615 - carry)); lia. }
      destruct Hstep as [Hc' Hstep].
      destruct (fxadd_loop a c') as [r' cf] eqn:E.
      apply pair_equal_spec in H. destruct H as [<- <-].
      apply IH in E; [|assumption|assumption]. destruct E as (Hv & Hw & Hl & Hcf & Hcf1).
      cbn [val length]. rewrite Nat2Z.inj_succ, Z.pow_succ_r by lia.
      repeat split; [|constructor; [apply isword_mod|exact Hw]|lia|lia|lia|].
      * nia.
      * intros _. destruct a as [|y a0]; [|apply Hcf1; congruence].
        destruct r' as [|? ?]; cbn [length] in Hl; [|lia].
        cbn [val length Z.of_nat] in Hv. rewrite Z.pow_0_r in Hv.
        assert (cf = c') as -> by lia.
        unfold c'. destruct (x >? WMAX - carry); lia.
Qed.

Lemma fxadd_spec a b : words a -> a <> [] -> isword b ->
  val (fxadd a b) = val a + b /\ words (fxadd a b) /\ fxadd a b <> [].
Proof.
  intros Ha Hna Hb. unfold fxadd.
  destruct (fxadd_loop (firstn (hi a) a) b) as [r c] eqn:E.
  apply fxadd_loop_spec in E; [|apply words_firstn; assumption|assumption].
  destruct E as (Hv & Hw & Hl & Hc & Hc1).
  rewrite firstn_strip_val in Hv by assumption.
  rewrite firstn_hi_length in * by assumption.
  assert (Hne : firstn (hi a) a <> []).
  { intros Hnil. apply (f_equal (@length Z)) in Hnil. rewrite firstn_hi_length in Hnil by assumption.
    cbn [length] in Hnil. pose proof (hi_ge1 a). lia. }
  specialize (Hc1 Hne). pose proof (hi_ge1 a) as Hh1.
  assert (Hrne : r <> []) by (intros ->; cbn [length] in Hl; lia).
  destruct (Z.eqb_spec c 0) as [->|Hc0].
  - rewrite val_app, Hl, skipn_hi_val by assumption.
    split; [lia|]. split; [apply words_app; [exact Hw|apply words_skipn; exact Ha]|].
    intros Hnil. apply app_eq_nil in Hnil. tauto.
  - assert (c = 1) as -> by lia. rewrite val_app, Hl. cbn [val].
    split; [lia|]. split; [apply words_app; [exact Hw|repeat constructor; unfold isword, B; lia]|].
    intros Hnil. apply app_eq_nil in Hnil. tauto.
Qed.

(** ** fxsub *)
Lemma fxsub_loop_spec : forall a borrow r c,
  words a -> isword borrow -> fxsub_loop a borrow = (r, c) ->
  val r - c * B ^ Z.of_nat (length a) = val a - borrow
  /\ words r /\ length r = length a /\ 0 <= c < B.
Proof.
  induction a as [|x a IH]; intros borrow r c Ha Hc H.
  - cbn in H. apply pair_equal_spec in H. destruct H as [<- <-]. cbn. unfold isword in Hc.
    repeat split; try lia; try constructor.
  - inversion Ha as [|? ? Hx Ha']; subst. cbn [fxsub_loop] in H.
    destruct (Z.eqb_spec borrow 0) as [->|Hne].
    + apply pair_equal_spec in H. destruct H as [<- <-]. pose proof B_pos.
      repeat split; try lia. exact Ha.
    + set (c' := if x <? borrow then 1 else 0) in *.
      assert (Hstep : isword c' /\ (x - borrow) mod B - B * c' = x - borrow).
      { unfold c', isword, B in *. destruct (Z.ltb_spec x borrow); lia. }
      destruct Hstep as [Hc' Hstep].
      destruct (fxsub_loop a c') as [r' cf] eqn:E.
      apply pair_equal_spec in H. destruct H as [<- <-].
      apply IH in E; [|assumption|assumption]. destruct E as (Hv & Hw & Hl & Hcf).
      cbn [val length]. rewrite Nat2Z.inj_succ, Z.pow_succ_r by lia.
      repeat split; [|constructor; [apply isword_mod|exact Hw]|lia|lia|lia].
      nia.
Qed.

Lemma fxsub_spec s a b r c : wf_big (s, a) -> isword b -> fxsub (s, a) b = (r, c) ->
  c = 0 /\ bval r = s * (val a - b) /\ wf_big r.
Proof.
  intros (Hs & Ha & Hna) Hb H. cbn [fst snd] in *. unfold fxsub in H.
  destruct a as [|x a']; [congruence|]. cbn [nth tl] in H.
  inversion Ha as [|? ? Hx Ha']; subst.
  pose proof B_pos as HB. unfold isword in Hx, Hb.
  destruct ((hi (x :: a') =? 1)%nat && (b >? x)) eqn:Hc.
  - apply andb_prop in Hc. destruct Hc as [Hh Hbx]. apply Nat.eqb_eq in Hh. apply Z.gtb_lt in Hbx.
    apply pair_equal_spec in H. destruct H as [<- <-].
    pose proof (hi1_val (x :: a') Ha ltac:(congruence) Hh) as Hv. cbn [nth val] in Hv.
    unfold bval, wf_big. cbn [fst snd val].
    rewrite (Z.mod_small (b - x) B) by lia.
    split; [reflexivity|]. split; [nia|].
    split; [destruct Hs; lia|]. split; [constructor; [unfold isword; lia|exact Ha']|congruence].
  - destruct (fxsub_loop (x :: a') b) as [r' c'] eqn:E.
    apply pair_equal_spec in H. destruct H as [<- <-].
    apply fxsub_loop_spec in E; [|assumption|exact Hb]. destruct E as (Hv & Hw & Hl & Hcb).
    assert (Hge : b <= val (x :: a')).
    { apply andb_false_elim in Hc. destruct Hc as [Hh|Hbx].
      - apply Nat.eqb_neq in Hh. pose proof (hi_ge1 (x :: a')).
        pose proof (val_ge_pow_hi (x :: a') Ha ltac:(lia)) as Hge.
        assert (B <= B ^ Z.of_nat (hi (x :: a') - 1)).
        { rewrite <- (Z.pow_1_r B) at 1. apply Z.pow_le_mono_r; lia. }
        lia.
      - rewrite Z.gtb_ltb, Z.ltb_ge in Hbx. cbn [val]. pose proof (val_nonneg a' Ha'). nia. }
    pose proof (val_bound r' Hw) as Hub. rewrite Hl in Hub. pose proof (val_nonneg r' Hw) as Hlb.
    assert (c' = 0) as -> by nia.
    unfold bval, wf_big. cbn [fst snd]. split; [reflexivity|]. split; [f_equal; lia|].
    split; [exact Hs|]. split; [exact Hw|]. intros ->. cbn in Hl. lia.
Qed.

Lemma bignum_add_fixnum_spec x z : wf_big x -> Z.abs z < B ->
  bval (bignum_add_fixnum x z) = bval x + z /\ wf_big (bignum_add_fixnum x z).
Proof.
  destruct x as [s a]. intros Hwf Hz. pose proof Hwf as (Hs & Ha & Hna). cbn [fst snd] in *.
  unfold bignum_add_fixnum.
  assert (Hw : isword (Z.abs z)) by (unfold isword; lia).
  destruct (Z.eqb_spec s (fx_sign z)) as [He|Hne].
  - destruct (fxadd_spec a (Z.abs z) Ha Hna Hw) as (Hv & Hww & Hnn).
    unfold bval, wf_big. cbn [fst snd]. rewrite Hv. split; [|tauto].
    unfold fx_sign in He. destruct (Z.ltb_spec z 0); subst s; lia.
  - destruct (fxsub (s, a) (Z.abs z)) as [r c] eqn:E.
    apply fxsub_spec in E; [|exact Hwf|exact Hw]. destruct E as (_ & Hv & Hwr). cbn [fst].
    split; [|exact Hwr]. rewrite Hv. unfold bval. cbn [fst snd].
    unfold fx_sign in Hne. destruct (Z.ltb_spec z 0); destruct Hs as [-> | ->]; lia.
Qed.

(** ** generic add / sub and the VM fast paths *)
Lemma wf_num_big_num x : wf_big x -> wf_num (big_num x).
Proof. destruct x. exact (fun H => H). Qed.

Lemma nval_big_num x : nval (big_num x) = bval x.
Proof. destruct x. reflexivity. Qed.

Lemma normalize_big_spec x : wf_big x ->
  nval (normalize (big_num x)) = bval x /\ canon (normalize (big_num x)) /\ wf_num (normalize (big_num x)).
Proof. destruct x as [s d]. intros H. apply (normalize_spec s d H). Qed.

Lemma fits_abs_lt_B z : fits_fix z = true -> Z.abs z < B.
Proof. unfold fits_fix, FIXMIN, FIXMAX, B. lia. Qed.

Lemma canon_fix z : fits_fix z = true -> canon (Fix z).
Proof. intros H. unfold canon. cbn. symmetry. exact H. Qed.

Lemma num_add_spec a b : wf_num a -> wf_num b ->
  nval (num_add a b) = nval a + nval b /\ canon (num_add a b) /\ wf_num (num_add a b).
Proof.
  intros Ha Hb. destruct a as [x|sa da], b as [y|sb db]; cbn [wf_num] in *; unfold num_add.
  - cbn [nval]. destruct ((x + y <? FIXMIN) || (x + y >? FIXMAX)) eqn:Hov.
    + destruct (fixnum_to_bignum_spec x (fits_abs_lt_B x Ha)) as [Hw Hv].
      destruct (bignum_add_fixnum_spec _ y Hw (fits_abs_lt_B y Hb)) as [Hv2 Hw2].
      destruct (normalize_big_spec _ Hw2) as (Hn1 & Hn2 & Hn3). rewrite Hn1, Hv2, Hv. tauto.
    + assert (fits_fix (x + y) = true) by (unfold fits_fix; lia).
      cbn [nval]. split; [reflexivity|]. split; [apply canon_fix; assumption|assumption].
  - destruct (bignum_add_fixnum_spec _ x Hb (fits_abs_lt_B x Ha)) as [Hv2 Hw2].
    destruct (normalize_big_spec _ Hw2) as (Hn1 & Hn2 & Hn3). rewrite Hn1, Hv2. cbn [nval]. unfold bval. cbn [fst snd].
    split; [lia|tauto].
  - destruct (bignum_add_fixnum_spec _ y Ha (fits_abs_lt_B y Hb)) as [Hv2 Hw2].
    destruct (normalize_big_spec _ Hw2) as (Hn1 & Hn2 & Hn3). rewrite Hn1, Hv2. cbn [nval]. unfold bval. cbn [fst snd].
    split; [lia|tauto].
  - destruct (bignum_add_spec (sb, db) (sa, da) Hb Ha) as [Hv2 Hw2].
    destruct (normalize_big_spec _ Hw2) as (Hn1 & Hn2 & Hn3). rewrite Hn1, Hv2. cbn [nval]. unfold bval. cbn [fst snd].
    split; [lia|tauto].
Qed.

Lemma wrap_fix_id z : fits_fix z = true -> wrap_fix z = z.
Proof.
  intros H. unfold wrap_fix. rewrite Z.mod_small; [lia|]. unfold fits_fix, FIXMIN, FIXMAX in *. lia.
Qed.

Lemma negate_spec x : wf_num x -> (forall z, x = Fix z -> fits_fix (- z) = true) ->
  nval (negate x) = - nval x /\ wf_num (negate x).
Proof.
  intros Hw Hf. destruct x as [z|s d]; cbn [negate nval wf_num].
  - rewrite wrap_fix_id by (apply Hf; reflexivity). split; [reflexivity|]. apply Hf. reflexivity.
  - destruct Hw as (Hs & Hd & Hn). cbn [fst snd] in *. split; [ring|].
    split; [cbn [fst]; lia|]. split; assumption.
Qed.

(** sexp_sub: exact for ALL operand pairs (round 2: the FIX_FIX case hands over to bignums when the
    difference does not fit; before the repair it was the raw wrapping sexp_fx_sub) *)
Lemma num_sub_total_spec a b : wf_num a -> wf_num b ->
  nval (num_sub a b) = nval a - nval b /\ canon (num_sub a b) /\ wf_num (num_sub a b).
Proof.
  intros Ha Hb. destruct a as [x|sa da], b as [y|sb db]; cbn [wf_num is_fix nval] in *; unfold num_sub.
  - destruct ((x - y <? FIXMIN) || (x - y >? FIXMAX)) eqn:Hov.
    + destruct (fixnum_to_bignum_spec x (fits_abs_lt_B x Ha)) as [Hwx Hvx].
      destruct (fixnum_to_bignum_spec y (fits_abs_lt_B y Hb)) as [Hwy Hvy].
      destruct (bignum_sub_spec _ _ Hwx Hwy) as [Hv2 Hw2].
      destruct (normalize_big_spec _ Hw2) as (Hn1 & Hn2 & Hn3). rewrite Hn1, Hv2, Hvx, Hvy. tauto.
    + assert (fits_fix (x - y) = true) by (unfold fits_fix; lia).
      cbn [nval wf_num]. split; [reflexivity|]. split; [apply canon_fix; assumption|assumption].
  - destruct (fixnum_to_bignum_spec x (fits_abs_lt_B x Ha)) as [Hw Hv].
    destruct (bignum_sub_spec (sb, db) _ Hb Hw) as [Hv2 Hw2].
    destruct (bignum_sub (sb, db) (fixnum_to_bignum x)) as [sr dr] eqn:E. cbn [big_num fst snd negate].
    assert (Hw3 : wf_big (- sr, dr)).
    { destruct Hw2 as (H1 & H2 & H3). cbn [fst snd] in *. split; [cbn [fst]; lia|split; assumption]. }
    destruct (normalize_spec _ _ Hw3) as (Hn1 & Hn2 & Hn3). rewrite Hn1.
    rewrite Hv in Hv2. unfold bval in Hv2. cbn [fst snd] in Hv2. split; [lia|tauto].
  - destruct (fixnum_to_bignum_spec y (fits_abs_lt_B y Hb)) as [Hw Hv].
    destruct (bignum_sub_spec (sa, da) _ Ha Hw) as [Hv2 Hw2].
    destruct (normalize_big_spec _ Hw2) as (Hn1 & Hn2 & Hn3). rewrite Hn1, Hv2, Hv. unfold bval. cbn [fst snd].
    split; [lia|tauto].
  - destruct (bignum_sub_spec (sa, da) (sb, db) Ha Hb) as [Hv2 Hw2].
    destruct (normalize_big_spec _ Hw2) as (Hn1 & Hn2 & Hn3). rewrite Hn1, Hv2. unfold bval. cbn [fst snd].
    split; [lia|tauto].
Qed.

(** the statement of round 1 (with its now superfluous premise), kept for the proofs that use it *)
Lemma num_sub_spec a b : wf_num a -> wf_num b ->
  (is_fix a = true -> is_fix b = true -> fits_fix (nval a - nval b) = true) ->
  nval (num_sub a b) = nval a - nval b /\ canon (num_sub a b) /\ wf_num (num_sub a b).
Proof. intros Ha Hb _. apply num_sub_total_spec; assumption. Qed.


(** VM fast paths: exact for ALL operand pairs, including the overflow branch *)
Lemma vm_add_spec a b : wf_num a -> wf_num b ->
  nval (vm_add a b) = nval a + nval b /\ canon (vm_add a b) /\ wf_num (vm_add a b).
Proof.
  intros Ha Hb. destruct a as [x|sa da], b as [y|sb db]; unfold vm_add; try (apply num_add_spec; assumption).
  cbn [wf_num] in *.
  destruct ((x + y <? FIXMIN) || (x + y >? FIXMAX)) eqn:Hov.
  - destruct (fixnum_to_bignum_spec x (fits_abs_lt_B x Ha)) as [Hw Hv].
    destruct (num_add_spec (big_num (fixnum_to_bignum x)) (Fix y) (wf_num_big_num _ Hw) Hb) as (H1 & H2 & H3).
    rewrite H1, nval_big_num, Hv. tauto.
  - assert (fits_fix (x + y) = true) by (unfold fits_fix; lia).
    cbn [nval]. split; [reflexivity|]. split; [apply canon_fix; assumption|assumption].
Qed.

Lemma vm_sub_spec a b : wf_num a -> wf_num b ->
  nval (vm_sub a b) = nval a - nval b /\ canon (vm_sub a b) /\ wf_num (vm_sub a b).
Proof.
  intros Ha Hb. destruct a as [x|sa da], b as [y|sb db]; unfold vm_sub;
    try (apply num_sub_spec; try assumption; cbn [is_fix]; congruence).
  cbn [wf_num] in *.
  destruct ((x - y <? FIXMIN) || (x - y >? FIXMAX)) eqn:Hov.
  - destruct (fixnum_to_bignum_spec x (fits_abs_lt_B x Ha)) as [Hw Hv].
    destruct (num_sub_spec (big_num (fixnum_to_bignum x)) (Fix y) (wf_num_big_num _ Hw) Hb) as (H1 & H2 & H3).
    { destruct (fixnum_to_bignum x). cbn [big_num is_fix]. congruence. }
    rewrite H1, nval_big_num, Hv. tauto.
  - assert (fits_fix (x - y) = true) by (unfold fits_fix; lia).
    cbn [nval]. split; [reflexivity|]. split; [apply canon_fix; assumption|assumption].
Qed.

(** non-vacuity *)
Example fxmul_example : fxmul [WMAX; WMAX; 0] WMAX 1 = [0; 1; WMAX; WMAX - 1].
Proof. vm_compute. reflexivity. Qed.
Example fxdiv_example : fxdiv [5; 7; 0] 10 0 = ([12912720851596686131; 0; 0], 7).
Proof. vm_compute. reflexivity. Qed.
Example fxrem_example : fxrem (-1, [5; 7]) (-10) = Some (-7) /\ fxrem (1, [5; 7]) 8 = Some 5 /\ fxrem (1, [5]) 0 = None.
Proof. vm_compute. repeat split; reflexivity. Qed.
Example normalize_example :
  normalize (Big (-1) [FIXMAX + 1; 0]) = Fix FIXMIN /\ normalize (Big 1 [FIXMAX + 1]) = Big 1 [FIXMAX + 1].
Proof. vm_compute. split; reflexivity. Qed.
Example vm_add_example : vm_add (Fix FIXMAX) (Fix 1) = Big 1 [FIXMAX + 1] /\ vm_sub (Fix FIXMIN) (Fix 1) = Big (-1) [FIXMAX + 2].
Proof. vm_compute. split; reflexivity. Qed.
