(** C04 model, seventh part (round 2): the generic dispatch of sexp_add / sexp_sub / sexp_mul / sexp_div
    (bignum.c:1326-1719) over every pair of EXACT number types {fixnum, bignum, ratio, complex}, and
    sexp_complex_add / _sub / _mul / _div (bignum.c:994-1053) with sexp_complex_normalize (sexp.c:2748).
    Mirrors the tree with the round-2 repairs (sexp_sub FIX_FIX hand-over; componentwise complex
    subtraction; ratios stay exact against complex numbers).  Flonum entries of the table are not
    modelled.  NO proofs here. *)
From ChibiV Require Export Common.Words C04.Model C04.Model2 C04.Model3 C04.Model4 C04.Model5 C04.Model6.
Local Open Scope Z_scope.

(** an exact real as the C sees it: fixnum/bignum, or a ratio object (numerator, denominator) *)
Inductive xnum := XInt (v : num) | XRat (n d : num).

Section Fuel.
Variables (fuel qf mf : nat).     (* Euclid's loop / quot_rem rounds / Karatsuba depth, as in Model5 *)

(** sexp_add (1326-1394): operands ordered by type (at > bt swaps); FIX_RAT / BIG_RAT:
    a = sexp_make_ratio(a, 1), then RAT_RAT: sexp_ratio_add *)
Definition x_add (a b : xnum) : rres :=
  match a, b with
  | XInt x, XInt y => RInt (num_add x y)
  | XInt x, XRat n d => ratio_add fuel qf mf x (Fix 1) n d
  | XRat n d, XInt y => ratio_add fuel qf mf y (Fix 1) n d          (* swapped *)
  | XRat na da, XRat nb db => ratio_add fuel qf mf na da nb db
  end.

(** sexp_mul (1523-1590): same shape *)
Definition x_mul (a b : xnum) : rres :=
  match a, b with
  | XInt x, XInt y => match num_mul mf x y with Some v => RInt v | None => RFuel end
  | XInt x, XRat n d => ratio_mul fuel qf mf x (Fix 1) n d
  | XRat n d, XInt y => ratio_mul fuel qf mf y (Fix 1) n d          (* swapped *)
  | XRat na da, XRat nb db => ratio_mul fuel qf mf na da nb db
  end.

(** sexp_sub (1396-1497): no swap.  RAT_FIX / RAT_BIG: a and b are exchanged, negatep = 1, and the
    result r of (b/1 - a) is negated by sexp_mul(r, SEXP_NEG_ONE) (the generic product) *)
Definition x_sub (a b : xnum) : rres :=
  match a, b with
  | XInt x, XInt y => RInt (num_sub x y)
  | XInt x, XRat n d => ratio_sub fuel qf mf x (Fix 1) n d
  | XRat n d, XInt y =>
      match ratio_sub fuel qf mf y (Fix 1) n d with
      | RInt v => x_mul (XInt v) (XInt (Fix (-1)))
      | RRat n' d' => x_mul (XRat n' d') (XInt (Fix (-1)))
      | e => e
      end
  | XRat na da, XRat nb db => ratio_sub fuel qf mf na da nb db
  end.

(** sexp_div (1592-1719): two integers: sexp_ratio_normalize(sexp_make_ratio(a, b)); a ratio
    against an integer: the integer becomes x/1, then sexp_ratio_div *)
Definition x_div (a b : xnum) : rres :=
  match a, b with
  | XInt x, XInt y => ratio_normalize fuel qf mf x y
  | XInt x, XRat n d => ratio_div fuel qf mf x (Fix 1) n d
  | XRat n d, XInt y => ratio_div fuel qf mf n d y (Fix 1)
  | XRat na da, XRat nb db => ratio_div fuel qf mf na da nb db
  end.

(** numbers of the generic dispatch: an exact real or a complex object with exact parts *)
Inductive gnum := GR (x : xnum) | GC (re im : xnum).
Inductive gres := GV (g : gnum) | GErr | GFuel.

Definition xbind (r : rres) (k : xnum -> gres) : gres :=
  match r with RInt v => k (XInt v) | RRat n d => k (XRat n d) | RErr => GErr | RFuel => GFuel end.

(** sexp_complex_normalize(sexp_make_complex(re, im)): the real part alone when im == SEXP_ZERO *)
Definition mk_complex (re im : xnum) : gnum :=
  match im with XInt (Fix 0) => GR re | _ => GC re im end.

(** sexp_complex_add / _sub (componentwise, round-2 repair) / _mul / _div on (re, im) pairs *)
Definition c_add (a b : xnum * xnum) : gres :=
  xbind (x_add (fst a) (fst b)) (fun re => xbind (x_add (snd a) (snd b)) (fun im => GV (mk_complex re im))).
Definition c_sub (a b : xnum * xnum) : gres :=
  xbind (x_sub (fst a) (fst b)) (fun re => xbind (x_sub (snd a) (snd b)) (fun im => GV (mk_complex re im))).
Definition c_mul (a b : xnum * xnum) : gres :=
  xbind (x_mul (fst a) (fst b)) (fun t1 => xbind (x_mul (snd a) (snd b)) (fun t2 =>
  xbind (x_sub t1 t2) (fun re =>
  xbind (x_mul (fst a) (snd b)) (fun t3 => xbind (x_mul (snd a) (fst b)) (fun t4 =>
  xbind (x_add t3 t4) (fun im => GV (mk_complex re im))))))).
Definition c_div (a b : xnum * xnum) : gres :=
  xbind (x_mul (fst b) (fst b)) (fun t1 => xbind (x_mul (snd b) (snd b)) (fun t2 =>
  xbind (x_add t1 t2) (fun den =>
  xbind (x_mul (fst a) (fst b)) (fun t3 => xbind (x_mul (snd a) (snd b)) (fun t4 =>
  xbind (x_add t3 t4) (fun rn => xbind (x_div rn den) (fun re =>
  xbind (x_mul (snd a) (fst b)) (fun t5 => xbind (x_mul (fst a) (snd b)) (fun t6 =>
  xbind (x_sub t5 t6) (fun inum => xbind (x_div inum den) (fun im => GV (mk_complex re im)))))))))))).

(** a real operand against a complex one: sexp_make_complex(x, SEXP_ZERO) *)
Definition parts (g : gnum) : xnum * xnum := match g with GR x => (x, XInt (Fix 0)) | GC re im => (re, im) end.
Definition lift (r : rres) : gres := xbind r (fun x => GV (GR x)).

Definition g_add (a b : gnum) : gres :=
  match a, b with GR x, GR y => lift (x_add x y) | _, _ => c_add (parts a) (parts b) end.
Definition g_sub (a b : gnum) : gres :=
  match a, b with GR x, GR y => lift (x_sub x y) | _, _ => c_sub (parts a) (parts b) end.
Definition g_mul (a b : gnum) : gres :=
  match a, b with GR x, GR y => lift (x_mul x y) | _, _ => c_mul (parts a) (parts b) end.
Definition g_div (a b : gnum) : gres :=
  match a, b with GR x, GR y => lift (x_div x y) | _, _ => c_div (parts a) (parts b) end.
End Fuel.
