(** C04 store-passing model: WHICH heap object every arithmetic function of bignum.c allocates and
    WHICH it writes.  The value-level models (Model.v, Model2.v, Model3.v) say what words are
    computed; this file says where they are put, mirroring the C where it mutates in place
    (sexp_bignum_fxadd / fxsub, [dst] reuse in add_digits / sub_digits, sexp_negate_exact,
    sexp_ratio_normalize on its ratio object) or returns an alias (sexp_quotient by 1).
    A heap is a list of objects, a reference is an index; allocation appends (a reference is never
    reused: the theorems are about one call, during which the operands are GC roots).
    NO proofs in this file (proofs: ProofsStore.v). *)
From ChibiV Require Export Common.Words C04.Model C04.Model2 C04.Model3 C04.Model4.
Local Open Scope Z_scope.

Inductive value := VFix (z : Z) | VRef (r : nat).
Inductive obj := OBig (s : Z) (d : list Z) | ORatio (n d : value).
Definition store := list obj.

Definition lookup (σ : store) (r : nat) : option obj := nth_error σ r.
(** sexp_alloc_tagged: a fresh reference *)
Definition alloc (σ : store) (o : obj) : store * nat := (σ ++ [o], length σ).
(** any assignment to a field / data word of the object at [r] *)
Fixpoint write (σ : store) (r : nat) (o : obj) : store :=
  match σ, r with
  | [], _ => []
  | _ :: t, O => o :: t
  | x :: t, S r' => x :: write t r' o
  end.

(** the (sign, words) of the bignum at [r]; the default is never used by the generic operations
    (they dispatch on the type first), it only keeps the functions total *)
Definition get (σ : store) (r : nat) : big :=
  match lookup σ r with Some (OBig s d) => (s, d) | _ => (1, []) end.
Definition obig (x : big) : obj := OBig (fst x) (snd x).

(** sexp_copy_bignum(ctx, NULL, a, 0) (bignum.c:140-156): new object, same sign and words *)
Definition s_copy (σ : store) (a : nat) : store * nat := alloc σ (obig (get σ a)).

(** sexp_fixnum_to_bignum (bignum.c:29-36) *)
Definition s_fix2big (σ : store) (z : Z) : store * nat := alloc σ (obig (fixnum_to_bignum z)).

(** sexp_bignum_fxadd (bignum.c:215-227): the words of [a] ITSELF are overwritten; when the carry
    runs out of the hi words the result is a NEW object (sexp_copy_bignum(a, len+1)) and [a] keeps
    the partly added words. *)
Definition s_fxadd (σ : store) (a : nat) (b : Z) : store * nat :=
  let '(s, d) := get σ a in
  let len := hi d in
  let '(r, c) := fxadd_loop (firstn len d) b in
  let σ1 := write σ a (OBig s (r ++ skipn len d)) in
  if c =? 0 then (σ1, a) else alloc σ1 (OBig s (r ++ [1])).

(** sexp_bignum_fxsub (bignum.c:229-242): words and sign of [a] itself are overwritten *)
Definition s_fxsub (σ : store) (a : nat) (b : Z) : store * nat :=
  (write σ a (obig (fst (fxsub (get σ a) b))), a).

(** sexp_bignum_add_fixnum (bignum.c:427-437): copy first, then fxadd / fxsub ON THE COPY *)
Definition s_add_fixnum (σ : store) (a : nat) (z : Z) : store * nat :=
  let '(σ1, c) := s_copy σ a in
  if fst (get σ1 c) =? fx_sign z then s_fxadd σ1 c (Z.abs z) else s_fxsub σ1 c (Z.abs z).

(** c = (dst && sexp_bignum_hi(dst) >= alen) ? dst : sexp_copy_bignum(ctx, NULL, a, 0) *)
Definition s_pick (σ : store) (dst : option nat) (a : nat) : store * nat :=
  match dst with
  | Some t => if (hi (snd (get σ a)) <=? hi (snd (get σ t)))%nat then (σ, t) else s_copy σ a
  | None => s_copy σ a
  end.

(** sexp_bignum_add_digits (bignum.c:470-500) after the swap.  The words written are those of
    Model.add_digits_ord; with a reused [dst] that is not [a] the C leaves dst's own words above
    blen (every call site in bignum.c passes dst = a or NULL) — the model keeps dst's spare words
    above alen and is word-exact for dst = a and dst = NULL. *)
Definition s_add_digits_ord (σ : store) (dst : option nat) (a b : nat) : store * nat :=
  let da := snd (get σ a) in let db := snd (get σ b) in
  let alen := hi da in
  let '(r, cf) := add_loop (firstn alen da) (firstn (hi db) db) 0 in
  let '(σ1, c) := s_pick σ dst a in
  let '(sc, dc) := get σ1 c in
  let σ2 := write σ1 c (OBig sc (r ++ skipn alen dc)) in
  if cf =? 0 then (σ2, c) else alloc σ2 (OBig sc (r ++ [1])).

Definition s_add_digits (σ : store) (dst : option nat) (a b : nat) : store * nat :=
  if (hi (snd (get σ a)) <? hi (snd (get σ b)))%nat
  then s_add_digits_ord σ dst b a else s_add_digits_ord σ dst a b.

(** sexp_bignum_sub_digits (bignum.c:439-468) *)
Definition s_sub_digits_ord (σ : store) (dst : option nat) (a b : nat) : store * nat :=
  let da := snd (get σ a) in let db := snd (get σ b) in
  let alen := hi da in
  let r := fst (sub_loop (firstn alen da) (firstn (hi db) db) 0) in
  let '(σ1, c) := s_pick σ dst a in
  let '(sc, dc) := get σ1 c in
  (write σ1 c (OBig sc (r ++ skipn alen dc)), c).

Definition s_sub_digits (σ : store) (dst : option nat) (a b : nat) : store * nat :=
  let da := snd (get σ a) in let db := snd (get σ b) in
  if (hi da <? hi db)%nat || ((hi da =? hi db)%nat && (compare_abs da db <? 0))
  then s_sub_digits_ord σ dst b a else s_sub_digits_ord σ dst a b.

(** sexp_bignum_sign(res) = s *)
Definition set_sign (σ : store) (r : nat) (s : Z) : store := write σ r (OBig s (snd (get σ r))).

(** sexp_bignum_add (bignum.c:501-513): the sign is read AFTER the digits were written (it matters
    only when [dst] is an operand) *)
Definition s_bignum_add (σ : store) (dst : option nat) (a b : nat) : store * nat :=
  if fst (get σ a) =? fst (get σ b) then
    let '(σ1, res) := s_add_digits σ dst a b in
    (set_sign σ1 res (fst (get σ1 a)), res)
  else
    let '(σ1, res) := s_sub_digits σ dst a b in
    (set_sign σ1 res (if compare_abs (snd (get σ1 a)) (snd (get σ1 b)) >=? 0
                      then fst (get σ1 a) else fst (get σ1 b)), res).

(** sexp_bignum_sub (bignum.c:515-528): the sign is computed BEFORE *)
Definition s_bignum_sub (σ : store) (dst : option nat) (a b : nat) : store * nat :=
  let '(sa, da) := get σ a in let '(sb, db) := get σ b in
  if sa =? sb then
    let sign := if compare_abs da db >=? 0 then sa else - sa in
    let '(σ1, res) := s_sub_digits σ dst a b in (set_sign σ1 res sign, res)
  else
    let '(σ1, res) := s_add_digits σ dst a b in (set_sign σ1 res sa, res).

(** sexp_bignum_normalize (bignum.c:195-204): reads only; the result is a fixnum or [a] itself *)
Definition s_normalize (σ : store) (a : nat) : value :=
  match normalize (big_num (get σ a)) with Fix z => VFix z | Big _ _ => VRef a end.

(** sexp_negate_exact (sexp.h:1070-1074) on a bignum: the sign field is flipped IN PLACE *)
Definition s_negate_big (σ : store) (a : nat) : store := set_sign σ a (- fst (get σ a)).

(** ** generic operations on fixnum | bignum *)
Inductive ty := TFix (z : Z) | TBig (r : nat) | TOther.
(** sexp_number_type; TOther = ratio / dangling: outside the modelled range, answered by SErr
    without touching the store (as the C's type exception) *)
Definition classify (σ : store) (v : value) : ty :=
  match v with
  | VFix z => TFix z
  | VRef r => match lookup σ r with Some (OBig _ _) => TBig r | _ => TOther end
  end.

Inductive sres := SV (v : value) | SErr | SFuel.

(** sexp_add (bignum.c:1343-1382); operands are ordered by type first, so FIX_BIG covers both
    orders; FIX_FIX overflow re-enters as sexp_add(tmp = fixnum_to_bignum(a), b), i.e. FIX_BIG *)
Definition s_add (σ : store) (a b : value) : store * sres :=
  match classify σ a, classify σ b with
  | TFix x, TFix y =>
      let sum := x + y in
      if (sum <? FIXMIN) || (sum >? FIXMAX) then
        let '(σ1, t) := s_fix2big σ x in
        let '(σ2, c) := s_add_fixnum σ1 t y in (σ2, SV (s_normalize σ2 c))
      else (σ, SV (VFix sum))
  | TFix x, TBig r | TBig r, TFix x =>
      let '(σ1, c) := s_add_fixnum σ r x in (σ1, SV (s_normalize σ1 c))
  | TBig ra, TBig rb =>
      let '(σ1, c) := s_bignum_add σ None rb ra in (σ1, SV (s_normalize σ1 c))
  | _, _ => (σ, SErr)
  end.

(** sexp_sub (bignum.c:1413-1478, with the F-C04-9 repair of FIX_FIX) *)
Definition s_sub (σ : store) (a b : value) : store * sres :=
  match classify σ a, classify σ b with
  | TFix x, TFix y =>
      let diff := x - y in
      if (diff <? FIXMIN) || (diff >? FIXMAX) then
        let '(σ1, t1) := s_fix2big σ x in            (* sexp_sub(tmp1 = fixnum_to_bignum(a), b): BIG_FIX *)
        let '(σ2, t2) := s_fix2big σ1 y in
        let '(σ3, c) := s_bignum_sub σ2 None t1 t2 in (σ3, SV (s_normalize σ3 c))
      else (σ, SV (VFix diff))
  | TFix x, TBig rb =>
      let '(σ1, t1) := s_fix2big σ x in
      let '(σ2, c) := s_bignum_sub σ1 None rb t1 in
      let σ3 := s_negate_big σ2 c in                 (* sexp_negate_exact(r) on the result *)
      (σ3, SV (s_normalize σ3 c))
  | TBig ra, TFix y =>
      let '(σ1, t1) := s_fix2big σ y in
      let '(σ2, c) := s_bignum_sub σ1 None ra t1 in (σ2, SV (s_normalize σ2 c))
  | TBig ra, TBig rb =>
      let '(σ1, c) := s_bignum_sub σ None ra rb in (σ1, SV (s_normalize σ1 c))
  | _, _ => (σ, SErr)
  end.

(** sexp_bignum_fxmul(ctx, NULL, a, b, 0) (bignum.c:244-266): d = sexp_make_bignum (sign 1), and a
    second new object (sexp_copy_bignum(d, len+1)) when a carry is left *)
Definition s_fxmul_new (σ : store) (a : nat) (b : Z) : store * nat :=
  let '(r, c) := fxmul_loop (snd (get σ a)) b 0 in
  let '(σ1, d) := alloc σ (OBig 1 r) in
  if c =? 0 then (σ1, d) else alloc σ1 (OBig 1 (r ++ [c])).

(** sexp_bignum_mul(ctx, NULL, a, b) (bignum.c:530-567).  Every object Karatsuba writes is one it
    allocated in the same call: a0 a1 b0 b1 (sexp_bignum_split: sexp_make_bignum), the sums and
    differences (dst = NULL), the shifts (sexp_make_bignum), the base case fxmul with dst = NULL;
    the two dst-reusing calls sexp_bignum_add(ctx, z1, z1, z0/z2) reuse z1 = the fresh result of
    sexp_bignum_shift.  The temporaries are not listed one by one: the model allocates the result
    with the words of Model2.bignum_mul. *)
Definition s_bignum_mul (mf : nat) (σ : store) (a b : nat) : store * option nat :=
  match bignum_mul mf (get σ a) (get σ b) with
  | Some r => let '(σ1, c) := alloc σ (obig r) in (σ1, Some c)
  | None => (σ, None)
  end.

(** sexp_mul (bignum.c:1531-1575); FIX_FIX overflow re-enters as sexp_mul(tmp = fixnum_to_bignum(a), b) *)
Definition s_fixbig_mul (σ : store) (x : Z) (rb : nat) : store * sres :=
  let '(σ1, r) := s_fxmul_new σ rb (Z.abs x) in
  let σ2 := set_sign σ1 r (fx_sign x * fst (get σ1 rb)) in
  (σ2, SV (s_normalize σ2 r)).

Definition s_mul (mf : nat) (σ : store) (a b : value) : store * sres :=
  match classify σ a, classify σ b with
  | TFix x, TFix y =>
      if fits_fix (x * y) then (σ, SV (VFix (x * y)))
      else let '(σ1, t) := s_fix2big σ x in s_fixbig_mul σ1 y t
  | TFix x, TBig r | TBig r, TFix x => s_fixbig_mul σ x r
  | TBig ra, TBig rb =>
      match s_bignum_mul mf σ ra rb with
      | (σ1, Some c) => (σ1, SV (s_normalize σ1 c))
      | (σ1, None) => (σ1, SFuel)
      end
  | _, _ => (σ, SErr)
  end.

(** a computed number put on the heap: a fixnum is immediate, a bignum a new object *)
Definition s_of_num (σ : store) (n : num) : store * value :=
  match n with
  | Fix z => (σ, VFix z)
  | Big s d => let '(σ1, r) := alloc σ (OBig s d) in (σ1, VRef r)
  end.

(** sexp_bignum_quot_rem / _quotient / _remainder (bignum.c:569-700).  Every object written is one
    allocated in the call: a1, b1 (sexp_copy_bignum(.., NULL, ..)), x (sexp_make_bignum),
    y (sexp_bignum_mul dst NULL), the new a1 (sexp_bignum_add / _sub dst NULL), q (sexp_add /
    sexp_sub results: fresh, see operands_unchanged), and the final sexp_negate_exact(q) /
    of the remainder hit these.  The model allocates quotient and remainder with the values of
    Model2.quot_rem. *)
Definition s_quot_rem (fuel mf : nat) (σ : store) (a b : nat) (pick : qres -> nres) : store * sres :=
  match pick (quot_rem fuel mf (get σ a) (get σ b)) with
  | NV v => let '(σ1, r) := s_of_num σ v in (σ1, SV r)
  | NDivZero => (σ, SErr)
  | NFuel => (σ, SFuel)
  end.

Definition v_is_one (b : value) : bool := match b with VFix 1 => true | _ => false end.

(** sexp_quotient (bignum.c:1730-1812).  [if (b == SEXP_ONE) return a;] comes before the type
    dispatch and returns THE OPERAND ITSELF. *)
Definition s_quotient (fuel mf : nat) (σ : store) (a b : value) : store * sres :=
  if v_is_one b then (σ, SV a)
  else match classify σ a, classify σ b with
  | TFix x, TFix y =>
      if y =? 0 then (σ, SErr)
      else let r := wrap_fix (Z.quot x y) in
           if (x <? 0) && (y <? 0) && (r <? 0) then
             let '(σ1, t1) := s_fix2big σ x in       (* sexp_quotient(tmp = fixnum_to_bignum(a), b): BIG_FIX *)
             let '(σ2, t2) := s_fix2big σ1 y in
             s_quot_rem fuel mf σ2 t1 t2 qr_quot
           else (σ, SV (VFix r))
  | TFix x, TBig rb => let '(σ1, t) := s_fix2big σ x in s_quot_rem fuel mf σ1 t rb qr_quot
  | TBig ra, TFix y => let '(σ1, t) := s_fix2big σ y in s_quot_rem fuel mf σ1 ra t qr_quot
  | TBig ra, TBig rb => s_quot_rem fuel mf σ ra rb qr_quot
  | _, _ => (σ, SErr)
  end.

(** sexp_remainder (bignum.c:1814-1897); BIG_FIX is sexp_bignum_fxrem, which only reads *)
Definition s_remainder (fuel mf : nat) (σ : store) (a b : value) : store * sres :=
  if v_is_one b then (σ, SV (VFix 0))
  else match classify σ a, classify σ b with
  | TFix x, TFix y => if y =? 0 then (σ, SErr) else (σ, SV (VFix (Z.rem x y)))
  | TFix x, TBig rb => let '(σ1, t) := s_fix2big σ x in s_quot_rem fuel mf σ1 t rb qr_rem
  | TBig ra, TFix y =>
      match fxrem (get σ ra) y with Some z => (σ, SV (VFix z)) | None => (σ, SErr) end
  | TBig ra, TBig rb => s_quot_rem fuel mf σ ra rb qr_rem
  | _, _ => (σ, SErr)
  end.

(** ** sexp_div on fixnum | bignum = sexp_make_ratio + sexp_ratio_normalize (bignum.c:1600-1640,
    sexp.c:2925-2966, the version with the 489a686 repair) *)
Definition rat_fields (σ : store) (r : nat) : value * value :=
  match lookup σ r with Some (ORatio n d) => (n, d) | _ => (VFix 0, VFix 0) end.
Definition set_num (σ : store) (r : nat) (n : value) : store := write σ r (ORatio n (snd (rat_fields σ r))).
Definition set_den (σ : store) (r : nat) (d : value) : store := write σ r (ORatio (fst (rat_fields σ r)) d).
Definition v_is_zero (v : value) : bool := match v with VFix 0 => true | _ => false end.

(** while (den != SEXP_ZERO) { tmp = sexp_remainder(ctx, num, den); num = den, den = tmp; } *)
Fixpoint s_gcd_loop (fuel qf mf : nat) (σ : store) (x y : value) {struct fuel} : store * sres :=
  if v_is_zero y then (σ, SV x)
  else match fuel with
       | O => (σ, SFuel)
       | S f => match s_remainder qf mf σ x y with
                | (σ1, SV tmp) => s_gcd_loop f qf mf σ1 y tmp
                | (σ1, e) => (σ1, e)
                end
       end.

(** sexp_exact_negativep *)
Definition v_is_neg (σ : store) (v : value) : bool :=
  match v with VFix z => z <? 0 | VRef r => fst (get σ r) <? 0 end.
(** sexp_bignum_normalize on a field value (fixnums and non-bignums are returned as they are) *)
Definition v_normalize (σ : store) (v : value) : value :=
  match classify σ v with TBig r => s_normalize σ r | _ => v end.

(** the part of sexp_ratio_normalize after Euclid's loop, [g] = the gcd.  [negate_in_place] = true
    is the code BEFORE 489a686 (sexp_negate_exact on both fields' objects), false the repaired code
    (sexp_mul by SEXP_NEG_ONE: new objects).  The fields of [rat] are assigned one by one as in C. *)
Definition s_ratio_finish (negate_in_place : bool) (qf mf : nat) (σ : store) (rat : nat) (g : value)
  : store * sres :=
  match s_quotient qf mf σ (snd (rat_fields σ rat)) g with
  | (σ1, SV d1) =>
      let σ2 := set_den σ1 rat d1 in
      match s_quotient qf mf σ2 (fst (rat_fields σ2 rat)) g with
      | (σ3, SV n1) =>
          let σ4 := set_num σ3 rat n1 in
          let step5 :=
            if v_is_neg σ4 d1 then
              if negate_in_place then
                let neg σ v := match v with VRef r => s_negate_big σ r | VFix _ => σ end in
                let nv v := match v with VFix z => VFix (wrap_fix (- z)) | _ => v end in
                let σa := set_num (neg σ4 n1) rat (nv n1) in
                (set_den (neg σa d1) rat (nv d1), SV (VFix 0))
              else
                match s_mul mf σ4 n1 (VFix (-1)) with
                | (σa, SV n2) =>
                    let σb := set_num σa rat n2 in
                    match s_mul mf σb d1 (VFix (-1)) with
                    | (σc, SV d2) => (set_den σc rat d2, SV (VFix 0))
                    | (σc, e) => (σc, e)
                    end
                | (σa, e) => (σa, e)
                end
            else (σ4, SV (VFix 0)) in
          match step5 with
          | (σ5, SV _) =>
              let σ6 := set_num σ5 rat (v_normalize σ5 (fst (rat_fields σ5 rat))) in
              let σ7 := set_den σ6 rat (v_normalize σ6 (snd (rat_fields σ6 rat))) in
              (σ7, SV (if v_is_one (snd (rat_fields σ7 rat)) then fst (rat_fields σ7 rat) else VRef rat))
          | (σ5, e) => (σ5, e)
          end
      | (σ3, e) => (σ3, e)
      end
  | (σ1, e) => (σ1, e)
  end.

Definition s_ratio_normalize (nip : bool) (fuel qf mf : nat) (σ : store) (rat : nat) : store * sres :=
  let '(n, d) := rat_fields σ rat in
  if v_is_zero d then (σ, SErr)
  else if v_is_zero n then (σ, SV (VFix 0))
  else match s_gcd_loop fuel qf mf σ n d with
       | (σ1, SV g) => s_ratio_finish nip qf mf σ1 rat g
       | (σ1, e) => (σ1, e)
       end.

(** sexp_make_ratio (sexp.c:2925-2930) *)
Definition s_make_ratio (σ : store) (n d : value) : store * nat := alloc σ (ORatio n d).

(** sexp_div, cases FIX_FIX / FIX_BIG / BIG_FIX / BIG_BIG *)
Definition s_div_gen (nip : bool) (fuel qf mf : nat) (σ : store) (a b : value) : store * sres :=
  match classify σ a, classify σ b with
  | TOther, _ | _, TOther => (σ, SErr)
  | _, _ => let '(σ1, rat) := s_make_ratio σ a b in s_ratio_normalize nip fuel qf mf σ1 rat
  end.
Definition s_div := s_div_gen false.
(** the code before 489a686 (F-C04-1): for the negative example *)
Definition s_div_pre_repair := s_div_gen true.

(** A variant of sexp_sub that negates the SUBTRAHEND in place and adds (what the pre-repair
    complex subtraction did with its parts, F-C04-10): for the negative example. *)
Definition bad_sub (σ : store) (a b : value) : store * sres :=
  match b with
  | VRef rb => let σ1 := s_negate_big σ rb in s_add σ1 a b
  | VFix y => s_add σ a (VFix (- y))
  end.
