(** C04 model: the digit layer of bignum.c, mirrored function by function.
    A bignum is (sign, little-endian list of 64-bit words); the list may carry spare high
    zero words exactly as the C object does (sexp_bignum_length vs sexp_bignum_hi). *)
From ChibiV Require Export Common.Words.
Local Open Scope Z_scope.

Definition big : Type := (Z * list Z)%type.          (* sign in {1,-1}, data *)
Definition bval (x : big) : Z := fst x * val (snd x).

(** sexp_bignum_compare_abs (bignum.c:171-183): by hi, then from the top word down.
    [cmp_le] finds the same first difference from the top on little-endian lists. *)
Fixpoint cmp_le (a b : list Z) : Z :=
  match a, b with
  | x :: a', y :: b' =>
      let c := cmp_le a' b' in
      if c =? 0 then (if x >? y then 1 else if x <? y then -1 else 0) else c
  | _, _ => 0
  end.

Definition compare_abs (a b : list Z) : Z :=
  let ai := hi a in let bi := hi b in
  if negb (ai =? bi)%nat then Z.of_nat ai - Z.of_nat bi
  else cmp_le (firstn ai a) (firstn ai b).

(** sexp_bignum_add_digits (bignum.c:450-478), loops 1 and 2 *)
Fixpoint add_loop (a b : list Z) (carry : Z) {struct a} : list Z * Z :=
  match a with
  | [] => ([], carry)
  | x :: a' =>
      match b with
      | y :: b' =>
          let p := (x + y) mod B in
          let c := (p + carry) mod B in
          let carry' := (if x >? WMAX - y then 1 else 0) + (if p >? WMAX - carry then 1 else 0) in
          let '(r, cf) := add_loop a' b' carry' in (c :: r, cf)
      | [] =>
          if carry =? 0 then (a, 0)
          else let '(r, cf) := add_loop a' [] (if x =? WMAX then 1 else 0) in
               ((x + 1) mod B :: r, cf)
      end
  end.

Definition add_digits_ord (a b : list Z) : list Z :=
  let alen := hi a in let blen := hi b in
  let '(r, cf) := add_loop (firstn alen a) (firstn blen b) 0 in
  if cf =? 0 then r ++ skipn alen a          (* c = copy of a keeps a's spare words *)
  else r ++ [1].                             (* sexp_copy_bignum(c, alen+1); data[alen] = 1 *)

Definition add_digits (a b : list Z) : list Z :=
  if (hi a <? hi b)%nat then add_digits_ord b a else add_digits_ord a b.

(** sexp_bignum_sub_digits (bignum.c:419-448) *)
Fixpoint sub_loop (a b : list Z) (borrow : Z) {struct a} : list Z * Z :=
  match a with
  | [] => ([], borrow)
  | x :: a' =>
      match b with
      | y :: b' =>
          if (x >? y) || ((x =? y) && (borrow =? 0)) then
            let '(r, bf) := sub_loop a' b' 0 in ((x - y - borrow) mod B :: r, bf)
          else
            let '(r, bf) := sub_loop a' b' 1 in
            ((((WMAX - y + 1) mod B - borrow) mod B + x) mod B :: r, bf)
      | [] =>
          if borrow =? 0 then (a, 0)
          else let '(r, bf) := sub_loop a' [] (if x =? 0 then 1 else 0) in
               ((x - 1) mod B :: r, bf)
      end
  end.

Definition sub_digits_ord (a b : list Z) : list Z :=
  let alen := hi a in let blen := hi b in
  fst (sub_loop (firstn alen a) (firstn blen b) 0) ++ skipn alen a.

Definition sub_digits (a b : list Z) : list Z :=
  if (hi a <? hi b)%nat || ((hi a =? hi b)%nat && (compare_abs a b <? 0))
  then sub_digits_ord b a else sub_digits_ord a b.

(** sexp_bignum_add / sexp_bignum_sub (bignum.c:480-507) *)
Definition bignum_add (x y : big) : big :=
  let '(sa, a) := x in let '(sb, b) := y in
  if sa =? sb then (sa, add_digits a b)
  else ((if compare_abs a b >=? 0 then sa else sb), sub_digits a b).

Definition bignum_sub (x y : big) : big :=
  let '(sa, a) := x in let '(sb, b) := y in
  if sa =? sb then ((if compare_abs a b >=? 0 then sa else - sa), sub_digits a b)
  else (sa, add_digits a b).
