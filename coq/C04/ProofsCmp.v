(** C04 proofs, round 3: comparisons with a flonum operand (SpecCmp.v, Model10.v). *)
From ChibiV Require Import C04.Model10 C04.Proofs C04.ProofsFx C04.ProofsSqrt C04.ProofsRatio C04.ProofsConv
  C04.Spec C04.SpecFloat C04.SpecCmp.
From Coq Require Import Lia QArith.
Local Open Scope Z_scope.

(** ** SPEC: [ext_cmp] is the order of the rationals (extended by -inf / +inf) *)
Definition ext_ok (a : ext) : Prop := match a with EFin _ d => 0 < d | _ => True end.

Lemma sgn_pos_mul a d : 0 < d -> Z.sgn (a * d) = Z.sgn a.
Proof. intros H. rewrite Z.sgn_mul, (Z.sgn_pos d H). ring. Qed.

(** on finite operands it is Coq's [Qcompare] *)
Theorem ext_cmp_Q_spec n d n' d' : 0 < d -> 0 < d' ->
  ext_cmp (EFin n d) (EFin n' d') =
  Some (match (n # Z.to_pos d ?= n' # Z.to_pos d')%Q with Lt => -1 | Eq => 0 | Gt => 1 end).
Proof.
  intros Hd Hd'. cbn [ext_cmp]. f_equal. unfold Qcompare. cbn [Qnum Qden].
  rewrite !Z2Pos.id by assumption.
  destruct (Z.compare_spec (n * d') (n' * d)) as [H|H|H].
  - rewrite H, Z.sub_diag. reflexivity.
  - apply Z.sgn_neg. lia.
  - apply Z.sgn_pos. lia.
Qed.

(** trichotomy: the answer is -1, 0 or 1, and swapping the operands negates it *)
Theorem ext_cmp_antisym_spec a b s : ext_cmp a b = Some s ->
  ext_cmp b a = Some (- s) /\ (s = -1 \/ s = 0 \/ s = 1).
Proof.
  destruct a as [n d|sa|], b as [n' d'|sb|]; cbn [ext_cmp]; intros H; try discriminate;
    injection H as <-.
  - split; [f_equal; rewrite <- Z.sgn_opp; f_equal; ring|].
    destruct (Z.sgn_spec (n * d' - n' * d)) as [[_ ->]|[[_ ->]|[_ ->]]]; auto.
  - destruct sb; split; auto.
  - destruct sa; split; auto.
  - destruct sa, sb; cbn; split; auto.
Qed.

Lemma sgn_le0 z : Z.sgn z <= 0 <-> z <= 0.
Proof. destruct z; cbn; lia. Qed.
Lemma sgn_lt0 z : Z.sgn z < 0 <-> z < 0.
Proof. destruct z; cbn; lia. Qed.

(** transitivity, also THROUGH A FLONUM (any of a, b, c may be the value of a double): a <= b, b <= c
    gives a <= c, strictly when one of the two steps is strict *)
Theorem ext_cmp_trans_spec a b c s1 s2 : ext_ok a -> ext_ok b -> ext_ok c ->
  ext_cmp a b = Some s1 -> ext_cmp b c = Some s2 -> s1 <= 0 -> s2 <= 0 ->
  exists s3, ext_cmp a c = Some s3 /\ s3 <= 0 /\ (s1 < 0 \/ s2 < 0 -> s3 < 0).
Proof.
  destruct a as [n1 d1|sa|], b as [n2 d2|sb|], c as [n3 d3|sc|]; cbn [ext_cmp ext_ok];
    intros Ha Hb Hc H1 H2 L1 L2; try discriminate; injection H1 as <-; injection H2 as <-.
  - eexists; split; [reflexivity|]. rewrite sgn_le0 in *. rewrite !sgn_lt0.
    assert (E : (n1 * d2 - n2 * d1) * d3 + (n2 * d3 - n3 * d2) * d1 = (n1 * d3 - n3 * d1) * d2) by ring.
    assert (A1 : (n1 * d2 - n2 * d1) * d3 <= 0) by (apply Z.mul_nonpos_nonneg; lia).
    assert (A2 : (n2 * d3 - n3 * d2) * d1 <= 0) by (apply Z.mul_nonpos_nonneg; lia).
    split.
    + destruct (Z.le_gt_cases (n1 * d3 - n3 * d1) 0) as [|G]; [assumption|].
      assert (0 < (n1 * d3 - n3 * d1) * d2) by (apply Z.mul_pos_pos; lia). lia.
    + intros [S|S].
      * assert ((n1 * d2 - n2 * d1) * d3 < 0) by (apply Z.mul_neg_pos; lia).
        destruct (Z.lt_ge_cases (n1 * d3 - n3 * d1) 0) as [|G]; [assumption|].
        assert (0 <= (n1 * d3 - n3 * d1) * d2) by (apply Z.mul_nonneg_nonneg; lia). lia.
      * assert ((n2 * d3 - n3 * d2) * d1 < 0) by (apply Z.mul_neg_pos; lia).
        destruct (Z.lt_ge_cases (n1 * d3 - n3 * d1) 0) as [|G]; [assumption|].
        assert (0 <= (n1 * d3 - n3 * d1) * d2) by (apply Z.mul_nonneg_nonneg; lia). lia.
  - destruct sc; [cbn in L2; lia|]. eexists; split; [reflexivity|]. cbn. lia.
  - destruct sb; [cbn in L1; lia|]. cbn in L2; lia.
  - destruct sb; [cbn in L1; lia|]. destruct sc; cbn in L2; [lia|]. eexists; split; [reflexivity|]. cbn. lia.
  - destruct sa; [|cbn in L1; lia]. eexists; split; [reflexivity|]. cbn. lia.
  - destruct sa; [|cbn in L1; lia]. destruct sc; cbn in *; eexists; (split; [reflexivity|]); lia.
  - destruct sa, sb; cbn in *; try lia; eexists; (split; [reflexivity|]); lia.
  - destruct sa, sb, sc; cbn in *; try lia; eexists; (split; [reflexivity|]); lia.
Qed.

(** ** MODEL: values and well-formedness *)
Definition fval (f : flo) : ext :=
  match f with
  | FFin m e => EFin (fst (dy_val m e)) (snd (dy_val m e))
  | FInf s => EInf s
  | FNan => ENan
  end.
Definition cval (x : cnum) : ext :=
  match x with
  | CFix z => EFin z 1
  | CFlo f => fval f
  | CBig s d => EFin (nval (Big s d)) 1
  | CRat n d => EFin (nval n) (nval d)
  end.
(** a finite double: 53-bit significand, exponent range of binary64 *)
Definition fwf (f : flo) : Prop :=
  match f with FFin m e => Z.abs m < 2 ^ 53 /\ -1074 <= e <= 971 | _ => True end.
(** fixnum in range; bignum well formed and canonical (|x| >= 2^62); ratio with canonical parts, d > 0 *)
Definition cwf (x : cnum) : Prop :=
  match x with
  | CFix z => fits_fix z = true
  | CFlo f => fwf f
  | CBig s d => wf_big (s, d) /\ canon (Big s d)
  | CRat n d => wf_num n /\ wf_num d /\ canon n /\ canon d /\ 0 < nval d
  end.
Definition ewf (x : enum) : Prop :=
  match x with
  | EInt v => wf_num v /\ canon v
  | ERat n d => wf_num n /\ wf_num d /\ canon n /\ canon d /\ 0 < nval d
  end.
Definition efrac (x : enum) : Z * Z :=
  match x with EInt v => (nval v, 1) | ERat n d => (nval n, nval d) end.

Lemma dy_val_den_pos m e : 0 < snd (dy_val m e).
Proof.
  unfold dy_val. destruct (0 <=? e) eqn:E; cbn [snd]; [lia|].
  apply Z.pow_pos_nonneg; lia.
Qed.

(** ** the exact entries, operands in type order *)
Lemma ex_compare_le_spec mf a b c : ewf a -> ewf b ->
  (match a, b with ERat _ _, EInt _ => False | _, _ => True end) ->
  ex_compare mf a b = CV c ->
  Z.sgn c = Z.sgn (fst (efrac a) * snd (efrac b) - fst (efrac b) * snd (efrac a)).
Proof.
  intros Wa Wb Hord H. destruct a as [x|n d], b as [y|n' d']; cbn [ex_compare efrac fst snd ewf] in *.
  - injection H as <-. destruct Wa as [Wx Cx], Wb as [Wy Cy].
    rewrite (num_compare_spec x y Wx Wy (cmp_ok_canon _ _ Cx Cy)). f_equal. ring.
  - destruct Wa as [Wx Cx], Wb as (Wn & Wd & _).
    destruct (ratio_compare mf x (Fix 1) n' d') as [c0|] eqn:E; cbn [oc] in H; [|discriminate].
    injection H as <-.
    rewrite (ratio_compare_spec mf x (Fix 1) n' d' c0 Wx eq_refl Wn Wd E). cbn [nval]. reflexivity.
  - contradiction.
  - destruct Wa as (Wn & Wd & _), Wb as (Wn' & Wd' & _).
    destruct (ratio_compare mf n d n' d') as [c0|] eqn:E; cbn [oc] in H; [|discriminate].
    injection H as <-. exact (ratio_compare_spec mf n d n' d' c0 Wn Wd Wn' Wd' E).
Qed.

(** replacing a fraction by an equal one does not change the sign of a cross product *)
Lemma sgn_frac_congr_r p q n d n' d' : 0 < d -> 0 < d' -> n' * d = n * d' ->
  Z.sgn (p * d' - n' * q) = Z.sgn (p * d - n * q).
Proof.
  intros Hd Hd' E. rewrite <- (sgn_pos_mul (p * d' - n' * q) d Hd), <- (sgn_pos_mul (p * d - n * q) d' Hd').
  f_equal. replace ((p * d' - n' * q) * d) with (p * d' * d - n' * d * q) by ring. rewrite E. ring.
Qed.
Lemma sgn_frac_congr_l p q n d n' d' : 0 < d -> 0 < d' -> n' * d = n * d' ->
  Z.sgn (n' * q - p * d') = Z.sgn (n * q - p * d).
Proof.
  intros Hd Hd' E. replace (n' * q - p * d') with (- (p * d' - n' * q)) by ring.
  replace (n * q - p * d) with (- (p * d - n * q)) by ring.
  rewrite !Z.sgn_opp. f_equal. apply sgn_frac_congr_r; assumption.
Qed.

(** what sexp_inexact_to_exact hands to the recursive sexp_compare *)
Lemma with_exact_inv fuel rf qf mf m e k c : Z.abs m < 2 ^ 53 -> -1074 <= e <= 971 -> (1100 <= fuel)%nat ->
  with_exact (inexact_to_exact fuel rf qf mf (Some (m, e))) k = CV c ->
  exists t, k t = CV c /\ ewf t /\ 0 < snd (efrac t) /\
            fst (efrac t) * snd (dy_val m e) = fst (dy_val m e) * snd (efrac t).
Proof.
  intros Hm He Hf H.
  destruct (exact_of_double_exact fuel rf qf mf m e Hm He Hf) as (r & Er & Rok & _).
  rewrite Er in H. destruct r as [v|n d| |]; cbn [with_exact] in H; try discriminate; cbn [rat_ok] in Rok.
  - destruct Rok as (Cv & Wv & Sf). exists (EInt v). cbn [ewf efrac fst snd].
    split; [exact H|]. split; [split; assumption|]. split; [lia|]. unfold same_fraction in Sf. lia.
  - destruct Rok as (Cn & Cd & Wn & Wd & Sf & Hd1 & _). exists (ERat n d). cbn [ewf efrac fst snd].
    split; [exact H|]. split; [repeat split; try assumption; lia|]. split; [lia|]. exact Sf.
Qed.

(** sexp_bignum_compare, the second operand non-zero (signs of zero bignums are not canonical) *)
Lemma bignum_compare_spec x y : wf_big x -> wf_big y -> bval y <> 0 ->
  Z.sgn (bignum_compare x y) = Z.sgn (bval x - bval y).
Proof.
  destruct x as [sa da], y as [sb db]. intros Ha Hb Hnz.
  pose proof Ha as (Hsa & Hda & Hna). pose proof Hb as (Hsb & Hdb & Hnb). unfold bval in *. cbn [fst snd] in *.
  unfold bignum_compare.
  destruct (compare_abs_spec da db Hda Hdb Hna Hnb) as [Hgt Hlt].
  pose proof (val_nonneg da Hda). pose proof (val_nonneg db Hdb).
  destruct (Z.eqb_spec sa sb) as [->|Hne]; cbn [negb].
  - destruct Hsb as [-> | ->].
    + destruct (Z.ltb_spec 1 0); [lia|].
      destruct (Z.sgn_spec (compare_abs da db)) as [[? ->]|[[? ->]|[? ->]]];
        destruct (Z.sgn_spec (1 * val da - 1 * val db)) as [[? ->]|[[? ->]|[? ->]]]; lia.
    + destruct (Z.ltb_spec (-1) 0); [|lia]. rewrite Z.sgn_opp.
      destruct (Z.sgn_spec (compare_abs da db)) as [[? ->]|[[? ->]|[? ->]]];
        destruct (Z.sgn_spec (-1 * val da - -1 * val db)) as [[? ->]|[[? ->]|[? ->]]]; lia.
  - destruct Hsa as [-> | ->], Hsb as [-> | ->]; try congruence.
    + cbn [Z.sgn]. symmetry. apply Z.sgn_pos. lia.
    + cbn [Z.sgn]. symmetry. apply Z.sgn_neg. lia.
Qed.

(** the truncated double against a canonical bignum: truncation cannot change the answer, a double with a
    fraction part is below 2^53 in magnitude and a canonical bignum is at least 2^62 *)
Lemma trunc_vs_big m e v : Z.abs m < 2 ^ 53 -> 4611686018427387903 < Z.abs v ->
  Z.sgn (dy_trunc m e - v) = Z.sgn (fst (dy_val m e) * 1 - v * snd (dy_val m e)).
Proof.
  intros Hm Hv. unfold dy_trunc, dy_val. destruct (0 <=? e) eqn:E; cbn [fst snd].
  - f_equal. ring.
  - change (2 ^ 53) with 9007199254740992 in Hm.
    assert (HP : 1 <= 2 ^ (- e)).
    { apply Z.leb_gt in E. change 1 with (2 ^ 0). apply Z.pow_le_mono_r; lia. }
    set (P := 2 ^ (- e)) in *.
    assert (Hq : Z.abs (Z.quot m P) <= Z.abs m).
    { rewrite <- Z.quot_abs by lia. rewrite (Z.abs_eq P) by lia.
      rewrite Z.quot_div_nonneg by lia. apply Z.div_le_upper_bound; [lia|]. nia. }
    destruct (Z.abs_spec v) as [[Hv0 Hva]|[Hv0 Hva]]; rewrite Hva in Hv.
    + rewrite (Z.sgn_neg (Z.quot m P - v)) by lia. symmetry. apply Z.sgn_neg. nia.
    + rewrite (Z.sgn_pos (Z.quot m P - v)) by lia. symmetry. apply Z.sgn_pos. nia.
Qed.

(** ** the mixed comparison is the order of the rationals: every entry of the switch, operands in type
    order (at <= bt), at least one of them exact *)
Theorem cmp_le_spec fuel rf qf mf a b : cwf a -> cwf b -> ctype a <= ctype b ->
  (match a, b with CFlo _, CFlo _ => False | _, _ => True end) -> (1100 <= fuel)%nat ->
  match cmp_le fuel rf qf mf a b with
  | CV c => ext_cmp (cval a) (cval b) = Some (Z.sgn c)
  | CNan => ext_cmp (cval a) (cval b) = None
  | CFuel => True
  end.
Proof.
  intros Wa Wb Hty Hnf Hfu.
  destruct a as [x|f|s d|n d], b as [y|g|s' d'|n' d']; cbn [ctype] in Hty; try lia; try contradiction;
    cbn [cmp_le cval cwf] in *.
  - (* FIX_FIX *)
    cbn [ext_cmp]. rewrite (num_compare_spec (Fix x) (Fix y) Wa Wb I). cbn [nval]. do 2 f_equal. ring.
  - (* FIX_FLO *)
    destruct g as [m e|neg|]; cbn [fval ext_cmp]; [|destruct neg; reflexivity|reflexivity].
    destruct Wb as [Hm He].
    destruct (with_exact _ _) as [c| |] eqn:H; [|exfalso|exact I].
    { destruct (with_exact_inv _ _ _ _ _ _ _ _ Hm He Hfu H) as (t & Hk & Wt & Hdt & Hfr).
      apply ex_compare_le_spec in Hk; [|split; [exact Wa|apply canon_fix; exact Wa]|exact Wt|destruct t; exact I].
      rewrite Hk. cbn [efrac fst snd nval]. f_equal.
      symmetry. apply sgn_frac_congr_r; [apply dy_val_den_pos|exact Hdt|exact Hfr]. }
    { unfold with_exact in H. destruct (inexact_to_exact _ _ _ _ _) as [[v|n0 d0| |]| |]; try discriminate.
      all: cbv beta in H; cbn [ex_compare] in H; try discriminate; destruct (ratio_compare _ _ _ _ _); discriminate. }
  - (* FIX_BIG *)
    destruct Wb as [Wb Cb]. cbn [ext_cmp].
    rewrite (num_compare_spec (Fix x) (Big s' d') Wa Wb (or_introl Cb)). do 2 f_equal. cbn [nval]. ring.
  - (* FIX_RAT *)
    destruct (ex_compare mf (EInt (Fix x)) (ERat n' d')) as [c| |] eqn:H; [|exfalso|exact I].
    + apply ex_compare_le_spec in H; [|split; [exact Wa|apply canon_fix; exact Wa]|exact Wb|exact I].
      rewrite H. reflexivity.
    + cbn [ex_compare] in H. destruct (ratio_compare _ _ _ _ _); discriminate.
  - (* FLO_BIG *)
    destruct Wb as [Wb Cb].
    destruct f as [m e|neg|]; cbn [fval ext_cmp]; [|destruct neg; reflexivity|reflexivity].
    destruct Wa as [Hm He].
    destruct (double_to_bignum_val fuel m e Hm ltac:(lia) ltac:(lia)) as (b0 & Eb & Wb0 & Vb0 & _).
    rewrite Eb. f_equal.
    assert (Hlarge : 4611686018427387903 < Z.abs (s' * val d')).
    { pose proof Wb as (_ & Hd' & _). cbn [fst snd] in Hd'. pose proof (val_nonneg d' Hd').
      destruct (canon_big_large _ _ Wb Cb) as [[-> Hl]|[-> Hl]]; unfold FIXMAX in Hl; lia. }
    rewrite (bignum_compare_spec b0 (s', d') Wb0 Wb); [|unfold bval; cbn [fst snd]; lia].
    rewrite Vb0. unfold bval. cbn [fst snd nval]. symmetry. apply trunc_vs_big; assumption.
  - (* FLO_RAT *)
    destruct f as [m e|neg|]; cbn [fval ext_cmp]; [|destruct neg; reflexivity|reflexivity].
    destruct Wa as [Hm He].
    destruct (with_exact _ _) as [c| |] eqn:H; [|exfalso|exact I].
    { destruct (with_exact_inv _ _ _ _ _ _ _ _ Hm He Hfu H) as (t & Hk & Wt & Hdt & Hfr).
      apply ex_compare_le_spec in Hk; [|exact Wt|exact Wb|destruct t; exact I].
      rewrite Hk. cbn [efrac fst snd]. f_equal.
      symmetry. apply sgn_frac_congr_l; [apply dy_val_den_pos|exact Hdt|exact Hfr]. }
    { unfold with_exact in H. destruct (inexact_to_exact _ _ _ _ _) as [[v|n0 d0| |]| |]; try discriminate;
        cbv beta in H; cbn [ex_compare] in H; destruct (ratio_compare _ _ _ _ _); discriminate. }
  - (* BIG_BIG *)
    destruct Wa as [Wa Ca], Wb as [Wb Cb]. cbn [ext_cmp].
    change (bignum_compare (s, d) (s', d')) with (num_compare (Big s d) (Big s' d')).
    rewrite (num_compare_spec (Big s d) (Big s' d') Wa Wb (or_introl (conj Ca Cb))). do 2 f_equal. ring.
  - (* BIG_RAT *)
    destruct (ex_compare mf (EInt (Big s d)) (ERat n' d')) as [c| |] eqn:H; [|exfalso|exact I].
    + apply ex_compare_le_spec in H; [|exact Wa|exact Wb|exact I]. rewrite H. reflexivity.
    + cbn [ex_compare] in H. destruct (ratio_compare _ _ _ _ _); discriminate.
  - (* RAT_RAT *)
    destruct (ex_compare mf (ERat n d) (ERat n' d')) as [c| |] eqn:H; [|exfalso|exact I].
    + apply ex_compare_le_spec in H; [|exact Wa|exact Wb|exact I]. rewrite H. reflexivity.
    + cbn [ex_compare] in H. destruct (ratio_compare _ _ _ _ _); discriminate.
Qed.

(** sexp_fx_neg of a comparison result that is not the most negative fixnum flips its sign *)
Lemma cneg_sgn c : fits_fix (- c) = true -> Z.sgn (wrap_fix (- c)) = - Z.sgn c.
Proof. intros H. rewrite (wrap_fix_id _ H). apply Z.sgn_opp. Qed.

(** operands out of type order (at > bt): sexp_compare swaps and negates with sexp_fx_neg.
    PARTIAL: the premise [fits_fix (- c0)] (the inner result is not MIN_FIXNUM) stays visible; it holds whenever
    sexp_bignum_compare_abs returns a small number (it returns a difference of word COUNTS or -1/0/1), which
    needs a bound on the length of the word lists that the model does not carry.  Full statement wanted:
    forall well-formed a b (not both flonums), x_compare a b = CV c -> ext_cmp (cval a) (cval b) = Some (Z.sgn c). *)
Theorem x_compare_swapped_partial fuel rf qf mf a b c : cwf a -> cwf b -> ctype b < ctype a ->
  (match a, b with CFlo _, CFlo _ => False | _, _ => True end) -> (1100 <= fuel)%nat ->
  x_compare fuel rf qf mf a b = CV c ->
  exists c0, cmp_le fuel rf qf mf b a = CV c0 /\ c = wrap_fix (- c0) /\
             (fits_fix (- c0) = true -> ext_cmp (cval a) (cval b) = Some (Z.sgn c)).
Proof.
  intros Wa Wb Hty Hnf Hfu H. unfold x_compare in H.
  destruct (Z.ltb_spec (ctype b) (ctype a)) as [_|]; [|lia].
  pose proof (cmp_le_spec fuel rf qf mf b a Wb Wa ltac:(lia)) as S.
  destruct (cmp_le fuel rf qf mf b a) as [c0| |]; cbn [cneg] in H; try discriminate.
  injection H as <-. exists c0. split; [reflexivity|]. split; [reflexivity|]. intros Hf.
  assert (Hnf' : match b, a with CFlo _, CFlo _ => False | _, _ => True end) by (destruct a, b; auto).
  specialize (S Hnf' Hfu). destruct (ext_cmp_antisym_spec _ _ _ S) as [-> _].
  rewrite (cneg_sgn _ Hf). reflexivity.
Qed.

(** in type order x_compare IS cmp_le: the full statement *)
Theorem x_compare_ordered_spec fuel rf qf mf a b c : cwf a -> cwf b -> ctype a <= ctype b ->
  (match a, b with CFlo _, CFlo _ => False | _, _ => True end) -> (1100 <= fuel)%nat ->
  x_compare fuel rf qf mf a b = CV c -> ext_cmp (cval a) (cval b) = Some (Z.sgn c).
Proof.
  intros Wa Wb Hty Hnf Hfu H. unfold x_compare in H.
  destruct (Z.ltb_spec (ctype b) (ctype a)) as [|_]; [lia|].
  pose proof (cmp_le_spec fuel rf qf mf a b Wa Wb Hty Hnf Hfu) as S. rewrite H in S. exact S.
Qed.

(** ** Examples: the hypotheses are satisfiable on the witnesses of the seeded change *)
(** 1/3 against the double nearest to it, 6004799503160661 * 2^-54 (the FLO_RAT entry): the flonum is SMALLER *)
Example third_vs_nearest_double :
  x_compare 1100 200 50 50 (CFlo (FFin 6004799503160661 (-54))) (CRat (Fix 1) (Fix 3)) = CV (-1)
  /\ vm_cmp 0 1100 200 50 50 (CRat (Fix 1) (Fix 3)) (CFlo (FFin 6004799503160661 (-54))) = Some false
  /\ vm_cmp 2 1100 200 50 50 (CRat (Fix 1) (Fix 3)) (CFlo (FFin 6004799503160661 (-54))) = Some true.
Proof. vm_compute. auto. Qed.
(** 2^53 + 1 (fixnum) against 2^53 as a double: FIX_FLO must not go through (double)fixnum *)
Example fixnum_above_2_53_vs_double :
  x_compare 1100 200 50 50 (CFix 9007199254740993) (CFlo (FFin 4503599627370496 1)) = CV 1.
Proof. vm_compute. reflexivity. Qed.
Example spec_trans_through_flonum :
  ext_cmp (EFin 6004799503160661 18014398509481984) (EFin 1 3) = Some (-1).
Proof. reflexivity. Qed.
