(** C04 model, second part: single-word operations (fxadd/fxsub/fxmul/fxdiv/fxrem), normalisation,
    the generic integer dispatch (sexp_add/sexp_sub/sexp_mul on fixnum|bignum), the VM fixnum fast
    paths with overflow hand-over, Karatsuba multiplication and quot_rem.  Mirrors bignum.c / vm.c
    function by function; every C unsigned operation carries its wrap ([mod B], [mod B2] for the
    128-bit sexp_luint_t).  NO proofs in this file. *)
From ChibiV Require Export Common.Words C04.Model.
Local Open Scope Z_scope.

(** sexp_luint_t = unsigned 128 bit (include/chibi/bignum.h:26-61, the non-custom variant) *)
Definition B2 : Z := B * B.
Definition lu (x : Z) : Z := x mod B2.                 (* any luint_* result *)
Definition HALF : Z := 4294967296.                     (* 1 << (sizeof(sexp_uint_t)*4) *)

(** numbers as the C sees them: immediate fixnum or heap bignum (sign, words) *)
Inductive num := Fix (z : Z) | Big (s : Z) (d : list Z).
Definition nval (x : num) : Z := match x with Fix z => z | Big s d => s * val d end.
Definition is_fix (x : num) : bool := match x with Fix _ => true | Big _ _ => false end.

Definition FIXMAX : Z := 4611686018427387903.          (* SEXP_MAX_FIXNUM = 2^62-1 (sexp.h:352) *)
Definition FIXMIN : Z := -4611686018427387904.         (* SEXP_MIN_FIXNUM *)
Definition fits_fix (z : Z) : bool := (FIXMIN <=? z) && (z <=? FIXMAX).

(** sexp_bignum_normalize (bignum.c:195-204).  The cast (sexp_sint_t)data[0] is the identity on
    the branch that reaches it (data[0] <= 2^62). *)
Definition normalize (x : num) : num :=
  match x with
  | Fix _ => x
  | Big s d =>
      if (1 <? hi d)%nat then x
      else let d0 := nth 0 d 0 in
           if (d0 >? FIXMAX) && negb ((s =? -1) && (d0 =? FIXMAX + 1)) then x
           else Fix (d0 * s)
  end.

(** sexp_fixnum_to_bignum (bignum.c:29-36): data[0] = sexp_unbox_fx_abs(a), sign = sexp_fx_sign(a) *)
Definition fx_sign (z : Z) : Z := if z <? 0 then -1 else 1.
Definition fixnum_to_bignum (z : Z) : big := (fx_sign z, [Z.abs z]).

(** sexp_bignum_fxadd (bignum.c:215-227), in place on the hi words; [carry = 0] stops the loop
    (the do-while's unconditional first round with carry 0 rewrites data[0] with itself). *)
Fixpoint fxadd_loop (a : list Z) (carry : Z) {struct a} : list Z * Z :=
  match a with
  | [] => ([], carry)
  | x :: a' =>
      if carry =? 0 then (a, 0)
      else let '(r, c) := fxadd_loop a' (if x >? WMAX - carry then 1 else 0) in
           ((x + carry) mod B :: r, c)
  end.

Definition fxadd (a : list Z) (b : Z) : list Z :=
  let len := hi a in
  let '(r, c) := fxadd_loop (firstn len a) b in
  if c =? 0 then r ++ skipn len a else r ++ [1].      (* sexp_copy_bignum(a, len+1); data[len] = 1 *)

(** sexp_bignum_fxsub (bignum.c:229-242).  The C loop [for (borrow=b; borrow; i++)] has no bound
    on i; the model returns the borrow left when the words run out (the theorem shows it is 0). *)
Fixpoint fxsub_loop (a : list Z) (borrow : Z) {struct a} : list Z * Z :=
  match a with
  | [] => ([], borrow)
  | x :: a' =>
      if borrow =? 0 then (a, 0)
      else let '(r, c) := fxsub_loop a' (if x <? borrow then 1 else 0) in
           ((x - borrow) mod B :: r, c)
  end.

Definition fxsub (x : big) (b : Z) : big * Z :=
  let '(s, a) := x in
  let d0 := nth 0 a 0 in
  if (hi a =? 1)%nat && (b >? d0) then ((- s, (b - d0) mod B :: tl a), 0)
  else let '(r, c) := fxsub_loop a b in ((s, r), c).

(** sexp_bignum_add_fixnum (bignum.c:407-417): on a copy of a *)
Definition bignum_add_fixnum (x : big) (z : Z) : big :=
  let '(s, a) := x in
  if s =? fx_sign z then (s, fxadd a (Z.abs z))
  else fst (fxsub (s, a) (Z.abs z)).

(** sexp_bignum_fxmul (bignum.c:244-266) with d = NULL (or d = a, offset 0: same words) *)
Fixpoint fxmul_loop (a : list Z) (b carry : Z) {struct a} : list Z * Z :=
  match a with
  | [] => ([], carry)
  | x :: a' =>
      let n := lu (lu (x * b) + carry) in
      let '(r, c) := fxmul_loop a' b ((n / B) mod B) in
      (n mod B :: r, c)
  end.

Definition fxmul (a : list Z) (b : Z) (offset : nat) : list Z :=
  let '(r, c) := fxmul_loop a b 0 in
  repeat 0 offset ++ r ++ (if c =? 0 then [] else [c]).

(** sexp_bignum_fxdiv (bignum.c:268-280): from the top word down; the recursion returns from the
    end of the list first, i.e. it visits the words in the C order.  Returns (quotient words, r). *)
Fixpoint fxdiv_loop (a : list Z) (b : Z) {struct a} : list Z * Z :=
  match a with
  | [] => ([], 0)
  | x :: a' =>
      let '(qs, r0) := fxdiv_loop a' b in
      let n := lu (lu (r0 * B) + x) in
      let q := (n / b) mod B in
      let r := (lu (n - lu (q * b))) mod B in
      (q :: qs, r)
  end.

Definition fxdiv (a : list Z) (b : Z) (offset : nat) : list Z * Z :=
  let len := hi a in
  let '(qs, r) := fxdiv_loop (skipn offset (firstn len a)) b in
  (firstn offset a ++ qs ++ skipn len a, r).

(** sexp_bignum_fxrem (bignum.c:282-301); None = "divide by zero" exception.
    [s * ...] is computed in C as unsigned 64-bit then boxed; the magnitude is < 2^62. *)
Fixpoint fxrem_loop (a : list Z) (b0 : Z) {struct a} : Z :=
  match a with
  | [] => 0
  | x :: a' =>
      let n := lu (lu (fxrem_loop a' b0 * B) + x) in
      let q := (n / b0) mod B in
      lu (n - lu (q * b0))
  end.

Definition fxrem (x : big) (b : Z) : option Z :=
  let '(s, a) := x in
  if (b >? 0) && (Z.land b (b - 1) =? 0) then Some (s * Z.land (nth 0 a 0) (b - 1))
  else let b0 := if b >=? 0 then b else - b in
       if b0 =? 0 then None
       else Some (s * (fxrem_loop (firstn (hi a) a) b0 mod B)).


Definition big_num (x : big) : num := Big (fst x) (snd x).

(** sexp_add on fixnum|bignum (bignum.c:1304-1343): operands ordered by type first *)
Definition num_add (a b : num) : num :=
  match a, b with
  | Fix x, Fix y =>
      let sum := x + y in
      if (sum <? FIXMIN) || (sum >? FIXMAX)
      then normalize (big_num (bignum_add_fixnum (fixnum_to_bignum x) y))   (* sexp_add(big a, b): BIG > FIX, swapped *)
      else Fix sum
  | Fix x, Big s d => normalize (big_num (bignum_add_fixnum (s, d) x))
  | Big s d, Fix y => normalize (big_num (bignum_add_fixnum (s, d) y))
  | Big sa da, Big sb db => normalize (big_num (bignum_add (sb, db) (sa, da)))
  end.

(** sexp_sub (bignum.c:1396-1470).  FIX_FIX (round 2, after fix C04-sub-fixnum-difference-overflow):
    the difference is computed in a sexp_sint_t (two 62-bit values cannot wrap in 64 bits) and handed
    over to sexp_sub(bignum a, b) = the BIG_FIX case when it does not fit a fixnum.  [wrap_fix] is the
    63-bit wrap of sexp_fx_neg (used by [negate]). *)
Definition wrap_fix (z : Z) : Z := (z - FIXMIN) mod (2 * (FIXMAX + 1)) + FIXMIN.
(** sexp_negate_exact on a freshly made result (sexp.h:1070): sign flip in place for a bignum,
    sexp_fx_neg (which wraps at MIN_FIXNUM) for a fixnum *)
Definition negate (x : num) : num :=
  match x with Fix z => Fix (wrap_fix (- z)) | Big s d => Big (- s) d end.
Definition num_sub (a b : num) : num :=
  match a, b with
  | Fix x, Fix y =>
      let diff := x - y in
      if (diff <? FIXMIN) || (diff >? FIXMAX)
      then normalize (big_num (bignum_sub (fixnum_to_bignum x) (fixnum_to_bignum y)))
      else Fix diff
  | Fix x, Big s d => normalize (negate (big_num (bignum_sub (s, d) (fixnum_to_bignum x))))
  | Big s d, Fix y => normalize (big_num (bignum_sub (s, d) (fixnum_to_bignum y)))
  | Big sa da, Big sb db => normalize (big_num (bignum_sub (sa, da) (sb, db)))
  end.

(** VM fast paths SEXP_OP_ADD / SEXP_OP_SUB (vm.c:1763-1820): j is a sexp_sint_t; the sum of two
    62-bit values cannot wrap in 64 bits. *)
Definition vm_add (a b : num) : num :=
  match a, b with
  | Fix x, Fix y =>
      let j := x + y in
      if (j <? FIXMIN) || (j >? FIXMAX) then num_add (big_num (fixnum_to_bignum x)) b else Fix j
  | _, _ => num_add a b
  end.

Definition vm_sub (a b : num) : num :=
  match a, b with
  | Fix x, Fix y =>
      let j := x - y in
      if (j <? FIXMIN) || (j >? FIXMAX) then num_sub (big_num (fixnum_to_bignum x)) b else Fix j
  | _, _ => num_sub a b
  end.

(** ** Karatsuba: sexp_bignum_split / _shift / _mul (bignum.c:509-567) *)
Definition split_lo (a : list Z) (k : nat) : big := (1, firstn k a).
Definition split_hi (a : list Z) (k : nat) : big := (1, skipn k (firstn (hi a) a) ++ [0]).
Definition shift (a : list Z) (k : nat) : big := (1, repeat 0 k ++ firstn (hi a) a ++ [0]).

Fixpoint bignum_mul (fuel : nat) (x y : big) {struct fuel} : option big :=
  match fuel with
  | O => None
  | S f =>
      let '(sa, a) := x in let '(sb, b) := y in
      if (hi a <? hi b)%nat then bignum_mul f y x
      else if (hi b =? 1)%nat then Some (sa * sb, fxmul a (nth 0 b 0) 0)
      else
        let k := (hi b / 2)%nat in
        let a0 := split_lo a k in let a1 := split_hi a k in
        let b0 := split_lo b k in let b1 := split_hi b k in
        let t0 := bignum_add a1 a0 in
        let t1 := bignum_add b1 b0 in
        match bignum_mul f t1 t0, bignum_mul f a0 b0, bignum_mul f a1 b1 with
        | Some z1, Some z0, Some z2 =>
            let z1 := bignum_sub z1 z0 in
            let z1 := bignum_sub z1 z2 in
            let z2 := shift (snd z2) (2 * k) in
            let z1 := shift (snd z1) k in
            let z1 := bignum_add z1 z0 in
            let z1 := bignum_add z1 z2 in
            Some (sa * sb, snd z1)
        | _, _, _ => None
        end
  end.

(** sexp_mul on fixnum|bignum (bignum.c:1501-1539); the FIX_FIX product is a 128-bit signed value,
    exact for 62-bit operands.  [mf] = fuel handed to Karatsuba. *)
Definition num_mul (mf : nat) (a b : num) : option num :=
  let fixbig x s d := Some (normalize (Big (fx_sign x * s) (fxmul d (Z.abs x) 0))) in
  match a, b with
  | Fix x, Fix y =>
      let prod := x * y in
      if fits_fix prod then Some (Fix prod)
      else let '(s, d) := fixnum_to_bignum x in
           Some (normalize (Big (fx_sign y * s) (fxmul d (Z.abs y) 0)))
  | Fix x, Big s d => fixbig x s d
  | Big s d, Fix y => fixbig y s d
  | Big sa da, Big sb db =>
      match bignum_mul mf (sa, da) (sb, db) with
      | Some r => Some (normalize (big_num r))
      | None => None
      end
  end.

(** ** sexp_bignum_quot_rem (bignum.c:569-668) *)
Inductive qres := QR (q r : num) | QDivZero | QFuel.

Definition setnth (l : list Z) (i : nat) (v : Z) : list Z :=
  firstn i l ++ match skipn i l with [] => [] | _ :: t => v :: t end.

Definition wd (l : list Z) (i : nat) : Z := nth i l 0.

(** one quotient-digit guess (bignum.c:600-637): returns (d, off) *)
Definition qr_guess (a1 b1 : list Z) (alen blen : nat) : Z * nat :=
  let off := (alen - blen + 1)%nat in
  let ahi := wd a1 (alen - 1) in let bhi := wd b1 (blen - 1) in
  let dn := lu (lu (ahi * B) + wd a1 (alen - 2)) in
  let dd := lu (lu (bhi * B) + wd b1 (blen - 2)) in
  let '(dn, dd) :=
    if (2 <? alen)%nat && (2 <? blen)%nat && (ahi <? HALF) && (bhi <? HALF)
    then (lu (lu (dn * HALF) + wd a1 (alen - 3) / HALF), lu (lu (dd * HALF) + wd b1 (blen - 3) / HALF))
    else (dn, dd) in
  let d := dn / dd in
  if d =? 0 then
    let dn := lu (lu (ahi * B) + wd a1 (alen - 2)) in
    let dd := bhi in
    let '(dn, dd) :=
      if (ahi <? HALF) && (bhi <? HALF)
      then (lu (lu (dn * HALF) + wd a1 (alen - 3) / HALF), lu (lu (dd * HALF) + wd b1 (blen - 2) / HALF))
      else (dn, dd) in
    (dn / dd, (off - 1)%nat)
  else (d, off).

Fixpoint qr_loop (fuel mf : nat) (alen0 : nat) (a1 : big) (b1 : list Z) (blen : nat) (q : num) (sign : Z)
  {struct fuel} : option (big * num * Z) :=
  if compare_abs (snd a1) b1 >=? 0 then
    match fuel with
    | O => None
    | S f =>
        let alen := hi (snd a1) in
        let '(d, off) := qr_guess (snd a1) b1 alen blen in
        let dhi := (d / B) mod B in
        let dlo := d mod B in
        let x0 := setnth (repeat 0 alen0) off dhi in
        let x := if (0 <? off)%nat then setnth x0 (off - 1) dlo else x0 in
        match bignum_mul mf (1, b1) (1, x) with
        | None => None
        | Some y =>
            let '(a1', q') :=
              if sign <? 0 then (bignum_add a1 y, num_sub q (Big 1 x))
              else (bignum_sub a1 y, num_add q (Big 1 x)) in
            let sign' := if negb (fst a1' =? sign) then - sign else sign in
            let a1'' := if negb (fst a1' =? sign) then (- sign, snd a1') else a1' in
            qr_loop f mf alen0 a1'' b1 blen q' sign'
        end
    end
  else Some (a1, q, sign).

Definition quot_rem (fuel mf : nat) (x y : big) : qres :=
  let '(sa, a) := x in let '(sb, b) := y in
  let blen := hi b in
  if (blen =? 1)%nat && (wd b 0 =? 0) then QDivZero
  else if (blen =? 1)%nat then
    let '(qs, r) := fxdiv a (wd b 0) 0 in
    let rem := normalize (Big 1 [r]) in
    let q := if sa * sb <? 0 then Big (- 1) qs else Big 1 qs in
    QR q (if sa <? 0 then negate rem else rem)
  else
    match qr_loop fuel mf (length a) (1, a) b blen (Fix 0) 1 with
    | None => QFuel
    | Some (a1, q, sign) =>
        let a1n := normalize (big_num a1) in
        let '(q, a1n) :=
          if (sign <? 0) && negb (match a1n with Fix 0 => true | _ => false end)
          then (num_sub q (Fix 1), num_add a1n (Big 1 b))
          else (q, a1n) in
        QR (if sa * sb <? 0 then negate q else q) (if sa <? 0 then negate a1n else a1n)
    end.
