(** C04 SPEC: what R7RS prescribes, on Coq's Z.  Used (extracted) as the oracle of the outer
    correspondence and as the right-hand side of the theorems. *)
From Coq Require Import ZArith List Bool.
Import ListNotations.
Local Open Scope Z_scope.

Inductive res := Val (l : list Z) | Bool (b : bool) | DivZero | Undefined.

Definition fixnum_min : Z := - 2 ^ 62.
Definition fixnum_max : Z := 2 ^ 62 - 1.
Definition fits_fixnum (z : Z) : bool := (fixnum_min <=? z) && (z <=? fixnum_max).

(** floor/ and truncate/ *)
Definition spec2 (op : nat) (a b : Z) : res :=
  match op with
  | 0%nat => Val [a + b]
  | 1%nat => Val [a - b]
  | 2%nat => Val [a * b]
  | 3%nat => if b =? 0 then DivZero else Val [Z.quot a b]             (* quotient, truncate-quotient *)
  | 4%nat => if b =? 0 then DivZero else Val [Z.rem a b]              (* remainder *)
  | 5%nat => if b =? 0 then DivZero else Val [Z.modulo a b]           (* modulo, floor-remainder *)
  | 6%nat => if b =? 0 then DivZero else Val [Z.div a b]              (* floor-quotient *)
  | 7%nat => Val [Z.gcd a b]
  | 8%nat => Val [Z.lcm a b]                                          (* Coq's lcm is >= 0, as R7RS's *)
  | 9%nat => if b <? 0 then Undefined else Val [Z.pow a b]
  | 10%nat => if b =? 0 then DivZero else Val [Z.div a b; Z.modulo a b]   (* floor/ *)
  | 11%nat => if b =? 0 then DivZero else Val [Z.quot a b; Z.rem a b]     (* truncate/ *)
  | 12%nat => Bool (a <? b)
  | 13%nat => Bool (a =? b)
  | 14%nat => Bool (a >? b)
  | 15%nat => Bool (a <=? b)
  | 16%nat => Bool (a >=? b)
  | 17%nat => Val [Z.max a b]
  | 18%nat => Val [Z.min a b]
  | _ => Undefined
  end.

Definition spec1 (op : nat) (a : Z) : res :=
  match op with
  | 0%nat => Val [Z.abs a]
  | 1%nat => Val [- a]
  | 2%nat => if a <? 0 then Undefined else Val [Z.sqrt a; a - Z.sqrt a * Z.sqrt a]   (* exact-integer-sqrt *)
  | 3%nat => Val [a * a]                                                                (* square *)
  | 4%nat => Bool (Z.even a)
  | 5%nat => Bool (Z.odd a)
  | 6%nat => Bool (fits_fixnum a)                                                       (* canonical: fixnum? *)
  | 7%nat => Val [a]                                            (* (exact (inexact a)) for a = m*2^k, |m| < 2^53 *)
  | _ => Undefined
  end.

(** ** exact rationals: lowest terms, positive denominator (what R7RS's numerator/denominator see) *)
Definition qnorm (n d : Z) : Z * Z :=
  let g := Z.gcd n d in
  let s := if d <? 0 then -1 else 1 in
  (s * (n / g), s * (d / g)).

Definition qres (n d : Z) : res := if d =? 0 then DivZero else let '(n', d') := qnorm n d in Val [n'; d'].

(** round to even on n/d with d > 0 *)
Definition qround (n d : Z) : Z :=
  let q := n / d in let r := n - q * d in
  if 2 * r <? d then q else if 2 * r >? d then q + 1 else if Z.even q then q else q + 1.

(** operands are arbitrary fractions n1/d1, n2/d2 with non-zero denominators (not necessarily reduced) *)
Definition specq2 (op : nat) (n1 d1 n2 d2 : Z) : res :=
  match op with
  | 0%nat => qres (n1 * d2 + n2 * d1) (d1 * d2)
  | 1%nat => qres (n1 * d2 - n2 * d1) (d1 * d2)
  | 2%nat => qres (n1 * n2) (d1 * d2)
  | 3%nat => qres (n1 * d2) (d1 * n2)                        (* / : DivZero when n2 = 0 *)
  | 4%nat => let '(a, b) := qnorm n1 d1 in let '(c, d) := qnorm n2 d2 in Bool (a * d <? c * b)
  | 5%nat => let '(a, b) := qnorm n1 d1 in let '(c, d) := qnorm n2 d2 in Bool (a * d =? c * b)
  | 6%nat => let '(a, b) := qnorm n1 d1 in let '(c, d) := qnorm n2 d2 in Bool (a * d >? c * b)
  | 7%nat => let '(a, b) := qnorm n1 d1 in let '(c, d) := qnorm n2 d2 in
             if a * d <? c * b then Val [c; d] else Val [a; b]             (* max *)
  | 8%nat => let '(a, b) := qnorm n1 d1 in let '(c, d) := qnorm n2 d2 in
             if c * b <? a * d then Val [c; d] else Val [a; b]             (* min *)
  | _ => Undefined
  end.

Definition specq1 (op : nat) (n1 d1 : Z) : res :=
  let '(a, b) := qnorm n1 d1 in
  match op with
  | 0%nat => Val [a]                                  (* numerator *)
  | 1%nat => Val [b]                                  (* denominator *)
  | 2%nat => Val [a / b]                              (* floor *)
  | 3%nat => Val [- ((- a) / b)]                      (* ceiling *)
  | 4%nat => Val [qround a b]                         (* round *)
  | 5%nat => Val [Z.quot a b]                         (* truncate *)
  | 6%nat => Val [Z.abs a; b]                         (* abs *)
  | 7%nat => Val [- a; b]                             (* negate *)
  | 8%nat => if a =? 0 then DivZero else qres b a     (* reciprocal (/ x) *)
  | 9%nat => Val [a * a; b * b]                       (* square *)
  | _ => Undefined
  end.

(** ** positional notation: most significant digit first, sign separately *)
Fixpoint digits_fuel (fuel : nat) (r z : Z) (acc : list Z) : list Z :=
  match fuel with
  | O => acc
  | S f => if z =? 0 then acc else digits_fuel f r (z / r) (z mod r :: acc)
  end.
Definition to_radix (r z : Z) : list Z :=
  let m := Z.abs z in
  if m =? 0 then [0] else digits_fuel (S (Z.to_nat (Z.log2 m))) r m [].
Definition of_radix (r : Z) (ds : list Z) : Z := fold_left (fun acc d => acc * r + d) ds 0.

(** spec of number->string: sign (1 / -1) followed by the digit values *)
Definition spec_radix (r z : Z) : res :=
  if orb (r <? 2) (r >? 36) then Undefined else Val ((if z <? 0 then -1 else 1) :: to_radix r z).
