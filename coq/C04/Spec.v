(** C04 SPEC: what R7RS prescribes, on Coq's Z.  Used (extracted) as the oracle of the outer
    correspondence and as the right-hand side of the theorems. *)
From Coq Require Import ZArith List.
Import ListNotations.
Local Open Scope Z_scope.

Inductive res := Val (l : list Z) | Bool (b : bool) | DivZero | Undefined.

Definition fixnum_min : Z := - 2 ^ 62.
Definition fixnum_max : Z := 2 ^ 62 - 1.
Definition fits_fixnum (z : Z) : bool := (fixnum_min <=? z) && (z <=? fixnum_max).

(** floor/ and truncate/ *)
Definition spec2 (op : nat) (a b : Z) : res :=
  match op with
  | 0%nat => Val [a + b]
  | 1%nat => Val [a - b]
  | 2%nat => Val [a * b]
  | 3%nat => if b =? 0 then DivZero else Val [Z.quot a b]             (* quotient, truncate-quotient *)
  | 4%nat => if b =? 0 then DivZero else Val [Z.rem a b]              (* remainder *)
  | 5%nat => if b =? 0 then DivZero else Val [Z.modulo a b]           (* modulo, floor-remainder *)
  | 6%nat => if b =? 0 then DivZero else Val [Z.div a b]              (* floor-quotient *)
  | 7%nat => Val [Z.gcd a b]
  | 8%nat => Val [Z.lcm a b]                                          (* Coq's lcm is >= 0, as R7RS's *)
  | 9%nat => if b <? 0 then Undefined else Val [Z.pow a b]
  | 10%nat => if b =? 0 then DivZero else Val [Z.div a b; Z.modulo a b]   (* floor/ *)
  | 11%nat => if b =? 0 then DivZero else Val [Z.quot a b; Z.rem a b]     (* truncate/ *)
  | 12%nat => Bool (a <? b)
  | 13%nat => Bool (a =? b)
  | 14%nat => Bool (a >? b)
  | 15%nat => Bool (a <=? b)
  | 16%nat => Bool (a >=? b)
  | 17%nat => Val [Z.max a b]
  | 18%nat => Val [Z.min a b]
  | _ => Undefined
  end.

Definition spec1 (op : nat) (a : Z) : res :=
  match op with
  | 0%nat => Val [Z.abs a]
  | 1%nat => Val [- a]
  | 2%nat => if a <? 0 then Undefined else Val [Z.sqrt a; a - Z.sqrt a * Z.sqrt a]   (* exact-integer-sqrt *)
  | 3%nat => Val [a * a]                                                                (* square *)
  | 4%nat => Bool (Z.even a)
  | 5%nat => Bool (Z.odd a)
  | 6%nat => Bool (fits_fixnum a)                                                       (* canonical: fixnum? *)
  | _ => Undefined
  end.
