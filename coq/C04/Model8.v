(** C04 model, eighth part: exact <-> inexact conversions.
      sexp_inexact_to_exact (eval.c:1957-2003), sexp_double_to_bignum (bignum.c:123-138),
      sexp_double_to_ratio_2 (bignum.c:890-918), sexp_exact_to_inexact (eval.c:1926-1955),
      sexp_bignum_to_double (bignum.c:206-213), sexp_ratio_to_double (bignum.c:819-857, the repaired one).
    A finite double is given by its exact dyadic value (m, e) = m * 2^e, as SpecFloat.b64_decode returns it.
    MODELLING ASSUMPTION about the FPU (a fact of IEEE-754): an operation whose exact result is
    representable returns it.  Each floating-point operation of the inexact->exact direction has such a
    result (stated where it is used), so that direction is modelled on exact values with no rounding.
    The exact->inexact direction rounds: it is parametrised by [rnd].   NO proofs in this file. *)
From Coq Require Export QArith.
From ChibiV Require Export Common.Words C04.Model C04.Model2 C04.Model3 C04.Model4 C04.Model5.
Local Open Scope Z_scope.

(** ** inexact -> exact *)

(** trunc(f), as an integer.  Exact: trunc drops low bits of the significand. *)
Definition dy_trunc (m e : Z) : Z := if 0 <=? e then m * 2 ^ e else Z.quot m (2 ^ (- e)).
(** f == trunc(f) *)
Definition dy_is_int (m e : Z) : bool := if 0 <=? e then true else Z.rem m (2 ^ (- e)) =? 0.

(** sexp_double_to_bignum's loop [for (f=fabs(f); f >= 1.0; f=trunc(f/16))] on an INTEGER-valued double
    f >= 0 (both call sites below pass trunc(..) or an integral f), held as the integer [f]:
      - fmod(f,16) is exact (the result has no more significant bits than f): [f mod 16];
      - f/16 is exact (division by a power of two of a value >= 1: only the exponent changes), and trunc of
        it is exact: [f / 16] (floor = trunc, f >= 0).
    res, scale are bignums; tmp = fxmul(NULL, scale, digit, 0) is a fresh bignum of sign 1. *)
Fixpoint d2b_loop (fuel : nat) (f : Z) (res scale : big) {struct fuel} : option big :=
  if f >=? 1 then
    match fuel with
    | O => None
    | S k =>
        let digit := f mod 16 in                                     (* (sexp_uint_t)double_16s_digit(f) *)
        let tmp : big := (1, fxmul (snd scale) digit 0) in
        let res' := bignum_add res tmp in                            (* sexp_bignum_add(ctx, res, res, tmp) *)
        let scale' : big := (1, fxmul (snd scale) 16 0) in
        d2b_loop k (f / 16) res' scale'
    end
  else Some res.

(** [z] = the integer value of the double; fabs is exact; sign = (f < 0 ? -1 : 1) (so -0.0 gives 1).
    The result is NOT normalised. *)
Definition double_to_bignum (fuel : nat) (z : Z) : option big :=
  match d2b_loop fuel (Z.abs z) (fixnum_to_bignum 0) (fixnum_to_bignum 1) with
  | Some r => Some ((if z <? 0 then -1 else 1), snd r)               (* sexp_bignum_sign(res) = sign *)
  | None => None
  end.

(** sexp_double_to_ratio_2's loop [while (f) {...}] on f = r * 2^-k, 0 <= r < 2^k:
      - f *= FLT_RADIX is exact (f < 1: only the exponent changes): r * 2^-(k-1);
      - i = trunc(f) is 0 or 1: [r / 2^(k-1)];
      - f -= i is exact (the difference has fewer significant bits): [r - i * 2^(k-1)].
    res is a bignum of sign 1 (words only), scale a generic number (sexp_mul with fixnum 2). *)
Fixpoint d2r_loop (fuel mf : nat) (r k : Z) (res : list Z) (scale : num) {struct fuel}
  : option (list Z * num) :=
  if r =? 0 then Some (res, scale)
  else match fuel with
       | O => None
       | S fu =>
           let res1 := fxmul res 2 0 in
           match num_mul mf scale (Fix 2) with
           | None => None
           | Some scale1 =>
               let i := r / 2 ^ (k - 1) in
               if i =? 0 then d2r_loop fu mf r (k - 1) res1 scale1
               else d2r_loop fu mf (r - i * 2 ^ (k - 1)) (k - 1) (fxadd res1 i) scale1
           end
       end.

Inductive xres := XNum (r : rres) | XNotFinite | XLoopFuel.

(** sexp_double_to_ratio_2.  [fuel] bounds the two loops above (XLoopFuel when it runs out); rf/qf/mf are
    the fuels of the gcd loop / long division / Karatsuba inside sexp_ratio_normalize and sexp_add. *)
Definition double_to_ratio_2 (fuel rf qf mf : nat) (m e : Z) : xres :=
  if dy_is_int m e then
    match double_to_bignum fuel (dy_trunc m e) with
    | Some b => XNum (RInt (normalize (big_num b)))
    | None => XLoopFuel
    end
  else
    match double_to_bignum fuel (dy_trunc m e) with                  (* whole *)
    | None => XLoopFuel
    | Some whole =>
        let sign := if m <? 0 then -1 else 1 in
        let k := - e in
        let r := Z.abs m mod 2 ^ k in     (* fabs(f - trunc(f)): exact, the fraction bits of the significand *)
        match d2r_loop fuel mf r k [0] (Fix 1) with
        | None => XLoopFuel
        | Some (res, scale) =>
            let resn := normalize (Big sign res) in
            let scalen := normalize scale in
            match ratio_normalize rf qf mf resn scalen with
            | RInt v => XNum (RInt (num_add v (big_num whole)))              (* sexp_add: FIX_BIG / BIG_BIG *)
            | RRat n d => XNum (ratio_add rf qf mf (big_num whole) (Fix 1) n d)  (* BIG_RAT: whole/1 + n/d *)
            | RErr => XNum RErr
            | RFuel => XNum RFuel
            end
        end
    end.

(** sexp_inexact_to_exact on a flonum; [None] = inf or nan (isinf || isnan).
    -(double)SEXP_MIN_FIXNUM = 2^62 and (double)SEXP_MIN_FIXNUM = -2^62 are exact; the comparisons are on
    an integer-valued f.  Last branch: the C cast (sexp_sint_t)f of an integral f in [-2^62, 2^62). *)
Definition inexact_to_exact (fuel rf qf mf : nat) (x : option (Z * Z)) : xres :=
  match x with
  | None => XNotFinite
  | Some (m, e) =>
      if negb (dy_is_int m e) then double_to_ratio_2 fuel rf qf mf m e
      else
        let z := dy_trunc m e in
        if (z >=? - FIXMIN) || (z <? FIXMIN) then
          match double_to_bignum fuel z with
          | Some b => XNum (RInt (big_num b))                        (* not normalised *)
          | None => XLoopFuel
          end
        else XNum (RInt (Fix z))
  end.

(** value of a result as a fraction *)
Definition xres_frac (x : xres) : option (Z * Z) :=
  match x with
  | XNum (RInt v) => Some (nval v, 1)
  | XNum (RRat n d) => Some (nval n, nval d)
  | _ => None
  end.

(** ** exact -> inexact.  A C double is [Some q] (finite, value q) or [None] (inf / nan);
    [rnd q] is the double nearest to q ([None]: overflow), applied after EVERY floating-point operation. *)
Definition fl := option Q.

Definition Qpow2 (e : Z) : Q := if 0 <=? e then inject_Z (2 ^ e) else 1 # Z.to_pos (2 ^ (- e)).
(** value of the dyadic m * 2^e *)
Definition dyq (m e : Z) : Q := inject_Z m * Qpow2 e.

Section Inexact.
Variable rnd : Q -> option Q.

Definition fl_of_Z (z : Z) : fl := rnd (inject_Z z).                 (* (double)z *)
Definition fl_op (op : Q -> Q -> Q) (a b : fl) : fl :=
  match a, b with Some x, Some y => rnd (op x y) | _, _ => None end. (* inf stays inf (operands >= 0) *)
Definition fl_add := fl_op Qplus.
Definition fl_mul := fl_op Qmult.
Definition fl_div (a b : fl) : fl :=
  match a, b with
  | Some x, Some y => if Qeq_bool y 0 then None else rnd (x / y)
  | Some x, None => Some 0%Q                                         (* finite / inf = 0 *)
  | None, _ => None
  end.
Definition fl_neg (a : fl) : fl := match a with Some x => Some (- x)%Q | None => None end.   (* exact *)

(** sexp_bignum_to_double: Horner from the top word down.  The constant (double)SEXP_UINT_T_MAX+1 is 2^64
    (2^64-1 rounds up to 2^64, and 2^64+1 down to 2^64, under round-to-nearest): modelled as the literal.
    [res * sign]: sign is +-1. *)
Definition bignum_to_double (x : big) : fl :=
  let ws := rev (firstn (hi (snd x)) (snd x)) in
  let res := fold_left (fun res w => fl_add (fl_mul res (Some (inject_Z B))) (fl_of_Z w)) ws (Some 0%Q) in
  fl_mul res (fl_of_Z (fst x)).

Definition num_to_double (x : num) : fl :=
  match x with Fix z => fl_of_Z z | Big s d => bignum_to_double (s, d) end.

(** sexp_exact_integer_bits *)
Definition word_bits (w : Z) : Z := if w =? 0 then 0 else Z.log2 w + 1.
Definition exact_integer_bits (x : num) : Z :=
  match x with
  | Fix z => word_bits (Z.abs z)
  | Big _ d => (Z.of_nat (hi d) - 1) * 64 + word_bits (nth (hi d - 1) d 0)
  end.

Definition fl_is_zero (a : fl) : bool := match a with Some x => Qeq_bool x 0 | None => false end.
Definition fl_finite (a : fl) : bool := match a with Some _ => true | None => false end.

(** sexp_ratio_to_double; outer None = a fuel of the integer division ran out *)
Definition ratio_to_double (qf mf : nat) (n d : num) : option fl :=
  let res := fl_div (num_to_double n) (num_to_double d) in
  if (negb (fl_finite res) || fl_is_zero res) && negb (is_zero n) then
    let shift := exact_integer_bits d - exact_integer_bits n + 62 in
    let k := Z.abs shift in
    let scale := normalize (Big 1 (repeat 0 (Z.to_nat (k / 64)) ++ [2 ^ (k mod 64)])) in
    let qr :=
      if shift <? 0 then
        match num_mul mf d scale with
        | Some sc => Some (num_quotient qf mf n sc, num_remainder qf mf n sc)
        | None => None
        end
      else
        match num_mul mf n scale with
        | Some sc => Some (num_quotient qf mf sc d, num_remainder qf mf sc d)
        | None => None
        end in
    match qr with
    | Some (NV quot, NV rem) =>
        let w := match quot with Fix z => Z.abs z | Big _ qd => nth 0 qd 0 end in
        let w := if is_zero rem then w else Z.lor w 1 in            (* sticky bit *)
        let r := match fl_of_Z w with                               (* ldexp((double)w, -shift): one rounding *)
                 | Some x => rnd (x * Qpow2 (- shift))
                 | None => None
                 end in
        Some (if is_neg n then fl_neg r else r)
    | _ => None
    end
  else Some res.

Inductive enum := EInt (v : num) | ERat (n d : num).

(** sexp_exact_to_inexact on fixnum / bignum / ratio *)
Definition exact_to_inexact (qf mf : nat) (x : enum) : option fl :=
  match x with
  | EInt (Fix z) => Some (fl_of_Z z)                                 (* sexp_fixnum_to_flonum *)
  | EInt (Big s d) => Some (bignum_to_double (s, d))
  | ERat n d => ratio_to_double qf mf n d
  end.
End Inexact.
