(** C04 model, ninth part (round 2): reading an exact rational "n/d" in radix r.  sexp_read_number
    (sexp.c:2967-3070) accumulates the numerator as a fixnum with hand-over to sexp_read_bignum
    (bignum.c:303-389), the sign being applied to the fixnum (negativep) resp. stored in the bignum's
    sign field before sexp_bignum_normalize; at '/' the denominator is read by sexp_read_number in the
    SAME radix (fix C04-read-bignum-ratio-denominator-radix for the bignum path), then
    sexp_make_ratio + sexp_ratio_normalize.  NO proofs here. *)
From ChibiV Require Export Common.Words C04.Model C04.Model2 C04.Model3 C04.Model4 C04.Model5.
Local Open Scope Z_scope.

Fixpoint read_number_signed (sg base : Z) (ds : list Z) (v : Z) {struct ds} : num :=
  match ds with
  | [] => Fix (sg * v)
  | d :: rest =>
      let tmp := v * base + d in
      if (FIXMAX / base <? v) || (tmp <? v) || (tmp >? FIXMAX)
      then normalize (Big sg (read_bignum_digits v base ds))
      else read_number_signed sg base rest tmp
  end.

Definition read_ratio (fuel qf mf : nat) (sg base : Z) (dn dd : list Z) : rres :=
  ratio_normalize fuel qf mf (read_number_signed sg base dn 0) (read_number_signed 1 base dd 0).
