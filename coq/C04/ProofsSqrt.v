(** sexp_compare on fixnum|bignum (repaired FIX_FIX) and the Newton loop of sexp_bignum_sqrt:
    whenever the loop exits, the result is the integer square root with its remainder, for ANY
    starting estimate (the flonum seed of the C code is a parameter). *)
From ChibiV Require Import Common.Words C04.Model C04.Model2 C04.Model3 C04.Model4
  C04.Proofs C04.ProofsFx C04.ProofsMul C04.ProofsDiv C04.ProofsQuot.
From Coq Require Import ZifyBool.
Local Open Scope Z_scope.

(** ** compare *)
Lemma canon_big_large s d : wf_big (s, d) -> canon (Big s d) ->
  (s = 1 /\ FIXMAX < val d) \/ (s = -1 /\ FIXMAX + 1 < val d).
Proof.
  intros (Hs & Hd & _) Hc. cbn [fst snd] in *. unfold canon in Hc. cbn [is_fix nval] in Hc.
  pose proof (val_nonneg d Hd). unfold fits_fix, FIXMIN, FIXMAX in *. destruct Hs as [-> | ->]; lia.
Qed.

Lemma big_small_branch d : words d -> d <> [] ->
  ((1 <? hi d)%nat || (wd d 0 >? FIXMAX)) = (FIXMAX <? val d).
Proof.
  intros Hd Hn. destruct (Nat.ltb_spec 1 (hi d)) as [Hh|Hh]; cbn [orb].
  - pose proof (val_ge_pow_hi d Hd ltac:(lia)) as Hge.
    assert (B <= B ^ Z.of_nat (hi d - 1)).
    { rewrite <- (Z.pow_1_r B) at 1. apply Z.pow_le_mono_r; [reflexivity|lia]. }
    pose proof FIX_lt_B. symmetry. apply Z.ltb_lt. lia.
  - assert (hi d = 1%nat) as Hh1 by (pose proof (hi_ge1 d); lia).
    unfold wd. rewrite <- (hi1_val d Hd Hn Hh1). destruct (Z.gtb_spec (val d) FIXMAX), (Z.ltb_spec FIXMAX (val d)); lia.
Qed.

(** Fix against Big: right when the bignum is canonical, or positive with a non-negative fixnum *)
Lemma fix_big_compare_spec x s d : fits_fix x = true -> wf_big (s, d) ->
  canon (Big s d) \/ (s = 1 /\ 0 <= x) ->
  Z.sgn (fix_big_compare x s d) = Z.sgn (x - s * val d) /\ fits_fix (- fix_big_compare x s d) = true.
Proof.
  intros Hx Hw Hc. pose proof Hw as (Hs & Hd & Hn). cbn [fst snd] in *. unfold fix_big_compare.
  rewrite (big_small_branch d Hd Hn). pose proof (val_nonneg d Hd) as Hv0.
  destruct (Z.ltb_spec FIXMAX (val d)) as [Hl|Hl].
  - assert (Hbig : (s = 1) \/ (s = -1 /\ FIXMAX + 1 < val d)).
    { destruct Hc as [Hc|[-> _]]; [|auto]. destruct (canon_big_large s d Hw Hc) as [[-> _]|[-> ?]]; auto. }
    unfold fits_fix, FIXMIN, FIXMAX in *.
    destruct Hbig as [-> |[-> Hl2]]; cbn [Z.ltb Z.compare]; split; try reflexivity; lia.
  - assert (s = 1 /\ 0 <= x) as [-> Hx0].
    { destruct Hc as [Hc|Hc]; [|exact Hc]. exfalso.
      destruct (canon_big_large s d Hw Hc) as [[_ ?]|[_ ?]]; lia. }
    unfold wd. assert (hi d = 1%nat) as Hh1.
    { destruct (Nat.ltb_spec 1 (hi d)) as [Hh|Hh]; [|pose proof (hi_ge1 d); lia].
      pose proof (val_ge_pow_hi d Hd ltac:(lia)) as Hge.
      assert (B <= B ^ Z.of_nat (hi d - 1)).
      { rewrite <- (Z.pow_1_r B) at 1. apply Z.pow_le_mono_r; [reflexivity|lia]. }
      pose proof FIX_lt_B. lia. }
    rewrite <- (hi1_val d Hd Hn Hh1).
    assert (Hf : fits_fix (x - val d) = true) by (unfold fits_fix, FIXMIN, FIXMAX in *; lia).
    rewrite (wrap_fix_id _ Hf). split; [f_equal; lia|]. unfold fits_fix, FIXMIN, FIXMAX in *. lia.
Qed.

Definition cmp_ok (a b : num) : Prop :=
  match a, b with
  | Fix _, Fix _ => True
  | Fix x, Big s d => canon b \/ (s = 1 /\ 0 <= x)
  | Big s d, Fix y => canon a \/ (s = 1 /\ 0 <= y)
  | Big sa _, Big sb _ => (canon a /\ canon b) \/ (sa = 1 /\ sb = 1)
  end.

Theorem num_compare_spec a b : wf_num a -> wf_num b -> cmp_ok a b ->
  Z.sgn (num_compare a b) = Z.sgn (nval a - nval b).
Proof.
  intros Ha Hb Hok. destruct a as [x|sa da], b as [y|sb db]; cbn [wf_num nval cmp_ok] in *; unfold num_compare.
  - destruct (Z.gtb_spec x y), (Z.ltb_spec x y); lia.
  - apply fix_big_compare_spec; assumption.
  - destruct (fix_big_compare_spec y sa da Hb Ha Hok) as [Hs Hf].
    rewrite (wrap_fix_id _ Hf). rewrite Z.sgn_opp, Hs. rewrite <- Z.sgn_opp. f_equal. ring.
  - pose proof Ha as (Hsa & Hda & Hna). pose proof Hb as (Hsb & Hdb & Hnb). cbn [fst snd] in *.
    unfold bignum_compare.
    destruct (compare_abs_spec da db Hda Hdb Hna Hnb) as [Hgt Hlt].
    pose proof (val_nonneg da Hda). pose proof (val_nonneg db Hdb).
    destruct (Z.eqb_spec sa sb) as [->|Hne]; cbn [negb].
    + destruct (Z.ltb_spec sb 0); destruct Hsb as [-> | ->]; try lia.
    + destruct Hok as [[Ca Cb]|[-> ->]]; [|congruence].
      destruct (canon_big_large _ _ Ha Ca) as [[-> ?]|[-> ?]], (canon_big_large _ _ Hb Cb) as [[-> ?]|[-> ?]];
        try congruence; unfold FIXMAX in *; lia.
Qed.

(** ** results of the generic quotient are canonical when the dividend is *)
Lemma num_quotient_canon fuel mf a b r : wf_num a -> wf_num b -> canon a ->
  num_quotient fuel mf a b = NV r -> canon r.
Proof.
  intros Ha Hb Ca H. unfold num_quotient in H.
  destruct (is_one b) eqn:H1.
  { apply NV_inj in H. subst r. exact Ca. }
  destruct a as [x|sa da], b as [y|sb db]; cbn [wf_num] in *.
  - destruct (Z.eqb_spec y 0) as [|Hy0]; [discriminate|].
    destruct ((x <? 0) && (y <? 0) && (wrap_fix (Z.quot x y) <? 0)) eqn:Hd.
    + destruct (fixnum_to_bignum_spec x (fits_abs_lt_B x Ha)) as [Wx Vx].
      destruct (fixnum_to_bignum_spec y (fits_abs_lt_B y Hb)) as [Wy Vy].
      apply qr_quot_spec in H; [|assumption|assumption]. tauto.
    + apply NV_inj in H. subst r. destruct (fx_div_detect x y Ha Hb Hy0 Hd) as [Hw Hf].
      rewrite Hw. apply canon_fix. exact Hf.
  - destruct (fixnum_to_bignum_spec x (fits_abs_lt_B x Ha)) as [Wx Vx].
    apply qr_quot_spec in H; [|assumption|assumption]. tauto.
  - destruct (fixnum_to_bignum_spec y (fits_abs_lt_B y Hb)) as [Wy Vy].
    apply qr_quot_spec in H; [|assumption|assumption]. tauto.
  - apply qr_quot_spec in H; [|assumption|assumption]. tauto.
Qed.

(** ** the Newton loop *)
Definition seed_ok (res : num) : Prop := canon res \/ exists d, res = Big 1 d.

Lemma is_neg_spec x : wf_num x -> canon x -> is_neg x = (nval x <? 0).
Proof.
  destruct x as [z|s d]; cbn [is_neg nval]; intros Hw Hc; [reflexivity|].
  pose proof Hw as (Hs & Hd & _). cbn [fst snd] in *.
  destruct (canon_big_large s d Hw Hc) as [[-> ?]|[-> ?]]; unfold FIXMAX in *;
    [destruct (Z.ltb_spec (1 * val d) 0); [lia|reflexivity]|destruct (Z.ltb_spec (-1 * val d) 0); [reflexivity|lia]].
Qed.

Theorem sqrt_loop_spec : forall fuel qf mf a res s r,
  wf_num a -> is_fix a = false -> wf_num res -> seed_ok res ->
  sqrt_loop fuel qf mf a res = SV s r ->
  nval s * nval s <= nval a < (nval s + 1) * (nval s + 1) /\ nval r = nval a - nval s * nval s
  /\ canon s /\ canon r.
Proof.
  induction fuel as [|f IH]; intros qf mf a res s r Ha Hab Hres Hseed H; [discriminate|].
  cbn [sqrt_loop] in H.
  (* the adjust continuation, used twice *)
  assert (Hadj :
    nv (num_quotient qf mf a res) (fun tmp =>
      nv (num_quotient qf mf (num_add res tmp) (Fix 2)) (fun res2 => sqrt_loop f qf mf a res2)) = SV s r ->
    nval s * nval s <= nval a < (nval s + 1) * (nval s + 1) /\ nval r = nval a - nval s * nval s
    /\ canon s /\ canon r).
  { intros Hq. destruct (num_quotient qf mf a res) as [tmp| |] eqn:E1; cbn [nv] in Hq; try discriminate.
    apply num_quotient_spec in E1; [|assumption|assumption]. destruct E1 as (_ & _ & Wt).
    destruct (num_add_spec res tmp Hres Wt) as (V1 & C1 & W1).
    destruct (num_quotient qf mf (num_add res tmp) (Fix 2)) as [res2| |] eqn:E2; cbn [nv] in Hq; try discriminate.
    pose proof (num_quotient_canon qf mf (num_add res tmp) (Fix 2) res2 W1 eq_refl C1 E2) as C2.
    apply num_quotient_spec in E2; [|assumption|reflexivity]. destruct E2 as (_ & _ & W2).
    eapply IH; [exact Ha|exact Hab|exact W2|left; exact C2|exact Hq]. }
  destruct (num_mul mf res res) as [sq|] eqn:Em; cbn [ov] in H; [|discriminate].
  apply num_mul_spec in Em; [|assumption|assumption]. destruct Em as (Vsq & Csq & Wsq).
  destruct (num_sub_spec a sq Ha Wsq) as (Vrem & Crem & Wrem); [rewrite Hab; discriminate|].
  set (rem := num_sub a sq) in *.
  rewrite (is_neg_spec rem Wrem Crem) in H.
  destruct (Z.ltb_spec (nval rem) 0) as [Hneg|Hpos]; [apply Hadj; exact H|].
  destruct (num_sub_spec rem (Fix 1) Wrem eq_refl) as (Vt & Ct & Wt).
  { intros Hf _. destruct rem as [z|]; [|discriminate]. cbn [wf_num nval] in *.
    unfold fits_fix, FIXMIN, FIXMAX in *. lia. }
  destruct (num_quotient qf mf (num_sub rem (Fix 1)) (Fix 2)) as [tmp2| |] eqn:E3; cbn [nv] in H; try discriminate.
  pose proof (num_quotient_canon qf mf (num_sub rem (Fix 1)) (Fix 2) tmp2 Wt eq_refl Ct E3) as C3.
  apply num_quotient_spec in E3; [|assumption|reflexivity]. destruct E3 as (_ & V3 & W3).
  cbn [nval] in V3, Vt. rewrite Vt in V3.
  destruct (Z.ltb_spec (num_compare tmp2 res) 0) as [Hlt|Hge]; [|apply Hadj; exact H].
  (* exit *)
  assert (Ht2 : 0 <= nval tmp2).
  { rewrite V3. destruct (Z.eq_dec (nval rem) 0) as [E|E].
    - rewrite E. vm_compute. discriminate.
    - apply Z.quot_pos; lia. }
  assert (Hok : cmp_ok tmp2 res).
  { destruct Hseed as [Cr|[d ->]].
    - destruct tmp2, res; cbn [cmp_ok]; auto.
    - destruct tmp2 as [z|s2 d2]; cbn [cmp_ok nval] in *; [right; split; [reflexivity|exact Ht2]|].
      right. split; [|reflexivity].
      destruct (canon_big_large s2 d2 W3 C3) as [[-> _]|[-> Hl]]; [reflexivity|exfalso].
      pose proof W3 as (_ & Hd2 & _). cbn [snd] in Hd2. pose proof (val_nonneg d2 Hd2). unfold FIXMAX in *. lia. }
  pose proof (num_compare_spec tmp2 res W3 Hres Hok) as Hsgn.
  assert (Hcmp : nval tmp2 < nval res) by lia.
  assert (s = normalize res /\ r = normalize rem) as [-> ->] by (split; congruence).
  destruct (normalize_num_spec res Hres) as (Vs & Cs & _).
  destruct (normalize_num_spec rem Wrem) as (Vr & Cr & _).
  rewrite Vs, Vr. rewrite Vsq in Vrem.
  pose proof (Z.quot_rem' (nval rem - 1) 2) as Hqr. pose proof (Z.rem_bound_abs (nval rem - 1) 2 ltac:(lia)) as Hrb.
  pose proof (Z.rem_sign_mul (nval rem - 1) 2 ltac:(lia)) as Hrs.
  rewrite <- V3 in Hqr.
  split; [|split; [lia|split; assumption]].
  nia.
Qed.

Example compare_example :
  num_compare (Fix FIXMIN) (Fix FIXMAX) = -1 /\ num_compare (Big 1 [0; 1]) (Fix 5) = 1
  /\ num_compare (Big (-1) [0; 1]) (Big (-1) [1; 1]) = 1.
Proof. vm_compute. repeat split; reflexivity. Qed.
Example sqrt_example :   (* isqrt (2^128 + 5) from the poor estimate 2^60: three Newton steps *)
  sqrt_loop 20 8 16 (Big 1 [5; 0; 1]) (Big 1 [1152921504606846976])
  = SV (Big 1 [0; 1; 0]) (Fix 5).
Proof. vm_compute. reflexivity. Qed.
