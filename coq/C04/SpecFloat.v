(** C04 SPEC, floating point side: IEEE-754 binary64 as Z bit fields, and what R7RS [exact] /
    [inexact] must return when the conversion is exact.  Executable (extracted as the oracle of the
    outer correspondence).  NO proofs in this file (they are in ProofsConv.v). *)
From Coq Require Import ZArith List Bool.
From ChibiV Require Import C04.Spec.
Import ListNotations.
Local Open Scope Z_scope.

(** [b64_decode bits], 0 <= bits < 2^64: sign = bit 63, biased exponent E = bits 52..62,
    fraction F = bits 0..51.  None for inf/nan (E = 2047); otherwise Some (m, e), value m * 2^e. *)
Definition b64_decode (bits : Z) : option (Z * Z) :=
  let s := bits / 2 ^ 63 in
  let E := (bits / 2 ^ 52) mod 2 ^ 11 in
  let F := bits mod 2 ^ 52 in
  let sg := if s =? 0 then 1 else -1 in
  if E =? 2047 then None
  else if E =? 0 then Some (sg * F, -1074)
  else Some (sg * (2 ^ 52 + F), E - 1075).

(** numerator / denominator (not reduced) of m * 2^e *)
Definition dy_val (m e : Z) : Z * Z :=
  if 0 <=? e then (m * 2 ^ e, 1) else (m, 2 ^ (- e)).

(** (exact x) for the double with these bits: [n; d] in lowest terms, d > 0 (d = 1: an integer) *)
Definition spec_exact_bits (bits : Z) : res :=
  match b64_decode bits with
  | None => Undefined
  | Some (m, e) => let '(n, d) := dy_val m e in let '(n', d') := qnorm n d in Val [n'; d']
  end.

(** a finite double given as (sign, magnitude M, exponent e): 0 <= M < 2^53, -1074 <= e <= 971, and
    M < 2^52 only with e = -1074 (subnormal, biased exponent 0) *)
Definition b64_valid (M e : Z) : bool :=
  (0 <=? M) && (M <? 2 ^ 53) && (-1074 <=? e) && (e <=? 971) && ((2 ^ 52 <=? M) || (e =? -1074)).

Definition b64_encode (neg : bool) (M e : Z) : Z :=
  (if neg then 2 ^ 63 else 0) + (if M <? 2 ^ 52 then M else (e + 1075) * 2 ^ 52 + (M - 2 ^ 52)).

(** the fraction n/d (d > 0) is exactly M * 2^e *)
Definition dy_is (n d M e : Z) : bool :=
  if e <=? 0 then n * 2 ^ (- e) =? M * d else n =? M * 2 ^ e * d.

(** [representable n d] (d > 0, n/d not necessarily reduced): the bits of THE double whose value is
    exactly n/d, if there is one.  Candidate exponent from the bit lengths (the significand of a normal
    double has exactly 53 bits; below 2^-1022 the exponent sticks at -1074), then an exact check. *)
Definition representable (n d : Z) : option Z :=
  if n =? 0 then Some 0
  else
    let g := Z.gcd n d in
    let a := Z.abs n / g in
    let d1 := d / g in
    let k := Z.log2 d1 in                       (* d1 = 2^k when n/d is dyadic *)
    let e := Z.max (Z.log2 a - k - 52) (-1074) in
    let M := if 0 <=? - k - e then Z.shiftl a (- k - e) else Z.shiftr a (k + e) in
    if b64_valid M e && dy_is (Z.abs n) d M e then Some (b64_encode (n <? 0) M e) else None.

(** (inexact n/d) when it is exact: [bits] *)
Definition spec_inexact_bits (n d : Z) : res :=
  if d <=? 0 then Undefined
  else match representable n d with Some bits => Val [bits] | None => Undefined end.
