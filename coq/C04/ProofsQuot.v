(** Generic quotient / remainder (with the F-C04-3 repair), the VM opcodes, and expt. *)
From ChibiV Require Import Common.Words C04.Model C04.Model2 C04.Model3
  C04.Proofs C04.ProofsFx C04.ProofsMul C04.ProofsDiv.
From Coq Require Import Zquot ZifyBool.
Local Open Scope Z_scope.

Lemma normalize_num_spec x : wf_num x ->
  nval (normalize x) = nval x /\ canon (normalize x) /\ wf_num (normalize x).
Proof.
  destruct x as [z|s d]; intros Hw.
  - cbn [normalize nval]. split; [reflexivity|]. split; [apply canon_fix|]; exact Hw.
  - destruct (normalize_spec s d Hw) as (V & C & W). cbn [nval]. tauto.
Qed.

Lemma qr_quot_spec fuel mf x y r : wf_big x -> wf_big y ->
  qr_quot (quot_rem fuel mf x y) = NV r ->
  bval y <> 0 /\ nval r = Z.quot (bval x) (bval y) /\ canon r /\ wf_num r.
Proof.
  intros Hx Hy H. destruct (quot_rem fuel mf x y) as [q0 r0| |] eqn:E; cbn [qr_quot] in H; try discriminate.
  apply quot_rem_spec in E; [|assumption|assumption]. destruct E as (Hnz & Vq & Vr & Wq & Wr).
  assert (r = normalize q0) as -> by congruence.
  destruct (normalize_num_spec q0 Wq) as (V & C & W). rewrite V. tauto.
Qed.

Lemma qr_rem_spec fuel mf x y r : wf_big x -> wf_big y ->
  qr_rem (quot_rem fuel mf x y) = NV r ->
  bval y <> 0 /\ nval r = Z.rem (bval x) (bval y) /\ canon r /\ wf_num r.
Proof.
  intros Hx Hy H. destruct (quot_rem fuel mf x y) as [q0 r0| |] eqn:E; cbn [qr_rem] in H; try discriminate.
  apply quot_rem_spec in E; [|assumption|assumption]. destruct E as (Hnz & Vq & Vr & Wq & Wr).
  assert (r = normalize r0) as -> by congruence.
  destruct (normalize_num_spec r0 Wr) as (V & C & W). rewrite V. tauto.
Qed.

Lemma is_one_spec b : is_one b = true -> b = Fix 1.
Proof. destruct b as [z|]; [|discriminate]. destruct z as [|p|p]; try discriminate. destruct p; try discriminate. reflexivity. Qed.

Lemma NV_inj a b : NV a = NV b -> a = b.
Proof. congruence. Qed.

(** truncating fixnum division: in range unless MIN_FIXNUM / -1, which the sign test detects *)
Lemma fx_div_detect x y : fits_fix x = true -> fits_fix y = true -> y <> 0 ->
  ((x <? 0) && (y <? 0) && (wrap_fix (Z.quot x y) <? 0)) = false ->
  wrap_fix (Z.quot x y) = Z.quot x y /\ fits_fix (Z.quot x y) = true.
Proof.
  intros Hx Hy Hy0 Hd.
  pose proof (Z.quot_rem' x y) as Hqr. pose proof (Z.rem_bound_abs x y Hy0) as Hrb.
  pose proof (Z.rem_sign_mul x y Hy0) as Hrs.
  set (q := Z.quot x y) in *. set (r := Z.rem x y) in *.
  assert (Hq : FIXMIN <= q <= FIXMAX + 1).
  { unfold fits_fix, FIXMIN, FIXMAX in *. nia. }
  destruct (Z.eq_dec q (FIXMAX + 1)) as [Heq|Hne].
  - exfalso. assert (Hw : wrap_fix q = FIXMIN) by (rewrite Heq; reflexivity).
    rewrite Hw in Hd. unfold fits_fix, FIXMIN, FIXMAX in *.
    assert (x < 0 /\ y < 0) by nia. lia.
  - assert (Hf : fits_fix q = true) by (unfold fits_fix, FIXMIN, FIXMAX in *; lia).
    split; [apply wrap_fix_id; exact Hf|exact Hf].
Qed.

Lemma fits_rem x y : fits_fix x = true -> y <> 0 -> fits_fix (Z.rem x y) = true.
Proof.
  intros Hx Hy. pose proof (Z.rem_sign_mul x y Hy).
  assert (Z.abs (Z.rem x y) <= Z.abs x).
  { destruct (Z.eq_dec x 0) as [->|]; [rewrite Z.rem_0_l by assumption; lia|].
    pose proof (Z.quot_rem' x y). pose proof (Z.rem_bound_abs x y Hy).
    pose proof (Z.quot_abs x y Hy). pose proof (Z.rem_abs x y Hy).
    rewrite <- Z.rem_abs by assumption. apply Z.rem_le; lia. }
  unfold fits_fix, FIXMIN, FIXMAX in *. nia.
Qed.

Theorem num_quotient_spec fuel mf a b r : wf_num a -> wf_num b ->
  num_quotient fuel mf a b = NV r ->
  nval b <> 0 /\ nval r = Z.quot (nval a) (nval b) /\ wf_num r.
Proof.
  intros Ha Hb H. unfold num_quotient in H.
  destruct (is_one b) eqn:H1.
  { apply is_one_spec in H1. subst b. apply NV_inj in H. subst r. cbn [nval].
    rewrite Z.quot_1_r. split; [lia|split; [reflexivity|exact Ha]]. }
  destruct a as [x|sa da], b as [y|sb db]; cbn [wf_num nval] in *.
  - destruct (Z.eqb_spec y 0) as [|Hy0]; [discriminate|].
    destruct ((x <? 0) && (y <? 0) && (wrap_fix (Z.quot x y) <? 0)) eqn:Hd.
    + destruct (fixnum_to_bignum_spec x (fits_abs_lt_B x Ha)) as [Wx Vx].
      destruct (fixnum_to_bignum_spec y (fits_abs_lt_B y Hb)) as [Wy Vy].
      apply qr_quot_spec in H; [|assumption|assumption]. rewrite Vx, Vy in H. tauto.
    + apply NV_inj in H. subst r. destruct (fx_div_detect x y Ha Hb Hy0 Hd) as [Hw Hf].
      rewrite Hw. cbn [nval wf_num]. tauto.
  - destruct (fixnum_to_bignum_spec x (fits_abs_lt_B x Ha)) as [Wx Vx].
    apply qr_quot_spec in H; [|assumption|assumption]. rewrite Vx in H. unfold bval in H. cbn [fst snd] in H. tauto.
  - destruct (fixnum_to_bignum_spec y (fits_abs_lt_B y Hb)) as [Wy Vy].
    apply qr_quot_spec in H; [|assumption|assumption]. rewrite Vy in H. unfold bval in H. cbn [fst snd] in H. tauto.
  - apply qr_quot_spec in H; [|assumption|assumption]. unfold bval in H. cbn [fst snd] in H. tauto.
Qed.

Theorem num_remainder_spec fuel mf a b r : wf_num a -> wf_num b ->
  num_remainder fuel mf a b = NV r ->
  nval b <> 0 /\ nval r = Z.rem (nval a) (nval b) /\ wf_num r.
Proof.
  intros Ha Hb H. unfold num_remainder in H.
  destruct (is_one b) eqn:H1.
  { apply is_one_spec in H1. subst b. apply NV_inj in H. subst r. cbn [nval].
    rewrite Z.rem_1_r. split; [lia|split; reflexivity]. }
  destruct a as [x|sa da], b as [y|sb db]; cbn [wf_num nval] in *.
  - destruct (Z.eqb_spec y 0) as [|Hy0]; [discriminate|].
    apply NV_inj in H. subst r. cbn [nval wf_num]. split; [exact Hy0|]. split; [reflexivity|apply fits_rem; assumption].
  - destruct (fixnum_to_bignum_spec x (fits_abs_lt_B x Ha)) as [Wx Vx].
    apply qr_rem_spec in H; [|assumption|assumption]. rewrite Vx in H. unfold bval in H. cbn [fst snd] in H. tauto.
  - rewrite (fxrem_spec sa da y Ha (fits_abs_lt_B y Hb)) in H.
    destruct (Z.eqb_spec y 0) as [|Hy0]; [discriminate|].
    apply NV_inj in H. subst r. cbn [nval wf_num]. split; [exact Hy0|]. split; [reflexivity|].
    pose proof Ha as (Hs & Hd & _). cbn [fst snd] in *.
    pose proof (Z.rem_bound_abs (sa * val da) y Hy0). unfold fits_fix, FIXMIN, FIXMAX in *. lia.
  - apply qr_rem_spec in H; [|assumption|assumption]. unfold bval in H. cbn [fst snd] in H. tauto.
Qed.

(** the VM opcodes, including MIN_FIXNUM / -1 *)
Theorem vm_quotient_spec fuel mf a b r : wf_num a -> wf_num b ->
  vm_quotient fuel mf a b = NV r ->
  nval b <> 0 /\ nval r = Z.quot (nval a) (nval b) /\ wf_num r.
Proof.
  intros Ha Hb H. destruct a as [x|sa da], b as [y|sb db]; unfold vm_quotient in H;
    try (apply (num_quotient_spec fuel mf) in H; assumption).
  cbn [wf_num nval] in *.
  destruct (Z.eqb_spec y 0) as [|Hy0]; [discriminate|].
  destruct ((x <? 0) && (y <? 0) && (wrap_fix (Z.quot x y) <? 0)) eqn:Hd.
  - destruct (fixnum_to_bignum_spec x (fits_abs_lt_B x Ha)) as [Wx Vx].
    apply (num_quotient_spec fuel mf) in H; [|apply wf_num_big_num; exact Wx|exact Hb].
    rewrite nval_big_num, Vx in H. exact H.
  - apply NV_inj in H. subst r. destruct (fx_div_detect x y Ha Hb Hy0 Hd) as [Hw Hf].
    rewrite Hw. cbn [nval wf_num]. tauto.
Qed.

Theorem vm_remainder_spec fuel mf a b r : wf_num a -> wf_num b ->
  vm_remainder fuel mf a b = NV r ->
  nval b <> 0 /\ nval r = Z.rem (nval a) (nval b) /\ wf_num r.
Proof.
  intros Ha Hb H. destruct a as [x|sa da], b as [y|sb db]; unfold vm_remainder in H;
    try (apply (num_remainder_spec fuel mf) in H; assumption).
  cbn [wf_num nval] in *.
  destruct (Z.eqb_spec y 0) as [|Hy0]; [discriminate|].
  apply NV_inj in H. subst r. cbn [nval wf_num]. split; [exact Hy0|]. split; [reflexivity|apply fits_rem; assumption].
Qed.

(** ** expt *)
Lemma pow_half x e : 0 <= e -> x ^ e = (if Z.odd e then x else 1) * (x * x) ^ (e / 2).
Proof.
  intros He. pose proof (Z.div_mod e 2 ltac:(lia)) as Hdm. pose proof (Zmod_odd e) as Hodd.
  assert (0 <= e / 2) by (apply Z.div_pos; lia).
  rewrite <- Z.pow_2_r, <- Z.pow_mul_r by lia.
  destruct (Z.odd e).
  - replace e with (1 + 2 * (e / 2)) at 1 by lia. rewrite Z.pow_add_r by lia. rewrite Z.pow_1_r. reflexivity.
  - replace e with (2 * (e / 2)) at 1 by lia. ring.
Qed.

Lemma expt_loop_spec : forall fuel mf e res acc r, wf_big res -> wf_big acc -> 0 <= e ->
  expt_loop fuel mf e res acc = Some r -> bval r = bval res * bval acc ^ e /\ wf_big r.
Proof.
  induction fuel as [|f IH]; intros mf e res acc r Hres Hacc He H; [discriminate|].
  cbn [expt_loop] in H. destruct (Z.eqb_spec e 0) as [->|Hne].
  - apply Some_inj in H. subst r. rewrite Z.pow_0_r. split; [ring|exact Hres].
  - destruct (if Z.odd e then bignum_mul mf res acc else Some res) as [res'|] eqn:E1; [|discriminate].
    destruct (bignum_mul mf acc acc) as [acc'|] eqn:E2; [|discriminate].
    apply bignum_mul_spec in E2; [|assumption|assumption]. destruct E2 as [V2 W2].
    assert (H1 : bval res' = bval res * (if Z.odd e then bval acc else 1) /\ wf_big res').
    { destruct (Z.odd e).
      - apply bignum_mul_spec in E1; assumption.
      - apply Some_inj in E1. subst res'. split; [ring|exact Hres]. }
    destruct H1 as [V1 W1].
    apply IH in H; [|assumption|assumption|apply Z.div_pos; lia].
    destruct H as [V W]. split; [|exact W].
    rewrite V, V1, V2, (pow_half (bval acc) e He). ring.
Qed.

Theorem bignum_expt_spec fuel mf a e r : wf_big a -> 0 <= e ->
  bignum_expt fuel mf a e = Some r -> nval r = bval a ^ e /\ canon r /\ wf_num r.
Proof.
  intros Ha He H. unfold bignum_expt in H.
  destruct (expt_loop fuel mf e (fixnum_to_bignum 1) a) as [z|] eqn:E; [|discriminate].
  apply Some_inj in H. subst r.
  destruct (fixnum_to_bignum_spec 1 ltac:(unfold B; lia)) as [W1 V1].
  apply expt_loop_spec in E; [|assumption|assumption|assumption]. destruct E as [V W].
  destruct (normalize_big_spec z W) as (V2 & C2 & W2). rewrite V2, V, V1. split; [ring|tauto].
Qed.

(** non-vacuity *)
Example fx_quotient_min_over_minus_one_ex :
  vm_quotient 4 8 (Fix FIXMIN) (Fix (-1)) = NV (Big 1 [FIXMAX + 1]).
Proof. vm_compute. reflexivity. Qed.
Example quotient_min_fixnum_by_bignum_ex :   (* F-C04-3: the pinned code answered 0 and -2^62 *)
  num_quotient 4 8 (Fix FIXMIN) (Big 1 [FIXMAX + 1]) = NV (Fix (-1))
  /\ num_remainder 4 8 (Fix FIXMIN) (Big 1 [FIXMAX + 1]) = NV (Fix 0).
Proof. vm_compute. split; reflexivity. Qed.
Example expt_example : bignum_expt 8 16 (-1, [3]) 41 = Some (Big (-1) [18026252303461234787; 1]).
Proof. vm_compute. reflexivity. Qed.
