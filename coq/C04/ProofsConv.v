(** C04 proofs, exact <-> inexact conversions (SpecFloat.v, Model8.v). *)
From ChibiV Require Import C04.Model8 C04.Proofs C04.ProofsFx C04.ProofsMul C04.ProofsQuot C04.ProofsRatio
  C04.Spec C04.SpecFloat.
From Coq Require Import ZifyBool Znumtheory.
Local Open Scope Z_scope.
Ltac Zify.zify_post_hook ::= Z.div_mod_to_equations.

(** ** SPEC sanity: decode is a left inverse of encode / representable *)
Ltac fold_pows :=
  change (2 ^ 11) with 2048 in *; change (2 ^ 52) with 4503599627370496 in *;
  change (2 ^ 53) with 9007199254740992 in *; change (2 ^ 63) with 9223372036854775808 in *.

Lemma b64_decode_encode neg M e : b64_valid M e = true ->
  b64_decode (b64_encode neg M e) = Some ((if neg then -1 else 1) * M, e).
Proof.
  unfold b64_valid, b64_encode, b64_decode. intros Hv.
  assert (H : 0 <= M < 2 ^ 53 /\ -1074 <= e <= 971 /\ (2 ^ 52 <= M \/ e = -1074)) by (fold_pows; lia). clear Hv.
  destruct H as (HM & He & Hs).
  destruct (Z.ltb_spec M (2 ^ 52)) as [Hlt|Hge].
  - assert (e = -1074) as -> by (fold_pows; lia).
    set (S := if neg then 2 ^ 63 else 0).
    assert (HS : (S + M) / 2 ^ 63 = (if neg then 1 else 0) /\ ((S + M) / 2 ^ 52) mod 2 ^ 11 = 0 /\ (S + M) mod 2 ^ 52 = M).
    { subst S. fold_pows. destruct neg; lia. }
    destruct HS as (-> & -> & ->). destruct neg; reflexivity.
  - set (S := if neg then 2 ^ 63 else 0).
    set (bits := S + ((e + 1075) * 2 ^ 52 + (M - 2 ^ 52))).
    assert (HS : bits / 2 ^ 63 = (if neg then 1 else 0) /\ (bits / 2 ^ 52) mod 2 ^ 11 = e + 1075 /\ bits mod 2 ^ 52 = M - 2 ^ 52).
    { subst bits S. fold_pows. destruct neg; lia. }
    destruct HS as (-> & -> & ->).
    destruct (Z.eqb_spec (e + 1075) 2047); [lia|]. destruct (Z.eqb_spec (e + 1075) 0); [lia|].
    destruct neg; cbn [Z.eqb]; f_equal; f_equal; fold_pows; lia.
Qed.

(** decode is a left inverse of [representable]: the bits returned denote exactly n/d *)
Theorem representable_decode n d bits : representable n d = Some bits ->
  exists m e, b64_decode bits = Some (m, e)
              /\ (if e <=? 0 then n * 2 ^ (- e) = m * d else n = m * 2 ^ e * d).
Proof.
  unfold representable. destruct (Z.eqb_spec n 0) as [->|Hn].
  - intros H. assert (bits = 0) as -> by congruence. exists 0, (-1074). split; [reflexivity|]. cbn [Z.leb Z.compare]. ring.
  - set (e := Z.max _ _). set (M := if 0 <=? _ then _ else _).
    destruct (b64_valid M e && dy_is (Z.abs n) d M e) eqn:Hc; [|discriminate].
    apply andb_prop in Hc. destruct Hc as [Hv Hd]. intros H.
    assert (bits = b64_encode (n <? 0) M e) as -> by congruence.
    exists ((if n <? 0 then -1 else 1) * M), e. split; [apply b64_decode_encode; exact Hv|].
    unfold dy_is in Hd. destruct (e <=? 0); destruct (Z.ltb_spec n 0); lia.
Qed.

Example representable_decode_ex :
  representable 3 (2 ^ 1030) = Some 0x300000000000 /\ b64_decode 0x300000000000 = Some (3 * 2 ^ 44, -1074)
  /\ representable (- (2 ^ 53 - 1) * 2 ^ 971) 1 = Some 0xFFEFFFFFFFFFFFFF
  /\ representable 1 (2 ^ 1074) = Some 1 /\ representable 1 (2 ^ 1075) = None /\ representable 1 3 = None
  /\ representable (2 ^ 53 + 1) 1 = None /\ representable (2 ^ 1024) 1 = None.
Proof. vm_compute. repeat split; reflexivity. Qed.

(** ** sexp_double_to_bignum *)
Lemma d2b_loop_spec : forall fuel f res scale, 0 <= f < 16 ^ Z.of_nat fuel ->
  wf_big res -> words (snd scale) -> snd scale <> [] ->
  exists r, d2b_loop fuel f res scale = Some r /\ wf_big r /\ bval r = bval res + val (snd scale) * f.
Proof.
  induction fuel as [|k IH]; intros f res scale Hf Hres Hsc Hne.
  - cbn [d2b_loop]. change (16 ^ Z.of_nat 0) with 1 in Hf. assert (f = 0) as -> by lia.
    cbn [Z.geb Z.compare]. exists res. split; [reflexivity|]. split; [assumption|lia].
  - cbn [d2b_loop]. destruct (Z.geb_spec f 1) as [Hge|Hlt].
    + set (digit := f mod 16).
      assert (Hdig : isword digit) by (unfold isword, B; subst digit; lia).
      destruct (fxmul_spec (snd scale) digit 0 Hsc Hdig) as [Vt Wt].
      assert (H16 : isword 16) by (unfold isword, B; lia).
      destruct (fxmul_spec (snd scale) 16 0 Hsc H16) as [Vs Ws].
      assert (Wtmp : wf_big (1, fxmul (snd scale) digit 0)).
      { unfold wf_big. cbn [fst snd]. split; [auto|]. split; [exact Wt|]. apply fxmul_nonempty. exact Hne. }
      destruct (bignum_add_spec res _ Hres Wtmp) as [Va Wa].
      assert (Hf' : 0 <= f / 16 < 16 ^ Z.of_nat k).
      { rewrite Nat2Z.inj_succ, Z.pow_succ_r in Hf by lia. split; [lia|]. apply Z.div_lt_upper_bound; lia. }
      destruct (IH (f / 16) (bignum_add res (1, fxmul (snd scale) digit 0)) (1, fxmul (snd scale) 16 0) Hf' Wa)
        as (r & Er & Wr & Vr).
      { exact Ws. } { cbn [snd]. apply fxmul_nonempty. exact Hne. }
      exists r. split; [exact Er|]. split; [exact Wr|].
      rewrite Vr, Va. unfold bval at 2. cbn [fst snd]. rewrite Vt, Vs. change (Z.of_nat 0) with 0.
      rewrite Z.pow_0_r. subst digit. pose proof (Z.div_mod f 16 ltac:(lia)) as Hdm.
      set (q := f / 16) in *. set (r16 := f mod 16) in *. rewrite Hdm. ring.
    + assert (f = 0) as -> by lia. exists res. split; [reflexivity|]. split; [assumption|lia].
Qed.

Lemma wf_big_val_abs r : wf_big r -> val (snd r) = Z.abs (bval r).
Proof.
  intros (Hs & Hw & _). pose proof (val_nonneg _ Hw). unfold bval. destruct Hs as [-> | ->]; lia.
Qed.

(** the digit loop returns trunc(|f|) with the sign of f; [fuel] >= number of hex digits of trunc|f| *)
Theorem double_to_bignum_int fuel z : Z.abs z < 16 ^ Z.of_nat fuel ->
  exists b, double_to_bignum fuel z = Some b /\ wf_big b /\ bval b = z
            /\ fst b = (if z <? 0 then -1 else 1).
Proof.
  intros Hz. unfold double_to_bignum.
  destruct (d2b_loop_spec fuel (Z.abs z) (fixnum_to_bignum 0) (fixnum_to_bignum 1)) as (r & Er & Wr & Vr).
  - lia.
  - apply fixnum_to_bignum_spec. unfold B. lia.
  - cbn. repeat constructor; unfold isword, B; lia.
  - cbn. congruence.
  - rewrite Er. eexists. split; [reflexivity|].
    assert (Vr' : bval r = Z.abs z).
    { rewrite Vr. cbn [fixnum_to_bignum snd val]. unfold bval, fixnum_to_bignum. cbn [fst snd val]. lia. }
    pose proof (wf_big_val_abs r Wr) as Hv. rewrite Vr' in Hv.
    destruct Wr as (_ & Ww & Wn).
    split; [|split; [|reflexivity]].
    + unfold wf_big. cbn [fst snd]. split; [destruct (z <? 0); auto|]. split; assumption.
    + unfold bval. cbn [fst snd]. rewrite Hv. destruct (Z.ltb_spec z 0); lia.
Qed.

Lemma dy_trunc_bound m e : Z.abs m < 2 ^ 53 -> e <= 971 -> Z.abs (dy_trunc m e) < 16 ^ 256.
Proof.
  intros Hm He. unfold dy_trunc. destruct (Z.leb_spec 0 e) as [H0|H0].
  - rewrite Z.abs_mul, (Z.abs_eq (2 ^ e)) by (apply Z.pow_nonneg; lia).
    assert (2 ^ e <= 2 ^ 971) by (apply Z.pow_le_mono_r; lia).
    assert (0 < 2 ^ e) by (apply Z.pow_pos_nonneg; lia).
    change (16 ^ 256) with (2 ^ 53 * 2 ^ 971). nia.
  - assert (0 < 2 ^ (- e)) by (apply Z.pow_pos_nonneg; lia).
    assert (Z.abs (Z.quot m (2 ^ (- e))) <= Z.abs m).
    { rewrite <- Z.quot_abs by lia. rewrite (Z.abs_eq (2 ^ (- e))) by lia.
      apply Z.quot_le_upper_bound; [lia|]. nia. }
    assert (2 ^ 53 < 16 ^ 256) by reflexivity. lia.
Qed.

Theorem double_to_bignum_val fuel m e : Z.abs m < 2 ^ 53 -> e <= 971 -> (256 <= fuel)%nat ->
  exists b, double_to_bignum fuel (dy_trunc m e) = Some b /\ wf_big b /\ bval b = dy_trunc m e
            /\ fst b = (if dy_trunc m e <? 0 then -1 else 1).
Proof.
  intros Hm He Hf. apply double_to_bignum_int.
  pose proof (dy_trunc_bound m e Hm He).
  assert (16 ^ 256 <= 16 ^ Z.of_nat fuel) by (apply Z.pow_le_mono_r; lia). lia.
Qed.

Example double_to_bignum_ex :
  double_to_bignum 256 (dy_trunc (- (2 ^ 53 - 1)) 971)
  = Some (-1, [0; 0; 0; 0; 0; 0; 0; 0; 0; 0; 0; 0; 0; 0; 0; 18446744073709549568])
  /\ double_to_bignum 20 (dy_trunc (-7) (-1)) = Some (-1, [3]).
Proof. vm_compute. split; reflexivity. Qed.

(** ** sexp_inexact_to_exact, integral doubles *)
Lemma dy_int_val m e : dy_is_int m e = true ->
  fst (dy_val m e) = dy_trunc m e * snd (dy_val m e).
Proof.
  unfold dy_is_int, dy_val, dy_trunc. destruct (0 <=? e); cbn [fst snd]; [lia|].
  intros H. apply Z.eqb_eq in H. pose proof (Z.quot_rem' m (2 ^ (- e))). lia.
Qed.

(** An integral finite double converts to the integer with exactly its value, and the result is CANONICAL
    (fixnum iff it fits): the un-normalised bignum of the [f >= 2^62 || f < -2^62] branch never fits a fixnum,
    and f = -2^62 takes the fixnum branch.  Loop fuel 256 suffices (|f| < 2^1024 = 16^256). *)
Theorem exact_of_double_int fuel rf qf mf m e :
  Z.abs m < 2 ^ 53 -> e <= 971 -> (256 <= fuel)%nat -> dy_is_int m e = true ->
  exists v, inexact_to_exact fuel rf qf mf (Some (m, e)) = XNum (RInt v)
            /\ wf_num v /\ canon v /\ nval v = dy_trunc m e
            /\ fst (dy_val m e) = nval v * snd (dy_val m e).
Proof.
  intros Hm He Hf Hint. unfold inexact_to_exact. rewrite Hint. cbn [negb].
  pose proof (dy_int_val m e Hint) as Hval. set (z := dy_trunc m e) in *.
  destruct ((z >=? - FIXMIN) || (z <? FIXMIN)) eqn:Hr.
  - destruct (double_to_bignum_val fuel m e Hm He Hf) as (b & Eb & Wb & Vb & _). fold z in Eb, Vb.
    rewrite Eb. exists (big_num b). split; [reflexivity|].
    split; [apply wf_num_big_num; exact Wb|]. rewrite nval_big_num, Vb.
    split; [|split; [reflexivity|exact Hval]].
    unfold canon. rewrite nval_big_num, Vb. unfold big_num. cbn [is_fix].
    unfold fits_fix, FIXMIN, FIXMAX in *. lia.
  - exists (Fix z). split; [reflexivity|]. cbn [wf_num nval].
    assert (Hfit : fits_fix z = true) by (unfold fits_fix, FIXMIN, FIXMAX in *; lia).
    split; [exact Hfit|]. split; [apply canon_fix; exact Hfit|]. split; [reflexivity|exact Hval].
Qed.

Example exact_of_double_int_ex :
  inexact_to_exact 256 8 8 8 (b64_decode 0x43D0000000000000) = XNum (RInt (Big 1 [2 ^ 62]))
  /\ inexact_to_exact 256 8 8 8 (b64_decode 0xC3D0000000000000) = XNum (RInt (Fix (- 2 ^ 62)))
  /\ inexact_to_exact 256 8 8 8 (b64_decode 0x43CFFFFFFFFFFFFF) = XNum (RInt (Fix (2 ^ 62 - 512)))
  /\ inexact_to_exact 256 8 8 8 (b64_decode 0x7FEFFFFFFFFFFFFF)
     = XNum (RInt (Big 1 [0; 0; 0; 0; 0; 0; 0; 0; 0; 0; 0; 0; 0; 0; 0; 18446744073709549568]))
  /\ inexact_to_exact 256 8 8 8 (b64_decode 0x7FF0000000000000) = XNotFinite.
Proof. vm_compute. repeat split; reflexivity. Qed.

(** ** sexp_exact_to_inexact *)
(** x is the value of a finite double *)
Definition repr (x : Q) : Prop :=
  exists m e, Z.abs m < 2 ^ 53 /\ -1074 <= e <= 971 /\ (x == dyq m e)%Q.
(** the single hypothesis on rounding: it is the identity on representable values *)
Definition rnd_exact (rnd : Q -> option Q) : Prop :=
  forall x, repr x -> exists y, rnd x = Some y /\ (y == x)%Q.

Lemma repr_eq x y : (x == y)%Q -> repr x -> repr y.
Proof. intros E (m & e & Hm & He & Hx). exists m, e. repeat split; try assumption; try lia. rewrite <- E. exact Hx. Qed.

(** fixnum: (double)z is exact when z is representable *)
Theorem inexact_of_representable_fixnum rnd qf mf z : rnd_exact rnd -> repr (inject_Z z) ->
  exists y, exact_to_inexact rnd qf mf (EInt (Fix z)) = Some (Some y) /\ (y == inject_Z z)%Q.
Proof.
  intros Hr Hz. cbn [exact_to_inexact]. unfold fl_of_Z. destruct (Hr _ Hz) as (y & -> & Hy). exists y. split; [reflexivity|exact Hy].
Qed.

(** ratio, plain-division path: if both parts convert exactly (shown above for fixnums) and the
    quotient is representable and non-zero, the division is exact and the scaled path is not taken. *)
Theorem inexact_of_representable_ratio_div rnd qf mf n d yn yd :
  rnd_exact rnd ->
  num_to_double rnd n = Some yn -> (yn == inject_Z (nval n))%Q ->
  num_to_double rnd d = Some yd -> (yd == inject_Z (nval d))%Q ->
  nval n <> 0 -> nval d <> 0 -> repr (inject_Z (nval n) / inject_Z (nval d)) ->
  exists y, exact_to_inexact rnd qf mf (ERat n d) = Some (Some y)
            /\ (y == inject_Z (nval n) / inject_Z (nval d))%Q.
Proof.
  intros Hr En Hn Ed Hd Hn0 Hd0 Hq. cbn [exact_to_inexact]. unfold ratio_to_double. rewrite En, Ed.
  cbn [fl_div].
  assert (Hyd0 : ~ (yd == 0)%Q).
  { rewrite Hd. intros E. apply Hd0. unfold Qeq in E. cbn in E. lia. }
  destruct (Qeq_bool yd 0) eqn:Eq0; [apply Qeq_bool_iff in Eq0; contradiction|].
  assert (Eq' : (inject_Z (nval n) / inject_Z (nval d) == yn / yd)%Q) by (rewrite Hn, Hd; reflexivity).
  pose proof (repr_eq _ _ Eq' Hq) as Hq'.
  destruct (Hr _ Hq') as (y & Ey & Hy). rewrite Ey. cbn [fl_finite negb orb fl_is_zero].
  assert (Hy0 : ~ (y == 0)%Q).
  { rewrite Hy, Hn, Hd. intros E. apply Hn0.
    assert (E2 : (inject_Z (nval n) == 0)%Q).
    { rewrite <- (Qmult_div_r (inject_Z (nval n)) (inject_Z (nval d))).
      - rewrite E. ring.
      - intros E3. apply Hd0. unfold Qeq in E3. cbn in E3. lia. }
    unfold Qeq in E2. cbn in E2. lia. }
  destruct (Qeq_bool y 0) eqn:Ey0; [apply Qeq_bool_iff in Ey0; contradiction|].
  cbn [andb]. exists y. split; [reflexivity|]. rewrite Hy, Hn, Hd. reflexivity.
Qed.

(** ** sexp_double_to_ratio_2: the fraction loop *)
Lemma num_mul_fix2_some mf s : exists r, num_mul mf s (Fix 2) = Some r.
Proof.
  destruct s as [x|sg d]; unfold num_mul.
  - destruct (fits_fix (x * 2)); [eexists; reflexivity|]. unfold fixnum_to_bignum. eexists. reflexivity.
  - eexists. reflexivity.
Qed.

(** with fuel > k the loop on r * 2^-k ends, and res'/scale' = (res * 2^k + r) / (scale * 2^k) *)
Lemma d2r_loop_spec : forall fuel mf r k res scale, 0 <= r < 2 ^ k -> 0 <= k -> (Z.to_nat k < fuel)%nat ->
  words res -> res <> [] -> wf_num scale -> 0 < nval scale ->
  exists res' scale', d2r_loop fuel mf r k res scale = Some (res', scale')
    /\ words res' /\ res' <> [] /\ wf_num scale' /\ 0 < nval scale'
    /\ val res' * (nval scale * 2 ^ k) = nval scale' * (val res * 2 ^ k + r).
Proof.
  induction fuel as [|fu IH]; intros mf r k res scale Hr Hk Hf Wr Nr Ws Ps; [lia|].
  cbn [d2r_loop]. destruct (Z.eqb_spec r 0) as [->|Hr0].
  - exists res, scale. split; [reflexivity|]. split; [exact Wr|]. split; [exact Nr|]. split; [exact Ws|].
    split; [exact Ps|]. ring.
  - assert (Hk1 : 1 <= k). { destruct (Z.eq_dec k 0) as [->|]; [change (2 ^ 0) with 1 in Hr; lia|lia]. }
    destruct (num_mul_fix2_some mf scale) as (s1 & Es). rewrite Es. cbv zeta.
    destruct (num_mul_spec mf scale (Fix 2) s1 Ws eq_refl Es) as (Vs & _ & Ws1). cbn [nval] in Vs.
    assert (H2 : isword 2) by (unfold isword, B; lia).
    destruct (fxmul_spec res 2 0 Wr H2) as [Vm Wm]. change (Z.of_nat 0) with 0 in Vm. rewrite Z.pow_0_r in Vm.
    pose proof (fxmul_nonempty res 2 0 Nr) as Nm.
    assert (Hp : 2 ^ k = 2 * 2 ^ (k - 1)). { rewrite <- Z.pow_succ_r by lia. f_equal. lia. }
    assert (Hpp : 0 < 2 ^ (k - 1)) by (apply Z.pow_pos_nonneg; lia).
    remember (2 ^ (k - 1)) as P eqn:HP.
    pose proof (Z.mul_div_le r P Hpp) as Hd1. pose proof (Z.mul_succ_div_gt r P Hpp) as Hd2.
    assert (Hi : 0 <= r / P <= 1).
    { split; [apply Z.div_pos; lia|]. apply Z.lt_succ_r. apply Z.div_lt_upper_bound; lia. }
    assert (Hfu : (Z.to_nat (k - 1) < fu)%nat) by lia.
    destruct (Z.eqb_spec (r / P) 0) as [Hi0|Hi0].
    + rewrite Hi0 in Hd1, Hd2.
      assert (Hrp : 0 <= r < 2 ^ (k - 1)) by lia.
      destruct (IH mf r (k - 1) (fxmul res 2 0) s1 Hrp ltac:(lia) Hfu Wm Nm Ws1 ltac:(lia))
        as (res' & scale' & E & W' & N' & Ws' & Ps' & Inv).
      exists res', scale'. split; [exact E|]. split; [exact W'|]. split; [exact N'|]. split; [exact Ws'|].
      split; [exact Ps'|]. rewrite <- HP in Inv. rewrite Vm, Vs in Inv. rewrite Hp.
      etransitivity; [|etransitivity; [exact Inv|]]; ring.
    + assert (Hi1 : r / P = 1) by lia. rewrite Hi1 in *.
      assert (Hrp : 0 <= r - 1 * P < 2 ^ (k - 1)) by lia.
      assert (H1 : isword 1) by (unfold isword, B; lia).
      destruct (fxadd_spec (fxmul res 2 0) 1 Wm Nm H1) as (Va & Wa & Na).
      destruct (IH mf (r - 1 * P) (k - 1) (fxadd (fxmul res 2 0) 1) s1 Hrp ltac:(lia) Hfu Wa Na Ws1 ltac:(lia))
        as (res' & scale' & E & W' & N' & Ws' & Ps' & Inv).
      exists res', scale'. split; [exact E|]. split; [exact W'|]. split; [exact N'|]. split; [exact Ws'|].
      split; [exact Ps'|]. rewrite <- HP in Inv. rewrite Va, Vm, Vs in Inv. rewrite Hp.
      etransitivity; [|etransitivity; [exact Inv|]]; ring.
Qed.

Lemma rat_ok_transfer r n d n' d' : d <> 0 -> n * d' = n' * d -> rat_ok r n d -> rat_ok r n' d'.
Proof.
  intros Hd He. destruct r as [v|a b| |]; cbn [rat_ok]; unfold same_fraction; try tauto.
  - intros (C & W & S). split; [exact C|]. split; [exact W|].
    apply (Z.mul_reg_r _ _ d Hd). transitivity (nval v * d * d'); [ring|]. rewrite S.
    transitivity (n * d' * 1); [ring|]. rewrite He. ring.
  - intros (C1 & C2 & W1 & W2 & S & R). split; [exact C1|]. split; [exact C2|]. split; [exact W1|].
    split; [exact W2|]. split; [|exact R].
    apply (Z.mul_reg_r _ _ d Hd). transitivity (nval a * d * d'); [ring|]. rewrite S.
    transitivity (n * d' * nval b); [ring|]. rewrite He. ring.
Qed.

Lemma dy_frac_split m k : 0 < k ->
  m = Z.quot m (2 ^ k) * 2 ^ k + (if m <? 0 then -1 else 1) * (Z.abs m mod 2 ^ k).
Proof.
  intros Hk. assert (HP : 0 < 2 ^ k) by (apply Z.pow_pos_nonneg; lia).
  pose proof (Z.quot_rem' m (2 ^ k)) as Hq.
  destruct (Z.ltb_spec m 0) as [Hn|Hn].
  - replace (Z.abs m) with (- m) by lia. rewrite <- Z.rem_mod_nonneg by lia.
    rewrite Z.rem_opp_l' . lia.
  - rewrite Z.abs_eq by lia. rewrite <- Z.rem_mod_nonneg by lia. lia.
Qed.

(** A non-integral finite double: loop fuel 1100 suffices for both loops (<= 256 hex digits, <= 1074 fraction
    bits); the result [r] comes from sexp_ratio_normalize / sexp_add, and [rat_ok r m 2^-e] says: canonical
    parts, lowest terms, denominator > 1, value exactly m * 2^e -- unless one of the inherited fuels rf/qf/mf
    of the gcd loop / long division ran out (r = RFuel / RErr; their sufficiency is ProofsRatioTerm.
    ratio_normalize_total, existential). *)
Theorem exact_of_double_frac fuel rf qf mf m e :
  Z.abs m < 2 ^ 53 -> -1074 <= e <= 971 -> (1100 <= fuel)%nat -> dy_is_int m e = false ->
  exists r, inexact_to_exact fuel rf qf mf (Some (m, e)) = XNum r /\ rat_ok r m (2 ^ (- e)).
Proof.
  intros Hm He Hf Hint. unfold inexact_to_exact. rewrite Hint. cbn [negb]. unfold double_to_ratio_2. rewrite Hint.
  assert (He0 : e < 0). { unfold dy_is_int in Hint. destruct (Z.leb_spec 0 e); [discriminate|lia]. }
  destruct (double_to_bignum_val fuel m e Hm ltac:(lia) ltac:(lia)) as (b & Eb & Wb & Vb & _). rewrite Eb.
  assert (Hz : dy_trunc m e = Z.quot m (2 ^ (- e))).
  { unfold dy_trunc. destruct (Z.leb_spec 0 e); [lia|reflexivity]. }
  rewrite Hz in Vb. remember (- e) as k eqn:Hk.
  assert (HP : 0 < 2 ^ k) by (apply Z.pow_pos_nonneg; lia).
  pose proof (Z.mod_pos_bound (Z.abs m) (2 ^ k) HP) as Hr0. remember (Z.abs m mod 2 ^ k) as r0 eqn:Hr0e.
  destruct (d2r_loop_spec fuel mf r0 k [0] (Fix 1) Hr0 ltac:(lia) ltac:(lia)) as (res' & scale' & E & W' & N' & Ws' & Ps' & Inv).
  { repeat constructor; unfold isword, B; lia. } { congruence. } { reflexivity. } { cbn. lia. }
  rewrite E. cbn [val nval] in Inv.
  remember (if m <? 0 then -1 else 1) as sg eqn:Hsg.
  assert (Wsg : wf_big (sg, res')).
  { unfold wf_big. cbn [fst snd]. split; [subst sg; destruct (m <? 0); auto|]. split; assumption. }
  destruct (normalize_spec sg res' Wsg) as (Vn & _ & Wn).
  destruct (normalize_num_spec scale' Ws') as (Vsn & _ & Wsn).
  pose proof (ratio_normalize_spec rf qf mf _ _ Wn Wsn ltac:(lia)) as Hok. rewrite Vn, Vsn in Hok.
  pose proof (dy_frac_split m k ltac:(lia)) as Hsplit. rewrite <- Hr0e, <- Hsg, <- Vb in Hsplit.
  pose proof (wf_num_big_num b Wb) as Wbn. pose proof (nval_big_num b) as Vbn.
  destruct (ratio_normalize rf qf mf (normalize (Big sg res')) (normalize scale')) as [v|n d| |].
  - eexists. split; [reflexivity|]. destruct Hok as (_ & Wv & Sv). unfold same_fraction in Sv.
    destruct (num_add_spec v (big_num b) Wv Wbn) as (Va & Ca & Wa).
    cbn [rat_ok]. split; [exact Ca|]. split; [exact Wa|]. unfold same_fraction. rewrite Va, Vbn.
    assert (nval v * 2 ^ k = sg * r0); [|rewrite Hsplit; lia].
    apply (Z.mul_reg_l _ _ (nval scale')); [lia|].
    transitivity (nval v * nval scale' * 2 ^ k); [ring|]. rewrite Sv.
    transitivity (sg * (val res' * (1 * 2 ^ k))); [ring|]. rewrite Inv. ring.
  - eexists. split; [reflexivity|]. destruct Hok as (_ & _ & Wn' & Wd' & Sv & Hd1 & _). unfold same_fraction in Sv.
    pose proof (ratio_add_spec rf qf mf (big_num b) (Fix 1) n d Wbn eq_refl Wn' Wd' ltac:(cbn; lia) ltac:(lia)) as Hadd.
    cbn [nval] in Hadd. rewrite Vbn in Hadd.
    apply (rat_ok_transfer _ _ _ m (2 ^ k)) in Hadd; [exact Hadd|lia|].
    assert (nval n * 2 ^ k = sg * r0 * nval d); [|rewrite Hsplit; lia].
    apply (Z.mul_reg_l _ _ (nval scale')); [lia|].
    transitivity (nval n * nval scale' * 2 ^ k); [ring|]. rewrite Sv.
    transitivity (sg * (val res' * (1 * 2 ^ k)) * nval d); [ring|]. rewrite Inv. ring.
  - eexists. split; [reflexivity|exact I].
  - eexists. split; [reflexivity|exact I].
Qed.

Example exact_of_double_frac_ex :
  inexact_to_exact 1100 40 40 40 (b64_decode 0x300000000000)                 (* 3 * 2^-1030, subnormal *)
  = XNum (RRat (Fix 3) (Big 1 ([0; 0; 0; 0; 0; 0; 0; 0; 0; 0; 0; 0; 0; 0; 0; 0] ++ [64])))
  /\ xres_frac (inexact_to_exact 1100 40 40 40 (b64_decode 1)) = Some (1, 2 ^ 1074)
  /\ inexact_to_exact 1100 40 40 40 (b64_decode 0xC00C000000000000) = XNum (RRat (Fix (-7)) (Fix 2)).
Proof. vm_compute. repeat split; reflexivity. Qed.

(** Every finite double (m, e), loop fuel >= 1100: the model of sexp_inexact_to_exact returns an exact number
    [r] whose value is m * 2^e ([rat_ok]: canonical parts -- fixnum iff it fits --, lowest terms), an integer
    exactly when the double is integral.  r = RFuel / RErr is possible only in the non-integral case, from the
    inherited fuels rf/qf/mf (see exact_of_double_frac). *)
Theorem exact_of_double_exact fuel rf qf mf m e :
  Z.abs m < 2 ^ 53 -> -1074 <= e <= 971 -> (1100 <= fuel)%nat ->
  exists r, inexact_to_exact fuel rf qf mf (Some (m, e)) = XNum r
            /\ rat_ok r (fst (dy_val m e)) (snd (dy_val m e))
            /\ (dy_is_int m e = true -> exists v, r = RInt v /\ nval v = dy_trunc m e).
Proof.
  intros Hm He Hf. destruct (dy_is_int m e) eqn:Hint.
  - destruct (exact_of_double_int fuel rf qf mf m e Hm ltac:(lia) ltac:(lia) Hint) as (v & E & W & C & V & F).
    exists (RInt v). split; [exact E|]. split.
    + cbn [rat_ok]. split; [exact C|]. split; [exact W|]. unfold same_fraction. lia.
    + intros _. exists v. split; [reflexivity|exact V].
  - destruct (exact_of_double_frac fuel rf qf mf m e Hm He Hf Hint) as (r & E & Hok).
    exists r. split; [exact E|]. split; [|discriminate].
    unfold dy_is_int in Hint. unfold dy_val. destruct (0 <=? e); [discriminate|]. exact Hok.
Qed.

(** PARTIAL.  Full statement wanted: for every exact z (fixnum or bignum) resp. ratio n/d in lowest terms that
    is representable, exact_to_inexact returns exactly its value, for every rnd with [rnd_exact rnd].
    Proved: fixnums; ratios through the plain division whenever both parts convert exactly (fixnum parts do).
    MISSING: (a) bignum_to_double's Horner loop is exact on a representable bignum (each partial sum
    floor(|z| / 2^(64 j)) is representable and every word of a representable integer has <= 53 significant
    bits); (b) the scaled path of ratio_to_double (denominator 2^j, j >= 1024). *)
Theorem inexact_of_representable_exact_partial rnd qf mf : rnd_exact rnd ->
  (forall z, repr (inject_Z z) ->
     exists y, exact_to_inexact rnd qf mf (EInt (Fix z)) = Some (Some y) /\ (y == inject_Z z)%Q)
  /\ (forall n d, n <> 0 -> d <> 0 -> repr (inject_Z n) -> repr (inject_Z d) -> repr (inject_Z n / inject_Z d) ->
     exists y, exact_to_inexact rnd qf mf (ERat (Fix n) (Fix d)) = Some (Some y)
               /\ (y == inject_Z n / inject_Z d)%Q).
Proof.
  intros Hr. split.
  - intros z Hz. apply inexact_of_representable_fixnum; assumption.
  - intros n d Hn0 Hd0 Hn Hd Hq.
    destruct (Hr _ Hn) as (yn & En & Hyn). destruct (Hr _ Hd) as (yd & Ed & Hyd).
    apply (inexact_of_representable_ratio_div rnd qf mf (Fix n) (Fix d) yn yd Hr); cbn [nval num_to_double]; assumption.
Qed.

Example inexact_of_representable_ex :
  exact_to_inexact (fun x => Some x) 8 8 (ERat (Fix 3) (Fix 4)) = Some (Some (3 # 4))
  /\ exact_to_inexact (fun x => Some x) 8 8 (EInt (Big (-1) [0; 1; 0])) = Some (Some (- 18446744073709551616 # 1))
  /\ rnd_exact (fun x => Some x).
Proof.
  split; [vm_compute; reflexivity|]. split; [vm_compute; reflexivity|].
  intros x _. exists x. split; reflexivity.
Qed.
