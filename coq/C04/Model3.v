(** C04 model, third part: generic quotient / remainder (sexp_quotient, sexp_remainder,
    bignum.c:1705-1860, with the F-C04-3 repair of the FIX_BIG cases), the VM opcodes
    SEXP_OP_QUOTIENT / SEXP_OP_REMAINDER (vm.c:1893-1929) and sexp_bignum_expt (bignum.c:687-705).
    NO proofs in this file. *)
From ChibiV Require Export Common.Words C04.Model C04.Model2.
Local Open Scope Z_scope.

Inductive nres := NV (v : num) | NDivZero | NFuel.

Definition qr_quot (r : qres) : nres :=
  match r with QR q _ => NV (normalize q) | QDivZero => NDivZero | QFuel => NFuel end.
Definition qr_rem (r : qres) : nres :=
  match r with QR _ r => NV (normalize r) | QDivZero => NDivZero | QFuel => NFuel end.

Definition is_one (b : num) : bool := match b with Fix 1 => true | _ => false end.

(** sexp_quotient.  FIX_FIX is sexp_fx_div, i.e. C's truncating [/] on the unboxed values, reboxed
    (wraps for MIN_FIXNUM / -1, which the sign test detects); a zero divisor is caught by the VM
    before the call (a direct C call would trap), modelled as NDivZero.
    FIX_BIG (repaired, fixes/C04-quotient-min-fixnum-by-bignum.patch): through the bignum division. *)
Definition num_quotient (fuel mf : nat) (a b : num) : nres :=
  if is_one b then NV a
  else match a, b with
  | Fix x, Fix y =>
      if y =? 0 then NDivZero
      else let r := wrap_fix (Z.quot x y) in
           if (x <? 0) && (y <? 0) && (r <? 0)
           then qr_quot (quot_rem fuel mf (fixnum_to_bignum x) (fixnum_to_bignum y))
           else NV (Fix r)
  | Fix x, Big sb db => qr_quot (quot_rem fuel mf (fixnum_to_bignum x) (sb, db))
  | Big sa da, Fix y => qr_quot (quot_rem fuel mf (sa, da) (fixnum_to_bignum y))
  | Big sa da, Big sb db => qr_quot (quot_rem fuel mf (sa, da) (sb, db))
  end.

(** sexp_remainder *)
Definition num_remainder (fuel mf : nat) (a b : num) : nres :=
  if is_one b then NV (Fix 0)
  else match a, b with
  | Fix x, Fix y => if y =? 0 then NDivZero else NV (Fix (Z.rem x y))
  | Fix x, Big sb db => qr_rem (quot_rem fuel mf (fixnum_to_bignum x) (sb, db))
  | Big sa da, Fix y => match fxrem (sa, da) y with Some z => NV (Fix z) | None => NDivZero end
  | Big sa da, Big sb db => qr_rem (quot_rem fuel mf (sa, da) (sb, db))
  end.

(** SEXP_OP_QUOTIENT / SEXP_OP_REMAINDER *)
Definition vm_quotient (fuel mf : nat) (a b : num) : nres :=
  match a, b with
  | Fix x, Fix y =>
      if y =? 0 then NDivZero
      else let r := wrap_fix (Z.quot x y) in
           if (x <? 0) && (y <? 0) && (r <? 0)
           then num_quotient fuel mf (big_num (fixnum_to_bignum x)) b
           else NV (Fix r)
  | _, _ => num_quotient fuel mf a b
  end.

Definition vm_remainder (fuel mf : nat) (a b : num) : nres :=
  match a, b with
  | Fix x, Fix y => if y =? 0 then NDivZero else NV (Fix (Z.rem x y))
  | _, _ => num_remainder fuel mf a b
  end.

(** sexp_bignum_expt for a non-negative fixnum exponent: square-and-multiply; like the C loop the
    model squares [acc] once more after the last bit. *)
Fixpoint expt_loop (fuel mf : nat) (e : Z) (res acc : big) {struct fuel} : option big :=
  match fuel with
  | O => None
  | S f =>
      if e =? 0 then Some res
      else match (if Z.odd e then bignum_mul mf res acc else Some res) with
           | None => None
           | Some res' =>
               match bignum_mul mf acc acc with
               | None => None
               | Some acc' => expt_loop f mf (e / 2) res' acc'
               end
           end
  end.

Definition bignum_expt (fuel mf : nat) (a : big) (e : Z) : option num :=
  match expt_loop fuel mf e (fixnum_to_bignum 1) a with
  | Some r => Some (normalize (big_num r))
  | None => None
  end.

(** ** number printing / parsing of bignums
    sexp_write_bignum's digit loop (bignum.c:394-395): [while (!zerop(b)) data[--i] = hex_digit(fxdiv(b, base, 0))]
    on a positive copy of the number; digits come out least significant first and are stored from
    the end of the buffer, i.e. the result is most-significant-first.  fuel = the buffer length str_len. *)
Definition zerop (a : list Z) : bool := forallb (fun x => x =? 0) a.

Fixpoint write_loop (fuel : nat) (b : list Z) (base : Z) (acc : list Z) {struct fuel} : option (list Z) :=
  if zerop b then Some acc
  else match fuel with
       | O => None
       | S f => let '(q, r) := fxdiv b base 0 in write_loop f q base (r :: acc)
       end.

Definition write_bignum_digits (fuel : nat) (a : list Z) (base : Z) : option (list Z) :=
  match write_loop fuel a base [] with
  | Some [] => Some [0]            (* if (i == str_len) data[--i] = '0' *)
  | r => r
  end.

(** sexp_read_bignum's digit loop (bignum.c:308-317): res = fxmul(res, res, base, 0) in place, then
    fxadd(res, digit); res starts as SEXP_INIT_BIGNUM_SIZE = 2 words with data[0] = init *)
Definition read_bignum_digits (init base : Z) (ds : list Z) : list Z :=
  fold_left (fun res d => fxadd (fxmul res base 0) d) ds [init; 0].

(** sexp_read_number's fixnum accumulation with hand-over (sexp.c:2967-2980).  [tmp] is computed
    before the range test; in C that product can exceed 64 bits (signed overflow) exactly when the
    first disjunct of the test is already true, so the value of tmp is then irrelevant. *)
Fixpoint read_number_digits (base : Z) (ds : list Z) (v : Z) {struct ds} : num :=
  match ds with
  | [] => Fix v
  | d :: rest =>
      let tmp := v * base + d in
      if (FIXMAX / base <? v) || (tmp <? v) || (tmp >? FIXMAX)
      then normalize (Big 1 (read_bignum_digits v base ds))
      else read_number_digits base rest tmp
  end.
