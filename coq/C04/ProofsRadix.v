(** Printing and parsing of bignums in any radix: the digit loops compute / consume the Horner
    value exactly, hence parse (print a) = a. *)
From ChibiV Require Import Common.Words C04.Model C04.Model2 C04.Model3 C04.Spec
  C04.Proofs C04.ProofsFx.
From Coq Require Import ZifyBool.
Local Open Scope Z_scope.

Definition horner (base : Z) (ds : list Z) (v0 : Z) : Z := fold_left (fun acc d => acc * base + d) ds v0.

Lemma of_radix_horner base ds : of_radix base ds = horner base ds 0.
Proof. reflexivity. Qed.

Definition isdigit (base d : Z) : Prop := 0 <= d < base.

Lemma zerop_val a : zerop a = true -> val a = 0.
Proof.
  unfold zerop. induction a as [|x a IH]; cbn [forallb val]; [reflexivity|].
  intros H. apply andb_prop in H. destruct H as [Hx Ha]. apply Z.eqb_eq in Hx. rewrite IH by assumption. lia.
Qed.

Lemma write_loop_spec : forall fuel b base acc ds,
  words b -> b <> [] -> 0 < base < B -> Forall (isdigit base) acc ->
  write_loop fuel b base acc = Some ds ->
  horner base ds 0 = horner base acc (val b) /\ Forall (isdigit base) ds.
Proof.
  induction fuel as [|f IH]; intros b base acc ds Hb Hn Hbase Hacc H; cbn [write_loop] in H.
  - destruct (zerop b) eqn:Hz; [|discriminate]. assert (ds = acc) as -> by congruence.
    rewrite (zerop_val b Hz). split; [reflexivity|exact Hacc].
  - destruct (zerop b) eqn:Hz.
    + assert (ds = acc) as -> by congruence. rewrite (zerop_val b Hz). split; [reflexivity|exact Hacc].
    + destruct (fxdiv b base 0) as [q r] eqn:E.
      apply fxdiv_spec in E; [|assumption|assumption|assumption]. destruct E as (Hv & Hr & Hq & Hl).
      apply IH in H; [|exact Hq|intros ->; destruct b; [congruence|cbn in Hl; lia]|exact Hbase
                       |constructor; [exact Hr|exact Hacc]].
      destruct H as [Hh Hd]. split; [|exact Hd]. rewrite Hh. unfold horner. cbn [fold_left]. rewrite Hv. reflexivity.
Qed.

Theorem write_bignum_digits_spec fuel a base ds : words a -> a <> [] -> 2 <= base < B ->
  write_bignum_digits fuel a base = Some ds ->
  of_radix base ds = val a /\ Forall (isdigit base) ds /\ ds <> [].
Proof.
  intros Ha Hn Hb H. unfold write_bignum_digits in H.
  destruct (write_loop fuel a base []) as [l|] eqn:E; [|discriminate].
  apply write_loop_spec in E; [|assumption|assumption|lia|constructor]. destruct E as [Hh Hd].
  unfold horner in Hh. cbn [fold_left] in Hh. rewrite of_radix_horner.
  destruct l as [|d l].
  - assert (ds = [0]) as -> by congruence. unfold horner in *. cbn [fold_left] in *.
    split; [lia|]. split; [constructor; [unfold isdigit; lia|constructor]|congruence].
  - assert (ds = d :: l) as -> by congruence. split; [exact Hh|]. split; [exact Hd|congruence].
Qed.

Lemma read_bignum_fold base : 0 <= base < B -> forall ds res,
  words res -> res <> [] -> Forall (isdigit base) ds ->
  let r := fold_left (fun res d => fxadd (fxmul res base 0) d) ds res in
  val r = horner base ds (val res) /\ words r /\ r <> [].
Proof.
  intros Hb. induction ds as [|d ds IH]; intros res Hw Hn Hd; cbv zeta; cbn [fold_left].
  - unfold horner. cbn [fold_left]. tauto.
  - inversion Hd as [|? ? Hd0 Hds]; subst.
    destruct (fxmul_spec res base 0 Hw ltac:(unfold isword; lia)) as [Vm Wm].
    pose proof (fxmul_nonempty res base 0 Hn) as Nm.
    destruct (fxadd_spec _ d Wm Nm ltac:(unfold isdigit, isword in *; lia)) as (Va & Wa & Na).
    specialize (IH _ Wa Na Hds). cbv zeta in IH. destruct IH as (V & W & N).
    split; [|split; assumption]. rewrite V. unfold horner. cbn [fold_left]. f_equal.
    rewrite Va, Vm. cbn [Z.of_nat]. rewrite Z.pow_0_r. ring.
Qed.

Theorem read_bignum_digits_spec init base ds : isword init -> 0 <= base < B -> Forall (isdigit base) ds ->
  val (read_bignum_digits init base ds) = horner base ds init
  /\ words (read_bignum_digits init base ds) /\ read_bignum_digits init base ds <> [].
Proof.
  intros Hi Hb Hd. unfold read_bignum_digits.
  assert (Hw : words [init; 0]) by (constructor; [exact Hi|constructor; [apply isword_0|constructor]]).
  destruct (read_bignum_fold base Hb ds [init; 0] Hw ltac:(congruence) Hd) as (V & W & N).
  split; [|split; assumption]. rewrite V. f_equal. cbn [val]. ring.
Qed.

(** parse (print a) = a, for every radix 2..36 (indeed any word-sized radix) *)
Theorem bignum_radix_roundtrip fuel a base ds : words a -> a <> [] -> 2 <= base < B ->
  write_bignum_digits fuel a base = Some ds ->
  val (read_bignum_digits 0 base ds) = val a.
Proof.
  intros Ha Hn Hb H. apply write_bignum_digits_spec in H; [|assumption|assumption|assumption].
  destruct H as (Hv & Hd & _).
  destruct (read_bignum_digits_spec 0 base ds isword_0 ltac:(lia) Hd) as (V & _). rewrite V, <- Hv. reflexivity.
Qed.

(** the reader's fixnum accumulation hands over to the bignum loop without losing anything *)
Theorem read_number_digits_spec base : 2 <= base <= 36 -> forall ds v,
  0 <= v <= FIXMAX -> Forall (isdigit base) ds ->
  nval (read_number_digits base ds v) = horner base ds v /\ canon (read_number_digits base ds v).
Proof.
  intros Hb. induction ds as [|d ds IH]; intros v Hv Hd; cbn [read_number_digits].
  - unfold horner. cbn [fold_left nval]. split; [reflexivity|]. apply canon_fix. unfold fits_fix, FIXMIN, FIXMAX in *. lia.
  - inversion Hd as [|? ? Hd0 Hds]; subst.
    destruct ((FIXMAX / base <? v) || (v * base + d <? v) || (v * base + d >? FIXMAX)) eqn:Hc.
    + destruct (read_bignum_digits_spec v base (d :: ds) ltac:(unfold isword, FIXMAX, B in *; lia)
                  ltac:(unfold B; lia) Hd) as (V & W & N).
      destruct (normalize_spec 1 (read_bignum_digits v base (d :: ds)) ltac:(split; [cbn [fst]; auto|split; assumption])) as (V2 & C2 & _).
      rewrite V2, V. split; [ring|exact C2].
    + unfold isdigit in Hd0.
      assert (0 <= v * base + d <= FIXMAX) by (unfold FIXMAX in *; nia).
      destruct (IH (v * base + d) ltac:(assumption) Hds) as [V C]. split; [|exact C].
      rewrite V. unfold horner. reflexivity.
Qed.

Example radix_example :
  write_bignum_digits 50 [0; 1] 10 = Some [1;8;4;4;6;7;4;4;0;7;3;7;0;9;5;5;1;6;1;6]
  /\ read_bignum_digits 0 10 [1;8;4;4;6;7;4;4;0;7;3;7;0;9;5;5;1;6;1;6] = [0; 1]
  /\ read_number_digits 16 [4;0;0;0;0;0;0;0;0;0;0;0;0;0;0;0] 0 = Big 1 [FIXMAX + 1; 0].
Proof. vm_compute. repeat split; reflexivity. Qed.
