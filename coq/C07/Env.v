(** C07 — identifiers, environments and identifier resolution (executable model, no proofs here).

    Mirrors, for the default build configuration
      SEXP_USE_RENAME_BINDINGS = 1, SEXP_USE_STRICT_TOPLEVEL_BINDINGS = 1,
      SEXP_USE_FLAT_SYNTACTIC_CLOSURES = 0, SEXP_USE_UNWRAPPED_TOPLEVEL_BINDINGS = 0
    (the harness prints these four constants of the scratch build and the check compares them):
      sexp_id_name / sexp_idp            eval.c:598-605
      sexp_env_cell_loc1                 eval.c:84-103
      sexp_env_cell_loc / sexp_env_cell  eval.c:105-124
      sexp_strip_synclos                 eval.c:638-664   (without the depth bound 10000)
      sexp_identifier_eq_op              eval.c:666-695
      sexp_extend_synclo_env             eval.c:235-255   ([copy_frame], [extend_synclo_env]; round 3)

    Object identity.  The C code compares keys and cells with pointer equality.  Here every syntactic
    closure carries an allocation number [id] and every binding cell a number [cid]; two closures
    (cells) are "the same object" iff the numbers agree ([key_eqb], [cell_eqb]).  Symbols are interned,
    so a symbol is identified by its name (a number).
    Environments are lists of frames, innermost first (sexp_env_parent = tail of the list); a closure
    holds the environment it closes over by value, i.e. a snapshot: mutation of an environment after a
    closure captured it is outside this model. *)
From Coq Require Import NArith List Bool.
Import ListNotations.

(** what a binding cell holds, as far as analyze (eval.c:1085-1226) distinguishes it *)
Inductive val : Type :=
| VCore (c : N)       (* a core form; numbering below *)
| VMacro (m : N)      (* a macro; index into the macro table of Expand.v *)
| VLocal              (* a lambda parameter (value = the lambda) *)
| VOther.             (* anything else: procedure, opcode, undefined top-level variable ... *)

Record cell : Type := mkcell { cid : N; cval : val }.

Inductive sexp : Type :=
| Sym (s : N)
| Lit (n : N)
| Lst (l : list sexp)
| Clo (id : N) (env : list frame) (fv : list sexp) (e : sexp)   (* sexp.h:545-547: env, free_vars, expr *)
with frame : Type :=
| Frame (renames : list (sexp * cell)) (bindings : list (sexp * cell)).  (* sexp.h:527-532 *)

Definition env := list frame.
Definition f_renames (f : frame) := match f with Frame r _ => r end.
Definition f_bindings (f : frame) := match f with Frame _ b => b end.

(** pointer equality of keys: `sexp_car(ls) == key` *)
Definition key_eqb (a b : sexp) : bool :=
  match a, b with
  | Sym s, Sym t => N.eqb s t
  | Clo i _ _ _, Clo j _ _ _ => N.eqb i j
  | _, _ => false
  end.

Definition cell_eqb (a b : cell) : bool := N.eqb (cid a) (cid b).

(** sexp_id_name, eval.c:598-601 *)
Fixpoint id_name (x : sexp) : sexp :=
  match x with Clo _ _ _ e => id_name e | _ => x end.

(** sexp_idp, eval.c:603-605 *)
Definition idp (x : sexp) : bool :=
  match id_name x with Sym _ => true | _ => false end.

(** sexp_memq on a list of keys *)
Fixpoint memq (x : sexp) (l : list sexp) : bool :=
  match l with [] => false | y :: r => if key_eqb y x then true else memq x r end.

(** one alist (renames or bindings) of a frame: first entry whose key is the object [k] *)
Fixpoint lookup_list (k : sexp) (l : list (sexp * cell)) : option cell :=
  match l with
  | [] => None
  | (k', c) :: r => if key_eqb k' k then Some c else lookup_list k r
  end.

(** the body of the do-loop of sexp_env_cell_loc1 for one frame: renames first, then bindings *)
Definition frame_lookup (k : sexp) (f : frame) : option cell :=
  match lookup_list k (f_renames f) with
  | Some c => Some c
  | None => lookup_list k (f_bindings f)
  end.

(** sexp_env_cell_loc1, eval.c:84-103 *)
Fixpoint cell_loc1 (rho : env) (k : sexp) (localp : bool) : option cell :=
  match rho with
  | [] => None
  | f :: rho' =>
      match frame_lookup k f with
      | Some c => Some c
      | None => if localp then None else cell_loc1 rho' k localp
      end
  end.

(** the while-loop of sexp_env_cell_loc, eval.c:113-118, entered when the key itself was not found:
    peel one closure layer; continue in the closure's environment unless the context's free-variable
    list redirected the lookup ([redirected], `sexp_pairp(ls)`) or the inner name is one of the
    closure's own free names. *)
Fixpoint peel (rho : env) (redirected : bool) (k : sexp) (localp : bool) : option cell :=
  match k with
  | Clo _ e fv x =>
      let rho' := if negb redirected && negb (memq x fv) then e else rho in
      match cell_loc1 rho' x localp with
      | Some c => Some c
      | None => peel rho' redirected x localp
      end
  | _ => None
  end.

(** sexp_context_fv: free names of the syntactic closures being analysed, interleaved with the
    environments in which those names must be looked up (pushed at eval.c:1201-1206) *)
Inductive fvitem : Type := FvId (x : sexp) | FvEnv (e : env).

(** sexp_memq(ctx, name, sexp_context_fv(ctx)): the tail starting at the first occurrence *)
Fixpoint fv_memq (n : sexp) (l : list fvitem) : list fvitem :=
  match l with
  | [] => []
  | FvId x :: r => if key_eqb x n then l else fv_memq n r
  | FvEnv _ :: r => fv_memq n r
  end.

(** the for-loop at eval.c:107-111: first environment at or after that position *)
Fixpoint fv_first_env (l : list fvitem) : option env :=
  match l with
  | [] => None
  | FvEnv e :: _ => Some e
  | FvId _ :: r => fv_first_env r
  end.

(** sexp_env_cell_loc / sexp_env_cell, eval.c:105-124 *)
Definition env_cell (cfv : list fvitem) (rho : env) (k : sexp) (localp : bool) : option cell :=
  let r := fv_first_env (fv_memq (id_name k) cfv) in
  let rho0 := match r with Some e => e | None => rho end in
  let redirected := match r with Some _ => true | None => false end in
  match cell_loc1 rho0 k localp with
  | Some c => Some c
  | None => peel rho0 redirected k localp
  end.

(** eval.c:242-249, one iteration of the copy loop of sexp_extend_synclo_env: a fresh env object that
    SHARES the bindings list and the renames list of the frame it copies (sexp_env_syntactic_p = 1
    matters to define only, which is outside this model).  The imported bindings of a program or library
    are exactly the entries of the renames lists (sexp_env_import_op, eval.c:2656-2720). *)
Definition copy_frame (f : frame) : frame := Frame (f_renames f) (f_bindings f).

(** sexp_extend_synclo_env (ctx, env), eval.c:235-255: with no free names anywhere in the context
    (sexp_context_fv(ctx) not a pair) the closure's environment [e] is used as it is; otherwise every
    frame of it is copied and the context's current environment [cenv] becomes the parent of the last
    copy.  ([e] is never the NULL environment in chibi: for it the C code returns the OOM error object.) *)
Definition extend_synclo_env (cfv : list fvitem) (cenv e : env) : env :=
  match cfv with
  | [] => e
  | _ :: _ => map copy_frame e ++ cenv
  end.

(** the context change made by analyze when it meets a syntactic closure (env E, free names fv) around a
    non-identifier, eval.c:1216-1224: if the closure has free names the current environment is pushed
    on the fv list and the names are put in front of it; then the environment is extended as above *)
Definition enter_fv (cfv : list fvitem) (rho : env) (fv : list sexp) : list fvitem :=
  match fv with [] => cfv | _ :: _ => map FvId fv ++ FvEnv rho :: cfv end.
Definition enter_env (cfv : list fvitem) (rho E : env) (fv : list sexp) : env :=
  extend_synclo_env (enter_fv cfv rho fv) rho E.

(** sexp_strip_synclos, eval.c:638-664 (depth bound SEXP_STRIP_SYNCLOS_BOUND not modelled) *)
Fixpoint strip (x : sexp) : sexp :=
  match x with
  | Clo _ _ _ e => strip e
  | Lst l => Lst (map strip l)
  | _ => x
  end.

(** sexp_identifier_eq_op, eval.c:666-695, with SEXP_USE_STRICT_TOPLEVEL_BINDINGS = 1:
      cell1 && cell1 == cell2                        -> #t
      !cell1 && !cell2 && id1 == id2                 -> #t
      strip(id1) == strip(id2) && !cell1 && !cell2   -> #t
      otherwise #f *)
Definition identifier_eq (cfv : list fvitem) (e1 : env) (id1 : sexp) (e2 : env) (id2 : sexp) : bool :=
  match env_cell cfv e1 id1 false, env_cell cfv e2 id2 false with
  | Some c1, Some c2 => cell_eqb c1 c2
  | None, None => key_eqb id1 id2 || key_eqb (id_name id1) (id_name id2)
  | _, _ => false
  end.

(** SPEC side: the binding of a bare symbol, ignoring closures completely *)
Definition sym_cell (rho : env) (s : N) : option cell := cell_loc1 rho (Sym s) false.
