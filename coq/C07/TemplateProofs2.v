(** C07 — expand-template, second file (round 4): the renamed identifiers of an instantiated template are
    identifiers written in the template (nothing else is ever inserted).  The evaluation lemma is generic in a
    structural predicate on terms. *)
From Coq Require Import NArith List Bool Arith Lia.
From ChibiV Require Import C07.Template C07.TemplateProofs.
Import ListNotations.

Section Generic.
Variable F : tm -> bool.
Hypothesis Fpair : forall a d, F (TPair a d) = F a && F d.
Hypothesis Fvec : forall l, F (TVec l) = F l.
Hypothesis Fnil : F TNil = true.

Fixpoint code_ok (k : code) : bool :=
  match k with
  | CVar _ => true
  | CRen s => F (TRen s)
  | CConst t => F t
  | CCons a d => code_ok a && code_ok d
  | CVec x => code_ok x
  | CMap _ b => code_ok b
  | CFlat x => code_ok x
  | CAppend a b => code_ok a && code_ok b
  end.

Definition okt (x : tm) : Prop := F x = true.

Lemma iter_flat_ok : forall n k, code_ok (iter_flat n k) = code_ok k.
Proof. induction n; intros k; cbn [iter_flat]; auto. rewrite IHn. reflexivity. Qed.

Lemma F_tm_list : forall t, F t = true -> Forall okt (tm_list t).
Proof.
  induction t; cbn [tm_list]; intros H; try constructor.
  - rewrite Fpair in H. apply andb_true_iff in H. destruct H as [H1 H2]. exact H1.
  - rewrite Fpair in H. apply andb_true_iff in H. destruct H as [H1 H2]. auto.
Qed.

Lemma of_list_ok : forall l, Forall okt l -> F (of_list l) = true.
Proof.
  induction 1 as [|x l Hx Hl IH]; [exact Fnil|].
  change (of_list (x :: l)) with (TPair x (of_list l)). rewrite Fpair, Hx. exact IH.
Qed.

Lemma tm_app_ok : forall x y, Forall okt (tm_list x) -> F y = true -> F (tm_app x y) = true.
Proof.
  intros x y. unfold tm_app. generalize (tm_list x). induction l as [|a l IH]; intros HF Hy; cbn [fold_right]; auto.
  inversion HF as [|? ? Ha Hl]; subst. rewrite Fpair, Ha. cbn [andb]. auto.
Qed.

Lemma eval_ok : forall k rho out,
  code_ok k = true -> (forall s v, assocN s rho = Some v -> F v = true) -> eval k rho = Some out -> F out = true.
Proof.
  induction k as [s|s|t|a IHa d IHd|x IHx|vs body IHb|x IHx|a IHa b IHb]; intros rho out Hc Hr He;
    cbn [eval code_ok] in *.
  - eapply Hr; eauto.
  - inversion He; subst; exact Hc.
  - inversion He; subst; auto.
  - apply andb_true_iff in Hc. destruct Hc as [Hc1 Hc2].
    destruct (eval a rho) eqn:Ea; [|discriminate]. destruct (eval d rho) eqn:Ed; [|discriminate].
    inversion He; subst. rewrite Fpair, (IHa _ _ Hc1 Hr Ea), (IHd _ _ Hc2 Hr Ed). reflexivity.
  - destruct (eval x rho) eqn:Ex; [|discriminate]. inversion He; subst. rewrite Fvec. eauto.
  - destruct (map_opt (fun v => assocN v rho) vs) as [vals|] eqn:Ev; [|discriminate].
    destruct (map_opt _ (seq 0 (min_len (map tm_list vals)))) as [outs|] eqn:Eo; [|discriminate].
    inversion He; subst. apply of_list_ok.
    assert (Hvals : Forall okt vals).
    { eapply map_opt_Forall; [exact Ev|]. intros v b _ Hb. cbv beta in Hb. unfold okt. eapply Hr; exact Hb. }
    eapply map_opt_Forall; [exact Eo|]. intros i o _ Ho. cbv beta in Ho.
    eapply IHb; [exact Hc| |exact Ho].
    intros s v Hs. rewrite assocN_app in Hs.
    destruct (assocN s (combine vs (row (map tm_list vals) i))) eqn:Ec.
    + inversion Hs; subst. apply assocN_combine_In in Ec. unfold row in Ec.
      apply in_map_iff in Ec. destruct Ec as [col [Hn Hcol]].
      apply in_map_iff in Hcol. destruct Hcol as [val [Hv Hin]]. subst col.
      rewrite Forall_forall in Hvals. specialize (Hvals _ Hin).
      apply F_tm_list in Hvals. rewrite Forall_forall in Hvals.
      destruct (nth_in_or_default i (tm_list val) TNil) as [Hi|Hi].
      * rewrite <- Hn. apply Hvals; exact Hi.
      * rewrite <- Hn. rewrite Hi. exact Fnil.
    + eapply Hr; eauto.
  - destruct (eval x rho) eqn:Ex; [|discriminate]. inversion He; subst.
    specialize (IHx _ _ Hc Hr Ex). apply F_tm_list in IHx.
    induction IHx as [|y l Hy Hl IH]; cbn [fold_right]; auto.
    apply tm_app_ok; auto. apply F_tm_list; exact Hy.
  - apply andb_true_iff in Hc. destruct Hc as [Hc1 Hc2].
    destruct (eval a rho) eqn:Ea; [|discriminate]. destruct (eval b rho) eqn:Eb; [|discriminate].
    inversion He; subst. apply tm_app_ok; eauto. apply F_tm_list; eauto.
Qed.
End Generic.

(** every renamed identifier of [t] is in X *)
Fixpoint rens_in (X : list N) (t : tm) : bool :=
  match t with
  | TRen s => tmemN s X
  | TPair a d => rens_in X a && rens_in X d
  | TVec l => rens_in X l
  | _ => true
  end.

Lemma tmemN_In : forall s X, In s X -> tmemN s X = true.
Proof.
  intros s X H. unfold tmemN. apply existsb_exists. exists s. split; [exact H|apply N.eqb_refl].
Qed.

Lemma syms_ellipsis_tail : forall c t s, In s (syms (ellipsis_tail c t)) -> In s (syms t).
Proof.
  induction t as [s0|s0|n|u| |t1 IH1 t2 IH2|l IHl]; intros s H; cbn [ellipsis_tail syms] in *; try contradiction.
  apply in_or_app. right.
  destruct t2 as [s0|s0|n|u| |b r|l]; try exact H.
  destruct (mark c b); [apply IH2; exact H|exact H].
Qed.

Lemma compile_rens : forall fuel c vars t dim esc k X,
  compile c vars fuel t dim esc = TOK k ->
  (forall s, In s (syms t) -> tmemN s X = true) ->
  code_ok (rens_in X) k = true.
Proof.
  induction fuel as [|f IH]; intros c vars t dim esc k X H HX; [discriminate|].
  cbn [compile] in H. destruct t as [s|s|n|u| |t1 t2|l].
  - destruct (assocN s vars); [destruct (Nat.leb n dim)|]; inversion H; subst; cbn [code_ok rens_in]; auto.
    apply HX. left; reflexivity.
  - discriminate.
  - inversion H; reflexivity.
  - discriminate.
  - inversion H; reflexivity.
  - assert (H1 : forall s, In s (syms t1) -> tmemN s X = true)
      by (intros s Hs; apply HX; cbn [syms]; apply in_or_app; left; exact Hs).
    assert (H2 : forall s, In s (syms t2) -> tmemN s X = true)
      by (intros s Hs; apply HX; cbn [syms]; apply in_or_app; right; exact Hs).
    destruct (escape_p c (TPair t1 t2) && negb esc).
    + eapply IH; [exact H|]. intros s Hs. apply H2.
      destruct t2 as [s0|s0|n|u| |x r|l]; try exact Hs.
      destruct r; try exact Hs. cbn [syms]. apply in_or_app. left; exact Hs.
    + destruct (ellipsis_p c (TPair t1 t2) && negb esc).
      * cbv zeta in H. destruct (fv vars (dim + ellipsis_depth c (TPair t1 t2)) t1 []) eqn:Efv; [discriminate|].
        destruct ((match t2 with TPair _ TNil => true | _ => false end) && is_sym t1).
        -- eapply IH; eauto.
        -- destruct (compile c vars f t1 (dim + ellipsis_depth c (TPair t1 t2)) esc) eqn:E1; [|discriminate].
           assert (Ht : forall s, In s (syms (ellipsis_tail c (TPair t1 t2))) -> tmemN s X = true)
             by (intros s Hs; apply HX; apply (syms_ellipsis_tail c); exact Hs).
           destruct (ellipsis_tail c (TPair t1 t2)) eqn:Et;
           try (match type of H with context [compile c vars f ?x dim esc] =>
                       destruct (compile c vars f x dim esc) eqn:E2; [|discriminate] end;
                     inversion H; subst; cbn [code_ok]; rewrite iter_flat_ok; cbn [code_ok];
                     rewrite (IH _ _ _ _ _ _ X E1 H1), (IH _ _ _ _ _ _ X E2 Ht); reflexivity).
           inversion H; subst. rewrite iter_flat_ok. cbn [code_ok]. eapply IH; eauto.
      * destruct (compile c vars f t1 dim esc) eqn:E1; [|discriminate].
        destruct (compile c vars f t2 dim esc) eqn:E2; [|discriminate].
        inversion H; subst. cbn [code_ok]. rewrite (IH _ _ _ _ _ _ X E1 H1), (IH _ _ _ _ _ _ X E2 H2). reflexivity.
  - destruct (compile c vars f l dim esc) eqn:E1; [|discriminate]. inversion H; subst. cbn [code_ok].
    eapply IH; eauto.
Qed.

(** the renamed identifiers of the output are identifiers written in the template (or came with the values) *)
Lemma template_rens_from_template : forall c vars fuel t rho out,
  (forall s v, assocN s rho = Some v -> rens_in (syms t) v = true) ->
  expand_template c vars fuel t rho = Some out -> rens_in (syms t) out = true.
Proof.
  intros c vars fuel t rho out Hr H. unfold expand_template in H.
  destruct (compile c vars fuel t 0 false) eqn:Ek; [|discriminate].
  eapply (eval_ok (rens_in (syms t))); try reflexivity; [|exact Hr|exact H].
  eapply compile_rens; [exact Ek|]. intros s Hs. apply tmemN_In; exact Hs.
Qed.

Example ex_rens :
  rens_in (syms (L [TSym 10%N; TSym 1%N])) (L [TRen 10%N; TUser 7%N]) = true
  /\ rens_in (syms (L [TSym 10%N; TSym 1%N])) (L [TRen 11%N]) = false.
Proof. vm_compute. auto. Qed.

(** *** one ellipsis after an ellipsis-free sub-template: (a ...) is the list of substitution instances of a, one
    per repetition, the ellipsis variables bound to the elements of that repetition *)
Lemma fv_vars : forall vars dim x acc v,
  In v (fv vars dim x acc) -> In v acc \/ assocN v vars <> None.
Proof.
  intros vars dim. induction x as [s|s|n|u| |t1 IH1 t2 IH2|l IHl]; intros acc v H; cbn [fv] in H; auto.
  - destruct (negb (tmemN s acc) && match assocN s vars with Some d => Nat.leb dim d | None => false end) eqn:E; auto.
    destruct H as [H|H]; auto. subst s. right.
    apply andb_true_iff in E. destruct E as [_ E]. destruct (assocN v vars); [discriminate|discriminate].
  - apply IH1 in H. destruct H as [H|H]; auto.
Qed.

Lemma map_opt_total : forall (A B : Type) (f : A -> option B) (g : A -> B) l,
  (forall a, In a l -> f a = Some (g a)) -> map_opt f l = Some (map g l).
Proof.
  intros A B f g. induction l as [|a l IH]; intros H; cbn [map_opt map]; auto.
  rewrite (H a (or_introl eq_refl)), IH; auto. intros a0 Ha. apply H. right; exact Ha.
Qed.

Lemma map_opt_some : forall (A B : Type) (f : A -> option B) l,
  (forall a, In a l -> f a <> None) -> exists r, map_opt f l = Some r.
Proof.
  intros A B f. induction l as [|a l IH]; intros H; cbn [map_opt]; [eexists; reflexivity|].
  destruct (f a) eqn:Ea; [|exfalso; apply (H a (or_introl eq_refl)); exact Ea].
  destruct IH as [r Hr]; [intros a0 Ha; apply H; right; exact Ha|]. rewrite Hr. eexists; reflexivity.
Qed.

Lemma single_ellipsis_spec : forall f c vars a dim rho k,
  ell_off c = false -> nomark c a = true -> is_sym a = false ->
  (forall s d, assocN s vars = Some d -> assocN s rho <> None) ->
  compile c vars (S f) (TPair a (TPair (TSym (ell c)) TNil)) dim false = TOK k ->
  exists vals,
    map_opt (fun v => assocN v rho) (fv vars (dim + 1) a []) = Some vals /\
    eval k rho = Some (of_list (map (fun i => subst vars (combine (fv vars (dim + 1) a []) (row (map tm_list vals) i) ++ rho) a)
                                    (seq 0 (min_len (map tm_list vals))))).
Proof.
  intros f c vars a dim rho k Hoff Hm Hs Hv H.
  assert (Hmark : mark c (TSym (ell c)) = true) by (cbn [mark]; rewrite Hoff, N.eqb_refl; reflexivity).
  cbn [compile] in H.
  assert (He : escape_p c (TPair a (TPair (TSym (ell c)) TNil)) = false) by (cbn [escape_p]; apply nomark_mark; exact Hm).
  assert (Hl : ellipsis_p c (TPair a (TPair (TSym (ell c)) TNil)) = true) by (cbn [ellipsis_p]; exact Hmark).
  assert (Hd : ellipsis_depth c (TPair a (TPair (TSym (ell c)) TNil)) = 1) by (cbn [ellipsis_depth]; rewrite Hmark; reflexivity).
  assert (Ht : ellipsis_tail c (TPair a (TPair (TSym (ell c)) TNil)) = TNil) by (cbn [ellipsis_tail]; rewrite Hmark; reflexivity).
  rewrite He, Hl in H. cbn [andb negb] in H. cbv zeta in H. rewrite Hd, Ht, Hs in H. cbn [andb] in H.
  destruct (fv vars (dim + 1) a []) as [|v0 evs0] eqn:Efv; [discriminate|]. rewrite <- Efv in *.
  destruct (compile c vars f a (dim + 1) false) as [once|] eqn:E1; [|discriminate].
  cbn [iter_flat Nat.sub] in H. inversion H; subst k. clear H.
  destruct (map_opt_some _ _ (fun v => assocN v rho) (fv vars (dim + 1) a [])) as [vals Hvals].
  { intros v Hin. apply fv_vars in Hin. destruct Hin as [[]|Hin].
    destruct (assocN v vars) eqn:Ev; [|congruence]. eapply Hv; exact Ev. }
  exists vals. split; [exact Hvals|].
  cbn [eval]. rewrite Hvals.
  rewrite (map_opt_total _ _ _ (fun i => subst vars (combine (fv vars (dim + 1) a []) (row (map tm_list vals) i) ++ rho) a)); [reflexivity|].
  intros i _. eapply TemplateProofs.plain_template_is_substitution; [exact Hm| |exact E1].
  intros s d Hsd. rewrite assocN_app.
  destruct (assocN s (combine (fv vars (dim + 1) a []) (row (map tm_list vals) i))); [discriminate|]. eapply Hv; exact Hsd.
Qed.

(** ((s13 b) ...) with b = (u1 u2): two instances, s13 renamed in each *)
Example ex_single_ellipsis :
  expand_template c0 [(2%N, 1)] 50 (L [L [TSym 13%N; TSym 2%N]; TSym DOTS]) [(2%N, L [TUser 1%N; TUser 2%N])]
  = Some (L [L [TRen 13%N; TUser 1%N]; L [TRen 13%N; TUser 2%N]]).
Proof. vm_compute. reflexivity. Qed.
